/-
Helper lemmas for C06 (engine front ends and the frame property of the interpreter).
-/
import PybtexModel.Model.Engine
import PybtexModel.Lemmas.Crossref

namespace Pybtex.Engine
open Pybtex Pybtex.Interp

/-! ### the `.aux` reader returns a style and a data list at top level -/

theorem finish_top_ok (prev : Option Aux.Ctx) (st st' : Aux.St) (h : Aux.finish prev true st = .ok st') :
    (∃ style, st'.style = some style) ∧ (∃ data, st'.data = some data) := by
  unfold Aux.finish at h
  simp only [Bool.true_and] at h
  split at h
  · cases h
  · split at h
    · cases h
    · split at h
      · cases h
      · rename_i h1 h2
        cases h
        constructor
        · cases hs : st'.style with
          | none => simp [hs] at h2
          | some x => exact ⟨x, rfl⟩
        · cases hd : st'.data with
          | none => simp [hd] at h1
          | some x => exact ⟨x, rfl⟩

theorem parse_ok_style_data (fs : Aux.FS) (fuel : Nat) (p : Aux.Path) (st : Aux.St)
    (h : Aux.parse fs fuel p = .ok st) :
    (∃ style, st.style = some style) ∧ (∃ data, st.data = some data) := by
  unfold Aux.parse at h
  cases fuel with
  | zero => simp [Aux.parseFile] at h
  | succ n =>
    simp only [Aux.parseFile] at h
    split at h
    · cases h
    · split at h
      · cases h
      · exact finish_top_ok _ _ _ h


/-! ### with a `bib_format` reader the `.bib` texts are not consulted -/

theorem runCommand_alt (fuel : Nat) (ts ts' cs cs' : List Str) (mc : Int)
    (db : List (Str × Bib.Entry) × List Str) (c : Bst.Command) (s : St) :
    runCommand fuel { bibTexts := ts, citations := cs, minCrossrefs := mc, alt := some db } c s =
      runCommand fuel { bibTexts := ts', citations := cs', minCrossrefs := mc, alt := some db } c s := by
  simp only [runCommand]

theorem runProgram_alt (fuel : Nat) (ts ts' cs cs' : List Str) (mc : Int)
    (db : List (Str × Bib.Entry) × List Str) (prog : Bst.Program) (s : St) :
    runProgram fuel { bibTexts := ts, citations := cs, minCrossrefs := mc, alt := some db } prog s =
      runProgram fuel { bibTexts := ts', citations := cs', minCrossrefs := mc, alt := some db } prog s := by
  induction prog generalizing s with
  | nil => rfl
  | cons c cs ih =>
    simp only [runProgram]
    rw [runCommand_alt fuel ts ts' _ _ mc db c s]
    cases runCommand fuel { bibTexts := ts', citations := _, minCrossrefs := mc, alt := some db } c s with
    | error e => rfl
    | ok s' => exact ih s'

theorem run_alt (fuel : Nat) (ts ts' cs : List Str) (mc : Int)
    (db : List (Str × Bib.Entry) × List Str) (prog : Bst.Program) :
    run fuel prog { bibTexts := ts, citations := cs, minCrossrefs := mc, alt := some db } =
      run fuel prog { bibTexts := ts', citations := cs, minCrossrefs := mc, alt := some db } := by
  simp only [run]
  rw [runProgram_alt fuel ts ts' cs cs mc db]


/-- `add_entry` leaves the preamble alone -/
def addStep (st : Bib.St) (ke : Str × Bib.Entry) : Bib.St :=
  match Bib.addEntry st ke.1 ke.2 with | .ok _ st => st | .fail _ st => st

theorem addStep_preamble (st : Bib.St) (ke : Str × Bib.Entry) : (addStep st ke).db.preamble = st.db.preamble := by
  unfold addStep Bib.addEntry Bib.handleError
  split <;> rename_i h <;> revert h <;> repeat' split
  all_goals (intro h; cases h; try rfl)
  simp only []
  split <;> rfl

theorem foldl_addStep_preamble (es : List (Str × Bib.Entry)) (st : Bib.St) :
    (es.foldl addStep st).db.preamble = st.db.preamble := by
  induction es generalizing st with
  | nil => rfl
  | cons ke es ih => rw [List.foldl_cons, ih, addStep_preamble]


/-! ### the `READ` step -/

/-- the parser state `READ` starts from -/
def readSt0 (s : St) : Bib.St :=
  { rest := [], macros := CIDict.ofPairs s.macros,
    db := { wanted := some (CISet.ofList s.citations), citations := CISet.ofList s.citations }, roles := [] }

/-- the parser state after reading: the `.bib` texts, or the entries of another reader -/
def readParsed (inp : Input) (s : St) : Bib.St :=
  match inp.alt with
  | none => (readAll inp.bibTexts (readSt0 s)).1
  | some (es, pre) => es.foldl addStep { readSt0 s with db := { (readSt0 s).db with preamble := pre } }

/-- the state after `READ`, given the parser's final state -/
def readFinish (inp : Input) (s : St) (p : Bib.St) : St :=
  let db := convertDb p.db
  let x := BibData.addExtraCitations db s.citations inp.minCrossrefs
  let m := BibData.removeMissing db x.1
  { s with db := some db, preamble := p.db.preamble.flatten, citations := m.1,
           reports := s.reports ++ p.errs.map Report.bib ++ x.2.map Report.data ++ m.2.map Report.data }

/-- the state `READ` leaves behind when a `bib_format` reader delivered `(es, pre)`: its entries
go through `add_entry` (`addStep`: wanted-set filtering, first key wins) in the reader's order -/
def readAlt (inp : Input) (s : St) (es : List (Str × Bib.Entry)) (pre : List Str) : St :=
  let st0 : Bib.St :=
    { rest := [], macros := CIDict.ofPairs s.macros,
      db := { wanted := some (CISet.ofList s.citations), citations := CISet.ofList s.citations, preamble := pre },
      roles := [] }
  let st := es.foldl addStep st0
  let db := convertDb st.db
  let x := BibData.addExtraCitations db s.citations inp.minCrossrefs
  let m := BibData.removeMissing db x.1
  { s with db := some db, preamble := pre.flatten, citations := m.1,
           reports := s.reports ++ st.errs.map Report.bib ++ x.2.map Report.data ++ m.2.map Report.data }

theorem runCommand_read (fuel : Nat) (inp : Input) (c : Bst.Command) (s : St)
    (h : upper c.name = "READ".toList) :
    runCommand fuel inp c s = .ok (readFinish inp s (readParsed inp s)) := by
  simp only [runCommand, h]
  rw [if_neg (by decide), if_neg (by decide), if_neg (by decide), if_neg (by decide), if_neg (by decide),
    if_neg (by decide), if_pos trivial]
  simp only [readFinish, readParsed, readSt0]
  cases inp.alt with
  | none => rfl
  | some x => rfl

/-! ### `strLt` is a strict total order -/

theorem strLt_irrefl (a : Str) : strLt a a = false := by
  induction a with
  | nil => rfl
  | cons c r ih => simp [strLt, ih]

theorem strLt_trans {a b c : Str} (h1 : strLt a b = true) (h2 : strLt b c = true) : strLt a c = true := by
  induction a generalizing b c with
  | nil =>
    cases b with
    | nil => simp [strLt] at h1
    | cons y b =>
      cases c with
      | nil => simp [strLt] at h2
      | cons z c => simp [strLt]
  | cons x a ih =>
    cases b with
    | nil => simp [strLt] at h1
    | cons y b =>
      cases c with
      | nil => simp [strLt] at h2
      | cons z c =>
        simp only [strLt] at h1 h2 ⊢
        split at h1
        · split at h2
          · rw [if_pos (by omega)]
          · split at h2
            · cases h2
            · rw [if_pos (by omega)]
        · split at h1
          · cases h1
          · split at h2
            · rw [if_pos (by omega)]
            · split at h2
              · cases h2
              · rw [if_neg (by omega), if_neg (by omega)]
                exact ih h1 h2

theorem strLt_asymm {a b : Str} (h : strLt a b = true) : strLt b a = false := by
  cases hb : strLt b a with
  | false => rfl
  | true => have := strLt_trans h hb; rw [strLt_irrefl] at this; cases this

theorem strLt_total {a b : Str} (h1 : strLt a b = false) (h2 : strLt b a = false) : a = b := by
  induction a generalizing b with
  | nil =>
    cases b with
    | nil => rfl
    | cons y b => simp [strLt] at h1
  | cons x a ih =>
    cases b with
    | nil => simp [strLt] at h2
    | cons y b =>
      simp only [strLt] at h1 h2
      split at h1
      · cases h1
      · split at h1
        · split at h2
          · cases h2
          · omega
        · split at h2
          · cases h2
          · have hxy : x = y := Char.ext (UInt32.toNat_inj.mp (by show x.toNat = y.toNat; omega))
            subst hxy
            rw [ih h1 h2]


/-! ### `insertSorted` / `sortByKey`: permutation, sortedness, stability -/

/-- sorted by key: no later element has a smaller key -/
def KeySorted (l : List (Str × Str)) : Prop := l.Pairwise (fun a b => strLt b.1 a.1 = false)

theorem insertSorted_perm (x : Str × Str) (l : List (Str × Str)) : (insertSorted x l).Perm (x :: l) := by
  induction l with
  | nil => exact List.Perm.refl _
  | cons y r ih =>
    simp only [insertSorted]
    split
    · exact List.Perm.refl _
    · exact (List.Perm.cons y ih).trans (List.Perm.swap x y r)

theorem mem_insertSorted {x z : Str × Str} {l : List (Str × Str)} : z ∈ insertSorted x l ↔ z = x ∨ z ∈ l := by
  rw [(insertSorted_perm x l).mem_iff, List.mem_cons]

theorem insertSorted_sorted (x : Str × Str) (l : List (Str × Str)) (h : KeySorted l) :
    KeySorted (insertSorted x l) := by
  induction l with
  | nil => simp [insertSorted, KeySorted]
  | cons y r ih =>
    unfold KeySorted at h ih ⊢
    rw [List.pairwise_cons] at h
    simp only [insertSorted]
    split
    · rename_i hxy
      rw [List.pairwise_cons]
      refine ⟨?_, List.pairwise_cons.2 h⟩
      intro z hz
      rcases List.mem_cons.1 hz with rfl | hz
      · exact strLt_asymm hxy
      · cases hzx : strLt z.1 x.1 with
        | false => rfl
        | true => have := strLt_trans hzx hxy; rw [h.1 z hz] at this; cases this
    · rename_i hxy
      rw [List.pairwise_cons]
      refine ⟨?_, ih h.2⟩
      intro z hz
      rcases mem_insertSorted.1 hz with rfl | hz
      · simpa using hxy
      · exact h.1 z hz

theorem insertSorted_filter (x : Str × Str) (l : List (Str × Str)) (h : KeySorted l) (κ : Str) :
    (insertSorted x l).filter (fun p => p.1 = κ) =
      l.filter (fun p => p.1 = κ) ++ (if x.1 = κ then [x] else []) := by
  induction l with
  | nil => by_cases hx : x.1 = κ <;> simp [insertSorted, hx]
  | cons y r ih =>
    unfold KeySorted at h ih
    rw [List.pairwise_cons] at h
    simp only [insertSorted]
    split
    · rename_i hxy
      by_cases hx : x.1 = κ
      · -- nothing in `y :: r` has key `κ`
        have hnone : (y :: r).filter (fun p => p.1 = κ) = [] := by
          rw [List.filter_eq_nil_iff]
          intro z hz
          have hlt : strLt x.1 z.1 = true := by
            rcases List.mem_cons.1 hz with rfl | hz
            · exact hxy
            · cases hzy : strLt z.1 y.1 with
              | true => rw [h.1 z hz] at hzy; cases hzy
              | false =>
                cases hxz : strLt x.1 z.1 with
                | true => rfl
                | false =>
                  -- `z ≤ x < y ≤ z`
                  cases hzx : strLt z.1 x.1 with
                  | true => have := strLt_trans hzx hxy; rw [hzy] at this; cases this
                  | false => rw [strLt_total hxz hzx] at hxy; rw [hxy] at hzy; cases hzy
          intro hzk
          simp only [decide_eq_true_eq] at hzk
          rw [hx, hzk, strLt_irrefl] at hlt
          cases hlt
        rw [List.filter_cons, if_pos (by simpa using hx), hnone, if_pos hx]
        rfl
      · rw [List.filter_cons, if_neg (by simpa using hx), if_neg hx, List.append_nil]
    · rw [List.filter_cons, List.filter_cons, ih h.2]
      split <;> simp

theorem foldl_insert_spec (l acc : List (Str × Str)) (h : KeySorted acc) :
    let r := l.foldl (fun acc x => insertSorted x acc) acc
    r.Perm (acc ++ l) ∧ KeySorted r ∧
      ∀ κ, r.filter (fun p => p.1 = κ) = acc.filter (fun p => p.1 = κ) ++ l.filter (fun p => p.1 = κ) := by
  induction l generalizing acc with
  | nil => simp [h]
  | cons x l ih =>
    obtain ⟨h1, h2, h3⟩ := ih (insertSorted x acc) (insertSorted_sorted x acc h)
    refine ⟨?_, h2, ?_⟩
    · refine h1.trans ?_
      refine ((insertSorted_perm x acc).append_right l).trans ?_
      simp only [List.cons_append]
      exact List.perm_middle.symm
    · intro κ
      show (l.foldl (fun acc x => insertSorted x acc) (insertSorted x acc)).filter _ = _
      rw [h3 κ, insertSorted_filter x acc h κ, List.filter_cons]
      by_cases hx : x.1 = κ <;> simp [hx]

/-- `list.sort(key=…)`: the result is a permutation, sorted by key, and entries with the same key
keep their order (stability). -/
theorem sortByKey_spec (l : List (Str × Str)) :
    (sortByKey l).Perm l ∧ KeySorted (sortByKey l) ∧
      ∀ κ, (sortByKey l).filter (fun p => p.1 = κ) = l.filter (fun p => p.1 = κ) := by
  have := foldl_insert_spec l [] (by simp [KeySorted])
  simpa [sortByKey] using this


/-! ### `ITERATE` / `REVERSE` / `SORT` as functions of the state -/

/-- `command_iterate` / `command_reverse` over the key list `cits` -/
def iterStep (fuel : Nat) (cits : List Str) (c : Bst.Command) (s : St) : Except IErr St :=
  match c.groups with
  | [t :: _] =>
    match tokName t with
    | .error e => .error e
    | .ok f =>
      match s.vars.getItem f with
      | none => .error (.internal "KeyError: ITERATE function")
      | some o => iterate fuel o cits s
  | _ => .error (.internal "ITERATE argument")

theorem runCommand_iterate (fuel : Nat) (inp : Input) (c : Bst.Command) (s : St)
    (h : upper c.name = "ITERATE".toList) :
    runCommand fuel inp c s = iterStep fuel s.citations c s := by
  simp only [runCommand, h]
  rw [if_neg (by decide), if_neg (by decide), if_neg (by decide), if_neg (by decide), if_neg (by decide),
    if_neg (by decide), if_neg (by decide), if_pos (Or.inl trivial)]
  simp only [iterStep, if_true]
  rcases c with ⟨name, groups⟩
  match groups with
  | [] => rfl
  | [[]] => rfl
  | [t :: tl] => rfl
  | [] :: _ :: _ => rfl
  | (_ :: _) :: _ :: _ => rfl

theorem runCommand_reverse (fuel : Nat) (inp : Input) (c : Bst.Command) (s : St)
    (h : upper c.name = "REVERSE".toList) :
    runCommand fuel inp c s = iterStep fuel s.citations.reverse c s := by
  simp only [runCommand, h]
  rw [if_neg (by decide), if_neg (by decide), if_neg (by decide), if_neg (by decide), if_neg (by decide),
    if_neg (by decide), if_neg (by decide), if_pos (Or.inr trivial)]
  rw [if_neg (by decide)]
  simp only [iterStep]
  rcases c with ⟨name, groups⟩
  match groups with
  | [] => rfl
  | [[]] => rfl
  | [t :: tl] => rfl
  | [] :: _ :: _ => rfl
  | (_ :: _) :: _ :: _ => rfl

theorem mapM_keyed (G : Str → Option (Str × Str)) (g : Str → Option Str)
    (hG : ∀ c, G c = (g c).map fun k => (k, c)) (cits : List Str) (l : List (Str × Str))
    (h : cits.mapM G = some l) :
    l.map (·.2) = cits ∧ ∀ p ∈ l, g p.2 = some p.1 := by
  induction cits generalizing l with
  | nil => simp at h; subst h; simp
  | cons c cs ih =>
    rw [List.mapM_cons] at h
    cases hg : g c with
    | none => simp [hG, hg] at h
    | some k =>
      cases hr : cs.mapM G with
      | none => simp [hr] at h
      | some r =>
        simp [hG c, hg, hr] at h
        subst h
        obtain ⟨h1, h2⟩ := ih r hr
        refine ⟨by simp [h1], ?_⟩
        intro p hp
        rcases List.mem_cons.1 hp with rfl | hp
        · exact hg
        · exact h2 p hp

/-- `command_sort`: the citations, paired with their `sort.key$`, are sorted on the key -/
theorem runCommand_sort_ok (fuel : Nat) (inp : Input) (c : Bst.Command) (s s' : St)
    (h : upper c.name = "SORT".toList) (hrun : runCommand fuel inp c s = .ok s') :
    ∃ l : List (Str × Str), l.map (·.2) = s.citations ∧ (∀ p ∈ l, sortKeyOf s p.2 = some p.1) ∧
      s' = { s with citations := (sortByKey l).map (·.2) } := by
  simp only [runCommand, h] at hrun
  rw [if_neg (by decide), if_neg (by decide), if_neg (by decide), if_neg (by decide), if_neg (by decide),
    if_neg (by decide), if_neg (by decide), if_neg (by decide), if_pos trivial] at hrun
  split at hrun
  · cases hrun
  · rename_i l hl
    cases hrun
    have := mapM_keyed _ (sortKeyOf s) ?_ _ l hl
    · exact ⟨l, this.1, this.2, rfl⟩
    · intro c
      simp only [sortKeyOf]
      split <;> (rename_i hq; simp only [hq]; try rfl)

/-! ### one item per key -/

theorem iterate_items (fuel : Nat) (f : VarObj) (Inv : St → Prop) (item : Str → List Str)
    (hf : ∀ s k s', Inv s → execObj fuel f { s with cur := some k } = .ok s' →
      Inv { s' with cur := none } ∧ s'.lines = s.lines ++ item k)
    (keys : List Str) (s s' : St) (hs : Inv s) (h : iterate fuel f keys s = .ok s') :
    Inv s' ∧ s'.lines = s.lines ++ keys.flatMap item := by
  induction keys generalizing s with
  | nil => simp only [iterate] at h; cases h; exact ⟨hs, by simp⟩
  | cons k ks ih =>
    simp only [iterate] at h
    split at h
    · cases h
    · split at h
      · cases h
      · split at h
        · cases h
        · rename_i s1 h1
          obtain ⟨hi, hl⟩ := hf s k s1 hs h1
          obtain ⟨hi', hl'⟩ := ih { s1 with cur := none } hi h
          exact ⟨hi', by rw [hl']; show s1.lines ++ _ = _; rw [hl, List.flatMap_cons, List.append_assoc]⟩

theorem runProgram_append (fuel : Nat) (inp : Input) (p q : Bst.Program) (s : St) :
    runProgram fuel inp (p ++ q) s =
      match runProgram fuel inp p s with
      | .error e => .error e
      | .ok s' => runProgram fuel inp q s' := by
  induction p generalizing s with
  | nil => rfl
  | cons c cs ih =>
    simp only [List.cons_append, runProgram]
    cases runCommand fuel inp c s with
    | error e => rfl
    | ok s' => exact ih s'


/-! ### the frame property: after `READ` the interpreter sees the database only through the view of the cited keys -/


/-- replace the database and put `pfx` in front of the reports -/
def setDb (db : BibData) (pfx : List Interp.Report) (s : St) : St := { s with db := some db, reports := pfx ++ s.reports }

@[simp] theorem setDb_stack (db : BibData) (pfx : List Interp.Report) (s : St) : (setDb db pfx s).stack = s.stack := rfl
@[simp] theorem setDb_vars (db : BibData) (pfx : List Interp.Report) (s : St) : (setDb db pfx s).vars = s.vars := rfl
@[simp] theorem setDb_macros (db : BibData) (pfx : List Interp.Report) (s : St) : (setDb db pfx s).macros = s.macros := rfl
@[simp] theorem setDb_buffer (db : BibData) (pfx : List Interp.Report) (s : St) : (setDb db pfx s).buffer = s.buffer := rfl
@[simp] theorem setDb_lines (db : BibData) (pfx : List Interp.Report) (s : St) : (setDb db pfx s).lines = s.lines := rfl
@[simp] theorem setDb_entryVars (db : BibData) (pfx : List Interp.Report) (s : St) : (setDb db pfx s).entryVars = s.entryVars := rfl
@[simp] theorem setDb_citations (db : BibData) (pfx : List Interp.Report) (s : St) : (setDb db pfx s).citations = s.citations := rfl
@[simp] theorem setDb_db (db : BibData) (pfx : List Interp.Report) (s : St) : (setDb db pfx s).db = some db := rfl
@[simp] theorem setDb_preamble (db : BibData) (pfx : List Interp.Report) (s : St) : (setDb db pfx s).preamble = s.preamble := rfl
@[simp] theorem setDb_cur (db : BibData) (pfx : List Interp.Report) (s : St) : (setDb db pfx s).cur = s.cur := rfl
@[simp] theorem setDb_reports (db : BibData) (pfx : List Interp.Report) (s : St) : (setDb db pfx s).reports = pfx ++ s.reports := rfl
@[simp] theorem setDb_printed (db : BibData) (pfx : List Interp.Report) (s : St) : (setDb db pfx s).printed = s.printed := rfl
@[simp] theorem frameOf_setDb (db : BibData) (pfx : List Interp.Report) (s : St) (k : Str) : frameOf (setDb db pfx s) k = frameOf s k := rfl

theorem warn_setDb (db : BibData) (pfx : List Interp.Report) (s : St) (m : Str) :
    warn (setDb db pfx s) m = setDb db pfx (warn s m) := by
  simp only [setDb, warn, List.append_assoc]

/-- the two databases show the same thing for every key of `K`: an entry of the same type, the
same value for every field name (own or inherited along the `crossref` chain), the same
`crossref` value -/
def Agree (K : List Str) (db₁ db₂ : BibData) : Prop :=
  ∀ k ∈ K, ∃ e₁ e₂, db₁.entries.getItem k = some e₁ ∧ db₂.entries.getItem k = some e₂ ∧
    e₁.type = e₂.type ∧ (∀ n, bstFieldValue db₁ e₁ n = bstFieldValue db₂ e₂ n) ∧
    bstCrossrefValue db₁ e₁ = bstCrossrefValue db₂ e₂

/-- a state of the run on `db₁` whose current entry and citations are keys of `K` -/
structure Good (K : List Str) (db₁ : BibData) (s : St) : Prop where
  hdb : s.db = some db₁
  hcur : ∀ k, s.cur = some k → k ∈ K
  hcit : ∀ c ∈ s.citations, c ∈ K

/-- two interpreter states that differ in the database only (`db₁` resp. `db₂`) -/
def Sim (K : List Str) (db₁ db₂ : BibData) (pfx : List Interp.Report) (s₁ s₂ : St) : Prop :=
  Good K db₁ s₁ ∧ s₂ = setDb db₂ pfx s₁

/-- same error, or similar states -/
def SimR (K : List Str) (db₁ db₂ : BibData) (pfx : List Interp.Report) (r₁ r₂ : Except IErr St) : Prop :=
  match r₁, r₂ with
  | .ok a, .ok b => Sim K db₁ db₂ pfx a b
  | .error e, .error e' => e = e'
  | _, _ => False

variable {K : List Str} {db₁ db₂ : BibData} {pfx : List Interp.Report}

/-- a state-passing step that does not look at the database -/
def StepOK (K : List Str) (db₁ : BibData) {α : Type} (P : St → Except IErr (α × St)) : Prop :=
  ∀ s, Good K db₁ s → ∀ db pfx,
    (∃ e, P s = .error e ∧ P (setDb db pfx s) = .error e) ∨
    (∃ a s', P s = .ok (a, s') ∧ P (setDb db pfx s) = .ok (a, setDb db pfx s') ∧ Good K db₁ s')

theorem pop_ok : StepOK K db₁ pop := by
  intro s g db pfx
  unfold pop
  simp only [setDb_stack]
  cases s.stack with
  | nil => exact .inl ⟨_, rfl, rfl⟩
  | cons v r => exact .inr ⟨v, _, rfl, rfl, ⟨g.1, g.2, g.3⟩⟩

theorem popInt_ok : StepOK K db₁ popInt := by
  intro s g db pfx
  unfold popInt
  rcases pop_ok s g db pfx with ⟨e, h1, h2⟩ | ⟨v, s', h1, h2, g'⟩ <;> simp only [h1, h2]
  · exact .inl ⟨_, rfl, rfl⟩
  · cases v
    case int n => exact .inr ⟨n, s', rfl, rfl, g'⟩
    all_goals exact .inl ⟨_, rfl, rfl⟩

theorem popStr_ok : StepOK K db₁ popStr := by
  intro s g db pfx
  unfold popStr
  rcases pop_ok s g db pfx with ⟨e, h1, h2⟩ | ⟨v, s', h1, h2, g'⟩ <;> simp only [h1, h2]
  · exact .inl ⟨_, rfl, rfl⟩
  · cases v
    case str x => exact .inr ⟨x, s', rfl, rfl, g'⟩
    case missing x => exact .inr ⟨[], s', rfl, rfl, g'⟩
    all_goals exact .inl ⟨_, rfl, rfl⟩

theorem sim_ok (s : St) (g : Good K db₁ s) : SimR K db₁ db₂ pfx (.ok s) (.ok (setDb db₂ pfx s)) := ⟨g, rfl⟩

syntax "pop_step " term " with " ident ident ident : tactic
macro_rules
  | `(tactic| pop_step $l with $v $s' $g') =>
    `(tactic| (have hl := $l
               rcases hl with ⟨_, h1, h2⟩ | ⟨$v:ident, $s':ident, h1, h2, $g':ident⟩
               · simp only [h1, h2]; exact rfl
               simp only [h1, h2]
               clear h1 h2))

/-- one pop of whatever kind the goal shows; `g'` names the `Good` fact of the new state -/
syntax "auto_pop " term:max term:max " with " ident : tactic
macro_rules
  | `(tactic| auto_pop $db $pp with $g') =>
    `(tactic| first
      | (have hl := pop_ok _ ‹Good _ _ _› $db $pp
         rcases hl with ⟨_, h1, h2⟩ | ⟨_, _, h1, h2, $g':ident⟩
         · simp only [h1, h2]; exact rfl
         simp only [h1, h2])
      | (have hl := popInt_ok _ ‹Good _ _ _› $db $pp
         rcases hl with ⟨_, h1, h2⟩ | ⟨_, _, h1, h2, $g':ident⟩
         · simp only [h1, h2]; exact rfl
         simp only [h1, h2])
      | (have hl := popStr_ok _ ‹Good _ _ _› $db $pp
         rcases hl with ⟨_, h1, h2⟩ | ⟨_, _, h1, h2, $g':ident⟩
         · simp only [h1, h2]; exact rfl
         simp only [h1, h2]))

/-- closes a leaf: the same error, or states that differ as `setDb` says (reports: associativity) -/
syntax "sim_leaf " ident : tactic
macro_rules
  | `(tactic| sim_leaf $g) =>
    `(tactic| first
      | exact rfl
      | exact ⟨⟨($g).1, ($g).2, ($g).3⟩, by simp only [setDb, warn, push, setEntryVar, frameOf, List.append_assoc]⟩)

def isPlain : Builtin → Bool
  | .callType | .if_ | .while_ | .type_ | .preamble => false
  | _ => true

/-- every built-in that neither looks at the database nor executes anything: pops, then a
computation on the popped values.  Two shapes of code are tried for each built-in: pops followed
by matches on the popped values; one pop whose result is matched together with the value. -/
theorem sim_simple (b : Builtin) (fuel : Nat) (s : St) (g : Good K db₁ s) (hb : isPlain b = true) :
    SimR K db₁ db₂ pfx (runBuiltin (fuel + 1) b s) (runBuiltin (fuel + 1) b (setDb db₂ pfx s)) := by
  cases b
  case callType | if_ | while_ | type_ | preamble => cases hb
  all_goals simp only [runBuiltin]
  all_goals first
    | (try (auto_pop db₂ pfx with g1; try (auto_pop db₂ pfx with g2; try (auto_pop db₂ pfx with g3)))
       try simp only [setDb_stack, setDb_vars, setDb_cur, setDb_buffer, setDb_lines, setDb_printed]
       repeat' split
       all_goals first | sim_leaf g3 | sim_leaf g2 | sim_leaf g1 | sim_leaf g
       done)
    | (pop_step pop_ok s g db₂ pfx with v s1 g1
       cases v
       case int n => first | sim_leaf g1 | (rcases n with (_ | m) | m <;> sim_leaf g1)
       case str x => first | sim_leaf g1 | (rcases x with _ | ⟨c, _ | ⟨c', r⟩⟩ <;> sim_leaf g1)
       all_goals sim_leaf g1
       done)

/-- the current entry: present in both databases with the same view, or the same error -/
theorem curEntry_cases (hA : Agree K db₁ db₂) (s : St) (g : Good K db₁ s) :
    (∃ e, curEntry s = .error e ∧ curEntry (setDb db₂ pfx s) = .error e) ∨
    (∃ k e₁ e₂, curEntry s = .ok (k, e₁, db₁) ∧ curEntry (setDb db₂ pfx s) = .ok (k, e₂, db₂) ∧
      e₁.type = e₂.type ∧ (∀ n, bstFieldValue db₁ e₁ n = bstFieldValue db₂ e₂ n) ∧
      bstCrossrefValue db₁ e₁ = bstCrossrefValue db₂ e₂) := by
  unfold curEntry
  simp only [setDb_cur, setDb_db, g.hdb]
  cases hc : s.cur with
  | none => exact .inl ⟨_, rfl, rfl⟩
  | some k =>
    obtain ⟨e₁, e₂, h1, h2, h3, h4, h5⟩ := hA k (g.hcur k hc)
    simp only [h1, h2]
    exact .inr ⟨k, e₁, e₂, rfl, rfl, h3, h4, h5⟩

theorem SimR.cases {r₁ r₂ : Except IErr St} (h : SimR K db₁ db₂ pfx r₁ r₂) :
    (∃ e, r₁ = .error e ∧ r₂ = .error e) ∨
    (∃ s, r₁ = .ok s ∧ r₂ = .ok (setDb db₂ pfx s) ∧ Good K db₁ s) := by
  cases r₁ with
  | error e =>
    cases r₂ with
    | error e' => exact .inl ⟨e, rfl, by rw [show e = e' from h]⟩
    | ok s2 => exact h.elim
  | ok s1 =>
    cases r₂ with
    | error e' => exact h.elim
    | ok s2 => obtain ⟨g1, rfl⟩ := h; exact .inr ⟨s1, rfl, rfl, g1⟩

theorem frame_all (hA : Agree K db₁ db₂) : ∀ fuel : Nat,
    (∀ v s, Good K db₁ s → SimR K db₁ db₂ pfx (execVal fuel v s) (execVal fuel v (setDb db₂ pfx s))) ∧
    (∀ o s, Good K db₁ s → SimR K db₁ db₂ pfx (execObj fuel o s) (execObj fuel o (setDb db₂ pfx s))) ∧
    (∀ t s, Good K db₁ s → SimR K db₁ db₂ pfx (execTok fuel t s) (execTok fuel t (setDb db₂ pfx s))) ∧
    (∀ ts s, Good K db₁ s → SimR K db₁ db₂ pfx (execBody fuel ts s) (execBody fuel ts (setDb db₂ pfx s))) ∧
    (∀ p f s, Good K db₁ s → SimR K db₁ db₂ pfx (whileLoop fuel p f s) (whileLoop fuel p f (setDb db₂ pfx s))) ∧
    (∀ b s, Good K db₁ s → SimR K db₁ db₂ pfx (runBuiltin fuel b s) (runBuiltin fuel b (setDb db₂ pfx s))) := by
  intro fuel
  induction fuel with
  | zero =>
    refine ⟨?_, ?_, ?_, ?_, ?_, ?_⟩ <;> intros <;>
      simp only [execVal, execObj, execTok, execBody, whileLoop, runBuiltin] <;> exact rfl
  | succ n ih =>
    obtain ⟨ihVal, ihObj, ihTok, ihBody, ihWhile, ihB⟩ := ih
    refine ⟨?_, ?_, ?_, ?_, ?_, ?_⟩
    · -- execVal
      intro v s g
      cases v with
      | fn body => simp only [execVal]; exact ihBody body s g
      | ref name =>
        simp only [execVal, setDb_vars]
        cases s.vars.getItem name with
        | none => exact rfl
        | some o => exact ihObj o s g
      | int _ => exact rfl
      | str _ => exact rfl
      | missing _ => exact rfl
    · -- execObj
      intro o s g
      cases o with
      | builtin b => simp only [execObj]; exact ihB b s g
      | gint v => exact ⟨⟨g.1, g.2, g.3⟩, rfl⟩
      | gstr v => exact ⟨⟨g.1, g.2, g.3⟩, rfl⟩
      | eint nm =>
        simp only [execObj, setDb_cur, frameOf_setDb]
        cases s.cur with
        | none => exact rfl
        | some k => exact ⟨⟨g.1, g.2, g.3⟩, rfl⟩
      | estr nm =>
        simp only [execObj, setDb_cur, frameOf_setDb]
        cases s.cur with
        | none => exact rfl
        | some k => exact ⟨⟨g.1, g.2, g.3⟩, rfl⟩
      | field nm =>
        simp only [execObj]
        rcases curEntry_cases (pfx := pfx) hA s g with ⟨e, h1, h2⟩ | ⟨k, e₁, e₂, h1, h2, h3, h4, h5⟩
        · simp only [h1, h2]; exact rfl
        · simp only [h1, h2, h4 nm]
          exact ⟨⟨g.1, g.2, g.3⟩, rfl⟩
      | crossref =>
        simp only [execObj]
        rcases curEntry_cases (pfx := pfx) hA s g with ⟨e, h1, h2⟩ | ⟨k, e₁, e₂, h1, h2, h3, h4, h5⟩
        · simp only [h1, h2]; exact rfl
        · simp only [h1, h2, h5]
          exact ⟨⟨g.1, g.2, g.3⟩, rfl⟩
      | func body => simp only [execObj]; exact ihBody body s g
    · -- execTok
      intro t s g
      cases t with
      | int v => exact ⟨⟨g.1, g.2, g.3⟩, rfl⟩
      | str v => exact ⟨⟨g.1, g.2, g.3⟩, rfl⟩
      | fn body => exact ⟨⟨g.1, g.2, g.3⟩, rfl⟩
      | quoted nm =>
        simp only [execTok]
        by_cases hc : s.vars.contains nm = true
        · have hc' : (setDb db₂ pfx s).vars.contains nm = true := hc
          rw [if_pos hc, if_pos hc']; exact ⟨⟨g.1, g.2, g.3⟩, rfl⟩
        · have hc' : ¬ (setDb db₂ pfx s).vars.contains nm = true := hc
          rw [if_neg hc, if_neg hc']; exact rfl
      | name nm =>
        simp only [execTok, setDb_vars]
        cases s.vars.getItem nm with
        | none => exact rfl
        | some o => exact ihObj o s g
    · -- execBody
      intro ts s g
      cases ts with
      | nil => exact ⟨g, rfl⟩
      | cons t ts =>
        simp only [execBody]
        rcases (ihTok t s g).cases with ⟨e, h1, h2⟩ | ⟨s1, h1, h2, g1⟩ <;> simp only [h1, h2]
        · exact rfl
        · exact ihBody ts s1 g1
    · -- whileLoop
      intro p f s g
      simp only [whileLoop]
      rcases (ihVal p s g).cases with ⟨e, h1, h2⟩ | ⟨s1, h1, h2, g1⟩ <;> simp only [h1, h2]
      · exact rfl
      pop_step popInt_ok s1 g1 db₂ pfx with c s2 g2
      split
      · exact ⟨g2, rfl⟩
      · rcases (ihVal f s2 g2).cases with ⟨e, h1, h2⟩ | ⟨s3, h1, h2, g3⟩ <;> simp only [h1, h2]
        · exact rfl
        · exact ihWhile p f s3 g3
    · -- runBuiltin
      intro b s g
      by_cases hb : isPlain b = true
      · exact sim_simple b n s g hb
      cases b
      case callType =>
        simp only [runBuiltin]
        rcases curEntry_cases (pfx := pfx) hA s g with ⟨e, h1, h2⟩ | ⟨k, e₁, e₂, h1, h2, h3, h4, h5⟩
        · simp only [h1, h2]; exact rfl
        · simp only [h1, h2, setDb_vars, ← h3]
          cases s.vars.getItem e₁.type with
          | some o => exact ihObj o s g
          | none =>
            simp only [warn_setDb]
            have gw : Good K db₁ (warn s ("entry type for \"".toList ++ k ++ "\" isn't style-file defined".toList)) :=
              ⟨g.1, g.2, g.3⟩
            simp only [setDb_vars]
            cases (warn s ("entry type for \"".toList ++ k ++ "\" isn't style-file defined".toList)).vars.getItem
                "default.type".toList with
            | some o => exact ihObj o _ gw
            | none => exact ⟨gw, rfl⟩
      case if_ =>
        simp only [runBuiltin]
        pop_step pop_ok s g db₂ pfx with f1 s1 g1
        pop_step pop_ok s1 g1 db₂ pfx with f2 s2 g2
        pop_step popInt_ok s2 g2 db₂ pfx with c s3 g3
        split
        · exact ihVal f2 s3 g3
        · exact ihVal f1 s3 g3
      case while_ =>
        simp only [runBuiltin]
        pop_step pop_ok s g db₂ pfx with f s1 g1
        pop_step pop_ok s1 g1 db₂ pfx with p s2 g2
        exact ihWhile p f s2 g2
      case type_ =>
        simp only [runBuiltin]
        rcases curEntry_cases (pfx := pfx) hA s g with ⟨e, h1, h2⟩ | ⟨k, e₁, e₂, h1, h2, h3, h4, h5⟩
        · simp only [h1, h2]; exact rfl
        · simp only [h1, h2, h3]
          exact ⟨⟨g.1, g.2, g.3⟩, rfl⟩
      case preamble =>
        simp only [runBuiltin, setDb_db, g.hdb, setDb_preamble]
        exact ⟨⟨g.1, g.2, g.3⟩, rfl⟩
      all_goals exact absurd rfl hb


/-! ### lifting the frame property to `iterate`, commands and programs -/

theorem iterate_cons_error (fuel : Nat) (f : VarObj) (k : Str) (ks : List Str) (s : St) (db : BibData)
    (e : IErr) (hdb : s.db = some db) (hc : db.entries.contains k = true)
    (h : execObj fuel f { s with cur := some k } = .error e) : iterate fuel f (k :: ks) s = .error e := by
  simp only [iterate, h]
  simp only [hdb, hc]
  rfl

theorem iterate_cons_ok (fuel : Nat) (f : VarObj) (k : Str) (ks : List Str) (s s1 : St) (db : BibData)
    (hdb : s.db = some db) (hc : db.entries.contains k = true)
    (h : execObj fuel f { s with cur := some k } = .ok s1) :
    iterate fuel f (k :: ks) s = iterate fuel f ks { s1 with cur := none } := by
  simp only [iterate, h]
  simp only [hdb, hc]
  rfl

theorem iterate_sim (hA : Agree K db₁ db₂) (fuel : Nat) (f : VarObj) (keys : List Str)
    (hk : ∀ k ∈ keys, k ∈ K) (s : St) (g : Good K db₁ s) :
    SimR K db₁ db₂ pfx (iterate fuel f keys s) (iterate fuel f keys (setDb db₂ pfx s)) := by
  induction keys generalizing s with
  | nil => exact ⟨g, rfl⟩
  | cons k ks ih =>
    obtain ⟨e₁, e₂, h1, h2, -⟩ := hA k (hk k (List.mem_cons_self ..))
    have c1 : db₁.entries.contains k = true := by
      show (db₁.entries.getItem k).isSome = true
      rw [h1]; rfl
    have c2 : db₂.entries.contains k = true := by
      show (db₂.entries.getItem k).isSome = true
      rw [h2]; rfl
    have gk : Good K db₁ { s with cur := some k } :=
      ⟨g.1, fun k' hk' => by cases hk'; exact hk k (List.mem_cons_self ..), g.3⟩
    have := (frame_all (pfx := pfx) hA fuel).2.1 f _ gk
    rcases this.cases with ⟨e, h1, h2⟩ | ⟨s1, h1, h2, g1⟩
    · rw [iterate_cons_error fuel f k ks s db₁ e g.hdb c1 h1,
        iterate_cons_error fuel f k ks (setDb db₂ pfx s) db₂ e rfl c2 h2]
      exact rfl
    · rw [iterate_cons_ok fuel f k ks s s1 db₁ g.hdb c1 h1,
        iterate_cons_ok fuel f k ks (setDb db₂ pfx s) (setDb db₂ pfx s1) db₂ rfl c2 h2]
      exact ih (fun k hk' => hk k (List.mem_cons_of_mem _ hk')) { s1 with cur := none }
        ⟨g1.1, (fun _ hk' => by cases hk'), g1.3⟩

theorem addVariable_sim (n : Str) (v : VarObj) (s : St) (g : Good K db₁ s) :
    SimR K db₁ db₂ pfx (addVariable s n v) (addVariable (setDb db₂ pfx s) n v) := by
  unfold addVariable
  by_cases hc : s.vars.contains n = true
  · have hc' : (setDb db₂ pfx s).vars.contains n = true := hc
    rw [if_pos hc, if_pos hc']; exact rfl
  · have hc' : ¬ (setDb db₂ pfx s).vars.contains n = true := hc
    rw [if_neg hc, if_neg hc']; exact ⟨⟨g.1, g.2, g.3⟩, rfl⟩

theorem declare_sim (mk : Str → VarObj) (ts : List BTok) (s : St) (g : Good K db₁ s) :
    SimR K db₁ db₂ pfx (declare mk ts s) (declare mk ts (setDb db₂ pfx s)) := by
  induction ts generalizing s with
  | nil => exact ⟨g, rfl⟩
  | cons t ts ih =>
    simp only [declare]
    cases tokName t with
    | error e => exact rfl
    | ok n =>
      simp only []
      rcases (addVariable_sim (db₂ := db₂) (pfx := pfx) n (mk n) s g).cases with ⟨e, h1, h2⟩ | ⟨s1, h1, h2, g1⟩ <;>
        simp only [h1, h2]
      · exact rfl
      · exact ih s1 g1

theorem overwrite_sim (v : VarObj) (ts : List BTok) (s : St) (g : Good K db₁ s) :
    SimR K db₁ db₂ pfx (overwrite v ts s) (overwrite v ts (setDb db₂ pfx s)) := by
  induction ts generalizing s with
  | nil => exact ⟨g, rfl⟩
  | cons t ts ih =>
    simp only [overwrite]
    cases tokName t with
    | error e => exact rfl
    | ok n => exact ih _ ⟨g.1, g.2, g.3⟩

theorem mem_sortByKey_snd (l : List (Str × Str)) : ∀ c ∈ (sortByKey l).map (·.2), c ∈ l.map (·.2) := by
  intro c hc
  obtain ⟨p, hp, rfl⟩ := List.mem_map.1 hc
  exact List.mem_map.2 ⟨p, ((sortByKey_spec l).1.mem_iff).1 hp, rfl⟩

theorem runCommand_sim (hA : Agree K db₁ db₂) (fuel : Nat) (inp₁ inp₂ : Input) (c : Bst.Command)
    (hc : upper c.name ≠ "READ".toList) (s : St) (g : Good K db₁ s) :
    SimR K db₁ db₂ pfx (runCommand fuel inp₁ c s) (runCommand fuel inp₂ c (setDb db₂ pfx s)) := by
  by_cases hsort : upper c.name = "SORT".toList
  · -- SORT
    have hR : runCommand fuel inp₂ c (setDb db₂ pfx s) = (runCommand fuel inp₁ c s).map (setDb db₂ pfx) := by
      simp only [runCommand, hsort]
      rw [if_neg (by decide), if_neg (by decide), if_neg (by decide), if_neg (by decide), if_neg (by decide),
        if_neg (by decide), if_neg (by decide), if_neg (by decide), if_pos trivial,
        if_neg (by decide), if_neg (by decide), if_neg (by decide), if_neg (by decide), if_neg (by decide),
        if_neg (by decide), if_neg (by decide), if_neg (by decide), if_pos trivial]
      simp only [setDb_citations, frameOf_setDb]
      split <;> rfl
    rw [hR]
    cases h : runCommand fuel inp₁ c s with
    | error e => exact rfl
    | ok s1 =>
      obtain ⟨l, hl1, -, rfl⟩ := runCommand_sort_ok fuel inp₁ c s s1 hsort h
      refine ⟨⟨g.1, g.2, ?_⟩, rfl⟩
      intro c hc
      exact g.3 c (hl1 ▸ mem_sortByKey_snd l c hc)
  by_cases hit : upper c.name = "ITERATE".toList
  · rw [runCommand_iterate _ _ _ _ hit, runCommand_iterate _ _ _ _ hit]
    simp only [iterStep, setDb_vars, setDb_citations]
    split
    · split
      · exact rfl
      · split
        · exact rfl
        · exact iterate_sim hA fuel _ _ g.3 s g
    · exact rfl
  by_cases hrev : upper c.name = "REVERSE".toList
  · rw [runCommand_reverse _ _ _ _ hrev, runCommand_reverse _ _ _ _ hrev]
    simp only [iterStep, setDb_vars, setDb_citations]
    split
    · split
      · exact rfl
      · split
        · exact rfl
        · exact iterate_sim hA fuel _ _ (fun k hk => g.3 k (List.mem_reverse.1 hk)) s g
    · exact rfl
  simp only [runCommand, hc, hsort, hit, hrev, false_or, if_false]
  split
  · -- ENTRY
    split
    · rename_i fields ints strings _
      rcases (declare_sim (db₂ := db₂) (pfx := pfx) (fun n => VarObj.field n) fields s g).cases with
        ⟨e, h1, h2⟩ | ⟨s1, h1, h2, g1⟩ <;> simp only [h1, h2]
      · exact rfl
      rcases (addVariable_sim (db₂ := db₂) (pfx := pfx) "crossref".toList .crossref s1 g1).cases with
        ⟨e, h1, h2⟩ | ⟨s2, h1, h2, g2⟩ <;> simp only [h1, h2]
      · exact rfl
      rcases (declare_sim (db₂ := db₂) (pfx := pfx) (fun n => VarObj.eint n) ints s2 g2).cases with
        ⟨e, h1, h2⟩ | ⟨s3, h1, h2, g3⟩ <;> simp only [h1, h2]
      · exact rfl
      exact declare_sim _ _ s3 g3
    · exact rfl
  split
  · -- EXECUTE
    split
    · exact (frame_all (pfx := pfx) hA fuel).2.2.1 _ s g
    · exact rfl
  split
  · -- FUNCTION
    split
    · split
      · exact rfl
      · exact addVariable_sim _ _ s g
    · exact rfl
  split
  · -- INTEGERS
    split
    · exact overwrite_sim _ _ s g
    · exact rfl
  split
  · -- STRINGS
    split
    · exact overwrite_sim _ _ s g
    · exact rfl
  split
  · -- MACRO
    split
    · split
      · exact ⟨⟨g.1, g.2, g.3⟩, rfl⟩
      · exact rfl
    · exact rfl
  exact rfl

theorem runProgram_sim (hA : Agree K db₁ db₂) (fuel : Nat) (inp₁ inp₂ : Input) (prog : Bst.Program)
    (hp : ∀ c ∈ prog, upper c.name ≠ "READ".toList) (s : St) (g : Good K db₁ s) :
    SimR K db₁ db₂ pfx (runProgram fuel inp₁ prog s) (runProgram fuel inp₂ prog (setDb db₂ pfx s)) := by
  induction prog generalizing s with
  | nil => exact ⟨g, rfl⟩
  | cons c cs ih =>
    simp only [runProgram]
    rcases (runCommand_sim (pfx := pfx) hA fuel inp₁ inp₂ c (hp c (List.mem_cons_self ..)) s g).cases with
      ⟨e, h1, h2⟩ | ⟨s1, h1, h2, g1⟩ <;> simp only [h1, h2]
    · exact rfl
    · exact ih (fun c hc => hp c (List.mem_cons_of_mem _ hc)) s1 g1



/-! ### nothing but `iterate` changes the current entry, nothing but `READ` the database -/

/-- same current entry, database and citation list -/
def Same (s s' : St) : Prop := s'.cur = s.cur ∧ s'.db = s.db ∧ s'.citations = s.citations

/-- the result, if any, has the current entry, the database and the citations of `s` -/
def KeepR (s : St) (r : Except IErr St) : Prop :=
  match r with
  | .ok s' => Same s s'
  | .error _ => True

theorem keepR_trans {s s1 : St} {r : Except IErr St} (h : Same s s1) (h' : KeepR s1 r) : KeepR s r := by
  cases r with
  | error e => trivial
  | ok s' => exact ⟨h'.1.trans h.1, h'.2.1.trans h.2.1, h'.2.2.trans h.2.2⟩

/-- marker: the state the code under scrutiny runs on -/
structure At (s : St) : Prop where
  t : True

def StepC {α : Type} (P : St → Except IErr (α × St)) : Prop :=
  ∀ s, At s → (∃ e, P s = .error e) ∨ (∃ a s', P s = .ok (a, s') ∧ Same s s' ∧ At s')

theorem pop_c : StepC pop := by
  intro s _
  unfold pop
  cases s.stack with
  | nil => exact .inl ⟨_, rfl⟩
  | cons v r => exact .inr ⟨v, _, rfl, ⟨rfl, rfl, rfl⟩, ⟨trivial⟩⟩

theorem popInt_c : StepC popInt := by
  intro s a
  unfold popInt
  rcases pop_c s a with ⟨e, h1⟩ | ⟨v, s', h1, h2, a'⟩ <;> simp only [h1]
  · exact .inl ⟨_, rfl⟩
  · cases v
    case int n => exact .inr ⟨n, s', rfl, h2, a'⟩
    all_goals exact .inl ⟨_, rfl⟩

theorem popStr_c : StepC popStr := by
  intro s a
  unfold popStr
  rcases pop_c s a with ⟨e, h1⟩ | ⟨v, s', h1, h2, a'⟩ <;> simp only [h1]
  · exact .inl ⟨_, rfl⟩
  · cases v
    case str x => exact .inr ⟨x, s', rfl, h2, a'⟩
    case missing x => exact .inr ⟨[], s', rfl, h2, a'⟩
    all_goals exact .inl ⟨_, rfl⟩

syntax "cur_pop" : tactic
macro_rules
  | `(tactic| cur_pop) =>
    `(tactic| first
      | (have hl := pop_c _ ‹At _›
         rcases hl with ⟨_, h1⟩ | ⟨_, _, h1, h2, _⟩
         · simp only [h1]; trivial
         simp only [h1]; refine keepR_trans h2 ?_)
      | (have hl := popInt_c _ ‹At _›
         rcases hl with ⟨_, h1⟩ | ⟨_, _, h1, h2, _⟩
         · simp only [h1]; trivial
         simp only [h1]; refine keepR_trans h2 ?_)
      | (have hl := popStr_c _ ‹At _›
         rcases hl with ⟨_, h1⟩ | ⟨_, _, h1, h2, _⟩
         · simp only [h1]; trivial
         simp only [h1]; refine keepR_trans h2 ?_))

theorem cur_simple (b : Builtin) (fuel : Nat) (s : St)
    (hb : b ≠ .callType ∧ b ≠ .if_ ∧ b ≠ .while_) :
    KeepR s (runBuiltin (fuel + 1) b s) := by
  have a0 : At s := ⟨trivial⟩
  cases b
  case callType | if_ | while_ => simp at hb
  all_goals simp only [runBuiltin]
  all_goals repeat cur_pop
  all_goals repeat' split
  all_goals first
    | exact ⟨rfl, rfl, rfl⟩
    | trivial
    | (have hq := ‹(Except.ok _ : Except IErr (Val × St)) = Except.ok _›
       cases hq
       exact ⟨rfl, rfl, rfl⟩)

/-- `execVal`, `execObj`, `execTok`, `execBody`, `whileLoop`, `runBuiltin` leave `cur` alone -/
theorem exec_cur : ∀ fuel : Nat,
    (∀ v s, KeepR s (execVal fuel v s)) ∧
    (∀ o s, KeepR s (execObj fuel o s)) ∧
    (∀ t s, KeepR s (execTok fuel t s)) ∧
    (∀ ts s, KeepR s (execBody fuel ts s)) ∧
    (∀ p f s, KeepR s (whileLoop fuel p f s)) ∧
    (∀ b s, KeepR s (runBuiltin fuel b s)) := by
  intro fuel
  induction fuel with
  | zero =>
    refine ⟨?_, ?_, ?_, ?_, ?_, ?_⟩ <;> intros <;>
      simp only [execVal, execObj, execTok, execBody, whileLoop, runBuiltin] <;> trivial
  | succ n ih =>
    obtain ⟨ihVal, ihObj, ihTok, ihBody, ihWhile, ihB⟩ := ih
    refine ⟨?_, ?_, ?_, ?_, ?_, ?_⟩
    · intro v s
      cases v with
      | fn body => simp only [execVal]; exact ihBody body s
      | ref name =>
        simp only [execVal]
        cases s.vars.getItem name with
        | none => trivial
        | some o => exact ihObj o s
      | int _ => trivial
      | str _ => trivial
      | missing _ => trivial
    · intro o s
      cases o with
      | builtin b => simp only [execObj]; exact ihB b s
      | gint v => exact ⟨rfl, rfl, rfl⟩
      | gstr v => exact ⟨rfl, rfl, rfl⟩
      | eint nm =>
        simp only [execObj]
        cases hc : s.cur with
        | none => trivial
        | some k => exact ⟨rfl, rfl, rfl⟩
      | estr nm =>
        simp only [execObj]
        cases hc : s.cur with
        | none => trivial
        | some k => exact ⟨rfl, rfl, rfl⟩
      | field nm =>
        simp only [execObj]
        cases curEntry s with
        | error e => trivial
        | ok r => exact ⟨rfl, rfl, rfl⟩
      | crossref =>
        simp only [execObj]
        cases curEntry s with
        | error e => trivial
        | ok r => exact ⟨rfl, rfl, rfl⟩
      | func body => simp only [execObj]; exact ihBody body s
    · intro t s
      cases t with
      | int v => exact ⟨rfl, rfl, rfl⟩
      | str v => exact ⟨rfl, rfl, rfl⟩
      | fn body => exact ⟨rfl, rfl, rfl⟩
      | quoted nm =>
        simp only [execTok]
        split
        · exact ⟨rfl, rfl, rfl⟩
        · trivial
      | name nm =>
        simp only [execTok]
        cases s.vars.getItem nm with
        | none => trivial
        | some o => exact ihObj o s
    · intro ts s
      cases ts with
      | nil => exact ⟨rfl, rfl, rfl⟩
      | cons t ts =>
        simp only [execBody]
        have h := ihTok t s
        cases h1 : execTok n t s with
        | error e => trivial
        | ok s1 =>
          rw [h1] at h
          exact keepR_trans h (ihBody ts s1)
    · intro p f s
      simp only [whileLoop]
      have h := ihVal p s
      cases h1 : execVal n p s with
      | error e => trivial
      | ok s1 =>
        rw [h1] at h
        simp only []
        refine keepR_trans h ?_
        have a1 : At s1 := ⟨trivial⟩
        cur_pop
        split
        · exact ⟨rfl, rfl, rfl⟩
        · rename_i s2 _ _ _ _
          have h := ihVal f s2
          cases h2 : execVal n f s2 with
          | error e => trivial
          | ok s3 =>
            rw [h2] at h
            exact keepR_trans h (ihWhile p f s3)
    · intro b s
      by_cases hb : b ≠ .callType ∧ b ≠ .if_ ∧ b ≠ .while_
      · exact cur_simple b n s hb
      have a0 : At s := ⟨trivial⟩
      cases b
      case callType =>
        simp only [runBuiltin]
        cases curEntry s with
        | error e => trivial
        | ok r =>
          simp only []
          cases s.vars.getItem r.2.1.type with
          | some o => exact ihObj o s
          | none =>
            simp only []
            cases (warn s ("entry type for \"".toList ++ r.1 ++ "\" isn't style-file defined".toList)).vars.getItem
                "default.type".toList with
            | some o => exact ihObj o (warn s _)
            | none => exact ⟨rfl, rfl, rfl⟩
      case if_ =>
        simp only [runBuiltin]
        cur_pop
        cur_pop
        cur_pop
        split
        · exact ihVal _ _
        · exact ihVal _ _
      case while_ =>
        simp only [runBuiltin]
        cur_pop
        cur_pop
        exact ihWhile _ _ _
      all_goals simp at hb


/-! ### commands other than `READ` -/

theorem runCommand_inp (fuel : Nat) (inp₁ inp₂ : Input) (c : Bst.Command) (s : St)
    (hc : upper c.name ≠ "READ".toList) : runCommand fuel inp₁ c s = runCommand fuel inp₂ c s := by
  simp only [runCommand, hc, if_false]

theorem runProgram_inp (fuel : Nat) (inp₁ inp₂ : Input) (prog : Bst.Program) (s : St)
    (hp : ∀ c ∈ prog, upper c.name ≠ "READ".toList) : runProgram fuel inp₁ prog s = runProgram fuel inp₂ prog s := by
  induction prog generalizing s with
  | nil => rfl
  | cons c cs ih =>
    simp only [runProgram]
    rw [runCommand_inp fuel inp₁ inp₂ c s (hp c (List.mem_cons_self ..))]
    cases runCommand fuel inp₂ c s with
    | error e => rfl
    | ok s1 => exact ih s1 (fun c hc => hp c (List.mem_cons_of_mem _ hc))

theorem addVariable_keep (n : Str) (v : VarObj) (s : St) : KeepR s (addVariable s n v) := by
  unfold addVariable
  split
  · trivial
  · exact ⟨rfl, rfl, rfl⟩

theorem declare_keep (mk : Str → VarObj) (ts : List BTok) (s : St) : KeepR s (declare mk ts s) := by
  induction ts generalizing s with
  | nil => exact ⟨rfl, rfl, rfl⟩
  | cons t ts ih =>
    simp only [declare]
    cases tokName t with
    | error e => trivial
    | ok n =>
      simp only []
      have h := addVariable_keep n (mk n) s
      cases h1 : addVariable s n (mk n) with
      | error e => trivial
      | ok s1 => rw [h1] at h; exact keepR_trans h (ih s1)

theorem overwrite_keep (v : VarObj) (ts : List BTok) (s : St) : KeepR s (overwrite v ts s) := by
  induction ts generalizing s with
  | nil => exact ⟨rfl, rfl, rfl⟩
  | cons t ts ih =>
    simp only [overwrite]
    cases tokName t with
    | error e => trivial
    | ok n => exact keepR_trans (s1 := { s with vars := s.vars.setItem n v }) ⟨rfl, rfl, rfl⟩ (ih _)

theorem iterate_noDb (fuel : Nat) (f : VarObj) (keys : List Str) (s : St) (hdb : s.db = none) :
    KeepR s (iterate fuel f keys s) := by
  cases keys with
  | nil => exact ⟨rfl, rfl, rfl⟩
  | cons k ks => simp only [iterate, hdb]; trivial

/-- same current entry and database, the citations permuted -/
def SameP (s s' : St) : Prop := s'.cur = s.cur ∧ s'.db = s.db ∧ s'.citations.Perm s.citations

def KeepPR (s : St) (r : Except IErr St) : Prop :=
  match r with
  | .ok s' => SameP s s'
  | .error _ => True

theorem keepR_toP {s : St} {r : Except IErr St} (h : KeepR s r) : KeepPR s r := by
  cases r with
  | error e => trivial
  | ok s' => exact ⟨h.1, h.2.1, h.2.2 ▸ List.Perm.refl _⟩

theorem keepPR_trans {s s1 : St} {r : Except IErr St} (h : SameP s s1) (h' : KeepPR s1 r) : KeepPR s r := by
  cases r with
  | error e => trivial
  | ok s' => exact ⟨h'.1.trans h.1, h'.2.1.trans h.2.1, h'.2.2.trans h.2.2⟩

/-- before `READ` (no database yet) no command sets a current entry or a database, and the
citation list is at most permuted (`SORT`) -/
theorem runCommand_keep (fuel : Nat) (inp : Input) (c : Bst.Command)
    (hc : upper c.name ≠ "READ".toList) (s : St) (hdb : s.db = none) :
    KeepPR s (runCommand fuel inp c s) := by
  by_cases hsort : upper c.name = "SORT".toList
  · cases h : runCommand fuel inp c s with
    | error e => trivial
    | ok s1 =>
      obtain ⟨l, hl1, -, rfl⟩ := runCommand_sort_ok fuel inp c s s1 hsort h
      refine ⟨rfl, rfl, ?_⟩
      show ((sortByKey l).map (·.2)).Perm s.citations
      rw [← hl1]
      exact (sortByKey_spec l).1.map _
  refine keepR_toP ?_
  by_cases hit : upper c.name = "ITERATE".toList
  · rw [runCommand_iterate _ _ _ _ hit]
    simp only [iterStep]
    split
    · split
      · trivial
      · split
        · trivial
        · exact iterate_noDb _ _ _ s hdb
    · trivial
  by_cases hrev : upper c.name = "REVERSE".toList
  · rw [runCommand_reverse _ _ _ _ hrev]
    simp only [iterStep]
    split
    · split
      · trivial
      · split
        · trivial
        · exact iterate_noDb _ _ _ s hdb
    · trivial
  simp only [runCommand, hc, hsort, hit, hrev, false_or, if_false]
  split
  · -- ENTRY
    split
    · rename_i fields ints strings _
      have h := declare_keep (fun n => VarObj.field n) fields s
      cases h1 : declare (fun n => VarObj.field n) fields s with
      | error e => trivial
      | ok s1 =>
        rw [h1] at h
        simp only []
        refine keepR_trans h ?_
        have h := addVariable_keep "crossref".toList .crossref s1
        cases h2 : addVariable s1 "crossref".toList .crossref with
        | error e => trivial
        | ok s2 =>
          rw [h2] at h
          simp only []
          refine keepR_trans h ?_
          have h := declare_keep (fun n => VarObj.eint n) ints s2
          cases h3 : declare (fun n => VarObj.eint n) ints s2 with
          | error e => trivial
          | ok s3 =>
            rw [h3] at h
            exact keepR_trans h (declare_keep _ _ s3)
    · trivial
  split
  · split
    · exact (exec_cur fuel).2.2.1 _ s
    · trivial
  split
  · split
    · split
      · trivial
      · exact addVariable_keep _ _ s
    · trivial
  split
  · split
    · exact overwrite_keep _ _ s
    · trivial
  split
  · split
    · exact overwrite_keep _ _ s
    · trivial
  split
  · split
    · split
      · exact ⟨rfl, rfl, rfl⟩
      · trivial
    · trivial
  trivial

theorem runProgram_keep (fuel : Nat) (inp : Input) (prog : Bst.Program)
    (hp : ∀ c ∈ prog, upper c.name ≠ "READ".toList) (s : St) (hdb : s.db = none) :
    KeepPR s (runProgram fuel inp prog s) := by
  induction prog generalizing s with
  | nil => exact ⟨rfl, rfl, List.Perm.refl _⟩
  | cons c cs ih =>
    simp only [runProgram]
    have h := runCommand_keep fuel inp c (hp c (List.mem_cons_self ..)) s hdb
    cases h1 : runCommand fuel inp c s with
    | error e => trivial
    | ok s1 =>
      rw [h1] at h
      exact keepPR_trans h (ih (fun c hc => hp c (List.mem_cons_of_mem _ hc)) s1 (h.2.1.trans hdb))

/-! ### the view of a key is determined by its cross-reference closure -/

/-- `C` is a set of keys on which the two databases have the same entries and which is closed
under following `crossref` fields (as spelled in the field) in `db₁` -/
structure ClosedOn (C : Str → Prop) (db₁ db₂ : BibData) : Prop where
  hget : ∀ k, C k → db₁.entries.getItem k = db₂.entries.getItem k
  hcl : ∀ k e x, C k → db₁.entries.getItem k = some e → e.fields.getItem xrefName = some x → C x

theorem findField_congr {C : Str → Prop} {db₁ db₂ : BibData} (h : ClosedOn C db₁ db₂) (name : Str) :
    ∀ (n : Nat) (visited : List Str) (e : Entry), unvisited db₁.entries.dict visited ≤ n →
      (∀ x, e.fields.getItem xrefName = some x → C x) →
      findField (some db₁) visited e name = findField (some db₂) visited e name := by
  intro n
  induction n with
  | zero =>
    intro visited e hn he
    rw [findField_eq, findField_eq]
    cases e.own name with
    | some v => rfl
    | none =>
      simp only []
      cases hx : e.fields.getItem xrefName with
      | none => rfl
      | some x =>
        simp only []
        split
        · rfl
        · rename_i hv
          rw [← h.hget x (he x hx)]
          cases hp : db₁.entries.getItem x with
          | none => rfl
          | some p =>
            have := unvisited_lt db₁.entries.dict visited (lower x) p hp (by simpa using hv)
            omega
  | succ n ih =>
    intro visited e hn he
    rw [findField_eq, findField_eq]
    cases e.own name with
    | some v => rfl
    | none =>
      simp only []
      cases hx : e.fields.getItem xrefName with
      | none => rfl
      | some x =>
        simp only []
        split
        · rfl
        · rename_i hv
          rw [← h.hget x (he x hx)]
          cases hp : db₁.entries.getItem x with
          | none => rfl
          | some p =>
            have := unvisited_lt db₁.entries.dict visited (lower x) p hp (by simpa using hv)
            exact ih (lower x :: visited) p (by omega) (fun y hy => h.hcl x p y (he x hx) hp hy)

/-- two databases that coincide on a `crossref`-closed set of keys agree on every key of that
set that has an entry -/
theorem agree_of_closed {C : Str → Prop} {db₁ db₂ : BibData} (h : ClosedOn C db₁ db₂) (K : List Str)
    (hK : ∀ k ∈ K, C k ∧ (db₁.entries.getItem k).isSome = true) : Agree K db₁ db₂ := by
  intro k hk
  obtain ⟨hC, hs⟩ := hK k hk
  cases he : db₁.entries.getItem k with
  | none => rw [he] at hs; cases hs
  | some e =>
    have hcl : ∀ x, e.fields.getItem xrefName = some x → C x := fun x hx => h.hcl k e x hC he hx
    refine ⟨e, e, rfl, by rw [← h.hget k hC, he], rfl, ?_, ?_⟩
    · intro n
      simp only [bstFieldValue, Entry.findField]
      rw [findField_congr h n _ [] e (Nat.le_refl _) hcl]
    · simp only [bstCrossrefValue]
      cases hx : e.fields.getItem xrefName with
      | none => rfl
      | some x => simp only []; rw [h.hget x (hcl x hx)]



/-! ### reduction of the `READ` hypothesis of the frame theorem -/

/-- the two `READ` results differ in the database only as soon as preamble, reader reports and
citation resolution (keys and reports) coincide -/
theorem readFinish_setDb (inp₁ inp₂ : Input) (s : St) (P₁ P₂ : Bib.St)
    (hpre : P₂.db.preamble.flatten = P₁.db.preamble.flatten)
    (herr : P₂.errs.map Report.bib = P₁.errs.map Report.bib)
    (hx : (convertDb P₂.db).addExtraCitations s.citations inp₂.minCrossrefs =
      (convertDb P₁.db).addExtraCitations s.citations inp₁.minCrossrefs)
    (hm : (convertDb P₂.db).removeMissing ((convertDb P₁.db).addExtraCitations s.citations inp₁.minCrossrefs).1 =
      (convertDb P₁.db).removeMissing ((convertDb P₁.db).addExtraCitations s.citations inp₁.minCrossrefs).1) :
    readFinish inp₂ s P₂ = setDb (convertDb P₂.db) [] (readFinish inp₁ s P₁) := by
  simp only [readFinish, setDb, hpre, herr, hx, hm, List.nil_append]

/-! ### an entry of the reader's list that is not wanted where it stands changes nothing -/

theorem addStep_unwanted (st : Bib.St) (ke : Str × Bib.Entry) (h : Bib.wantEntry st.db ke.1 = false) :
    addStep st ke = st := by
  simp only [addStep, Bib.addEntry, h, Bool.not_false, if_true]

theorem foldl_addStep_insert (pre post : List (Str × Bib.Entry)) (ke : Str × Bib.Entry) (st0 : Bib.St)
    (h : Bib.wantEntry (pre.foldl addStep st0).db ke.1 = false) :
    (pre ++ ke :: post).foldl addStep st0 = (pre ++ post).foldl addStep st0 := by
  rw [List.foldl_append, List.foldl_append, List.foldl_cons, addStep_unwanted _ _ h]

/-- the `crossref` values of the entries of a reader's list -/
def xrefsOf (es : List (Str × Bib.Entry)) : List Str :=
  es.filterMap fun ke => Bib.findFieldCI ke.2.fields "crossref".toList

theorem addStep_wanted (st : Bib.St) (ke : Str × Bib.Entry) (w : CISet) (seen : List Str)
    (hw : st.db.wanted = some w) (hs : SetRel w seen) :
    ∃ w' seen', (addStep st ke).db.wanted = some w' ∧ SetRel w' seen' ∧
      ∀ x ∈ seen', x ∈ seen ∨ Bib.findFieldCI ke.2.fields "crossref".toList = some x := by
  unfold addStep Bib.addEntry Bib.handleError
  split
  · rename_i h
    revert h
    split
    · intro h; cases h; exact ⟨w, seen, hw, hs, fun x hx => .inl hx⟩
    · split
      · split
        · intro h; cases h
        · intro h; cases h; exact ⟨w, seen, hw, hs, fun x hx => .inl hx⟩
      · intro h
        cases h
        simp only [hw]
        cases hx : Bib.findFieldCI ke.2.fields "crossref".toList with
        | none => exact ⟨w, seen, rfl, hs, fun x hx => .inl hx⟩
        | some cr =>
          refine ⟨w.add cr, cr :: seen, rfl, hs.add cr, ?_⟩
          intro x hx'
          rcases List.mem_cons.1 hx' with rfl | hx'
          · exact .inr rfl
          · exact .inl hx'
  · rename_i h
    revert h
    split
    · intro h; cases h
    · split
      · split
        · intro h; cases h; exact ⟨w, seen, hw, hs, fun x hx => .inl hx⟩
        · intro h; cases h
      · intro h; cases h

theorem foldl_addStep_wanted (es : List (Str × Bib.Entry)) (st : Bib.St) (w : CISet) (seen : List Str)
    (hw : st.db.wanted = some w) (hs : SetRel w seen) :
    ∃ w' seen', (es.foldl addStep st).db.wanted = some w' ∧ SetRel w' seen' ∧
      ∀ x ∈ seen', x ∈ seen ∨ x ∈ xrefsOf es := by
  induction es generalizing st w seen with
  | nil => exact ⟨w, seen, hw, hs, fun x hx => .inl hx⟩
  | cons ke es ih =>
    obtain ⟨w1, seen1, hw1, hs1, h1⟩ := addStep_wanted st ke w seen hw hs
    obtain ⟨w2, seen2, hw2, hs2, h2⟩ := ih (addStep st ke) w1 seen1 hw1 hs1
    refine ⟨w2, seen2, hw2, hs2, ?_⟩
    intro x hx
    rcases h2 x hx with h | h
    · rcases h1 x h with h | h
      · exact .inl h
      · exact .inr (by simp only [xrefsOf, List.filterMap_cons, h]; exact List.mem_cons_self ..)
    · refine .inr ?_
      simp only [xrefsOf, List.filterMap_cons]
      split
      · exact h
      · exact List.mem_cons_of_mem _ h

/-- static form: an entry whose key is (up to case) neither cited nor the `crossref` value of an
entry standing before it — and no `*` is cited or referenced — is skipped -/
theorem unwanted_of_static (cits : List Str) (pre : List (Str × Bib.Entry)) (key : Str) (st0 : Bib.St)
    (hw0 : st0.db.wanted = some (CISet.ofList cits))
    (hk : ∀ x ∈ cits ++ xrefsOf pre, Spec.keq key x = false ∧ Spec.keq ['*'] x = false) :
    Bib.wantEntry (pre.foldl addStep st0).db key = false := by
  have hs0 : SetRel (CISet.ofList cits) cits := fun k => contains_ofList cits k
  obtain ⟨w, seen, hw, hs, hsub⟩ := foldl_addStep_wanted pre st0 _ cits hw0 hs0
  simp only [Bib.wantEntry, hw, hs key, hs ['*']]
  have : ∀ k, (∀ x ∈ cits ++ xrefsOf pre, Spec.keq k x = false) → seen.any (Spec.keq k) = false := by
    intro k hk
    rw [List.any_eq_false]
    intro x hx
    have := hk x (by rcases hsub x hx with h | h <;> simp [h])
    simp [this]
  rw [this key (fun x hx => (hk x hx).1), this ['*'] (fun x hx => (hk x hx).2)]
  rfl


/-! ### runs that differ in the `READ` step only -/

theorem runProgram_congr_read (fuel : Nat) (inp₁ inp₂ : Input) (prog : Bst.Program) (s : St)
    (h : ∀ c s, upper c.name = "READ".toList → runCommand fuel inp₁ c s = runCommand fuel inp₂ c s) :
    runProgram fuel inp₁ prog s = runProgram fuel inp₂ prog s := by
  induction prog generalizing s with
  | nil => rfl
  | cons c cs ih =>
    simp only [runProgram]
    have : runCommand fuel inp₁ c s = runCommand fuel inp₂ c s := by
      by_cases hc : upper c.name = "READ".toList
      · exact h c s hc
      · exact runCommand_inp fuel inp₁ inp₂ c s hc
    rw [this]
    cases runCommand fuel inp₂ c s with
    | error e => rfl
    | ok s1 => exact ih s1

theorem run_congr_read (fuel : Nat) (inp₁ inp₂ : Input) (prog : Bst.Program)
    (hc : inp₁.citations = inp₂.citations)
    (h : ∀ c s, upper c.name = "READ".toList → runCommand fuel inp₁ c s = runCommand fuel inp₂ c s) :
    run fuel prog inp₁ = run fuel prog inp₂ := by
  simp only [run, ← hc]
  rw [runProgram_congr_read fuel inp₁ inp₂ prog _ h]


theorem readParsed_uncited_alt (cits : List Str) (mc : Int) (ts ts' : List Str)
    (pre post : List (Str × Bib.Entry)) (ke : Str × Bib.Entry) (pream : List Str) (s : St)
    (hk : ∀ x ∈ s.citations ++ xrefsOf pre, Spec.keq ke.1 x = false ∧ Spec.keq ['*'] x = false) :
    readParsed { bibTexts := ts, citations := cits, minCrossrefs := mc, alt := some (pre ++ ke :: post, pream) } s =
      readParsed { bibTexts := ts', citations := cits, minCrossrefs := mc, alt := some (pre ++ post, pream) } s := by
  simp only [readParsed]
  exact foldl_addStep_insert pre post ke _ (unwanted_of_static s.citations pre ke.1 _ rfl hk)

theorem run_uncited_alt (fuel : Nat) (pre post : Bst.Program) (rd : Bst.Command)
    (hpre : ∀ c ∈ pre, upper c.name ≠ "READ".toList) (hrd : upper rd.name = "READ".toList)
    (hpost : ∀ c ∈ post, upper c.name ≠ "READ".toList)
    (cits : List Str) (mc : Int) (ts ts' : List Str)
    (epre epost : List (Str × Bib.Entry)) (ke : Str × Bib.Entry) (pream : List Str)
    (hk : ∀ x ∈ cits ++ xrefsOf epre, Spec.keq ke.1 x = false ∧ Spec.keq ['*'] x = false) :
    run fuel (pre ++ rd :: post)
        { bibTexts := ts, citations := cits, minCrossrefs := mc, alt := some (epre ++ ke :: epost, pream) } =
      run fuel (pre ++ rd :: post)
        { bibTexts := ts', citations := cits, minCrossrefs := mc, alt := some (epre ++ epost, pream) } := by
  simp only [run, runProgram_append]
  rw [runProgram_inp fuel _ { bibTexts := ts', citations := cits, minCrossrefs := mc, alt := some (epre ++ epost, pream) }
    pre _ hpre]
  have hkeep := runProgram_keep fuel
    { bibTexts := ts', citations := cits, minCrossrefs := mc, alt := some (epre ++ epost, pream) } pre hpre
    { vars := initVars, citations := cits } rfl
  cases hp : runProgram fuel
      { bibTexts := ts', citations := cits, minCrossrefs := mc, alt := some (epre ++ epost, pream) } pre
      { vars := initVars, citations := cits } with
  | error e => rfl
  | ok s =>
    rw [hp] at hkeep
    have hperm : s.citations.Perm cits := hkeep.2.2
    have hk' : ∀ x ∈ s.citations ++ xrefsOf epre, Spec.keq ke.1 x = false ∧ Spec.keq ['*'] x = false := by
      intro x hx
      refine hk x ?_
      rcases List.mem_append.1 hx with h | h
      · exact List.mem_append_left _ (hperm.mem_iff.1 h)
      · exact List.mem_append_right _ h
    simp only [runProgram]
    rw [runCommand_read fuel _ rd s hrd, runCommand_read fuel _ rd s hrd,
      readParsed_uncited_alt cits mc ts ts' epre epost ke pream s hk']
    simp only [readFinish]
    rw [runProgram_inp fuel _
      { bibTexts := ts', citations := cits, minCrossrefs := mc, alt := some (epre ++ epost, pream) } post _ hpost]

theorem Agree.left {K : List Str} {db₁ db₂ : BibData} (h : Agree K db₁ db₂) : Agree K db₁ db₁ := by
  intro k hk
  obtain ⟨e₁, _, h1, _⟩ := h k hk
  exact ⟨e₁, e₁, h1, h1, rfl, fun _ => rfl, rfl⟩

/-- runs from states that differ in the database and in the reports made so far: the same error,
or final states that are one report-free state `b'` with the own database and the own earlier
reports put in front -/
theorem runProgram_reports {K : List Str} {db₁ db₂ : BibData} (hA : Agree K db₁ db₂) (fuel : Nat)
    (inp₁ inp₂ : Input) (post : Bst.Program) (hpost : ∀ c ∈ post, upper c.name ≠ "READ".toList)
    (b : St) (g : Good K db₁ b) (r₁ r₂ : List Interp.Report) :
    (∃ e, runProgram fuel inp₁ post (setDb db₁ r₁ b) = .error e ∧
      runProgram fuel inp₂ post (setDb db₂ r₂ b) = .error e) ∨
    (∃ b', Good K db₁ b' ∧ runProgram fuel inp₁ post (setDb db₁ r₁ b) = .ok (setDb db₁ r₁ b') ∧
      runProgram fuel inp₂ post (setDb db₂ r₂ b) = .ok (setDb db₂ r₂ b')) := by
  have h1 := (runProgram_sim (pfx := r₁) hA.left fuel inp₁ inp₁ post hpost b g).cases
  have h2 := (runProgram_sim (pfx := r₂) hA fuel inp₁ inp₂ post hpost b g).cases
  rcases h1 with ⟨e, a1, a2⟩ | ⟨b', a1, a2, g'⟩
  · rcases h2 with ⟨e', c1, c2⟩ | ⟨b'', c1, c2, -⟩
    · rw [a1] at c1; cases c1
      exact .inl ⟨e, a2, c2⟩
    · rw [a1] at c1; cases c1
  · rcases h2 with ⟨e', c1, c2⟩ | ⟨b'', c1, c2, -⟩
    · rw [a1] at c1; cases c1
    · rw [a1] at c1; cases c1
      exact .inr ⟨b', g', a2, c2⟩

theorem runProgram_reports' {K : List Str} {db₁ db₂ : BibData} (hA : Agree K db₁ db₂) (fuel : Nat)
    (inp₁ inp₂ : Input) (post : Bst.Program) (hpost : ∀ c ∈ post, upper c.name ≠ "READ".toList)
    (s₁ : St) (g : Good K db₁ s₁) (r₂ : List Interp.Report) :
    (∃ e, runProgram fuel inp₁ post s₁ = .error e ∧
      runProgram fuel inp₂ post { s₁ with db := some db₂, reports := r₂ } = .error e) ∨
    (∃ t₁ R, runProgram fuel inp₁ post s₁ = .ok t₁ ∧ t₁.reports = s₁.reports ++ R ∧
      runProgram fuel inp₂ post { s₁ with db := some db₂, reports := r₂ } =
        .ok { t₁ with db := some db₂, reports := r₂ ++ R }) := by
  have e1 : setDb db₁ s₁.reports { s₁ with reports := [] } = s₁ := by
    obtain ⟨hdb, -, -⟩ := g
    cases s₁
    simp only [setDb, List.append_nil] at hdb ⊢
    rw [hdb]
  have e2 : setDb db₂ r₂ { s₁ with reports := [] } = { s₁ with db := some db₂, reports := r₂ } := by
    simp only [setDb, List.append_nil]
  have gb : Good K db₁ { s₁ with reports := [] } := ⟨g.1, g.2, g.3⟩
  rcases runProgram_reports hA fuel inp₁ inp₂ post hpost _ gb s₁.reports r₂ with ⟨e, h1, h2⟩ | ⟨b', -, h1, h2⟩
  · rw [e1] at h1; rw [e2] at h2
    exact .inl ⟨e, h1, h2⟩
  · rw [e1] at h1; rw [e2] at h2
    exact .inr ⟨_, b'.reports, h1, rfl, by rw [h2]; rfl⟩


/-- whole runs whose `READ` steps leave states that differ in the database and in the reports -/
theorem run_frame_reports (fuel : Nat) (inp₁ inp₂ : Input) (pre post : Bst.Program) (rd : Bst.Command)
    (hcit : inp₁.citations = inp₂.citations)
    (hpre : ∀ c ∈ pre, upper c.name ≠ "READ".toList) (hrd : upper rd.name = "READ".toList)
    (hpost : ∀ c ∈ post, upper c.name ≠ "READ".toList)
    (hread : ∀ s, runProgram fuel inp₁ pre { vars := initVars, citations := inp₁.citations } = .ok s →
      ∃ s₁ db₁ db₂ r₂, runCommand fuel inp₁ rd s = .ok s₁ ∧ s₁.db = some db₁ ∧
        runCommand fuel inp₂ rd s = .ok { s₁ with db := some db₂, reports := r₂ } ∧
        Agree s₁.citations db₁ db₂) :
    (∃ e, run fuel (pre ++ rd :: post) inp₁ = .error (e, []) ∧ run fuel (pre ++ rd :: post) inp₂ = .error (e, [])) ∨
    (∃ o₁ o₂, run fuel (pre ++ rd :: post) inp₁ = .ok o₁ ∧ run fuel (pre ++ rd :: post) inp₂ = .ok o₂ ∧
      o₁.bbl = o₂.bbl ∧ o₁.printed = o₂.printed ∧
      ∃ s s₁ s₂ R, runProgram fuel inp₁ pre { vars := initVars, citations := inp₁.citations } = .ok s ∧
        runCommand fuel inp₁ rd s = .ok s₁ ∧ runCommand fuel inp₂ rd s = .ok s₂ ∧
        o₁.reports = s₁.reports ++ R ∧ o₂.reports = s₂.reports ++ R) := by
  have hk := runProgram_keep fuel inp₁ pre hpre { vars := initVars, citations := inp₁.citations } rfl
  have hrun : ∀ (inp : Input), inp.citations = inp₁.citations →
      runProgram fuel inp pre { vars := initVars, citations := inp₁.citations } =
        runProgram fuel inp₁ pre { vars := initVars, citations := inp₁.citations } →
      run fuel (pre ++ rd :: post) inp =
        match runProgram fuel inp₁ pre { vars := initVars, citations := inp₁.citations } with
        | .error e => .error (e, [])
        | .ok s =>
          match runCommand fuel inp rd s with
          | .error e => .error (e, [])
          | .ok s' =>
            match runProgram fuel inp post s' with
            | .error e => .error (e, [])
            | .ok t => .ok { bbl := t.lines.flatten, reports := t.reports, printed := t.printed } := by
    intro inp hc hpre'
    simp only [run, hc, runProgram_append, hpre', runProgram]
    cases runProgram fuel inp₁ pre { vars := initVars, citations := inp₁.citations } with
    | error e => rfl
    | ok s =>
      simp only []
      cases runCommand fuel inp rd s with
      | error e => rfl
      | ok s' =>
        simp only []
        cases runProgram fuel inp post s' <;> rfl
  rw [hrun inp₁ rfl rfl, hrun inp₂ hcit.symm (runProgram_inp fuel inp₂ inp₁ pre _ hpre)]
  cases hp : runProgram fuel inp₁ pre { vars := initVars, citations := inp₁.citations } with
  | error e => exact .inl ⟨e, rfl, rfl⟩
  | ok s =>
    rw [hp] at hk
    obtain ⟨s₁, db₁, db₂, r₂, h1, hdb, h2, hA⟩ := hread s hp
    have hcur : s₁.cur = none := by
      have h1' := h1
      rw [runCommand_read fuel inp₁ rd s hrd] at h1'
      injection h1' with h1'
      rw [← h1']
      exact hk.1
    have g : Good s₁.citations db₁ s₁ :=
      ⟨hdb, fun k hk' => (by rw [hcur] at hk'; exact nomatch hk'), fun c hc => hc⟩
    rcases runProgram_reports' hA fuel inp₁ inp₂ post hpost s₁ g r₂ with ⟨e, h3, h4⟩ | ⟨t₁, R, h3, h4, h5⟩
    · simp only [h1, h2, h3, h4]
      exact .inl ⟨e, rfl, rfl⟩
    · simp only [h1, h2, h3, h5]
      exact .inr ⟨_, _, rfl, rfl, rfl, rfl, s, s₁, { s₁ with db := some db₂, reports := r₂ }, R, rfl, h1, h2, h4, rfl⟩

end Pybtex.Engine
