/-
Helper lemmas for C06 (engine front ends and the frame property of the interpreter).
-/
import PybtexModel.Model.Engine

namespace Pybtex.Engine
open Pybtex Pybtex.Interp

/-! ### the `.aux` reader returns a style and a data list at top level -/

theorem finish_top_ok (prev : Option Aux.Ctx) (st st' : Aux.St) (h : Aux.finish prev true st = .ok st') :
    (∃ style, st'.style = some style) ∧ (∃ data, st'.data = some data) := by
  unfold Aux.finish at h
  simp only [Bool.true_and] at h
  split at h
  · cases h
  · split at h
    · cases h
    · split at h
      · cases h
      · rename_i h1 h2
        cases h
        constructor
        · cases hs : st'.style with
          | none => simp [hs] at h2
          | some x => exact ⟨x, rfl⟩
        · cases hd : st'.data with
          | none => simp [hd] at h1
          | some x => exact ⟨x, rfl⟩

theorem parse_ok_style_data (fs : Aux.FS) (fuel : Nat) (p : Aux.Path) (st : Aux.St)
    (h : Aux.parse fs fuel p = .ok st) :
    (∃ style, st.style = some style) ∧ (∃ data, st.data = some data) := by
  unfold Aux.parse at h
  cases fuel with
  | zero => simp [Aux.parseFile] at h
  | succ n =>
    simp only [Aux.parseFile] at h
    split at h
    · cases h
    · split at h
      · cases h
      · exact finish_top_ok _ _ _ h


/-! ### with a `bib_format` reader the `.bib` texts are not consulted -/

theorem runCommand_alt (fuel : Nat) (ts ts' cs cs' : List Str) (mc : Int)
    (db : List (Str × Bib.Entry) × List Str) (c : Bst.Command) (s : St) :
    runCommand fuel { bibTexts := ts, citations := cs, minCrossrefs := mc, alt := some db } c s =
      runCommand fuel { bibTexts := ts', citations := cs', minCrossrefs := mc, alt := some db } c s := by
  simp only [runCommand]

theorem runProgram_alt (fuel : Nat) (ts ts' cs cs' : List Str) (mc : Int)
    (db : List (Str × Bib.Entry) × List Str) (prog : Bst.Program) (s : St) :
    runProgram fuel { bibTexts := ts, citations := cs, minCrossrefs := mc, alt := some db } prog s =
      runProgram fuel { bibTexts := ts', citations := cs', minCrossrefs := mc, alt := some db } prog s := by
  induction prog generalizing s with
  | nil => rfl
  | cons c cs ih =>
    simp only [runProgram]
    rw [runCommand_alt fuel ts ts' _ _ mc db c s]
    cases runCommand fuel { bibTexts := ts', citations := _, minCrossrefs := mc, alt := some db } c s with
    | error e => rfl
    | ok s' => exact ih s'

theorem run_alt (fuel : Nat) (ts ts' cs : List Str) (mc : Int)
    (db : List (Str × Bib.Entry) × List Str) (prog : Bst.Program) :
    run fuel prog { bibTexts := ts, citations := cs, minCrossrefs := mc, alt := some db } =
      run fuel prog { bibTexts := ts', citations := cs, minCrossrefs := mc, alt := some db } := by
  simp only [run]
  rw [runProgram_alt fuel ts ts' cs cs mc db]


/-- `add_entry` leaves the preamble alone -/
def addStep (st : Bib.St) (ke : Str × Bib.Entry) : Bib.St :=
  match Bib.addEntry st ke.1 ke.2 with | .ok _ st => st | .fail _ st => st

theorem addStep_preamble (st : Bib.St) (ke : Str × Bib.Entry) : (addStep st ke).db.preamble = st.db.preamble := by
  unfold addStep Bib.addEntry Bib.handleError
  split <;> rename_i h <;> revert h <;> repeat' split
  all_goals (intro h; cases h; try rfl)
  simp only []
  split <;> rfl

theorem foldl_addStep_preamble (es : List (Str × Bib.Entry)) (st : Bib.St) :
    (es.foldl addStep st).db.preamble = st.db.preamble := by
  induction es generalizing st with
  | nil => rfl
  | cons ke es ih => rw [List.foldl_cons, ih, addStep_preamble]


/-! ### the `READ` step -/

/-- the parser state `READ` starts from -/
def readSt0 (s : St) : Bib.St :=
  { rest := [], macros := CIDict.ofPairs s.macros,
    db := { wanted := some (CISet.ofList s.citations), citations := CISet.ofList s.citations }, roles := [] }

/-- the parser state after reading: the `.bib` texts, or the entries of another reader -/
def readParsed (inp : Input) (s : St) : Bib.St :=
  match inp.alt with
  | none => (readAll inp.bibTexts (readSt0 s)).1
  | some (es, pre) => es.foldl addStep { readSt0 s with db := { (readSt0 s).db with preamble := pre } }

/-- the state after `READ`, given the parser's final state -/
def readFinish (inp : Input) (s : St) (p : Bib.St) : St :=
  let db := convertDb p.db
  let x := BibData.addExtraCitations db s.citations inp.minCrossrefs
  let m := BibData.removeMissing db x.1
  { s with db := some db, preamble := p.db.preamble.flatten, citations := m.1,
           reports := s.reports ++ p.errs.map Report.bib ++ x.2.map Report.data ++ m.2.map Report.data }

theorem runCommand_read (fuel : Nat) (inp : Input) (c : Bst.Command) (s : St)
    (h : upper c.name = "READ".toList) :
    runCommand fuel inp c s = .ok (readFinish inp s (readParsed inp s)) := by
  simp only [runCommand, h]
  rw [if_neg (by decide), if_neg (by decide), if_neg (by decide), if_neg (by decide), if_neg (by decide),
    if_neg (by decide), if_pos trivial]
  simp only [readFinish, readParsed, readSt0]
  cases inp.alt with
  | none => rfl
  | some x => rfl

/-! ### `strLt` is a strict total order -/

theorem strLt_irrefl (a : Str) : strLt a a = false := by
  induction a with
  | nil => rfl
  | cons c r ih => simp [strLt, ih]

theorem strLt_trans {a b c : Str} (h1 : strLt a b = true) (h2 : strLt b c = true) : strLt a c = true := by
  induction a generalizing b c with
  | nil =>
    cases b with
    | nil => simp [strLt] at h1
    | cons y b =>
      cases c with
      | nil => simp [strLt] at h2
      | cons z c => simp [strLt]
  | cons x a ih =>
    cases b with
    | nil => simp [strLt] at h1
    | cons y b =>
      cases c with
      | nil => simp [strLt] at h2
      | cons z c =>
        simp only [strLt] at h1 h2 ⊢
        split at h1
        · split at h2
          · rw [if_pos (by omega)]
          · split at h2
            · cases h2
            · rw [if_pos (by omega)]
        · split at h1
          · cases h1
          · split at h2
            · rw [if_pos (by omega)]
            · split at h2
              · cases h2
              · rw [if_neg (by omega), if_neg (by omega)]
                exact ih h1 h2

theorem strLt_asymm {a b : Str} (h : strLt a b = true) : strLt b a = false := by
  cases hb : strLt b a with
  | false => rfl
  | true => have := strLt_trans h hb; rw [strLt_irrefl] at this; cases this

theorem strLt_total {a b : Str} (h1 : strLt a b = false) (h2 : strLt b a = false) : a = b := by
  induction a generalizing b with
  | nil =>
    cases b with
    | nil => rfl
    | cons y b => simp [strLt] at h1
  | cons x a ih =>
    cases b with
    | nil => simp [strLt] at h2
    | cons y b =>
      simp only [strLt] at h1 h2
      split at h1
      · cases h1
      · split at h1
        · split at h2
          · cases h2
          · omega
        · split at h2
          · cases h2
          · have hxy : x = y := Char.ext (UInt32.toNat_inj.mp (by show x.toNat = y.toNat; omega))
            subst hxy
            rw [ih h1 h2]


/-! ### `insertSorted` / `sortByKey`: permutation, sortedness, stability -/

/-- sorted by key: no later element has a smaller key -/
def KeySorted (l : List (Str × Str)) : Prop := l.Pairwise (fun a b => strLt b.1 a.1 = false)

theorem insertSorted_perm (x : Str × Str) (l : List (Str × Str)) : (insertSorted x l).Perm (x :: l) := by
  induction l with
  | nil => exact List.Perm.refl _
  | cons y r ih =>
    simp only [insertSorted]
    split
    · exact List.Perm.refl _
    · exact (List.Perm.cons y ih).trans (List.Perm.swap x y r)

theorem mem_insertSorted {x z : Str × Str} {l : List (Str × Str)} : z ∈ insertSorted x l ↔ z = x ∨ z ∈ l := by
  rw [(insertSorted_perm x l).mem_iff, List.mem_cons]

theorem insertSorted_sorted (x : Str × Str) (l : List (Str × Str)) (h : KeySorted l) :
    KeySorted (insertSorted x l) := by
  induction l with
  | nil => simp [insertSorted, KeySorted]
  | cons y r ih =>
    unfold KeySorted at h ih ⊢
    rw [List.pairwise_cons] at h
    simp only [insertSorted]
    split
    · rename_i hxy
      rw [List.pairwise_cons]
      refine ⟨?_, List.pairwise_cons.2 h⟩
      intro z hz
      rcases List.mem_cons.1 hz with rfl | hz
      · exact strLt_asymm hxy
      · cases hzx : strLt z.1 x.1 with
        | false => rfl
        | true => have := strLt_trans hzx hxy; rw [h.1 z hz] at this; cases this
    · rename_i hxy
      rw [List.pairwise_cons]
      refine ⟨?_, ih h.2⟩
      intro z hz
      rcases mem_insertSorted.1 hz with rfl | hz
      · simpa using hxy
      · exact h.1 z hz

theorem insertSorted_filter (x : Str × Str) (l : List (Str × Str)) (h : KeySorted l) (κ : Str) :
    (insertSorted x l).filter (fun p => p.1 = κ) =
      l.filter (fun p => p.1 = κ) ++ (if x.1 = κ then [x] else []) := by
  induction l with
  | nil => by_cases hx : x.1 = κ <;> simp [insertSorted, hx]
  | cons y r ih =>
    unfold KeySorted at h ih
    rw [List.pairwise_cons] at h
    simp only [insertSorted]
    split
    · rename_i hxy
      by_cases hx : x.1 = κ
      · -- nothing in `y :: r` has key `κ`
        have hnone : (y :: r).filter (fun p => p.1 = κ) = [] := by
          rw [List.filter_eq_nil_iff]
          intro z hz
          have hlt : strLt x.1 z.1 = true := by
            rcases List.mem_cons.1 hz with rfl | hz
            · exact hxy
            · cases hzy : strLt z.1 y.1 with
              | true => rw [h.1 z hz] at hzy; cases hzy
              | false =>
                cases hxz : strLt x.1 z.1 with
                | true => rfl
                | false =>
                  -- `z ≤ x < y ≤ z`
                  cases hzx : strLt z.1 x.1 with
                  | true => have := strLt_trans hzx hxy; rw [hzy] at this; cases this
                  | false => rw [strLt_total hxz hzx] at hxy; rw [hxy] at hzy; cases hzy
          intro hzk
          simp only [decide_eq_true_eq] at hzk
          rw [hx, hzk, strLt_irrefl] at hlt
          cases hlt
        rw [List.filter_cons, if_pos (by simpa using hx), hnone, if_pos hx]
        rfl
      · rw [List.filter_cons, if_neg (by simpa using hx), if_neg hx, List.append_nil]
    · rw [List.filter_cons, List.filter_cons, ih h.2]
      split <;> simp

theorem foldl_insert_spec (l acc : List (Str × Str)) (h : KeySorted acc) :
    let r := l.foldl (fun acc x => insertSorted x acc) acc
    r.Perm (acc ++ l) ∧ KeySorted r ∧
      ∀ κ, r.filter (fun p => p.1 = κ) = acc.filter (fun p => p.1 = κ) ++ l.filter (fun p => p.1 = κ) := by
  induction l generalizing acc with
  | nil => simp [h]
  | cons x l ih =>
    obtain ⟨h1, h2, h3⟩ := ih (insertSorted x acc) (insertSorted_sorted x acc h)
    refine ⟨?_, h2, ?_⟩
    · refine h1.trans ?_
      refine ((insertSorted_perm x acc).append_right l).trans ?_
      simp only [List.cons_append]
      exact List.perm_middle.symm
    · intro κ
      show (l.foldl (fun acc x => insertSorted x acc) (insertSorted x acc)).filter _ = _
      rw [h3 κ, insertSorted_filter x acc h κ, List.filter_cons]
      by_cases hx : x.1 = κ <;> simp [hx]

/-- `list.sort(key=…)`: the result is a permutation, sorted by key, and entries with the same key
keep their order (stability). -/
theorem sortByKey_spec (l : List (Str × Str)) :
    (sortByKey l).Perm l ∧ KeySorted (sortByKey l) ∧
      ∀ κ, (sortByKey l).filter (fun p => p.1 = κ) = l.filter (fun p => p.1 = κ) := by
  have := foldl_insert_spec l [] (by simp [KeySorted])
  simpa [sortByKey] using this


/-! ### `ITERATE` / `REVERSE` / `SORT` as functions of the state -/

/-- `command_iterate` / `command_reverse` over the key list `cits` -/
def iterStep (fuel : Nat) (cits : List Str) (c : Bst.Command) (s : St) : Except IErr St :=
  match c.groups with
  | [t :: _] =>
    match tokName t with
    | .error e => .error e
    | .ok f =>
      match s.vars.getItem f with
      | none => .error (.internal "KeyError: ITERATE function")
      | some o => iterate fuel o cits s
  | _ => .error (.internal "ITERATE argument")

theorem runCommand_iterate (fuel : Nat) (inp : Input) (c : Bst.Command) (s : St)
    (h : upper c.name = "ITERATE".toList) :
    runCommand fuel inp c s = iterStep fuel s.citations c s := by
  simp only [runCommand, h]
  rw [if_neg (by decide), if_neg (by decide), if_neg (by decide), if_neg (by decide), if_neg (by decide),
    if_neg (by decide), if_neg (by decide), if_pos (Or.inl trivial)]
  simp only [iterStep, if_true]
  rcases c with ⟨name, groups⟩
  match groups with
  | [] => rfl
  | [[]] => rfl
  | [t :: tl] => rfl
  | [] :: _ :: _ => rfl
  | (_ :: _) :: _ :: _ => rfl

theorem runCommand_reverse (fuel : Nat) (inp : Input) (c : Bst.Command) (s : St)
    (h : upper c.name = "REVERSE".toList) :
    runCommand fuel inp c s = iterStep fuel s.citations.reverse c s := by
  simp only [runCommand, h]
  rw [if_neg (by decide), if_neg (by decide), if_neg (by decide), if_neg (by decide), if_neg (by decide),
    if_neg (by decide), if_neg (by decide), if_pos (Or.inr trivial)]
  rw [if_neg (by decide)]
  simp only [iterStep]
  rcases c with ⟨name, groups⟩
  match groups with
  | [] => rfl
  | [[]] => rfl
  | [t :: tl] => rfl
  | [] :: _ :: _ => rfl
  | (_ :: _) :: _ :: _ => rfl

/-- the sort key of a citation: the entry variable `sort.key$` of its frame (empty when never
assigned); `none` = not a string -/
def sortKeyOf (s : St) (c : Str) : Option Str :=
  match dget (frameOf s c) "sort.key$".toList with
  | some v => valToStr v
  | none => some []

theorem mapM_keyed (G : Str → Option (Str × Str)) (g : Str → Option Str)
    (hG : ∀ c, G c = (g c).map fun k => (k, c)) (cits : List Str) (l : List (Str × Str))
    (h : cits.mapM G = some l) :
    l.map (·.2) = cits ∧ ∀ p ∈ l, g p.2 = some p.1 := by
  induction cits generalizing l with
  | nil => simp at h; subst h; simp
  | cons c cs ih =>
    rw [List.mapM_cons] at h
    cases hg : g c with
    | none => simp [hG, hg] at h
    | some k =>
      cases hr : cs.mapM G with
      | none => simp [hr] at h
      | some r =>
        simp [hG c, hg, hr] at h
        subst h
        obtain ⟨h1, h2⟩ := ih r hr
        refine ⟨by simp [h1], ?_⟩
        intro p hp
        rcases List.mem_cons.1 hp with rfl | hp
        · exact hg
        · exact h2 p hp

/-- `command_sort`: the citations, paired with their `sort.key$`, are sorted on the key -/
theorem runCommand_sort_ok (fuel : Nat) (inp : Input) (c : Bst.Command) (s s' : St)
    (h : upper c.name = "SORT".toList) (hrun : runCommand fuel inp c s = .ok s') :
    ∃ l : List (Str × Str), l.map (·.2) = s.citations ∧ (∀ p ∈ l, sortKeyOf s p.2 = some p.1) ∧
      s' = { s with citations := (sortByKey l).map (·.2) } := by
  simp only [runCommand, h] at hrun
  rw [if_neg (by decide), if_neg (by decide), if_neg (by decide), if_neg (by decide), if_neg (by decide),
    if_neg (by decide), if_neg (by decide), if_neg (by decide), if_pos trivial] at hrun
  split at hrun
  · cases hrun
  · rename_i l hl
    cases hrun
    have := mapM_keyed _ (sortKeyOf s) ?_ _ l hl
    · exact ⟨l, this.1, this.2, rfl⟩
    · intro c
      simp only [sortKeyOf]
      split <;> rename_i hq <;> simp only [hq] <;> rfl

/-! ### one item per key -/

theorem iterate_items (fuel : Nat) (f : VarObj) (Inv : St → Prop) (item : Str → List Str)
    (hf : ∀ s k s', Inv s → execObj fuel f { s with cur := some k } = .ok s' →
      Inv s' ∧ s'.lines = s.lines ++ item k)
    (keys : List Str) (s s' : St) (hs : Inv s) (h : iterate fuel f keys s = .ok s') :
    Inv s' ∧ s'.lines = s.lines ++ keys.flatMap item := by
  induction keys generalizing s with
  | nil => simp only [iterate] at h; cases h; exact ⟨hs, by simp⟩
  | cons k ks ih =>
    simp only [iterate] at h
    split at h
    · cases h
    · split at h
      · cases h
      · split at h
        · cases h
        · rename_i s1 h1
          obtain ⟨hi, hl⟩ := hf s k s1 hs h1
          obtain ⟨hi', hl'⟩ := ih s1 hi h
          exact ⟨hi', by rw [hl', hl, List.flatMap_cons, List.append_assoc]⟩

theorem runProgram_append (fuel : Nat) (inp : Input) (p q : Bst.Program) (s : St) :
    runProgram fuel inp (p ++ q) s =
      match runProgram fuel inp p s with
      | .error e => .error e
      | .ok s' => runProgram fuel inp q s' := by
  induction p generalizing s with
  | nil => rfl
  | cons c cs ih =>
    simp only [List.cons_append, runProgram]
    cases runCommand fuel inp c s with
    | error e => rfl
    | ok s' => exact ih s'

end Pybtex.Engine
