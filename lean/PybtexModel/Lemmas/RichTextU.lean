/-
Lemmas about the extension of the rich-text model (`Model/RichTextU.lean`) and its reference
semantics (`Spec/RichTextU.lean`), used by `Props/C08.lean`.
-/
import PybtexModel.Lemmas.RichText
import PybtexModel.Spec.RichTextU

namespace Pybtex
namespace RT

/-! ### case mapping with images of any length -/

theorem mapCaseFull_append (g : Char → List Char) (a b : Flat) :
    Flat.mapCaseFull g (a ++ b) = Flat.mapCaseFull g a ++ Flat.mapCaseFull g b := by
  simp [Flat.mapCaseFull]

theorem mapCaseFull_prot (g : Char → List Char) (s : Flat) (h : ∀ x ∈ s, Flat.isProt x.2 = true) :
    Flat.mapCaseFull g s = s := by
  induction s with
  | nil => rfl
  | cons x s ih =>
    have hx := h x (by simp)
    have := ih (fun y hy => h y (by simp [hy]))
    simp only [Flat.mapCaseFull, List.flatMap_cons] at this ⊢
    rw [this]
    cases hx1 : x.1 <;> simp [hx]

theorem sem_caseMapFull (g : Char → List Char) (t : RT) :
    ∀ ctx, Flat.isProt ctx = false →
      sem ctx (caseMap (fun s => s.flatMap g) t) = Flat.mapCaseFull g (sem ctx t) := by
  induction t using RT.induct with
  | hstr s =>
    intro ctx hc
    simp only [caseMap, sem, Flat.mapCaseFull]
    induction s with
    | nil => rfl
    | cons c s ih => simp [hc, ih]
  | hsym n => intro ctx hc; simp [caseMap, sem, Flat.mapCaseFull]
  | hnode k ps ih =>
    intro ctx hc
    have hL : ∀ c, Flat.isProt c = false →
        semL c (caseMapL (fun s => s.flatMap g) ps) = Flat.mapCaseFull g (semL c ps) := by
      intro c hc'
      induction ps with
      | nil => simp [caseMapL, semL, Flat.mapCaseFull]
      | cons p ps ih2 =>
        simp only [caseMapL, semL, mapCaseFull_append]
        rw [ih p (by simp) c hc', ih2 (fun q hq => ih q (by simp [hq]))]
    cases k with
    | prot =>
      simp only [caseMap]
      rw [mapCaseFull_prot]
      intro x hx
      simp only [sem, Kind.markup] at hx
      exact stack_prot ctx ps x hx
    | text =>
      simp only [caseMap, sem_mk, sem, Kind.markup, List.append_nil]
      exact hL ctx hc
    | tag n =>
      simp only [caseMap, sem_mk, sem, Kind.markup]
      exact hL _ (by rw [isProt_append, hc]; rfl)
    | href u e =>
      simp only [caseMap, sem_mk, sem, Kind.markup]
      exact hL _ (by rw [isProt_append, hc]; rfl)

theorem abs_upperG (cs : CaseSys) (t : RT) : abs (upperG cs t) = Abs.caseMapFull cs.up (abs t) :=
  abs_ext (by simp [Abs.caseMapFull, upperG, top_caseMap])
    (by simp only [Abs.caseMapFull, upperG, abs_atoms]; exact sem_caseMapFull cs.up t [] rfl)

theorem abs_lowerG (cs : CaseSys) (t : RT) : abs (lowerG cs t) = Abs.caseMapFull cs.lo (abs t) :=
  abs_ext (by simp [Abs.caseMapFull, lowerG, top_caseMap])
    (by simp only [Abs.caseMapFull, lowerG, abs_atoms]; exact sem_caseMapFull cs.lo t [] rfl)

theorem not_prot_of_match {t : RT} (hne : ∀ ps, t = .node .prot ps → False) : (abs t).top ≠ .multi .prot := by
  intro h
  cases t with
  | str s => simp at h
  | sym n => simp at h
  | node k ps => simp only [abs_top, top_node, Top.multi.injEq] at h; subst h; exact hne _ rfl

theorem abs_capfirstG (cs : CaseSys) (t : RT) : abs (capfirstG cs t) = Abs.capfirstG cs (abs t) := by
  unfold capfirstG Abs.capfirstG
  split
  · simp
  · rename_i hne
    rw [if_neg (not_prot_of_match (fun ps h => hne ps h)), abs_add, abs_upperG, abs_getSlice, abs_getSlice]

theorem abs_capitalizeG (cs : CaseSys) (t : RT) : abs (capitalizeG cs t) = Abs.capitalizeG cs (abs t) := by
  unfold capitalizeG Abs.capitalizeG
  split
  · simp
  · rename_i hne
    rw [if_neg (not_prot_of_match (fun ps h => hne ps h)), abs_add, abs_upperG, abs_lowerG, abs_getSlice,
      abs_getSlice]

theorem normal_capfirstG (cs : CaseSys) (t : RT) (h : Normal t = true) : Normal (capfirstG cs t) = true := by
  unfold capfirstG
  split
  · exact h
  · exact normal_add _ _ (normal_caseMap _ _ (normal_getSlice t h _ _)) (normal_getSlice t h _ _)

theorem normal_capitalizeG (cs : CaseSys) (t : RT) (h : Normal t = true) : Normal (capitalizeG cs t) = true := by
  unfold capitalizeG
  split
  · exact h
  · exact normal_add _ _ (normal_caseMap _ _ (normal_getSlice t h _ _))
      (normal_caseMap _ _ (normal_getSlice t h _ _))

/-! where every image is one character the mapping is pointwise: it keeps the length and commutes with slicing -/

/-- every unprotected character of `s` has a one-character image under `g` -/
def Flat.single (g : Char → List Char) (s : Flat) : Bool :=
  s.all fun x => match x.1 with
    | .ch c => Flat.isProt x.2 || (g c).length == 1
    | .sym _ => true

theorem mapCaseFull_single (g : Char → List Char) (s : Flat) (h : Flat.single g s = true) :
    Flat.mapCaseFull g s = Flat.mapCase (fun c => (g c).headD c) s := by
  induction s with
  | nil => rfl
  | cons x s ih =>
    simp only [Flat.single, List.all_cons, Bool.and_eq_true] at h
    have := ih (by simpa [Flat.single] using h.2)
    simp only [Flat.mapCaseFull, Flat.mapCase, List.flatMap_cons, List.map_cons] at this ⊢
    rw [this]
    obtain ⟨a, st⟩ := x
    cases a with
    | sym n => simp
    | ch c =>
      by_cases hp : Flat.isProt st = true
      · simp [hp]
      · have hp' : Flat.isProt st = false := by simpa using hp
        have hl : (g c).length = 1 := by simpa [hp'] using h.1
        match hg : g c, hl with
        | [d], _ => simp [hp', hg]

theorem single_of_lenPreserving (cs : CaseSys) (s : Flat) (h : Flat.lenPreserving cs s = true) :
    Flat.single cs.up s = true ∧ Flat.single cs.lo s = true := by
  simp only [Flat.lenPreserving, List.all_eq_true] at h
  simp only [Flat.single, List.all_eq_true]
  constructor <;> intro x hx <;> have := h x hx <;> cases hx1 : x.1 <;> simp_all
  · rcases this with h | h
    · exact Or.inl h
    · exact Or.inr h.1
  · rcases this with h | h
    · exact Or.inl h
    · exact Or.inr h.2

theorem single_strSlice (g : Char → List Char) (s : Flat) (i j : Option Int) (h : Flat.single g s = true) :
    Flat.single g (strSlice s i j) = true := by
  simp only [Flat.single, List.all_eq_true] at h ⊢
  intro x hx
  exact h x (List.mem_of_mem_drop (List.mem_of_mem_take hx))

theorem abs_caseMapFull_slice (g : Char → List Char) (a : Abs) (i j : Option Int)
    (h : Flat.single g a.atoms = true) :
    Abs.caseMapFull g (Abs.slice a i j) = Abs.slice (Abs.caseMapFull g a) i j := by
  have h1 : Abs.caseMapFull g a = Abs.caseMap (fun c => (g c).headD c) a := by
    simp only [Abs.caseMapFull, Abs.caseMap, mapCaseFull_single g _ h]
  have h2 : Abs.caseMapFull g (Abs.slice a i j) = Abs.caseMap (fun c => (g c).headD c) (Abs.slice a i j) := by
    simp only [Abs.caseMapFull, Abs.caseMap]
    rw [mapCaseFull_single]
    exact single_strSlice g a.atoms i j h
  rw [h1, h2, abs_caseMap_slice]

theorem abs_caseMapFull_add (g : Char → List Char) (a b : Abs) :
    Abs.caseMapFull g (Abs.add a b) = Abs.add (Abs.caseMapFull g a) (Abs.caseMapFull g b) := by
  simp [Abs.caseMapFull, Abs.add, mapCaseFull_append]

theorem mapCaseFull_length_single (g : Char → List Char) (s : Flat) (h : Flat.single g s = true) :
    (Flat.mapCaseFull g s).length = s.length := by
  rw [mapCaseFull_single g s h]; simp [Flat.mapCase]

/-! ### `isalpha` with any letter test -/

def Flat.allAlphaG (alpha : Char → Bool) (s : Flat) : Bool :=
  s.all fun x => match x.1 with
    | .ch c => alpha c
    | .sym _ => false

theorem isAlphaG_eq (alpha : Char → Bool) (t : RT) : ∀ ctx, Normal t = true →
    isAlphaG alpha t = (len t != 0 && Flat.allAlphaG alpha (sem ctx t)) := by
  induction t using RT.induct with
  | hstr s =>
    intro ctx _
    simp only [isAlphaG, len, sem, Flat.allAlphaG, List.all_map]
    cases s <;> simp [Function.comp_def]
  | hsym n => intro ctx _; simp [isAlphaG, sem, Flat.allAlphaG]
  | hnode k ps ih =>
    intro ctx hn
    have hp := ((normal_node k ps).1 hn).1
    simp only [isAlphaG, len, sem]
    congr 1
    generalize ctx ++ k.markup = c
    clear hn
    induction ps with
    | nil => simp [isAlphaGL, semL, Flat.allAlphaG]
    | cons p ps ih2 =>
      simp only [isAlphaGL, semL]
      rw [ih p (by simp) c (hp p (by simp)).2.2, ih2 (fun x hx => ih x (by simp [hx])) (fun x hx => hp x (by simp [hx]))]
      have := (hp p (by simp)).1
      simp only [Flat.allAlphaG, List.all_append]
      have h1 : (len p != 0) = true := by simpa using this
      rw [h1, Bool.true_and]

theorem isAlphaG_spec (alpha : Char → Bool) (t : RT) (ctx : List Markup) (h : Normal t = true) :
    isAlphaG alpha t = Flat.isAlphaG alpha (sem ctx t) := by
  rw [isAlphaG_eq alpha t ctx h, Flat.isAlphaG]
  congr 1
  rw [← sem_length t ctx]
  cases sem ctx t <;> simp

/-! ### completeness of `startswith` / `endswith` / `in` on normal forms

A match spelled inside one markup never runs across the boundary between two parts of a normal
form: the last pair of a part and the first pair of the next one are never both characters with
the same markup (`boundaryL`).  Hence a match in the string of pairs lies inside one part, where
the part-wise search of the code finds it. -/

def isCh (x : Atom × List Markup) : Bool :=
  match x.1 with
  | .ch _ => true
  | .sym _ => false

/-- two neighbouring pairs a one-markup match could run across: both characters, same markup -/
def linked (x y : Atom × List Markup) : Bool := isCh x && isCh y && x.2 == y.2

theorem Pstr_linked (ctx : List Markup) (x y : Atom × List Markup) (h : linked x y = true)
    (hx : Pstr ctx x = true) : Pstr ctx y = true := by
  simp only [linked, isCh, Bool.and_eq_true, beq_iff_eq] at h
  simp only [Pstr, Bool.and_eq_true, beq_iff_eq] at hx ⊢
  exact ⟨h.1.2, by rw [← h.2]; exact hx.2⟩

theorem Pnode_linked (ctx : List Markup) (m : Markup) (x y : Atom × List Markup) (h : linked x y = true)
    (hx : Pnode ctx m x = true) : Pnode ctx m y = true := by
  simp only [linked, Bool.and_eq_true, beq_iff_eq] at h
  simp only [Pnode] at hx ⊢
  rw [← h.2]; exact hx

theorem boundary (ctx : List Markup) (p q : RT) (hp : PartOK p) (hq : PartOK q) (hm : mergeable p q = false)
    (x y : Atom × List Markup) (hx : (sem ctx p).getLast? = some x) (hy : (sem ctx q).head? = some y) :
    linked x y = false := by
  have hxm : x ∈ sem ctx p := List.mem_of_getLast? hx
  cases hl : linked x y with
  | false => rfl
  | true =>
    exfalso
    cases p with
    | str s =>
      have h1 := Pstr_linked ctx x y hl (all_Pstr ctx s x hxm)
      have h2 := head_not_Pstr ctx q hq (typeInfo_of_not_mergeable_str hm) y hy
      rw [h1] at h2; cases h2
    | sym n =>
      simp only [sem, List.mem_singleton] at hxm; subst hxm
      simp [linked, isCh] at hl
    | node k ps =>
      obtain ⟨m, hmk⟩ := markup_single k (not_text_of_partOK hp)
      have h1 := Pnode_linked ctx m x y hl (all_Pnode ctx k m hmk ps x hxm)
      have h2 := head_not_Pnode ctx k m hmk q hq (typeInfo_of_not_mergeable_node hm) y hy
      rw [h1] at h2; cases h2

theorem semL_ne_nil (ctx : List Markup) (p : RT) (l : List RT) (hp : PartOK p) : semL ctx (p :: l) ≠ [] := by
  intro h
  simp only [semL, List.append_eq_nil_iff] at h
  exact sem_ne_nil_of_partOK ctx hp h.1

/-- in a normal list of parts no one-markup run of characters crosses a boundary between parts -/
theorem boundaryL (ctx : List Markup) : ∀ (l1 l2 : List RT), (∀ p ∈ l1 ++ l2, PartOK p) →
    noAdjacentSimilar (l1 ++ l2) = true → ∀ x y, (semL ctx l1).getLast? = some x →
    (semL ctx l2).head? = some y → linked x y = false
  | [], _, _, _, x, y, hx, _ => by simp [semL] at hx
  | [p], l2, hOK, hadj, x, y, hx, hy => by
    cases l2 with
    | nil => simp [semL] at hy
    | cons q r =>
      rw [head?_semL_cons ctx q r (hOK q (by simp))] at hy
      simp only [semL, List.append_nil] at hx
      simp only [List.cons_append, List.nil_append, noAdjacentSimilar, Bool.and_eq_true, Bool.not_eq_true'] at hadj
      exact boundary ctx p q (hOK p (by simp)) (hOK q (by simp)) hadj.1 x y hx hy
  | p :: p' :: l1, l2, hOK, hadj, x, y, hx, hy => by
    have e : semL ctx (p :: p' :: l1) = sem ctx p ++ semL ctx (p' :: l1) := rfl
    rw [e, getLast?_append_of_ne_nil _ _ (semL_ne_nil ctx p' l1 (hOK p' (by simp)))] at hx
    exact boundaryL ctx (p' :: l1) l2 (fun q hq => hOK q (by simp only [List.cons_append, List.mem_cons] at hq ⊢; exact Or.inr hq))
      (noAdj_tail (p := p) hadj) x y hx hy

/-- all pairs are characters and carry the same markup -/
def Flat.uniform (w : Flat) : Bool :=
  w.all isCh && match w with
    | [] => true
    | x :: r => r.all fun y => y.2 == x.2

theorem map_atom_ch_inj (a b : Str) (h : a.map Atom.ch = b.map Atom.ch) : a = b := by
  induction a generalizing b with
  | nil => cases b <;> simp_all
  | cons c a ih =>
    cases b with
    | nil => simp at h
    | cons d b =>
      simp only [List.map_cons, List.cons.injEq, Atom.ch.injEq] at h
      rw [h.1, ih b h.2]

theorem uniform_of_spells (q : Str) (w : Flat) (h : Flat.spells q w = true) : Flat.uniform w = true := by
  simp only [Flat.spells, Bool.and_eq_true, beq_iff_eq] at h
  simp only [Flat.uniform, Bool.and_eq_true]
  refine ⟨?_, h.2⟩
  rw [List.all_eq_true]
  intro x hx
  have : x.1 ∈ w.map (·.1) := List.mem_map_of_mem hx
  rw [h.1, List.mem_map] at this
  obtain ⟨c, _, hc⟩ := this
  simp [isCh, ← hc]

theorem linked_of_uniform (U V : Flat) (x y : Atom × List Markup)
    (h : Flat.uniform (U ++ x :: y :: V) = true) : linked x y = true := by
  simp only [Flat.uniform, Bool.and_eq_true, List.all_append, List.all_cons] at h
  obtain ⟨⟨_, hx, hy, _⟩, h2⟩ := h
  simp only [linked, hx, hy, Bool.true_and, beq_iff_eq]
  cases U with
  | nil =>
    simp only [List.nil_append, List.all_cons, Bool.and_eq_true, beq_iff_eq] at h2
    exact h2.1.symm
  | cons u U =>
    simp only [List.cons_append, List.all_append, List.all_cons, Bool.and_eq_true, beq_iff_eq] at h2
    rw [h2.2.1, h2.2.2.1]

/-- a one-markup match that begins inside `A` and ends inside `B` links the last pair of `A` with the first of `B` -/
theorem straddle (q : Str) (A B : Flat) (hA : A ≠ []) (hn : A.length < q.length)
    (hle : q.length ≤ (A ++ B).length) (hs : Flat.spells q ((A ++ B).take q.length) = true) :
    ∃ x y, A.getLast? = some x ∧ B.head? = some y ∧ linked x y = true := by
  have hu := uniform_of_spells _ _ hs
  rw [List.take_append, List.take_of_length_le (Nat.le_of_lt hn)] at hu
  obtain ⟨A', x, rfl⟩ : ∃ A' x, A = A' ++ [x] := by
    rcases List.eq_nil_or_concat A with h | ⟨A', x, h⟩
    · exact absurd h hA
    · exact ⟨A', x, by simpa using h⟩
  cases B with
  | nil => simp only [List.append_nil] at hle; omega
  | cons y B' =>
    obtain ⟨k, hk⟩ : ∃ k, q.length - (A' ++ [x]).length = k + 1 := ⟨q.length - (A' ++ [x]).length - 1, by omega⟩
    rw [hk, List.take_succ_cons, List.append_assoc, List.singleton_append] at hu
    exact ⟨x, y, by simp, rfl, linked_of_uniform A' _ x y hu⟩

theorem startsWith_complete (ps : List Str) (t : RT) : ∀ ctx, Normal t = true →
    Flat.startsWith ps (sem ctx t) = true → startsWith ps t = true := by
  induction t using RT.induct with
  | hstr s =>
    intro ctx _ h
    simp only [Flat.startsWith, List.any_eq_true] at h
    obtain ⟨q, hq, hq2⟩ := h
    simp only [startsWith, List.any_eq_true]
    refine ⟨q, hq, ?_⟩
    cases s with
    | nil => simp [Flat.startsWith1, sem] at hq2
    | cons c s =>
      simp only [Flat.startsWith1, sem, List.map_cons, Bool.true_and, Bool.and_eq_true, decide_eq_true_eq,
        Flat.spells, beq_iff_eq] at hq2
      rw [isPrefixOf_iff_take]
      refine ⟨by simpa using hq2.1, ?_⟩
      apply map_atom_ch_inj
      rw [← hq2.2.1, ← List.map_cons (f := fun c => ((Atom.ch c, ctx) : Atom × List Markup)), ← List.map_take,
        List.map_map]
      rfl
  | hsym n => intro ctx _ h; simp [Flat.startsWith, Flat.startsWith1, sem] at h
  | hnode k ps' ih =>
    intro ctx hn h
    obtain ⟨hOK, hadj⟩ := (normal_node k ps').1 hn
    cases ps' with
    | nil => simp [Flat.startsWith, Flat.startsWith1, sem, semL] at h
    | cons p r =>
      simp only [startsWith, startsWithL]
      apply ih p (by simp) (ctx ++ k.markup) (hOK p (by simp)).2.2
      simp only [Flat.startsWith, List.any_eq_true, sem, semL] at h ⊢
      obtain ⟨q, hq, hq2⟩ := h
      refine ⟨q, hq, ?_⟩
      have hA := sem_ne_nil_of_partOK (ctx ++ k.markup) (hOK p (by simp))
      cases hA' : sem (ctx ++ k.markup) p with
      | nil => exact absurd hA' hA
      | cons a A =>
        rw [hA'] at hq2
        simp only [Flat.startsWith1, List.cons_append, Bool.and_eq_true, decide_eq_true_eq] at hq2 ⊢
        by_cases hlen : q.length ≤ (a :: A).length
        · refine ⟨⟨hq2.1.1, hlen⟩, ?_⟩
          have : ((a :: A) ++ semL (ctx ++ k.markup) r).take q.length = (a :: A).take q.length :=
            List.take_append_of_le_length hlen
          simp only [List.cons_append] at this
          rw [← this]; exact hq2.2
        · exfalso
          obtain ⟨x, y, hx, hy, hl⟩ := straddle q (a :: A) (semL (ctx ++ k.markup) r) (by simp) (by omega)
            (by simpa using hq2.1.2) (by simpa using hq2.2)
          have hx' : (semL (ctx ++ k.markup) [p]).getLast? = some x := by
            simp only [semL, List.append_nil, hA']; exact hx
          have := boundaryL (ctx ++ k.markup) [p] r (by simpa using hOK) (by simpa using hadj) x y hx' hy
          rw [hl] at this; cases this

theorem isPrefixOf_of_spells (ctx : List Markup) (q s : Str) (h1 : q.length ≤ s.length)
    (h2 : Flat.spells q ((sem ctx (.str s)).take q.length) = true) : q.isPrefixOf s = true := by
  rw [isPrefixOf_iff_take]
  refine ⟨h1, ?_⟩
  simp only [Flat.spells, Bool.and_eq_true, beq_iff_eq, sem, ← List.map_take, List.map_map] at h2
  apply map_atom_ch_inj
  rw [← h2.1]; rfl

theorem hasWindow_append_cases (q : Str) (A B : Flat) (h : Flat.hasWindow q (A ++ B) = true) :
    Flat.hasWindow q A = true ∨ Flat.hasWindow q B = true ∨
    ∃ x y, A.getLast? = some x ∧ B.head? = some y ∧ linked x y = true := by
  induction A with
  | nil => right; left; simpa using h
  | cons a A ih =>
    simp only [List.cons_append, Flat.hasWindow, Bool.or_eq_true, Bool.and_eq_true, decide_eq_true_eq] at h
    rcases h with ⟨h1, h2⟩ | h
    · by_cases hlen : q.length ≤ (a :: A).length
      · left
        simp only [Flat.hasWindow, Bool.or_eq_true, Bool.and_eq_true, decide_eq_true_eq]
        left; refine ⟨hlen, ?_⟩
        have : ((a :: A) ++ B).take q.length = (a :: A).take q.length := List.take_append_of_le_length hlen
        simp only [List.cons_append] at this
        rw [← this]; exact h2
      · right; right
        exact straddle q (a :: A) B (by simp) (by omega) (by simpa using h1) (by simpa using h2)
    · rcases ih h with h | h | ⟨x, y, hx, hy, hl⟩
      · left; simp only [Flat.hasWindow, Bool.or_eq_true]; right; exact h
      · right; left; exact h
      · right; right
        refine ⟨x, y, ?_, hy, hl⟩
        cases A with
        | nil => simp at hx
        | cons a' A => simpa using hx

theorem isInfix_of_hasWindow (ctx : List Markup) (item s : Str)
    (h : Flat.hasWindow item (sem ctx (.str s)) = true) : isInfix item s = true := by
  induction s with
  | nil => simp [sem, Flat.hasWindow] at h
  | cons c s ih =>
    have e : sem ctx (.str (c :: s)) = (Atom.ch c, ctx) :: sem ctx (.str s) := by simp [sem]
    rw [e] at h
    simp only [Flat.hasWindow, Bool.or_eq_true, Bool.and_eq_true, decide_eq_true_eq] at h
    simp only [isInfix, Bool.or_eq_true]
    rcases h with ⟨h1, h2⟩ | h
    · left
      rw [← e] at h1 h2
      exact isPrefixOf_of_spells ctx item (c :: s) (by simpa [sem] using h1) h2
    · right; exact ih h

theorem contains_complete (item : Str) (hi : item ≠ []) (t : RT) : ∀ ctx, Normal t = true →
    Flat.hasWindow item (sem ctx t) = true → contains item t = true := by
  induction t using RT.induct with
  | hstr s => intro ctx _ h; exact isInfix_of_hasWindow ctx item s h
  | hsym n =>
    intro ctx _ h
    simp only [sem, Flat.hasWindow, Bool.or_false, Bool.and_eq_true, decide_eq_true_eq] at h
    have h1 := h.1
    have h2 := h.2
    cases item with
    | nil => exact absurd rfl hi
    | cons c item =>
      cases item with
      | nil => simp [Flat.spells] at h2
      | cons d item => simp at h1
  | hnode k ps ih =>
    intro ctx hn h
    obtain ⟨hOK, hadj⟩ := (normal_node k ps).1 hn
    simp only [contains, Bool.or_eq_true]
    right
    simp only [sem] at h
    generalize ctx ++ k.markup = c at h
    clear hn
    induction ps with
    | nil => simp [semL, Flat.hasWindow] at h
    | cons p r ih2 =>
      simp only [containsL, Bool.or_eq_true]
      simp only [semL] at h
      rcases hasWindow_append_cases item _ _ h with h | h | ⟨x, y, hx, hy, hl⟩
      · left; exact ih p (by simp) c (hOK p (by simp)).2.2 h
      · right
        exact ih2 (fun q hq => ih q (by simp [hq])) (fun q hq => hOK q (by simp [hq])) (noAdj_tail hadj) h
      · exfalso
        have hx' : (semL c [p]).getLast? = some x := by simpa [semL] using hx
        have := boundaryL c [p] r (by simpa using hOK) (by simpa using hadj) x y hx' hy
        rw [hl] at this; cases this

theorem endsWithL_concat (suffixes : List Str) (init : List RT) (last : RT) :
    endsWithL suffixes (init ++ [last]) = endsWith suffixes last := by
  induction init with
  | nil => rfl
  | cons p init ih =>
    cases init with
    | nil => rfl
    | cons q init => simp only [List.cons_append, endsWithL] at ih ⊢; exact ih

/-- a one-markup match that ends `A ++ B` and begins inside `A` links the last pair of `A` with the first of `B` -/
theorem straddle_suffix (q : Str) (A B : Flat) (hB : B ≠ []) (hn : B.length < q.length)
    (hle : q.length ≤ (A ++ B).length)
    (hs : Flat.spells q ((A ++ B).drop ((A ++ B).length - q.length)) = true) :
    ∃ x y, A.getLast? = some x ∧ B.head? = some y ∧ linked x y = true := by
  have hu := uniform_of_spells _ _ hs
  simp only [List.length_append] at hle hu
  have hd : A.length + B.length - q.length < A.length := by omega
  rw [List.drop_append_of_le_length (Nat.le_of_lt hd)] at hu
  have hne : A.drop (A.length + B.length - q.length) ≠ [] := by
    intro h; rw [List.drop_eq_nil_iff] at h; omega
  obtain ⟨U, x, hU⟩ : ∃ U x, A.drop (A.length + B.length - q.length) = U ++ [x] := by
    rcases List.eq_nil_or_concat (A.drop (A.length + B.length - q.length)) with h | ⟨U, x, h⟩
    · exact absurd h hne
    · exact ⟨U, x, by simpa using h⟩
  have hx : A.getLast? = some x := by
    have := List.getLast?_drop (l := A) (i := A.length + B.length - q.length)
    rw [hU, if_neg (by omega)] at this
    rw [← this]; simp
  cases B with
  | nil => exact absurd rfl hB
  | cons y B' =>
    rw [hU, List.append_assoc, List.singleton_append] at hu
    exact ⟨x, y, hx, rfl, linked_of_uniform U B' x y hu⟩

theorem isSuffixOf_of_spells (ctx : List Markup) (q s : Str) (h1 : q.length ≤ s.length)
    (h2 : Flat.spells q ((sem ctx (.str s)).drop ((sem ctx (.str s)).length - q.length)) = true) :
    q.isSuffixOf s = true := by
  rw [isSuffixOf_iff_drop]
  refine ⟨h1, ?_⟩
  simp only [Flat.spells, Bool.and_eq_true, beq_iff_eq, sem, List.length_map, ← List.map_drop, List.map_map] at h2
  apply map_atom_ch_inj
  rw [← h2.1]; rfl

theorem endsWith_complete (ps : List Str) (t : RT) : ∀ ctx, Normal t = true →
    Flat.endsWith ps (sem ctx t) = true → endsWith ps t = true := by
  induction t using RT.induct with
  | hstr s =>
    intro ctx _ h
    simp only [Flat.endsWith, List.any_eq_true] at h
    obtain ⟨q, hq, hq2⟩ := h
    simp only [endsWith, List.any_eq_true]
    refine ⟨q, hq, ?_⟩
    simp only [Flat.endsWith1] at hq2
    cases hl : (sem ctx (.str s)).getLast? with
    | none => rw [hl] at hq2; cases hq2
    | some x =>
      rw [hl] at hq2
      simp only [Bool.and_eq_true, decide_eq_true_eq] at hq2
      exact isSuffixOf_of_spells ctx q s (by simpa [sem] using hq2.1.2) hq2.2
  | hsym n => intro ctx _ h; simp [Flat.endsWith, Flat.endsWith1, sem] at h
  | hnode k ps' ih =>
    intro ctx hn h
    obtain ⟨hOK, hadj⟩ := (normal_node k ps').1 hn
    rcases List.eq_nil_or_concat ps' with h0 | ⟨init, last, h0⟩
    · subst h0; simp [Flat.endsWith, Flat.endsWith1, sem, semL] at h
    · have h0' : ps' = init ++ [last] := by simpa using h0
      subst h0'
      simp only [endsWith, endsWithL_concat]
      have hlast := hOK last (by simp)
      apply ih last (by simp) (ctx ++ k.markup) hlast.2.2
      simp only [Flat.endsWith, List.any_eq_true, sem, semL_reverse_cons] at h ⊢
      obtain ⟨q, hq, hq2⟩ := h
      refine ⟨q, hq, ?_⟩
      have hL := sem_ne_nil_of_partOK (ctx ++ k.markup) hlast
      simp only [Flat.endsWith1] at hq2 ⊢
      rw [getLast?_append_of_ne_nil _ _ hL] at hq2
      cases hl : (sem (ctx ++ k.markup) last).getLast? with
      | none => rw [hl] at hq2; cases hq2
      | some z =>
        rw [hl] at hq2
        simp only [Bool.and_eq_true, decide_eq_true_eq] at hq2 ⊢
        by_cases hlen : q.length ≤ (sem (ctx ++ k.markup) last).length
        · refine ⟨⟨hq2.1.1, hlen⟩, ?_⟩
          have : (semL (ctx ++ k.markup) init ++ sem (ctx ++ k.markup) last).drop
              ((semL (ctx ++ k.markup) init ++ sem (ctx ++ k.markup) last).length - q.length)
              = (sem (ctx ++ k.markup) last).drop ((sem (ctx ++ k.markup) last).length - q.length) := by
            rw [List.drop_append, List.length_append]
            have e1 : (semL (ctx ++ k.markup) init).drop
                ((semL (ctx ++ k.markup) init).length + (sem (ctx ++ k.markup) last).length - q.length) = [] :=
              List.drop_of_length_le (by omega)
            rw [e1, List.nil_append]
            congr 1; omega
          rw [← this]; exact hq2.2
        · exfalso
          obtain ⟨x, y, hx, hy, hlk⟩ := straddle_suffix q _ _ hL (by omega) hq2.1.2 hq2.2
          have hy' : (semL (ctx ++ k.markup) [last]).head? = some y := by simpa [semL] using hy
          have := boundaryL (ctx ++ k.markup) init [last] hOK hadj x y hx hy'
          rw [hlk] at this; cases this

/-- **exactness** of `startswith` / `endswith` / `in` on objects: the part-wise search of the code answers exactly
"some alternative is spelled at the beginning / at the end / somewhere, inside one markup" -/
theorem startsWith_exact (ps : List Str) (t : RT) (h : Normal t = true) :
    startsWith ps t = Abs.startsWith ps (abs t) := by
  rw [Bool.eq_iff_iff]
  simp only [Abs.startsWith, Bool.or_eq_true, Bool.and_eq_true, abs_atoms, abs_top]
  constructor
  · intro hs
    rcases startsWith_sound ps t [] h hs with h1 | ⟨h1, h2⟩
    · exact Or.inl h1
    · subst h1; right; simp [sem, h2]
  · rintro (h1 | ⟨⟨h1, h2⟩, h3⟩)
    · exact startsWith_complete ps t [] h h1
    · cases t with
      | str s =>
        have : s = [] := by simpa [sem] using h2
        subst this
        simp only [startsWith, List.any_eq_true]
        exact ⟨[], by simpa using h3, rfl⟩
      | sym n => simp at h1
      | node k ps' => simp at h1

theorem endsWith_exact (ps : List Str) (t : RT) (h : Normal t = true) :
    endsWith ps t = Abs.endsWith ps (abs t) := by
  rw [Bool.eq_iff_iff]
  simp only [Abs.endsWith, Bool.or_eq_true, Bool.and_eq_true, abs_atoms, abs_top]
  constructor
  · intro hs
    rcases endsWith_sound ps t [] h hs with h1 | ⟨h1, h2⟩
    · exact Or.inl h1
    · subst h1; right; simp [sem, h2]
  · rintro (h1 | ⟨⟨h1, h2⟩, h3⟩)
    · exact endsWith_complete ps t [] h h1
    · cases t with
      | str s =>
        have : s = [] := by simpa [sem] using h2
        subst this
        simp only [endsWith, List.any_eq_true]
        exact ⟨[], by simpa using h3, rfl⟩
      | sym n => simp at h1
      | node k ps' => simp at h1

theorem contains_exact (item : Str) (t : RT) (h : Normal t = true) :
    contains item t = Abs.contains item (abs t) := by
  unfold Abs.contains
  by_cases hi : item = []
  · subst hi
    cases t with
    | str s => cases s <;> simp [contains, isInfix]
    | sym n => simp [contains]
    | node k ps => simp [contains]
  · have hie : item.isEmpty = false := by cases item <;> simp_all
    simp only [hie, Bool.false_eq_true, if_false, abs_atoms]
    rw [Bool.eq_iff_iff]
    exact ⟨contains_sound item hi t [] , contains_complete item hi t [] h⟩


/-! ### the Python string operation on the characters, compared with the part-wise reading -/

theorem spellsAny_of_spells (q : Str) (w : Flat) (h : Flat.spells q w = true) : Flat.spellsAny q w = true := by
  simp only [Flat.spells, Bool.and_eq_true] at h
  exact h.1

theorem startsWithFull1_of_startsWith1 (q : Str) (s : Flat) (h : Flat.startsWith1 q s = true) :
    Flat.startsWithFull1 q s = true := by
  cases s with
  | nil => simp [Flat.startsWith1] at h
  | cons x s =>
    simp only [Flat.startsWith1, Bool.and_eq_true] at h
    simp only [Flat.startsWithFull1, Bool.and_eq_true]
    exact ⟨h.1.2, spellsAny_of_spells _ _ h.2⟩

theorem endsWithFull1_of_endsWith1 (q : Str) (s : Flat) (h : Flat.endsWith1 q s = true) :
    Flat.endsWithFull1 q s = true := by
  simp only [Flat.endsWith1] at h
  cases hl : s.getLast? with
  | none => rw [hl] at h; cases h
  | some x =>
    rw [hl] at h
    simp only [Bool.and_eq_true] at h
    simp only [Flat.endsWithFull1, Bool.and_eq_true]
    exact ⟨h.1.2, spellsAny_of_spells _ _ h.2⟩

theorem hasWindowFull_of_hasWindow (q : Str) (s : Flat) (h : Flat.hasWindow q s = true) :
    Flat.hasWindowFull q s = true := by
  induction s with
  | nil => simp [Flat.hasWindow] at h
  | cons x s ih =>
    simp only [Flat.hasWindow, Bool.or_eq_true, Bool.and_eq_true] at h
    simp only [Flat.hasWindowFull, Flat.startsWithFull1, Bool.or_eq_true, Bool.and_eq_true]
    rcases h with h | h
    · exact Or.inl ⟨h.1, spellsAny_of_spells _ _ h.2⟩
    · exact Or.inr (ih h)

/-! ### `split` with an arbitrary string splitter (`splitBy`): compiled patterns, `abbreviate` -/

/-- the list-level splitter `F` cuts a string of pairs the way `f` cuts a Python string: it is a homomorphism for
`glue` (cutting `a ++ b` = cutting both and continuing the last piece of `a` with the first of `b`), never returns no
piece, agrees with `f` on the unprotected characters of a `String`, and does not cut symbols or protected text -/
structure SplitSpec (f : Str → List Str) (F : Flat → List Flat) : Prop where
  nil : F [] = [[]]
  append : ∀ a b, F (a ++ b) = glue (F a) (F b)
  ne_nil : ∀ a, F a ≠ []
  str : ∀ ctx, Flat.isProt ctx = false → ∀ s, (f s).map (fun part => sem ctx (.str part)) = F (sem ctx (.str s))
  sym : ∀ n ctx, F [(.sym n, ctx)] = [[(.sym n, ctx)]]
  prot : ∀ s, (∀ x ∈ s, Flat.isProt x.2 = true) → F s = [s]

def SplitByOK (f : Str → List Str) (F : Flat → List Flat) (t : RT) : Prop :=
  ∀ ctx, Flat.isProt ctx = false → (splitBy f t true).map (sem ctx) = F (sem ctx t)

theorem splitByL_sem {f : Str → List Str} {F : Flat → List Flat} (hF : SplitSpec f F) (ctx : List Markup) (k : Kind)
    (hc : Flat.isProt (ctx ++ k.markup) = false) (keep : Bool) (ps : List RT) (hps : ∀ p ∈ ps, SplitByOK f F p) :
    ∀ tail, (keep = true → tail ≠ []) →
      (splitByL f k keep ps tail).map (sem ctx)
        = keepF keep (mapHead (semL (ctx ++ k.markup) tail ++ ·) (F (semL (ctx ++ k.markup) ps))) := by
  induction ps with
  | nil =>
    intro tail hk
    simp only [splitByL, semL, hF.nil, mapHead, List.append_nil]
    by_cases ht : tail = []
    · subst ht
      have : keep = false := by cases keep <;> simp_all
      subst this
      simp [keepF, semL]
    · have : (!tail.isEmpty) = true := by simpa using ht
      rw [if_pos this, keepF_single, sem_mk]; rfl
  | cons part ps ih =>
    intro tail hk
    have hsp := hps part (by simp) (ctx ++ k.markup) hc
    simp only [splitByL]
    generalize hS : splitBy f part true = sp at hsp
    have hne : sp ≠ [] := by
      intro h; rw [h] at hsp
      exact hF.ne_nil _ hsp.symm
    cases hrev : sp.reverse with
    | nil => simp at hrev; exact absurd hrev hne
    | cons last revInit =>
      have hsp' : sp = revInit.reverse ++ [last] := by
        have := congrArg List.reverse hrev; simpa using this
      simp only
      obtain ⟨h1, h2⟩ := splitItems_sem ctx k keep revInit.reverse tail
      rw [List.map_append, h1, h2]
      rw [ih (fun p hp => hps p (by simp [hp])) _ (by intro _; simp)]
      rw [semL, hF.append, ← hsp, hsp', List.map_append, List.map_cons, List.map_nil, glue_snoc]
      cases hI : revInit.reverse with
      | nil =>
        simp only [List.map_nil, List.nil_append, if_pos, keepF, List.filter_nil, mapHead_mapHead, semL_append,
          semL, List.append_nil]
        congr 2
        funext x; simp [List.append_assoc]
      | cons i is =>
        simp only [List.map_cons, if_neg (List.cons_ne_nil _ _), List.nil_append, semL, List.append_nil,
          List.cons_append, mapHead]
        rw [← keepF_append]; rfl

theorem splitByOK_all {f : Str → List Str} {F : Flat → List Flat} (hF : SplitSpec f F) (t : RT) : SplitByOK f F t := by
  induction t using RT.induct with
  | hstr s =>
    intro ctx hc
    simp only [splitBy, Bool.or_true, List.map_map]
    rw [List.filter_eq_self.2 (fun _ _ => rfl)]
    exact hF.str ctx hc s
  | hsym n =>
    intro ctx hc
    simp only [splitBy, List.map_cons, List.map_nil, sem]
    exact (hF.sym n ctx).symm
  | hnode k ps ih =>
    intro ctx hc
    cases k with
    | prot =>
      simp only [splitBy, List.map_cons, List.map_nil]
      rw [hF.prot]
      intro x hx
      simp only [sem, Kind.markup] at hx
      exact stack_prot ctx ps x hx
    | text =>
      simp only [splitBy, if_true]
      rw [splitByL_sem hF ctx .text (by simpa [Kind.markup] using hc) true ps ih _ (by simp)]
      simp only [keepF_true, semL, sem, List.map_nil, List.append_nil]
      exact mapHead_nil_append _
    | tag n =>
      simp only [splitBy, if_true]
      rw [splitByL_sem hF ctx (.tag n) (by rw [isProt_append, hc]; rfl) true ps ih _ (by simp)]
      simp only [keepF_true, semL, sem, List.map_nil, List.append_nil]
      exact mapHead_nil_append _
    | href u e =>
      simp only [splitBy, if_true]
      rw [splitByL_sem hF ctx (.href u e) (by rw [isProt_append, hc]; rfl) true ps ih _ (by simp)]
      simp only [keepF_true, semL, sem, List.map_nil, List.append_nil]
      exact mapHead_nil_append _

theorem sem_splitBy {f : Str → List Str} {F : Flat → List Flat} (hF : SplitSpec f F) (t : RT) (keep : Bool)
    (ctx : List Markup) (hc : Flat.isProt ctx = false) (ht : top t ≠ .symbol ∧ top t ≠ .multi .prot) :
    (splitBy f t keep).map (sem ctx) = keepF keep (F (sem ctx t)) := by
  cases t with
  | str s =>
    simp only [splitBy, List.map_map]
    rw [← hF.str ctx hc s]
    simp only [keepF, List.filter_map]
    congr 1
    apply List.filter_congr
    intro part _
    simp [sem]
  | sym n => simp at ht
  | node k ps =>
    have hps : ∀ p ∈ ps, SplitByOK f F p := fun p _ => splitByOK_all hF p
    have hk : k ≠ .prot := by intro h; subst h; simp at ht
    have hc' : Flat.isProt (ctx ++ k.markup) = false := by
      rw [isProt_append, hc]; cases k <;> simp_all [Kind.markup, Flat.isProt]
    have key : ∀ tail, (keep = true → tail ≠ []) → semL (ctx ++ k.markup) tail = [] →
        (splitByL f k keep ps tail).map (sem ctx) = keepF keep (F (sem ctx (.node k ps))) := by
      intro tail h1 h2
      rw [splitByL_sem hF ctx k hc' _ ps hps tail h1, h2]
      simp only [sem]
      rw [mapHead_nil_append]
    cases k with
    | prot => exact absurd rfl hk
    | text => simp only [splitBy]; apply key <;> split <;> simp_all [semL, sem]
    | tag n => simp only [splitBy]; apply key <;> split <;> simp_all [semL, sem]
    | href u e => simp only [splitBy]; apply key <;> split <;> simp_all [semL, sem]

def SplitByNormal (f : Str → List Str) (t : RT) : Prop :=
  Normal t = true → ∀ keep, ∀ r ∈ splitBy f t keep, Normal r = true

theorem splitByL_props (f : Str → List Str) (k : Kind) (keep : Bool) (ps : List RT)
    (hps : ∀ p ∈ ps, SplitByNormal f p ∧ Normal p = true) :
    ∀ tail, (∀ x ∈ tail, Normal x = true) →
      ∀ r ∈ splitByL f k keep ps tail, top r = .multi k ∧ Normal r = true := by
  induction ps with
  | nil =>
    intro tail ht r hr
    simp only [splitByL] at hr
    split at hr
    · split at hr
      · simp only [List.mem_singleton] at hr; subst hr
        exact ⟨rfl, normal_mk _ _ ht⟩
      · cases hr
    · cases hr
  | cons part ps ih =>
    intro tail ht r hr
    simp only [splitByL] at hr
    have hpart := hps part (by simp)
    have hsp : ∀ x ∈ splitBy f part true, Normal x = true := hpart.1 hpart.2 true
    split at hr
    · exact ih (fun p hp => hps p (by simp [hp])) tail ht r hr
    · rename_i last revInit hrev
      have hmem : ∀ x, x ∈ last :: revInit → x ∈ splitBy f part true := by
        intro x hx; rw [← hrev] at hx; exact List.mem_reverse.1 hx
      obtain ⟨h1, h2⟩ := splitItems_props k keep revInit.reverse tail
        (fun x hx => hsp x (hmem x (by simp [List.mem_reverse.1 hx]))) ht
      simp only [List.mem_append] at hr
      rcases hr with hr | hr
      · exact h1 r hr
      · apply ih (fun p hp => hps p (by simp [hp])) _ _ r hr
        intro x hx
        simp only [List.mem_append, List.mem_singleton] at hx
        rcases hx with hx | rfl
        · exact h2 x hx
        · exact hsp _ (hmem _ (by simp))

theorem splitByNormal_all (f : Str → List Str) (t : RT) : SplitByNormal f t := by
  induction t using RT.induct with
  | hstr s => intro _ keep r hr; simp only [splitBy, List.mem_map] at hr; obtain ⟨_, _, rfl⟩ := hr; rfl
  | hsym n => intro _ keep r hr; simp only [splitBy, List.mem_singleton] at hr; subst hr; rfl
  | hnode k ps ih =>
    intro hn keep r hr
    have hps : ∀ p ∈ ps, SplitByNormal f p ∧ Normal p = true := fun p hp => ⟨ih p hp, normal_parts hn p hp⟩
    have key : ∀ tail, (∀ x ∈ tail, Normal x = true) → r ∈ splitByL f k keep ps tail →
        Normal r = true := fun tail ht hr => (splitByL_props f k _ ps hps tail ht r hr).2
    cases k with
    | prot => simp only [splitBy, List.mem_singleton] at hr; subst hr; exact hn
    | text => simp only [splitBy] at hr; exact key _ (by split <;> simp [Normal]) hr
    | tag n => simp only [splitBy] at hr; exact key _ (by split <;> simp [Normal]) hr
    | href u e => simp only [splitBy] at hr; exact key _ (by split <;> simp [Normal]) hr

theorem normal_splitBy (f : Str → List Str) (t : RT) (h : Normal t = true) (keep : Bool) :
    ∀ r ∈ splitBy f t keep, Normal r = true := splitByNormal_all f t h keep

theorem top_splitItems (k : Kind) (keep : Bool) : ∀ (items tail : List RT), ∀ r ∈ (splitItems k keep items tail).1,
    top r = .multi k := by
  intro items
  induction items with
  | nil => intro tail r hr; simp [splitItems] at hr
  | cons item items ih3 =>
    intro tail r hr
    simp only [splitItems] at hr
    split at hr <;> simp only [List.mem_append] at hr <;> rcases hr with hr | hr
    · split at hr
      · simp only [List.mem_singleton] at hr; subst hr; rfl
      · cases hr
    · exact ih3 [] r hr
    · split at hr
      · simp only [List.mem_singleton] at hr; subst hr; rfl
      · cases hr
    · exact ih3 [] r hr

theorem top_splitByL (f : Str → List Str) (k : Kind) (keep : Bool) : ∀ (ps tail : List RT),
    ∀ r ∈ splitByL f k keep ps tail, top r = .multi k := by
  intro ps
  induction ps with
  | nil =>
    intro tail r hr
    simp only [splitByL] at hr
    split at hr
    · split at hr
      · simp only [List.mem_singleton] at hr; subst hr; rfl
      · cases hr
    · cases hr
  | cons part ps ih =>
    intro tail r hr
    simp only [splitByL] at hr
    split at hr
    · exact ih tail r hr
    · simp only [List.mem_append] at hr
      rcases hr with hr | hr
      · exact top_splitItems k keep _ _ r hr
      · exact ih _ r hr

theorem top_splitBy (f : Str → List Str) (t : RT) (keep : Bool) : ∀ r ∈ splitBy f t keep, top r = top t := by
  intro r hr
  cases t with
  | str s => simp only [splitBy, List.mem_map] at hr; obtain ⟨_, _, rfl⟩ := hr; rfl
  | sym n => simp only [splitBy, List.mem_singleton] at hr; subst hr; rfl
  | node k ps =>
    cases k with
    | prot => simp only [splitBy, List.mem_singleton] at hr; subst hr; rfl
    | text => simp only [splitBy] at hr; exact top_splitByL f _ keep ps _ r hr
    | tag n => simp only [splitBy] at hr; exact top_splitByL f _ keep ps _ r hr
    | href u e => simp only [splitBy] at hr; exact top_splitByL f _ keep ps _ r hr

/-- `split` with the string splitter `f` is the list split `F` of the string of pairs -/
theorem abs_splitBy {f : Str → List Str} {F : Flat → List Flat} (hF : SplitSpec f F) (t : RT) (keep : Bool) :
    (splitBy f t keep).map abs = Abs.pieces (abs t) keep (F (abs t).atoms) := by
  unfold Abs.pieces
  by_cases ht : top t = .symbol ∨ top t = .multi .prot
  · rw [if_pos (by simpa using ht)]
    cases t with
    | str s => simp at ht
    | sym n => simp [splitBy]
    | node k ps => simp only [top_node, Top.multi.injEq, reduceCtorEq, false_or] at ht; subst ht; simp [splitBy]
  · rw [if_neg (by simpa using ht)]
    have ht' : top t ≠ .symbol ∧ top t ≠ .multi .prot := by
      constructor <;> intro h <;> simp [h] at ht
    have hs := sem_splitBy hF t keep [] rfl ht'
    have htop := top_splitBy f t keep
    simp only [keepF] at hs
    rw [abs_atoms, ← hs, List.map_map]
    apply List.map_congr_left
    intro r hr
    exact abs_ext (by simp [htop r hr]) rfl

/-! #### the delimiter pattern `([\s\-])` -/

theorem splitKeepGo_acc (p : Atom × List Markup → Bool) (l cur : Flat) :
    Flat.splitKeepGo p l cur = mapHead (cur.reverse ++ ·) (Flat.splitKeepGo p l []) := by
  induction l generalizing cur with
  | nil => simp [Flat.splitKeepGo, mapHead]
  | cons x r ih =>
    simp only [Flat.splitKeepGo]
    split
    · simp [mapHead]
    · rw [ih (x :: cur), ih [x], mapHead_mapHead]
      congr 1
      funext y; simp

theorem mapHead_ne_nil {α : Type} (f : α → α) (l : List α) (h : l ≠ []) : mapHead f l ≠ [] := by
  cases l with
  | nil => exact absurd rfl h
  | cons a l => simp [mapHead]

theorem splitKeepGo_ne_nil (p : Atom × List Markup → Bool) (l cur : Flat) : Flat.splitKeepGo p l cur ≠ [] := by
  rw [splitKeepGo_acc]
  apply mapHead_ne_nil
  induction l with
  | nil => simp [Flat.splitKeepGo]
  | cons x r ih =>
    simp only [Flat.splitKeepGo]
    split
    · simp
    · rw [splitKeepGo_acc]; exact mapHead_ne_nil _ _ ih

theorem splitKeepGo_append (p : Atom × List Markup → Bool) (a b : Flat) :
    Flat.splitKeepGo p (a ++ b) [] = glue (Flat.splitKeepGo p a []) (Flat.splitKeepGo p b []) := by
  induction a with
  | nil =>
    simp only [List.nil_append, Flat.splitKeepGo, List.reverse_nil, glue]
    cases Flat.splitKeepGo p b [] <;> simp [mapHead]
  | cons x a ih =>
    simp only [List.cons_append, Flat.splitKeepGo]
    split
    · rw [ih]
      cases h : Flat.splitKeepGo p a [] with
      | nil => exact absurd h (splitKeepGo_ne_nil p a [])
      | cons s ss => simp [glue]
    · rw [splitKeepGo_acc p (a ++ b) [x], splitKeepGo_acc p a [x], ih]
      rw [glue_mapHead_left _ (fun _ _ => by simp) _ _ (splitKeepGo_ne_nil p a []) (splitKeepGo_ne_nil p b [])]

theorem splitKeepGo_none (p : Atom × List Markup → Bool) (l cur : Flat) (h : ∀ x ∈ l, p x = false) :
    Flat.splitKeepGo p l cur = [cur.reverse ++ l] := by
  induction l generalizing cur with
  | nil => simp [Flat.splitKeepGo]
  | cons x r ih =>
    simp only [Flat.splitKeepGo, h x (by simp), Bool.false_eq_true, if_false]
    rw [ih (x :: cur) (fun y hy => h y (by simp [hy]))]
    simp

theorem splitKeepGo_flatten (p : Atom × List Markup → Bool) (l cur : Flat) :
    (Flat.splitKeepGo p l cur).flatten = cur.reverse ++ l := by
  induction l generalizing cur with
  | nil => simp [Flat.splitKeepGo]
  | cons x r ih =>
    simp only [Flat.splitKeepGo]
    split
    · simp [ih]
    · rw [ih]; simp

theorem isDelim_ch (c : Char) (ctx : List Markup) (hc : Flat.isProt ctx = false) :
    Flat.isDelim (Atom.ch c, ctx) = (isWs c || c == '-') := by
  simp [Flat.isDelim, Flat.isSep, Flat.isDash, hc]

theorem reSplitDelim_sem (ctx : List Markup) (hc : Flat.isProt ctx = false) (s cur : Str) :
    (reSplitDelim s cur).map (fun part => sem ctx (.str part))
      = Flat.splitKeepGo Flat.isDelim (sem ctx (.str s)) (sem ctx (.str cur)) := by
  induction s generalizing cur with
  | nil => simp [reSplitDelim, Flat.splitKeepGo, sem]
  | cons c r ih =>
    have e : sem ctx (.str (c :: r)) = (Atom.ch c, ctx) :: sem ctx (.str r) := by simp [sem]
    rw [e]
    simp only [reSplitDelim, Flat.splitKeepGo, isDelim_ch c ctx hc]
    split
    · simp only [List.map_cons, ih []]
      simp [sem]
    · rw [ih (c :: cur)]; simp [sem]

/-- the delimiter pattern cuts the string of pairs as it cuts strings -/
theorem delimSpec : SplitSpec (reSplit .delim) (fun s => Flat.splitKeepGo Flat.isDelim s []) where
  nil := rfl
  append := splitKeepGo_append _
  ne_nil := fun a => splitKeepGo_ne_nil _ a []
  str := by
    intro ctx hc s
    have := reSplitDelim_sem ctx hc s []
    simpa [reSplit, sem] using this
  sym := by intro n ctx; simp [Flat.splitKeepGo, Flat.isDelim, Flat.isSep, Flat.isDash]
  prot := by
    intro s hs
    rw [splitKeepGo_none]
    · simp
    · intro x hx
      simp [Flat.isDelim, Flat.isSep, Flat.isDash, hs x hx]

/-- **split at `textutils.delimiter_re`**: the pieces are the list split of the string of pairs at the unprotected
white-space characters and hyphens, each separator kept as a piece of its own -/
theorem abs_splitRe_delim (t : RT) (keep : Option Bool) :
    (splitRe .delim t keep).map abs = Abs.splitReG true .delim (keepRe keep) (abs t) := by
  simp only [splitRe, Abs.splitReG]
  exact abs_splitBy delimSpec t _

theorem mapM_abs {f : RT → Except Err RT} {g : Abs → Except Err Abs} (l : List RT)
    (h : ∀ w ∈ l, (f w).map abs = g (abs w)) :
    (l.mapM f).map (List.map abs) = (l.map abs).mapM g := by
  induction l with
  | nil => rfl
  | cons a l ih =>
    have ha := h a (by simp)
    have ih' := ih (fun w hw => h w (by simp [hw]))
    simp only [List.mapM_cons, List.map_cons]
    cases hf : f a with
    | error e =>
      rw [hf] at ha; simp only [Except.map] at ha
      rw [← ha]; rfl
    | ok b =>
      rw [hf] at ha; simp only [Except.map] at ha
      rw [← ha]
      cases hl : l.mapM f with
      | error e =>
        rw [hl] at ih'; simp only [Except.map] at ih'
        rw [← ih']; rfl
      | ok bs =>
        rw [hl] at ih'; simp only [Except.map] at ih'
        rw [← ih']; rfl

theorem abs_abbreviateWord (alpha : Char → Bool) (terms : List Str) (hT : ∀ x ∈ terms, x.length = 1) (w : RT)
    (hw : Normal w = true) :
    (abbreviateWord alpha terms w).map abs = Abs.abbreviateWord alpha terms (abs w) := by
  unfold abbreviateWord Abs.abbreviateWord
  have ha : Abs.isAlphaG alpha (abs w) = isAlphaG alpha w := (isAlphaG_spec alpha w [] hw).symm
  rw [ha]
  split
  · have hi := abs_getIndex w 0
    cases hg : getIndex w 0 with
    | ok c =>
      rw [hg] at hi; simp only [Except.map] at hi
      rw [← hi]
      simp only [Except.map]
      rw [abs_addPeriod terms hT _ c (normal_getIndex w hw 0 c hg)]; rfl
    | error e =>
      rw [hg] at hi; simp only [Except.map] at hi
      rw [← hi]; rfl
  · rfl

/-- **abbreviate()** acts on the string of pairs as the composition of the list operations -/
theorem abs_abbreviate (alpha : Char → Bool) (terms : List Str) (hT : ∀ x ∈ terms, x.length = 1) (t : RT)
    (ht : Normal t = true) :
    (abbreviate alpha terms t).map abs = Abs.abbreviate alpha terms (abs t) := by
  unfold abbreviate Abs.abbreviate
  have h1 := abs_splitRe_delim t none
  have hN : ∀ w ∈ splitRe .delim t none, Normal w = true := normal_splitBy _ t ht _
  have h2 := mapM_abs (f := abbreviateWord alpha terms) (g := Abs.abbreviateWord alpha terms) (splitRe .delim t none)
    (fun w hw => abs_abbreviateWord alpha terms hT w (hN w hw))
  simp only [keepRe] at h1
  rw [← h1, ← h2]
  cases (splitRe .delim t none).mapM (abbreviateWord alpha terms) with
  | ok ws =>
    simp only [Except.map]
    rw [abs_join]; rfl
  | error e => rfl

theorem normal_abbreviateWord (alpha : Char → Bool) (terms : List Str) (w r : RT) (hw : Normal w = true)
    (h : abbreviateWord alpha terms w = .ok r) : Normal r = true := by
  unfold abbreviateWord at h
  split at h
  · cases hg : getIndex w 0 with
    | ok c =>
      rw [hg] at h; simp only [Except.ok.injEq] at h; subst h
      exact normal_addPeriod _ _ c (normal_getIndex w hw 0 c hg) rfl
    | error e => rw [hg] at h; cases h
  · simp only [Except.ok.injEq] at h; subst h; exact hw

theorem mapM_normal {f : RT → Except Err RT} (hf : ∀ w r, Normal w = true → f w = .ok r → Normal r = true) :
    ∀ (l ws : List RT), (∀ w ∈ l, Normal w = true) → l.mapM f = .ok ws → ∀ r ∈ ws, Normal r = true := by
  intro l
  induction l with
  | nil => intro ws _ h r hr; simp only [List.mapM_nil] at h; cases h; cases hr
  | cons a l ih =>
    intro ws hl h r hr
    simp only [List.mapM_cons] at h
    cases hfa : f a with
    | error e => rw [hfa] at h; cases h
    | ok b =>
      rw [hfa] at h
      cases hm : l.mapM f with
      | error e => rw [hm] at h; cases h
      | ok bs =>
        rw [hm] at h
        have : ws = b :: bs := by cases h; rfl
        subst this
        simp only [List.mem_cons] at hr
        rcases hr with rfl | hr
        · exact hf a _ (hl a (by simp)) hfa
        · exact ih bs (fun w hw => hl w (by simp [hw])) hm r hr

theorem normal_abbreviate (alpha : Char → Bool) (terms : List Str) (t r : RT) (ht : Normal t = true)
    (h : abbreviate alpha terms t = .ok r) : Normal r = true := by
  unfold abbreviate at h
  cases hm : (splitRe .delim t none).mapM (abbreviateWord alpha terms) with
  | error e => rw [hm] at h; cases h
  | ok ws =>
    rw [hm] at h; simp only [Except.ok.injEq] at h; subst h
    apply normal_join _ _ rfl
    have := mapM_normal (normal_abbreviateWord alpha terms) _ ws (normal_splitBy _ t ht _) hm
    simpa [List.all_eq_true] using this

/-! ### histories over `OpG` -/

/-- the operands of an operation are normal forms (they are objects) -/
def OpG.OperandsNormal : OpG → Bool
  | .add x => Normal x
  | .radd x => Normal x
  | .append x => Normal x
  | .joinWith xs => xs.all Normal
  | .addPeriod period => Normal period
  | _ => true

/-- the operations covered by the history theorem: everything except `split` at a separator of more than one
character, `split(None, keep_empty_parts=True)` and `split` at the run pattern `-+` (for those the pieces are specified
by `Abs.splitG` / `Abs.splitReG` and compared with the code, not proved: they depend on how separator runs lie
across part boundaries) -/
def OpG.Covered : OpG → Bool
  | .splitPick (.lit _ []) _ _ => true
  | .splitPick .ws keep _ => !keepDefault .ws keep
  | .splitPick _ _ _ => false
  | .splitRePick .delim _ _ => true
  | .splitRePick .dashes _ _ => false
  | _ => true

theorem pickOf_map_abs (ps : List RT) (pick : Nat) (t : RT) :
    abs (pickOf ps pick t) = Abs.pickOf (ps.map abs) pick (abs t) := by
  simp only [pickOf, Abs.pickOf, List.length_map, getElem?_map_abs]
  cases ps[pick % ps.length]? <;> rfl

theorem stepG_abs (cs : CaseSys) (terms : List Str) (hT : ∀ x ∈ terms, x.length = 1) (t : RT)
    (ht : Normal t = true) (op : OpG) (hs : op.Covered = true) :
    (stepG cs terms t op).map abs = Abs.stepG cs terms (abs t) op.abs := by
  cases op with
  | add x => simp [stepG, Abs.stepG, OpG.abs, Except.map, abs_add]
  | radd x => simp [stepG, Abs.stepG, OpG.abs, Except.map, abs_add]
  | append x => simp [stepG, Abs.stepG, OpG.abs, Except.map, abs_append]
  | joinWith xs => simp [stepG, Abs.stepG, OpG.abs, Except.map, abs_join]
  | slice i j => simp [stepG, Abs.stepG, OpG.abs, Except.map, abs_getSlice]
  | index i => simp only [stepG, Abs.stepG, OpG.abs]; exact abs_getIndex t i
  | upper => simp [stepG, Abs.stepG, OpG.abs, Except.map, abs_upperG]
  | lower => simp [stepG, Abs.stepG, OpG.abs, Except.map, abs_lowerG]
  | capfirst => simp [stepG, Abs.stepG, OpG.abs, Except.map, abs_capfirstG]
  | capitalize => simp [stepG, Abs.stepG, OpG.abs, Except.map, abs_capitalizeG]
  | addPeriod period =>
    simp only [stepG, Abs.stepG, OpG.abs, Except.map]
    rw [abs_addPeriod terms hT period t ht]
  | splitPick sep keep pick =>
    match sep, hs with
    | .lit c0 [], _ =>
      simp only [stepG, Abs.stepG, OpG.abs, Except.map, Abs.splitG]
      rw [pickOf_map_abs, abs_split_lit c0 t keep]
    | .ws, hs =>
      have hk : keepDefault .ws keep = false := by simpa [OpG.Covered] using hs
      simp only [stepG, Abs.stepG, OpG.abs, Except.map, Abs.splitG, hk]
      rw [pickOf_map_abs, abs_split_ws t keep hk]; rfl
  | splitRePick re keep pick =>
    cases re with
    | delim =>
      simp only [stepG, Abs.stepG, OpG.abs, Except.map]
      rw [pickOf_map_abs, abs_splitRe_delim]
    | dashes => simp [OpG.Covered] at hs
  | abbreviate => simp only [stepG, Abs.stepG, OpG.abs]; exact abs_abbreviate cs.alpha terms hT t ht

theorem normal_pickOf (ps : List RT) (pick : Nat) (t : RT) (hps : ∀ p ∈ ps, Normal p = true)
    (ht : Normal t = true) : Normal (pickOf ps pick t) = true := by
  simp only [pickOf]
  split
  · rename_i p hp; exact hps p (List.mem_of_getElem? hp)
  · exact ht

theorem stepG_normal (cs : CaseSys) (terms : List Str) (t : RT) (ht : Normal t = true) (op : OpG)
    (ho : op.OperandsNormal = true) (hs : op.Covered = true) (r : RT) (hr : stepG cs terms t op = .ok r) :
    Normal r = true := by
  cases op with
  | add x => simp only [stepG, Except.ok.injEq] at hr; subst hr; exact normal_add _ _ ht ho
  | radd x => simp only [stepG, Except.ok.injEq] at hr; subst hr; exact normal_add _ _ ho ht
  | append x => simp only [stepG, Except.ok.injEq] at hr; subst hr; exact normal_append _ _ ht ho
  | joinWith xs =>
    simp only [stepG, Except.ok.injEq] at hr; subst hr
    exact normal_join _ _ ht (by simpa [OpG.OperandsNormal] using ho)
  | slice i j => simp only [stepG, Except.ok.injEq] at hr; subst hr; exact normal_getSlice t ht i j
  | index i => exact normal_getIndex t ht i r hr
  | upper => simp only [stepG, Except.ok.injEq] at hr; subst hr; exact normal_caseMap _ _ ht
  | lower => simp only [stepG, Except.ok.injEq] at hr; subst hr; exact normal_caseMap _ _ ht
  | capfirst => simp only [stepG, Except.ok.injEq] at hr; subst hr; exact normal_capfirstG cs t ht
  | capitalize => simp only [stepG, Except.ok.injEq] at hr; subst hr; exact normal_capitalizeG cs t ht
  | addPeriod period =>
    simp only [stepG, Except.ok.injEq] at hr; subst hr; exact normal_addPeriod _ _ t ht ho
  | splitPick sep keep pick =>
    simp only [stepG, Except.ok.injEq] at hr; subst hr
    exact normal_pickOf _ _ _ (normal_split t ht sep keep) ht
  | splitRePick re keep pick =>
    simp only [stepG, Except.ok.injEq] at hr; subst hr
    exact normal_pickOf _ _ _ (normal_splitBy _ t ht _) ht
  | abbreviate => exact normal_abbreviate cs.alpha terms t r ht hr

theorem runG_abs (cs : CaseSys) (terms : List Str) (hT : ∀ x ∈ terms, x.length = 1) (ops : List OpG) :
    ∀ (t : RT), Normal t = true → (∀ op ∈ ops, op.OperandsNormal = true ∧ op.Covered = true) →
    (runG cs terms t ops).map (Except.map abs) = Abs.runG cs terms (abs t) (ops.map OpG.abs) := by
  induction ops with
  | nil => intro t _ _; rfl
  | cons op ops ih =>
    intro t ht ho
    have h1 := ho op (by simp)
    have hstep := stepG_abs cs terms hT t ht op h1.2
    simp only [runG, Abs.runG, List.map_cons]
    cases hr : stepG cs terms t op with
    | ok r =>
      rw [hr] at hstep
      simp only [Except.map] at hstep
      rw [← hstep]
      simp only [List.map_cons, Except.map]
      rw [ih r (stepG_normal cs terms t ht op h1.1 h1.2 r hr) (fun o ho' => ho o (by simp [ho']))]
    | error e =>
      rw [hr] at hstep
      simp only [Except.map] at hstep
      rw [← hstep]
      simp only [List.map_cons, Except.map]
      rw [ih t ht (fun o ho' => ho o (by simp [ho']))]

end RT
end Pybtex
