/-
Helper lemmas for the operators of `Model/CIMapX.lean` (set algebra, comparisons, `Mapping.__eq__`, `items_lower`).
-/
import PybtexModel.Lemmas.CIMapU
import PybtexModel.Spec.CISetAlgebra

namespace Pybtex.Uni
variable {norm : Str → Str}

/-! ### counting -/

theorem nodup_subset_length_le {α : Type} [DecidableEq α] :
    ∀ (l₁ l₂ : List α), l₁.Nodup → (∀ x ∈ l₁, x ∈ l₂) → l₁.length ≤ l₂.length
  | [], _, _, _ => by simp
  | a :: l₁, l₂, hn, hs => by
    have ha : a ∈ l₂ := hs a (by simp)
    have hn' := List.nodup_cons.1 hn
    have hsub : ∀ x ∈ l₁, x ∈ l₂.erase a := by
      intro x hx
      have hne : x ≠ a := by intro h; subst h; exact hn'.1 hx
      exact (List.mem_erase_of_ne hne).2 (hs x (List.mem_cons_of_mem _ hx))
    have := nodup_subset_length_le l₁ (l₂.erase a) hn'.2 hsub
    rw [List.length_erase_of_mem ha] at this
    have : 0 < l₂.length := List.length_pos_of_mem ha
    simp only [List.length_cons]; omega

theorem nodup_subset_of_length_le {α : Type} [DecidableEq α] :
    ∀ (l₁ l₂ : List α), l₁.Nodup → (∀ x ∈ l₁, x ∈ l₂) → l₂.length ≤ l₁.length → ∀ x ∈ l₂, x ∈ l₁
  | [], l₂, _, _, hl => by
    have : l₂ = [] := List.length_eq_zero_iff.1 (by simpa using hl)
    subst this; simp
  | a :: l₁, l₂, hn, hs, hl => by
    have ha : a ∈ l₂ := hs a (by simp)
    have hn' := List.nodup_cons.1 hn
    have hsub : ∀ x ∈ l₁, x ∈ l₂.erase a := by
      intro x hx
      have hne : x ≠ a := by intro h; subst h; exact hn'.1 hx
      exact (List.mem_erase_of_ne hne).2 (hs x (List.mem_cons_of_mem _ hx))
    have hlen : (l₂.erase a).length ≤ l₁.length := by
      rw [List.length_erase_of_mem ha]; simp only [List.length_cons] at hl; omega
    have ih := nodup_subset_of_length_le l₁ (l₂.erase a) hn'.2 hsub hlen
    intro x hx
    by_cases hxa : x = a
    · simp [hxa]
    · exact List.mem_cons_of_mem _ (ih x ((List.mem_erase_of_ne hxa).2 hx))

namespace CISet

/-! ### membership in the set of lower-cased keys -/

theorem contains_iff (s : CISet) (k : Str) : s.contains norm k = true ↔ norm k ∈ s.set := by
  simp [contains]

theorem mem_add_set (s : CISet) (k x : Str) : x ∈ (add norm s k).set ↔ x ∈ s.set ∨ x = norm k := by
  simp only [add]
  split
  · rename_i h
    have : norm k ∈ s.set := by simpa using h
    constructor
    · exact Or.inl
    · rintro (h | h)
      · exact h
      · subst h; exact this
  · simp

theorem mem_foldl_add_set (l : List Str) (s : CISet) (x : Str) :
    x ∈ (l.foldl (add norm) s).set ↔ x ∈ s.set ∨ x ∈ l.map norm := by
  induction l generalizing s with
  | nil => simp
  | cons k l ih =>
    simp only [List.foldl_cons, ih, mem_add_set, List.map_cons, List.mem_cons]
    constructor
    · rintro ((h | h) | h)
      · exact Or.inl h
      · exact Or.inr (Or.inl h)
      · exact Or.inr (Or.inr h)
    · rintro (h | h | h)
      · exact Or.inl (Or.inl h)
      · exact Or.inl (Or.inr h)
      · exact Or.inr h

theorem mem_ofList_set (l : List Str) (x : Str) : x ∈ (ofList norm l).set ↔ x ∈ l.map norm := by
  simp [ofList, mem_foldl_add_set, empty]

theorem inv_ofList (l : List Str) : Inv norm (ofList norm l) := (ofList_spec l).1

theorem inv_nodup {s : CISet} (h : Inv norm s) : s.set.Nodup := by rw [h.1]; exact h.2.1

theorem mem_discard_set {s : CISet} (h : Inv norm s) (k x : Str) :
    x ∈ (discard norm s k).set ↔ x ∈ s.set ∧ x ≠ norm k := by
  simp only [discard]
  exact (inv_nodup h).mem_erase_iff.trans (by simp [and_comm])

theorem inv_foldl_discard (l : List Str) {s : CISet} (h : Inv norm s) : Inv norm (l.foldl (discard norm) s) :=
  (foldl_discard_spec l h).1

theorem mem_foldl_discard_set (l : List Str) {s : CISet} (h : Inv norm s) (x : Str) :
    x ∈ (l.foldl (discard norm) s).set ↔ x ∈ s.set ∧ x ∉ l.map norm := by
  induction l generalizing s with
  | nil => simp
  | cons k l ih =>
    simp only [List.foldl_cons, ih (discard_spec h k).1, mem_discard_set h, List.map_cons, List.mem_cons, not_or]
    constructor
    · rintro ⟨⟨h1, h2⟩, h3⟩; exact ⟨h1, h2, h3⟩
    · rintro ⟨h1, h2, h3⟩; exact ⟨⟨h1, h2⟩, h3⟩

/-- the values a well-formed operand yields: for a set, its lower-cased keys (fixed points of `norm`) -/
def OtherOK (norm : Str → Str) : Other → Prop
  | .ciset t => Inv norm t
  | _ => True

theorem map_norm_set (hn : ∀ k, norm (norm k) = norm k) {s : CISet} (h : Inv norm s) : s.set.map norm = s.set := by
  have := mem_set_fixed hn h
  calc s.set.map norm = s.set.map id := List.map_congr_left (fun l hl => this l hl)
    _ = s.set := by simp

/-- membership in the other operand, through the values it yields -/
theorem otherHas_iff (hn : ∀ k, norm (norm k) = norm k) {s : CISet} (h : Inv norm s) {o : Other} (ho : OtherOK norm o) (k : Str) :
    otherHas norm s o k = true ↔ norm k ∈ (otherIter s o).map norm := by
  cases o with
  | list l => simp [otherHas, otherIter]
  | ciset t => rw [show otherIter s (.ciset t) = t.set from rfl, map_norm_set hn ho]; exact contains_iff t k
  | self => rw [show otherIter s .self = s.set from rfl, map_norm_set hn h]; exact contains_iff s k

theorem inv_otherAsSet {s : CISet} (h : Inv norm s) {o : Other} (ho : OtherOK norm o) : Inv norm (otherAsSet norm s o) := by
  cases o with
  | list l => exact inv_ofList l
  | ciset t => exact ho
  | self => exact h

theorem otherHas_ciset (s t : CISet) (k : Str) : otherHas norm s (.ciset t) k = t.contains norm k := rfl

theorem contains_otherAsSet (s : CISet) (o : Other) (k : Str) :
    (otherAsSet norm s o).contains norm k = otherHas norm s o k := by
  cases o with
  | list l =>
    apply Bool.eq_iff_iff.2
    rw [contains_iff]
    simp [otherAsSet, otherHas, mem_ofList_set]
  | ciset t => rfl
  | self => rfl


/-! ### the operators that build a new set -/

theorem contains_band (hn : ∀ k, norm (norm k) = norm k) {s : CISet} (h : Inv norm s) {o : Other} (ho : OtherOK norm o) (k : Str) :
    (band norm s o).contains norm k = (s.contains norm k && otherHas norm s o k) := by
  apply Bool.eq_iff_iff.2
  rw [Bool.and_eq_true, otherHas_iff hn h ho, contains_iff, contains_iff, band, mem_ofList_set]
  simp only [List.mem_map, List.mem_filter, contains_iff]
  constructor
  · rintro ⟨v, ⟨hv, hvs⟩, he⟩; exact ⟨he ▸ hvs, v, hv, he⟩
  · rintro ⟨hs, v, hv, he⟩; exact ⟨v, ⟨hv, he ▸ hs⟩, he⟩

theorem contains_bor (hn : ∀ k, norm (norm k) = norm k) {s : CISet} (h : Inv norm s) {o : Other} (ho : OtherOK norm o) (k : Str) :
    (bor norm s o).contains norm k = (s.contains norm k || otherHas norm s o k) := by
  apply Bool.eq_iff_iff.2
  rw [Bool.or_eq_true, otherHas_iff hn h ho, contains_iff, contains_iff, bor, mem_ofList_set, iter, List.map_append,
    map_norm_set hn h, List.mem_append]

theorem contains_diff (hn : ∀ k, norm (norm k) = norm k) {a : CISet} (ha : Inv norm a) (b : CISet) (k : Str) :
    (diff norm a b).contains norm k = (a.contains norm k && !b.contains norm k) := by
  apply Bool.eq_iff_iff.2
  have hfix := mem_set_fixed hn ha
  rw [Bool.and_eq_true, contains_iff, contains_iff, diff, mem_ofList_set, iter]
  simp only [List.mem_map, List.mem_filter, Bool.not_eq_true']
  constructor
  · rintro ⟨v, ⟨hv, hvb⟩, he⟩
    have : v = norm k := by rw [← hfix v hv]; exact he
    subst this
    exact ⟨hv, by simpa [contains, hn] using hvb⟩
  · rintro ⟨hs, hb⟩
    exact ⟨norm k, ⟨hs, by rw [← hb]; simp [contains, hn]⟩, hn k⟩

theorem contains_bsub (hn : ∀ k, norm (norm k) = norm k) {s : CISet} (h : Inv norm s) (o : Other) (k : Str) :
    (bsub norm s o).contains norm k = (s.contains norm k && !otherHas norm s o k) := by
  rw [bsub, contains_diff hn h, contains_otherAsSet]

theorem contains_brsub (hn : ∀ k, norm (norm k) = norm k) {s : CISet} (h : Inv norm s) {o : Other} (ho : OtherOK norm o) (k : Str) :
    (brsub norm s o).contains norm k = (otherHas norm s o k && !s.contains norm k) := by
  rw [brsub, contains_diff hn (inv_otherAsSet h ho), contains_otherAsSet]

theorem contains_bxor (hn : ∀ k, norm (norm k) = norm k) {s : CISet} (h : Inv norm s) {o : Other} (ho : OtherOK norm o) (k : Str) :
    (bxor norm s o).contains norm k = (s.contains norm k ^^ otherHas norm s o k) := by
  have hd : Inv norm (diff norm s (otherAsSet norm s o)) := inv_ofList _
  have hd' : OtherOK norm (.ciset (diff norm (otherAsSet norm s o) s)) := inv_ofList _
  rw [bxor, contains_bor hn hd hd', otherHas_ciset]
  rw [contains_diff hn h, contains_diff hn (inv_otherAsSet h ho), contains_otherAsSet]
  cases s.contains norm k <;> cases otherHas norm s o k <;> rfl

theorem isDisjoint_iff (hn : ∀ k, norm (norm k) = norm k) {s : CISet} (h : Inv norm s) {o : Other} (ho : OtherOK norm o) :
    isDisjoint norm s o = true ↔ ∀ k, ¬ (s.contains norm k = true ∧ otherHas norm s o k = true) := by
  simp only [isDisjoint, List.all_eq_true, Bool.not_eq_true', otherHas_iff hn h ho, List.mem_map]
  constructor
  · rintro hall k ⟨hs, v, hv, he⟩
    have := hall v hv
    rw [contains_iff] at hs
    rw [← he] at hs
    have h2 := (contains_iff (norm := norm) s v).2 hs
    rw [this] at h2; cases h2
  · intro hall v hv
    cases hc : s.contains norm v with
    | false => rfl
    | true => exact absurd ⟨hc, v, hv, rfl⟩ (hall v)

/-! ### comparisons -/

theorem subset_iff (hn : ∀ k, norm (norm k) = norm k) {s : CISet} (h : Inv norm s) (t : CISet) :
    (∀ k, s.contains norm k = true → t.contains norm k = true) ↔ ∀ x ∈ s.set, x ∈ t.set := by
  have hfix := mem_set_fixed hn h
  constructor
  · intro hk x hx
    have := hk x ((contains_iff s x).2 (by rw [hfix x hx]; exact hx))
    rw [contains_iff, hfix x hx] at this
    exact this
  · intro hsub k hk
    exact (contains_iff t k).2 (hsub _ ((contains_iff s k).1 hk))

theorem le_iff (hn : ∀ k, norm (norm k) = norm k) {s t : CISet} (h : Inv norm s) :
    le norm s t = true ↔ ∀ k, s.contains norm k = true → t.contains norm k = true := by
  rw [subset_iff hn h]
  have hfix := mem_set_fixed hn h
  have hall : (s.iter.all fun v => t.contains norm v) = true ↔ ∀ x ∈ s.set, x ∈ t.set := by
    simp only [List.all_eq_true, iter]
    constructor
    · intro hh x hx
      have := (contains_iff t x).1 (hh x hx)
      rwa [hfix x hx] at this
    · intro hh x hx
      exact (contains_iff t x).2 (by rw [hfix x hx]; exact hh x hx)
  unfold le
  split
  · rename_i hgt
    constructor
    · intro hf; cases hf
    · intro hsub
      have := nodup_subset_length_le s.set t.set (inv_nodup h) hsub
      simp only [len] at hgt
      omega
  · exact hall

theorem ge_iff (hn : ∀ k, norm (norm k) = norm k) {s t : CISet} (ht : Inv norm t) :
    ge norm s t = true ↔ ∀ k, t.contains norm k = true → s.contains norm k = true := by
  have : ge norm s t = le norm t s := by
    simp only [ge, le, gt_iff_lt]
  rw [this, le_iff hn ht]

theorem eqSet_iff (hn : ∀ k, norm (norm k) = norm k) {s t : CISet} (h : Inv norm s) (ht : Inv norm t) :
    eqSet norm s t = true ↔ ∀ k, s.contains norm k = t.contains norm k := by
  simp only [eqSet, Bool.and_eq_true, beq_iff_eq, le_iff hn h]
  constructor
  · rintro ⟨hlen, hsub⟩ k
    have hs := (subset_iff hn h t).1 hsub
    have hrev := nodup_subset_of_length_le s.set t.set (inv_nodup h) hs (by simp only [len] at hlen; omega)
    apply Bool.eq_iff_iff.2
    constructor
    · exact hsub k
    · intro hk; exact (contains_iff s k).2 (hrev _ ((contains_iff t k).1 hk))
  · intro heq
    have hsub : ∀ k, s.contains norm k = true → t.contains norm k = true := fun k hk => by rw [← heq k]; exact hk
    have hsub' : ∀ k, t.contains norm k = true → s.contains norm k = true := fun k hk => by rw [heq k]; exact hk
    refine ⟨?_, hsub⟩
    have h1 := nodup_subset_length_le s.set t.set (inv_nodup h) ((subset_iff hn h t).1 hsub)
    have h2 := nodup_subset_length_le t.set s.set (inv_nodup ht) ((subset_iff hn ht s).1 hsub')
    simp only [len]; omega


theorem lt_iff (hn : ∀ k, norm (norm k) = norm k) {s t : CISet} (h : Inv norm s) (ht : Inv norm t) :
    lt norm s t = (le norm s t && !le norm t s) := by
  apply Bool.eq_iff_iff.2
  simp only [lt, Bool.and_eq_true, decide_eq_true_eq, Bool.not_eq_true']
  constructor
  · rintro ⟨hlen, hle⟩
    refine ⟨hle, ?_⟩
    cases hr : le norm t s with
    | false => rfl
    | true =>
      have := nodup_subset_length_le t.set s.set (inv_nodup ht) ((subset_iff hn ht s).1 ((le_iff hn ht).1 hr))
      simp only [len] at hlen; omega
  · rintro ⟨hle, hnle⟩
    refine ⟨?_, hle⟩
    have h1 := nodup_subset_length_le s.set t.set (inv_nodup h) ((subset_iff hn h t).1 ((le_iff hn h).1 hle))
    apply Classical.byContradiction
    intro hnlt
    have hrev := nodup_subset_of_length_le s.set t.set (inv_nodup h) ((subset_iff hn h t).1 ((le_iff hn h).1 hle))
      (by simp only [len] at hnlt; omega)
    have : le norm t s = true := (le_iff hn ht).2 ((subset_iff hn ht s).2 hrev)
    rw [this] at hnle; cases hnle

theorem gt_eq_lt (s t : CISet) : gt norm s t = lt norm t s := by
  simp only [gt, lt, ge, le, gt_iff_lt]

/-! ### the in-place operators -/

theorem contains_foldl_discard {s : CISet} (h : Inv norm s) (l : List Str) (k : Str) :
    (l.foldl (discard norm) s).contains norm k = (s.contains norm k && !(l.map norm).contains (norm k)) := by
  apply Bool.eq_iff_iff.2
  rw [contains_iff, mem_foldl_discard_set l h]
  simp [contains_iff]

theorem contains_foldl_add (s : CISet) (l : List Str) (k : Str) :
    (l.foldl (add norm) s).contains norm k = (s.contains norm k || (l.map norm).contains (norm k)) := by
  apply Bool.eq_iff_iff.2
  rw [contains_iff, mem_foldl_add_set]
  simp [contains_iff]

theorem otherHas_eq (hn : ∀ k, norm (norm k) = norm k) {s : CISet} (h : Inv norm s) {o : Other} (ho : OtherOK norm o) (k : Str) :
    otherHas norm s o k = ((otherIter s o).map norm).contains (norm k) := by
  apply Bool.eq_iff_iff.2
  rw [otherHas_iff hn h ho]; simp

theorem contains_iorO (hn : ∀ k, norm (norm k) = norm k) {s : CISet} (h : Inv norm s) {o : Other} (ho : OtherOK norm o) (k : Str) :
    (iorO norm s o).contains norm k = (s.contains norm k || otherHas norm s o k) := by
  rw [iorO, contains_foldl_add, otherHas_eq hn h ho]

theorem contains_clear (hn : ∀ k, norm (norm k) = norm k) {s : CISet} (h : Inv norm s) (k : Str) :
    (clear norm s).contains norm k = false := by
  have hc := clear_spec hn h
  have : (clear norm s).set = [] := by rw [hc.1.1]; simp only [abs] at hc; rw [hc.2]; rfl
  simp [contains, this]

theorem contains_isubO (hn : ∀ k, norm (norm k) = norm k) {s : CISet} (h : Inv norm s) {o : Other} (ho : OtherOK norm o) (k : Str) :
    (isubO norm s o).contains norm k = (s.contains norm k && !otherHas norm s o k) := by
  cases o with
  | self => simp only [isubO, contains_clear hn h, otherHas]; cases s.contains norm k <;> rfl
  | list l =>
    show ((otherIter s (.list l)).foldl (discard norm) s).contains norm k = _
    rw [contains_foldl_discard h, otherHas_eq hn h ho]
  | ciset t =>
    show ((otherIter s (.ciset t)).foldl (discard norm) s).contains norm k = _
    rw [contains_foldl_discard h, otherHas_eq hn h ho]

theorem contains_iand (hn : ∀ k, norm (norm k) = norm k) {s : CISet} (h : Inv norm s) (o : Other) (k : Str) :
    (iand norm s o).contains norm k = (s.contains norm k && otherHas norm s o k) := by
  have hb : Inv norm (bsub norm s o) := inv_ofList _
  rw [iand, iter, contains_foldl_discard h, map_norm_set hn hb]
  have : (bsub norm s o).set.contains (norm k) = (bsub norm s o).contains norm k := rfl
  rw [this, contains_bsub hn h]
  cases s.contains norm k <;> cases otherHas norm s o k <;> rfl

theorem inv_toggle {s : CISet} (h : Inv norm s) (v : Str) : Inv norm (toggle norm s v) := by
  unfold toggle; split
  · exact (discard_spec h v).1
  · exact (add_spec h v).1

theorem contains_toggle {s : CISet} (h : Inv norm s) (v k : Str) :
    (toggle norm s v).contains norm k = (s.contains norm k ^^ (norm k == norm v)) := by
  apply Bool.eq_iff_iff.2
  unfold toggle
  by_cases he : norm k = norm v
  · have hkv : s.contains norm k = s.contains norm v := by simp only [contains, he]
    have hbeq : (norm k == norm v) = true := by simp [he]
    rw [hkv, hbeq]
    by_cases hv : s.contains norm v = true
    · rw [if_pos hv, contains_iff, mem_discard_set h, hv]; simp [he]
    · rw [if_neg hv, contains_iff, mem_add_set]
      have : s.contains norm v = false := by simpa using hv
      rw [this]; simp [he]
  · have hbeq : (norm k == norm v) = false := by simp [he]
    rw [hbeq, Bool.xor_false]
    by_cases hv : s.contains norm v = true
    · rw [if_pos hv, contains_iff, mem_discard_set h, contains_iff]; simp [he]
    · rw [if_neg hv, contains_iff, mem_add_set, contains_iff]; simp [he]

theorem contains_foldl_toggle {s : CISet} (h : Inv norm s) (l : List Str) (hl : (l.map norm).Nodup) (k : Str) :
    (l.foldl (toggle norm) s).contains norm k = (s.contains norm k ^^ (l.map norm).contains (norm k)) := by
  induction l generalizing s with
  | nil => simp
  | cons v l ih =>
    simp only [List.map_cons, List.nodup_cons] at hl
    rw [List.foldl_cons, ih (inv_toggle h v) hl.2, contains_toggle h, List.map_cons, List.contains_cons]
    have hx : (norm k == norm v) = true → (l.map norm).contains (norm k) = false := by
      intro he
      have he' : norm k = norm v := by simpa using he
      rw [he']
      cases hc : (l.map norm).contains (norm v) with
      | false => rfl
      | true => exact absurd (List.contains_iff_mem.1 hc) hl.1
    revert hx
    cases s.contains norm k <;> cases (norm k == norm v) <;> cases (l.map norm).contains (norm k) <;> simp

theorem contains_ixor (hn : ∀ k, norm (norm k) = norm k) {s : CISet} (h : Inv norm s) {o : Other} (ho : OtherOK norm o) (k : Str) :
    (ixor norm s o).contains norm k = (s.contains norm k ^^ otherHas norm s o k) := by
  have key : ∀ o', OtherOK norm o' → ((otherAsSet norm s o').iter.foldl (toggle norm) s).contains norm k
      = (s.contains norm k ^^ otherHas norm s o' k) := by
    intro o' ho'
    have ht := inv_otherAsSet h ho'
    rw [iter, contains_foldl_toggle h _ (by rw [map_norm_set hn ht]; exact inv_nodup ht), map_norm_set hn ht,
      ← contains_otherAsSet]
    rfl
  cases o with
  | self => simp only [ixor, contains_clear hn h, otherHas]; cases s.contains norm k <;> rfl
  | list l => exact key _ ho
  | ciset t => exact key _ ho

theorem inv_inplace (hn : ∀ k, norm (norm k) = norm k) {s : CISet} (h : Inv norm s) (o : Other) :
    Inv norm (iand norm s o) ∧ Inv norm (ixor norm s o) ∧ Inv norm (isubO norm s o) ∧ Inv norm (iorO norm s o) := by
  have htog : ∀ (l : List Str) (s : CISet), Inv norm s → Inv norm (l.foldl (toggle norm) s) := by
    intro l
    induction l with
    | nil => intro s hs; exact hs
    | cons v l ih => intro s hs; exact ih _ (inv_toggle hs v)
  refine ⟨inv_foldl_discard _ h, ?_, ?_, (foldl_add_spec _ h).1⟩
  · cases o with
    | self => exact (clear_spec hn h).1
    | list l => exact htog _ _ h
    | ciset t => exact htog _ _ h
  · cases o with
    | self => exact (clear_spec hn h).1
    | list l => exact inv_foldl_discard _ h
    | ciset t => exact inv_foldl_discard _ h

end CISet

/-! ### `Mapping.__eq__`, `items_lower()` -/

theorem nodup_of_nodup_map {α β : Type} (f : α → β) : ∀ (l : List α), (l.map f).Nodup → l.Nodup
  | [], _ => List.nodup_nil
  | a :: l, h => by
    simp only [List.map_cons, List.nodup_cons] at h ⊢
    exact ⟨fun ha => h.1 (List.mem_map_of_mem ha), nodup_of_nodup_map f l h.2⟩

theorem dget_eq_some_iff_mem {α : Type} (b : List (Str × α)) (hb : (b.map Prod.fst).Nodup) (k : Str) (v : α) :
    dget b k = some v ↔ (k, v) ∈ b := by
  constructor
  · exact dget_some_mem
  · intro hm
    induction b with
    | nil => cases hm
    | cons e r ih =>
      obtain ⟨k', v'⟩ := e
      simp only [List.map_cons, List.nodup_cons] at hb
      simp only [dget]
      rcases List.mem_cons.1 hm with he | hr
      · cases he; simp
      · have hk : k ∈ r.map Prod.fst := List.mem_map.2 ⟨(k, v), hr, rfl⟩
        have hne : k' ≠ k := by intro h; subst h; exact hb.1 hk
        rw [if_neg hne]; exact ih hb.2 hr

theorem pyDictEq_eq {V : Type} [DecidableEq V] (a b : List (Str × V))
    (ha : (a.map Prod.fst).Nodup) (hb : (b.map Prod.fst).Nodup) :
    pyDictEq a b = ((a.all fun p => b.contains p) && (b.all fun p => a.contains p)) := by
  have hna := nodup_of_nodup_map Prod.fst a ha
  have hnb := nodup_of_nodup_map Prod.fst b hb
  apply Bool.eq_iff_iff.2
  simp only [pyDictEq, Bool.and_eq_true, beq_iff_eq, List.all_eq_true, List.contains_iff_mem]
  have hget : ∀ p : Str × V, dget b p.1 = some p.2 ↔ p ∈ b := fun p => dget_eq_some_iff_mem b hb p.1 p.2
  constructor
  · rintro ⟨hlen, hsub⟩
    have hsub' : ∀ p ∈ a, p ∈ b := fun p hp => (hget p).1 (hsub p hp)
    exact ⟨hsub', nodup_subset_of_length_le a b hna hsub' (by omega)⟩
  · rintro ⟨h1, h2⟩
    have l1 := nodup_subset_length_le a b hna h1
    have l2 := nodup_subset_length_le b a hnb h2
    exact ⟨by omega, fun p hp => (hget p).2 (h1 p hp)⟩

namespace CIDict
variable {V : Type}

theorem items_keys_nodup {m : OMap V} (hwf : OMap.WF norm m) : ((OMap.items m).map Prod.fst).Nodup := by
  apply nodup_of_nodup_map norm
  have : ((OMap.items m).map Prod.fst).map norm = m.map (·.1) := by
    simp only [OMap.items, List.map_map]
    apply List.map_congr_left
    intro e he
    simp [hwf.1 e he]
  rw [this]; exact hwf.2

theorem eqItems_spec [DecidableEq V] {m m' : OMap V} (h : OMap.WF norm m) (h' : OMap.WF norm m') :
    eqItems (OMap.items m) (OMap.items m') = OMap.specEq m m' := by
  have k1 := items_keys_nodup h
  have k2 := items_keys_nodup h'
  rw [eqItems, dofPairs_nodup _ k1, dofPairs_nodup _ k2, pyDictEq_eq _ _ k1 k2]
  rfl

theorem eqMap_spec [DecidableEq V] {d e : CIDict V} (hd : Inv norm d) (he : Inv norm e) :
    eqMap norm d e = some (OMap.specEq (abs d) (abs e)) := by
  simp only [eqMap, items_abs hd, items_abs he, eqItems_spec (abs_wf hd) (abs_wf he)]

theorem itemsLower_spec {d : CIDict V} (hd : Inv norm d) :
    itemsLower norm d = some (OMap.itemsLower (abs d)) := by
  have hwf := (abs_wf hd).1
  simp only [itemsLower, items_abs hd, Option.map_some, OMap.itemsLower, OMap.items, OMap.lowered, List.map_map]
  congr 1
  apply List.map_congr_left
  intro e he; simp [hwf e he]

theorem valuesViewHasAux_of_items [DecidableEq V] (d : CIDict V) (v : V) :
    ∀ (ks : List Str) (its : List (Str × V)), itemsAux norm d ks = some its →
      valuesViewHasAux norm d v ks = some ((its.map Prod.snd).contains v)
  | [], its, h => by
    simp only [itemsAux, Option.some.injEq] at h; subst h; rfl
  | k :: r, its, h => by
    simp only [itemsAux] at h
    cases hg : getItem norm d k with
    | none => rw [hg] at h; cases h
    | some w =>
      rw [hg] at h
      cases hr : itemsAux norm d r with
      | none => rw [hr] at h; cases h
      | some its' =>
        rw [hr] at h
        simp only [Option.map_some, Option.some.injEq] at h
        subst h
        have ih := valuesViewHasAux_of_items d v r its' hr
        simp only [valuesViewHasAux, hg, ih, List.map_cons, List.contains_cons]
        by_cases hw : w = v
        · simp [hw]
        · have : (v == w) = false := by simp [Ne.symm hw]
          simp [hw, this]

theorem valuesViewHas_spec [DecidableEq V] {d : CIDict V} (hd : Inv norm d) (v : V) :
    valuesViewHas norm d v = some ((OMap.values (abs d)).contains v) := by
  have := valuesViewHasAux_of_items (norm := norm) d v (iter d) _ (items_abs hd)
  rw [valuesViewHas, this]
  simp [OMap.items, OMap.values, List.map_map, Function.comp_def]

theorem itemsViewHas_spec [DecidableEq V] {d : CIDict V} (hd : Inv norm d) (k : Str) (v : V) :
    itemsViewHas norm d k v = true ↔ OMap.get norm (abs d) k = some v := by
  rw [itemsViewHas, getItem_abs hd]
  cases OMap.get norm (abs d) k with
  | none => simp
  | some w => simp

end CIDict


/-! ### the model's results against the reference lists of `Spec/CISetAlgebra.lean` -/
namespace CISet

theorem mem_set_iff (hn : ∀ k, norm (norm k) = norm k) {r : CISet} (hr : Inv norm r) (x : Str) :
    x ∈ r.set ↔ norm x = x ∧ r.contains norm x = true := by
  constructor
  · intro hx
    have := mem_set_fixed hn hr x hx
    exact ⟨this, (contains_iff r x).2 (by rw [this]; exact hx)⟩
  · rintro ⟨hf, hc⟩
    have := (contains_iff r x).1 hc
    rwa [hf] at this

theorem members_abs {s : CISet} (h : Inv norm s) : OSet.members (abs s) = s.set := by
  simp [OSet.members, abs, h.1]

theorem mem_otherKeys (hn : ∀ k, norm (norm k) = norm k) {s : CISet} (h : Inv norm s) {o : Other} (ho : OtherOK norm o) (x : Str) :
    x ∈ OSet.otherKeys norm (abs s) o ↔ x ∈ (otherIter s o).map norm := by
  cases o with
  | list l => exact Iff.rfl
  | ciset t =>
    show x ∈ OSet.members (abs t) ↔ x ∈ t.set.map norm
    rw [members_abs ho, map_norm_set hn ho]
  | self =>
    show x ∈ OSet.members (abs s) ↔ x ∈ s.set.map norm
    rw [members_abs h, map_norm_set hn h]

/-- a fixed point of `norm` is in the other operand's keys iff the operand has it -/
theorem mem_otherKeys_iff_has (hn : ∀ k, norm (norm k) = norm k) {s : CISet} (h : Inv norm s) {o : Other} (ho : OtherOK norm o)
    (x : Str) (hx : norm x = x) :
    x ∈ OSet.otherKeys norm (abs s) o ↔ otherHas norm s o x = true := by
  rw [mem_otherKeys hn h ho, otherHas_iff hn h ho, hx]

theorem otherKeys_fixed (hn : ∀ k, norm (norm k) = norm k) {s : CISet} (h : Inv norm s) {o : Other} (ho : OtherOK norm o)
    (x : Str) (hx : x ∈ OSet.otherKeys norm (abs s) o) : norm x = x := by
  rw [mem_otherKeys hn h ho] at hx
  obtain ⟨v, _, rfl⟩ := List.mem_map.1 hx
  exact hn v

end CISet

end Pybtex.Uni
