/-
Helper lemmas for the state-threading `.aux` reader (`Model/AuxFileErr.lean`): a simulation between `parseFileT`
(error state threaded through `Errors.report`) and `parseFileG` (mode fixed, channel in `St.reports`).
-/
import PybtexModel.Lemmas.Errors
import PybtexModel.Model.AuxFileErr

namespace Pybtex.Aux
open Pybtex.Errors (execReports printedOf raisedOf Obs)

abbrev ES := Errors.State Report

/-- the module state and the observations after the reports `ch` have gone through `Errors.report` one after the
other, starting in `s0`, none of them raised -/
def Inv (s0 : ES) (ch : List Report) (err : ES) (obs : List (Obs Report)) : Prop :=
  match s0.captured with
  | some l0 => err = { s0 with captured := some (l0 ++ ch) } ∧ obs = ch.map (fun _ => Obs.collected)
  | none =>
    if s0.strict = true then ch = [] ∧ err = s0 ∧ obs = []
    else err = { s0 with errorCode := if ch.isEmpty then s0.errorCode else 2 } ∧ obs = ch.map Obs.printed

theorem Inv.exec {s0 : ES} {ch : List Report} {err : ES} {obs : List (Obs Report)} (h : Inv s0 ch err obs) :
    execReports s0 ch = (err, obs, none) := by
  unfold Inv at h
  cases hc : s0.captured with
  | some l0 =>
    simp only [hc] at h
    rw [Errors.execReports_captured ch s0 l0 hc, h.1, h.2]
  | none =>
    simp only [hc] at h
    by_cases hs : s0.strict = true
    · simp only [hs, if_true] at h
      obtain ⟨rfl, rfl, rfl⟩ := h
      rfl
    · have hs' : s0.strict = false := by simpa using hs
      simp only [hs'] at h
      rw [Errors.execReports_nonstrict ch s0 hc hs']
      simp [h.1, h.2, hs', hc]

theorem Inv.init (s0 : ES) : Inv s0 [] s0 [] := by
  unfold Inv
  cases hc : s0.captured with
  | some l0 => cases s0; simp_all
  | none =>
    by_cases hs : s0.strict = true
    · simp [hs]
    · cases s0; simp_all

theorem printedOf_map_printed (ch : List Report) : printedOf (ch.map Obs.printed) = ch := by
  induction ch with
  | nil => rfl
  | cons e es ih => simp [printedOf, ih]

theorem Inv.chan {s0 : ES} {ch : List Report} {err : ES} {obs : List (Obs Report)} (h : Inv s0 ch err obs) :
    chan s0 err obs = ch := by
  unfold Inv at h
  unfold Aux.chan
  cases hc : s0.captured with
  | some l0 => simp only [hc] at h; simp [h.1]
  | none =>
    simp only [hc] at h
    by_cases hs : s0.strict = true
    · simp only [hs, if_true] at h
      obtain ⟨rfl, rfl, rfl⟩ := h
      rfl
    · simp only [hs] at h
      rw [h.2, printedOf_map_printed]

/-- the strict-mode raise: nothing was reported before, the module state is untouched, the one observation is the
raise of the error that ends the parse -/
def Raised (s0 : ES) (a : TAbort) (b : Abort) : Prop :=
  s0.captured = none ∧ s0.strict = true ∧ b.reports = [] ∧ a.err = s0 ∧ ∃ e, a.fatal = .aux e ∧ a.obs = [Obs.raised e]

/-- the simulation relation on results -/
def RelE (s0 : ES) : Except TAbort TS → Except Abort St → Prop
  | .ok t, .ok st => st = { t.aux with reports := st.reports } ∧ Inv s0 st.reports t.err t.obs
  | .error a, .error b => a.fatal = b.fatal ∧ (Inv s0 b.reports a.err a.obs ∨ Raised s0 a b)
  | _, _ => False

/-- the `St` that carries the `AuxData` fields of `a` and the channel `ch` -/
def mk (a : St) (ch : List Report) : St := { a with reports := ch }

theorem RelE_bind {s0 : ES} {x : Except TAbort TS} {y : Except Abort St}
    {f : TS → Except TAbort TS} {g : St → Except Abort St} :
    RelE s0 x y → (∀ (t : TS) (ch : List Report), Inv s0 ch t.err t.obs → RelE s0 (f t) (g (mk t.aux ch))) →
    RelE s0 (match x with | .error a => .error a | .ok t => f t) (match y with | .error a => .error a | .ok st => g st) := by
  intro h hfg
  cases x with
  | error a =>
    cases y with
    | error b => exact h
    | ok st => exact h.elim
  | ok t =>
    cases y with
    | error b => exact h.elim
    | ok st =>
      simp only [RelE] at h
      have := hfg t st.reports h.2
      rw [mk, ← h.1] at this
      exact this

theorem reportT_rel (s0 : ES) (t : TS) (ch : List Report) (e : Report) (h : Inv s0 ch t.err t.obs) :
    RelE s0 (reportT t e) (reportG (modeOf s0) (mk t.aux ch) e) := by
  unfold Inv at h
  unfold reportT reportG modeOf Errors.report Mode.errState
  cases hc : s0.captured with
  | some l0 =>
    simp only [hc] at h
    simp only [h.1, mk, RelE, report, Inv, hc, h.2]
    simp
  | none =>
    simp only [hc] at h
    by_cases hs : s0.strict = true
    · simp only [hs, if_true] at h
      obtain ⟨rfl, h2, h3⟩ := h
      simp only [h2, hc, hs, mk, RelE, Raised, h3]
      simp
    · simp only [hs] at h
      have hs' : s0.strict = false := by simpa using hs
      simp only [h.1, hc, hs', mk, RelE, report, Inv, h.2]
      simp

theorem RelE_ok {s0 : ES} {t : TS} {ch : List Report} (h : Inv s0 ch t.err t.obs) :
    RelE s0 (.ok t) (.ok (mk t.aux ch)) := ⟨rfl, h⟩

theorem citeKeyT_rel (s0 : ES) (ctx : Ctx) (t : TS) (ch : List Report) (k : Str) (h : Inv s0 ch t.err t.obs) :
    RelE s0 (citeKeyT ctx t k) (citeKeyG (modeOf s0) ctx (mk t.aux ch) k) := by
  unfold citeKeyT citeKeyG
  simp only []
  refine RelE_bind (s0 := s0) ?_ ?_
  · show RelE s0 (match dget t.aux.canonical (lowerPy k) with | some ex => _ | none => _)
      (match dget t.aux.canonical (lowerPy k) with | some ex => _ | none => _)
    cases dget t.aux.canonical (lowerPy k) with
    | none => exact RelE_ok h
    | some ex =>
      simp only []
      by_cases hk : k = ex
      · simp only [hk, ne_eq, not_true_eq_false, if_false]; exact RelE_ok h
      · simp only [ne_eq, hk, not_false_eq_true, if_true]; exact reportT_rel s0 t ch _ h
  · intro t' ch' h'
    exact ⟨rfl, h'⟩

theorem citeKeysT_rel (s0 : ES) (ctx : Ctx) (ks : List Str) : ∀ (t : TS) (ch : List Report), Inv s0 ch t.err t.obs →
    RelE s0 (citeKeysT ctx ks t) (citeKeysG (modeOf s0) ctx ks (mk t.aux ch)) := by
  induction ks with
  | nil => intro t ch h; exact RelE_ok h
  | cons k ks ih =>
    intro t ch h
    unfold citeKeysT citeKeysG
    exact RelE_bind (citeKeyT_rel s0 ctx t ch k h) (fun t' ch' h' => ih t' ch' h')

theorem handleCommandT_rel (s0 : ES) (inpT : TS → Path → Except TAbort TS) (inp : St → Path → Except Abort St)
    (hin : ∀ (t : TS) (ch : List Report) (p : Path), Inv s0 ch t.err t.obs → RelE s0 (inpT t p) (inp (mk t.aux ch) p))
    (ctx : Ctx) (t : TS) (ch : List Report) (cmd : Cmd) (v : Str) (h : Inv s0 ch t.err t.obs) :
    RelE s0 (handleCommandT inpT ctx t cmd v) (handleCommandG (modeOf s0) inp ctx (mk t.aux ch) cmd v) := by
  cases cmd with
  | citation => exact citeKeysT_rel s0 ctx _ t ch h
  | bibstyle =>
    simp only [handleCommandT, handleCommandG, handleBibstyleT, handleBibstyleG]
    show RelE s0 (match t.aux.style with | some _ => _ | none => _) (match t.aux.style with | some _ => _ | none => _)
    cases t.aux.style with
    | some _ => exact reportT_rel s0 t ch _ h
    | none => exact ⟨rfl, h⟩
  | bibdata =>
    simp only [handleCommandT, handleCommandG, handleBibdataT, handleBibdataG]
    show RelE s0 (match t.aux.data with | some _ => _ | none => _) (match t.aux.data with | some _ => _ | none => _)
    cases t.aux.data with
    | some _ => exact reportT_rel s0 t ch _ h
    | none => exact ⟨rfl, h⟩
  | input => exact hin t ch v h

theorem parseLineT_rel (s0 : ES) (inpT : TS → Path → Except TAbort TS) (inp : St → Path → Except Abort St)
    (hin : ∀ (t : TS) (ch : List Report) (p : Path), Inv s0 ch t.err t.obs → RelE s0 (inpT t p) (inp (mk t.aux ch) p))
    (t : TS) (ch : List Report) (l : Str) (n : Nat) (h : Inv s0 ch t.err t.obs) :
    RelE s0 (parseLineT inpT t l n) (parseLineG (modeOf s0) inp (mk t.aux ch) l n) := by
  unfold parseLineT parseLineG
  show RelE s0 (match t.aux.context with | none => _ | some c => _) (match t.aux.context with | none => _ | some c => _)
  cases t.aux.context with
  | none => exact ⟨rfl, Or.inl h⟩
  | some c =>
    simp only []
    cases matchCommand l with
    | none => exact ⟨rfl, h⟩
    | some cv =>
      exact handleCommandT_rel s0 inpT inp hin _ (t.setAux { t.aux with context := some _ }) ch cv.1 cv.2 h

theorem parseLinesT_rel (s0 : ES) (inpT : TS → Path → Except TAbort TS) (inp : St → Path → Except Abort St)
    (hin : ∀ (t : TS) (ch : List Report) (p : Path), Inv s0 ch t.err t.obs → RelE s0 (inpT t p) (inp (mk t.aux ch) p))
    (ls : List Str) : ∀ (n : Nat) (t : TS) (ch : List Report), Inv s0 ch t.err t.obs →
    RelE s0 (parseLinesT inpT ls n t) (parseLinesG (modeOf s0) inp ls n (mk t.aux ch)) := by
  induction ls with
  | nil => intro n t ch h; exact RelE_ok h
  | cons l ls ih =>
    intro n t ch h
    unfold parseLinesT parseLinesG
    exact RelE_bind (parseLineT_rel s0 inpT inp hin t ch l n h) (fun t' ch' h' => ih (n + 1) t' ch' h')

theorem finishT_rel (s0 : ES) (prev : Option Ctx) (tl : Bool) (t : TS) (ch : List Report) (h : Inv s0 ch t.err t.obs) :
    RelE s0 (finishT prev tl t) (finish prev tl (mk t.aux ch)) := by
  have key : finish prev tl (mk t.aux ch) =
      (match finish prev tl t.aux with
       | .error a => .error ⟨a.fatal, ch⟩
       | .ok a => .ok (mk a ch)) := by
    cases prev <;> cases hc : t.aux.context <;> cases tl <;> cases hd : t.aux.data <;> cases hs : t.aux.style <;>
      simp [finish, mk, hc, hd, hs]
  rw [key]
  unfold finishT
  cases finish prev tl t.aux with
  | error a => exact ⟨rfl, Or.inl h⟩
  | ok a => exact ⟨rfl, h⟩

theorem parseFileT_rel (s0 : ES) (fs : FS) (fuel : Nat) : ∀ (t : TS) (ch : List Report) (p : Path) (tl : Bool),
    Inv s0 ch t.err t.obs → RelE s0 (parseFileT fs fuel t p tl) (parseFileG fs (modeOf s0) fuel (mk t.aux ch) p tl) := by
  induction fuel with
  | zero => intro t ch p tl h; exact ⟨rfl, Or.inl h⟩
  | succ f ih =>
    intro t ch p tl h
    unfold parseFileT parseFileG
    simp only []
    cases fs p with
    | none => exact ⟨rfl, Or.inl h⟩
    | some lines =>
      simp only []
      refine RelE_bind (parseLinesT_rel s0 _ _ (fun t' ch' q h' => ih t' ch' q false h') lines 1
        (t.setAux { t.aux with context := some (Ctx.new p) }) ch h) ?_
      intro t' ch' h'
      exact finishT_rel s0 _ tl t' ch' h'

theorem parseT_rel (fs : FS) (s0 : ES) (fuel : Nat) (p : Path) :
    RelE s0 (parseT fs s0 fuel p) (parseG fs (modeOf s0) fuel p) :=
  parseFileT_rel s0 fs fuel ⟨St.init, s0, []⟩ [] p true (Inv.init s0)

/-- what the simulation says about the module state when the parse is over -/
theorem parseT_final (fs : FS) (s0 : ES) (fuel : Nat) (p : Path) :
    Inv s0 (captured (parseG fs (modeOf s0) fuel p)) (finalErr (parseT fs s0 fuel p)).1 (finalErr (parseT fs s0 fuel p)).2 ∨
    (s0.captured = none ∧ s0.strict = true ∧
      ∃ e, parseT fs s0 fuel p = .error ⟨.aux e, s0, [Obs.raised e]⟩ ∧ parseG fs (modeOf s0) fuel p = .error ⟨.aux e, []⟩) := by
  have h := parseT_rel fs s0 fuel p
  cases hx : parseT fs s0 fuel p with
  | ok t =>
    cases hy : parseG fs (modeOf s0) fuel p with
    | ok st => rw [hx, hy] at h; exact Or.inl h.2
    | error b => rw [hx, hy] at h; exact h.elim
  | error a =>
    cases hy : parseG fs (modeOf s0) fuel p with
    | ok st => rw [hx, hy] at h; exact h.elim
    | error b =>
      rw [hx, hy] at h
      rcases h with ⟨hf, h | ⟨h1, h2, h3, h4, e, h5, h6⟩⟩
      · exact Or.inl h
      · right
        refine ⟨h1, h2, e, ?_, ?_⟩
        · cases a; simp_all
        · cases b; simp_all

theorem parseT_view (fs : FS) (s0 : ES) (fuel : Nat) (p : Path) :
    viewResult s0 (parseT fs s0 fuel p) = parseG fs (modeOf s0) fuel p := by
  have h := parseT_rel fs s0 fuel p
  cases hx : parseT fs s0 fuel p with
  | ok t =>
    cases hy : parseG fs (modeOf s0) fuel p with
    | ok st =>
      rw [hx, hy] at h
      simp only [viewResult, TS.view, h.2.chan]
      rw [← h.1]
    | error b => rw [hx, hy] at h; exact h.elim
  | error a =>
    cases hy : parseG fs (modeOf s0) fuel p with
    | ok st => rw [hx, hy] at h; exact h.elim
    | error b =>
      rw [hx, hy] at h
      rcases h with ⟨hf, h | ⟨h1, h2, h3, h4, e, h5, h6⟩⟩
      · simp only [viewResult, TAbort.view, h.chan, hf]
      · simp only [viewResult, TAbort.view, chan, h1, h6, printedOf, hf, ← h3]

end Pybtex.Aux
