/-
Lemmas for C10, "a malformed entry never alters the entries after it":

* LOCALITY: the reader never looks further than what it consumes (plus the character that ends a
  token): a scanner / parse function run on `a ++ c` behaves as on `a` alone, as long as the run
  on `a` did not run into the end of the text;
* FRAMES: no function of the reader inspects the problems reported so far, the preamble, the line
  counter (it only adds to it) or — except for the repeated-key check of `add_entry` — the entries
  read so far.

Both are instances of one commutation statement `f (T.app s) = (f s).mapR T` for a *context
transformer* `T` (text appended behind the unread text, line counter shifted, problems and
preamble items put in front, entries inserted), proved once per function of `Model/BibParse.lean`.
-/
import PybtexModel.Lemmas.BibTotal

namespace Pybtex.Bib

/-! ## §0 context transformers -/

/-- shift the line of a located error -/
def shiftErr (k : Nat) (e : Err) : Err := ⟨e.kind, e.line.map (· + k)⟩

theorem shiftErr_zero (e : Err) : shiftErr 0 e = e := by
  obtain ⟨kd, l⟩ := e
  cases l <;> rfl

theorem map_shiftErr_zero (l : List Err) : l.map (shiftErr 0) = l := by
  induction l with
  | nil => rfl
  | cons e l ih => rw [List.map_cons, ih, shiftErr_zero]

/-- A change of context of the reader: `c` is appended behind the unread text, the line counter is
`k` higher (and so is the line of every problem), the problems `R` and the preamble items `Pr`
were there before everything else, and the entries `l` were inserted behind the first `n` entries.
The ghost `errAt` (the unread text recorded with every problem) goes along: `RA` are the unread
texts recorded with `R`, and those recorded later end in `c` as well. -/
structure Tr where
  c : Str := []
  k : Nat := 0
  R : List Err := []
  n : Nat := 0
  l : List Entry := []
  Pr : List Str := []
  /-- ghost: the unread texts recorded with the problems `R` -/
  RA : List Str := []

@[reducible] def Tr.db (T : Tr) (d : Db) : Db :=
  { d with entries := d.entries.take T.n ++ T.l ++ d.entries.drop T.n, preamble := T.Pr ++ d.preamble }

@[reducible] def Tr.app (T : Tr) (s : St) : St :=
  { s with rest := s.rest ++ T.c, ln := s.ln + T.k, errs := T.R ++ s.errs.map (shiftErr T.k),
           db := T.db s.db, errAt := T.RA ++ s.errAt.map (· ++ T.c) }

def Tr.ab (T : Tr) : Abort → Abort
  | .syn e => .syn (shiftErr T.k e)
  | .raised e => .raised (shiftErr T.k e)
  | .skip => .skip

def Res.mapR {α : Type} (T : Tr) : Res α → Res α
  | .ok a s => .ok a (T.app s)
  | .fail a s => .fail (T.ab a) (T.app s)

def Res.bind {α β : Type} (r : Res α) (h : α → St → Res β) : Res β :=
  match r with
  | .ok a s => h a s
  | .fail e s => .fail e s

/-- the error kinds that mean "the reader ran into the end of the text" (`internal` = fuel, which
never happens, see `C10_total`) -/
def stopKind (k : ErrKind) : Prop := k = .prematureEOF ∨ k = .internal

def Res.stop {α : Type} : Res α → Prop
  | .fail (.syn e) _ => stopKind e.kind
  | .fail (.raised e) _ => stopKind e.kind
  | _ => False

def Res.synFail {α : Type} : Res α → Prop
  | .fail (.syn _) _ => True
  | _ => False

/-- when does the run that produced `r` carry over to the changed context: nothing was appended to
the text, or the run did not hit the end of the text and stopped before it (a syntax error other
than `PrematureEOF` is always raised strictly inside the text) -/
def LC {α : Type} (T : Tr) (r : Res α) : Prop :=
  T.c = [] ∨ (¬ r.stop ∧ (r.st.rest ≠ [] ∨ r.synFail))

/-- what a function returns on an empty text: it reports the end of the text, or it reads nothing -/
def EmptyOut {α : Type} (r : Res α) : Prop := r.stop ∨ (r.st.rest = [] ∧ ¬ r.synFail)

theorem St.ext' {a b : St} (h1 : a.rest = b.rest) (h2 : a.ln = b.ln) (h3 : a.macros = b.macros)
    (h4 : a.db = b.db) (h5 : a.errs = b.errs) (h6 : a.strict = b.strict) (h7 : a.unnamed = b.unnamed)
    (h8 : a.curKey = b.curKey) (h9 : a.curFields = b.curFields) (h10 : a.curFieldName = b.curFieldName)
    (h11 : a.curValue = b.curValue) (h12 : a.roles = b.roles) (h13 : a.errAt = b.errAt) : a = b := by
  cases a; cases b; simp_all

theorem Res.stop_bind {α β : Type} {r : Res α} (h : α → St → Res β) (hs : r.stop) : (r.bind h).stop := by
  cases r with
  | ok a s => cases hs
  | fail a s => cases a <;> exact hs

theorem LC.fail_cast {α β : Type} {T : Tr} {a : Abort} {s : St} (h : LC T (Res.fail a s : Res α)) :
    LC T (Res.fail a s : Res β) := by
  cases a <;> exact h

theorem LC.nil {α : Type} {T : Tr} (r : Res α) (h : T.c = []) : LC T r := Or.inl h

/-- the generic step: `g` then `h` -/
theorem bind_T {α β : Type} {T : Tr} {g : St → Res β} {h : β → St → Res α} {s : St}
    (hg : LC T (g s) → g (T.app s) = (g s).mapR T)
    (hh : ∀ x s1, g s = .ok x s1 → LC T (h x s1) → h x (T.app s1) = (h x s1).mapR T)
    (hB : ∀ x s1, s1.rest = [] → EmptyOut (h x s1))
    (hc : LC T ((g s).bind h)) :
    (g (T.app s)).bind h = ((g s).bind h).mapR T := by
  cases hr : g s with
  | fail a s1 =>
    rw [hr] at hc hg
    rw [hg hc.fail_cast]
    rfl
  | ok x s1 =>
    rw [hr] at hc hg
    have hc1 : LC T (Res.ok x s1 : Res β) := by
      rcases hc with hc | ⟨hns, hrest⟩
      · exact Or.inl hc
      · refine Or.inr ⟨fun h => h, Or.inl ?_⟩
        intro he
        rcases hB x s1 he with hb | ⟨hb1, hb2⟩
        · exact hns hb
        · rcases hrest with h1 | h1
          · exact h1 hb1
          · exact hb2 h1
    rw [hg hc1]
    exact hh x s1 hr hc

/-! ## §1 scanner primitives -/

theorem dropWhile_append_ne (p : Char → Bool) (a c : Str) (h : a.dropWhile p ≠ []) :
    (a ++ c).dropWhile p = a.dropWhile p ++ c := by
  induction a with
  | nil => exact absurd rfl h
  | cons x r ih =>
    simp only [List.cons_append, List.dropWhile_cons] at h ⊢
    split
    · rename_i hx; rw [if_pos hx] at h; exact ih h
    · rfl

theorem takeWhile_append_ne (p : Char → Bool) (a c : Str) (h : a.dropWhile p ≠ []) :
    (a ++ c).takeWhile p = a.takeWhile p := by
  induction a with
  | nil => exact absurd rfl h
  | cons x r ih =>
    simp only [List.cons_append, List.dropWhile_cons, List.takeWhile_cons] at h ⊢
    split
    · rename_i hx; rw [if_pos hx] at h; rw [ih h]
    · rfl

theorem takeWhile_nil_append (p : Char → Bool) (a c : Str) (ha : a ≠ []) (h : a.takeWhile p = []) :
    (a ++ c).takeWhile p = [] := by
  cases a with
  | nil => exact absurd rfl ha
  | cons x r =>
    simp only [List.cons_append, List.takeWhile_cons] at h ⊢
    split
    · rename_i hx; rw [if_pos hx] at h; cases h
    · rfl

theorem eatWs_T (T : Tr) (s : St) (h : T.c = [] ∨ (eatWs s).rest ≠ []) :
    eatWs (T.app s) = T.app (eatWs s) := by
  have h1 : (s.rest ++ T.c).dropWhile isWs = s.rest.dropWhile isWs ++ T.c ∧
      (s.rest ++ T.c).takeWhile isWs = s.rest.takeWhile isWs := by
    rcases h with h | h
    · rw [h]; simp
    · exact ⟨dropWhile_append_ne _ _ _ h, takeWhile_append_ne _ _ _ h⟩
  apply St.ext' <;> try rfl
  · exact h1.1
  · show s.ln + T.k + countNl ((s.rest ++ T.c).takeWhile isWs) = s.ln + countNl (s.rest.takeWhile isWs) + T.k
    rw [h1.2]; omega

theorem matchAt_none_app (p : Pat) (x c : Str) (hx : x ≠ []) (h : p.matchAt x = none) :
    p.matchAt (x ++ c) = none := by
  cases x with
  | nil => exact absurd rfl hx
  | cons d t =>
    cases p with
    | name =>
      simp only [Pat.matchAt, List.cons_append] at h ⊢
      split at h
      · cases h
      · rename_i hd; rw [if_neg hd]
    | keyParen =>
      simp only [Pat.matchAt] at h ⊢
      split at h
      · rename_i h0; rw [if_pos (takeWhile_nil_append _ _ _ (by simp) h0)]
      · cases h
    | keyBrace =>
      simp only [Pat.matchAt] at h ⊢
      split at h
      · rename_i h0; rw [if_pos (takeWhile_nil_append _ _ _ (by simp) h0)]
      · cases h
    | number =>
      simp only [Pat.matchAt] at h ⊢
      split at h
      · rename_i h0; rw [if_pos (takeWhile_nil_append _ _ _ (by simp) h0)]
      · cases h
    | lit ch =>
      simp only [Pat.matchAt, List.cons_append] at h ⊢
      split at h
      · cases h
      · rename_i hd; rw [if_neg hd]

def Pat.isLit : Pat → Prop
  | .lit _ => True
  | _ => False

theorem matchAt_some_app (p : Pat) (x c v r : Str) (h : p.matchAt x = some (v, r))
    (hr : r ≠ [] ∨ p.isLit) : p.matchAt (x ++ c) = some (v, r ++ c) := by
  cases p with
  | name =>
    rcases hr with hr | hr
    · cases x with
      | nil => simp [Pat.matchAt] at h
      | cons d t =>
        simp only [Pat.matchAt, List.cons_append] at h ⊢
        split at h
        · rename_i hd
          simp only [Option.some.injEq, Prod.mk.injEq] at h
          obtain ⟨h1, h2⟩ := h
          subst h1; subst h2
          rw [if_pos hd, dropWhile_append_ne _ _ _ hr, takeWhile_append_ne _ _ _ hr]
        · cases h
    · cases hr
  | keyParen =>
    rcases hr with hr | hr
    · simp only [Pat.matchAt] at h ⊢
      split at h
      · cases h
      · rename_i h0
        simp only [Option.some.injEq, Prod.mk.injEq] at h
        obtain ⟨h1, h2⟩ := h
        subst h2
        rw [dropWhile_append_ne _ _ _ hr, takeWhile_append_ne _ _ _ hr, if_neg h0, h1]
    · cases hr
  | keyBrace =>
    rcases hr with hr | hr
    · simp only [Pat.matchAt] at h ⊢
      split at h
      · cases h
      · rename_i h0
        simp only [Option.some.injEq, Prod.mk.injEq] at h
        obtain ⟨h1, h2⟩ := h
        subst h2
        rw [dropWhile_append_ne _ _ _ hr, takeWhile_append_ne _ _ _ hr, if_neg h0, h1]
    · cases hr
  | number =>
    rcases hr with hr | hr
    · simp only [Pat.matchAt] at h ⊢
      split at h
      · cases h
      · rename_i h0
        simp only [Option.some.injEq, Prod.mk.injEq] at h
        obtain ⟨h1, h2⟩ := h
        subst h2
        rw [dropWhile_append_ne _ _ _ hr, takeWhile_append_ne _ _ _ hr, if_neg h0, h1]
    · cases hr
  | lit ch =>
    cases x with
    | nil => simp [Pat.matchAt] at h
    | cons d t =>
      simp only [Pat.matchAt, List.cons_append] at h ⊢
      split at h
      · rename_i hd
        simp only [Option.some.injEq, Prod.mk.injEq] at h
        obtain ⟨h1, h2⟩ := h
        subst h1; subst h2
        rw [if_pos hd]
      · cases h

theorem firstMatch_none_app (ps : List Pat) (x c : Str) (hx : x ≠ []) (h : firstMatch ps x = none) :
    firstMatch ps (x ++ c) = none := by
  induction ps with
  | nil => rfl
  | cons p ps ih =>
    simp only [firstMatch] at h ⊢
    cases hm : p.matchAt x with
    | some vr => rw [hm] at h; cases h
    | none =>
      rw [hm] at h
      rw [matchAt_none_app p x c hx hm]
      exact ih h

theorem firstMatch_some_app (ps : List Pat) (x c v r : Str) (p : Pat) (hx : x ≠ [])
    (h : firstMatch ps x = some (p, v, r)) (hr : r ≠ [] ∨ ∀ q ∈ ps, q.isLit) :
    firstMatch ps (x ++ c) = some (p, v, r ++ c) := by
  induction ps with
  | nil => cases h
  | cons q ps ih =>
    simp only [firstMatch] at h ⊢
    cases hm : q.matchAt x with
    | some vr =>
      obtain ⟨v', r'⟩ := vr
      rw [hm] at h
      simp only [Option.some.injEq, Prod.mk.injEq] at h
      obtain ⟨h1, h2, h3⟩ := h
      subst h1; subst h2; subst h3
      rw [matchAt_some_app q x c v' r' hm (hr.imp id (fun h => h q (by simp)))]
    | none =>
      rw [hm] at h
      rw [matchAt_none_app q x c hx hm]
      exact ih h (hr.imp id (fun h q' hq' => h q' (List.mem_cons_of_mem _ hq')))

theorem getToken_empty (pats : List Pat) (s : St) (h : s.rest = []) : (getToken pats s).stop := by
  unfold getToken
  have : (eatWs s).rest = [] := by simp [eatWs, h]
  simp only [this, ↓reduceIte]
  exact Or.inl rfl

/-- `getToken`; when all patterns are literals a found token carries over even if it ends the text -/
theorem getToken_T (T : Tr) (pats : List Pat) (s : St)
    (hc : LC T (getToken pats s) ∨ ((∀ q ∈ pats, q.isLit) ∧ ¬ (getToken pats s).stop)) :
    getToken pats (T.app s) = (getToken pats s).mapR T := by
  have hne : T.c = [] ∨ (eatWs s).rest ≠ [] := by
    by_cases hT : T.c = []
    · exact Or.inl hT
    · right
      intro he
      have hs : (getToken pats s).stop := by
        unfold getToken; simp only [he, ↓reduceIte]; exact Or.inl rfl
      rcases hc with (hc | hc) | hc
      · exact hT hc
      · exact hc.1 hs
      · exact hc.2 hs
  unfold getToken
  simp only
  rw [eatWs_T T s hne]
  by_cases he : (eatWs s).rest = []
  · have hT : T.c = [] := by
      rcases hne with h | h
      · exact h
      · exact absurd he h
    have : (T.app (eatWs s)).rest = [] := by show (eatWs s).rest ++ T.c = []; rw [he, hT]; rfl
    rw [if_pos this, if_pos he]
    rfl
  · have : (T.app (eatWs s)).rest ≠ [] := by
      show (eatWs s).rest ++ T.c ≠ []
      intro h; exact he (List.append_eq_nil_iff.1 h).1
    rw [if_neg this, if_neg he]
    cases hm : firstMatch pats (eatWs s).rest with
    | none =>
      have : firstMatch pats (T.app (eatWs s)).rest = none := firstMatch_none_app pats _ T.c he hm
      rw [this]; rfl
    | some pvr =>
      obtain ⟨p, v, r⟩ := pvr
      have hr : T.c = [] ∨ r ≠ [] ∨ ∀ q ∈ pats, q.isLit := by
        by_cases hT : T.c = []
        · exact Or.inl hT
        · right
          have hg : getToken pats s = .ok (some (p, v)) { eatWs s with rest := r } := by
            unfold getToken; simp only [he, ↓reduceIte, hm]
          rw [hg] at hc
          rcases hc with (hc | ⟨_, hc | hc⟩) | hc
          · exact absurd hc hT
          · exact Or.inl hc
          · cases hc
          · exact Or.inr hc.1
      have : firstMatch pats (T.app (eatWs s)).rest = some (p, v, r ++ T.c) := by
        rcases hr with hr | hr
        · show firstMatch pats ((eatWs s).rest ++ T.c) = _
          rw [hr]; simpa using hm
        · exact firstMatch_some_app pats _ T.c v r p he hm hr
      rw [this]; rfl

theorem required_bind (pats : List Pat) (desc : String) (s : St) :
    required pats desc s = (getToken pats s).bind (fun o s =>
      match o with
      | none => .fail (.syn ⟨.tokenRequired desc, some s.ln⟩) s
      | some t => .ok t s) := by
  unfold required
  cases getToken pats s with
  | fail a s' => rfl
  | ok o s' => cases o <;> rfl

theorem required_empty (pats : List Pat) (desc : String) (s : St) (h : s.rest = []) :
    (required pats desc s).stop := by
  rw [required_bind]; exact Res.stop_bind _ (getToken_empty pats s h)

theorem required_T (T : Tr) (pats : List Pat) (desc : String) (s : St)
    (hc : LC T (required pats desc s) ∨ ((∀ q ∈ pats, q.isLit) ∧ ¬ (required pats desc s).stop)) :
    required pats desc (T.app s) = (required pats desc s).mapR T := by
  have hg : LC T (getToken pats s) ∨ ((∀ q ∈ pats, q.isLit) ∧ ¬ (getToken pats s).stop) := by
    rw [required_bind] at hc
    cases hr : getToken pats s with
    | fail a s' =>
      rw [hr] at hc
      rcases hc with hc | hc
      · exact Or.inl hc.fail_cast
      · right; refine ⟨hc.1, ?_⟩
        intro h; apply hc.2; cases a <;> exact h
    | ok o s' =>
      rw [hr] at hc
      cases o with
      | none =>
        by_cases hT : T.c = []
        · exact Or.inl (Or.inl hT)
        · left; right
          refine ⟨fun h => h, Or.inl ?_⟩
          intro he
          have : s'.rest ≠ [] := by
            have : (getToken pats s).st.rest ≠ [] := by
              unfold getToken
              simp only
              split
              · rename_i h0
                exfalso
                have hg : getToken pats s = .fail (.syn ⟨.prematureEOF, some (eatWs s).ln⟩) (eatWs s) := by
                  unfold getToken; simp only [h0, ↓reduceIte]
                rw [hg] at hr; cases hr
              · rename_i h0
                split
                · exact h0
                · rename_i p v r hm
                  exfalso
                  have hg : getToken pats s = .ok (some (p, v)) { eatWs s with rest := r } := by
                    unfold getToken; simp only [h0, ↓reduceIte, hm]
                  rw [hg] at hr; cases hr
            rw [hr] at this; exact this
          exact this he
      | some t =>
        rcases hc with hc | hc
        · exact Or.inl hc
        · exact Or.inr ⟨hc.1, fun h => h⟩
  rw [required_bind, required_bind, getToken_T T pats s hg]
  cases getToken pats s with
  | fail a s' => rfl
  | ok o s' => cases o <;> rfl

/-! ## §2 strings, error handler, macros -/

theorem Res.stop_mapR {α : Type} (T : Tr) (r : Res α) : (r.mapR T).stop ↔ r.stop := by
  cases r with
  | ok a s => exact Iff.rfl
  | fail a s => cases a <;> exact Iff.rfl

theorem skipToChar_app (p : Char → Bool) (a c chunk rest : Str) (h : skipToChar p a = some (chunk, rest)) :
    skipToChar p (a ++ c) = some (chunk, rest ++ c) := by
  induction a generalizing chunk rest with
  | nil => cases h
  | cons x r ih =>
    simp only [skipToChar, List.cons_append] at h ⊢
    split
    · rename_i hx
      rw [if_pos hx] at h
      simp only [Option.some.injEq, Prod.mk.injEq] at h
      rw [← h.1, ← h.2]
    · rename_i hx
      rw [if_neg hx] at h
      cases hr : skipToChar p r with
      | none => rw [hr] at h; cases h
      | some y =>
        obtain ⟨y1, y2⟩ := y
        rw [hr] at h
        simp only [Option.map_some, Option.some.injEq, Prod.mk.injEq] at h
        rw [ih y1 y2 hr, ← h.1, ← h.2]
        rfl

theorem T_chunk (T : Tr) (s : St) (rest : Str) (n : Nat) :
    ({ T.app s with rest := rest ++ T.c, ln := (T.app s).ln + n } : St) =
      T.app { s with rest := rest, ln := s.ln + n } := by
  apply St.ext' <;> try rfl
  show s.ln + T.k + n = s.ln + n + T.k
  omega

/-- the part of `strLoop` behind `skipToChar` -/
def strTail (fuel : Nat) (quoted : Bool) (d : Nat) (acc : Str) (chunk : Str) (s : St) : Res Str :=
  match chunk.getLast? with
  | some '{' =>
    if d + 1 > 100 then .fail (.syn ⟨.tooManyBraces, some s.ln⟩) s
    else strLoop fuel quoted (d + 1) acc s
  | some '}' =>
    if d = 0 then
      if quoted then .fail (.syn ⟨.unbalancedBraces, some s.ln⟩) s else .ok acc s
    else strLoop fuel quoted (d - 1) acc s
  | _ => .ok acc s

theorem strLoop_succ (fuel : Nat) (quoted : Bool) (d : Nat) (acc : Str) (s : St) :
    strLoop (fuel + 1) quoted d acc s =
      match skipToChar (fun c => c = '}' || c = '{' || (quoted && d = 0 && c = '"')) s.rest with
      | none => .fail (.syn ⟨.prematureEOF, some s.ln⟩) s
      | some (chunk, rest) =>
        strTail fuel quoted d (acc ++ chunk) chunk { s with rest := rest, ln := s.ln + countNl chunk } := by
  rfl

theorem strLoop_empty (fuel : Nat) (quoted : Bool) (d : Nat) (acc : Str) (s : St) (h : s.rest = []) :
    (strLoop fuel quoted d acc s).stop := by
  cases fuel with
  | zero => exact Or.inr rfl
  | succ fuel => rw [strLoop_succ, h]; exact Or.inl rfl

theorem strTail_T (T : Tr) (fuel : Nat) (quoted : Bool) (d : Nat) (acc chunk : Str) (s : St)
    (ih : ∀ d acc s, LC T (strLoop fuel quoted d acc s) →
      strLoop fuel quoted d acc (T.app s) = (strLoop fuel quoted d acc s).mapR T)
    (hc : LC T (strTail fuel quoted d acc chunk s)) :
    strTail fuel quoted d acc chunk (T.app s) = (strTail fuel quoted d acc chunk s).mapR T := by
  revert hc
  unfold strTail
  split
  · split
    · intro _; rfl
    · intro hc; exact ih _ _ _ hc
  · split
    · intro _; split <;> rfl
    · intro hc; exact ih _ _ _ hc
  · intro _; rfl

theorem strLoop_T (T : Tr) (fuel : Nat) (quoted : Bool) (d : Nat) (acc : Str) (s : St)
    (hc : LC T (strLoop fuel quoted d acc s)) :
    strLoop fuel quoted d acc (T.app s) = (strLoop fuel quoted d acc s).mapR T := by
  induction fuel generalizing d acc s with
  | zero => rfl
  | succ fuel ih =>
    rw [strLoop_succ] at hc
    rw [strLoop_succ, strLoop_succ]
    cases hsk : skipToChar (fun c => c = '}' || c = '{' || (quoted && d = 0 && c = '"')) s.rest with
    | none =>
      rw [hsk] at hc
      have hT : T.c = [] := by
        rcases hc with hc | hc
        · exact hc
        · exact absurd (Or.inl rfl) hc.1
      have : (T.app s).rest = s.rest := by show s.rest ++ T.c = s.rest; rw [hT]; simp
      rw [this, hsk]
      rfl
    | some cr =>
      obtain ⟨chunk, rest⟩ := cr
      rw [hsk] at hc
      have : skipToChar (fun c => c = '}' || c = '{' || (quoted && d = 0 && c = '"')) (T.app s).rest
          = some (chunk, rest ++ T.c) := skipToChar_app _ _ _ _ _ hsk
      rw [this]
      simp only
      rw [T_chunk]
      exact strTail_T T fuel quoted d _ chunk _ ih hc

theorem strLoop_fuel (fuel k : Nat) (quoted : Bool) (d : Nat) (acc : Str) (s : St)
    (h : ¬ (strLoop fuel quoted d acc s).stop) :
    strLoop (fuel + k) quoted d acc s = strLoop fuel quoted d acc s := by
  induction fuel generalizing d acc s with
  | zero => exact absurd (Or.inr rfl) h
  | succ fuel ih =>
    rw [Nat.succ_add, strLoop_succ]
    rw [strLoop_succ] at h ⊢
    cases hsk : skipToChar (fun c => c = '}' || c = '{' || (quoted && d = 0 && c = '"')) s.rest with
    | none => rfl
    | some cr =>
      obtain ⟨chunk, rest⟩ := cr
      rw [hsk] at h
      simp only at h ⊢
      revert h
      unfold strTail
      split
      · split
        · intro _; rfl
        · intro h; exact ih _ _ _ h
      · split
        · intro _; rfl
        · intro h; exact ih _ _ _ h
      · intro _; rfl

/-- from "same fuel" to "the fuel the caller computes from the unread text" -/
theorem fuel_T {α : Type} (T : Tr) (L : Nat → St → Res α) (n : Nat) (s : St)
    (mono : ∀ fuel k s, ¬ (L fuel s).stop → L (fuel + k) s = L fuel s)
    (comm : ∀ fuel s, LC T (L fuel s) → L fuel (T.app s) = (L fuel s).mapR T)
    (hc : LC T (L (s.rest.length + n) s)) :
    L ((T.app s).rest.length + n) (T.app s) = (L (s.rest.length + n) s).mapR T := by
  have e : (T.app s).rest.length + n = (s.rest.length + n) + T.c.length := by
    show (s.rest ++ T.c).length + n = _
    rw [List.length_append]; omega
  rw [e]
  rcases hc with hc | hc
  · rw [hc]; exact comm _ _ (Or.inl hc)
  · rw [mono, comm _ _ (Or.inr hc)]
    rw [comm _ _ (Or.inr hc), Res.stop_mapR]
    exact hc.1

theorem T_addErr (T : Tr) (s : St) (e : Err) :
    (T.app s).report (shiftErr T.k e) = T.app (s.report e) := by
  apply St.ext' <;> try rfl
  · show T.R ++ s.errs.map (shiftErr T.k) ++ [shiftErr T.k e] = T.R ++ (s.errs ++ [e]).map (shiftErr T.k)
    simp
  · show T.RA ++ s.errAt.map (· ++ T.c) ++ [s.rest ++ T.c] = T.RA ++ (s.errAt ++ [s.rest]).map (· ++ T.c)
    simp

theorem handleError_T (T : Tr) (s : St) (e : Err) :
    handleError (T.app s) (shiftErr T.k e) = (handleError s e).mapR T := by
  unfold handleError
  show (if s.strict = true then _ else _) = _
  split
  · rfl
  · rw [T_addErr]; rfl

theorem wantCurrent_T (T : Tr) (s : St) : wantCurrent (T.app s) = wantCurrent s := rfl

theorem substituteMacro_T (T : Tr) (name : Str) (s : St) :
    substituteMacro name (T.app s) = (substituteMacro name s).mapR T := by
  unfold substituteMacro
  have hm : (T.app s).macros.getItem name = s.macros.getItem name := rfl
  rw [hm]
  cases s.macros.getItem name with
  | some v => rfl
  | none =>
    simp only
    have hw : wantCurrent (T.app s) = wantCurrent s := rfl
    rw [hw]
    cases wantCurrent s with
    | false => rfl
    | true =>
      simp only [↓reduceIte]
      have := handleError_T T s ⟨.undefinedMacro name, some s.ln⟩
      have e : shiftErr T.k ⟨.undefinedMacro name, some s.ln⟩ = ⟨.undefinedMacro name, some (T.app s).ln⟩ := rfl
      rw [e] at this
      rw [this]
      cases handleError s ⟨.undefinedMacro name, some s.ln⟩ with
      | ok u s' => rfl
      | fail a s' => rfl

theorem substituteMacro_rest (name : Str) (s : St) :
    (substituteMacro name s).st.rest = s.rest ∧ ¬ (substituteMacro name s).synFail := by
  unfold substituteMacro
  cases s.macros.getItem name with
  | some v => exact ⟨rfl, fun h => h⟩
  | none =>
    simp only
    cases wantCurrent s with
    | false => exact ⟨rfl, fun h => h⟩
    | true =>
      simp only [↓reduceIte]
      unfold handleError
      cases s.strict with
      | false => exact ⟨rfl, fun h => h⟩
      | true => exact ⟨rfl, fun h => h⟩

/-! ## §3 values, fields, bodies -/

theorem EmptyOut.ok {α : Type} (a : α) {s : St} (h : s.rest = []) : EmptyOut (Res.ok a s) :=
  Or.inr ⟨h, fun h => h⟩

/-- the part of `parseValuePart` behind the first token -/
def vpCont (pv : Pat × Str) (s : St) : Res Str :=
  match pv.1 with
  | .lit c => (strLoop (s.rest.length + 1) (decide (c = '"')) 0 [] s).bind (fun str s => .ok str.dropLast s)
  | .number => .ok pv.2 s
  | _ => substituteMacro pv.2 s

theorem parseValuePart_bind (s : St) :
    parseValuePart s = (required [.lit '"', .lit '{', .number, .name] "field value" s).bind vpCont := by
  unfold parseValuePart
  cases required [.lit '"', .lit '{', .number, .name] "field value" s with
  | fail a s' => rfl
  | ok pv s' =>
    obtain ⟨p, v⟩ := pv
    simp only [Res.bind]
    split
    · show _ = (strLoop (s'.rest.length + 1) true 0 [] s').bind _
      cases strLoop (s'.rest.length + 1) true 0 [] s' <;> rfl
    · rename_i c hc
      have : decide (c = '"') = false := by simpa using hc
      show _ = (strLoop (s'.rest.length + 1) (decide (c = '"')) 0 [] s').bind _
      rw [this]
      cases strLoop (s'.rest.length + 1) false 0 [] s' <;> rfl
    · rfl
    · rename_i h1 h2 h3
      cases p with
      | lit c => exact absurd rfl (h2 c)
      | number => exact absurd rfl h3
      | name => rfl
      | keyParen => rfl
      | keyBrace => rfl

theorem strFull_T (T : Tr) (quoted : Bool) (s : St)
    (hc : LC T ((strLoop (s.rest.length + 1) quoted 0 [] s).bind (fun str s => .ok str.dropLast s))) :
    (strLoop ((T.app s).rest.length + 1) quoted 0 [] (T.app s)).bind (fun str s => .ok str.dropLast s) =
      ((strLoop (s.rest.length + 1) quoted 0 [] s).bind (fun str s => Res.ok str.dropLast s)).mapR T :=
  bind_T (g := fun s => strLoop (s.rest.length + 1) quoted 0 [] s)
    (fun h => fuel_T T (fun fuel s => strLoop fuel quoted 0 [] s) 1 s
      (fun fuel k s h => strLoop_fuel fuel k quoted 0 [] s h)
      (fun fuel s h => strLoop_T T fuel quoted 0 [] s h) h)
    (fun _ _ _ _ => rfl) (fun _ _ h => EmptyOut.ok _ h) hc

theorem vpCont_empty (pv : Pat × Str) (s : St) (h : s.rest = []) : EmptyOut (vpCont pv s) := by
  unfold vpCont
  split
  · exact Or.inl (Res.stop_bind _ (strLoop_empty _ _ _ _ _ h))
  · exact EmptyOut.ok _ h
  · exact Or.inr ⟨(substituteMacro_rest _ _).1.trans h, (substituteMacro_rest _ _).2⟩

theorem vpCont_T (T : Tr) (pv : Pat × Str) (s : St) (hc : LC T (vpCont pv s)) :
    vpCont pv (T.app s) = (vpCont pv s).mapR T := by
  revert hc
  unfold vpCont
  split
  · exact strFull_T T _ s
  · intro _; rfl
  · intro _; exact substituteMacro_T T _ s

theorem parseValuePart_empty (s : St) (h : s.rest = []) : (parseValuePart s).stop := by
  rw [parseValuePart_bind]; exact Res.stop_bind _ (required_empty _ _ s h)

theorem parseValuePart_T (T : Tr) (s : St) (hc : LC T (parseValuePart s)) :
    parseValuePart (T.app s) = (parseValuePart s).mapR T := by
  rw [parseValuePart_bind] at hc ⊢
  rw [parseValuePart_bind]
  exact bind_T (g := fun s => required [.lit '"', .lit '{', .number, .name] "field value" s)
    (fun h => required_T T _ _ s (Or.inl h))
    (fun pv s1 _ h => vpCont_T T pv s1 h) (fun pv s1 h => vpCont_empty pv s1 h) hc

/-- the part of `parseValueLoop` behind the value part -/
def vlCont (fuel : Nat) (parts : List Str) (part : Str) (s : St) : Res (List Str) :=
  (getToken [.lit '#'] s).bind (fun o s =>
    match o with
    | none => .ok (parts ++ [part]) s
    | some _ => parseValueLoop fuel (parts ++ [part]) s)

theorem parseValueLoop_succ (fuel : Nat) (parts : List Str) (s : St) :
    parseValueLoop (fuel + 1) parts s = (parseValuePart s).bind (vlCont fuel parts) := by
  rw [parseValueLoop]
  cases parseValuePart s with
  | fail a s' => rfl
  | ok part s' =>
    simp only [Res.bind, vlCont]
    cases getToken [.lit '#'] s' with
    | fail a s'' => rfl
    | ok o s'' => cases o <;> rfl

theorem parseValueLoop_empty (fuel : Nat) (parts : List Str) (s : St) (h : s.rest = []) :
    (parseValueLoop fuel parts s).stop := by
  cases fuel with
  | zero => exact Or.inr rfl
  | succ fuel => rw [parseValueLoop_succ]; exact Res.stop_bind _ (parseValuePart_empty s h)

theorem parseValueLoop_T (T : Tr) (fuel : Nat) (parts : List Str) (s : St)
    (hc : LC T (parseValueLoop fuel parts s)) :
    parseValueLoop fuel parts (T.app s) = (parseValueLoop fuel parts s).mapR T := by
  induction fuel generalizing parts s with
  | zero => rfl
  | succ fuel ih =>
    rw [parseValueLoop_succ] at hc ⊢
    rw [parseValueLoop_succ]
    refine bind_T (g := parseValuePart) (fun h => parseValuePart_T T s h) ?_ ?_ hc
    · intro part s1 _ h1
      refine bind_T (g := getToken [.lit '#']) (fun h => getToken_T T _ s1 (Or.inl h)) ?_ ?_ h1
      · intro o s2 _ h2
        cases o with
        | none => rfl
        | some t => exact ih _ _ h2
      · intro o s2 h2
        cases o with
        | none => exact EmptyOut.ok _ h2
        | some t => exact Or.inl (parseValueLoop_empty _ _ _ h2)
    · intro part s1 h1
      exact Or.inl (Res.stop_bind _ (getToken_empty _ s1 h1))

theorem parseValueLoop_fuel (fuel k : Nat) (parts : List Str) (s : St)
    (h : ¬ (parseValueLoop fuel parts s).stop) :
    parseValueLoop (fuel + k) parts s = parseValueLoop fuel parts s := by
  induction fuel generalizing parts s with
  | zero => exact absurd (Or.inr rfl) h
  | succ fuel ih =>
    rw [Nat.succ_add, parseValueLoop_succ]
    rw [parseValueLoop_succ] at h ⊢
    cases hp : parseValuePart s with
    | fail a s' => rfl
    | ok part s' =>
      rw [hp] at h
      simp only [Res.bind, vlCont] at h ⊢
      cases hg : getToken [.lit '#'] s' with
      | fail a s'' => rfl
      | ok o s'' =>
        rw [hg] at h
        cases o with
        | none => rfl
        | some t => exact ih _ _ h

theorem parseValue_bind (s : St) :
    parseValue s = (parseValueLoop (s.rest.length + 1) [] s).bind
      (fun parts s => .ok () { s with curValue := parts }) := by
  unfold parseValue
  cases parseValueLoop (s.rest.length + 1) [] s <;> rfl

theorem parseValue_empty (s : St) (h : s.rest = []) : (parseValue s).stop := by
  rw [parseValue_bind]; exact Res.stop_bind _ (parseValueLoop_empty _ _ s h)

theorem parseValue_T (T : Tr) (s : St) (hc : LC T (parseValue s)) :
    parseValue (T.app s) = (parseValue s).mapR T := by
  rw [parseValue_bind] at hc ⊢
  rw [parseValue_bind]
  exact bind_T (g := fun s => parseValueLoop (s.rest.length + 1) [] s)
    (fun h => fuel_T T (fun fuel s => parseValueLoop fuel [] s) 1 s
      (fun fuel k s h => parseValueLoop_fuel fuel k [] s h)
      (fun fuel s h => parseValueLoop_T T fuel [] s h) h)
    (fun _ _ _ _ => rfl) (fun x s1 h => EmptyOut.ok _ h) hc

def pfCont (o : Option (Pat × Str)) (s : St) : Res Unit :=
  match o with
  | none => .ok () s
  | some pn =>
    (required [.lit '='] (descOf [.lit '=']) { s with curFieldName := some pn.2 }).bind
      (fun _ s => parseValue s)

theorem parseField_bind (s : St) : parseField s = (getToken [.name] s).bind pfCont := by
  unfold parseField
  cases getToken [.name] s with
  | fail a s' => rfl
  | ok o s' =>
    cases o with
    | none => rfl
    | some pn =>
      obtain ⟨p, n⟩ := pn
      simp only [Res.bind, pfCont]
      cases required [.lit '='] (descOf [.lit '=']) { s' with curFieldName := some n } <;> rfl

theorem parseField_empty (s : St) (h : s.rest = []) : (parseField s).stop := by
  rw [parseField_bind]; exact Res.stop_bind _ (getToken_empty _ s h)

theorem parseField_T (T : Tr) (s : St) (hc : LC T (parseField s)) :
    parseField (T.app s) = (parseField s).mapR T := by
  rw [parseField_bind] at hc ⊢
  rw [parseField_bind]
  refine bind_T (g := getToken [.name]) (fun h => getToken_T T _ s (Or.inl h)) ?_ ?_ hc
  · intro o s1 _ h1
    cases o with
    | none => rfl
    | some pn =>
      exact bind_T (g := fun s => required [.lit '='] (descOf [.lit '=']) { s with curFieldName := some pn.2 })
        (fun h => required_T T _ _ _ (Or.inl h))
        (fun _ s2 _ h2 => parseValue_T T s2 h2) (fun _ s2 h2 => Or.inl (parseValue_empty s2 h2)) h1
  · intro o s1 h1
    cases o with
    | none => exact EmptyOut.ok _ h1
    | some pn => exact Or.inl (Res.stop_bind _ (required_empty _ _ _ h1))

/-- `parse_entry_fields`: a completed field is appended to `current_fields` -/
def efUpd (s : St) : St :=
  match s.curFieldName with
  | some n => if n ≠ [] ∧ s.curValue ≠ [] then { s with curFields := s.curFields ++ [(n, s.curValue)] } else s
  | none => s

theorem efUpd_rest (s : St) : (efUpd s).rest = s.rest := by
  unfold efUpd
  split
  · split <;> rfl
  · rfl

theorem efUpd_T (T : Tr) (s : St) : efUpd (T.app s) = T.app (efUpd s) := by
  obtain ⟨r, ln, m, db, er, st, un, ck, cf, cfn, cv, ro⟩ := s
  cases cfn with
  | none => rfl
  | some n =>
    by_cases h : n ≠ [] ∧ cv ≠ []
    · simp only [efUpd, if_pos h]
    · simp only [efUpd, if_neg h]

def efCont (fuel : Nat) (s : St) : Res Unit :=
  (getToken [.lit ','] (efUpd s)).bind (fun o s =>
    match o with
    | none => .ok () s
    | some _ => parseEntryFields fuel s)

theorem parseEntryFields_succ (fuel : Nat) (s : St) :
    parseEntryFields (fuel + 1) s =
      (parseField { s with curFieldName := none, curValue := [] }).bind (fun _ s => efCont fuel s) := by
  rw [parseEntryFields]
  cases parseField { s with curFieldName := none, curValue := [] } with
  | fail a s' => rfl
  | ok u s' =>
    simp only [Res.bind, efCont, efUpd]
    generalize getToken [Pat.lit ','] _ = r
    cases r with
    | fail a s'' => rfl
    | ok o s'' => cases o <;> rfl

theorem parseEntryFields_empty (fuel : Nat) (s : St) (h : s.rest = []) :
    (parseEntryFields fuel s).stop := by
  cases fuel with
  | zero => exact Or.inr rfl
  | succ fuel => rw [parseEntryFields_succ]; exact Res.stop_bind _ (parseField_empty _ h)

theorem parseEntryFields_T (T : Tr) (fuel : Nat) (s : St) (hc : LC T (parseEntryFields fuel s)) :
    parseEntryFields fuel (T.app s) = (parseEntryFields fuel s).mapR T := by
  induction fuel generalizing s with
  | zero => rfl
  | succ fuel ih =>
    rw [parseEntryFields_succ] at hc ⊢
    rw [parseEntryFields_succ]
    refine bind_T (g := fun s => parseField { s with curFieldName := none, curValue := [] })
      (fun h => parseField_T T _ h) ?_ ?_ hc
    · intro _ s1 _ h1
      unfold efCont at h1 ⊢
      rw [efUpd_T]
      refine bind_T (g := fun s => getToken [.lit ','] s) (s := efUpd s1)
        (fun h => getToken_T T _ _ (Or.inl h)) ?_ ?_ h1
      · intro o s2 _ h2
        cases o with
        | none => rfl
        | some t => exact ih _ h2
      · intro o s2 h2
        cases o with
        | none => exact EmptyOut.ok _ h2
        | some t => exact Or.inl (parseEntryFields_empty _ _ h2)
    · intro _ s1 h1
      exact Or.inl (Res.stop_bind _ (getToken_empty _ _ ((efUpd_rest s1).trans h1)))

theorem parseEntryFields_fuel (fuel k : Nat) (s : St) (h : ¬ (parseEntryFields fuel s).stop) :
    parseEntryFields (fuel + k) s = parseEntryFields fuel s := by
  induction fuel generalizing s with
  | zero => exact absurd (Or.inr rfl) h
  | succ fuel ih =>
    rw [Nat.succ_add, parseEntryFields_succ]
    rw [parseEntryFields_succ] at h ⊢
    cases hp : parseField { s with curFieldName := none, curValue := [] } with
    | fail a s' => rfl
    | ok u s' =>
      rw [hp] at h
      simp only [Res.bind, efCont] at h ⊢
      cases hg : getToken [.lit ','] (efUpd s') with
      | fail a s'' => rfl
      | ok o s'' =>
        rw [hg] at h
        cases o with
        | none => rfl
        | some t => exact ih _ h

def wantOrSkip (s : St) : Res Unit := if wantCurrent s then .ok () s else .fail .skip s

theorem wantOrSkip_T (T : Tr) (s : St) : wantOrSkip (T.app s) = (wantOrSkip s).mapR T := by
  unfold wantOrSkip
  have hw : wantCurrent (T.app s) = wantCurrent s := rfl
  rw [hw]
  cases wantCurrent s <;> rfl

theorem wantOrSkip_empty (s : St) (h : s.rest = []) : EmptyOut (wantOrSkip s) := by
  unfold wantOrSkip
  cases wantCurrent s
  · exact Or.inr ⟨h, fun h => h⟩
  · exact Or.inr ⟨h, fun h => h⟩

theorem parseEntryBody_bind (paren : Bool) (s : St) :
    parseEntryBody paren s =
      (required [if paren then .keyParen else .keyBrace] "entry key" s).bind (fun pk s =>
        (parseEntryFields (s.rest.length + 2) { s with curKey := some pk.2 }).bind
          (fun _ s => wantOrSkip s)) := by
  unfold parseEntryBody
  cases required [if paren then .keyParen else .keyBrace] "entry key" s with
  | fail a s' => rfl
  | ok pk s' =>
    obtain ⟨p, key⟩ := pk
    simp only [Res.bind]
    cases parseEntryFields (s'.rest.length + 2) { s' with curKey := some key } with
    | fail a s'' => rfl
    | ok u s'' => rfl

theorem parseEntryBody_empty (paren : Bool) (s : St) (h : s.rest = []) : (parseEntryBody paren s).stop := by
  rw [parseEntryBody_bind]; exact Res.stop_bind _ (required_empty _ _ s h)

theorem parseEntryBody_T (T : Tr) (paren : Bool) (s : St) (hc : LC T (parseEntryBody paren s)) :
    parseEntryBody paren (T.app s) = (parseEntryBody paren s).mapR T := by
  rw [parseEntryBody_bind] at hc ⊢
  rw [parseEntryBody_bind]
  refine bind_T (g := fun s => required [if paren then .keyParen else .keyBrace] "entry key" s)
    (fun h => required_T T _ _ s (Or.inl h)) ?_ ?_ hc
  · intro pk s1 _ h1
    refine bind_T (g := fun s => parseEntryFields (s.rest.length + 2) { s with curKey := some pk.2 })
      ?_ (fun _ s2 _ _ => wantOrSkip_T T s2) (fun _ s2 h2 => wantOrSkip_empty s2 h2) h1
    intro h
    exact fuel_T T (fun fuel s => parseEntryFields fuel { s with curKey := some pk.2 }) 2 s1
      (fun fuel k s h => parseEntryFields_fuel fuel k _ h)
      (fun fuel s h => parseEntryFields_T T fuel _ h) h
  · intro pk s1 h1
    exact Or.inl (Res.stop_bind _ (parseEntryFields_empty _ _ h1))

theorem parseStringBody_bind (s : St) :
    parseStringBody s =
      (required [.name] (descOf [.name]) s).bind (fun pn s =>
        (required [.lit '='] (descOf [.lit '=']) { s with curFieldName := some pn.2 }).bind (fun _ s =>
          (parseValue s).bind (fun _ s =>
            .ok () { s with macros := s.macros.setItem pn.2 s.curValue.flatten }))) := by
  unfold parseStringBody
  cases required [.name] (descOf [.name]) s with
  | fail a s' => rfl
  | ok pn s' =>
    obtain ⟨p, n⟩ := pn
    simp only [Res.bind]
    cases required [.lit '='] (descOf [.lit '=']) { s' with curFieldName := some n } with
    | fail a s'' => rfl
    | ok u s'' =>
      simp only
      cases parseValue s'' <;> rfl

theorem parseStringBody_empty (s : St) (h : s.rest = []) : (parseStringBody s).stop := by
  rw [parseStringBody_bind]; exact Res.stop_bind _ (required_empty _ _ s h)

theorem parseStringBody_T (T : Tr) (s : St) (hc : LC T (parseStringBody s)) :
    parseStringBody (T.app s) = (parseStringBody s).mapR T := by
  rw [parseStringBody_bind] at hc ⊢
  rw [parseStringBody_bind]
  refine bind_T (g := fun s => required [.name] (descOf [.name]) s)
    (fun h => required_T T _ _ s (Or.inl h)) ?_ ?_ hc
  · intro pn s1 _ h1
    refine bind_T (g := fun s => required [.lit '='] (descOf [.lit '=']) { s with curFieldName := some pn.2 })
      (fun h => required_T T _ _ _ (Or.inl h)) ?_ ?_ h1
    · intro _ s2 _ h2
      exact bind_T (g := parseValue) (fun h => parseValue_T T s2 h) (fun _ _ _ _ => rfl)
        (fun _ _ h => EmptyOut.ok _ h) h2
    · intro _ s2 h2
      exact Or.inl (Res.stop_bind _ (parseValue_empty s2 h2))
  · intro pn s1 h1
    exact Or.inl (Res.stop_bind _ (required_empty _ _ _ h1))

/-! ## §4 `SkipEntry` is raised only by `parse_command` (comment) and `parse_entry_body` (entry not
wanted), in both cases in front of an unread character -/

def NoSkip {α : Type} : Res α → Prop
  | .fail .skip _ => False
  | _ => True

theorem NoSkip.bind {α β : Type} {r : Res α} {h : α → St → Res β} (hr : NoSkip r)
    (hh : ∀ x s, NoSkip (h x s)) : NoSkip (r.bind h) := by
  cases r with
  | ok a s => exact hh a s
  | fail a s => cases a <;> first | exact hr | trivial

theorem getToken_noSkip (pats : List Pat) (s : St) : NoSkip (getToken pats s) := by
  unfold getToken
  simp only
  split
  · trivial
  · split <;> trivial

theorem getToken_none_rest {pats : List Pat} {s s' : St} (h : getToken pats s = .ok none s') :
    s'.rest ≠ [] := by
  unfold getToken at h
  simp only at h
  split at h
  · cases h
  · rename_i h0
    split at h
    · cases h; exact h0
    · cases h

theorem required_noSkip (pats : List Pat) (desc : String) (s : St) : NoSkip (required pats desc s) := by
  rw [required_bind]
  refine (getToken_noSkip pats s).bind ?_
  intro o s'; cases o <;> trivial

theorem strLoop_noSkip (fuel : Nat) (quoted : Bool) (d : Nat) (acc : Str) (s : St) :
    NoSkip (strLoop fuel quoted d acc s) := by
  induction fuel generalizing d acc s with
  | zero => trivial
  | succ fuel ih =>
    rw [strLoop_succ]
    split
    · trivial
    · unfold strTail
      split
      · split
        · trivial
        · exact ih _ _ _
      · split
        · split <;> trivial
        · exact ih _ _ _
      · trivial

theorem handleError_noSkip (s : St) (e : Err) : NoSkip (handleError s e) := by
  unfold handleError; split <;> trivial

theorem substituteMacro_noSkip (name : Str) (s : St) : NoSkip (substituteMacro name s) := by
  unfold substituteMacro
  split
  · trivial
  · split
    · have := handleError_noSkip s ⟨.undefinedMacro name, some s.ln⟩
      cases hr : handleError s ⟨.undefinedMacro name, some s.ln⟩ with
      | ok u s' => trivial
      | fail a s' => rw [hr] at this; cases a <;> first | exact this | trivial
    · trivial

theorem parseValuePart_noSkip (s : St) : NoSkip (parseValuePart s) := by
  rw [parseValuePart_bind]
  refine (required_noSkip _ _ s).bind ?_
  intro pv s'
  unfold vpCont
  split
  · exact (strLoop_noSkip _ _ _ _ _).bind (fun _ _ => trivial)
  · trivial
  · exact substituteMacro_noSkip _ _

theorem parseValueLoop_noSkip (fuel : Nat) (parts : List Str) (s : St) :
    NoSkip (parseValueLoop fuel parts s) := by
  induction fuel generalizing parts s with
  | zero => trivial
  | succ fuel ih =>
    rw [parseValueLoop_succ]
    refine (parseValuePart_noSkip s).bind ?_
    intro part s'
    refine (getToken_noSkip _ s').bind ?_
    intro o s''
    cases o with
    | none => trivial
    | some t => exact ih _ _

theorem parseValue_noSkip (s : St) : NoSkip (parseValue s) := by
  rw [parseValue_bind]
  exact (parseValueLoop_noSkip _ _ s).bind (fun _ _ => trivial)

theorem parseField_noSkip (s : St) : NoSkip (parseField s) := by
  rw [parseField_bind]
  refine (getToken_noSkip _ s).bind ?_
  intro o s'
  cases o with
  | none => trivial
  | some pn => exact (required_noSkip _ _ _).bind (fun _ s'' => parseValue_noSkip s'')

theorem parseEntryFields_noSkip (fuel : Nat) (s : St) : NoSkip (parseEntryFields fuel s) := by
  induction fuel generalizing s with
  | zero => trivial
  | succ fuel ih =>
    rw [parseEntryFields_succ]
    refine (parseField_noSkip _).bind ?_
    intro _ s'
    refine (getToken_noSkip _ _).bind ?_
    intro o s''
    cases o with
    | none => trivial
    | some t => exact ih _

theorem parseEntryFields_ok_rest (fuel : Nat) (s s' : St) (u : Unit)
    (h : parseEntryFields fuel s = .ok u s') : s'.rest ≠ [] := by
  induction fuel generalizing s with
  | zero => cases h
  | succ fuel ih =>
    rw [parseEntryFields_succ] at h
    cases hp : parseField { s with curFieldName := none, curValue := [] } with
    | fail a s1 => rw [hp] at h; cases h
    | ok u1 s1 =>
      rw [hp] at h
      simp only [Res.bind, efCont] at h
      cases hg : getToken [.lit ','] (efUpd s1) with
      | fail a s2 => rw [hg] at h; cases h
      | ok o s2 =>
        rw [hg] at h
        cases o with
        | none =>
          simp only at h
          cases h
          exact getToken_none_rest hg
        | some t => exact ih _ h

theorem parseStringBody_noSkip (s : St) : NoSkip (parseStringBody s) := by
  rw [parseStringBody_bind]
  refine (required_noSkip _ _ s).bind ?_
  intro pn s1
  refine (required_noSkip _ _ _).bind ?_
  intro _ s2
  exact (parseValue_noSkip s2).bind (fun _ _ => trivial)

/-- a `SkipEntry` out of `parse_entry_body` is raised in front of an unread character -/
theorem parseEntryBody_skip_rest (paren : Bool) (s s' : St) (h : parseEntryBody paren s = .fail .skip s') :
    s'.rest ≠ [] := by
  rw [parseEntryBody_bind] at h
  cases hr : required [if paren then .keyParen else .keyBrace] "entry key" s with
  | fail a s1 =>
    have := required_noSkip [if paren then .keyParen else .keyBrace] "entry key" s
    rw [hr] at h this
    cases h
    exact this.elim
  | ok pk s1 =>
    rw [hr] at h
    simp only [Res.bind] at h
    cases hf : parseEntryFields (s1.rest.length + 2) { s1 with curKey := some pk.2 } with
    | fail a s2 =>
      have := parseEntryFields_noSkip (s1.rest.length + 2) { s1 with curKey := some pk.2 }
      rw [hf] at h this
      cases h
      exact this.elim
    | ok u s2 =>
      rw [hf] at h
      have h2 := parseEntryFields_ok_rest _ _ _ _ hf
      simp only [wantOrSkip] at h
      split at h
      · cases h
      · cases h; exact h2

/-! ## §5 `parse_command` -/

def cmdKind (cl : Str) : CmdKind :=
  if cl = "string".toList then .string else if cl = "preamble".toList then .preamble else .entry

def cmdBody (kind : CmdKind) (paren : Bool) (s : St) : Res Unit :=
  match kind with
  | .string => parseStringBody s
  | .preamble => parseValue s
  | .entry => parseEntryBody paren s

def cmdMk (kind : CmdKind) (command : Str) (s : St) : Cmd :=
  match kind with
  | .string => Cmd.string
  | .preamble => Cmd.preamble s.curValue
  | .entry => Cmd.entry command s.curKey s.curFields

def afterBody (body : Res Unit) (bodyEnd : Pat) : Res Unit :=
  body.bind (fun _ s => (required [bodyEnd] (descOf [bodyEnd]) s).bind (fun _ s => .ok () s))

/-- the `except PybtexSyntaxError: handle_error` of `parse_command` and `make_result()` -/
def finish (ab : Res Unit) (mk : St → Cmd) : Res Cmd :=
  match ab with
  | .ok _ s => .ok (mk s) s
  | .fail (.syn e) s =>
    match handleError s e with
    | .fail a s => .fail a s
    | .ok _ s => .ok (mk s) s
  | .fail a s => .fail a s

def cmdTail (command : Str) (open_ : Pat) (s : St) : Res Cmd :=
  if lower command = "comment".toList then .fail .skip s
  else
    finish (afterBody (cmdBody (cmdKind (lower command)) (decide (open_ = .lit '(')) s)
        (if decide (open_ = .lit '(') then .lit ')' else .lit '}'))
      (cmdMk (cmdKind (lower command)) command)

@[reducible] def clr (s : St) : St :=
  { s with curKey := none, curFields := [], curFieldName := none, curValue := [] }

/-- the text of `parseCommand` behind the two `required` -/
def cmdTail0 (command : Str) (open_ : Pat) (s : St) : Res Cmd :=
  let paren := decide (open_ = .lit '(')
  let bodyEnd : Pat := if paren then .lit ')' else .lit '}'
  let cl := lower command
  if cl = "comment".toList then .fail .skip s
  else
    let kind : CmdKind := if cl = "string".toList then .string else if cl = "preamble".toList then .preamble else .entry
    let body : Res Unit :=
      match kind with
      | .string => parseStringBody s
      | .preamble => parseValue s
      | .entry => parseEntryBody paren s
    let afterBody : Res Unit :=
      match body with
      | .fail e s => .fail e s
      | .ok _ s =>
        match required [bodyEnd] (descOf [bodyEnd]) s with
        | .fail e s => .fail e s
        | .ok _ s => .ok () s
    let mk := fun (s : St) => match kind with
      | .string => Cmd.string
      | .preamble => Cmd.preamble s.curValue
      | .entry => Cmd.entry command s.curKey s.curFields
    match afterBody with
    | .ok _ s => .ok (mk s) s
    | .fail (.syn e) s =>
      match handleError s e with
      | .fail a s => .fail a s
      | .ok _ s => .ok (mk s) s
    | .fail a s => .fail a s

theorem cmdTail0_eq (command : Str) (open_ : Pat) (s : St) :
    cmdTail0 command open_ s = cmdTail command open_ s := by
  unfold cmdTail0 cmdTail
  simp only
  split
  · rfl
  · simp only [cmdKind]
    generalize (if lower command = "string".toList then CmdKind.string
      else if lower command = "preamble".toList then CmdKind.preamble else CmdKind.entry) = kind
    cases kind with
    | string =>
      simp only [cmdBody, cmdMk, afterBody, finish, Res.bind]
      generalize parseStringBody s = body
      cases body with
      | fail a s1 => cases a <;> rfl
      | ok u s1 =>
        simp only
        generalize required _ _ s1 = r
        cases r with
        | fail a s2 => cases a <;> rfl
        | ok u2 s2 => rfl
    | preamble =>
      simp only [cmdBody, cmdMk, afterBody, finish, Res.bind]
      generalize parseValue s = body
      cases body with
      | fail a s1 => cases a <;> rfl
      | ok u s1 =>
        simp only
        generalize required _ _ s1 = r
        cases r with
        | fail a s2 => cases a <;> rfl
        | ok u2 s2 => rfl
    | entry =>
      simp only [cmdBody, cmdMk, afterBody, finish, Res.bind]
      generalize parseEntryBody _ s = body
      cases body with
      | fail a s1 => cases a <;> rfl
      | ok u s1 =>
        simp only
        generalize required _ _ s1 = r
        cases r with
        | fail a s2 => cases a <;> rfl
        | ok u2 s2 => rfl

theorem parseCommand_eq (s : St) :
    parseCommand s =
      (required [.name] (descOf [.name]) (clr s)).bind (fun pc s1 =>
        (required [.lit '(', .lit '{'] (descOf [.lit '(', .lit '{']) s1).bind (fun po s2 =>
          cmdTail pc.2 po.1 s2)) := by
  unfold parseCommand
  simp only
  cases required [.name] (descOf [.name]) (clr s) with
  | fail a s1 => rfl
  | ok pc s1 =>
    obtain ⟨p, command⟩ := pc
    simp only [Res.bind]
    cases required [.lit '(', .lit '{'] (descOf [.lit '(', .lit '{']) s1 with
    | fail a s2 => rfl
    | ok po s2 =>
      obtain ⟨open_, v⟩ := po
      simp only
      rw [← cmdTail0_eq]
      rfl

def Res.raisedP {α : Type} : Res α → Prop
  | .fail (.raised _) _ => True
  | _ => False

/-- when does a run of `parse_command` carry over to the changed context: nothing was appended to
the text, or it neither raised nor reported `PrematureEOF` (nor ran out of fuel), and an error
that left it in strict mode was raised in front of an unread character -/
def CmdLC {α : Type} (T : Tr) (r : Res α) : Prop :=
  T.c = [] ∨ (¬ r.stop ∧ (∀ e ∈ r.st.errs, ¬ stopKind e.kind) ∧ (r.raisedP → r.st.rest ≠ []))

theorem cmdBody_empty (kind : CmdKind) (paren : Bool) (s : St) (h : s.rest = []) :
    (cmdBody kind paren s).stop := by
  cases kind
  · exact parseStringBody_empty s h
  · exact parseValue_empty s h
  · exact parseEntryBody_empty paren s h

theorem cmdBody_T (T : Tr) (kind : CmdKind) (paren : Bool) (s : St) (hc : LC T (cmdBody kind paren s)) :
    cmdBody kind paren (T.app s) = (cmdBody kind paren s).mapR T := by
  cases kind
  · exact parseStringBody_T T s hc
  · exact parseValue_T T s hc
  · exact parseEntryBody_T T paren s hc

theorem cmdBody_skip_rest (kind : CmdKind) (paren : Bool) (s s' : St)
    (h : cmdBody kind paren s = .fail .skip s') : s'.rest ≠ [] := by
  cases kind with
  | string => have := parseStringBody_noSkip s; simp only [cmdBody] at h; rw [h] at this; exact this.elim
  | preamble => have := parseValue_noSkip s; simp only [cmdBody] at h; rw [h] at this; exact this.elim
  | entry => exact parseEntryBody_skip_rest paren s s' h

theorem LC.of_ok {α : Type} {T : Tr} {a : α} {s : St} (h : T.c = [] ∨ s.rest ≠ []) : LC T (Res.ok a s) :=
  h.imp id (fun h => ⟨fun h => h, Or.inl h⟩)

theorem afterBody_T (T : Tr) (kind : CmdKind) (paren : Bool) (bodyEnd : Pat) (s : St)
    (hbe : bodyEnd.isLit)
    (hc : LC T (afterBody (cmdBody kind paren s) bodyEnd) ∨
      ∃ s4, afterBody (cmdBody kind paren s) bodyEnd = .ok () s4) :
    afterBody (cmdBody kind paren (T.app s)) bodyEnd = (afterBody (cmdBody kind paren s) bodyEnd).mapR T := by
  have hl : ∀ q ∈ [bodyEnd], q.isLit := by
    intro q hq; simp only [List.mem_singleton] at hq; subst hq; exact hbe
  unfold afterBody at hc ⊢
  cases hb : cmdBody kind paren s with
  | fail a s' =>
    rw [hb] at hc
    rcases hc with hc | ⟨s4, hc⟩
    · rw [cmdBody_T T kind paren s (by rw [hb]; exact hc.fail_cast), hb]; rfl
    · cases hc
  | ok u s3 =>
    rw [hb] at hc
    simp only [Res.bind] at hc
    cases hr : required [bodyEnd] (descOf [bodyEnd]) s3 with
    | fail a s' =>
      rw [hr] at hc
      rcases hc with hc | ⟨s4, hc⟩
      · have h3 : T.c = [] ∨ s3.rest ≠ [] := by
          rcases hc with hc | hc
          · exact Or.inl hc
          · right; intro he
            have := required_empty [bodyEnd] (descOf [bodyEnd]) s3 he
            rw [hr] at this
            apply hc.1
            cases a <;> exact this
        rw [cmdBody_T T kind paren s (by rw [hb]; exact LC.of_ok h3), hb]
        simp only [Res.mapR, Res.bind]
        rw [required_T T _ _ s3 (Or.inl (by rw [hr]; exact hc.fail_cast)), hr]
        rfl
      · cases hc
    | ok x s4 =>
      have h3 : s3.rest ≠ [] := by
        intro he
        have := required_empty [bodyEnd] (descOf [bodyEnd]) s3 he
        rw [hr] at this
        exact this
      rw [cmdBody_T T kind paren s (by rw [hb]; exact LC.of_ok (Or.inr h3)), hb]
      simp only [Res.mapR, Res.bind]
      rw [required_T T _ _ s3 (Or.inr ⟨hl, by rw [hr]; exact fun h => h⟩), hr]
      rfl

theorem finish_T (T : Tr) (ab : Res Unit) (mk : St → Cmd) (hmk : ∀ s, mk (T.app s) = mk s) :
    finish (ab.mapR T) mk = (finish ab mk).mapR T := by
  cases ab with
  | ok u s => simp only [Res.mapR, finish, hmk]
  | fail a s =>
    cases a with
    | syn e =>
      simp only [Res.mapR, finish, Tr.ab]
      rw [handleError_T]
      cases handleError s e with
      | ok u s' => simp only [Res.mapR, hmk]
      | fail a s' => rfl
    | skip => rfl
    | raised e => rfl

theorem cmdMk_T (T : Tr) (kind : CmdKind) (command : Str) (s : St) :
    cmdMk kind command (T.app s) = cmdMk kind command s := by
  cases kind <;> rfl

theorem cmdTail_T (T : Tr) (command : Str) (open_ : Pat) (s : St)
    (hc : CmdLC T (cmdTail command open_ s)) :
    cmdTail command open_ (T.app s) = (cmdTail command open_ s).mapR T := by
  unfold cmdTail at hc ⊢
  split
  · rfl
  · rename_i hcm
    rw [if_neg hcm] at hc
    have hbe : (if decide (open_ = .lit '(') then Pat.lit ')' else Pat.lit '}').isLit := by
      split <;> trivial
    rw [afterBody_T T _ _ _ s hbe, finish_T T _ _ (cmdMk_T T _ _)]
    rcases hc with hc | ⟨hns, herr, hra⟩
    · exact Or.inl (Or.inl hc)
    · generalize hab : afterBody (cmdBody (cmdKind (lower command)) (decide (open_ = .lit '(')) s)
        (if decide (open_ = .lit '(') then Pat.lit ')' else Pat.lit '}') = ab at hns herr hra
      cases ab with
      | ok u s4 => cases u; exact Or.inr ⟨s4, rfl⟩
      | fail a s' =>
        left; right
        cases a with
        | syn e =>
          refine ⟨?_, Or.inr trivial⟩
          show ¬ stopKind e.kind
          simp only [finish, handleError] at hns herr
          cases hst : s'.strict with
          | true =>
            rw [hst] at hns
            simp only [↓reduceIte] at hns
            exact hns
          | false =>
            rw [hst] at herr
            simp only [Bool.false_eq_true, ↓reduceIte] at herr
            exact herr e (by simp [Res.st])
        | skip =>
          refine ⟨fun h => h, Or.inl ?_⟩
          unfold afterBody at hab
          cases hb : cmdBody (cmdKind (lower command)) (decide (open_ = .lit '(')) s with
          | fail a s1 =>
            rw [hb] at hab
            simp only [Res.bind] at hab
            cases hab
            exact cmdBody_skip_rest _ _ _ _ hb
          | ok u s1 =>
            rw [hb] at hab
            simp only [Res.bind] at hab
            have := required_noSkip [if decide (open_ = .lit '(') then Pat.lit ')' else Pat.lit '}']
              (descOf [if decide (open_ = .lit '(') then Pat.lit ')' else Pat.lit '}']) s1
            cases hr : required [if decide (open_ = .lit '(') then Pat.lit ')' else Pat.lit '}']
              (descOf [if decide (open_ = .lit '(') then Pat.lit ')' else Pat.lit '}']) s1 with
            | fail a s2 =>
              rw [hr] at hab this
              cases hab
              exact this.elim
            | ok x s2 => rw [hr] at hab; cases hab
        | raised e => exact ⟨hns, Or.inl (hra trivial)⟩

theorem parseCommand_T (T : Tr) (s : St) (hc : CmdLC T (parseCommand s)) :
    parseCommand (T.app s) = (parseCommand s).mapR T := by
  rw [parseCommand_eq] at hc ⊢
  rw [parseCommand_eq]
  have hclr : clr (T.app s) = T.app (clr s) := rfl
  rw [hclr]
  have hl : ∀ q ∈ [Pat.lit '(', Pat.lit '{'], q.isLit := by
    intro q hq
    simp only [List.mem_cons, List.not_mem_nil, or_false] at hq
    rcases hq with rfl | rfl <;> trivial
  -- a failure of one of the two `required` is the result of `parseCommand`
  have hfail : ∀ {β : Type} (a : Abort) (s' : St) (r : Res β), r = .fail a s' → NoSkip r →
      CmdLC T (Res.fail a s' : Res Cmd) → LC T r := by
    intro β a s' r hr hsk hc
    subst hr
    rcases hc with hc | ⟨hns, _, hra⟩
    · exact Or.inl hc
    · right
      cases a with
      | syn e => exact ⟨hns, Or.inr trivial⟩
      | skip => exact hsk.elim
      | raised e => exact ⟨hns, Or.inl (hra trivial)⟩
  cases h1 : required [.name] (descOf [.name]) (clr s) with
  | fail a s1 =>
    rw [h1] at hc
    rw [required_T T _ _ _ (Or.inl (hfail a s1 _ h1 (required_noSkip _ _ _) hc)), h1]
    rfl
  | ok pc s1 =>
    rw [h1] at hc
    simp only [Res.bind] at hc
    cases h2 : required [.lit '(', .lit '{'] (descOf [.lit '(', .lit '{']) s1 with
    | fail a s2 =>
      rw [h2] at hc
      have hl2 := hfail a s2 _ h2 (required_noSkip _ _ _) hc
      have h1r : T.c = [] ∨ s1.rest ≠ [] := by
        rcases hl2 with hl2 | hl2
        · exact Or.inl hl2
        · right; intro he
          have := required_empty [.lit '(', .lit '{'] (descOf [.lit '(', .lit '{']) s1 he
          exact hl2.1 this
      rw [required_T T _ _ _ (Or.inl (by rw [h1]; exact LC.of_ok h1r)), h1]
      simp only [Res.mapR, Res.bind]
      rw [required_T T _ _ _ (Or.inl hl2), h2]
      rfl
    | ok po s2 =>
      rw [h2] at hc
      simp only at hc
      have h1r : s1.rest ≠ [] := by
        intro he
        have := required_empty [.lit '(', .lit '{'] (descOf [.lit '(', .lit '{']) s1 he
        rw [h2] at this
        exact this
      rw [required_T T _ _ _ (Or.inl (by rw [h1]; exact LC.of_ok (Or.inr h1r))), h1]
      simp only [Res.mapR, Res.bind]
      rw [required_T T _ _ _ (Or.inr ⟨hl, by rw [h2]; exact fun h => h⟩), h2]
      simp only [Res.mapR]
      exact cmdTail_T T _ _ s2 hc

/-! ## §6 processing a command -/

theorem handleError_T_data (T : Tr) (s : St) (k : ErrKind) :
    handleError (T.app s) ⟨k, none⟩ = (handleError s ⟨k, none⟩).mapR T :=
  handleError_T T s ⟨k, none⟩

theorem addPersons_T (T : Tr) (role : Str) (ns : List Str) (e : Entry) (s : St) :
    addPersons role ns e (T.app s) = (addPersons role ns e s).mapR T := by
  induction ns generalizing e s with
  | nil => rfl
  | cons n ns ih =>
    unfold addPersons
    cases mkPerson n [] [] [] [] [] with
    | error x => rfl
    | ok pt =>
      obtain ⟨p, tooMany⟩ := pt
      simp only
      cases tooMany with
      | false => simp only [Bool.false_eq_true, ↓reduceIte]; exact ih _ s
      | true =>
        simp only [↓reduceIte]
        rw [handleError_T_data]
        cases handleError s ⟨.invalidName (strip n), none⟩ with
        | fail a s' => rfl
        | ok u s' => simp only [Res.mapR]; exact ih _ s'

theorem processFields_T (T : Tr) (key : Str) (fs : List (Str × List Str)) (seen : List Str) (e : Entry) (s : St) :
    processFields key fs seen e (T.app s) = (processFields key fs seen e s).mapR T := by
  induction fs generalizing seen e s with
  | nil => rfl
  | cons f fs ih =>
    obtain ⟨name, parts⟩ := f
    unfold processFields
    split
    · rw [handleError_T_data]
      cases handleError s ⟨.duplicateField key name, none⟩ with
      | fail a s' => rfl
      | ok u s' => simp only [Res.mapR]; exact ih _ _ s'
    · simp only
      have hr : (T.app s).roles = s.roles := rfl
      rw [hr]
      split
      · rw [addPersons_T]
        cases addPersons name (splitNameList (normalizeWs parts.flatten)) e s with
        | fail a s' => rfl
        | ok e' s' => simp only [Res.mapR]; exact ih _ _ s'
      · exact ih _ _ s

def errRep (key : Str) : Err := ⟨.repeatedEntry key, none⟩

/-- the inserted entries block `key` -/
def Tr.blocks (T : Tr) (key : Str) : Bool := T.l.any fun e => keyFold e.key = keyFold key

/-- the run that produced `r` did not report (behind position `m` of the problem list) or raise a
repeated-entry error for a key of the inserted entries -/
def NoClashR {α : Type} (T : Tr) (m : Nat) (r : Res α) : Prop :=
  ∀ key, T.blocks key = true → errRep key ∉ r.st.errs.drop m ∧ ∀ s', r ≠ .fail (.raised (errRep key)) s'

theorem hasEntry_T (T : Tr) (db : Db) (key : Str) :
    hasEntry (T.db db) key = (hasEntry db key || T.blocks key) := by
  unfold hasEntry Tr.blocks
  show (db.entries.take T.n ++ T.l ++ db.entries.drop T.n).any _ = _
  have : db.entries.any (fun e => decide (keyFold e.key = keyFold key)) =
      ((db.entries.take T.n).any (fun e => decide (keyFold e.key = keyFold key)) ||
       (db.entries.drop T.n).any (fun e => decide (keyFold e.key = keyFold key))) := by
    rw [← List.any_append, List.take_append_drop]
  rw [this, List.any_append, List.any_append]
  cases (db.entries.take T.n).any (fun e => decide (keyFold e.key = keyFold key)) <;>
    cases (db.entries.drop T.n).any (fun e => decide (keyFold e.key = keyFold key)) <;>
    cases T.l.any (fun e => decide (keyFold e.key = keyFold key)) <;> rfl

theorem T_addEntry (T : Tr) (db : Db) (e : Entry) (hn : T.n ≤ db.entries.length) :
    T.db { db with entries := db.entries ++ [e] } = { T.db db with entries := (T.db db).entries ++ [e] } := by
  show ({ db with entries := (db.entries ++ [e]).take T.n ++ T.l ++ (db.entries ++ [e]).drop T.n,
                  preamble := T.Pr ++ db.preamble } : Db) =
    { db with entries := db.entries.take T.n ++ T.l ++ db.entries.drop T.n ++ [e], preamble := T.Pr ++ db.preamble }
  rw [List.take_append_of_le_length hn, List.drop_append_of_le_length hn]
  simp only [List.append_assoc]

theorem mem_drop_append_last {α : Type} (l : List α) (x : α) (m : Nat) (h : m ≤ l.length) :
    x ∈ (l ++ [x]).drop m := by
  rw [List.drop_append_of_le_length h]
  simp

theorem addEntry_T (T : Tr) (m : Nat) (s : St) (key : Str) (e : Entry)
    (hn : T.n ≤ s.db.entries.length) (hm : m ≤ (T.app s).errs.length)
    (hk : NoClashR T m (addEntry (T.app s) key e)) :
    addEntry (T.app s) key e = (addEntry s key e).mapR T := by
  unfold addEntry at hk ⊢
  have hw : wantEntry (T.app s).db key = wantEntry s.db key := rfl
  have hh : hasEntry (T.app s).db key = (hasEntry s.db key || T.blocks key) := hasEntry_T T s.db key
  rw [hw, hh] at hk ⊢
  cases hwk : wantEntry s.db key with
  | false => rfl
  | true =>
    rw [hwk] at hk
    simp only [Bool.not_true, Bool.false_eq_true, ↓reduceIte] at hk ⊢
    cases hhe : hasEntry s.db key with
    | true =>
      simp only [Bool.true_or, ↓reduceIte]
      exact handleError_T_data T s _
    | false =>
      rw [hhe] at hk
      simp only [Bool.false_or] at hk ⊢
      cases hb : T.blocks key with
      | true =>
        exfalso
        rw [hb] at hk
        simp only [↓reduceIte] at hk
        obtain ⟨h1, h2⟩ := hk key hb
        unfold handleError at h1 h2
        cases hst : (T.app s).strict with
        | true =>
          rw [hst] at h2
          simp only [↓reduceIte] at h2
          exact h2 _ rfl
        | false =>
          rw [hst] at h1
          simp only [Bool.false_eq_true, ↓reduceIte, Res.st] at h1
          exact h1 (mem_drop_append_last _ _ m hm)
      | false =>
        simp only [Bool.false_eq_true, ↓reduceIte]
        have hck : canonicalKey (T.app s).db key = canonicalKey s.db key := rfl
        rw [hck]
        simp only [Res.mapR]
        congr 1
        apply St.ext' <;> try rfl
        show (match findFieldCI e.fields "crossref".toList, (T.db s.db).wanted with
          | some cr, some w => _
          | _, _ => _) = T.db (match findFieldCI e.fields "crossref".toList, s.db.wanted with
          | some cr, some w => _
          | _, _ => _)
        have hwd : (T.db s.db).wanted = s.db.wanted := rfl
        rw [hwd]
        split <;>
          simp only [Tr.db, List.take_append_of_le_length hn, List.drop_append_of_le_length hn,
            List.append_assoc]

theorem T_errs_len (T : Tr) (s : St) : (T.app s).errs.length = T.R.length + s.errs.length := by
  show (T.R ++ s.errs.map (shiftErr T.k)).length = _
  simp

theorem processEntry_aux {N : Nat} (T : Tr) (m : Nat) (key : Str) (fields : List (Str × List Str))
    (e0 : Entry) (s : St) (hI : Inv N s)
    (hn : T.n ≤ s.db.entries.length) (hm : m ≤ (T.app s).errs.length)
    (hk : NoClashR T m ((processFields key fields [] e0 (T.app s)).bind (fun e s => addEntry s key e))) :
    (processFields key fields [] e0 (T.app s)).bind (fun e s => addEntry s key e) =
      ((processFields key fields [] e0 s).bind (fun e s => addEntry s key e)).mapR T := by
  rw [processFields_T] at hk ⊢
  have hg := processFields_good key fields [] e0 s hI
  have hdb := processFields_db key fields [] e0 s
  cases hpf : processFields key fields [] e0 s with
  | fail a s' => rfl
  | ok e s3 =>
    rw [hpf] at hk hg hdb
    simp only [Res.mapR, Res.bind] at hk ⊢
    apply addEntry_T T m s3 key e
    · have : s3.db = s.db := hdb
      rw [this]; exact hn
    · have h1 : s.errs.length ≤ s3.errs.length := hg.2.2.2.2.1.length_le
      rw [T_errs_len] at hm ⊢
      omega
    · exact hk

theorem processEntry_bind (type : Str) (key : Option Str) (fields : List (Str × List Str)) (s : St) :
    processEntry type key fields s =
      match key with
      | some k =>
        (processFields k fields [] { key := k, type := lower type, origType := type, fields := [], persons := [] } s).bind
          (fun e s => addEntry s k e)
      | none =>
        (processFields ("unnamed-".toList ++ natToStr s.unnamed) fields []
          { key := "unnamed-".toList ++ natToStr s.unnamed, type := lower type, origType := type, fields := [], persons := [] }
          { s with unnamed := s.unnamed + 1 }).bind
          (fun e s' => addEntry s' ("unnamed-".toList ++ natToStr s.unnamed) e) := by
  unfold processEntry
  cases key with
  | some k =>
    simp only
    cases processFields k fields [] { key := k, type := lower type, origType := type, fields := [], persons := [] } s <;> rfl
  | none =>
    simp only
    cases processFields ("unnamed-".toList ++ natToStr s.unnamed) fields []
      { key := "unnamed-".toList ++ natToStr s.unnamed, type := lower type, origType := type, fields := [], persons := [] }
      { s with unnamed := s.unnamed + 1 } <;> rfl

theorem processEntry_T {N : Nat} (T : Tr) (m : Nat) (type : Str) (key : Option Str)
    (fields : List (Str × List Str)) (s : St) (hI : Inv N s)
    (hn : T.n ≤ s.db.entries.length) (hm : m ≤ (T.app s).errs.length)
    (hk : NoClashR T m (processEntry type key fields (T.app s))) :
    processEntry type key fields (T.app s) = (processEntry type key fields s).mapR T := by
  rw [processEntry_bind] at hk ⊢
  rw [processEntry_bind]
  cases key with
  | some k => exact processEntry_aux T m k fields _ s hI hn hm hk
  | none =>
    exact processEntry_aux T m _ fields _ { s with unnamed := s.unnamed + 1 } hI hn hm hk

theorem processCmd_T {N : Nat} (T : Tr) (m : Nat) (c : Cmd) (s : St) (hI : Inv N s)
    (hn : T.n ≤ s.db.entries.length) (hm : m ≤ (T.app s).errs.length)
    (hk : NoClashR T m (processCmd c (T.app s))) :
    processCmd c (T.app s) = (processCmd c s).mapR T := by
  cases c with
  | string => rfl
  | preamble v =>
    simp only [processCmd, Res.mapR]
    congr 1
    apply St.ext' <;> try rfl
    show ({ T.db s.db with preamble := (T.db s.db).preamble ++ [normalizeWs v.flatten] } : Db) =
      T.db { s.db with preamble := s.db.preamble ++ [normalizeWs v.flatten] }
    simp only [Tr.db, List.append_assoc]
  | entry t k fs => exact processEntry_T T m t k fs s hI hn hm hk

/-! ## §7 one round of the command loop -/

abbrev Step := (St × Option Err) ⊕ St

def Step.st : Step → St
  | .inl (s, _) => s
  | .inr s => s

def Step.err : Step → Option Err
  | .inl (_, o) => o
  | .inr _ => none

def Step.mapT (T : Tr) : Step → Step
  | .inl (s, o) => .inl (T.app s, o.map (shiftErr T.k))
  | .inr s => .inr (T.app s)

/-- a round behind the `@` -/
def cmdStep (s : St) : Step :=
  match parseCommand s with
  | .ok c s =>
    match processCmd c s with
    | .ok _ s => .inr s
    | .fail (.raised e) s => .inl (s, some e)
    | .fail (.syn e) s => .inl (s, some e)
    | .fail .skip s => .inr s
  | .fail (.syn e) s =>
    match handleError s e with
    | .ok _ s => .inr s
    | .fail (.raised e) s => .inl (s, some e)
    | .fail _ s => .inl (s, some e)
  | .fail .skip s => .inr s
  | .fail (.raised e) s => .inl (s, some e)

theorem loopStep_eq (s : St) :
    loopStep s =
      match skipToChar (· = '@') s.rest with
      | none => .inl (s, none)
      | some (chunk, rest) => cmdStep { s with rest := rest, ln := s.ln + countNl chunk } := rfl

/-- the round neither reported nor raised `PrematureEOF` (nor ran out of fuel); if it raised an
error, then in front of an unread character -/
def StepOK (r : Step) : Prop :=
  (∀ e ∈ r.st.errs, ¬ stopKind e.kind) ∧ (∀ e, r.err = some e → ¬ stopKind e.kind ∧ r.st.rest ≠ [])

def NoClashS (T : Tr) (m : Nat) (r : Step) : Prop :=
  ∀ key, T.blocks key = true → errRep key ∉ r.st.errs.drop m ∧ r.err ≠ some (errRep key)

theorem cmdStep_lc {N : Nat} (T : Tr) (s : St) (hI : Inv N s) (hc : T.c = [] ∨ StepOK (cmdStep s)) :
    CmdLC T (parseCommand s) := by
  rcases hc with hc | ⟨herr, hra⟩
  · exact Or.inl hc
  · right
    have hg := parseCommand_good hI
    unfold cmdStep at herr hra
    cases hp : parseCommand s with
    | ok c s2 =>
      rw [hp] at herr hra hg
      refine ⟨fun h => h, ?_, fun h => h.elim⟩
      intro e he
      apply herr e
      have hg2 := processCmd_good c s2 hg.1
      simp only at herr ⊢
      cases hq : processCmd c s2 with
      | ok u s3 => rw [hq] at hg2; exact hg2.2.2.2.2.1.subset he
      | fail a s3 =>
        rw [hq] at hg2
        cases a <;> exact hg2.2.1.2.2.2.1.subset he
    | fail a s2 =>
      rw [hp] at herr hra
      cases a with
      | syn e =>
        simp only [handleError] at herr hra
        cases hst : s2.strict with
        | true =>
          rw [hst] at herr hra
          simp only [↓reduceIte] at herr hra
          exact ⟨(hra e rfl).1, herr, fun h => h.elim⟩
        | false =>
          rw [hst] at herr
          simp only [Bool.false_eq_true, ↓reduceIte, Step.st] at herr
          exact ⟨herr e (by simp), fun e' he' => herr e' (List.mem_append_left _ he'), fun h => h.elim⟩
      | skip => exact ⟨fun h => h, herr, fun h => h.elim⟩
      | raised e => exact ⟨(hra e rfl).1, herr, fun _ => (hra e rfl).2⟩

theorem cmdStep_T {N : Nat} (T : Tr) (m : Nat) (s : St) (hI : Inv N s)
    (hn : T.n ≤ s.db.entries.length) (hm : m ≤ (T.app s).errs.length)
    (hc : T.c = [] ∨ StepOK (cmdStep s)) (hk : NoClashS T m (cmdStep (T.app s))) :
    cmdStep (T.app s) = (cmdStep s).mapT T := by
  have hpc := parseCommand_T T s (cmdStep_lc T s hI hc)
  have hg := parseCommand_good hI
  have hdb := parseCommand_db s
  unfold cmdStep at hk ⊢
  rw [hpc] at hk ⊢
  cases hp : parseCommand s with
  | ok c s2 =>
    rw [hp] at hk hg hdb
    simp only [Res.mapR] at hk ⊢
    have hk2 : NoClashR T m (processCmd c (T.app s2)) := by
      intro key hb
      obtain ⟨h1, h2⟩ := hk key hb
      revert h1 h2
      cases processCmd c (T.app s2) with
      | ok u s3 => intro h1 _; exact ⟨h1, fun s' h => by cases h⟩
      | fail a s3 =>
        cases a with
        | syn e => intro h1 _; exact ⟨h1, fun s' h => by cases h⟩
        | skip => intro h1 _; exact ⟨h1, fun s' h => by cases h⟩
        | raised e =>
          intro h1 h2
          refine ⟨h1, fun s' h => ?_⟩
          cases h
          exact h2 rfl
    have hn2 : T.n ≤ s2.db.entries.length := by
      have : s2.db = s.db := hdb
      rw [this]; exact hn
    have hm2 : m ≤ (T.app s2).errs.length := by
      have h1 : s.errs.length ≤ s2.errs.length := hg.2.2.2.2.1.length_le
      rw [T_errs_len] at hm ⊢
      omega
    rw [processCmd_T T m c s2 hg.1 hn2 hm2 hk2]
    cases processCmd c s2 with
    | ok u s3 => rfl
    | fail a s3 => cases a <;> rfl
  | fail a s2 =>
    cases a with
    | syn e =>
      simp only [Res.mapR, Tr.ab]
      rw [handleError_T]
      cases handleError s2 e with
      | ok u s3 => rfl
      | fail a s3 => cases a <;> rfl
    | skip => rfl
    | raised e => rfl

/-- the condition under which a whole round carries over: nothing appended to the text, or the
round found an `@` and did not run into the end of the text -/
def RoundLC (T : Tr) (s : St) : Prop := T.c = [] ∨ ('@' ∈ s.rest ∧ StepOK (loopStep s))

theorem loopStep_T {N : Nat} (T : Tr) (m : Nat) (s : St) (hI : Inv N s)
    (hn : T.n ≤ s.db.entries.length) (hm : m ≤ (T.app s).errs.length)
    (hc : RoundLC T s) (hk : NoClashS T m (loopStep (T.app s))) :
    loopStep (T.app s) = Step.mapT T (loopStep s) := by
  rw [loopStep_eq] at hk ⊢
  rw [loopStep_eq]
  unfold RoundLC at hc
  rw [loopStep_eq] at hc
  cases hsk : skipToChar (· = '@') s.rest with
  | none =>
    have hT : T.c = [] := by
      rcases hc with hc | ⟨hc, _⟩
      · exact hc
      · have := skipToChar_none hsk '@' hc
        simp at this
    have : (T.app s).rest = s.rest := by show s.rest ++ T.c = s.rest; rw [hT]; simp
    rw [this, hsk]
    rfl
  | some cr =>
    obtain ⟨chunk, rest⟩ := cr
    have hsk' : skipToChar (· = '@') (T.app s).rest = some (chunk, rest ++ T.c) :=
      skipToChar_app _ _ _ _ _ hsk
    rw [hsk] at hc
    rw [hsk'] at hk ⊢
    simp only at hc hk ⊢
    rw [T_chunk] at hk ⊢
    obtain ⟨hI1, _, _⟩ := chunk_good hI hsk (by decide)
    exact cmdStep_T T m _ hI1 hn hm (hc.imp id (fun h => h.2)) hk

/-! ## §8 the command loop -/

theorem cmdStep_good {N : Nat} (s : St) (hI : Inv N s) :
    match cmdStep s with
    | .inl r => Inv N r.1 ∧ Le s r.1 ∧ ∀ e, r.2 = some e → okErr N e
    | .inr s' => Inv N s' ∧ Le s s' := by
  unfold cmdStep
  have hg := parseCommand_good hI
  cases hr : parseCommand s with
  | ok c s2 =>
    rw [hr] at hg
    simp only
    have hg2 := processCmd_good c s2 hg.1
    cases hr2 : processCmd c s2 with
    | ok u s3 => rw [hr2] at hg2; exact ⟨hg2.1, hg.2.trans hg2.2⟩
    | fail a s3 =>
      rw [hr2] at hg2
      cases a with
      | syn e => exact ⟨hg2.1, hg.2.trans hg2.2.1, fun e' he' => by cases he'; exact hg2.2.2⟩
      | raised e => exact ⟨hg2.1, hg.2.trans hg2.2.1, fun e' he' => by cases he'; exact hg2.2.2⟩
      | skip => exact ⟨hg2.1, hg.2.trans hg2.2.1⟩
  | fail a s2 =>
    rw [hr] at hg
    cases a with
    | syn e =>
      simp only
      have hg2 := handleError_good hg.1 hg.2.2
      cases hr2 : handleError s2 e with
      | ok u s3 => rw [hr2] at hg2; exact ⟨hg2.1, hg.2.1.trans hg2.2⟩
      | fail a s3 =>
        rw [hr2] at hg2
        cases a with
        | syn e' => exact ⟨hg2.1, hg.2.1.trans hg2.2.1, fun e' he' => by cases he'; exact hg.2.2⟩
        | raised e' => exact ⟨hg2.1, hg.2.1.trans hg2.2.1, fun e' he' => by cases he'; exact hg2.2.2⟩
        | skip => exact ⟨hg2.1, hg.2.1.trans hg2.2.1, fun e' he' => by cases he'; exact hg.2.2⟩
    | skip => exact ⟨hg.1, hg.2.1⟩
    | raised e => exact ⟨hg.1, hg.2.1, fun e' he' => by cases he'; exact hg.2.2⟩

theorem loopStep_good {N : Nat} (s : St) (hI : Inv N s) :
    match loopStep s with
    | .inl r => Inv N r.1 ∧ Le s r.1 ∧ ∀ e, r.2 = some e → okErr N e
    | .inr s' => Inv N s' ∧ Le s s' ∧ s'.rest.length < s.rest.length := by
  rw [loopStep_eq]
  cases hsk : skipToChar (· = '@') s.rest with
  | none => exact ⟨hI, Le.refl _, fun e he => by cases he⟩
  | some cr =>
    obtain ⟨chunk, rest⟩ := cr
    obtain ⟨hI1, hL1, hlt⟩ := chunk_good hI hsk (by decide)
    have := cmdStep_good _ hI1
    simp only
    cases hc : cmdStep { s with rest := rest, ln := s.ln + countNl chunk } with
    | inl r =>
      rw [hc] at this
      exact ⟨this.1, hL1.trans this.2.1, this.2.2⟩
    | inr s' =>
      rw [hc] at this
      refine ⟨this.1, hL1.trans this.2, ?_⟩
      have h1 := this.2.1
      have h3 : ({ s with rest := rest, ln := s.ln + countNl chunk } : St).rest.length = rest.length := rfl
      omega

/-- the result of the loop does not depend on the fuel, once there is enough of it -/
theorem parseLoop_fuel {N : Nat} (f1 f2 : Nat) (s : St) (hI : Inv N s) (h1 : s.rest.length < f1)
    (h2 : s.rest.length < f2) : parseLoop f1 s = parseLoop f2 s := by
  induction f1 generalizing f2 s with
  | zero => omega
  | succ f1 ih =>
    cases f2 with
    | zero => omega
    | succ f2 =>
      rw [parseLoop_succ, parseLoop_succ]
      have hg := loopStep_good s hI
      cases hl : loopStep s with
      | inl r => rfl
      | inr s' =>
        rw [hl] at hg
        exact ih f2 s' hg.1 (by omega) (by omega)

def mapEnd (T : Tr) (r : St × Option Err) : St × Option Err := (T.app r.1, r.2.map (shiftErr T.k))

def NoClashE (T : Tr) (m : Nat) (r : St × Option Err) : Prop :=
  ∀ key, T.blocks key = true → errRep key ∉ r.1.errs.drop m ∧ r.2 ≠ some (errRep key)

theorem Tr.blocks_nil (T : Tr) (h : T.l = []) (key : Str) : T.blocks key = false := by
  unfold Tr.blocks; rw [h]; rfl

theorem mem_drop_of_prefix {α : Type} {l1 l2 : List α} {x : α} (m : Nat) (h : l1 <+: l2)
    (hx : x ∈ l1.drop m) : x ∈ l2.drop m := by
  obtain ⟨t, rfl⟩ := h
  by_cases hm : m ≤ l1.length
  · rw [List.drop_append_of_le_length hm]; exact List.mem_append_left _ hx
  · have : l1.drop m = [] := List.drop_eq_nil_of_le (by omega)
    rw [this] at hx; cases hx

/-- The whole rest of the run carries over to a changed context (nothing appended to the text):
problems and preamble items in front, line counter shifted, entries inserted — as long as the run
in the changed context does not report a repeated entry for a key of the inserted entries. -/
theorem parseLoop_T {N NA : Nat} (T : Tr) (m : Nat) (hT : T.c = []) (fuel : Nat) (s : St) (hI : Inv N s)
    (hIA : T.l = [] ∨ Inv NA (T.app s)) (hf : s.rest.length < fuel)
    (hn : T.n ≤ s.db.entries.length) (hm : m ≤ (T.app s).errs.length)
    (hk : NoClashE T m (parseLoop fuel (T.app s))) :
    parseLoop fuel (T.app s) = mapEnd T (parseLoop fuel s) := by
  induction fuel generalizing s with
  | zero => omega
  | succ fuel ih =>
    have hlenA : (T.app s).rest.length = s.rest.length := by
      show (s.rest ++ T.c).length = _
      rw [hT]; simp
    rw [parseLoop_succ] at hk ⊢
    rw [parseLoop_succ]
    have hks : NoClashS T m (loopStep (T.app s)) := by
      rcases hIA with hl | hIA
      · intro key hb
        rw [T.blocks_nil hl] at hb; cases hb
      · intro key hb
        obtain ⟨h1, h2⟩ := hk key hb
        have hpre := parseLoop_prefix 1 (fuel + 1) (T.app s) hIA (by omega)
        rw [parseLoop_succ 0, parseLoop_succ fuel] at hpre
        revert h1 h2 hpre
        cases loopStep (T.app s) with
        | inl r =>
          obtain ⟨s', o⟩ := r
          intro h1 h2 _
          exact ⟨h1, h2⟩
        | inr s' =>
          intro h1 _ hpre
          refine ⟨fun hx => h1 (mem_drop_of_prefix m hpre.2.2.2.1 hx), fun h => by cases h⟩
    have hstep := loopStep_T T m s hI hn hm (Or.inl hT) hks
    rw [hstep] at hk ⊢
    have hg := loopStep_good s hI
    cases hl : loopStep s with
    | inl r => obtain ⟨s', o⟩ := r; rfl
    | inr s' =>
      rw [hl] at hg hk hstep
      simp only [Step.mapT] at hk ⊢
      have hIA' : T.l = [] ∨ Inv NA (T.app s') := by
        rcases hIA with hl | hIA
        · exact Or.inl hl
        · right
          have := loopStep_good (T.app s) hIA
          rw [hstep] at this
          exact this.1
      apply ih s' hg.1 hIA' (by omega)
      · exact Nat.le_trans hn hg.2.1.2.2.2.2.1.length_le
      · have h1 : s.errs.length ≤ s'.errs.length := hg.2.1.2.2.2.1.length_le
        rw [T_errs_len] at hm ⊢
        omega
      · exact hk

/-! ## §9 locality of one round -/

theorem Db.ext' {a b : Db} (h1 : a.entries = b.entries) (h2 : a.preamble = b.preamble)
    (h3 : a.wanted = b.wanted) (h4 : a.citations = b.citations) : a = b := by
  cases a; cases b; simp_all

/-- a transformer that only appends text and puts problems in front -/
theorem Tr.app_front (c : Str) (R : List Err) (RA : List Str) (s : St) :
    ({ c := c, R := R, RA := RA } : Tr).app s =
      { s with rest := s.rest ++ c, errs := R ++ s.errs, errAt := RA ++ s.errAt.map (· ++ c) } := by
  apply St.ext' <;> try rfl
  show R ++ s.errs.map (shiftErr 0) = R ++ s.errs
  rw [map_shiftErr_zero]

/-- `c` is appended behind the unread text — and (ghost) behind the unread texts recorded with the
problems other than the first `n`; nothing else changes -/
@[reducible] def St.appRest (c : Str) (n : Nat) (t : St) : St :=
  { t with rest := t.rest ++ c, errAt := t.errAt.take n ++ (t.errAt.drop n).map (· ++ c) }

/-- `St.appRest` on the state of the outcome of a round -/
def Step.appRest (c : Str) (n : Nat) : Step → Step
  | .inl (s, o) => .inl (s.appRest c n, o)
  | .inr s => .inr (s.appRest c n)

theorem appRest_ghost (A B : List Str) (c : Str) :
    A ++ B.map (· ++ c) =
      (A ++ B.map (· ++ [])).take A.length ++ ((A ++ B.map (· ++ [])).drop A.length).map (· ++ c) := by
  simp

/-- the state `s` is `s` without its problems, in the context "the problems of `s` in front" -/
theorem Tr.app_self (c : Str) (s : St) :
    ({ c := c, R := s.errs, RA := s.errAt } : Tr).app { s with errs := [], errAt := [] } =
      { s with rest := s.rest ++ c } := by
  rw [Tr.app_front]
  apply St.ext' <;> try rfl
  · show s.errs ++ [] = s.errs; simp
  · show s.errAt ++ [].map (· ++ c) = s.errAt; simp

theorem Tr.app_self_nil (s : St) :
    ({ R := s.errs, RA := s.errAt } : Tr).app { s with errs := [], errAt := [] } = s := by
  rw [Tr.app_self]
  apply St.ext' <;> try rfl
  show s.rest ++ [] = s.rest; simp

/-- the outcome in the context "`c` appended, problems `R` in front" from the outcome in the context
"problems `R` in front" -/
theorem Tr.app_appRest (c : Str) (R : List Err) (RA : List Str) (t : St) :
    ({ c := c, R := R, RA := RA } : Tr).app t =
      (({ R := R, RA := RA } : Tr).app t).appRest c RA.length := by
  rw [Tr.app_front, Tr.app_front]
  apply St.ext' <;> try rfl
  · show t.rest ++ c = t.rest ++ [] ++ c; simp
  · exact appRest_ghost RA t.errAt c

theorem option_map_shiftErr_zero (o : Option Err) : o.map (shiftErr 0) = o := by
  cases o with
  | none => rfl
  | some e => simp [shiftErr_zero]

/-- **Locality of one round.**  If the round on the text `s.rest` alone finds its `@` and neither
reports nor raises `PrematureEOF` (an error that leaves the reader is raised in front of an unread
character), then on `s.rest ++ c` the round does exactly the same and leaves `c` unread as well. -/
theorem loopStep_local (s : St) (c : Str) (h1 : 1 ≤ s.ln) (hat : '@' ∈ s.rest)
    (hE : ∀ e ∈ (Step.st (loopStep s)).errs.drop s.errs.length, e.kind ≠ .prematureEOF)
    (hR : ∀ e, Step.err (loopStep s) = some e →
      e.kind ≠ .prematureEOF ∧ (Step.st (loopStep s)).rest ≠ []) :
    loopStep { s with rest := s.rest ++ c } = Step.appRest c s.errAt.length (loopStep s) := by
  have hI0 : Inv (s.ln + countNl s.rest) { s with errs := [], errAt := [] } :=
    ⟨h1, rfl, fun e he => by cases he⟩
  have e0 := Tr.app_self_nil s
  have e1 := Tr.app_self c s
  have hnb : ∀ (T : Tr) (m : Nat) (r : Step), T.l = [] → NoClashS T m r := by
    intro T m r hl key hb
    rw [T.blocks_nil hl] at hb; cases hb
  have hs0 := loopStep_T ({ R := s.errs, RA := s.errAt } : Tr) 0 { s with errs := [], errAt := [] } hI0
    (Nat.zero_le _) (Nat.zero_le _) (Or.inl rfl) (hnb _ _ _ rfl)
  rw [e0] at hs0
  have hg := loopStep_good _ hI0
  have hok : StepOK (loopStep { s with errs := [], errAt := [] }) := by
    rw [hs0] at hE hR
    generalize loopStep { s with errs := [], errAt := [] } = r0 at hE hR hg
    cases r0 with
    | inl r =>
      obtain ⟨s', o⟩ := r
      simp only [Step.mapT, Step.st, Step.err, map_shiftErr_zero, List.drop_left,
        option_map_shiftErr_zero, List.append_nil] at hE hR hg ⊢
      refine ⟨fun e he => ?_, fun e he => ?_⟩
      · rintro (h | h)
        · exact hE e he h
        · exact (hg.1.2.2 e he).1 h
      · subst he
        have := hR e rfl
        refine ⟨?_, this.2⟩
        rintro (h | h)
        · exact this.1 h
        · exact (hg.2.2 e rfl).1 h
    | inr s' =>
      simp only [Step.mapT, Step.st, Step.err, map_shiftErr_zero, List.drop_left] at hE hR hg ⊢
      refine ⟨fun e he => ?_, fun e he => by cases he⟩
      rintro (h | h)
      · exact hE e he h
      · exact (hg.1.2.2 e he).1 h
  have hs1 := loopStep_T ({ c := c, R := s.errs, RA := s.errAt } : Tr) 0 { s with errs := [], errAt := [] } hI0
    (Nat.zero_le _) (Nat.zero_le _) (Or.inr ⟨hat, hok⟩) (hnb _ _ _ rfl)
  rw [e1] at hs1
  rw [hs1, hs0]
  cases loopStep { s with errs := [], errAt := [] } with
  | inl r =>
    obtain ⟨s', o⟩ := r
    simp only [Step.mapT, Step.appRest]
    rw [Tr.app_appRest]
  | inr s' =>
    simp only [Step.mapT, Step.appRest]
    rw [Tr.app_appRest]

/-! ## §10 resynchronisation -/

theorem countNl_cons_ge (x : Char) (r : Str) : countNl r ≤ countNl (x :: r) := by
  by_cases hx : x = '\r'
  · subst hx
    cases r with
    | nil => rw [countNl_nil]; exact Nat.zero_le _
    | cons y r =>
      by_cases hy : y = '\n'
      · subst hy
        rw [countNl_cr_lf, countNl_cons_ne_cr _ _ (by decide)]
        simp
      · rw [countNl_cr_cons _ _ hy]; omega
  · rw [countNl_cons_ne_cr _ _ hx]; omega

theorem countNl_append_ge (a b : Str) : countNl b ≤ countNl (a ++ b) := by
  induction a with
  | nil => exact Nat.le_refl _
  | cons x a ih => exact Nat.le_trans ih (countNl_cons_ge x (a ++ b))

theorem skipToChar_prepend (p : Char → Bool) (a c : Str) (h : ∀ x ∈ a, p x = false) :
    skipToChar p (a ++ c) = (skipToChar p c).map fun y => (a ++ y.1, y.2) := by
  induction a with
  | nil =>
    rw [List.nil_append]
    cases skipToChar p c with
    | none => rfl
    | some y => simp
  | cons x a ih =>
    have hx : p x = false := h x (by simp)
    simp only [List.cons_append, skipToChar, hx, Bool.false_eq_true, ↓reduceIte]
    rw [ih (fun y hy => h y (List.mem_cons_of_mem _ hy))]
    cases skipToChar p c <;> rfl

theorem skipToChar_none_of (p : Char → Bool) (a : Str) (h : ∀ x ∈ a, p x = false) :
    skipToChar p a = none := by
  induction a with
  | nil => rfl
  | cons x a ih =>
    have hx : p x = false := h x (by simp)
    simp only [skipToChar, hx, Bool.false_eq_true, ↓reduceIte]
    rw [ih (fun y hy => h y (List.mem_cons_of_mem _ hy))]
    rfl

theorem skipToChar_some_of (p : Char → Bool) (a : Str) (x : Char) (hx : x ∈ a) (hp : p x = true) :
    ∃ chunk rest, skipToChar p a = some (chunk, rest) := by
  cases h : skipToChar p a with
  | some y => exact ⟨y.1, y.2, rfl⟩
  | none =>
    have := skipToChar_none h x hx
    rw [hp] at this; cases this

theorem notAt (a : Str) (h : '@' ∉ a) : ∀ x ∈ a, (decide (x = '@')) = false := by
  intro x hx
  simp only [decide_eq_false_iff_not]
  intro he; subst he; exact h hx

/-- **Resynchronisation.**  Unread text `a` without an `@` in front of the continuation `c` is
skipped: the next round behaves as on `c` alone, with the line counter advanced by the line breaks
of `a`. -/
theorem loopStep_resync (s : St) (a c : Str) (ha : '@' ∉ a) :
    ('@' ∉ c → loopStep { s with rest := a ++ c } = .inl ({ s with rest := a ++ c }, none)) ∧
    ('@' ∈ c → loopStep { s with rest := a ++ c } =
      loopStep { s with rest := c, ln := s.ln + (countNl (a ++ c) - countNl c) }) := by
  constructor
  · intro hc
    rw [loopStep_eq]
    have : skipToChar (· = '@') (a ++ c) = none := by
      apply skipToChar_none_of
      intro x hx
      rcases List.mem_append.1 hx with hx | hx
      · exact notAt a ha x hx
      · exact notAt c hc x hx
    show (match skipToChar (· = '@') (a ++ c) with | none => _ | some (chunk, rest) => _) = _
    rw [this]
  · intro hc
    obtain ⟨chunk, rest, hsk⟩ := skipToChar_some_of (· = '@') c '@' hc (by simp)
    have hsk2 : skipToChar (· = '@') (a ++ c) = some (a ++ chunk, rest) := by
      rw [skipToChar_prepend _ _ _ (notAt a ha), hsk]; rfl
    have h1 := (skipToChar_countNl hsk (by decide)).1
    have h2 := (skipToChar_countNl hsk2 (by decide)).1
    have h3 := countNl_append_ge a chunk
    rw [loopStep_eq, loopStep_eq]
    show (match skipToChar (· = '@') (a ++ c) with | none => _ | some (chunk, rest) => _) =
      (match skipToChar (· = '@') c with | none => _ | some (chunk, rest) => _)
    rw [hsk, hsk2]
    simp only
    congr 1
    apply St.ext' <;> try rfl
    show s.ln + countNl (a ++ chunk) = s.ln + (countNl (a ++ c) - countNl c) + countNl chunk
    omega

/-! ## §11 what a round leaves alone -/

theorem parseCommand_clr (s : St) : parseCommand (clr s) = parseCommand s := by
  rw [parseCommand_eq, parseCommand_eq]

theorem cmdStep_clr (s : St) : cmdStep (clr s) = cmdStep s := by
  unfold cmdStep; rw [parseCommand_clr]

theorem loopStep_clr (s : St) (h : '@' ∈ s.rest) : loopStep (clr s) = loopStep s := by
  rw [loopStep_eq, loopStep_eq]
  obtain ⟨chunk, rest, hsk⟩ := skipToChar_some_of (· = '@') s.rest '@' h (by simp)
  show (match skipToChar (· = '@') s.rest with | none => _ | some (chunk, rest) => _) = _
  rw [hsk]
  exact cmdStep_clr { s with rest := rest, ln := s.ln + countNl chunk }

theorem handleError_cit (s : St) (e : Err) : (handleError s e).st.db = s.db := handleError_db s e

theorem addEntry_cit (s : St) (key : Str) (e : Entry) :
    (addEntry s key e).st.db.citations = s.db.citations := by
  unfold addEntry
  split
  · rfl
  · split
    · rw [handleError_db]
    · simp only [Res.st]
      split <;> rfl

theorem processCmd_cit (c : Cmd) (s : St) : (processCmd c s).st.db.citations = s.db.citations := by
  cases c with
  | string => rfl
  | preamble v => rfl
  | entry t k fs =>
    simp only [processCmd]
    rw [processEntry_bind]
    cases k with
    | some k =>
      simp only
      have h := processFields_db k fs [] { key := k, type := lower t, origType := t, fields := [], persons := [] } s
      cases hr : processFields k fs [] { key := k, type := lower t, origType := t, fields := [], persons := [] } s with
      | fail a s' => rw [hr] at h; simp only [Res.bind, Res.st] at h ⊢; rw [h]
      | ok e s' =>
        rw [hr] at h
        simp only [Res.st] at h
        simp only [Res.bind]
        rw [addEntry_cit, h]
    | none =>
      simp only
      have h := processFields_db ("unnamed-".toList ++ natToStr s.unnamed) fs []
        { key := "unnamed-".toList ++ natToStr s.unnamed, type := lower t, origType := t, fields := [], persons := [] }
        { s with unnamed := s.unnamed + 1 }
      cases hr : processFields ("unnamed-".toList ++ natToStr s.unnamed) fs []
        { key := "unnamed-".toList ++ natToStr s.unnamed, type := lower t, origType := t, fields := [], persons := [] }
        { s with unnamed := s.unnamed + 1 } with
      | fail a s' => rw [hr] at h; simp only [Res.bind, Res.st] at h ⊢; rw [h]
      | ok e s' =>
        rw [hr] at h
        simp only [Res.st] at h
        simp only [Res.bind]
        rw [addEntry_cit, h]

theorem cmdStep_cit (s : St) : (cmdStep s).st.db.citations = s.db.citations := by
  unfold cmdStep
  have h := parseCommand_db s
  cases hr : parseCommand s with
  | ok c s2 =>
    rw [hr] at h
    simp only [Res.st] at h
    simp only
    have h2 := processCmd_cit c s2
    cases hr2 : processCmd c s2 with
    | ok u s3 => rw [hr2] at h2; simp only [Res.st] at h2; simp only [Step.st]; rw [h2, h]
    | fail a s3 =>
      rw [hr2] at h2; simp only [Res.st] at h2
      cases a <;> (simp only [Step.st]; rw [h2, h])
  | fail a s2 =>
    rw [hr] at h
    simp only [Res.st] at h
    cases a with
    | syn e =>
      simp only
      have h2 := handleError_db s2 e
      cases hr2 : handleError s2 e with
      | ok u s3 => rw [hr2] at h2; simp only [Res.st] at h2; simp only [Step.st]; rw [h2, h]
      | fail a s3 =>
        rw [hr2] at h2; simp only [Res.st] at h2
        cases a <;> (simp only [Step.st]; rw [h2, h])
    | skip => simp only [Step.st]; rw [h]
    | raised e => simp only [Step.st]; rw [h]

theorem loopStep_cit (s : St) : (Step.st (loopStep s)).db.citations = s.db.citations := by
  rw [loopStep_eq]
  cases hsk : skipToChar (· = '@') s.rest with
  | none => rfl
  | some cr =>
    obtain ⟨chunk, rest⟩ := cr
    exact cmdStep_cit { s with rest := rest, ln := s.ln + countNl chunk }

/-! ## §12 confinement after a self-contained command -/

theorem parseLoop_congr_step (f : Nat) (s t : St) (h : loopStep s = loopStep t) :
    parseLoop (f + 1) s = parseLoop (f + 1) t := by
  rw [parseLoop_succ, parseLoop_succ, h]

/-- the state `S` in front of the text `post`, with the macro table, the unnamed-entry counter and
the wanted-set as `S1` has them -/
@[reducible] def carry (S S1 : St) (post : Str) : St :=
  { S with rest := post, macros := S1.macros, unnamed := S1.unnamed,
           db := { S.db with wanted := S1.db.wanted } }

theorem parseLoop_confined {N : Nat} (S S1 : St) (bad post : Str) (A B : St × Option Err)
    (hI : Inv N { S with rest := bad ++ post })
    (hround : loopStep { S with rest := bad } = .inr S1)
    (hE : ∀ e ∈ S1.errs.drop S.errs.length, e.kind ≠ .prematureEOF)
    (hat : '@' ∉ S1.rest)
    (hA : A = parseLoop ((bad ++ post).length + 1) { S with rest := bad ++ post })
    (hB : B = parseLoop (post.length + 1) (carry S S1 post))
    (hK : ∀ key, (S1.db.entries.drop S.db.entries.length).any (fun e => keyFold e.key = keyFold key) = true →
        errRep key ∉ A.1.errs.drop S1.errs.length ∧ A.2 ≠ some (errRep key)) :
    A.1.db.entries = S1.db.entries ++ B.1.db.entries.drop S.db.entries.length ∧
    A.1.db.preamble = S1.db.preamble ++ B.1.db.preamble.drop S.db.preamble.length ∧
    A.1.errs = S1.errs ++ (B.1.errs.drop S.errs.length).map
      (shiftErr (countNl (bad ++ post) - countNl post)) ∧
    A.2 = B.2.map (shiftErr (countNl (bad ++ post) - countNl post)) := by
  have h1 : 1 ≤ S.ln := hI.1
  have hbad : '@' ∈ bad := by
    apply Classical.byContradiction
    intro h
    have hn : skipToChar (· = '@') bad = none := skipToChar_none_of _ _ (notAt bad h)
    rw [loopStep_eq] at hround
    change (match skipToChar (· = '@') bad with | none => _ | some (chunk, rest) => _) = _ at hround
    rw [hn] at hround
    cases hround
  -- the round on `bad` is the same in front of `post`
  have hloc : loopStep { S with rest := bad ++ post } = .inr (S1.appRest post S.errAt.length) := by
    have := loopStep_local { S with rest := bad } post h1 hbad
      (by rw [hround]; exact hE) (by rw [hround]; intro e he; cases he)
    rw [hround] at this
    exact this
  have hgA := loopStep_good _ hI
  rw [hloc] at hgA
  obtain ⟨hIA1, hLA1, _⟩ := hgA
  obtain ⟨f', hf'⟩ : ∃ f', (bad ++ post).length = f' + 1 := by
    cases bad with
    | nil => cases hbad
    | cons x r => exact ⟨(r ++ post).length, rfl⟩
  have hpl : post.length ≤ f' := by
    have : (bad ++ post).length = bad.length + post.length := List.length_append
    have : 1 ≤ bad.length := by
      cases bad with
      | nil => cases hbad
      | cons x r => simp
    omega
  have hA1 : A = parseLoop (f' + 1) (S1.appRest post S.errAt.length) := by
    rw [hA, parseLoop_succ, hloc, hf']
  have hpre : S.db.entries <+: S1.db.entries := hLA1.2.2.2.2.1
  have hstrict : S1.strict = S.strict := hLA1.2.1
  have hroles : S1.roles = S.roles := hLA1.2.2.1
  by_cases hp : '@' ∈ post
  · -- resynchronise at the first `@` of `post`
    have hrs := (loopStep_resync (S1.appRest post S.errAt.length) S1.rest post hat).2 hp
    have hA2 : A = parseLoop (f' + 1)
        (clr { S1.appRest post S.errAt.length with
          rest := post, ln := S1.ln + (countNl (S1.rest ++ post) - countNl post) }) := by
      rw [hA1, parseLoop_congr_step f' _ _ hrs]
      exact (parseLoop_congr_step f' _ _ (loopStep_clr _ hp)).symm
    have hB2 : B = parseLoop (post.length + 1) (clr (carry S S1 post)) := by
      rw [hB]
      exact (parseLoop_congr_step _ _ _ (loopStep_clr (carry S S1 post) hp)).symm
    -- the common base state and the two contexts
    let u : St := { clr (carry S S1 post) with errs := [], errAt := [],
                                                db := { (carry S S1 post).db with preamble := [] } }
    let TA : Tr := { k := countNl (bad ++ post) - countNl post, R := S1.errs, n := S.db.entries.length,
                     l := S1.db.entries.drop S.db.entries.length, Pr := S1.db.preamble,
                     RA := (S1.appRest post S.errAt.length).errAt }
    let TB : Tr := { R := S.errs, Pr := S.db.preamble, RA := S.errAt }
    have hN1 : S.ln + countNl (bad ++ post) = N := hI.2.1
    have hN2 : S1.ln + countNl (S1.rest ++ post) = N := hIA1.2.1
    have hge1 := countNl_append_ge bad post
    have hge2 := countNl_append_ge S1.rest post
    have hcit : S1.db.citations = S.db.citations := by
      have := loopStep_cit { S with rest := bad }
      rw [hround] at this
      exact this
    have eA : TA.app u =
        clr { S1.appRest post S.errAt.length with
          rest := post, ln := S1.ln + (countNl (S1.rest ++ post) - countNl post) } := by
      apply St.ext' <;> try rfl
      · show post ++ [] = post; simp
      · show S.ln + (countNl (bad ++ post) - countNl post) =
          S1.ln + (countNl (S1.rest ++ post) - countNl post)
        omega
      · apply Db.ext'
        · show S.db.entries.take S.db.entries.length ++ S1.db.entries.drop S.db.entries.length ++
            S.db.entries.drop S.db.entries.length = S1.db.entries
          obtain ⟨t, ht⟩ := hpre
          rw [← ht]; simp
        · show S1.db.preamble ++ [] = S1.db.preamble; simp
        · rfl
        · exact hcit.symm
      · show S1.errs ++ [].map _ = S1.errs; simp
      · exact hstrict.symm
      · exact hroles.symm
      · show (S1.appRest post S.errAt.length).errAt ++ [].map _ = _; simp
    have eB : TB.app u = clr (carry S S1 post) := by
      apply St.ext' <;> try rfl
      · show post ++ [] = post; simp
      · apply Db.ext' <;> try rfl
        show S.db.preamble ++ [] = S.db.preamble; simp
      · show S.errs ++ [].map _ = S.errs; simp
      · show S.errAt ++ [].map _ = S.errAt; simp
    have hIu : Inv (S.ln + countNl post) u := ⟨h1, rfl, fun e he => by cases he⟩
    have hIAu : Inv N (TA.app u) := by
      rw [eA]
      refine ⟨?_, ?_, hIA1.2.2⟩
      · show 1 ≤ S1.ln + _
        have := hIA1.1; omega
      · show S1.ln + (countNl (S1.rest ++ post) - countNl post) + countNl post = N
        omega
    have hkA : NoClashE TA S1.errs.length (parseLoop (f' + 1) (TA.app u)) := by
      rw [eA, ← hA2]
      intro key hb
      exact hK key hb
    have hTA := parseLoop_T TA S1.errs.length rfl (f' + 1) u hIu (Or.inr hIAu)
      (by show post.length < f' + 1; omega) (Nat.le_refl _)
      (by rw [T_errs_len]; exact Nat.le_add_right _ _) hkA
    have hTB := parseLoop_T (NA := 0) TB 0 rfl (post.length + 1) u hIu (Or.inl rfl)
      (Nat.lt_succ_self _) (Nat.zero_le _) (Nat.zero_le _)
      (by intro key hb; rw [TB.blocks_nil rfl] at hb; cases hb)
    rw [eA, ← hA2] at hTA
    rw [eB, ← hB2] at hTB
    rw [parseLoop_fuel (f' + 1) (post.length + 1) u hIu (by show post.length < f' + 1; omega)
      (Nat.lt_succ_self _)] at hTA
    have hg0 := parseLoop_good (post.length + 1) u hIu (Nat.lt_succ_self _)
    generalize parseLoop (post.length + 1) u = r0 at hTA hTB hg0
    obtain ⟨t, ht⟩ : S.db.entries <+: r0.1.db.entries := hg0.2.1.2.2.2.2.1
    obtain ⟨t1, ht1⟩ := hpre
    rw [hTA, hTB]
    refine ⟨?_, ?_, ?_, ?_⟩
    · show r0.1.db.entries.take S.db.entries.length ++ S1.db.entries.drop S.db.entries.length ++
        r0.1.db.entries.drop S.db.entries.length =
        S1.db.entries ++ (r0.1.db.entries.take 0 ++ [] ++ r0.1.db.entries.drop 0).drop S.db.entries.length
      rw [← ht, ← ht1]; simp
    · show S1.db.preamble ++ r0.1.db.preamble =
        S1.db.preamble ++ (S.db.preamble ++ r0.1.db.preamble).drop S.db.preamble.length
      simp
    · show S1.errs ++ r0.1.errs.map (shiftErr (countNl (bad ++ post) - countNl post)) =
        S1.errs ++ ((S.errs ++ r0.1.errs.map (shiftErr 0)).drop S.errs.length).map
          (shiftErr (countNl (bad ++ post) - countNl post))
      rw [map_shiftErr_zero]; simp
    · show r0.2.map (shiftErr (countNl (bad ++ post) - countNl post)) =
        (r0.2.map (shiftErr 0)).map (shiftErr (countNl (bad ++ post) - countNl post))
      rw [option_map_shiftErr_zero]
  · -- nothing left to read: both runs stop
    have hrs := (loopStep_resync (S1.appRest post S.errAt.length) S1.rest post hat).1 hp
    have hA2 : A = (S1.appRest post S.errAt.length, none) := by
      rw [hA1, parseLoop_succ, hrs]
    have hrb := (loopStep_resync (carry S S1 post) [] post (by simp)).1 hp
    have hB2 : B = (carry S S1 post, none) := by
      rw [hB, parseLoop_succ]
      have : loopStep (carry S S1 post) = .inl (carry S S1 post, none) := hrb
      rw [this]
    rw [hA2, hB2]
    refine ⟨?_, ?_, ?_, rfl⟩
    · show S1.db.entries = S1.db.entries ++ S.db.entries.drop S.db.entries.length; simp
    · show S1.db.preamble = S1.db.preamble ++ S.db.preamble.drop S.db.preamble.length; simp
    · show S1.errs = S1.errs ++ (S.errs.drop S.errs.length).map _; simp

/-! ## §13 the plain "text appended" instance -/

theorem Res.synFail_mapR {α : Type} (T : Tr) (r : Res α) : (r.mapR T).synFail ↔ r.synFail := by
  cases r with
  | ok a s => exact Iff.rfl
  | fail a s => cases a <;> exact Iff.rfl

theorem Res.st_rest_mapR {α : Type} (T : Tr) (r : Res α) : (r.mapR T).st.rest = r.st.rest ++ T.c := by
  cases r <;> rfl

/-- the result in the context "`c` appended, problems `R` in front" from the result in the context
"problems `R` in front" -/
theorem Res.mapR_appRest {α : Type} (c : Str) (R : List Err) (RA : List Str) (r : Res α) :
    r.mapR { c := c, R := R, RA := RA } =
      (r.mapR { R := R, RA := RA }).mapSt (St.appRest c RA.length) := by
  cases r with
  | ok a s => simp only [Res.mapR, Res.mapSt, Tr.app_appRest c R RA s]
  | fail a s =>
    simp only [Res.mapR, Res.mapSt, Tr.app_appRest c R RA s]
    cases a <;> rfl

/-- from the commutation statement to locality at an arbitrary state: a function that commutes with
every context transformer behaves on `s.rest ++ c` as on `s.rest`, as long as the run on `s.rest`
did not run into the end of the text and stopped before it -/
theorem local_of_T {α : Type} (f : St → Res α) (s : St)
    (hf : ∀ (T : Tr) (s0 : St), LC T (f s0) → f (T.app s0) = (f s0).mapR T)
    (h1 : ¬ (f s).stop) (h2 : (f s).st.rest ≠ [] ∨ (f s).synFail) (c : Str) :
    f { s with rest := s.rest ++ c } = (f s).mapSt (St.appRest c s.errAt.length) := by
  have hs0 := hf ({ R := s.errs, RA := s.errAt } : Tr) { s with errs := [], errAt := [] } (Or.inl rfl)
  rw [Tr.app_self_nil] at hs0
  rw [hs0, Res.stop_mapR] at h1
  rw [hs0, Res.st_rest_mapR, Res.synFail_mapR] at h2
  have h2' : (f { s with errs := [], errAt := [] }).st.rest ≠ [] ∨
      (f { s with errs := [], errAt := [] }).synFail := by
    rcases h2 with h2 | h2
    · left; intro h; apply h2; rw [h]; rfl
    · exact Or.inr h2
  have hs1 := hf ({ c := c, R := s.errs, RA := s.errAt } : Tr) { s with errs := [], errAt := [] }
    (Or.inr ⟨h1, h2'⟩)
  rw [Tr.app_self] at hs1
  rw [hs1, hs0, Res.mapR_appRest]

instance (k : ErrKind) : Decidable (stopKind k) := by unfold stopKind; infer_instance

instance Res.stopDec {α : Type} : (r : Res α) → Decidable r.stop
  | .ok _ _ => isFalse (fun h => h)
  | .fail (.syn e) _ => inferInstanceAs (Decidable (stopKind e.kind))
  | .fail (.raised e) _ => inferInstanceAs (Decidable (stopKind e.kind))
  | .fail .skip _ => isFalse (fun h => h)

instance Res.synFailDec {α : Type} : (r : Res α) → Decidable r.synFail
  | .ok _ _ => isFalse (fun h => h)
  | .fail (.syn _) _ => isTrue trivial
  | .fail (.raised _) _ => isFalse (fun h => h)
  | .fail .skip _ => isFalse (fun h => h)

end Pybtex.Bib
