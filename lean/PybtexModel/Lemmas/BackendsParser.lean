/-
Lemmas for the `LaTeXParser` / `Text.from_latex` part of C09: the recursive-descent parser
`LaTeXParser.iterStringParts` against the left-to-right readers of `Spec.Tex` (brace depth of every
character; where a value stops being balanced).
-/
import PybtexModel.Lemmas.BackendsLatex

namespace Pybtex
open RT Backends Spec Spec.Tex LaTeXParser

namespace LaTeXParser

/-- the defining equation of `iter_string_parts(level)` (without the termination bookkeeping) -/
theorem iterStringParts_eq (level : Nat) (st : State) :
    iterStringParts level st =
      match skipToBrace st.rest with
      | none =>
        if level != 0 then .error (.unbalanced st.lineno st.pos)
        else .ok (if st.rest.isEmpty then [] else [.str st.rest], st)
      | some (v, b, r) =>
        if b = '{' then
          match iterStringParts (level + 1) (st.advance v b r) with
          | .error e => .error e
          | .ok (inner, st2) =>
            match iterStringParts level st2 with
            | .error e => .error e
            | .ok (more, st3) => .ok (.str v :: RT.mk .prot inner :: more, st3)
        else
          if level = 0 then .error (.unbalanced (st.advance v b r).lineno (st.advance v b r).pos)
          else .ok ([.str v], st.advance v b r) := by
  conv => lhs; unfold iterStringParts; rw [iterStringPartsB]
  split
  · rename_i e heq
    split at heq
    · rename_i hsk
      rw [hsk]
      simp only
      split at heq
      · rename_i hl; simp only [hl, if_true]; cases heq; rfl
      · cases heq
    · rename_i v b r hsk
      rw [hsk]
      simp only
      split at heq
      · rename_i hb
        subst hb
        simp only [↓reduceIte]
        unfold iterStringParts
        split at heq
        · rename_i e' he'
          rw [he']; cases heq; rfl
        · rename_i inner st2 h2 he'
          rw [he']
          simp only
          split at heq
          · rename_i e'' he''
            rw [he'']; cases heq; rfl
          · cases heq
      · rename_i hb
        simp only [hb, if_false]
        split at heq
        · rename_i hl; simp only [hl, if_true]; cases heq; rfl
        · cases heq
  · rename_i p heq
    split at heq
    · rename_i hsk
      rw [hsk]
      simp only
      split at heq
      · cases heq
      · rename_i hl; simp only [hl]; cases heq; rfl
    · rename_i v b r hsk
      rw [hsk]
      simp only
      split at heq
      · rename_i hb
        subst hb
        simp only [↓reduceIte]
        unfold iterStringParts
        split at heq
        · cases heq
        · rename_i inner st2 h2 he'
          rw [he']
          simp only
          split at heq
          · cases heq
          · rename_i more st3 h3 he''
            rw [he'']; cases heq; rfl
      · rename_i hb
        simp only [hb, if_false]
        split at heq
        · cases heq
        · rename_i hl; simp only [hl, if_false]; cases heq; rfl

theorem skipToBrace_none_iff (s : Str) : skipToBrace s = none ↔ braceFree s = true := by
  induction s with
  | nil => simp [skipToBrace, braceFree]
  | cons c s ih =>
    simp only [skipToBrace, braceFree, List.all_cons, Bool.and_eq_true, bne_iff_ne] at ih ⊢
    by_cases hc : c = '{' ∨ c = '}'
    · simp only [hc, if_true]
      constructor
      · intro h; cases h
      · intro h; rcases hc with hc | hc
        · exact absurd hc h.1.1
        · exact absurd hc h.1.2
    · simp only [hc, if_false]
      have h1 : c ≠ '{' := fun e => hc (Or.inl e)
      have h2 : c ≠ '}' := fun e => hc (Or.inr e)
      cases hs : skipToBrace s with
      | none => simp only [hs, true_iff] at ih; simp [h1, h2, ih]
      | some p =>
        obtain ⟨v, b, r⟩ := p
        simp only [hs, reduceCtorEq, false_iff] at ih
        simp only [reduceCtorEq, false_iff, not_and]
        intro _; exact ih

theorem skipToBrace_some {s v : Str} {b : Char} {r : Str} (h : skipToBrace s = some (v, b, r)) :
    s = v ++ b :: r ∧ braceFree v = true ∧ (b = '{' ∨ b = '}') := by
  induction s generalizing v with
  | nil => simp [skipToBrace] at h
  | cons c s ih =>
    simp only [skipToBrace] at h
    split at h
    · rename_i hc
      cases h
      exact ⟨rfl, rfl, hc⟩
    · rename_i hc
      split at h
      · cases h
      · rename_i v' b' r' heq
        cases h
        obtain ⟨h1, h2, h3⟩ := ih heq
        refine ⟨by rw [h1]; rfl, ?_, h3⟩
        simp only [braceFree, List.all_cons, Bool.and_eq_true, bne_iff_ne] at h2 ⊢
        exact ⟨⟨fun e => hc (Or.inl e), fun e => hc (Or.inr e)⟩, h2⟩

end LaTeXParser

/-! ### the spec readers -/
namespace Spec.Tex

theorem braceFree_cons {c : Char} {v : Str} (h : braceFree (c :: v) = true) :
    c ≠ '{' ∧ c ≠ '}' ∧ braceFree v = true := by
  simp only [braceFree, List.all_cons, Bool.and_eq_true, bne_iff_ne] at h ⊢
  exact ⟨h.1.1, h.1.2, h.2⟩

theorem splitAtClose_prefix (v r : Str) (hv : braceFree v = true) (k : Nat) :
    splitAtClose k (v ++ r) = (splitAtClose k r).map fun p => (v ++ p.1, p.2) := by
  induction v with
  | nil => simp only [List.nil_append]; cases splitAtClose k r <;> rfl
  | cons c v ih =>
    obtain ⟨h1, h2, h3⟩ := braceFree_cons hv
    simp only [List.cons_append, splitAtClose, h1, h2, if_false, ih h3]
    cases splitAtClose k r <;> rfl

theorem splitAtClose_braceFree (s : Str) (h : braceFree s = true) (k : Nat) : splitAtClose k s = none := by
  have := splitAtClose_prefix s [] h k
  simpa [splitAtClose] using this

theorem splitAtClose_decomp (r : Str) : ∀ j k, splitAtClose (j + k + 1) r =
    (splitAtClose j r).bind fun p => (splitAtClose k p.2).map fun q => (p.1 ++ '}' :: q.1, q.2) := by
  induction r with
  | nil => intro j k; rfl
  | cons c r ih =>
    intro j k
    by_cases h1 : c = '{'
    · subst h1
      simp only [splitAtClose, if_true]
      rw [show j + k + 1 + 1 = (j + 1) + k + 1 by omega, ih (j + 1) k]
      cases splitAtClose (j + 1) r with
      | none => rfl
      | some p => simp only [Option.map_some, Option.bind_some]; cases splitAtClose k p.2 <;> rfl
    · by_cases h2 : c = '}'
      · subst h2
        cases j with
        | zero =>
          simp only [splitAtClose, show ('}' : Char) ≠ '{' by decide, if_false, if_true, Nat.zero_add,
            Option.bind_some, List.nil_append]
        | succ j =>
          simp only [splitAtClose, show ('}' : Char) ≠ '{' by decide, if_false, if_true]
          rw [show j + 1 + k = j + k + 1 by omega, ih j k]
          cases splitAtClose j r with
          | none => rfl
          | some p => simp only [Option.map_some, Option.bind_some]; cases splitAtClose k p.2 <;> rfl
      · simp only [splitAtClose, h1, h2, if_false]
        rw [ih j k]
        cases splitAtClose j r with
        | none => rfl
        | some p => simp only [Option.map_some, Option.bind_some]; cases splitAtClose k p.2 <;> rfl

theorem splitAtClose_eq (r : Str) : ∀ k i r2, splitAtClose k r = some (i, r2) →
    r = i ++ '}' :: r2 ∧ depthAfter k i = some 0 := by
  induction r with
  | nil => intro k i r2 h; simp [splitAtClose] at h
  | cons c r ih =>
    intro k i r2 h
    by_cases h1 : c = '{'
    · subst h1
      simp only [splitAtClose, if_true] at h
      cases hs : splitAtClose (k + 1) r with
      | none => simp [hs] at h
      | some p =>
        obtain ⟨i', r'⟩ := p
        simp only [hs, Option.map_some, Option.some.injEq, Prod.mk.injEq] at h
        obtain ⟨e1, e2⟩ := ih (k + 1) i' r' hs
        rw [← h.1, ← h.2]
        exact ⟨by rw [e1]; rfl, by simp [depthAfter, e2]⟩
    · by_cases h2 : c = '}'
      · subst h2
        cases k with
        | zero =>
          simp only [splitAtClose, show ('}' : Char) ≠ '{' by decide, if_false, if_true, Option.some.injEq,
            Prod.mk.injEq] at h
          rw [← h.1, ← h.2]; exact ⟨rfl, rfl⟩
        | succ k =>
          simp only [splitAtClose, show ('}' : Char) ≠ '{' by decide, if_false, if_true] at h
          cases hs : splitAtClose k r with
          | none => simp [hs] at h
          | some p =>
            obtain ⟨i', r'⟩ := p
            simp only [hs, Option.map_some, Option.some.injEq, Prod.mk.injEq] at h
            obtain ⟨e1, e2⟩ := ih k i' r' hs
            rw [← h.1, ← h.2]
            exact ⟨by rw [e1]; rfl, by simp [depthAfter, e2]⟩
      · simp only [splitAtClose, h1, h2, if_false] at h
        cases hs : splitAtClose k r with
        | none => simp [hs] at h
        | some p =>
          obtain ⟨i', r'⟩ := p
          simp only [hs, Option.map_some, Option.some.injEq, Prod.mk.injEq] at h
          obtain ⟨e1, e2⟩ := ih k i' r' hs
          rw [← h.1, ← h.2]
          exact ⟨by rw [e1]; rfl, by simp [depthAfter, h1, h2, e2]⟩

/-- without a closing brace for the current group, the depth at the end is at least 1 -/
theorem splitAtClose_none_depth (r : Str) : ∀ k e, splitAtClose k r = none → depthAfter (k + 1) r = some e → 1 ≤ e := by
  induction r with
  | nil => intro k e _ h; simp only [depthAfter, Option.some.injEq] at h; omega
  | cons c r ih =>
    intro k e hs hd
    by_cases h1 : c = '{'
    · subst h1
      simp only [splitAtClose, if_true, Option.map_eq_none_iff] at hs
      simp only [depthAfter, if_true] at hd
      exact ih (k + 1) e hs hd
    · by_cases h2 : c = '}'
      · subst h2
        cases k with
        | zero => simp [splitAtClose] at hs
        | succ k =>
          simp only [splitAtClose, show ('}' : Char) ≠ '{' by decide, if_false, if_true,
            Option.map_eq_none_iff] at hs
          simp only [depthAfter, show ('}' : Char) ≠ '{' by decide, if_false, if_true,
            show ¬ (k + 1 + 1 = 0) by omega, Nat.add_sub_cancel] at hd
          exact ih k e hs hd
      · simp only [splitAtClose, h1, h2, if_false, Option.map_eq_none_iff] at hs
        simp only [depthAfter, h1, h2, if_false] at hd
        exact ih k e hs hd

theorem splitAtClose_close (v r : Str) (hv : braceFree v = true) : splitAtClose 0 (v ++ '}' :: r) = some (v, r) := by
  rw [splitAtClose_prefix v _ hv]
  simp [splitAtClose]

theorem splitAtClose_open (v r : Str) (hv : braceFree v = true) :
    splitAtClose 0 (v ++ '{' :: r) =
      (splitAtClose 0 r).bind fun p => (splitAtClose 0 p.2).map fun q => (v ++ '{' :: (p.1 ++ '}' :: q.1), q.2) := by
  rw [splitAtClose_prefix v _ hv]
  simp only [splitAtClose, if_true]
  have := splitAtClose_decomp r 0 0
  simp only [Nat.zero_add] at this
  rw [this]
  cases splitAtClose 0 r with
  | none => rfl
  | some p => simp only [Option.bind_some, Option.map_map]; cases splitAtClose 0 p.2 <;> rfl

/-- depth of a group: a brace-free prefix, `{`, a closed group, `}` -/
theorem depthAfter_prefix_group (v inner r2 : Str) (hv : braceFree v = true) (hi : depthAfter 0 inner = some 0) (d : Nat) :
    depthAfter d (v ++ '{' :: (inner ++ '}' :: r2)) = depthAfter d r2 := by
  rw [depthAfter_app, depthAfter_braceFree hv]
  simp only [Option.bind_some, depthAfter, if_true]
  rw [depthAfter_app]
  have := depthAfter_shift inner 0 0 (d + 1) hi
  simp only [Nat.zero_add] at this
  rw [this]
  simp [depthAfter]

theorem lastBraceEnd_braceFree (s : Str) (h : braceFree s = true) : lastBraceEnd s = 0 := by
  induction s with
  | nil => rfl
  | cons c s ih =>
    obtain ⟨h1, h2, h3⟩ := braceFree_cons h
    simp [lastBraceEnd, ih h3, h1, h2]

theorem lastBraceEnd_brace (b : Char) (hb : b = '{' ∨ b = '}') (r : Str) : lastBraceEnd (b :: r) = lastBraceEnd r + 1 := by
  simp only [lastBraceEnd, hb, if_true]
  split
  · rfl
  · omega

theorem lastBraceEnd_prefix (v : Str) (b : Char) (hb : b = '{' ∨ b = '}') (r : Str) :
    lastBraceEnd (v ++ b :: r) = v.length + 1 + lastBraceEnd r := by
  induction v with
  | nil => simp [lastBraceEnd_brace b hb r]; omega
  | cons c v ih =>
    simp only [List.cons_append, lastBraceEnd, ih, List.length_cons]
    have : v.length + 1 + lastBraceEnd r > 0 := by omega
    simp only [this, if_true]; omega

/-! #### depth sequences -/

theorem depthsFrom_braceFree (v : Str) (h : braceFree v = true) (d : Nat) : depthsFrom d v = v.map fun c => (c, d) := by
  induction v with
  | nil => rfl
  | cons c v ih =>
    obtain ⟨h1, h2, h3⟩ := braceFree_cons h
    simp [depthsFrom, h1, h2, ih h3]

theorem depthsFrom_app (a b : Str) : ∀ d e, depthAfter d a = some e →
    depthsFrom d (a ++ b) = depthsFrom d a ++ depthsFrom e b := by
  induction a with
  | nil => intro d e h; simp only [depthAfter, Option.some.injEq] at h; subst h; rfl
  | cons c a ih =>
    intro d e h
    by_cases h1 : c = '{'
    · subst h1
      simp only [depthAfter, if_true] at h
      simp only [List.cons_append, depthsFrom, if_true]
      exact ih (d + 1) e h
    · by_cases h2 : c = '}'
      · subst h2
        simp only [depthAfter, show ('}' : Char) ≠ '{' by decide, if_false, if_true] at h
        split at h
        · cases h
        · simp only [List.cons_append, depthsFrom, show ('}' : Char) ≠ '{' by decide, if_false, if_true]
          exact ih (d - 1) e h
      · simp only [depthAfter, h1, h2, if_false] at h
        simp only [List.cons_append, depthsFrom, h1, h2, if_false, ih d e h]

theorem depthsFrom_shift (w : Str) : ∀ d e, depthAfter d w = some e →
    depthsFrom (d + 1) w = (depthsFrom d w).map fun p => (p.1, p.2 + 1) := by
  induction w with
  | nil => intro d e _; rfl
  | cons c w ih =>
    intro d e h
    by_cases h1 : c = '{'
    · subst h1
      simp only [depthAfter, if_true] at h
      simp only [depthsFrom, if_true]
      exact ih (d + 1) e h
    · by_cases h2 : c = '}'
      · subst h2
        simp only [depthAfter, show ('}' : Char) ≠ '{' by decide, if_false, if_true] at h
        split at h
        · cases h
        · rename_i hd
          simp only [depthsFrom, show ('}' : Char) ≠ '{' by decide, if_false, if_true]
          have := ih (d - 1) e h
          rw [show d - 1 + 1 = d by omega] at this
          simpa using this
      · simp only [depthAfter, h1, h2, if_false] at h
        simp only [depthsFrom, h1, h2, if_false, List.map_cons, ih d e h]

theorem asFlat_append (a b : List (Char × Nat)) : asFlat (a ++ b) = asFlat a ++ asFlat b := by
  simp [asFlat]

theorem asFlat_shift (l : List (Char × Nat)) :
    asFlat (l.map fun p => (p.1, p.2 + 1)) = Flat.push [Markup.prot] (asFlat l) := by
  simp [asFlat, Flat.push, List.replicate_succ]

theorem asFlat_chars (v : Str) : asFlat (v.map fun c => (c, 0)) = v.map fun c => (Atom.ch c, []) := by
  simp [asFlat]

/-- the depth sequence of `v{inner}rest` -/
theorem depthsFrom_prefix_group (v inner b2 : Str) (hv : braceFree v = true) (hi : depthAfter 0 inner = some 0) :
    depthsFrom 0 (v ++ '{' :: (inner ++ '}' :: b2)) =
      (v.map fun c => (c, 0)) ++ ((depthsFrom 0 inner).map fun p => (p.1, p.2 + 1)) ++ depthsFrom 0 b2 := by
  rw [depthsFrom_app v _ 0 0 (depthAfter_braceFree hv 0), depthsFrom_braceFree v hv]
  simp only [depthsFrom, if_true]
  have h1 : depthAfter 1 inner = some 1 := by simpa using depthAfter_shift inner 0 0 1 hi
  rw [depthsFrom_app inner _ 1 1 h1, depthsFrom_shift inner 0 0 hi]
  simp [depthsFrom, List.append_assoc]

end Spec.Tex

/-! ### line counting -/
namespace Scanner

theorem countCRLF_le (a : Str) : countCRLF a ≤ a.count '\r' := by
  fun_induction countCRLF a with
  | case1 => simp
  | case2 => simp
  | case3 a b r h ih =>
    obtain ⟨h1, h2⟩ := h
    subst h1; subst h2
    simp only [List.count_cons_self]
    have : List.count '\r' ('\n' :: r) = List.count '\r' r := by
      rw [List.count_cons_of_ne (by decide)]
    omega
  | case4 a b r h ih =>
    have : List.count '\r' (b :: r) ≤ List.count '\r' (a :: b :: r) := by
      rw [List.count_cons (a := '\r') (b := a)]; omega
    omega

theorem countCRLF_append (a y : Str) (h : a.getLast? ≠ some '\r') :
    countCRLF (a ++ y) = countCRLF a + countCRLF y := by
  fun_induction countCRLF a with
  | case1 => simp
  | case2 c =>
    have hc : c ≠ '\r' := by simpa using h
    cases y with
    | nil => simp [countCRLF]
    | cons d y => simp [countCRLF, hc]
  | case3 a b r hab ih =>
    simp only [List.cons_append, countCRLF, hab, and_self, if_true]
    have : r.getLast? ≠ some '\r' := by
      cases r with
      | nil => simp
      | cons x r => simpa [List.getLast?_cons_cons] using h
    rw [ih this]; omega
  | case4 a b r hab ih =>
    simp only [List.cons_append, countCRLF, hab, if_false]
    have : (b :: r).getLast? ≠ some '\r' := by simpa [List.getLast?_cons_cons] using h
    have := ih this
    simpa using this

/-- line breaks are counted token by token: a token never ends in a carriage return -/
theorem countNewlines_append (a y : Str) (h : a.getLast? ≠ some '\r') :
    countNewlines (a ++ y) = countNewlines a + countNewlines y := by
  have h1 := countCRLF_append a y h
  have h2 := countCRLF_le a
  have h3 := countCRLF_le y
  simp only [countNewlines, List.count_append, h1]
  omega

theorem countNewlines_brace (v : Str) (b : Char) (hb : b = '{' ∨ b = '}') (y : Str) :
    countNewlines (v ++ b :: y) = countNewlines (v ++ [b]) + countNewlines y := by
  have : v ++ b :: y = (v ++ [b]) ++ y := by simp
  rw [this]
  apply countNewlines_append
  rw [List.getLast?_append]
  simp only [List.getLast?_singleton, Option.some_or, ne_eq, Option.some.injEq]
  rcases hb with hb | hb <;> (subst hb; decide)

end Scanner

/-! ### the parser against the readers -/
namespace LaTeXParser

open Scanner

theorem cn_group (v inner y : Str) :
    countNewlines (v ++ '{' :: (inner ++ '}' :: y)) =
      countNewlines (v ++ ['{']) + countNewlines (inner ++ ['}']) + countNewlines y := by
  rw [countNewlines_brace v '{' (Or.inl rfl), countNewlines_brace inner '}' (Or.inr rfl)]; omega

theorem take_prefix {α : Type} (v : List α) (b : α) (r : List α) (k : Nat) :
    (v ++ b :: r).take (v.length + 1 + k) = v ++ b :: r.take k := by
  induction v with
  | nil => simp [Nat.add_comm 1 k]
  | cons c v ih =>
    rw [show (c :: v).length + 1 + k = (v.length + 1 + k) + 1 by simp only [List.length_cons]; omega]
    simp only [List.cons_append, List.take_succ_cons, ih]

theorem sem_parts (v : Str) (ips more : List RT) :
    semL [] (.str v :: RT.mk .prot ips :: more) =
      (v.map fun c => (Atom.ch c, [])) ++ Flat.push [Markup.prot] (semL [] ips) ++ semL [] more := by
  simp only [semL, sem, sem_mk, List.nil_append, Kind.markup, List.append_assoc]
  rw [semL_ctx [Markup.prot]]

/-- **inside a group**: the parts up to the closing brace of the group denote the characters of the group body,
each at its depth; the scanner ends up just behind that brace -/
theorem parts_group : ∀ n (s : Str), s.length ≤ n → ∀ (level pos ln : Nat) (body after : Str),
    splitAtClose 0 s = some (body, after) →
    ∃ ps, iterStringParts (level + 1) ⟨s, pos, ln⟩ =
        .ok (ps, ⟨after, pos + body.length + 1, ln + countNewlines (body ++ ['}'])⟩) ∧
      semL [] ps = asFlat (depthsFrom 0 body) ∧ ∀ p ∈ ps, Normal p = true := by
  intro n
  induction n with
  | zero =>
    intro s hs level pos ln body after h
    have : s = [] := List.eq_nil_of_length_eq_zero (by omega)
    subst this; simp [splitAtClose] at h
  | succ n ih =>
    intro s hs level pos ln body after h
    rw [iterStringParts_eq]
    cases hsk : skipToBrace s with
    | none =>
      have := splitAtClose_braceFree s ((skipToBrace_none_iff s).1 hsk) 0
      rw [this] at h; cases h
    | some p =>
      obtain ⟨v, b, r⟩ := p
      obtain ⟨hs1, hv, hb⟩ := skipToBrace_some hsk
      subst hs1
      simp only
      have hr_len : r.length ≤ n := by simp only [List.length_append, List.length_cons] at hs; omega
      rcases hb with hb | hb
      · subst hb
        simp only [↓reduceIte]
        rw [splitAtClose_open v r hv] at h
        cases h1 : splitAtClose 0 r with
        | none => simp [h1] at h
        | some p1 =>
          obtain ⟨inner, r2⟩ := p1
          simp only [h1, Option.bind_some] at h
          cases h2 : splitAtClose 0 r2 with
          | none => simp [h2] at h
          | some p2 =>
            obtain ⟨b2, after'⟩ := p2
            simp only [h2, Option.map_some, Option.some.injEq, Prod.mk.injEq] at h
            obtain ⟨hbody, hafter⟩ := h
            subst hafter
            subst hbody
            obtain ⟨er, hdi⟩ := splitAtClose_eq r 0 inner r2 h1
            have hr2_len : r2.length ≤ n := by
              rw [er] at hr_len; simp only [List.length_append, List.length_cons] at hr_len; omega
            obtain ⟨ips, hi1, hi2, hi3⟩ := ih r hr_len (level + 1) (pos + v.length + 1)
              (ln + countNewlines (v ++ ['{'])) inner r2 h1
            obtain ⟨more, hm1, hm2, hm3⟩ := ih r2 hr2_len level (pos + v.length + 1 + inner.length + 1)
              (ln + countNewlines (v ++ ['{']) + countNewlines (inner ++ ['}'])) b2 after' h2
            refine ⟨.str v :: RT.mk .prot ips :: more, ?_, ?_, ?_⟩
            · simp only [State.advance]
              rw [hi1]
              simp only
              rw [hm1]
              simp only
              have e1 : pos + v.length + 1 + inner.length + 1 + b2.length + 1
                  = pos + (v ++ '{' :: (inner ++ '}' :: b2)).length + 1 := by
                simp only [List.length_append, List.length_cons]; omega
              have e2 : (v ++ '{' :: (inner ++ '}' :: b2)) ++ ['}'] = v ++ '{' :: (inner ++ '}' :: (b2 ++ ['}'])) := by
                simp
              rw [e1, e2, cn_group]
              simp only [Nat.add_assoc]
            · rw [sem_parts, hi2, hm2, depthsFrom_prefix_group v inner b2 hv hdi, asFlat_append, asFlat_append,
                asFlat_shift, asFlat_chars]
            · intro p hp
              simp only [List.mem_cons] at hp
              rcases hp with hp | hp | hp
              · subst hp; rfl
              · subst hp; exact normal_mk .prot ips hi3
              · exact hm3 p hp
      · subst hb
        rw [splitAtClose_close v r hv] at h
        simp only [Option.some.injEq, Prod.mk.injEq] at h
        obtain ⟨e1, e2⟩ := h
        subst e1; subst e2
        simp only [show ('}' : Char) ≠ '{' by decide, if_false, Nat.succ_ne_zero]
        refine ⟨[.str v], rfl, ?_, ?_⟩
        · simp only [semL, sem, List.append_nil]
          rw [depthsFrom_braceFree v hv, asFlat_chars]
        · intro p hp; simp only [List.mem_singleton] at hp; subst hp; rfl

/-- **top level, balanced**: the parts denote the characters of the value, each at its depth -/
theorem parts_top : ∀ n (s : Str), s.length ≤ n → ∀ (pos ln : Nat), depthAfter 0 s = some 0 →
    ∃ ps st', iterStringParts 0 ⟨s, pos, ln⟩ = .ok (ps, st') ∧
      semL [] ps = asFlat (depthsFrom 0 s) ∧ ∀ p ∈ ps, Normal p = true := by
  intro n
  induction n with
  | zero =>
    intro s hs pos ln _
    have : s = [] := List.eq_nil_of_length_eq_zero (by omega)
    subst this
    rw [iterStringParts_eq]
    exact ⟨[], _, rfl, rfl, fun p hp => by cases hp⟩
  | succ n ih =>
    intro s hs pos ln hd
    rw [iterStringParts_eq]
    cases hsk : skipToBrace s with
    | none =>
      have hbf := (skipToBrace_none_iff s).1 hsk
      simp only [bne_self_eq_false, Bool.false_eq_true, if_false]
      refine ⟨_, _, rfl, ?_, ?_⟩
      · rw [depthsFrom_braceFree s hbf, asFlat_chars]
        cases s with
        | nil => rfl
        | cons c s => simp [semL, sem]
      · intro p hp
        split at hp
        · cases hp
        · simp only [List.mem_singleton] at hp; subst hp; rfl
    | some p =>
      obtain ⟨v, b, r⟩ := p
      obtain ⟨hs1, hv, hb⟩ := skipToBrace_some hsk
      subst hs1
      simp only
      have hr_len : r.length ≤ n := by simp only [List.length_append, List.length_cons] at hs; omega
      rcases hb with hb | hb
      · subst hb
        simp only [↓reduceIte]
        have hd1 : depthAfter 1 r = some 0 := by
          rw [depthAfter_app, depthAfter_braceFree hv] at hd
          simpa [depthAfter] using hd
        cases h1 : splitAtClose 0 r with
        | none => have := splitAtClose_none_depth r 0 0 h1 hd1; omega
        | some p1 =>
          obtain ⟨inner, r2⟩ := p1
          obtain ⟨er, hdi⟩ := splitAtClose_eq r 0 inner r2 h1
          have hr2_len : r2.length ≤ n := by
            rw [er] at hr_len; simp only [List.length_append, List.length_cons] at hr_len; omega
          have hd2 : depthAfter 0 r2 = some 0 := by
            rw [er, depthAfter_prefix_group v inner r2 hv hdi] at hd; exact hd
          obtain ⟨ips, hi1, hi2, hi3⟩ := parts_group n r hr_len 0 (pos + v.length + 1)
            (ln + countNewlines (v ++ ['{'])) inner r2 h1
          obtain ⟨more, st', hm1, hm2, hm3⟩ := ih r2 hr2_len (pos + v.length + 1 + inner.length + 1)
            (ln + countNewlines (v ++ ['{']) + countNewlines (inner ++ ['}'])) hd2
          refine ⟨.str v :: RT.mk .prot ips :: more, st', ?_, ?_, ?_⟩
          · simp only [State.advance]
            rw [hi1]
            simp only
            rw [hm1]
          · rw [sem_parts, hi2, hm2, er, depthsFrom_prefix_group v inner r2 hv hdi, asFlat_append, asFlat_append,
              asFlat_shift, asFlat_chars]
          · intro p hp
            simp only [List.mem_cons] at hp
            rcases hp with hp | hp | hp
            · subst hp; rfl
            · subst hp; exact normal_mk .prot ips hi3
            · exact hm3 p hp
      · subst hb
        rw [depthAfter_app, depthAfter_braceFree hv] at hd
        simp [depthAfter] at hd

/-- **top level, a closing brace that closes nothing**: the error is raised just behind it -/
theorem err_close : ∀ n (s : Str), s.length ≤ n → ∀ (pos ln : Nat) (body after : Str),
    splitAtClose 0 s = some (body, after) →
    iterStringParts 0 ⟨s, pos, ln⟩ =
      .error (.unbalanced (ln + countNewlines (body ++ ['}'])) (pos + body.length + 1)) := by
  intro n
  induction n with
  | zero =>
    intro s hs pos ln body after h
    have : s = [] := List.eq_nil_of_length_eq_zero (by omega)
    subst this; simp [splitAtClose] at h
  | succ n ih =>
    intro s hs pos ln body after h
    rw [iterStringParts_eq]
    cases hsk : skipToBrace s with
    | none =>
      have := splitAtClose_braceFree s ((skipToBrace_none_iff s).1 hsk) 0
      rw [this] at h; cases h
    | some p =>
      obtain ⟨v, b, r⟩ := p
      obtain ⟨hs1, hv, hb⟩ := skipToBrace_some hsk
      subst hs1
      simp only
      have hr_len : r.length ≤ n := by simp only [List.length_append, List.length_cons] at hs; omega
      rcases hb with hb | hb
      · subst hb
        simp only [↓reduceIte]
        rw [splitAtClose_open v r hv] at h
        cases h1 : splitAtClose 0 r with
        | none => simp [h1] at h
        | some p1 =>
          obtain ⟨inner, r2⟩ := p1
          simp only [h1, Option.bind_some] at h
          cases h2 : splitAtClose 0 r2 with
          | none => simp [h2] at h
          | some p2 =>
            obtain ⟨b2, after'⟩ := p2
            simp only [h2, Option.map_some, Option.some.injEq, Prod.mk.injEq] at h
            obtain ⟨hbody, hafter⟩ := h
            subst hafter
            subst hbody
            obtain ⟨er, hdi⟩ := splitAtClose_eq r 0 inner r2 h1
            have hr2_len : r2.length ≤ n := by
              rw [er] at hr_len; simp only [List.length_append, List.length_cons] at hr_len; omega
            obtain ⟨ips, hi1, _, _⟩ := parts_group n r hr_len 0 (pos + v.length + 1)
              (ln + countNewlines (v ++ ['{'])) inner r2 h1
            have hm := ih r2 hr2_len (pos + v.length + 1 + inner.length + 1)
              (ln + countNewlines (v ++ ['{']) + countNewlines (inner ++ ['}'])) b2 after' h2
            simp only [State.advance]
            rw [hi1]
            simp only
            rw [hm]
            simp only
            have e1 : pos + v.length + 1 + inner.length + 1 + b2.length + 1
                = pos + (v ++ '{' :: (inner ++ '}' :: b2)).length + 1 := by
              simp only [List.length_append, List.length_cons]; omega
            have e2 : (v ++ '{' :: (inner ++ '}' :: b2)) ++ ['}'] = v ++ '{' :: (inner ++ '}' :: (b2 ++ ['}'])) := by
              simp
            rw [e1, e2, cn_group]
            simp only [Nat.add_assoc]
      · subst hb
        rw [splitAtClose_close v r hv] at h
        simp only [Option.some.injEq, Prod.mk.injEq] at h
        obtain ⟨e1, e2⟩ := h
        subst e1; subst e2
        simp only [show ('}' : Char) ≠ '{' by decide, if_false, if_true, State.advance]

/-- **a group is still open at the end** (or: inside a group, no closing brace left): the error is raised at the
end of the text with the scanner just behind the last brace -/
theorem err_eof : ∀ n (s : Str), s.length ≤ n → ∀ (level pos ln : Nat), splitAtClose 0 s = none →
    (level ≠ 0 ∨ depthAfter 0 s ≠ some 0) →
    iterStringParts level ⟨s, pos, ln⟩ =
      .error (.unbalanced (ln + countNewlines (s.take (lastBraceEnd s))) (pos + lastBraceEnd s)) := by
  intro n
  induction n with
  | zero =>
    intro s hs level pos ln _ hl
    have : s = [] := List.eq_nil_of_length_eq_zero (by omega)
    subst this
    rw [iterStringParts_eq]
    rcases hl with hl | hl
    · simp [skipToBrace, hl, lastBraceEnd, countNewlines, countCRLF]
    · exact absurd rfl hl
  | succ n ih =>
    intro s hs level pos ln h hl
    rw [iterStringParts_eq]
    cases hsk : skipToBrace s with
    | none =>
      have hbf := (skipToBrace_none_iff s).1 hsk
      have hlev : level ≠ 0 := by
        rcases hl with hl | hl
        · exact hl
        · exact absurd (depthAfter_braceFree hbf 0) hl
      simp [hlev, lastBraceEnd_braceFree s hbf, countNewlines, countCRLF]
    | some p =>
      obtain ⟨v, b, r⟩ := p
      obtain ⟨hs1, hv, hb⟩ := skipToBrace_some hsk
      subst hs1
      simp only
      have hr_len : r.length ≤ n := by simp only [List.length_append, List.length_cons] at hs; omega
      rcases hb with hb | hb
      · subst hb
        simp only [↓reduceIte]
        rw [splitAtClose_open v r hv] at h
        cases h1 : splitAtClose 0 r with
        | none =>
          have hi := ih r hr_len (level + 1) (pos + v.length + 1) (ln + countNewlines (v ++ ['{'])) h1
            (Or.inl (by omega))
          simp only [State.advance]
          rw [hi]
          simp only
          rw [lastBraceEnd_prefix v '{' (Or.inl rfl) r, take_prefix,
            countNewlines_brace v '{' (Or.inl rfl) (r.take (lastBraceEnd r))]
          congr 2 <;> omega
        | some p1 =>
          obtain ⟨inner, r2⟩ := p1
          simp only [h1, Option.bind_some, Option.map_eq_none_iff] at h
          obtain ⟨er, hdi⟩ := splitAtClose_eq r 0 inner r2 h1
          have hr2_len : r2.length ≤ n := by
            rw [er] at hr_len; simp only [List.length_append, List.length_cons] at hr_len; omega
          obtain ⟨ips, hi1, _, _⟩ := parts_group n r hr_len level (pos + v.length + 1)
            (ln + countNewlines (v ++ ['{'])) inner r2 h1
          have hl2 : level ≠ 0 ∨ depthAfter 0 r2 ≠ some 0 := by
            rcases hl with hl | hl
            · exact Or.inl hl
            · right; rw [er, depthAfter_prefix_group v inner r2 hv hdi] at hl; exact hl
          have hm := ih r2 hr2_len level (pos + v.length + 1 + inner.length + 1)
            (ln + countNewlines (v ++ ['{']) + countNewlines (inner ++ ['}'])) h hl2
          simp only [State.advance]
          rw [hi1]
          simp only
          rw [hm]
          simp only
          rw [er, lastBraceEnd_prefix v '{' (Or.inl rfl), lastBraceEnd_prefix inner '}' (Or.inr rfl), take_prefix,
            take_prefix, cn_group]
          congr 2 <;> omega
      · subst hb
        rw [splitAtClose_close v r hv] at h
        cases h

/-- `balanced` and `unbalancedAt` agree -/
theorem unbalancedAt_none_iff (d : Str) : unbalancedAt d = none ↔ balanced d = true := by
  unfold unbalancedAt
  cases h : splitAtClose 0 d with
  | none => simp only; split <;> simp_all
  | some p =>
    obtain ⟨body, after⟩ := p
    obtain ⟨e, hd⟩ := splitAtClose_eq d 0 body after h
    simp only [reduceCtorEq, false_iff, Bool.not_eq_true]
    have : depthAfter 0 d = none := by
      rw [e, depthAfter_app, hd]; simp [depthAfter]
    simp [balanced, this]

/-- **`LaTeXParser(d).parse()` on a brace-balanced text** -/
theorem parse_balanced (d : Str) (h : balanced d = true) :
    ∃ t, parse d = .ok t ∧ sem [] t = asFlat (depthsFrom 0 d) ∧ Normal t = true := by
  have hd : depthAfter 0 d = some 0 := by simpa [balanced] using h
  obtain ⟨ps, st', h1, h2, h3⟩ := parts_top d.length d (Nat.le_refl _) 0 1 hd
  refine ⟨RT.mk .text ps, ?_, ?_, normal_mk .text ps h3⟩
  · simp only [parse, State.init, h1]
  · rw [sem_mk]; simp only [sem, Kind.markup, List.append_nil]; exact h2

/-- **`LaTeXParser(d).parse()` on an unbalanced text: the located syntax error** -/
theorem parse_unbalanced (d : Str) (p : Nat) (h : unbalancedAt d = some p) :
    parse d = .error (.unbalanced (1 + countNewlines (d.take p)) p) := by
  unfold unbalancedAt at h
  cases hs : splitAtClose 0 d with
  | some q =>
    obtain ⟨body, after⟩ := q
    simp only [hs, Option.some.injEq] at h
    subst h
    obtain ⟨e, _⟩ := splitAtClose_eq d 0 body after hs
    have := err_close d.length d (Nat.le_refl _) 0 1 body after hs
    simp only [parse, State.init, this]
    have ht : d.take (body.length + 1) = body ++ ['}'] := by
      rw [e]
      have := take_prefix body '}' after 0
      simpa using this
    rw [ht]; simp
  | none =>
    simp only [hs] at h
    split at h
    · cases h
    · rename_i hb
      simp only [Option.some.injEq] at h
      subst h
      have hne : depthAfter 0 d ≠ some 0 := by simpa [balanced] using hb
      have := err_eof d.length d (Nat.le_refl _) 0 0 1 hs (Or.inr hne)
      simp only [parse, State.init, this]
      simp

end LaTeXParser
end Pybtex
