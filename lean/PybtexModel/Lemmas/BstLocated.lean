/-
Located syntax errors: what the parser answers at an offending lexeme, and on which line.
-/
import PybtexModel.Lemmas.BstLines

namespace Pybtex.Bst
open Pybtex.Scanner

/-- not the name of a command (any non-word lexeme, or a word the table does not know) -/
def NotCommand (bad : Lex) : Prop := ∀ s, bad = .word s → cmdArity s = none

theorem firstMatch_name_none (l : Lex) (hnw : ∀ s, l ≠ .word s) (rest : Str) :
    firstMatch [(TokKind.name, namePat)] (l.text ++ rest) = none := by
  have := (headSat_nonword l hnw rest).1
  simp only [firstMatch, namePat_none _ this]

/-- at a lexeme that is not a command name `parse_command` reports "BST command expected" on the
line reached after the white space in front of it -/
theorem parseCommand_bad (bad : Lex) (hok : LexOK bad) (hbad : NotCommand bad) (w rest : Str)
    (hw : White w) (ln : Nat) (hf : Follows bad rest) :
    parseCommand ⟨w ++ (bad.text ++ rest), ln⟩
      = .error (.tokenRequired "BST command".toList (ln + nl w)) := by
  by_cases hword : ∃ s, bad = .word s
  · obtain ⟨s, rfl⟩ := hword
    obtain ⟨n1, n2⟩ := hok
    have hreq := required_text [(TokKind.name, namePat)] .name s rest w n1
      (lex_text_head (.word s) ⟨n1, n2⟩) hw
      (by
        cases hn : s with
        | nil => exact absurd hn n1
        | cons ch r =>
          have := matchRun1_append isNameChar ch r rest (by rw [← hn]; exact n2) hf
          simp only [List.cons_append] at this
          simp only [firstMatch, namePat, runPat, List.cons_append, this])
      (some "BST command".toList) true ln
    simp only [parseCommand, Lex.text]
    rw [hreq]
    simp only [cmdArityM_eq, hbad s rfl, nl]
  · have hnw : ∀ s, bad ≠ .word s := fun s h => hword ⟨s, h⟩
    have hne := lex_text_ne_nil bad hok
    have hh : headSat isWs (bad.text ++ rest) = false := by
      rw [headSat_append_of_ne_nil _ _ _ hne]; exact lex_text_head bad hok
    simp only [parseCommand]
    rw [required_eq, eatWs_append w _ ln (fun c hc => (hw c hc).1) hh, hw.countNewlines]
    simp only []
    cases htext : bad.text ++ rest with
    | nil => simp at htext; exact absurd htext.1 hne
    | cons c r =>
      simp only []
      rw [← htext, firstMatch_name_none bad hnw rest]
      simp only [nl]

theorem describe_lbrace : describe [(TokKind.lbrace, lbracePat)] = "'{'".toList := by rfl

theorem lex_head_ne_lbrace (bad : Lex) (hok : LexOK bad) (hb : bad ≠ .lb) (rest : Str) :
    matchLit ['{'] (bad.text ++ rest) = none := by
  cases bad with
  | word s =>
    obtain ⟨n1, n2⟩ := hok
    cases s with
    | nil => exact absurd rfl n1
    | cons c s =>
      have hc := n2 c (by simp)
      have : c ≠ '{' := by intro h; subst h; simp [isNameChar] at hc
      have h2 : ¬ ('{' = c) := fun h => this h.symm
      simp [Lex.text, matchLit, h2]
  | int v => simp [Lex.text, intText, matchLit]
  | str s => simp [Lex.text, matchLit]
  | lb => exact absurd rfl hb
  | rb => simp [Lex.text, matchLit]

/-- where the `{` of an argument group is required and something else stands: "'{' expected" -/
theorem parseGroups_bad (j : Nat) (bad : Lex) (hok : LexOK bad) (hb : bad ≠ .lb) (w rest : Str)
    (hw : White w) (ln : Nat) :
    parseGroups (j + 1) ⟨w ++ (bad.text ++ rest), ln⟩
      = .error (.tokenRequired "'{'".toList (ln + nl w)) := by
  have hne := lex_text_ne_nil bad hok
  have hh : headSat isWs (bad.text ++ rest) = false := by
    rw [headSat_append_of_ne_nil _ _ _ hne]; exact lex_text_head bad hok
  simp only [parseGroups]
  rw [required_eq, eatWs_append w _ ln (fun c hc => (hw c hc).1) hh, hw.countNewlines]
  simp only []
  cases htext : bad.text ++ rest with
  | nil => simp at htext; exact absurd htext.1 hne
  | cons c r =>
    simp only []
    have : firstMatch [(TokKind.lbrace, lbracePat)] (c :: r) = none := by
      rw [← htext]
      simp only [firstMatch, lbracePat, litPat, lex_head_ne_lbrace bad hok hb rest, Option.map_none]
    rw [this]
    simp only [describe_lbrace, nl]

/-- at the end of the text a required token is a premature end of file, on the last line -/
theorem required_eof {κ : Type} (pats : List (κ × Pattern)) (d : Option Str) (w : Str)
    (hw : White w) (ln : Nat) :
    required pats d false ⟨w, ln⟩ = .error (.prematureEOF (ln + nl w)) := by
  have h := eatWs_append w [] ln (fun c hc => (hw c hc).1) (by simp [headSat])
  simp only [List.append_nil] at h
  rw [required_eq, h, hw.countNewlines]
  simp [nl]

theorem parseGroups_eof (j : Nat) (w : Str) (hw : White w) (ln : Nat) :
    parseGroups (j + 1) ⟨w, ln⟩ = .error (.prematureEOF (ln + nl w)) := by
  simp only [parseGroups, required_eof _ _ w hw ln]

theorem parseGroupF_eof (n : Nat) (w : Str) (hw : White w) (ln : Nat) :
    parseGroupF (n + 1) ⟨w, ln⟩ = .error (.prematureEOF (ln + nl w)) := by
  simp only [parseGroupF, required_eof _ _ w hw ln]

/-- a `"` that is never closed: no token matches there -/
theorem parseGroupF_open_string (n : Nat) (w J : Str) (hw : White w) (hJ : '"' ∉ J) (ln : Nat) :
    parseGroupF (n + 1) ⟨w ++ '"' :: J, ln⟩
      = .error (.tokenRequired (describe groupPats) (ln + nl w)) := by
  have hh : headSat isWs ('"' :: J) = false := by simp [headSat, isWs, wsCodes]
  have h1 : namePat.run ('"' :: J) = none := namePat_none _ (by simp [headSat, isNameChar])
  have h2 : matchString ('"' :: J) = none := by
    have := takeRun_append (fun c => c != '"') J [] (by
      intro c hc; simp only [bne_iff_ne, ne_eq]; intro h; subst h; exact hJ hc) (by simp [headSat])
    simp only [List.append_nil] at this
    simp only [matchString, this]
  have hfm : firstMatch groupPats ('"' :: J) = none := by
    simp [groupPats, firstMatch, h1, stringPat, h2, integerPat, matchInteger, lbracePat, rbracePat,
      litPat, matchLit]
  simp only [parseGroupF]
  rw [required_eq, eatWs_append w _ ln (fun c hc => (hw c hc).1) hh, hw.countNewlines]
  simp only [hfm, nl]

/-- a command whose first groups are well-formed; what `parse_command` does depends on what
`parseGroups` does with the rest -/
theorem command_partialT (T : Str) (hT : TailOK T) (name : Str) (gs : List (List Tok)) (j : Nat) (prev : Option Lex)
    (more : List Lex) (W : List Str) (ln : Nat) (hname : wfName name = true)
    (har : cmdArity name = some (gs.length + j)) (hgs : gs.all wfToks = true)
    (hmore : ∀ x ∈ more, LexOK x)
    (hg : GoodW prev (.word name :: (groupsLexemes gs ++ more)) W) :
    ∃ ln', parseCommand ⟨renderWT T (.word name :: (groupsLexemes gs ++ more)) W, ln⟩
        = (match prependG gs (parseGroups j
              ⟨renderWT T more (W.drop ((groupsLexemes gs).length + 1)), ln'⟩) with
           | .error e => .error e
           | .ok (gs', st2) => .ok (⟨name, gs'⟩, st2)) ∧
      GoodW (if gs = [] then some (.word name) else some .rb) more
        (W.drop ((groupsLexemes gs).length + 1)) ∧
      ln' + nl (renderWT T more (W.drop ((groupsLexemes gs).length + 1)))
        = ln + nl (renderWT T (.word name :: (groupsLexemes gs ++ more)) W) := by
  obtain ⟨n1, n2, _⟩ := wfName_ok hname
  obtain ⟨hw, _, hg'⟩ := hg
  have hfol := follows_of_goodT T hT (.word name) _ _ hg'
  have hok : LexOK (.word name) := ⟨n1, n2⟩
  have hreq := required_text [(TokKind.name, namePat)] .name name
    (renderWT T (groupsLexemes gs ++ more) W.tail) (W.headD []) n1 (lex_text_head _ hok) hw
    (by
      cases hn : name with
      | nil => exact absurd hn n1
      | cons ch r =>
        have := matchRun1_append isNameChar ch r _ (by rw [← hn]; exact n2) hfol
        simp only [List.cons_append] at this
        simp only [firstMatch, namePat, runPat, List.cons_append, this])
    (some "BST command".toList) true ln
  obtain ⟨ln1, hp1, hgood1, hcons1⟩ :=
    groups_prefixT T hT gs j (some (.word name)) more W.tail (ln + (W.headD []).count '\n') hgs hmore hg'
  rw [tail_drop] at hp1 hgood1 hcons1
  refine ⟨ln1, ?_, hgood1, ?_⟩
  · simp only [parseCommand, renderWT, Lex.text]
    rw [hreq]
    simp only [cmdArityM_eq, har, hp1]
    rfl
  · rw [hcons1]
    simp only [renderWT, nl_append, lex_text_no_nl _ hok]
    simp only [nl]; omega

theorem command_partial (name : Str) (gs : List (List Tok)) (j : Nat) (prev : Option Lex)
    (more : List Lex) (W : List Str) (ln : Nat) (hname : wfName name = true)
    (har : cmdArity name = some (gs.length + j)) (hgs : gs.all wfToks = true)
    (hmore : ∀ x ∈ more, LexOK x)
    (hg : GoodW prev (.word name :: (groupsLexemes gs ++ more)) W) :
    ∃ ln', parseCommand ⟨renderW (.word name :: (groupsLexemes gs ++ more)) W, ln⟩
        = (match prependG gs (parseGroups j
              ⟨renderW more (W.drop ((groupsLexemes gs).length + 1)), ln'⟩) with
           | .error e => .error e
           | .ok (gs', st2) => .ok (⟨name, gs'⟩, st2)) ∧
      GoodW (if gs = [] then some (.word name) else some .rb) more
        (W.drop ((groupsLexemes gs).length + 1)) ∧
      ln' + nl (renderW more (W.drop ((groupsLexemes gs).length + 1)))
        = ln + nl (renderW (.word name :: (groupsLexemes gs ++ more)) W) := by
  simpa only [renderWT_nil] using command_partialT [] TailOK.nil name gs j prev more W ln hname har hgs hmore hg

/-- the line the scanner is on when it has passed the white space in front of lexeme `a.length` -/
theorem line_at (a : List Lex) (bad : Lex) (more : List Lex) (W : List Str) (gaps : List Gap)
    (ln' : Nat)
    (hcons : ln' + nl (renderW (bad :: more) (W.drop a.length))
      = 1 + nl (renderW (a ++ bad :: more) W))
    (hlines : nl (cleanBefore (a ++ bad :: more) W a.length)
      = breaks (textBefore none (a ++ bad :: more) gaps a.length)) :
    ln' + nl ((W.drop a.length).headD []) = lexLine (a ++ bad :: more) gaps a.length := by
  rw [renderW_split] at hcons
  simp only [renderW, nl_append, List.tail_drop] at hcons
  unfold lexLine
  rw [← hlines]
  omega

end Pybtex.Bst
