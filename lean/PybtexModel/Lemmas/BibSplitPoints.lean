/-
C01, independence of the *split points* of a value.

A `.bib` value is a `#`-concatenation of pieces (literals and macro names).  `Spec.Bib.denote` uses a
value only through `expand` (macro expansion followed by concatenation), so HOW a value is cut into
pieces cannot matter: `jv # " x " # jan`, `jv # " " # "x" # " " # jan` and `jv # { x } # jan` are the
same field.  `C01_layout_independent` fixes ONE abstract document (hence one cutting of every
value) and varies the layout; this file states the remaining independence:

* `ValEq v w`: the two values have the same expansion under EVERY macro table (not only the one in
  force), with the algebra of cutting literals (`valEq_lit_split`, `valEq_lit_nil`, `valEq_lits`)
  and the congruence rules;
* `CmdEq` / `DocEq`: two commands / documents that agree in everything but the cutting of their
  values;
* `denote_docEq`, `denoteD_docEq`, `reports_docEq`: `DocEq` documents denote the same database and
  have the same reports; `DocEq.written`: `written` preserves `DocEq`;
* `C01_split_point_independent` (+ `_dups`, `_ci`): the reader returns the same database (and, for
  documents that repeat identifiers, the same reports) on the renderings of two `DocEq` documents.

Nothing here unfolds the reader: the theorems about `parseBib` are corollaries of
`parseBib_faithfulD` / `WF_spec` (the lemmas behind `Props.C01_faithful_dups` / `Props.C01_faithful`).
-/
import PybtexModel.Lemmas.BibRoundTrip

namespace Pybtex.BibRT
open Pybtex Pybtex.Bib Pybtex.BibSpec

/-! ## values with the same expansion under every macro table -/

/-- Two values are *equivalent* when they expand to the same text under every macro table: they
differ at most in how the literal text between the macro names is cut into `#`-pieces. -/
def ValEq (v w : Value) : Prop := ∀ m : Macros, expand m v = expand m w

theorem expand_nil (m : Macros) : expand m [] = [] := rfl

theorem expand_cons (m : Macros) (p : Piece) (v : Value) :
    expand m (p :: v) = expandPiece m p ++ expand m v := by
  simp only [expand, expandPieces, List.map_cons, List.flatten_cons]

theorem expand_append (m : Macros) (v w : Value) : expand m (v ++ w) = expand m v ++ expand m w := by
  simp only [expand, expandPieces, List.map_append, List.flatten_append]

theorem expand_lit (m : Macros) (s : Str) (v : Value) : expand m (.lit s :: v) = s ++ expand m v := by
  rw [expand_cons]; rfl

theorem ValEq.refl (v : Value) : ValEq v v := fun _ => rfl

theorem ValEq.symm {v w : Value} (h : ValEq v w) : ValEq w v := fun m => (h m).symm

theorem ValEq.trans {u v w : Value} (h₁ : ValEq u v) (h₂ : ValEq v w) : ValEq u w :=
  fun m => (h₁ m).trans (h₂ m)

theorem ValEq.of_eq {v w : Value} (h : v = w) : ValEq v w := h ▸ ValEq.refl v

/-- congruence under `#` (concatenation of values) -/
theorem ValEq.append {v v' w w' : Value} (h₁ : ValEq v v') (h₂ : ValEq w w') : ValEq (v ++ w) (v' ++ w') := by
  intro m
  rw [expand_append, expand_append, h₁ m, h₂ m]

/-- the same piece in front -/
theorem ValEq.cons (p : Piece) {v w : Value} (h : ValEq v w) : ValEq (p :: v) (p :: w) :=
  ValEq.append (ValEq.refl [p]) h

/-- **A literal may be cut anywhere**: `"ab" # r` and `"a" # "b" # r`. -/
theorem valEq_lit_split (a b : Str) (r : Value) : ValEq (.lit (a ++ b) :: r) (.lit a :: .lit b :: r) := by
  intro m
  simp only [expand_lit, List.append_assoc]

/-- An empty literal contributes nothing: `"" # r` and `r`.  (As an equivalence of values this holds
for every `r`, the empty value included; that a value of a *document* has at least one piece is a
matter of `WF` / `valueOk`, not of `ValEq`: `[.lit []]` is a well-formed value, `[]` is not, and the
two are `ValEq`.) -/
theorem valEq_lit_nil (r : Value) : ValEq (.lit [] :: r) r := by
  intro m
  simp only [expand_lit, List.nil_append]

/-- any cutting `ss` of a literal text at once: `"s₁" # … # "sₙ" # r` and `"s₁…sₙ" # r` -/
theorem valEq_lits (ss : List Str) (r : Value) : ValEq (ss.map Piece.lit ++ r) (.lit ss.flatten :: r) := by
  induction ss with
  | nil => exact (valEq_lit_nil r).symm
  | cons s ss ih =>
    simp only [List.map_cons, List.cons_append, List.flatten_cons]
    exact (ValEq.cons (.lit s) ih).trans (valEq_lit_split s ss.flatten r).symm

/-- equivalent values have the same expanded text, a fortiori the same normalised text -/
theorem ValEq.normalized {v w : Value} (h : ValEq v w) (m : Macros) :
    normalizeWs (expand m v) = normalizeWs (expand m w) := by rw [h m]

/- A macro piece is NOT interchangeable with the text it currently stands for: `[.macro n]` and
`[.lit s]` have the same expansion under the tables that map `n` to `s`, not under all tables, and a
document may redefine `n` (or the two occurrences may stand at places where different tables are in
force).  `ValEq` quantifies over all tables precisely so that it is a congruence for documents
(`denoteFrom_docEq` below needs no hypothesis on the table).  In fact a macro piece is never
`ValEq` to a literal: -/

/-- a macro piece is not equivalent to any literal: the empty table separates them when the literal
is non-empty, a table that defines the macro as `x` when it is empty -/
theorem not_valEq_macro_lit (n s : Str) : ¬ ValEq [.macro n] [.lit s] := by
  intro h
  cases s with
  | nil =>
    have := h (OMap.set [] n ['x'])
    simp only [expand_cons, expand_nil, expandPiece, omap_get_set, if_true, Option.getD_some,
      List.append_nil] at this
    cases this
  | cons c s =>
    have := h []
    simp only [expand_cons, expand_nil, expandPiece, OMap.get, Option.getD_none, List.append_nil] at this
    cases this

/-- for a FIXED table the macro and its current value do expand alike (this is all `expand` does) -/
theorem expand_macro_eq_lit (m : Macros) (n s : Str) (r : Value) (h : OMap.get m n = some s) :
    expand m (.macro n :: r) = expand m (.lit s :: r) := by
  simp only [expand_cons, expandPiece, h, Option.getD_some]

/-! ## commands and documents that differ only in the cutting of their values -/

/-- same field name, equivalent values -/
def FieldEq (f g : Str × Value) : Prop := f.1 = g.1 ∧ ValEq f.2 g.2

/-- Two commands that agree in everything but the cutting of their values: the same kind of command;
entries with the same type and key and, pairwise in the same order, fields of the same name with
equivalent values; `@string` definitions of the same name with equivalent values; `@preamble`s with
equivalent values; the same comment / junk text. -/
inductive CmdEq : ACmd → ACmd → Prop
  | entry (ty key : Str) {fs gs : List (Str × Value)} (h : List.Forall₂ FieldEq fs gs) :
      CmdEq (.entry ty key fs) (.entry ty key gs)
  | strdef (n : Str) {v w : Value} (h : ValEq v w) : CmdEq (.strdef n v) (.strdef n w)
  | preamble {v w : Value} (h : ValEq v w) : CmdEq (.preamble v) (.preamble w)
  | comment (txt : Str) : CmdEq (.comment txt) (.comment txt)
  | junk (txt : Str) : CmdEq (.junk txt) (.junk txt)

/-- two documents: command by command -/
def DocEq (d₁ d₂ : ADoc) : Prop := List.Forall₂ CmdEq d₁ d₂

theorem FieldEq.refl (f : Str × Value) : FieldEq f f := ⟨rfl, ValEq.refl _⟩

theorem FieldEq.symm {f g : Str × Value} (h : FieldEq f g) : FieldEq g f := ⟨h.1.symm, h.2.symm⟩

theorem FieldEq.trans {f g k : Str × Value} (h₁ : FieldEq f g) (h₂ : FieldEq g k) : FieldEq f k :=
  ⟨h₁.1.trans h₂.1, h₁.2.trans h₂.2⟩

theorem forall₂_refl {α : Type} {R : α → α → Prop} (hR : ∀ a, R a a) : ∀ l : List α, List.Forall₂ R l l
  | [] => .nil
  | a :: l => .cons (hR a) (forall₂_refl hR l)

theorem forall₂_symm {α : Type} {R : α → α → Prop} (hR : ∀ a b, R a b → R b a) :
    ∀ {l l' : List α}, List.Forall₂ R l l' → List.Forall₂ R l' l
  | _, _, .nil => .nil
  | _, _, .cons h t => .cons (hR _ _ h) (forall₂_symm hR t)

theorem forall₂_trans {α : Type} {R : α → α → Prop} (hR : ∀ a b c, R a b → R b c → R a c) :
    ∀ {l₁ l₂ l₃ : List α}, List.Forall₂ R l₁ l₂ → List.Forall₂ R l₂ l₃ → List.Forall₂ R l₁ l₃
  | _, _, _, .nil, .nil => .nil
  | _, _, _, .cons h t, .cons h' t' => .cons (hR _ _ _ h h') (forall₂_trans hR t t')

theorem CmdEq.refl : ∀ c : ACmd, CmdEq c c
  | .entry ty key fs => .entry ty key (forall₂_refl FieldEq.refl fs)
  | .strdef n v => .strdef n (ValEq.refl v)
  | .preamble v => .preamble (ValEq.refl v)
  | .comment t => .comment t
  | .junk t => .junk t

theorem CmdEq.symm {c c' : ACmd} (h : CmdEq c c') : CmdEq c' c := by
  cases h with
  | entry ty key h => exact .entry ty key (forall₂_symm (R := FieldEq) (fun _ _ => FieldEq.symm) h)
  | strdef n h => exact .strdef n h.symm
  | preamble h => exact .preamble h.symm
  | comment t => exact .comment t
  | junk t => exact .junk t

theorem CmdEq.trans {c₁ c₂ c₃ : ACmd} (h₁ : CmdEq c₁ c₂) (h₂ : CmdEq c₂ c₃) : CmdEq c₁ c₃ := by
  cases h₁ with
  | entry ty key h => cases h₂ with | entry _ _ h' => exact .entry ty key (forall₂_trans (R := FieldEq) (fun _ _ _ => FieldEq.trans) h h')
  | strdef n h => cases h₂ with | strdef _ h' => exact .strdef n (h.trans h')
  | preamble h => cases h₂ with | preamble h' => exact .preamble (h.trans h')
  | comment t => exact h₂
  | junk t => exact h₂

theorem DocEq.refl (d : ADoc) : DocEq d d := forall₂_refl CmdEq.refl d

theorem DocEq.symm {d₁ d₂ : ADoc} (h : DocEq d₁ d₂) : DocEq d₂ d₁ := forall₂_symm (R := CmdEq) (fun _ _ => CmdEq.symm) h

theorem DocEq.trans {d₁ d₂ d₃ : ADoc} (h₁ : DocEq d₁ d₂) (h₂ : DocEq d₂ d₃) : DocEq d₁ d₃ :=
  forall₂_trans (R := CmdEq) (fun _ _ _ => CmdEq.trans) h₁ h₂

theorem DocEq.of_eq {d₁ d₂ : ADoc} (h : d₁ = d₂) : DocEq d₁ d₂ := h ▸ DocEq.refl d₁

/-! ## the denotation and the reports do not see the cutting -/

theorem denoteField_fieldEq (m : Macros) (e : Entry) {f g : Str × Value} (h : FieldEq f g) :
    denoteField m e f = denoteField m e g := by
  obtain ⟨fn, fv⟩ := f
  obtain ⟨gn, gv⟩ := g
  obtain ⟨h1, h2⟩ := h
  simp only at h1 h2
  subst h1
  simp only [denoteField, h2 m]

theorem foldl_denoteField_fieldsEq (m : Macros) {fs gs : List (Str × Value)} (h : List.Forall₂ FieldEq fs gs) :
    ∀ e : Entry, fs.foldl (denoteField m) e = gs.foldl (denoteField m) e := by
  induction h with
  | nil => intro e; rfl
  | cons hf _ ih =>
    intro e
    simp only [List.foldl_cons, denoteField_fieldEq m e hf]
    exact ih _

theorem denoteEntry_fieldsEq (m : Macros) (ty key : Str) {fs gs : List (Str × Value)}
    (h : List.Forall₂ FieldEq fs gs) : denoteEntry m ty key fs = denoteEntry m ty key gs :=
  foldl_denoteField_fieldsEq m h _

/-- the fields that count are chosen by name only -/
theorem firstFields_fieldsEq {fs gs : List (Str × Value)} (h : List.Forall₂ FieldEq fs gs) :
    ∀ seen : List Str, List.Forall₂ FieldEq (firstFields seen fs) (firstFields seen gs) := by
  induction h with
  | nil => intro seen; exact .nil
  | @cons f g fs gs hf _ ih =>
    intro seen
    simp only [firstFields, ← hf.1]
    split
    · exact ih seen
    · exact .cons hf (ih _)

theorem denoteEntryD_fieldsEq (m : Macros) (ty key : Str) {fs gs : List (Str × Value)}
    (h : List.Forall₂ FieldEq fs gs) : denoteEntryD m ty key fs = denoteEntryD m ty key gs :=
  foldl_denoteField_fieldsEq m (firstFields_fieldsEq h []) _

/-- the duplicate-field reports mention names only -/
theorem fieldReports_fieldsEq (key : Str) {fs gs : List (Str × Value)} (h : List.Forall₂ FieldEq fs gs) :
    ∀ seen : List Str, fieldReports key seen fs = fieldReports key seen gs := by
  induction h with
  | nil => intro seen; rfl
  | @cons f g fs gs hf _ ih =>
    intro seen
    simp only [fieldReports, ← hf.1]
    split
    · rw [ih seen]
    · exact ih _

/-- equivalent commands change the macro table in the same way -/
theorem stepMacros_cmdEq (m : Macros) {c₁ c₂ : ACmd} (h : CmdEq c₁ c₂) : stepMacros m c₁ = stepMacros m c₂ := by
  cases h with
  | strdef n h => simp only [stepMacros, h m]
  | _ => rfl

theorem stepDenot_cmdEq (m : Macros) (D : Denot) {c₁ c₂ : ACmd} (h : CmdEq c₁ c₂) :
    stepDenot m D c₁ = stepDenot m D c₂ := by
  cases h with
  | entry ty key h => simp only [stepDenot, denoteEntry_fieldsEq m ty key h]
  | preamble h => simp only [stepDenot, h m]
  | _ => rfl

theorem stepDenotD_cmdEq (m : Macros) (D : Denot) {c₁ c₂ : ACmd} (h : CmdEq c₁ c₂) :
    stepDenotD m D c₁ = stepDenotD m D c₂ := by
  cases h with
  | entry ty key h => simp only [stepDenotD, denoteEntryD_fieldsEq m ty key h]
  | preamble h => simp only [stepDenotD, h m]
  | _ => rfl

theorem stepKeys_cmdEq (keys : List Str) {c₁ c₂ : ACmd} (h : CmdEq c₁ c₂) : stepKeys keys c₁ = stepKeys keys c₂ := by
  cases h <;> rfl

theorem cmdReports_cmdEq (keys : List Str) {c₁ c₂ : ACmd} (h : CmdEq c₁ c₂) :
    cmdReports keys c₁ = cmdReports keys c₂ := by
  cases h with
  | entry ty key h => simp only [cmdReports, fieldReports_fieldsEq key h []]
  | _ => rfl

theorem denoteFrom_docEq {d₁ d₂ : ADoc} (h : DocEq d₁ d₂) :
    ∀ (m : Macros) (D : Denot), denoteFrom m D d₁ = denoteFrom m D d₂ := by
  induction h with
  | nil => intro m D; rfl
  | cons hc _ ih =>
    intro m D
    simp only [denoteFrom, stepMacros_cmdEq m hc, stepDenot_cmdEq m D hc]
    exact ih _ _

theorem denoteFromD_docEq {d₁ d₂ : ADoc} (h : DocEq d₁ d₂) :
    ∀ (m : Macros) (D : Denot), denoteFromD m D d₁ = denoteFromD m D d₂ := by
  induction h with
  | nil => intro m D; rfl
  | cons hc _ ih =>
    intro m D
    simp only [denoteFromD, stepMacros_cmdEq m hc, stepDenotD_cmdEq m D hc]
    exact ih _ _

theorem reportsFrom_docEq {d₁ d₂ : ADoc} (h : DocEq d₁ d₂) :
    ∀ keys : List Str, reportsFrom keys d₁ = reportsFrom keys d₂ := by
  induction h with
  | nil => intro keys; rfl
  | cons hc _ ih =>
    intro keys
    simp only [reportsFrom, cmdReports_cmdEq keys hc, stepKeys_cmdEq keys hc]
    rw [ih]

/-- **Documents that differ only in the cutting of their values denote the same database.** -/
theorem denote_docEq {d₁ d₂ : ADoc} (h : DocEq d₁ d₂) : denote d₁ = denote d₂ :=
  denoteFrom_docEq h _ _

/-- the same when field names and keys may repeat -/
theorem denoteD_docEq {d₁ d₂ : ADoc} (h : DocEq d₁ d₂) : denoteD d₁ = denoteD d₂ :=
  denoteFromD_docEq h _ _

/-- and they have the same reports (reports depend on field names and keys only) -/
theorem reports_docEq {d₁ d₂ : ADoc} (h : DocEq d₁ d₂) : reports d₁ = reports d₂ :=
  reportsFrom_docEq h _

/-! ## `written` preserves the equivalence -/

theorem writtenFields_fieldsEq {fs gs : List (Str × Value)} (h : List.Forall₂ FieldEq fs gs) :
    ∀ ls : List FieldLayout, List.Forall₂ FieldEq (writtenFields fs ls) (writtenFields gs ls) := by
  induction h with
  | nil => intro ls; exact .nil
  | @cons f g fs gs hf _ ih =>
    intro ls
    simp only [writtenFields]
    exact .cons ⟨by simp only [hf.1], hf.2⟩ (ih _)

theorem writtenCmd_cmdEq {c₁ c₂ : ACmd} (h : CmdEq c₁ c₂) (l : CmdLayout) :
    CmdEq (writtenCmd c₁ l) (writtenCmd c₂ l) := by
  cases h with
  | entry ty key h => exact .entry _ key (writtenFields_fieldsEq h _)
  | strdef n h => exact .strdef n h
  | preamble h => exact .preamble h
  | comment t => exact .comment t
  | junk t => exact .junk t

/-- `written` only changes the case of entry types and field names: under one and the same layout
(only its case masks on entry types and field names are looked at) equivalent documents stay
equivalent -/
theorem DocEq.written {d₁ d₂ : ADoc} (h : DocEq d₁ d₂) : ∀ L : Layout, DocEq (written d₁ L) (written d₂ L) := by
  induction h with
  | nil => intro L; exact .nil
  | cons hc _ ih =>
    intro L
    simp only [BibSpec.written]
    exact .cons (writtenCmd_cmdEq hc _) (ih _)

/-! ## the reader does not see the cutting -/

/-- the database read from the rendering of a `WFD` document (continue mode) and what is reported -/
theorem parseBib_dbD (d : ADoc) (L : Layout) (h : WFD d L) :
    (parseBib (render d L) false none).1.db =
      { entries := (denoteD (BibSpec.written d L)).entries, preamble := (denoteD (BibSpec.written d L)).preamble } ∧
    (parseBib (render d L) false none).1.errs = reports (BibSpec.written d L) := by
  obtain ⟨s', m', keys', h1, hinv⟩ := parseBib_faithfulD d L false h (fun hs => by cases hs)
  rw [h1]
  exact ⟨hinv.db_eq, hinv.errs⟩

/-- the database read from the rendering of a `WF` document (either mode) -/
theorem parseBib_db (d : ADoc) (L : Layout) (strict : Bool) (h : WF d L) :
    (parseBib (render d L) strict none).1.db =
      { entries := (denote (BibSpec.written d L)).entries, preamble := (denote (BibSpec.written d L)).preamble } := by
  obtain ⟨hD, hr, hden, _, _⟩ := WF_spec d L h
  obtain ⟨s', m', keys', h1, hinv⟩ := parseBib_faithfulD d L strict hD (fun _ => hr)
  rw [h1, hinv.db_eq, hden]

/-! ## the instance: `jv # " x " # jan`, `jv # " " # "x" # " " # jan`, `jv # { x } # jan` -/

/-- the value of `@string{jv = …}` in one piece, the literal of the `journal` field in one piece -/
def splitDoc₁ : ADoc := [
  .strdef "jv".toList [.lit "Journal of V".toList],
  .preamble [.lit "\\x ".toList, .macro "feb".toList],
  .entry "article".toList "k".toList
    [("journal".toList, [.macro "jv".toList, .lit " x ".toList, .macro "jan".toList])]]

/-- the same with the `@string` value cut in two (`"Journal " # "of V"`), the `@preamble` literal cut
in three (the last piece empty) and the literal of the `journal` field cut in three -/
def splitDoc₂ : ADoc := [
  .strdef "jv".toList [.lit "Journal ".toList, .lit "of V".toList],
  .preamble [.lit "\\".toList, .lit "x ".toList, .lit [], .macro "feb".toList],
  .entry "article".toList "k".toList
    [("journal".toList, [.macro "jv".toList, .lit " ".toList, .lit "x".toList, .lit " ".toList, .macro "jan".toList])]]

/-- ` # ` in front of a piece: a macro name or a braced literal -/
def hashB : PieceLayout := { beforeHash := " ".toList, afterHash := " ".toList }

/-- ` # ` in front of a quoted literal -/
def hashQ : PieceLayout := { spelling := .quoted, beforeHash := " ".toList, afterHash := " ".toList }

/-- ` Name = value` with the first letter of the name in upper case -/
def splitField (ps : List PieceLayout) : FieldLayout :=
  { beforeName := " ".toList, mask := [.up], beforeEq := " ".toList, afterEq := " ".toList, pieces := ps }

/-- quoted literals, a case mask on the field name -/
def splitLayout₁ : Layout := [
  { pieces := [{ spelling := .quoted }], afterClose := "\n".toList },
  { pieces := [{ spelling := .quoted }, hashB], afterClose := "\n".toList },
  { fields := [splitField [{}, hashQ, hashB]] }]

/-- the layout for the second document (it has more pieces): quoted literals, the same case mask -/
def splitLayout₂ : Layout := [
  { pieces := [{ spelling := .quoted }, hashQ], afterClose := "\n".toList },
  { pieces := [{ spelling := .quoted }, hashQ, hashQ, hashB], afterClose := "\n".toList },
  { fields := [splitField [{}, hashQ, hashQ, hashQ, hashB]] }]

/-- the first document again, the literals spelled in braces: `jv # { x } # jan` -/
def splitLayout₃ : Layout := [
  { pieces := [{}], afterClose := "\n".toList },
  { pieces := [{}, hashB], afterClose := "\n".toList },
  { fields := [splitField [{}, hashB, hashB]] }]

/-- the two documents as written are equivalent: from the `ValEq` facts, for ALL macro tables (so
not by evaluation) -/
theorem splitDocs_docEq :
    DocEq (BibSpec.written splitDoc₁ splitLayout₁) (BibSpec.written splitDoc₂ splitLayout₂) ∧
    DocEq (BibSpec.written splitDoc₁ splitLayout₃) (BibSpec.written splitDoc₂ splitLayout₂) := by
  have key : DocEq (BibSpec.written splitDoc₁ splitLayout₁) (BibSpec.written splitDoc₂ splitLayout₂) := by
    refine .cons (.strdef _ ?_) (.cons (.preamble ?_) (.cons (.entry _ _ (.cons ⟨rfl, ?_⟩ .nil)) .nil))
    · -- "Journal of V" = "Journal " ++ "of V"
      exact valEq_lit_split "Journal ".toList "of V".toList []
    · -- "\x " = "\" ++ "x " ++ "", in front of the macro
      exact (valEq_lits ["\\".toList, "x ".toList, []] [.macro "feb".toList]).symm
    · -- behind the macro `jv`: " x " = " " ++ "x" ++ " ", in front of the macro `jan`
      exact ValEq.cons _ (valEq_lits [" ".toList, "x".toList, " ".toList] [.macro "jan".toList]).symm
  exact ⟨key, (DocEq.of_eq (by decide +kernel)).trans key⟩

end Pybtex.BibRT

/-! ## the statements published as `C01_split_point_independent…` in `Props/C01.lean` -/

namespace Pybtex.BibRT
open Pybtex Pybtex.Bib Pybtex.BibSpec

/-- **Independence of the split points of a value.**  `ValEq v w` says that two values expand to the
same text under every macro table, i.e. they consist of the same macro names in the same order with
the same literal text between them and differ at most in how that text is cut into `#`-pieces
(`valEq_lit_split`: a literal may be cut anywhere, `valEq_lit_nil`: an empty literal may be inserted
or dropped, `ValEq.append`: piecewise; a macro name is never exchanged for its text,
`not_valEq_macro_lit`).  `DocEq` relates two documents command by command: same kinds, types, keys,
field names (in the same order), macro names, comment and junk texts, and `ValEq` values.
If two well-formed renderings are `DocEq` as written (`written` applies the case masks of the layout
to entry types and field names), the reader returns the same database for both, in either error mode:
the choice of split points — together with everything the two layouts choose, which necessarily
differ since the values have different numbers of pieces — does not appear in the result. -/
theorem split_point_independent (d₁ d₂ : ADoc) (L₁ L₂ : Layout) (strict₁ strict₂ : Bool)
    (h₁ : WF d₁ L₁) (h₂ : WF d₂ L₂) (he : DocEq (written d₁ L₁) (written d₂ L₂)) :
    (parseBib (render d₁ L₁) strict₁ none).1.db = (parseBib (render d₂ L₂) strict₂ none).1.db := by
  rw [parseBib_db d₁ L₁ strict₁ h₁, parseBib_db d₂ L₂ strict₂ h₂, denote_docEq he]

/-- The same for documents that may repeat field names and keys (`WFD`, continue mode): equal
databases AND equal reports — which field is a duplicate and which entry is repeated is decided by
names and keys, never by the cutting of a value. -/
theorem split_point_independent_dups (d₁ d₂ : ADoc) (L₁ L₂ : Layout)
    (h₁ : WFD d₁ L₁) (h₂ : WFD d₂ L₂) (he : DocEq (written d₁ L₁) (written d₂ L₂)) :
    (parseBib (render d₁ L₁) false none).1.db = (parseBib (render d₂ L₂) false none).1.db ∧
    (parseBib (render d₁ L₁) false none).1.errs = (parseBib (render d₂ L₂) false none).1.errs := by
  rw [(parseBib_dbD d₁ L₁ h₁).1, (parseBib_dbD d₂ L₂ h₂).1, (parseBib_dbD d₁ L₁ h₁).2, (parseBib_dbD d₂ L₂ h₂).2,
    denoteD_docEq he, reports_docEq he]
  exact ⟨rfl, rfl⟩

/-- When the two documents themselves are `DocEq` (whatever case masks the two layouts put on entry
types and field names), the databases agree up to the stored spelling of entry types, field names
and role names (`ciEntry`), with equal preambles; and under layouts that spell these identifiers
alike (e.g. no case masks, `plainIds`) `DocEq d₁ d₂` gives the hypothesis of
`split_point_independent` (`DocEq.written` for one layout; `written_plain`). -/
theorem split_point_independent_ci (d₁ d₂ : ADoc) (L₁ L₂ : Layout) (strict₁ strict₂ : Bool)
    (h₁ : WF d₁ L₁) (h₂ : WF d₂ L₂) (he : DocEq d₁ d₂) :
    ((parseBib (render d₁ L₁) strict₁ none).1.db.entries.map ciEntry =
        (parseBib (render d₂ L₂) strict₂ none).1.db.entries.map ciEntry ∧
      (parseBib (render d₁ L₁) strict₁ none).1.db.preamble =
        (parseBib (render d₂ L₂) strict₂ none).1.db.preamble) ∧
    (plainIds d₁ L₁ = true → plainIds d₂ L₂ = true → DocEq (written d₁ L₁) (written d₂ L₂)) := by
  have w₁ := denote_written d₁ L₁
  have w₂ := denote_written d₂ L₂
  have e := denote_docEq he
  refine ⟨?_, fun p₁ p₂ => by rw [written_plain d₁ L₁ p₁, written_plain d₂ L₂ p₂]; exact he⟩
  rw [parseBib_db d₁ L₁ strict₁ h₁, parseBib_db d₂ L₂ strict₂ h₂]
  exact ⟨by rw [w₁.1, w₂.1, e], by rw [w₁.2, w₂.2, e]⟩

/-- Non-vacuity: two different documents — `@string{jv = "Journal of V"}` against `"Journal " # "of V"`,
a `@preamble` literal in one piece against three (one of them empty), and the field
`journal = jv # " x " # jan` against `jv # " " # "x" # " " # jan` — and a third rendering that spells
the literals in braces (`jv # { x } # jan`).  All three renderings are well-formed, the documents as
written are `DocEq` (proved from the `ValEq` rules, for all macro tables), the three texts differ in
their `#` structure, and the reader evaluated on them returns the same single entry. -/
theorem split_point_independent_nonvacuous :
    splitDoc₁ ≠ splitDoc₂ ∧
    WF splitDoc₁ splitLayout₁ ∧ WF splitDoc₂ splitLayout₂ ∧ WF splitDoc₁ splitLayout₃ ∧
    DocEq (written splitDoc₁ splitLayout₁) (written splitDoc₂ splitLayout₂) ∧
    DocEq (written splitDoc₁ splitLayout₃) (written splitDoc₂ splitLayout₂) ∧
    render splitDoc₁ splitLayout₁ =
      "@string{jv=\"Journal of V\"}\n@preamble{\"\\x \" # feb}\n@article{k, Journal = jv # \" x \" # jan}".toList ∧
    render splitDoc₂ splitLayout₂ =
      ("@string{jv=\"Journal \" # \"of V\"}\n@preamble{\"\\\" # \"x \" # \"\" # feb}\n" ++
       "@article{k, Journal = jv # \" \" # \"x\" # \" \" # jan}").toList ∧
    render splitDoc₁ splitLayout₃ =
      "@string{jv={Journal of V}}\n@preamble{{\\x } # feb}\n@article{k, Journal = jv # { x } # jan}".toList ∧
    -- the reader evaluated on the second text (what the theorem says about this instance)
    (parseBib (render splitDoc₂ splitLayout₂) false none).1.db.entries.map (fun e => (e.key, e.fields)) =
      [("k".toList, [("Journal".toList, "Journal of V x January".toList)])] ∧
    (parseBib (render splitDoc₂ splitLayout₂) false none).1.db.preamble = ["\\x February".toList] := by
  refine ⟨by decide +kernel, by decide +kernel, by decide +kernel, by decide +kernel,
    splitDocs_docEq.1, splitDocs_docEq.2, by decide +kernel, by decide +kernel, by decide +kernel,
    by decide +kernel, by decide +kernel⟩

end Pybtex.BibRT
