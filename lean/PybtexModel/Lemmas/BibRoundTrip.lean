/-
Helper lemmas for C01: the printer/parser argument for the `.bib` reader.

Stage 1: character classes and scanner primitives (`eatWs`, `Pat.matchAt`, `getToken`,
`required`, `skipToChar`).  Stage 2: values.  Stage 3: fields, entries, `@string`, `@preamble`,
`@comment`.  Stage 4: whole documents.
Line numbers are not part of C01 (no located error is reported on a well-formed document), so the
lemmas quantify the resulting `ln` existentially.

The per-command lemmas are stated for `cmdOkD` (`cmdOk` without "the key / the field name is new");
stage 4 (`parseLoop_docD`) is about documents that may repeat keys and field names (`WFD`,
`denoteD`, `reports`) followed by arbitrary text; the `WF` statements are corollaries
(`WF_spec`, `parseBib_faithful`).
-/
import PybtexModel.Spec.Bib
import PybtexModel.Lemmas.Basic
import PybtexModel.Lemmas.CIMap
import PybtexModel.Lemmas.BibProcess

namespace Pybtex.BibRT
open Pybtex Pybtex.Bib Pybtex.BibSpec

/-! ## Stage 1a: character classes (facts about the regenerated tables) -/

theorem ws_table : ∀ n ∈ wsCodes, Gen.nameCharCodes.contains n = false ∧ ¬ (48 ≤ n ∧ n ≤ 57) ∧
    n ≠ 44 ∧ n ≠ 61 ∧ n ≠ 35 ∧ n ≠ 123 ∧ n ≠ 125 ∧ n ≠ 40 ∧ n ≠ 41 ∧ n ≠ 34 ∧ n ≠ 64 := by decide

theorem start_table : ∀ n ∈ Gen.nameStartCodes, Gen.nameCharCodes.contains n = true ∧
    ¬ (48 ≤ n ∧ n ≤ 57) ∧ n ≠ 34 ∧ n ≠ 123 := by decide

theorem isWs_mem {c : Char} (h : isWs c = true) : c.toNat ∈ wsCodes := by
  simpa [isWs] using h

theorem ws_not_nameChar {c : Char} (h : isWs c = true) : isNameChar c = false := by
  simpa [isNameChar] using (ws_table c.toNat (isWs_mem h)).1

theorem ws_not_digit {c : Char} (h : isWs c = true) : isDigit c = false := by
  have := (ws_table c.toNat (isWs_mem h)).2.1
  simp only [isDigit, Bool.and_eq_false_iff, decide_eq_false_iff_not]
  omega

theorem ws_ne {c : Char} (h : isWs c = true) :
    c ≠ ',' ∧ c ≠ '=' ∧ c ≠ '#' ∧ c ≠ '{' ∧ c ≠ '}' ∧ c ≠ '(' ∧ c ≠ ')' ∧ c ≠ '"' ∧ c ≠ '@' := by
  have := (ws_table c.toNat (isWs_mem h)).2.2
  refine ⟨?_, ?_, ?_, ?_, ?_, ?_, ?_, ?_, ?_⟩ <;> (rintro rfl; revert this; decide)

theorem isNameStart_mem {c : Char} (h : isNameStart c = true) : c.toNat ∈ Gen.nameStartCodes := by
  simpa [isNameStart] using h

theorem start_nameChar {c : Char} (h : isNameStart c = true) : isNameChar c = true := by
  simpa [isNameChar] using (start_table c.toNat (isNameStart_mem h)).1

theorem start_not_digit {c : Char} (h : isNameStart c = true) : isDigit c = false := by
  have := (start_table c.toNat (isNameStart_mem h)).2.1
  simp only [isDigit, Bool.and_eq_false_iff, decide_eq_false_iff_not]
  omega

theorem start_ne {c : Char} (h : isNameStart c = true) : c ≠ '"' ∧ c ≠ '{' := by
  have := (start_table c.toNat (isNameStart_mem h)).2.2
  refine ⟨?_, ?_⟩ <;> (rintro rfl; revert this; decide)

theorem digit_nameChar {c : Char} (h : isDigit c = true) : isNameChar c = true := by
  simp only [isDigit, Bool.and_eq_true, decide_eq_true_eq] at h
  have : ∀ k < 10, Gen.nameCharCodes.contains (48 + k) = true := by decide
  have := this (c.toNat - 48) (by omega)
  rwa [show 48 + (c.toNat - 48) = c.toNat by omega] at this

theorem digit_ne {c : Char} (h : isDigit c = true) : c ≠ '"' ∧ c ≠ '{' := by
  refine ⟨?_, ?_⟩ <;> (rintro rfl; revert h; decide)

/-- the delimiters and separators are not NAME characters -/
theorem sep_not_nameChar : isNameChar ',' = false ∧ isNameChar '=' = false ∧ isNameChar '#' = false ∧
    isNameChar '{' = false ∧ isNameChar '}' = false ∧ isNameChar '(' = false ∧ isNameChar ')' = false ∧
    isNameChar '"' = false := by decide

theorem sep_not_ws : isWs ',' = false ∧ isWs '=' = false ∧ isWs '#' = false ∧
    isWs '{' = false ∧ isWs '}' = false ∧ isWs '(' = false ∧ isWs ')' = false ∧
    isWs '"' = false ∧ isWs '@' = false := by decide

/-! case masks -/

theorem isAlpha_eq (c : Char) : isAlpha c = c.isAlpha := by
  simp only [isAlpha, Char.isAlpha, Char.isUpper, Char.isLower, Char.toNat, UInt32.le_iff_toNat_le,
    ge_iff_le, Bool.decide_and]
  have h1 : 'A'.val.toNat = 65 := by decide
  have h2 : 'Z'.val.toNat = 90 := by decide
  have h3 : 'a'.val.toNat = 97 := by decide
  have h4 : 'z'.val.toNat = 122 := by decide
  rw [h1, h2, h3, h4]

theorem lowerC_of_not_alpha {c : Char} (h : isAlpha c = false) : lowerC c = c := by
  apply Char.toLower_eq_of_not_isUpper
  rw [isAlpha_eq] at h
  simp only [Char.isAlpha, Bool.or_eq_false_iff] at h
  simp [h.1]

theorem upperC_of_not_alpha {c : Char} (h : isAlpha c = false) : upperC c = c := by
  apply Char.toUpper_eq_of_not_isLower
  rw [isAlpha_eq] at h
  simp only [Char.isAlpha, Bool.or_eq_false_iff] at h
  simp [h.2]

theorem isAlpha_lowerC (c : Char) : isAlpha (lowerC c) = isAlpha c := by
  simp [isAlpha_eq, lowerC, Char.isAlpha_toLower_eq_isAlpha]

theorem isAlpha_upperC (c : Char) : isAlpha (upperC c) = isAlpha c := by
  simp [isAlpha_eq, upperC, Char.isAlpha_toUpper_eq_isAlpha]

theorem lowerC_upperC (c : Char) : lowerC (upperC c) = lowerC c := Char.toLower_toUpper_eq_toLower c

/-- every ASCII letter is a NAME start character -/
theorem alpha_table : ∀ k < 26, Gen.nameStartCodes.contains (65 + k) = true ∧
    Gen.nameStartCodes.contains (97 + k) = true := by decide

theorem alpha_nameStart {c : Char} (h : isAlpha c = true) : isNameStart c = true := by
  simp only [isAlpha, Bool.or_eq_true, Bool.and_eq_true, decide_eq_true_eq] at h
  rcases h with h | h
  · have := (alpha_table (c.toNat - 65) (by omega)).1
    rwa [show 65 + (c.toNat - 65) = c.toNat by omega] at this
  · have := (alpha_table (c.toNat - 97) (by omega)).2
    rwa [show 97 + (c.toNat - 97) = c.toNat by omega] at this

theorem lowerC_applyCase (m : CaseCh) (c : Char) : lowerC (applyCase m c) = lowerC c := by
  cases m
  · rfl
  · exact lowerC_upperC c
  · exact lowerC_idem c

theorem isAlpha_applyCase (m : CaseCh) (c : Char) : isAlpha (applyCase m c) = isAlpha c := by
  cases m
  · rfl
  · exact isAlpha_upperC c
  · exact isAlpha_lowerC c

theorem applyCase_of_not_alpha (m : CaseCh) {c : Char} (h : isAlpha c = false) : applyCase m c = c := by
  cases m
  · rfl
  · exact upperC_of_not_alpha h
  · exact lowerC_of_not_alpha h

theorem isNameStart_applyCase (m : CaseCh) (c : Char) : isNameStart (applyCase m c) = isNameStart c := by
  cases h : isAlpha c
  · rw [applyCase_of_not_alpha m h]
  · rw [alpha_nameStart h, alpha_nameStart (by rw [isAlpha_applyCase, h])]

theorem isNameChar_applyCase (m : CaseCh) (c : Char) : isNameChar (applyCase m c) = isNameChar c := by
  cases h : isAlpha c
  · rw [applyCase_of_not_alpha m h]
  · rw [start_nameChar (alpha_nameStart h), start_nameChar (alpha_nameStart (by rw [isAlpha_applyCase, h]))]

@[simp] theorem lower_applyMask (s : Str) (m : CaseMask) : lower (applyMask s m) = lower s := by
  induction s generalizing m with
  | nil => cases m <;> rfl
  | cons c r ih =>
    cases m with
    | nil => rfl
    | cons a ms => simp [applyMask, lowerC_applyCase, ih]

theorem all_nameChar_applyMask (s : Str) (m : CaseMask) :
    (applyMask s m).all isNameChar = s.all isNameChar := by
  induction s generalizing m with
  | nil => cases m <;> rfl
  | cons c r ih =>
    cases m with
    | nil => rfl
    | cons a ms => simp [applyMask, isNameChar_applyCase, ih]

@[simp] theorem isName_applyMask (s : Str) (m : CaseMask) : isName (applyMask s m) = isName s := by
  cases s with
  | nil => cases m <;> rfl
  | cons c r =>
    cases m with
    | nil => rfl
    | cons a ms => simp [applyMask, isName, isNameStart_applyCase, all_nameChar_applyMask]

/-! ## Stage 1b: generic list/scanner lemmas -/

/-- all characters are white space -/
def AllWs (w : Str) : Prop := ∀ c ∈ w, isWs c = true

theorem allWs_of_wsOk {w : Str} (h : wsOk w = true) : AllWs w := by
  simpa [wsOk, AllWs] using h

theorem AllWs.nil : AllWs [] := by simp [AllWs]

theorem AllWs.append {a b : Str} (ha : AllWs a) (hb : AllWs b) : AllWs (a ++ b) := by
  intro c hc
  rcases List.mem_append.1 hc with h | h
  · exact ha c h
  · exact hb c h

/-- `r` does not start with a character of class `p` (so a run of `p` stops in front of it) -/
def Stops (p : Char → Bool) (r : Str) : Prop := ∀ c ∈ r.head?, p c = false

theorem Stops.nil (p : Char → Bool) : Stops p [] := by simp [Stops]

theorem stops_cons {p : Char → Bool} {c : Char} {r : Str} : Stops p (c :: r) ↔ p c = false := by
  simp [Stops]

theorem stops_ws_append {p : Char → Bool} {w r : Str} (hw : AllWs w)
    (hp : ∀ c, isWs c = true → p c = false) (hr : Stops p r) : Stops p (w ++ r) := by
  cases w with
  | nil => simpa using hr
  | cons a w => exact stops_cons.2 (hp a (hw a (by simp)))

theorem takeWhile_stop {p : Char → Bool} {n r : Str} (hn : ∀ c ∈ n, p c = true) (hr : Stops p r) :
    (n ++ r).takeWhile p = n := by
  rw [List.takeWhile_append_of_pos hn]
  cases r with
  | nil => simp
  | cons c r => simp [stops_cons.1 hr]

theorem dropWhile_stop {p : Char → Bool} {n r : Str} (hn : ∀ c ∈ n, p c = true) (hr : Stops p r) :
    (n ++ r).dropWhile p = r := by
  rw [List.dropWhile_append_of_pos hn]
  cases r with
  | nil => simp
  | cons c r => simp [stops_cons.1 hr]

/-- `eatWs` skips a white prefix and stops in front of a non-white character -/
theorem eatWs_skip (s : St) {w r : Str} (h : s.rest = w ++ r) (hw : AllWs w) (hr : Stops isWs r) :
    eatWs s = { s with rest := r, ln := s.ln + countNl w } := by
  simp only [eatWs, h, takeWhile_stop hw hr, dropWhile_stop hw hr]

/-- `eatWs` does nothing in front of a non-white character -/
theorem eatWs_nonws (s : St) {c : Char} {r : Str} (h : s.rest = c :: r) (hc : isWs c = false) :
    eatWs s = s := by
  have := eatWs_skip s (w := []) (r := c :: r) (by simpa using h) AllWs.nil (stops_cons.2 hc)
  rw [this]; simp [countNl, ← h]

/-! `Pat.matchAt` -/

theorem matchAt_name {n r : Str} (hn : isName n = true) (hr : Stops isNameChar r) :
    Pat.matchAt .name (n ++ r) = some (n, r) := by
  cases n with
  | nil => simp [isName] at hn
  | cons c t =>
    simp only [isName, Bool.and_eq_true, List.all_eq_true] at hn
    simp only [Pat.matchAt, List.cons_append, hn.1, if_true, takeWhile_stop hn.2 hr, dropWhile_stop hn.2 hr]

theorem matchAt_name_none {c : Char} {r : Str} (hc : isNameStart c = false) :
    Pat.matchAt .name (c :: r) = none := by
  simp [Pat.matchAt, hc]

theorem matchAt_number {n r : Str} (hne : n ≠ []) (hn : n.all isDigit = true) (hr : Stops isDigit r) :
    Pat.matchAt .number (n ++ r) = some (n, r) := by
  simp only [List.all_eq_true] at hn
  simp only [Pat.matchAt, takeWhile_stop hn hr, dropWhile_stop hn hr, hne, if_false]

theorem matchAt_number_none {c : Char} {r : Str} (hc : isDigit c = false) :
    Pat.matchAt .number (c :: r) = none := by
  simp [Pat.matchAt, hc]

theorem matchAt_lit (c : Char) (r : Str) : Pat.matchAt (.lit c) (c :: r) = some ([c], r) := by
  simp [Pat.matchAt]

theorem matchAt_lit_none {c d : Char} {r : Str} (h : d ≠ c) : Pat.matchAt (.lit c) (d :: r) = none := by
  simp [Pat.matchAt, h]

/-- the key pattern of an entry: `[^\s,]+` in parentheses, `[^\s,}]+` in braces -/
def keyPat (paren : Bool) : Pat := if paren then .keyParen else .keyBrace

def keyChar (paren : Bool) (c : Char) : Bool := !isWs c && c ≠ ',' && (paren || c ≠ '}')

theorem matchAt_key {paren : Bool} {k r : Str} (hk : keyOk paren k = true) (hr : Stops (keyChar paren) r) :
    Pat.matchAt (keyPat paren) (k ++ r) = some (k, r) := by
  simp only [keyOk, Bool.and_eq_true, decide_eq_true_eq, List.all_eq_true] at hk
  obtain ⟨hne, hall⟩ := hk
  cases paren with
  | true =>
    have e : (fun c => !isWs c && decide (c ≠ ',')) = keyChar true := by
      funext c; simp [keyChar]
    have hall' : ∀ c ∈ k, keyChar true c = true := by
      intro c hc; simpa [keyChar] using hall c hc
    simp only [keyPat, if_true, Pat.matchAt, e, takeWhile_stop hall' hr, dropWhile_stop hall' hr, hne, if_false]
  | false =>
    have e : (fun c => !isWs c && decide (c ≠ ',') && decide (c ≠ '}')) = keyChar false := by
      funext c; simp [keyChar]
    have hall' : ∀ c ∈ k, keyChar false c = true := by
      intro c hc; simpa [keyChar] using hall c hc
    simp only [keyPat, Bool.false_eq_true, if_false, Pat.matchAt, e, takeWhile_stop hall' hr, dropWhile_stop hall' hr, hne]

/-! `getToken` / `required` -/

theorem getToken_some (pats : List Pat) (s : St) {w r : Str} {p : Pat} {v r' : Str}
    (h : s.rest = w ++ r) (hw : AllWs w) (hr : Stops isWs r) (hne : r ≠ [])
    (hm : firstMatch pats r = some (p, v, r')) :
    getToken pats s = .ok (some (p, v)) { s with rest := r', ln := s.ln + countNl w } := by
  simp only [getToken, eatWs_skip s h hw hr, hne, if_false, hm]

theorem getToken_none (pats : List Pat) (s : St) {w r : Str}
    (h : s.rest = w ++ r) (hw : AllWs w) (hr : Stops isWs r) (hne : r ≠ [])
    (hm : firstMatch pats r = none) :
    getToken pats s = .ok none { s with rest := r, ln := s.ln + countNl w } := by
  simp only [getToken, eatWs_skip s h hw hr, hne, if_false, hm]

theorem required_some (pats : List Pat) (desc : String) (s : St) {w r : Str} {p : Pat} {v r' : Str}
    (h : s.rest = w ++ r) (hw : AllWs w) (hr : Stops isWs r) (hne : r ≠ [])
    (hm : firstMatch pats r = some (p, v, r')) :
    required pats desc s = .ok (p, v) { s with rest := r', ln := s.ln + countNl w } := by
  simp only [required, getToken_some pats s h hw hr hne hm]

/-! `skipToChar` -/

theorem skipToChar_append {p : Char → Bool} {a : Str} {c : Char} {r : Str}
    (ha : ∀ x ∈ a, p x = false) (hc : p c = true) :
    skipToChar p (a ++ c :: r) = some (a ++ [c], r) := by
  induction a with
  | nil => simp [skipToChar, hc]
  | cons x a ih =>
    have hx : p x = false := ha x (by simp)
    have := ih (fun y hy => ha y (by simp [hy]))
    simp [skipToChar, hx, this]

theorem skipToChar_none {p : Char → Bool} {a : Str} (ha : ∀ x ∈ a, p x = false) :
    skipToChar p a = none := by
  induction a with
  | nil => rfl
  | cons x a ih =>
    have hx : p x = false := ha x (by simp)
    simp [skipToChar, hx, ih (fun y hy => ha y (by simp [hy]))]


/-! ## Stage 2: values -/

/-- the special characters of `parse_string` at nesting depth `d` -/
def special (quoted : Bool) (d : Nat) : Char → Bool :=
  fun c => c = '}' || c = '{' || (quoted && d = 0 && c = '"')

theorem split_special (p : Char → Bool) (body : Str) :
    (∀ x ∈ body, p x = false) ∨
    ∃ a x t, body = a ++ x :: t ∧ (∀ y ∈ a, p y = false) ∧ p x = true := by
  induction body with
  | nil => left; simp
  | cons c r ih =>
    cases hc : p c with
    | true => right; exact ⟨[], c, r, rfl, by simp, hc⟩
    | false =>
      rcases ih with h | ⟨a, x, t, h1, h2, h3⟩
      · left; intro x hx
        rcases List.mem_cons.1 hx with rfl | hx
        · exact hc
        · exact h x hx
      · right
        refine ⟨c :: a, x, t, by simp [h1], ?_, h3⟩
        intro y hy
        rcases List.mem_cons.1 hy with rfl | hy
        · exact hc
        · exact h2 y hy

theorem litScan_skip {quoted : Bool} {d : Nat} {a : Str} (t : Str)
    (ha : ∀ y ∈ a, special quoted d y = false) :
    litScan quoted d (a ++ t) = litScan quoted d t := by
  induction a with
  | nil => rfl
  | cons c a ih =>
    have hc := ha c (by simp)
    simp only [special, Bool.or_eq_false_iff, Bool.and_eq_false_iff, decide_eq_false_iff_not] at hc
    obtain ⟨⟨h1, h2⟩, h3⟩ := hc
    have h4 : ¬ (c = '"' ∧ quoted = true ∧ d = 0) := by
      rintro ⟨rfl, rfl, rfl⟩; simp at h3
    simp only [List.cons_append, litScan, h1, h2, h4, if_false]
    exact ih (fun y hy => ha y (by simp [hy]))

theorem strLoop_unfold (fuel : Nat) (quoted : Bool) (d : Nat) (acc : Str) (s : St) :
    strLoop (fuel + 1) quoted d acc s =
    match skipToChar (special quoted d) s.rest with
    | none => .fail (.syn ⟨.prematureEOF, some s.ln⟩) s
    | some (chunk, rest) =>
      let s := { s with rest := rest, ln := s.ln + countNl chunk }
      let acc := acc ++ chunk
      match chunk.getLast? with
      | some '{' =>
        if d + 1 > 100 then .fail (.syn ⟨.tooManyBraces, some s.ln⟩) s
        else strLoop fuel quoted (d + 1) acc s
      | some '}' =>
        if d = 0 then
          if quoted then .fail (.syn ⟨.unbalancedBraces, some s.ln⟩) s else .ok acc s
        else strLoop fuel quoted (d - 1) acc s
      | _ => .ok acc s := rfl

theorem strLoop_lit (quoted : Bool) (closer : Char)
    (hcl : (quoted = true ∧ closer = '"') ∨ (quoted = false ∧ closer = '}')) :
    ∀ (fuel : Nat) (body : Str) (d : Nat) (acc : Str) (s : St) (r : Str),
      s.rest = body ++ closer :: r → litScan quoted d body = some 0 → body.length < fuel →
      ∃ ln', strLoop fuel quoted d acc s = .ok (acc ++ body ++ [closer]) { s with rest := r, ln := ln' } := by
  intro fuel
  induction fuel with
  | zero => intro body d acc s r _ _ h; omega
  | succ fuel ih =>
    intro body d acc s r hrest hscan hlen
    rw [strLoop_unfold]
    rcases split_special (special quoted d) body with hall | ⟨a, x, t, hb, ha, hx⟩
    · -- no special character left: the chunk ends at the closing delimiter
      have hd : d = 0 := by
        have := litScan_skip (quoted := quoted) (d := d) [] hall
        simp only [List.append_nil, litScan] at this
        rw [hscan] at this; simpa using this.symm
      subst hd
      have hc : special quoted 0 closer = true := by
        rcases hcl with ⟨rfl, rfl⟩ | ⟨rfl, rfl⟩ <;> simp [special]
      have hsk := skipToChar_append (r := r) hall hc
      rw [← hrest] at hsk
      refine ⟨s.ln + countNl (body ++ [closer]), ?_⟩
      simp only [hsk, List.getLast?_append, List.getLast?_singleton, Option.some_or]
      rcases hcl with ⟨rfl, rfl⟩ | ⟨rfl, rfl⟩ <;> simp
    · subst hb
      have hsk := skipToChar_append (r := t ++ closer :: r) ha hx
      rw [List.append_assoc, List.cons_append] at hrest
      rw [← hrest] at hsk
      rw [litScan_skip _ ha] at hscan
      simp only [hsk, List.getLast?_append, List.getLast?_singleton, Option.some_or]
      simp only [List.length_append, List.length_cons] at hlen
      simp only [special, Bool.or_eq_true, decide_eq_true_eq, Bool.and_eq_true] at hx
      rcases hx with (rfl | rfl) | ⟨⟨hq, hd⟩, rfl⟩
      · -- closing brace of an inner group
        simp only [litScan] at hscan
        have hd : d ≠ 0 := by intro h; simp [h] at hscan
        simp only [show ('}' : Char) ≠ '{' by decide, if_false, hd] at hscan
        obtain ⟨ln', h⟩ := ih t (d - 1) (acc ++ (a ++ ['}'])) { s with rest := t ++ closer :: r, ln := s.ln + countNl (a ++ ['}']) } r rfl hscan (by omega)
        refine ⟨ln', ?_⟩
        simp [hd, h]
      · simp only [litScan, if_true] at hscan
        have hd : ¬ (d + 1 > 100) := by intro h; simp [h] at hscan
        simp only [hd, if_false] at hscan
        obtain ⟨ln', h⟩ := ih t (d + 1) (acc ++ (a ++ ['{'])) { s with rest := t ++ closer :: r, ln := s.ln + countNl (a ++ ['{']) } r rfl hscan (by omega)
        refine ⟨ln', ?_⟩
        simp [hd, h]
      · exfalso
        subst hq hd
        simp [litScan] at hscan

theorem pvp_brace {s s' : St} {v : Str}
    (h : required [.lit '"', .lit '{', .number, .name] "field value" s = .ok (.lit '{', v) s') :
    parseValuePart s = match strLoop (s'.rest.length + 1) false 0 [] s' with
      | .fail e s => .fail e s
      | .ok str s => .ok str.dropLast s := by
  unfold parseValuePart
  rw [h]
  rfl

theorem pvp_quote {s s' : St} {v : Str}
    (h : required [.lit '"', .lit '{', .number, .name] "field value" s = .ok (.lit '"', v) s') :
    parseValuePart s = match strLoop (s'.rest.length + 1) true 0 [] s' with
      | .fail e s => .fail e s
      | .ok str s => .ok str.dropLast s := by
  unfold parseValuePart
  rw [h]
  rfl

/-- the reader's macro dictionary implements the reference table `m`: every lookup agrees -/
def MacRef (d : CIDict Str) (m : Macros) : Prop := ∀ k, d.getItem k = OMap.get m k

theorem omap_get_congr {V : Type} (m : OMap V) {a b : Str} (h : lower a = lower b) :
    OMap.get m a = OMap.get m b := by
  induction m with
  | nil => rfl
  | cons e m ih => obtain ⟨l, sp, w⟩ := e; simp only [OMap.get, h, ih]

theorem stops_digit_of_nameChar {r : Str} (h : Stops isNameChar r) : Stops isDigit r := by
  intro c hc
  have := h c hc
  cases hd : isDigit c with
  | false => rfl
  | true => rw [digit_nameChar hd] at this; cases this

theorem not_ws_of_nameChar {c : Char} (h : isNameChar c = true) : isWs c = false := by
  cases hw : isWs c with
  | false => rfl
  | true => rw [ws_not_nameChar hw] at h; cases h

theorem parseValuePart_piece (m : Macros) (p : Piece) (l : PieceLayout) (s : St) (w tail : Str)
    (h : s.rest = w ++ (renderPiece p l ++ tail)) (hw : AllWs w) (hp : pieceOk m p l = true)
    (hm : MacRef s.macros m) (ht : Stops isNameChar tail) :
    ∃ ln', parseValuePart s = .ok (expandPiece m p) { s with rest := tail, ln := ln' } := by
  cases p with
  | «macro» n =>
    simp only [pieceOk, Bool.and_eq_true] at hp
    obtain ⟨hn, hhas⟩ := hp
    simp only [renderPiece] at h
    have hn' : isName (applyMask n l.mask) = true := by rw [isName_applyMask]; exact hn
    generalize hn'' : applyMask n l.mask = n' at h hn'
    have hlow : lower n' = lower n := by rw [← hn'', lower_applyMask]
    cases n' with
    | nil => simp [isName] at hn'
    | cons c t =>
      have hc : isNameStart c = true := by
        simp only [isName, Bool.and_eq_true] at hn'; exact hn'.1
      have hfm : firstMatch [.lit '"', .lit '{', .number, .name] ((c :: t) ++ tail) = some (.name, c :: t, tail) := by
        have := matchAt_name hn' ht
        simp only [List.cons_append] at this ⊢
        simp only [firstMatch, matchAt_lit_none (start_ne hc).1, matchAt_lit_none (start_ne hc).2,
          matchAt_number_none (start_not_digit hc), this]
      have hreq := required_some _ "field value" s h hw
        (stops_cons.2 (not_ws_of_nameChar (start_nameChar hc))) (by simp) hfm
      refine ⟨s.ln + countNl w, ?_⟩
      simp only [parseValuePart, hreq, substituteMacro]
      have hget : s.macros.getItem (c :: t) = OMap.get m n := by
        rw [hm, omap_get_congr m hlow]
      simp only [OMap.has, Option.isSome_iff_exists] at hhas
      obtain ⟨v, hv⟩ := hhas
      simp only [hget, hv, expandPiece, Option.getD_some]
  | lit body =>
    simp only [expandPiece]
    cases hsp : l.spelling with
    | braced =>
      simp only [pieceOk, hsp, decide_eq_true_eq] at hp
      simp only [renderPiece, hsp, List.cons_append, List.append_assoc] at h
      have hfm : firstMatch [.lit '"', .lit '{', .number, .name] ('{' :: (body ++ ('}' :: tail))) =
          some (.lit '{', ['{'], body ++ ('}' :: tail)) := by
        simp only [firstMatch, matchAt_lit_none (show ('{' : Char) ≠ '"' by decide), matchAt_lit]
      have hreq := required_some _ "field value" s h hw (stops_cons.2 sep_not_ws.2.2.2.1) (by simp) hfm
      obtain ⟨ln', hs⟩ := strLoop_lit false '}' (Or.inr ⟨rfl, rfl⟩) ((body ++ '}' :: tail).length + 1) body 0 []
        { s with rest := body ++ '}' :: tail, ln := s.ln + countNl w } tail rfl hp (by simp; omega)
      refine ⟨ln', ?_⟩
      rw [pvp_brace hreq, hs]
      simp
    | quoted =>
      simp only [pieceOk, hsp, decide_eq_true_eq] at hp
      simp only [renderPiece, hsp, List.cons_append, List.append_assoc] at h
      have hfm : firstMatch [.lit '"', .lit '{', .number, .name] ('"' :: (body ++ ('"' :: tail))) =
          some (.lit '"', ['"'], body ++ ('"' :: tail)) := by
        simp only [firstMatch, matchAt_lit]
      have hreq := required_some _ "field value" s h hw (stops_cons.2 sep_not_ws.2.2.2.2.2.2.2.1) (by simp) hfm
      obtain ⟨ln', hs⟩ := strLoop_lit true '"' (Or.inl ⟨rfl, rfl⟩) ((body ++ '"' :: tail).length + 1) body 0 []
        { s with rest := body ++ '"' :: tail, ln := s.ln + countNl w } tail rfl hp (by simp; omega)
      refine ⟨ln', ?_⟩
      rw [pvp_quote hreq, hs]
      simp
    | bare =>
      simp only [pieceOk, hsp, Bool.and_eq_true, decide_eq_true_eq] at hp
      obtain ⟨hne, hdig⟩ := hp
      simp only [renderPiece, hsp] at h
      cases body with
      | nil => exact absurd rfl hne
      | cons c t =>
        have hc : isDigit c = true := by
          simp only [List.all_cons, Bool.and_eq_true] at hdig; exact hdig.1
        have hfm : firstMatch [.lit '"', .lit '{', .number, .name] ((c :: t) ++ tail) = some (.number, c :: t, tail) := by
          have := matchAt_number hne hdig (stops_digit_of_nameChar ht)
          simp only [List.cons_append] at this ⊢
          simp only [firstMatch, matchAt_lit_none (digit_ne hc).1, matchAt_lit_none (digit_ne hc).2, this]
        have hreq := required_some _ "field value" s h hw
          (stops_cons.2 (not_ws_of_nameChar (digit_nameChar hc))) (by simp) hfm
        exact ⟨s.ln + countNl w, by simp only [parseValuePart, hreq]⟩

theorem parseValueLoop_unfold (fuel : Nat) (parts : List Str) (s : St) :
    parseValueLoop (fuel + 1) parts s =
    match parseValuePart s with
    | .fail e s => .fail e s
    | .ok part s =>
      match getToken [.lit '#'] s with
      | .fail e s => .fail e s
      | .ok none s => .ok (parts ++ [part]) s
      | .ok (some _) s => parseValueLoop fuel (parts ++ [part]) s := rfl

theorem parseValueLoop_pieces (m : Macros) :
    ∀ (ps : Value) (p : Piece) (ls : List PieceLayout) (fuel : Nat) (parts : List Str) (s : St)
      (w0 w : Str) (c : Char) (r : Str),
      s.rest = w0 ++ (renderPiece p (ls.headD {}) ++ (renderMore ps ls.tail ++ (w ++ c :: r))) →
      AllWs w0 → pieceOk m p (ls.headD {}) = true → moreOk m ps ls.tail = true → MacRef s.macros m →
      AllWs w → isWs c = false → c ≠ '#' → Stops isNameChar (w ++ c :: r) → ps.length < fuel →
      ∃ ln', parseValueLoop fuel parts s =
        .ok (parts ++ expandPieces m (p :: ps)) { s with rest := c :: r, ln := ln' } := by
  intro ps
  induction ps with
  | nil =>
    intro p ls fuel parts s w0 w c r h hw0 hp _ hm hw hc hc' hstop hfuel
    obtain ⟨fuel, rfl⟩ : ∃ f, fuel = f + 1 := ⟨fuel - 1, by omega⟩
    simp only [renderMore, List.nil_append] at h
    obtain ⟨ln1, h1⟩ := parseValuePart_piece m p _ s w0 _ h hw0 hp hm hstop
    have h2 := getToken_none [.lit '#'] { s with rest := w ++ c :: r, ln := ln1 } (w := w) (r := c :: r) rfl hw
      (stops_cons.2 hc) (by simp) (by simp only [firstMatch, matchAt_lit_none hc'])
    refine ⟨ln1 + countNl w, ?_⟩
    rw [parseValueLoop_unfold, h1]
    simp only [h2, expandPieces, List.map_cons, List.map_nil]
  | cons q ps ih =>
    intro p ls fuel parts s w0 w c r h hw0 hp hmore hm hw hc hc' hstop hfuel
    obtain ⟨fuel, rfl⟩ : ∃ f, fuel = f + 1 := ⟨fuel - 1, by omega⟩
    simp only [moreOk, Bool.and_eq_true] at hmore
    obtain ⟨⟨⟨hbh, hah⟩, hq⟩, hmore'⟩ := hmore
    simp only [renderMore, List.append_assoc, List.cons_append] at h
    generalize hT : (ls.tail.headD {}).afterHash ++
        (renderPiece q (ls.tail.headD {}) ++ (renderMore ps ls.tail.tail ++ (w ++ c :: r))) = T at h
    have hst : Stops isNameChar ((ls.tail.headD {}).beforeHash ++ ('#' :: T)) :=
      stops_ws_append (allWs_of_wsOk hbh) (fun _ => ws_not_nameChar) (stops_cons.2 sep_not_nameChar.2.2.1)
    obtain ⟨ln1, h1⟩ := parseValuePart_piece m p _ s w0 _ h hw0 hp hm hst
    have h2 := getToken_some [.lit '#'] { s with rest := (ls.tail.headD {}).beforeHash ++ ('#' :: T), ln := ln1 }
      (r := '#' :: T) (p := .lit '#') (v := ['#']) (r' := T) rfl (allWs_of_wsOk hbh)
      (stops_cons.2 sep_not_ws.2.2.1) (by simp) (by simp only [firstMatch, matchAt_lit])
    obtain ⟨ln3, h3⟩ := ih q ls.tail fuel (parts ++ [expandPiece m p])
      { s with rest := T, ln := ln1 + countNl (ls.tail.headD {}).beforeHash }
      _ w c r hT.symm (allWs_of_wsOk hah) hq hmore' hm hw hc hc' hstop (by simp at hfuel; omega)
    refine ⟨ln3, ?_⟩
    rw [parseValueLoop_unfold, h1]
    simp only [h2, h3, expandPieces, List.map_cons, List.append_assoc, List.cons_append, List.nil_append]


theorem length_le_renderMore (ps : Value) (ls : List PieceLayout) : ps.length ≤ (renderMore ps ls).length := by
  induction ps generalizing ls with
  | nil => simp
  | cons p ps ih =>
    have := ih ls.tail
    simp only [renderMore, List.length_append, List.length_cons]
    omega

/-- Stage 2: a rendered value followed by white space and a character that cannot extend it is
read back as its expanded pieces; exactly the rendering and the white space are consumed. -/
theorem parseValueLoop_value (m : Macros) (v : Value) (ls : List PieceLayout) (parts : List Str) (s : St)
    (w0 w : Str) (c : Char) (r : Str)
    (h : s.rest = w0 ++ (renderValue v ls ++ (w ++ c :: r)))
    (hw0 : AllWs w0) (hv : valueOk m v ls = true) (hm : MacRef s.macros m)
    (hw : AllWs w) (hc : isWs c = false) (hc' : c ≠ '#') (hstop : Stops isNameChar (w ++ c :: r)) :
    ∃ ln', parseValueLoop (s.rest.length + 1) parts s =
      .ok (parts ++ expandPieces m v) { s with rest := c :: r, ln := ln' } := by
  cases v with
  | nil => simp [valueOk] at hv
  | cons p ps =>
    simp only [valueOk, Bool.and_eq_true] at hv
    simp only [renderValue, List.append_assoc] at h
    refine parseValueLoop_pieces m ps p ls _ parts s w0 w c r h hw0 hv.1 hv.2 hm hw hc hc' hstop ?_
    have := length_le_renderMore ps ls.tail
    rw [h]; simp only [List.length_append]; omega

theorem parseValue_value (m : Macros) (v : Value) (ls : List PieceLayout) (s : St)
    (w0 w : Str) (c : Char) (r : Str)
    (h : s.rest = w0 ++ (renderValue v ls ++ (w ++ c :: r)))
    (hw0 : AllWs w0) (hv : valueOk m v ls = true) (hm : MacRef s.macros m)
    (hw : AllWs w) (hc : isWs c = false) (hc' : c ≠ '#') (hstop : Stops isNameChar (w ++ c :: r)) :
    ∃ ln', parseValue s = .ok () { s with rest := c :: r, ln := ln', curValue := expandPieces m v } := by
  obtain ⟨ln', h1⟩ := parseValueLoop_value m v ls [] s w0 w c r h hw0 hv hm hw hc hc' hstop
  exact ⟨ln', by simp only [parseValue, h1, List.nil_append]⟩

/-! ## Stage 3: fields, entries, `@string`, `@preamble`, `@comment` -/

theorem isName_ne_nil {n : Str} (h : isName n = true) : n ≠ [] := by
  rintro rfl; simp [isName] at h

theorem isName_head {n : Str} (h : isName n = true) : ∃ c t, n = c :: t ∧ isNameStart c = true := by
  cases n with
  | nil => simp [isName] at h
  | cons c t => simp only [isName, Bool.and_eq_true] at h; exact ⟨c, t, rfl, h.1⟩

/-- `getToken [.name]` on `ws name rest'` -/
theorem getToken_name (s : St) {w n r : Str} (h : s.rest = w ++ (n ++ r)) (hw : AllWs w)
    (hn : isName n = true) (hr : Stops isNameChar r) :
    getToken [.name] s = .ok (some (.name, n)) { s with rest := r, ln := s.ln + countNl w } := by
  obtain ⟨c, t, rfl, hc⟩ := isName_head hn
  refine getToken_some [.name] s h hw (stops_cons.2 (not_ws_of_nameChar (start_nameChar hc))) (by simp) ?_
  simp only [firstMatch, matchAt_name hn hr]

/-- `getToken [.name]` in front of a character that cannot start a name -/
theorem getToken_name_none (s : St) {w : Str} {c : Char} {r : Str} (h : s.rest = w ++ c :: r) (hw : AllWs w)
    (hc : isWs c = false) (hs : isNameStart c = false) :
    getToken [.name] s = .ok none { s with rest := c :: r, ln := s.ln + countNl w } := by
  refine getToken_none [.name] s h hw (stops_cons.2 hc) (by simp) ?_
  simp only [firstMatch, matchAt_name_none hs]

/-- `getToken [.lit c]` / `required [.lit c]` on `ws c rest'` -/
theorem getToken_lit (s : St) (c : Char) {w r : Str} (h : s.rest = w ++ c :: r) (hw : AllWs w)
    (hc : isWs c = false) :
    getToken [.lit c] s = .ok (some (.lit c, [c])) { s with rest := r, ln := s.ln + countNl w } :=
  getToken_some [.lit c] s h hw (stops_cons.2 hc) (by simp) (by simp only [firstMatch, matchAt_lit])

theorem getToken_lit_none (s : St) (c : Char) {w : Str} {d : Char} {r : Str} (h : s.rest = w ++ d :: r)
    (hw : AllWs w) (hd : isWs d = false) (hne : d ≠ c) :
    getToken [.lit c] s = .ok none { s with rest := d :: r, ln := s.ln + countNl w } :=
  getToken_none [.lit c] s h hw (stops_cons.2 hd) (by simp) (by simp only [firstMatch, matchAt_lit_none hne])

theorem required_lit (s : St) (c : Char) (desc : String) {w r : Str} (h : s.rest = w ++ c :: r) (hw : AllWs w)
    (hc : isWs c = false) :
    required [.lit c] desc s = .ok (.lit c, [c]) { s with rest := r, ln := s.ln + countNl w } :=
  required_some [.lit c] desc s h hw (stops_cons.2 hc) (by simp) (by simp only [firstMatch, matchAt_lit])

theorem required_name (s : St) (desc : String) {w n r : Str} (h : s.rest = w ++ (n ++ r)) (hw : AllWs w)
    (hn : isName n = true) (hr : Stops isNameChar r) :
    required [.name] desc s = .ok (.name, n) { s with rest := r, ln := s.ln + countNl w } := by
  simp only [required, getToken_name s h hw hn hr]

/-- the conditions on the character after a value -/
structure EndChar (c : Char) : Prop where
  notWs : isWs c = false
  notHash : c ≠ '#'
  notName : isNameChar c = false

theorem EndChar.comma : EndChar ',' := ⟨by decide, by decide, by decide⟩
theorem EndChar.closer (paren : Bool) : EndChar (closer paren) := by
  cases paren <;> exact ⟨by decide, by decide, by decide⟩

theorem stops_end {w : Str} {c : Char} {r : Str} (hw : AllWs w) (hc : EndChar c) :
    Stops isNameChar (w ++ c :: r) :=
  stops_ws_append hw (fun _ => ws_not_nameChar) (stops_cons.2 hc.notName)

/-- one field `ws name ws = ws value ws` followed by an end character -/
theorem parseField_field (m : Macros) (f : Str × Value) (l : FieldLayout) (s : St) (c : Char) (r : Str)
    (h : s.rest = renderField f l ++ c :: r)
    (hn : isName f.1 = true) (hv : valueOk m f.2 l.pieces = true)
    (hw1 : wsOk l.beforeName = true) (hw2 : wsOk l.beforeEq = true) (hw3 : wsOk l.afterEq = true)
    (hw4 : wsOk l.afterValue = true) (hm : MacRef s.macros m) (hc : EndChar c) :
    ∃ ln', parseField s = .ok ()
      { s with rest := c :: r, ln := ln', curFieldName := some (applyMask f.1 l.mask), curValue := expandPieces m f.2 } := by
  simp only [renderField, List.append_assoc, List.cons_append] at h
  have h1 := getToken_name s h (allWs_of_wsOk hw1) (by rw [isName_applyMask]; exact hn)
    (stops_ws_append (allWs_of_wsOk hw2) (fun _ => ws_not_nameChar) (stops_cons.2 sep_not_nameChar.2.1))
  generalize hT2 : l.afterEq ++ (renderValue f.2 l.pieces ++ (l.afterValue ++ c :: r)) = T2 at h h1
  have h2 := required_lit
    { s with rest := l.beforeEq ++ '=' :: T2, ln := s.ln + countNl l.beforeName, curFieldName := some (applyMask f.1 l.mask) }
    '=' (descOf [.lit '=']) rfl (allWs_of_wsOk hw2) sep_not_ws.2.1
  obtain ⟨ln3, h3⟩ := parseValue_value m f.2 l.pieces
    { s with rest := T2, ln := s.ln + countNl l.beforeName + countNl l.beforeEq, curFieldName := some (applyMask f.1 l.mask) }
    l.afterEq l.afterValue c r hT2.symm (allWs_of_wsOk hw3) hv hm (allWs_of_wsOk hw4) hc.notWs hc.notHash
    (stops_end (allWs_of_wsOk hw4) hc)
  refine ⟨ln3, ?_⟩
  simp only [parseField, h1, h2, h3]


theorem parseEntryFields_unfold (fuel : Nat) (s : St) :
    parseEntryFields (fuel + 1) s =
    match parseField { s with curFieldName := none, curValue := [] } with
    | .fail e s => .fail e s
    | .ok _ s =>
      let s :=
        match s.curFieldName with
        | some n => if n ≠ [] ∧ s.curValue ≠ [] then { s with curFields := s.curFields ++ [(n, s.curValue)] } else s
        | none => s
      match getToken [.lit ','] s with
      | .fail e s => .fail e s
      | .ok none s => .ok () s
      | .ok (some _) s => parseEntryFields fuel s := rfl

/-- what the low-level parser returns for the fields of an entry: names as written, values as
lists of expanded pieces -/
def parsedFields (m : Macros) (fs : List (Str × Value)) (ls : List FieldLayout) : List (Str × List Str) :=
  (writtenFields fs ls).map fun f => (f.1, expandPieces m f.2)

/-- the properties of a closing delimiter the field loop relies on -/
structure ClChar (c : Char) : Prop where
  endc : EndChar c
  notStart : isNameStart c = false
  notComma : c ≠ ','

theorem ClChar.closer (paren : Bool) : ClChar (closer paren) := by
  cases paren <;> exact ⟨EndChar.closer _, by decide, by decide⟩

/-- an empty slot in front of the closing delimiter ends the field loop -/
theorem parseEntryFields_end (fuel : Nat) (s : St) (w : Str) (cl : Char) (r : Str)
    (h : s.rest = w ++ cl :: r) (hw : AllWs w) (hcl : ClChar cl) :
    ∃ ln', parseEntryFields (fuel + 1) s =
      .ok () { s with rest := cl :: r, ln := ln', curFieldName := none, curValue := [] } := by
  have h1 := getToken_name_none { s with curFieldName := none, curValue := [] } h hw hcl.endc.notWs hcl.notStart
  have h2 := getToken_lit_none { s with rest := cl :: r, ln := s.ln + countNl w, curFieldName := none, curValue := [] }
    ',' (w := []) rfl AllWs.nil hcl.endc.notWs hcl.notComma
  refine ⟨s.ln + countNl w + countNl [], ?_⟩
  simp only [parseEntryFields_unfold, parseField, h1, h2]


theorem expandPieces_ne_nil (m : Macros) {v : Value} {ls : List PieceLayout} (h : valueOk m v ls = true) :
    expandPieces m v ≠ [] := by
  cases v with
  | nil => simp [valueOk] at h
  | cons p ps => simp [expandPieces]

/-- what may stand between the last field and the closing delimiter -/
def Trail (t : Str) : Prop := t = [] ∨ ∃ wt, t = ',' :: wt ∧ AllWs wt

/-- after one field has been read and stored: the comma test and the rest of the loop -/
theorem parseEntryFields_fields (m : Macros) :
    ∀ (fs : List (Str × Value)) (f : Str × Value) (ls : List FieldLayout) (fuel : Nat) (s : St)
      (trail : Str) (cl : Char) (r : Str),
      s.rest = renderField f (ls.headD {}) ++ (renderFields fs ls.tail ++ (trail ++ cl :: r)) →
      fieldsOkD m (f :: fs) ls = true → MacRef s.macros m → Trail trail → ClChar cl →
      fs.length + 2 ≤ fuel →
      ∃ ln' fn cv, parseEntryFields fuel s = .ok ()
        { s with rest := cl :: r, ln := ln', curFields := s.curFields ++ parsedFields m (f :: fs) ls,
                 curFieldName := fn, curValue := cv } := by
  intro fs
  induction fs with
  | nil =>
    intro f ls fuel s trail cl r h hok hm htr hcl hfuel
    obtain ⟨fuel, rfl⟩ : ∃ k, fuel = k + 2 := ⟨fuel - 2, by simp at hfuel; omega⟩
    simp only [fieldsOkD, Bool.and_eq_true] at hok
    obtain ⟨⟨⟨⟨⟨⟨⟨hn, hv⟩, hw1⟩, hw2⟩, hw3⟩, hw4⟩, _⟩, _⟩ := hok
    simp only [renderFields, List.nil_append] at h
    have hn' : applyMask f.1 (ls.headD {}).mask ≠ [] := isName_ne_nil (by rw [isName_applyMask]; exact hn)
    have hv' := expandPieces_ne_nil m hv
    rcases htr with rfl | ⟨wt, rfl, hwt⟩
    · simp only [List.nil_append] at h
      obtain ⟨ln1, h1⟩ := parseField_field m f (ls.headD {}) { s with curFieldName := none, curValue := [] }
        cl r h hn hv hw1 hw2 hw3 hw4 hm hcl.endc
      have h2 := getToken_lit_none
        { s with rest := cl :: r, ln := ln1, curFields := s.curFields ++ [(applyMask f.1 (ls.headD {}).mask, expandPieces m f.2)],
                 curFieldName := some (applyMask f.1 (ls.headD {}).mask), curValue := expandPieces m f.2 }
        ',' (w := []) rfl AllWs.nil hcl.endc.notWs hcl.notComma
      refine ⟨ln1 + countNl [], some (applyMask f.1 (ls.headD {}).mask), expandPieces m f.2, ?_⟩
      rw [parseEntryFields_unfold, h1]
      simp only [hn', hv', ne_eq, not_false_eq_true, and_self, if_true, h2, parsedFields, writtenFields,
        List.map_cons, List.map_nil]
    · simp only [List.cons_append] at h
      obtain ⟨ln1, h1⟩ := parseField_field m f (ls.headD {}) { s with curFieldName := none, curValue := [] }
        ',' (wt ++ cl :: r) h hn hv hw1 hw2 hw3 hw4 hm EndChar.comma
      have h2 := getToken_lit
        { s with rest := ',' :: (wt ++ cl :: r), ln := ln1, curFields := s.curFields ++ [(applyMask f.1 (ls.headD {}).mask, expandPieces m f.2)],
                 curFieldName := some (applyMask f.1 (ls.headD {}).mask), curValue := expandPieces m f.2 }
        ',' (w := []) rfl AllWs.nil sep_not_ws.1
      obtain ⟨ln3, h3⟩ := parseEntryFields_end fuel
        { s with rest := wt ++ cl :: r, ln := ln1 + countNl [], curFields := s.curFields ++ [(applyMask f.1 (ls.headD {}).mask, expandPieces m f.2)],
                 curFieldName := some (applyMask f.1 (ls.headD {}).mask), curValue := expandPieces m f.2 }
        wt cl r rfl hwt hcl
      refine ⟨ln3, none, [], ?_⟩
      rw [parseEntryFields_unfold, h1]
      simp only [hn', hv', ne_eq, not_false_eq_true, and_self, if_true, h2, h3, parsedFields, writtenFields,
        List.map_cons, List.map_nil]
  | cons f' fs ih =>
    intro f ls fuel s trail cl r h hok hm htr hcl hfuel
    obtain ⟨fuel, rfl⟩ : ∃ k, fuel = k + 1 := ⟨fuel - 1, by simp at hfuel; omega⟩
    rw [fieldsOkD] at hok
    simp only [Bool.and_eq_true] at hok
    obtain ⟨⟨⟨⟨⟨⟨⟨hn, hv⟩, hw1⟩, hw2⟩, hw3⟩, hw4⟩, _⟩, hrest⟩ := hok
    simp only [renderFields, List.cons_append, List.append_assoc] at h
    have hn' : applyMask f.1 (ls.headD {}).mask ≠ [] := isName_ne_nil (by rw [isName_applyMask]; exact hn)
    have hv' := expandPieces_ne_nil m hv
    generalize hT : renderField f' (ls.tail.headD {}) ++ (renderFields fs ls.tail.tail ++ (trail ++ cl :: r)) = T at h
    obtain ⟨ln1, h1⟩ := parseField_field m f (ls.headD {}) { s with curFieldName := none, curValue := [] }
      ',' T h hn hv hw1 hw2 hw3 hw4 hm EndChar.comma
    have h2 := getToken_lit
      { s with rest := ',' :: T, ln := ln1, curFields := s.curFields ++ [(applyMask f.1 (ls.headD {}).mask, expandPieces m f.2)],
               curFieldName := some (applyMask f.1 (ls.headD {}).mask), curValue := expandPieces m f.2 }
      ',' (w := []) rfl AllWs.nil sep_not_ws.1
    obtain ⟨ln3, fn, cv, h3⟩ := ih f' ls.tail fuel
      { s with rest := T, ln := ln1 + countNl [], curFields := s.curFields ++ [(applyMask f.1 (ls.headD {}).mask, expandPieces m f.2)],
               curFieldName := some (applyMask f.1 (ls.headD {}).mask), curValue := expandPieces m f.2 }
      trail cl r hT.symm hrest hm htr hcl (by simp at hfuel ⊢; omega)
    refine ⟨ln3, fn, cv, ?_⟩
    rw [parseEntryFields_unfold, h1]
    simp only [hn', hv', ne_eq, not_false_eq_true, and_self, if_true, h2, h3, parsedFields, writtenFields,
      List.map_cons, List.append_assoc, List.cons_append, List.nil_append]


/-- an empty slot followed by a comma: the loop goes on behind the comma -/
theorem parseEntryFields_skip_comma (fuel : Nat) (s : St) (w T : Str)
    (h : s.rest = w ++ ',' :: T) (hw : AllWs w) :
    ∃ ln', parseEntryFields (fuel + 1) s =
      parseEntryFields fuel { s with rest := T, ln := ln', curFieldName := none, curValue := [] } := by
  have h1 := getToken_name_none { s with curFieldName := none, curValue := [] } h hw sep_not_ws.1 (by decide)
  have h2 := getToken_lit { s with rest := ',' :: T, ln := s.ln + countNl w, curFieldName := none, curValue := [] }
    ',' (w := []) rfl AllWs.nil sep_not_ws.1
  refine ⟨s.ln + countNl w + countNl [], ?_⟩
  simp only [parseEntryFields_unfold, parseField, h1, h2]

theorem length_le_renderFields (fs : List (Str × Value)) (ls : List FieldLayout) :
    fs.length ≤ (renderFields fs ls).length := by
  induction fs generalizing ls with
  | nil => simp
  | cons f fs ih =>
    have := ih ls.tail
    simp only [renderFields, List.length_append, List.length_cons]
    omega

/-- the field loop of an entry, started behind the key -/
theorem parseEntryFields_top (m : Macros) (fs : List (Str × Value)) (ls : List FieldLayout) (fuel : Nat) (s : St)
    (w trail : Str) (cl : Char) (r : Str)
    (h : s.rest = w ++ (renderFields fs ls ++ (trail ++ cl :: r))) (hw : AllWs w)
    (hok : fieldsOkD m fs ls = true) (hm : MacRef s.macros m) (htr : Trail trail)
    (hcl : ClChar cl) (hfuel : fs.length + 2 ≤ fuel) :
    ∃ ln' fn cv, parseEntryFields fuel s = .ok ()
      { s with rest := cl :: r, ln := ln', curFields := s.curFields ++ parsedFields m fs ls,
               curFieldName := fn, curValue := cv } := by
  obtain ⟨fuel, rfl⟩ : ∃ k, fuel = k + 1 := ⟨fuel - 1, by omega⟩
  cases fs with
  | nil =>
    rcases htr with rfl | ⟨wt, rfl, hwt⟩
    · -- `@a{k}`: no field and no comma, the loop ends at once
      simp only [renderFields, List.nil_append] at h
      obtain ⟨ln1, h1⟩ := parseEntryFields_end fuel s w cl r h hw hcl
      refine ⟨ln1, none, [], ?_⟩
      rw [h1]
      simp [parsedFields, writtenFields]
    · simp only [renderFields, List.nil_append, List.cons_append] at h
      obtain ⟨ln1, h1⟩ := parseEntryFields_skip_comma fuel s w _ h hw
      obtain ⟨fuel, rfl⟩ : ∃ k, fuel = k + 1 := ⟨fuel - 1, by simp at hfuel; omega⟩
      obtain ⟨ln2, h2⟩ := parseEntryFields_end fuel
        { s with rest := wt ++ cl :: r, ln := ln1, curFieldName := none, curValue := [] } wt cl r rfl hwt hcl
      refine ⟨ln2, none, [], ?_⟩
      rw [h1, h2]
      simp [parsedFields, writtenFields]
  | cons f fs =>
    simp only [renderFields, List.cons_append, List.append_assoc] at h
    obtain ⟨ln1, h1⟩ := parseEntryFields_skip_comma fuel s w _ h hw
    obtain ⟨ln2, fn, cv, h2⟩ := parseEntryFields_fields m fs f ls fuel
      { s with rest := renderField f (ls.headD {}) ++ (renderFields fs ls.tail ++ (trail ++ cl :: r)), ln := ln1,
               curFieldName := none, curValue := [] }
      trail cl r rfl hok hm htr hcl (by simp at hfuel; omega)
    refine ⟨ln2, fn, cv, ?_⟩
    rw [h1, h2]


theorem keyChar_ws {paren : Bool} {c : Char} (h : isWs c = true) : keyChar paren c = false := by
  simp [keyChar, h]

theorem keyChar_comma (paren : Bool) : keyChar paren ',' = false := by
  simp [keyChar]

/-- the text after the key: the comma-prefixed fields and the optional trailing comma -/
def entryTail (fs : List (Str × Value)) (l : CmdLayout) : Str :=
  renderFields fs l.fields ++ (if l.trailing then ',' :: l.afterTrailing else [])

theorem parseEntryBody_entry (m : Macros) (paren : Bool) (key : Str) (fs : List (Str × Value)) (ls : List FieldLayout)
    (s : St) (w1 w2 trail r : Str)
    (h : s.rest = w1 ++ (key ++ (w2 ++ (renderFields fs ls ++ (trail ++ closer paren :: r)))))
    (hw1 : AllWs w1) (hk : keyOk paren key = true) (hw2 : AllWs w2)
    (hok : fieldsOkD m fs ls = true) (hm : MacRef s.macros m) (htr : Trail trail)
    (hne : fs = [] → trail = [] → paren = false ∨ w2 ≠ []) (hwant : s.db.wanted = none) :
    ∃ ln' fn cv, parseEntryBody paren s = .ok ()
      { s with rest := closer paren :: r, ln := ln', curKey := some key,
               curFields := s.curFields ++ parsedFields m fs ls, curFieldName := fn, curValue := cv } := by
  -- what follows the key starts with white space, a comma, or (field-less entry without comma,
  -- in braces) the closing brace
  have hstop : Stops (keyChar paren) (w2 ++ (renderFields fs ls ++ (trail ++ closer paren :: r))) := by
    have hcomma : ∀ X, Stops (keyChar paren) (w2 ++ ',' :: X) := fun X =>
      stops_ws_append hw2 (fun _ => keyChar_ws) (stops_cons.2 (keyChar_comma paren))
    cases fs with
    | nil =>
      rcases htr with rfl | ⟨wt, rfl, _⟩
      · rcases hne rfl rfl with hp | hw
        · subst hp
          exact stops_ws_append hw2 (fun _ => keyChar_ws) (stops_cons.2 (by decide))
        · cases w2 with
          | nil => exact absurd rfl hw
          | cons a w => exact stops_cons.2 (keyChar_ws (hw2 a (by simp)))
      · exact hcomma _
    | cons f fs => exact hcomma _
  have hkne : key ≠ [] := by
    simp only [keyOk, Bool.and_eq_true, decide_eq_true_eq] at hk; exact hk.1
  obtain ⟨k0, kt, rfl⟩ : ∃ k0 kt, key = k0 :: kt := by
    cases key with
    | nil => exact absurd rfl hkne
    | cons a b => exact ⟨a, b, rfl⟩
  have hk0 : isWs k0 = false := by
    simp only [keyOk, Bool.and_eq_true, List.all_cons] at hk
    simpa using hk.2.1.1.1
  have h1 := required_some [keyPat paren] "entry key" s h hw1 (stops_cons.2 hk0) (by simp)
    (p := keyPat paren) (v := k0 :: kt) (r' := w2 ++ (renderFields fs ls ++ (trail ++ closer paren :: r)))
    (by simp only [firstMatch]; rw [matchAt_key hk hstop])
  obtain ⟨ln2, fn, cv, h2⟩ := parseEntryFields_top m fs ls ((w2 ++ (renderFields fs ls ++ (trail ++ closer paren :: r))).length + 2)
    { s with rest := w2 ++ (renderFields fs ls ++ (trail ++ closer paren :: r)), ln := s.ln + countNl w1, curKey := some (k0 :: kt) }
    w2 trail (closer paren) r rfl hw2 hok hm htr (ClChar.closer paren)
    (by have := length_le_renderFields fs ls; simp only [List.length_append]; omega)
  refine ⟨ln2, fn, cv, ?_⟩
  unfold parseEntryBody
  rw [show (if paren = true then Pat.keyParen else Pat.keyBrace) = keyPat paren from rfl, h1]
  simp only [h2, wantCurrent, wantEntry, hwant, if_true]


/-- the state `parse_command` starts from -/
def St.fresh (s : St) : St := { s with curKey := none, curFields := [], curFieldName := none, curValue := [] }

/-- `@ ws NAME ws (|{` : the first two tokens of a command -/
theorem command_head (s : St) (w1 name w2 : Str) (paren : Bool) (T : Str)
    (h : s.rest = w1 ++ (name ++ (w2 ++ opener paren :: T)))
    (hw1 : AllWs w1) (hn : isName name = true) (hw2 : AllWs w2) :
    ∃ ln', required [.name] (descOf [.name]) (St.fresh s) = .ok (.name, name)
        { St.fresh s with rest := w2 ++ opener paren :: T, ln := s.ln + countNl w1 } ∧
      required [.lit '(', .lit '{'] (descOf [.lit '(', .lit '{'])
        { St.fresh s with rest := w2 ++ opener paren :: T, ln := s.ln + countNl w1 } =
        .ok (.lit (opener paren), [opener paren]) { St.fresh s with rest := T, ln := ln' } := by
  have hop : isWs (opener paren) = false ∧ isNameChar (opener paren) = false := by
    cases paren <;> exact ⟨by decide, by decide⟩
  refine ⟨s.ln + countNl w1 + countNl w2, ?_, ?_⟩
  · exact required_name (St.fresh s) _ h hw1 hn
      (stops_ws_append hw2 (fun _ => ws_not_nameChar) (stops_cons.2 hop.2))
  · refine required_some _ _ _ (w := w2) (r := opener paren :: T) rfl hw2 (stops_cons.2 hop.1) (by simp) ?_
    cases paren
    · simp only [opener, Bool.false_eq_true, if_false, firstMatch,
        matchAt_lit_none (show ('{' : Char) ≠ '(' by decide), matchAt_lit]
    · simp only [opener, if_true, firstMatch, matchAt_lit]

theorem decide_open (paren : Bool) : decide (Pat.lit (opener paren) = Pat.lit '(') = paren := by
  cases paren <;> decide

theorem parseCommand_comment (s s1 s2 : St) (command v : Str) (open_ : Pat)
    (h1 : required [.name] (descOf [.name]) (St.fresh s) = .ok (.name, command) s1)
    (h2 : required [.lit '(', .lit '{'] (descOf [.lit '(', .lit '{']) s1 = .ok (open_, v) s2)
    (hc : lower command = "comment".toList) :
    parseCommand s = .fail .skip s2 := by
  unfold parseCommand
  simp only [show ({ s with curKey := none, curFields := [], curFieldName := none, curValue := [] } : St) = St.fresh s from rfl,
    h1, h2, hc, if_true]


theorem bodyEnd_eq (paren : Bool) : (if paren = true then Pat.lit ')' else Pat.lit '}') = Pat.lit (closer paren) := by
  cases paren <;> rfl

theorem fresh_eq (s : St) :
    ({ s with curKey := none, curFields := [], curFieldName := none, curValue := [] } : St) = St.fresh s := rfl

theorem parseCommand_entry_of (s s1 s2 s3 s4 : St) (command v : Str) (paren : Bool) (x : Pat × Str)
    (h1 : required [.name] (descOf [.name]) (St.fresh s) = .ok (.name, command) s1)
    (h2 : required [.lit '(', .lit '{'] (descOf [.lit '(', .lit '{']) s1 = .ok (.lit (opener paren), v) s2)
    (hc : lower command ≠ "comment".toList) (hs : lower command ≠ "string".toList)
    (hp : lower command ≠ "preamble".toList)
    (hb : parseEntryBody paren s2 = .ok () s3)
    (he : required [.lit (closer paren)] (descOf [.lit (closer paren)]) s3 = .ok x s4) :
    parseCommand s = .ok (Cmd.entry command s4.curKey s4.curFields) s4 := by
  unfold parseCommand
  simp only [fresh_eq, h1, h2, hc, hs, hp, if_false, decide_open, bodyEnd_eq, hb, he]

theorem parseCommand_preamble_of (s s1 s2 s3 s4 : St) (command v : Str) (paren : Bool) (x : Pat × Str)
    (h1 : required [.name] (descOf [.name]) (St.fresh s) = .ok (.name, command) s1)
    (h2 : required [.lit '(', .lit '{'] (descOf [.lit '(', .lit '{']) s1 = .ok (.lit (opener paren), v) s2)
    (hp : lower command = "preamble".toList)
    (hb : parseValue s2 = .ok () s3)
    (he : required [.lit (closer paren)] (descOf [.lit (closer paren)]) s3 = .ok x s4) :
    parseCommand s = .ok (Cmd.preamble s4.curValue) s4 := by
  unfold parseCommand
  simp only [fresh_eq, h1, h2, hp, show ("preamble".toList ≠ "comment".toList) by decide,
    show ("preamble".toList ≠ "string".toList) by decide, if_false, if_true, decide_open, bodyEnd_eq, hb, he]

theorem parseCommand_string_of (s s1 s2 s3 s4 : St) (command v : Str) (paren : Bool) (x : Pat × Str)
    (h1 : required [.name] (descOf [.name]) (St.fresh s) = .ok (.name, command) s1)
    (h2 : required [.lit '(', .lit '{'] (descOf [.lit '(', .lit '{']) s1 = .ok (.lit (opener paren), v) s2)
    (hp : lower command = "string".toList)
    (hb : parseStringBody s2 = .ok () s3)
    (he : required [.lit (closer paren)] (descOf [.lit (closer paren)]) s3 = .ok x s4) :
    parseCommand s = .ok Cmd.string s4 := by
  unfold parseCommand
  simp only [fresh_eq, h1, h2, hp, show ("string".toList ≠ "comment".toList) by decide,
    if_false, if_true, decide_open, bodyEnd_eq, hb, he]


theorem closer_not_ws (paren : Bool) : isWs (closer paren) = false := (EndChar.closer paren).notWs

/-! `WF` implies `WFD` (the two dropped conditions are not needed for reading a command back) -/

theorem fieldsOkD_of_fieldsOk (m : Macros) (fs : List (Str × Value)) :
    ∀ (ls : List FieldLayout) (seen : List Str), fieldsOk m seen fs ls = true → fieldsOkD m fs ls = true := by
  induction fs with
  | nil => intro _ _ _; rfl
  | cons f fs ih =>
    intro ls seen h
    rw [fieldsOk] at h
    simp only [Bool.and_eq_true] at h
    obtain ⟨⟨⟨⟨⟨⟨⟨⟨hn, _⟩, hv⟩, hw1⟩, hw2⟩, hw3⟩, hw4⟩, hp⟩, hrest⟩ := h
    rw [fieldsOkD]
    simp only [Bool.and_eq_true]
    exact ⟨⟨⟨⟨⟨⟨⟨hn, hv⟩, hw1⟩, hw2⟩, hw3⟩, hw4⟩, hp⟩, ih _ _ hrest⟩

theorem cmdOkD_of_cmdOk {m : Macros} {keys : List Str} {c : ACmd} {l : CmdLayout}
    (h : cmdOk m keys c l = true) : cmdOkD m c l = true := by
  cases c with
  | entry ty key fs =>
    simp only [cmdOk, Bool.and_eq_true] at h
    obtain ⟨⟨⟨⟨⟨⟨⟨⟨⟨⟨⟨hty, hres⟩, hkey⟩, _⟩, hfs⟩, hw1⟩, hw2⟩, hw3⟩, hw4⟩, hw5⟩, hw6⟩, hb⟩ := h
    simp only [cmdOkD, Bool.and_eq_true]
    exact ⟨⟨⟨⟨⟨⟨⟨⟨⟨⟨hty, hres⟩, hkey⟩, fieldsOkD_of_fieldsOk m fs _ _ hfs⟩, hw1⟩, hw2⟩, hw3⟩, hw4⟩, hw5⟩, hw6⟩, hb⟩
  | strdef n v => exact h
  | preamble v => exact h
  | comment t => exact h
  | junk t => exact h

theorem wfFromD_of_wfFrom (d : ADoc) : ∀ (L : Layout) (m : Macros) (keys : List Str),
    wfFrom m keys d L = true → wfFromD m d L = true := by
  induction d with
  | nil => intro _ _ _ _; rfl
  | cons c cs ih =>
    intro L m keys h
    rw [wfFrom] at h
    simp only [Bool.and_eq_true] at h
    rw [wfFromD]
    simp only [Bool.and_eq_true]
    exact ⟨cmdOkD_of_cmdOk h.1, ih _ _ _ h.2⟩

/-- Stage 3: a rendered entry is read back as `Cmd.entry` with the type and field names as
written, the key, and the expanded pieces of every field; exactly the text up to and including
the closing delimiter is consumed; nothing is reported.  (Field names and the key may repeat
earlier ones: that is the business of the processing step.) -/
theorem parseCommand_entryD (m : Macros) (ty key : Str) (fs : List (Str × Value)) (l : CmdLayout)
    (s : St) (r : Str)
    (h : '@' :: s.rest = renderCmd (.entry ty key fs) l ++ r)
    (hok : cmdOkD m (.entry ty key fs) l = true) (hm : MacRef s.macros m) (hwant : s.db.wanted = none) :
    ∃ ln' fn cv, parseCommand s =
      .ok (Cmd.entry (applyMask ty l.mask) (some key) (parsedFields m fs l.fields))
        { s with rest := l.afterClose ++ r, ln := ln', curKey := some key,
                 curFields := parsedFields m fs l.fields, curFieldName := fn, curValue := cv } := by
  simp only [cmdOkD, Bool.and_eq_true] at hok
  obtain ⟨⟨⟨⟨⟨⟨⟨⟨⟨⟨hty, hres⟩, hkey⟩, hfs⟩, hw1⟩, hw2⟩, hw3⟩, hw4⟩, hw5⟩, hw6⟩, hbare⟩ := hok
  simp only [renderCmd, List.cons_append, List.append_assoc, List.cons.injEq, true_and] at h
  generalize htrail : (if l.trailing = true then ',' :: l.afterTrailing else []) = trail at h
  have htr : Trail trail := by
    rw [← htrail]; split
    · exact Or.inr ⟨_, rfl, allWs_of_wsOk hw5⟩
    · exact Or.inl rfl
  have hne : fs = [] → trail = [] → l.paren = false ∨ l.afterKey ≠ [] := by
    rintro rfl ht
    have htf : l.trailing = false := by
      cases hlt : l.trailing with
      | false => rfl
      | true => rw [← htrail, hlt] at ht; simp at ht
    simp only [bareKeyOk, htf, List.isEmpty_nil, Bool.not_true, Bool.or_false, Bool.or_eq_true,
      Bool.not_eq_true', decide_eq_true_eq] at hbare
    exact hbare
  have hlow : lower (applyMask ty l.mask) = lower ty := lower_applyMask _ _
  simp only [reserved, List.contains_cons, List.contains_nil, Bool.or_false, Bool.not_eq_true',
    Bool.or_eq_false_iff, beq_eq_false_iff_ne, ne_eq] at hres
  obtain ⟨ln2, h1, h2⟩ := command_head s l.afterAt (applyMask ty l.mask) l.beforeOpen l.paren _ h
    (allWs_of_wsOk hw1) (by rw [isName_applyMask]; exact hty) (allWs_of_wsOk hw2)
  obtain ⟨ln3, fn, cv, h3⟩ := parseEntryBody_entry m l.paren key fs l.fields
    { St.fresh s with rest := l.afterOpen ++ (key ++ (l.afterKey ++ (renderFields fs l.fields ++ (trail ++ closer l.paren :: (l.afterClose ++ r))))), ln := ln2 }
    l.afterOpen l.afterKey trail (l.afterClose ++ r) rfl (allWs_of_wsOk hw3) hkey (allWs_of_wsOk hw4) hfs hm htr hne hwant
  have h4 := required_lit
    { St.fresh s with rest := closer l.paren :: (l.afterClose ++ r), ln := ln3, curKey := some key,
                      curFields := [] ++ parsedFields m fs l.fields, curFieldName := fn, curValue := cv }
    (closer l.paren) (descOf [.lit (closer l.paren)]) (w := []) rfl AllWs.nil (closer_not_ws _)
  refine ⟨ln3 + countNl [], fn, cv, ?_⟩
  rw [parseCommand_entry_of s _ _ _ _ _ _ l.paren _ h1 h2 (by rw [hlow]; exact hres.2.2)
    (by rw [hlow]; exact hres.1) (by rw [hlow]; exact hres.2.1) h3 h4]
  simp [St.fresh]

theorem parseCommand_entry (m : Macros) (keys : List Str) (ty key : Str) (fs : List (Str × Value)) (l : CmdLayout)
    (s : St) (r : Str)
    (h : '@' :: s.rest = renderCmd (.entry ty key fs) l ++ r)
    (hok : cmdOk m keys (.entry ty key fs) l = true) (hm : MacRef s.macros m) (hwant : s.db.wanted = none) :
    ∃ ln' fn cv, parseCommand s =
      .ok (Cmd.entry (applyMask ty l.mask) (some key) (parsedFields m fs l.fields))
        { s with rest := l.afterClose ++ r, ln := ln', curKey := some key,
                 curFields := parsedFields m fs l.fields, curFieldName := fn, curValue := cv } :=
  parseCommand_entryD m ty key fs l s r h (cmdOkD_of_cmdOk hok) hm hwant


theorem omap_get_set {V : Type} (m : OMap V) (n k : Str) (v : V) :
    OMap.get (OMap.set m n v) k = if lower n = lower k then some v else OMap.get m k := by
  induction m with
  | nil =>
    simp only [OMap.set, OMap.get]
  | cons e m ih =>
    obtain ⟨l, sp, w⟩ := e
    simp only [OMap.set]
    by_cases h1 : l = lower n
    · subst h1
      simp only [if_true, OMap.get]
      split <;> rfl
    · simp only [h1, if_false, OMap.get, ih]
      by_cases h2 : l = lower k
      · subst h2
        simp [Ne.symm h1]
      · simp [h2]

theorem macRef_set {d : CIDict Str} {m : Macros} (h : MacRef d m) {n n' : Str} (hl : lower n' = lower n) (v : Str) :
    MacRef (d.setItem n' v) (OMap.set m n v) := by
  intro k
  rw [omap_get_set, ← h k, ← hl]
  simp only [CIDict.getItem, CIDict.setItem]
  by_cases hk : lower n' = lower k
  · rw [if_pos hk, ← hk, dget_dset_same]
  · rw [if_neg hk, dget_dset_ne _ _ _ _ (Ne.symm hk)]

/-- `@string`: the body `ws name ws = ws value ws` in front of the closing delimiter -/
theorem parseStringBody_strdef (m : Macros) (n : Str) (v : Value) (mask : CaseMask) (ls : List PieceLayout) (s : St)
    (w1 w2 w3 w4 : Str) (c : Char) (r : Str)
    (h : s.rest = w1 ++ (applyMask n mask ++ (w2 ++ '=' :: (w3 ++ (renderValue v ls ++ (w4 ++ c :: r))))))
    (hw1 : AllWs w1) (hn : isName n = true) (hw2 : AllWs w2) (hw3 : AllWs w3) (hv : valueOk m v ls = true)
    (hw4 : AllWs w4) (hm : MacRef s.macros m) (hc : EndChar c) :
    ∃ ln', parseStringBody s = .ok ()
      { s with rest := c :: r, ln := ln', curFieldName := some (applyMask n mask), curValue := expandPieces m v,
               macros := s.macros.setItem (applyMask n mask) (expand m v) } := by
  have h1 := required_name s (descOf [.name]) h hw1 (by rw [isName_applyMask]; exact hn)
    (stops_ws_append hw2 (fun _ => ws_not_nameChar) (stops_cons.2 sep_not_nameChar.2.1))
  generalize hT : w3 ++ (renderValue v ls ++ (w4 ++ c :: r)) = T at h h1
  have h2 := required_lit
    { s with rest := w2 ++ '=' :: T, ln := s.ln + countNl w1, curFieldName := some (applyMask n mask) }
    '=' (descOf [.lit '=']) rfl hw2 sep_not_ws.2.1
  obtain ⟨ln3, h3⟩ := parseValue_value m v ls
    { s with rest := T, ln := s.ln + countNl w1 + countNl w2, curFieldName := some (applyMask n mask) }
    w3 w4 c r hT.symm hw3 hv hm hw4 hc.notWs hc.notHash (stops_end hw4 hc)
  refine ⟨ln3, ?_⟩
  simp only [parseStringBody, h1, h2, h3, expand]

/-- Stage 3: a rendered `@string` defines the macro under the written name. -/
theorem parseCommand_strdefD (m : Macros) (n : Str) (v : Value) (l : CmdLayout) (s : St) (r : Str)
    (h : '@' :: s.rest = renderCmd (.strdef n v) l ++ r)
    (hok : cmdOkD m (.strdef n v) l = true) (hm : MacRef s.macros m) :
    ∃ ln', parseCommand s = .ok Cmd.string
        { s with rest := l.afterClose ++ r, ln := ln', curKey := none, curFields := [],
                 curFieldName := some (applyMask n l.nameMask), curValue := expandPieces m v,
                 macros := s.macros.setItem (applyMask n l.nameMask) (expand m v) } := by
  simp only [cmdOkD, Bool.and_eq_true] at hok
  obtain ⟨⟨⟨⟨⟨⟨⟨⟨hn, hv⟩, hw1⟩, hw2⟩, hw3⟩, hw4⟩, hw5⟩, hw6⟩, hw7⟩ := hok
  simp only [renderCmd, List.cons_append, List.append_assoc, List.cons.injEq, true_and] at h
  obtain ⟨ln2, h1, h2⟩ := command_head s l.afterAt (kw "string" l.mask) l.beforeOpen l.paren _ h
    (allWs_of_wsOk hw1) (by rw [kw, isName_applyMask]; decide) (allWs_of_wsOk hw2)
  obtain ⟨ln3, h3⟩ := parseStringBody_strdef m n v l.nameMask l.pieces
    { St.fresh s with rest := l.afterOpen ++ (applyMask n l.nameMask ++ (l.beforeEq ++ '=' :: (l.afterEq ++ (renderValue v l.pieces ++ (l.afterValue ++ closer l.paren :: (l.afterClose ++ r)))))), ln := ln2 }
    l.afterOpen l.beforeEq l.afterEq l.afterValue (closer l.paren) (l.afterClose ++ r) rfl
    (allWs_of_wsOk hw3) hn (allWs_of_wsOk hw4) (allWs_of_wsOk hw5) hv (allWs_of_wsOk hw6) hm (EndChar.closer _)
  have h4 := required_lit
    { St.fresh s with rest := closer l.paren :: (l.afterClose ++ r), ln := ln3,
                      curFieldName := some (applyMask n l.nameMask), curValue := expandPieces m v,
                      macros := s.macros.setItem (applyMask n l.nameMask) (expand m v) }
    (closer l.paren) (descOf [.lit (closer l.paren)]) (w := []) rfl AllWs.nil (closer_not_ws _)
  refine ⟨ln3 + countNl [], ?_⟩
  rw [parseCommand_string_of s _ _ _ _ _ _ l.paren _ h1 h2 (by rw [kw, lower_applyMask]; decide) h3 h4]
  simp [St.fresh]

theorem parseCommand_strdef (m : Macros) (keys : List Str) (n : Str) (v : Value) (l : CmdLayout) (s : St) (r : Str)
    (h : '@' :: s.rest = renderCmd (.strdef n v) l ++ r)
    (hok : cmdOk m keys (.strdef n v) l = true) (hm : MacRef s.macros m) :
    ∃ ln', parseCommand s = .ok Cmd.string
        { s with rest := l.afterClose ++ r, ln := ln', curKey := none, curFields := [],
                 curFieldName := some (applyMask n l.nameMask), curValue := expandPieces m v,
                 macros := s.macros.setItem (applyMask n l.nameMask) (expand m v) } :=
  parseCommand_strdefD m n v l s r h (cmdOkD_of_cmdOk hok) hm

/-- Stage 3: a rendered `@preamble` yields the expanded pieces of its value. -/
theorem parseCommand_preambleD (m : Macros) (v : Value) (l : CmdLayout) (s : St) (r : Str)
    (h : '@' :: s.rest = renderCmd (.preamble v) l ++ r)
    (hok : cmdOkD m (.preamble v) l = true) (hm : MacRef s.macros m) :
    ∃ ln', parseCommand s = .ok (Cmd.preamble (expandPieces m v))
        { s with rest := l.afterClose ++ r, ln := ln', curKey := none, curFields := [],
                 curFieldName := none, curValue := expandPieces m v } := by
  simp only [cmdOkD, Bool.and_eq_true] at hok
  obtain ⟨⟨⟨⟨⟨hv, hw1⟩, hw2⟩, hw3⟩, hw4⟩, hw5⟩ := hok
  simp only [renderCmd, List.cons_append, List.append_assoc, List.cons.injEq, true_and] at h
  obtain ⟨ln2, h1, h2⟩ := command_head s l.afterAt (kw "preamble" l.mask) l.beforeOpen l.paren _ h
    (allWs_of_wsOk hw1) (by rw [kw, isName_applyMask]; decide) (allWs_of_wsOk hw2)
  obtain ⟨ln3, h3⟩ := parseValue_value m v l.pieces
    { St.fresh s with rest := l.afterOpen ++ (renderValue v l.pieces ++ (l.afterValue ++ closer l.paren :: (l.afterClose ++ r))), ln := ln2 }
    l.afterOpen l.afterValue (closer l.paren) (l.afterClose ++ r) rfl
    (allWs_of_wsOk hw3) hv hm (allWs_of_wsOk hw4) (EndChar.closer _).notWs (EndChar.closer _).notHash
    (stops_end (allWs_of_wsOk hw4) (EndChar.closer _))
  have h4 := required_lit
    { St.fresh s with rest := closer l.paren :: (l.afterClose ++ r), ln := ln3, curValue := expandPieces m v }
    (closer l.paren) (descOf [.lit (closer l.paren)]) (w := []) rfl AllWs.nil (closer_not_ws _)
  refine ⟨ln3 + countNl [], ?_⟩
  rw [parseCommand_preamble_of s _ _ _ _ _ _ l.paren _ h1 h2 (by rw [kw, lower_applyMask]; decide) h3 h4]
  simp [St.fresh]

theorem parseCommand_preamble (m : Macros) (keys : List Str) (v : Value) (l : CmdLayout) (s : St) (r : Str)
    (h : '@' :: s.rest = renderCmd (.preamble v) l ++ r)
    (hok : cmdOk m keys (.preamble v) l = true) (hm : MacRef s.macros m) :
    ∃ ln', parseCommand s = .ok (Cmd.preamble (expandPieces m v))
        { s with rest := l.afterClose ++ r, ln := ln', curKey := none, curFields := [],
                 curFieldName := none, curValue := expandPieces m v } :=
  parseCommand_preambleD m v l s r h (cmdOkD_of_cmdOk hok) hm

/-- Stage 3: a rendered `@comment` is skipped right behind its opening delimiter (the text and
the closing delimiter are then passed over as junk by the command loop). -/
theorem parseCommand_comment_cmdD (m : Macros) (txt : Str) (l : CmdLayout) (s : St) (r : Str)
    (h : '@' :: s.rest = renderCmd (.comment txt) l ++ r)
    (hok : cmdOkD m (.comment txt) l = true) :
    ∃ ln', parseCommand s = .fail .skip
        { s with rest := txt ++ closer l.paren :: (l.afterClose ++ r), ln := ln', curKey := none, curFields := [],
                 curFieldName := none, curValue := [] } := by
  simp only [cmdOkD, Bool.and_eq_true] at hok
  obtain ⟨⟨⟨_, hw1⟩, hw2⟩, _⟩ := hok
  simp only [renderCmd, List.cons_append, List.append_assoc, List.cons.injEq, true_and] at h
  obtain ⟨ln2, h1, h2⟩ := command_head s l.afterAt (kw "comment" l.mask) l.beforeOpen l.paren _ h
    (allWs_of_wsOk hw1) (by rw [kw, isName_applyMask]; decide) (allWs_of_wsOk hw2)
  refine ⟨ln2, ?_⟩
  rw [parseCommand_comment s _ _ _ _ _ h1 h2 (by rw [kw, lower_applyMask]; decide)]
  simp [St.fresh]

theorem parseCommand_comment_cmd (m : Macros) (keys : List Str) (txt : Str) (l : CmdLayout) (s : St) (r : Str)
    (h : '@' :: s.rest = renderCmd (.comment txt) l ++ r)
    (hok : cmdOk m keys (.comment txt) l = true) :
    ∃ ln', parseCommand s = .fail .skip
        { s with rest := txt ++ closer l.paren :: (l.afterClose ++ r), ln := ln', curKey := none, curFields := [],
                 curFieldName := none, curValue := [] } :=
  parseCommand_comment_cmdD m txt l s r h (cmdOkD_of_cmdOk hok)


/-! ## Stage 4: whole documents -/

theorem isPersonField_applyMask (n : Str) (mk : CaseMask) : isPersonField (applyMask n mk) = isPersonField n := by
  simp only [isPersonField, isPersonFieldOf, lower_applyMask]

theorem procOk_of_fieldsOk (m : Macros) (fs : List (Str × Value)) :
    ∀ (ls : List FieldLayout) (seen : List Str), fieldsOk m seen fs ls = true →
      procOk m seen (writtenFields fs ls) = true := by
  induction fs with
  | nil => intro ls seen _; rfl
  | cons f fs ih =>
    intro ls seen h
    rw [fieldsOk] at h
    simp only [Bool.and_eq_true] at h
    obtain ⟨⟨⟨⟨⟨⟨⟨⟨_, hseen⟩, _⟩, _⟩, _⟩, _⟩, _⟩, hpers⟩, hrest⟩ := h
    simp only [writtenFields, procOk, lower_applyMask, isPersonField_applyMask, Bool.and_eq_true]
    exact ⟨⟨hseen, hpers⟩, ih ls.tail _ hrest⟩

/-- the invariant of the command loop: the reader state implements the spec state
(`m` macro table, `D` database so far, `keys` lower-cased keys so far) and nothing was reported -/
structure LoopInv (s : St) (m : Macros) (D : Denot) (keys : List Str) : Prop where
  mac : MacRef s.macros m
  proc : ProcInv s
  entries : s.db.entries = D.entries
  preamble : s.db.preamble = D.preamble
  errs : s.errs = []
  keys : ∀ e ∈ D.entries, keyFold e.key ∈ keys

theorem AtFree.skip {pre : Str} (h : ∀ c ∈ pre, c ≠ '@') : ∀ x ∈ pre, (decide (x = '@')) = false := by
  intro x hx; simpa using h x hx

theorem allWs_atFree {w : Str} (h : AllWs w) : ∀ c ∈ w, c ≠ '@' := fun c hc => (ws_ne (h c hc)).2.2.2.2.2.2.2.2

theorem parseLoop_unfold (fuel : Nat) (s : St) :
    parseLoop (fuel + 1) s =
    match skipToChar (· = '@') s.rest with
    | none => (s, none)
    | some (chunk, rest) =>
      let s := { s with rest := rest, ln := s.ln + countNl chunk }
      match parseCommand s with
      | .ok c s =>
        match processCmd c s with
        | .ok _ s => parseLoop fuel s
        | .fail (.raised e) s => (s, some e)
        | .fail (.syn e) s => (s, some e)
        | .fail .skip s => parseLoop fuel s
      | .fail (.syn e) s =>
        match handleError s e with
        | .ok _ s => parseLoop fuel s
        | .fail (.raised e) s => (s, some e)
        | .fail _ s => (s, some e)
      | .fail .skip s => parseLoop fuel s
      | .fail (.raised e) s => (s, some e) := rfl

/-- the loop step up to the command: junk is skipped up to and including the `@` -/
theorem parseLoop_at (fuel : Nat) (s : St) (pre T : Str) (h : s.rest = pre ++ '@' :: T) (hpre : ∀ c ∈ pre, c ≠ '@') :
    parseLoop (fuel + 1) s =
      match parseCommand { s with rest := T, ln := s.ln + countNl (pre ++ ['@']) } with
      | .ok c s =>
        match processCmd c s with
        | .ok _ s => parseLoop fuel s
        | .fail (.raised e) s => (s, some e)
        | .fail (.syn e) s => (s, some e)
        | .fail .skip s => parseLoop fuel s
      | .fail (.syn e) s =>
        match handleError s e with
        | .ok _ s => parseLoop fuel s
        | .fail (.raised e) s => (s, some e)
        | .fail _ s => (s, some e)
      | .fail .skip s => parseLoop fuel s
      | .fail (.raised e) s => (s, some e) := by
  rw [parseLoop_unfold, h, skipToChar_append (AtFree.skip hpre) (by simp)]


theorem renderCmd_length_pos {c : ACmd} (l : CmdLayout) (h : ∀ txt, c ≠ .junk txt) : 0 < (renderCmd c l).length := by
  cases c with
  | junk txt => exact absurd rfl (h txt)
  | _ => simp [renderCmd]

theorem closer_ne_at (paren : Bool) : closer paren ≠ '@' := by cases paren <;> decide

theorem procOkD_of_fieldsOkD (m : Macros) (fs : List (Str × Value)) :
    ∀ (ls : List FieldLayout), fieldsOkD m fs ls = true → procOkD m (writtenFields fs ls) = true := by
  induction fs with
  | nil => intro ls _; rfl
  | cons f fs ih =>
    intro ls h
    rw [fieldsOkD] at h
    simp only [Bool.and_eq_true] at h
    obtain ⟨⟨_, hpers⟩, hrest⟩ := h
    simp only [writtenFields, procOkD, isPersonField_applyMask, Bool.and_eq_true]
    exact ⟨hpers, ih ls.tail hrest⟩

/-- The invariant of the command loop on documents that may repeat field names and keys: the reader
state implements the spec state (`m` macro table, `D` database so far, `keys` lower-cased keys of
the entry commands so far: exactly the keys of `D` up to case) and `R` is what was reported. -/
structure LoopInvD (s : St) (m : Macros) (D : Denot) (keys : List Str) (R : List Err) : Prop where
  mac : MacRef s.macros m
  proc : ProcInv s
  entries : s.db.entries = D.entries
  preamble : s.db.preamble = D.preamble
  errs : s.errs = R
  keys : ∀ k, k ∈ keys ↔ ∃ e ∈ D.entries, keyFold e.key = k

theorem LoopInvD.toLoopInv {s : St} {m : Macros} {D : Denot} {keys : List Str} (h : LoopInvD s m D keys []) :
    LoopInv s m D keys :=
  ⟨h.mac, h.proc, h.entries, h.preamble, h.errs, fun e he => (h.keys _).2 ⟨e, he, rfl⟩⟩

theorem LoopInvD.any_eq {s : St} {m : Macros} {D : Denot} {keys : List Str} {R : List Err}
    (h : LoopInvD s m D keys R) (key : Str) :
    D.entries.any (fun e => keyFold e.key = keyFold key) = keys.contains (keyFold key) := by
  rw [Bool.eq_iff_iff]
  simp only [List.any_eq_true, decide_eq_true_eq, List.contains_eq_mem]
  exact (h.keys _).symm

/-- the database of the reader state is the spec database (no wanted-set, no citation set) -/
theorem LoopInvD.db_eq {s : St} {m : Macros} {D : Denot} {keys : List Str} {R : List Err}
    (h : LoopInvD s m D keys R) : s.db = { entries := D.entries, preamble := D.preamble } := by
  have h2 := h.entries
  have h3 := h.preamble
  have h4 := h.proc.wanted
  have h5 := h.proc.cit
  generalize s.db = db at h2 h3 h4 h5
  cases db
  simp only at h2 h3 h4 h5
  simp only [h2, h3, h4, h5]

theorem stepKeys_writtenCmd (keys : List Str) (c : ACmd) (l : CmdLayout) :
    stepKeys keys (writtenCmd c l) = stepKeys keys c := by
  cases c <;> rfl

/-- one round of the loop: a command is parsed and processed -/
theorem parseLoop_round_ok (fuel : Nat) (s : St) (pre T : Str) (h : s.rest = pre ++ '@' :: T)
    (hpre : ∀ c ∈ pre, c ≠ '@') {c : Cmd} {s1 s2 : St}
    (h1 : parseCommand { s with rest := T, ln := s.ln + countNl (pre ++ ['@']) } = .ok c s1)
    (h2 : processCmd c s1 = .ok () s2) : parseLoop (fuel + 1) s = parseLoop fuel s2 := by
  rw [parseLoop_at fuel s pre T h hpre, h1]
  simp only [h2]

/-- one round of the loop: the command is skipped (`@comment`) -/
theorem parseLoop_round_skip (fuel : Nat) (s : St) (pre T : Str) (h : s.rest = pre ++ '@' :: T)
    (hpre : ∀ c ∈ pre, c ≠ '@') {s1 : St}
    (h1 : parseCommand { s with rest := T, ln := s.ln + countNl (pre ++ ['@']) } = .fail .skip s1) :
    parseLoop (fuel + 1) s = parseLoop fuel s1 := by
  rw [parseLoop_at fuel s pre T h hpre, h1]

/-- Stage 4: the command loop on a rendered document that may repeat field names and keys, followed
by ARBITRARY text `x`: after `k` rounds (one per command; `k + j` is any amount of fuel) the
reader stands in front of `x` (behind `@`-free text `pre'`), its database is the denotation of the
document, and it has reported exactly `reportsFrom`.  Continue mode, or strict mode when the
document gives nothing to report. -/
theorem parseLoop_docD :
    ∀ (cs : ADoc) (ls : Layout) (s : St) (pre x : Str) (m : Macros) (D : Denot) (keys : List Str) (R : List Err),
      s.rest = pre ++ (render cs ls ++ x) → (∀ c ∈ pre, c ≠ '@') → wfFromD m cs ls = true →
      LoopInvD s m D keys R → (s.strict = true → reportsFrom keys (written cs ls) = []) →
      ∃ s' m' keys' pre' k, (∀ j, parseLoop (k + j) s = parseLoop j s') ∧ k ≤ (render cs ls).length ∧
        s'.rest = pre' ++ x ∧ (∀ c ∈ pre', c ≠ '@') ∧ s'.strict = s.strict ∧
        LoopInvD s' m' (denoteFromD m D (written cs ls)) keys' (R ++ reportsFrom keys (written cs ls)) := by
  intro cs
  induction cs with
  | nil =>
    intro ls s pre x m D keys R h hpre _ hinv _
    simp only [render, List.nil_append] at h
    refine ⟨s, m, keys, pre, 0, fun j => by rw [Nat.zero_add], Nat.le_refl _, h, hpre, rfl, ?_⟩
    simpa [written, denoteFromD, reportsFrom] using hinv
  | cons c cs ih =>
    intro ls s pre x m D keys R h hpre hwf hinv hstrict
    rw [wfFromD] at hwf
    simp only [Bool.and_eq_true] at hwf
    obtain ⟨hok, hwf'⟩ := hwf
    simp only [render] at h ⊢
    simp only [written, denoteFromD, reportsFrom, stepKeys_writtenCmd] at hstrict ⊢
    -- one more round in front of what the rest of the document needs
    have hround : ∀ (s2 : St) (pre2 : Str) (m2 : Macros) (D2 : Denot) (keys2 : List Str) (R2 R3 : List Err) (n : Nat),
        (∀ fuel, parseLoop (fuel + 1) s = parseLoop fuel s2) → wfFromD m2 cs ls.tail = true →
        s2.rest = pre2 ++ (render cs ls.tail ++ x) → (∀ c ∈ pre2, c ≠ '@') → s2.strict = s.strict →
        LoopInvD s2 m2 D2 keys2 R2 → (s.strict = true → reportsFrom keys2 (written cs ls.tail) = []) →
        R2 ++ reportsFrom keys2 (written cs ls.tail) = R3 → 0 < n →
        ∃ s' m' keys' pre' k, (∀ j, parseLoop (k + j) s = parseLoop j s') ∧ k ≤ n + (render cs ls.tail).length ∧
          s'.rest = pre' ++ x ∧ (∀ c ∈ pre', c ≠ '@') ∧ s'.strict = s.strict ∧
          LoopInvD s' m' (denoteFromD m2 D2 (written cs ls.tail)) keys' R3 := by
      intro s2 pre2 m2 D2 keys2 R2 R3 n hstep hwf2 h2 hpre2 hs2 hinv2 hstrict2 hR3 hn
      obtain ⟨s', m', keys', pre', k, hk, hle, hrest, hpre', hs', hinv'⟩ :=
        ih ls.tail s2 pre2 x m2 D2 keys2 R2 h2 hpre2 hwf2 hinv2 (by rw [hs2]; exact hstrict2)
      refine ⟨s', m', keys', pre', k + 1, fun j => ?_, by omega, hrest, hpre', hs'.trans hs2, hR3 ▸ hinv'⟩
      rw [show k + 1 + j = (k + j) + 1 by omega, hstep]
      exact hk j
    cases c with
    | junk txt =>
      simp only [renderCmd] at h ⊢
      simp only [cmdOkD, atFree, List.all_eq_true, decide_eq_true_eq] at hok
      simp only [writtenCmd, stepMacros, stepDenotD, cmdReports, stepKeys, List.nil_append] at hstrict ⊢
      have hpre2 : ∀ c ∈ pre ++ txt, c ≠ '@' := by
        intro c hc
        rcases List.mem_append.1 hc with hc | hc
        · exact hpre c hc
        · exact hok c hc
      obtain ⟨s', m', keys', pre', k, hk, hle, hrest, hpre', hs', hinv'⟩ :=
        ih ls.tail s (pre ++ txt) x m D keys R (by rw [h]; simp only [List.append_assoc]) hpre2 hwf' hinv hstrict
      exact ⟨s', m', keys', pre', k, hk, by simp only [List.length_append]; omega, hrest, hpre', hs', hinv'⟩
    | comment txt =>
      obtain ⟨T, hT⟩ : ∃ T, renderCmd (.comment txt) (ls.headD {}) = '@' :: T := ⟨_, rfl⟩
      rw [hT, List.cons_append, List.cons_append] at h
      simp only [List.append_assoc] at h
      obtain ⟨ln1, h1⟩ := parseCommand_comment_cmdD m txt (ls.headD {})
        { s with rest := T ++ (render cs ls.tail ++ x), ln := s.ln + countNl (pre ++ ['@']) } (render cs ls.tail ++ x)
        (by rw [hT]; rfl) hok
      have hok' := hok
      simp only [cmdOkD, Bool.and_eq_true, atFree, List.all_eq_true, decide_eq_true_eq] at hok'
      obtain ⟨⟨⟨htxt, _⟩, _⟩, hwc⟩ := hok'
      simp only [writtenCmd, stepMacros, stepDenotD, cmdReports, stepKeys, List.nil_append] at hstrict ⊢
      have hpre2 : ∀ c ∈ txt ++ closer (ls.headD {}).paren :: (ls.headD {}).afterClose, c ≠ '@' := by
        intro c hc
        rcases List.mem_append.1 hc with hc | hc
        · exact htxt c hc
        · rcases List.mem_cons.1 hc with rfl | hc
          · exact closer_ne_at _
          · exact allWs_atFree (allWs_of_wsOk hwc) c hc
      obtain ⟨s', m', keys', pre', k, hk, hle, hrest, hpre', hs', hinv'⟩ :=
        hround _ (txt ++ closer (ls.headD {}).paren :: (ls.headD {}).afterClose) m D keys R _ 1
          (fun fuel => parseLoop_round_skip fuel s pre _ h hpre h1) hwf'
          (by simp) hpre2 rfl
          ⟨hinv.mac, ⟨hinv.proc.wanted, hinv.proc.cit, hinv.proc.roles⟩, hinv.entries, hinv.preamble, hinv.errs, hinv.keys⟩
          hstrict rfl (by omega)
      exact ⟨s', m', keys', pre', k, hk, by rw [hT]; simp only [List.length_append, List.length_cons]; omega,
        hrest, hpre', hs', hinv'⟩
    | preamble v =>
      obtain ⟨T, hT⟩ : ∃ T, renderCmd (.preamble v) (ls.headD {}) = '@' :: T := ⟨_, rfl⟩
      rw [hT, List.cons_append, List.cons_append] at h
      simp only [List.append_assoc] at h
      obtain ⟨ln1, h1⟩ := parseCommand_preambleD m v (ls.headD {})
        { s with rest := T ++ (render cs ls.tail ++ x), ln := s.ln + countNl (pre ++ ['@']) } (render cs ls.tail ++ x)
        (by rw [hT]; rfl) hok hinv.mac
      have hwc : wsOk (ls.headD {}).afterClose = true := by
        simp only [cmdOkD, Bool.and_eq_true] at hok; exact hok.2
      simp only [writtenCmd, stepMacros, stepDenotD, cmdReports, stepKeys, List.nil_append] at hstrict ⊢
      obtain ⟨s', m', keys', pre', k, hk, hle, hrest, hpre', hs', hinv'⟩ :=
        hround _ (ls.headD {}).afterClose m { D with preamble := D.preamble ++ [normalizeWs (expand m v)] } keys R _ 1
          (fun fuel => parseLoop_round_ok fuel s pre _ h hpre h1 (processCmd_preamble m v _)) hwf'
          rfl (allWs_atFree (allWs_of_wsOk hwc)) rfl
          ⟨hinv.mac, ⟨hinv.proc.wanted, hinv.proc.cit, hinv.proc.roles⟩, hinv.entries,
            congrArg (· ++ [normalizeWs (expand m v)]) hinv.preamble,
            hinv.errs, hinv.keys⟩
          hstrict rfl (by omega)
      exact ⟨s', m', keys', pre', k, hk, by rw [hT]; simp only [List.length_append, List.length_cons]; omega,
        hrest, hpre', hs', hinv'⟩
    | strdef n v =>
      obtain ⟨T, hT⟩ : ∃ T, renderCmd (.strdef n v) (ls.headD {}) = '@' :: T := ⟨_, rfl⟩
      rw [hT, List.cons_append, List.cons_append] at h
      simp only [List.append_assoc] at h
      obtain ⟨ln1, h1⟩ := parseCommand_strdefD m n v (ls.headD {})
        { s with rest := T ++ (render cs ls.tail ++ x), ln := s.ln + countNl (pre ++ ['@']) } (render cs ls.tail ++ x)
        (by rw [hT]; rfl) hok hinv.mac
      have hwc : wsOk (ls.headD {}).afterClose = true := by
        simp only [cmdOkD, Bool.and_eq_true] at hok; exact hok.2
      simp only [writtenCmd, stepMacros, stepDenotD, cmdReports, stepKeys, List.nil_append] at hstrict ⊢
      obtain ⟨s', m', keys', pre', k, hk, hle, hrest, hpre', hs', hinv'⟩ :=
        hround _ (ls.headD {}).afterClose _ D keys R _ 1
          (fun fuel => parseLoop_round_ok fuel s pre _ h hpre h1 (processCmd_string _)) hwf'
          rfl (allWs_atFree (allWs_of_wsOk hwc)) rfl
          ⟨macRef_set hinv.mac (lower_applyMask n _) (expand m v),
            ⟨hinv.proc.wanted, hinv.proc.cit, hinv.proc.roles⟩, hinv.entries, hinv.preamble, hinv.errs, hinv.keys⟩
          hstrict rfl (by omega)
      exact ⟨s', m', keys', pre', k, hk, by rw [hT]; simp only [List.length_append, List.length_cons]; omega,
        hrest, hpre', hs', hinv'⟩
    | entry ty key fs =>
      obtain ⟨T, hT⟩ : ∃ T, renderCmd (.entry ty key fs) (ls.headD {}) = '@' :: T := ⟨_, rfl⟩
      rw [hT, List.cons_append, List.cons_append] at h
      simp only [List.append_assoc] at h
      obtain ⟨ln1, fn, cv, h1⟩ := parseCommand_entryD m ty key fs (ls.headD {})
        { s with rest := T ++ (render cs ls.tail ++ x), ln := s.ln + countNl (pre ++ ['@']) } (render cs ls.tail ++ x)
        (by rw [hT]; rfl) hok hinv.mac hinv.proc.wanted
      have hok' := hok
      simp only [cmdOkD, Bool.and_eq_true] at hok'
      obtain ⟨⟨⟨⟨⟨⟨⟨⟨⟨⟨_, _⟩, _⟩, hfs⟩, _⟩, _⟩, _⟩, _⟩, _⟩, hwc⟩, _⟩ := hok'
      simp only [writtenCmd, stepMacros, stepKeys] at hstrict ⊢
      -- the state after the command has been parsed
      obtain ⟨s1, hs1, h1⟩ : ∃ s1, s1 = _ ∧ parseCommand _ = .ok _ s1 := ⟨_, rfl, h1⟩
      have hs1db : s1.db = s.db := by rw [hs1]
      have hs1errs : s1.errs = s.errs := by rw [hs1]
      have hs1strict : s1.strict = s.strict := by rw [hs1]
      have hs1rest : s1.rest = (ls.headD {}).afterClose ++ (render cs ls.tail ++ x) := by rw [hs1]
      have hs1mac : s1.macros = s.macros := by rw [hs1]
      have hs1roles : s1.roles = s.roles := by rw [hs1]
      have hs1proc : ProcInv s1 :=
        ⟨by rw [hs1db]; exact hinv.proc.wanted, by rw [hs1db]; exact hinv.proc.cit, by rw [hs1roles]; exact hinv.proc.roles⟩
      have hany : s1.db.entries.any (fun e => keyFold e.key = keyFold key) = keys.contains (keyFold key) := by
        rw [hs1db, hinv.entries]; exact hinv.any_eq key
      have hstrict1 : s1.strict = true → cmdReports keys (.entry (applyMask ty (ls.headD {}).mask) key
          (writtenFields fs (ls.headD {}).fields)) = [] := by
        intro hst; rw [hs1strict] at hst
        exact (List.append_eq_nil_iff.1 (hstrict hst)).1
      have hproc := processCmd_entryD m (applyMask ty (ls.headD {}).mask) key (writtenFields fs (ls.headD {}).fields) s1
        hs1proc (procOkD_of_fieldsOkD m fs _ hfs) _ (by simp only [cmdReports, hany]) hstrict1
      -- the state after the command has been processed
      obtain ⟨s2, hs2, hproc⟩ : ∃ s2, s2 = _ ∧ processCmd _ s1 = .ok () s2 := ⟨_, rfl, hproc⟩
      have hs2rest : s2.rest = s1.rest := by rw [hs2]
      have hs2strict : s2.strict = s1.strict := by rw [hs2]
      have hs2mac : s2.macros = s1.macros := by rw [hs2]
      have hs2roles : s2.roles = s1.roles := by rw [hs2]
      have hs2errs : s2.errs = s1.errs ++ cmdReports keys (.entry (applyMask ty (ls.headD {}).mask) key
          (writtenFields fs (ls.headD {}).fields)) := by rw [hs2]
      have hs2db : s2.db = (if s1.db.entries.any (fun e => keyFold e.key = keyFold key) then s1.db
          else { s1.db with entries := s1.db.entries ++ [denoteEntryD m (applyMask ty (ls.headD {}).mask) key
            (writtenFields fs (ls.headD {}).fields)] }) := by rw [hs2]
      have hDany := hinv.any_eq key
      have hs2wanted : s2.db.wanted = none := by
        rw [hs2db]; split
        · exact hs1proc.wanted
        · exact hs1proc.wanted
      have hs2cit : s2.db.citations = CISet.empty := by
        rw [hs2db]; split
        · exact hs1proc.cit
        · exact hs1proc.cit
      have hs2pre : s2.db.preamble = (stepDenotD m D (.entry (applyMask ty (ls.headD {}).mask) key
          (writtenFields fs (ls.headD {}).fields))).preamble := by
        rw [hs2db, hany]
        simp only [stepDenotD, hDany]
        split
        · rw [hs1db, hinv.preamble]
        · simp only [hs1db, hinv.preamble]
      have hs2ent : s2.db.entries = (stepDenotD m D (.entry (applyMask ty (ls.headD {}).mask) key
          (writtenFields fs (ls.headD {}).fields))).entries := by
        rw [hs2db, hany]
        simp only [stepDenotD, hDany]
        split
        · rw [hs1db, hinv.entries]
        · simp only [hs1db, hinv.entries]
      have hkeys2 : ∀ k, k ∈ keyFold key :: keys ↔ ∃ e ∈ (stepDenotD m D (.entry (applyMask ty (ls.headD {}).mask) key
          (writtenFields fs (ls.headD {}).fields))).entries, keyFold e.key = k := by
        intro k
        simp only [stepDenotD]
        by_cases hdup : D.entries.any (fun e => keyFold e.key = keyFold key) = true
        · rw [if_pos hdup, List.mem_cons, hinv.keys k]
          refine ⟨fun hk => ?_, Or.inr⟩
          rcases hk with rfl | hk
          · simpa using hdup
          · exact hk
        · rw [if_neg hdup, List.mem_cons, hinv.keys k]
          simp only [List.mem_append, List.mem_singleton]
          constructor
          · rintro (rfl | ⟨e, he, hek⟩)
            · exact ⟨_, Or.inr rfl, by rw [denoteEntryD_key]⟩
            · exact ⟨e, Or.inl he, hek⟩
          · rintro ⟨e, he | rfl, hek⟩
            · exact Or.inr ⟨e, he, hek⟩
            · rw [denoteEntryD_key] at hek; exact Or.inl hek.symm
      obtain ⟨s', m', keys', pre', k, hk, hle, hrest, hpre', hs', hinv'⟩ :=
        hround s2 (ls.headD {}).afterClose m
          (stepDenotD m D (.entry (applyMask ty (ls.headD {}).mask) key (writtenFields fs (ls.headD {}).fields)))
          (keyFold key :: keys)
          (R ++ cmdReports keys (.entry (applyMask ty (ls.headD {}).mask) key (writtenFields fs (ls.headD {}).fields)))
          (R ++ (cmdReports keys (.entry (applyMask ty (ls.headD {}).mask) key (writtenFields fs (ls.headD {}).fields)) ++
            reportsFrom (keyFold key :: keys) (written cs ls.tail))) 1
          (fun fuel => parseLoop_round_ok fuel s pre _ h hpre h1 hproc) hwf'
          (by rw [hs2rest, hs1rest]) (allWs_atFree (allWs_of_wsOk hwc)) (by rw [hs2strict, hs1strict])
          ⟨by rw [hs2mac, hs1mac]; exact hinv.mac, ⟨hs2wanted, hs2cit, by rw [hs2roles]; exact hs1proc.roles⟩,
            hs2ent, hs2pre, by rw [hs2errs, hs1errs, hinv.errs], hkeys2⟩
          (fun hst => (List.append_eq_nil_iff.1 (hstrict hst)).2) (List.append_assoc _ _ _) (by omega)
      exact ⟨s', m', keys', pre', k, hk, by rw [hT]; simp only [List.length_append, List.length_cons]; omega,
        hrest, hpre', hs', hinv'⟩

/-- the same with fuel: the rest of the run is the run from the state in front of `x` -/
theorem parseLoop_docD_fuel (cs : ADoc) (ls : Layout) (fuel : Nat) (s : St) (pre x : Str) (m : Macros) (D : Denot)
    (keys : List Str) (R : List Err)
    (h : s.rest = pre ++ (render cs ls ++ x)) (hpre : ∀ c ∈ pre, c ≠ '@') (hwf : wfFromD m cs ls = true)
    (hinv : LoopInvD s m D keys R) (hstrict : s.strict = true → reportsFrom keys (written cs ls) = [])
    (hfuel : (render cs ls ++ x).length < fuel) :
    ∃ s' m' keys' pre' fuel', parseLoop fuel s = parseLoop fuel' s' ∧ x.length < fuel' ∧
      s'.rest = pre' ++ x ∧ (∀ c ∈ pre', c ≠ '@') ∧ s'.strict = s.strict ∧
      LoopInvD s' m' (denoteFromD m D (written cs ls)) keys' (R ++ reportsFrom keys (written cs ls)) := by
  obtain ⟨s', m', keys', pre', k, hk, hle, hrest, hpre', hs', hinv'⟩ :=
    parseLoop_docD cs ls s pre x m D keys R h hpre hwf hinv hstrict
  simp only [List.length_append] at hfuel
  refine ⟨s', m', keys', pre', fuel - k, ?_, by omega, hrest, hpre', hs', hinv'⟩
  rw [← hk (fuel - k), show k + (fuel - k) = fuel by omega]

/-- Stage 4, whole text: the loop ends without raising anything -/
theorem parseLoop_docD_end (cs : ADoc) (ls : Layout) (fuel : Nat) (s : St) (pre : Str) (m : Macros) (D : Denot)
    (keys : List Str) (R : List Err)
    (h : s.rest = pre ++ render cs ls) (hpre : ∀ c ∈ pre, c ≠ '@') (hwf : wfFromD m cs ls = true)
    (hinv : LoopInvD s m D keys R) (hstrict : s.strict = true → reportsFrom keys (written cs ls) = [])
    (hfuel : (render cs ls).length < fuel) :
    ∃ s' m' keys', parseLoop fuel s = (s', none) ∧ s'.strict = s.strict ∧
      LoopInvD s' m' (denoteFromD m D (written cs ls)) keys' (R ++ reportsFrom keys (written cs ls)) := by
  obtain ⟨s', m', keys', pre', fuel', hk, hf', hrest, hpre', hs', hinv'⟩ :=
    parseLoop_docD_fuel cs ls fuel s pre [] m D keys R (by simpa using h) hpre hwf hinv hstrict (by simpa using hfuel)
  obtain ⟨fuel', rfl⟩ : ∃ k, fuel' = k + 1 := ⟨fuel' - 1, by simp at hf'; omega⟩
  refine ⟨s', m', keys', ?_, hs', hinv'⟩
  rw [hk, parseLoop_unfold, hrest, List.append_nil, skipToChar_none (AtFree.skip hpre')]

theorem macRef_init : MacRef (CIDict.ofPairs Gen.monthMacros) initMacros := by
  intro k
  have h := CIDict.ofPairs_spec Gen.monthMacros
  rw [CIDict.getItem_abs h.1, h.2, BibSpec.initMacros]
  have : dofPairs Gen.monthMacros = Gen.monthMacros := by decide
  rw [this]

theorem loopInvD_init (text : Str) (strict : Bool) :
    LoopInvD { rest := text, macros := CIDict.ofPairs Gen.monthMacros, db := {}, strict := strict,
               roles := Gen.personRoles } initMacros {} [] [] :=
  ⟨macRef_init, ⟨rfl, rfl, rfl⟩, rfl, rfl, rfl, by simp⟩

/-- Stage 4, documents that may repeat field names and keys: reading the rendering gives the
denotation `denoteD` of the document as written and reports exactly `reports`; nothing is raised
(continue mode, or strict mode when there is nothing to report). -/
theorem parseBib_faithfulD (d : ADoc) (L : Layout) (strict : Bool) (h : WFD d L)
    (hstrict : strict = true → reports (written d L) = []) :
    ∃ s' m' keys', parseBib (render d L) strict none = (s', none) ∧
      LoopInvD s' m' (denoteD (written d L)) keys' (reports (written d L)) := by
  unfold parseBib
  obtain ⟨s', m', keys', h1, _, hinv⟩ := parseLoop_docD_end d L ((render d L).length + 1) _ [] initMacros {} [] [] rfl
    (by simp) h (loopInvD_init _ strict) hstrict (by omega)
  exact ⟨s', m', keys', h1, by simpa [reports, denoteD] using hinv⟩

/-! ### `WF` = `WFD` + no repetitions; without repetitions `denoteD = denote` and `reports = []` -/

theorem freshNames_of_fieldsOk (m : Macros) (fs : List (Str × Value)) :
    ∀ (ls : List FieldLayout) (seen : List Str), fieldsOk m seen fs ls = true →
      freshNames seen fs = true ∧ freshNames seen (writtenFields fs ls) = true := by
  induction fs with
  | nil => intro _ _ _; exact ⟨rfl, rfl⟩
  | cons f fs ih =>
    intro ls seen h
    rw [fieldsOk] at h
    simp only [Bool.and_eq_true] at h
    obtain ⟨⟨⟨⟨⟨⟨⟨⟨_, hseen⟩, _⟩, _⟩, _⟩, _⟩, _⟩, _⟩, hrest⟩ := h
    have := ih ls.tail _ hrest
    simp only [writtenFields, freshNames, lower_applyMask, Bool.and_eq_true]
    exact ⟨⟨hseen, this.1⟩, ⟨hseen, this.2⟩⟩

theorem noDups_of_wfFrom (d : ADoc) : ∀ (L : Layout) (m : Macros) (keys : List Str),
    wfFrom m keys d L = true → noDups keys d = true ∧ noDups keys (written d L) = true := by
  induction d with
  | nil => intro _ _ _ _; exact ⟨rfl, rfl⟩
  | cons c cs ih =>
    intro L m keys h
    rw [wfFrom] at h
    simp only [Bool.and_eq_true] at h
    obtain ⟨hok, hwf'⟩ := h
    have := ih L.tail _ _ hwf'
    cases c with
    | entry ty key fs =>
      simp only [cmdOk, Bool.and_eq_true] at hok
      obtain ⟨⟨⟨⟨⟨⟨⟨⟨⟨⟨⟨_, _⟩, _⟩, hnew⟩, hfs⟩, _⟩, _⟩, _⟩, _⟩, _⟩, _⟩, _⟩ := hok
      have hf := freshNames_of_fieldsOk m fs _ _ hfs
      simp only [written, writtenCmd, noDups, Bool.and_eq_true]
      exact ⟨⟨⟨hnew, hf.1⟩, this.1⟩, ⟨⟨hnew, hf.2⟩, this.2⟩⟩
    | strdef n v => exact this
    | preamble v => exact this
    | comment t => exact this
    | junk t => exact this

theorem fieldsOk_of_fieldsOkD (m : Macros) (fs : List (Str × Value)) :
    ∀ (ls : List FieldLayout) (seen : List Str), fieldsOkD m fs ls = true → freshNames seen fs = true →
      fieldsOk m seen fs ls = true := by
  induction fs with
  | nil => intro _ _ _ _; rfl
  | cons f fs ih =>
    intro ls seen h hf
    rw [fieldsOkD] at h
    simp only [Bool.and_eq_true] at h
    obtain ⟨⟨⟨⟨⟨⟨⟨hn, hv⟩, hw1⟩, hw2⟩, hw3⟩, hw4⟩, hp⟩, hrest⟩ := h
    simp only [freshNames, Bool.and_eq_true] at hf
    rw [fieldsOk]
    simp only [Bool.and_eq_true]
    exact ⟨⟨⟨⟨⟨⟨⟨⟨hn, hf.1⟩, hv⟩, hw1⟩, hw2⟩, hw3⟩, hw4⟩, hp⟩, ih _ _ hrest hf.2⟩

theorem wfFrom_of_wfFromD (d : ADoc) : ∀ (L : Layout) (m : Macros) (keys : List Str),
    wfFromD m d L = true → noDups keys d = true → wfFrom m keys d L = true := by
  induction d with
  | nil => intro _ _ _ _ _; rfl
  | cons c cs ih =>
    intro L m keys h hn
    rw [wfFromD] at h
    simp only [Bool.and_eq_true] at h
    obtain ⟨hok, hwf'⟩ := h
    rw [wfFrom]
    simp only [Bool.and_eq_true]
    cases c with
    | entry ty key fs =>
      simp only [noDups, Bool.and_eq_true] at hn
      refine ⟨?_, ih _ _ _ hwf' hn.2⟩
      simp only [cmdOkD, Bool.and_eq_true] at hok
      obtain ⟨⟨⟨⟨⟨⟨⟨⟨⟨⟨hty, hres⟩, hkey⟩, hfs⟩, hw1⟩, hw2⟩, hw3⟩, hw4⟩, hw5⟩, hw6⟩, hb⟩ := hok
      simp only [cmdOk, Bool.and_eq_true]
      exact ⟨⟨⟨⟨⟨⟨⟨⟨⟨⟨⟨hty, hres⟩, hkey⟩, hn.1.1⟩, fieldsOk_of_fieldsOkD m fs _ _ hfs hn.1.2⟩, hw1⟩, hw2⟩, hw3⟩, hw4⟩,
        hw5⟩, hw6⟩, hb⟩
    | strdef n v => exact ⟨hok, ih _ _ _ hwf' hn⟩
    | preamble v => exact ⟨hok, ih _ _ _ hwf' hn⟩
    | comment t => exact ⟨hok, ih _ _ _ hwf' hn⟩
    | junk t => exact ⟨hok, ih _ _ _ hwf' hn⟩

/-- `WF` is `WFD` together with "no key and no field name of an entry is repeated" -/
theorem WF_iff (d : ADoc) (L : Layout) : WF d L ↔ WFD d L ∧ noDups [] d = true :=
  ⟨fun h => ⟨wfFromD_of_wfFrom d L _ _ h, (noDups_of_wfFrom d L _ _ h).1⟩,
   fun h => wfFrom_of_wfFromD d L _ _ h.1 h.2⟩

theorem denoteEntryD_fresh (m : Macros) (ty key : Str) (fs : List (Str × Value)) (h : freshNames [] fs = true) :
    denoteEntryD m ty key fs = denoteEntry m ty key fs := by
  rw [denoteEntryD_eq, firstFields_fresh fs [] h]

/-- without repetitions nothing is reported and `denoteD` is `denote` -/
theorem noDups_spec (d : ADoc) : ∀ (keys : List Str), noDups keys d = true →
    reportsFrom keys d = [] ∧ ∀ (m : Macros) (D : Denot), denoteFromD m D d = denoteFrom m D d := by
  induction d with
  | nil => intro _ _; exact ⟨rfl, fun _ _ => rfl⟩
  | cons c cs ih =>
    intro keys h
    cases c with
    | entry ty key fs =>
      simp only [noDups, Bool.and_eq_true, Bool.not_eq_true'] at h
      obtain ⟨⟨hnew, hf⟩, hrest⟩ := h
      have := ih _ hrest
      refine ⟨?_, fun m D => ?_⟩
      · simp only [reportsFrom, cmdReports, fieldReports_fresh key fs [] hf, hnew, Bool.false_eq_true, if_false,
          List.append_nil, this.1]
      · simp only [denoteFromD, denoteFrom, stepDenotD, stepDenot, denoteEntryD_fresh m ty key fs hf, this.2]
    | strdef n v => exact ⟨(ih _ h).1, fun m D => (ih _ h).2 _ _⟩
    | preamble v => exact ⟨(ih _ h).1, fun m D => (ih _ h).2 _ _⟩
    | comment t => exact ⟨(ih _ h).1, fun m D => (ih _ h).2 _ _⟩
    | junk t => exact ⟨(ih _ h).1, fun m D => (ih _ h).2 _ _⟩

/-- (i) a `WF` document is `WFD`, has nothing to report, and `denoteD` is `denote` on it (as
written and as it is) -/
theorem WF_spec (d : ADoc) (L : Layout) (h : WF d L) :
    WFD d L ∧ reports (written d L) = [] ∧ denoteD (written d L) = denote (written d L) ∧
    reports d = [] ∧ denoteD d = denote d := by
  have hn := noDups_of_wfFrom d L _ _ h
  have h1 := noDups_spec d [] hn.1
  have h2 := noDups_spec (written d L) [] hn.2
  exact ⟨wfFromD_of_wfFrom d L _ _ h, h2.1, h2.2 _ _, h1.1, h1.2 _ _⟩

/-- Stage 4: reading the rendering of a well-formed document gives the denotation of the document
as written, reports nothing and raises nothing (in either error mode). -/
theorem parseBib_faithful (d : ADoc) (L : Layout) (strict : Bool) (h : WF d L) :
    ∃ s' m' keys', parseBib (render d L) strict none = (s', none) ∧
      LoopInv s' m' (denote (written d L)) keys' := by
  obtain ⟨hD, hr, hden, _, _⟩ := WF_spec d L h
  obtain ⟨s', m', keys', h1, hinv⟩ := parseBib_faithfulD d L strict hD (fun _ => hr)
  rw [hr, hden] at hinv
  exact ⟨s', m', keys', h1, hinv.toLoopInv⟩

/-! ## layout independence at the level of the denotation -/

theorem stepMacros_writtenCmd (m : Macros) (c : ACmd) (l : CmdLayout) :
    stepMacros m (writtenCmd c l) = stepMacros m c := by
  cases c <;> rfl

theorem ciEntry_key (e : Entry) : (ciEntry e).key = e.key := rfl

theorem any_key_ci {es' es : List Entry} (h : es'.map ciEntry = es.map ciEntry) (key : Str) :
    es'.any (fun e => keyFold e.key = keyFold key) = es.any (fun e => keyFold e.key = keyFold key) := by
  have : ∀ l : List Entry, l.any (fun e => keyFold e.key = keyFold key) =
      (l.map ciEntry).any (fun e => keyFold e.key = keyFold key) := by
    intro l; rw [List.any_map]; rfl
  rw [this es', this es, h]

theorem ciEntry_denoteField (m : Macros) (e e' : Entry) (n n' : Str) (v : Value)
    (he : ciEntry e' = ciEntry e) (hn : lower n' = lower n) :
    ciEntry (denoteField m e' (n', v)) = ciEntry (denoteField m e (n, v)) := by
  have hp : isPersonField n' = isPersonField n := by simp only [isPersonField, isPersonFieldOf, hn]
  simp only [ciEntry, Entry.mk.injEq] at he
  obtain ⟨h1, h2, h3, h4, h5⟩ := he
  simp only [denoteField, hp]
  split
  · split
    · simp only [ciEntry, h1, h2, h3, h4, h5]
    · simp only [ciEntry, h1, h2, h3, h4, h5, List.map_append, List.map_cons, List.map_nil, hn]
  · simp only [ciEntry, h1, h2, h3, h4, h5, List.map_append, List.map_cons, List.map_nil, hn]

theorem ciEntry_foldl (m : Macros) (fs : List (Str × Value)) :
    ∀ (ls : List FieldLayout) (e e' : Entry), ciEntry e' = ciEntry e →
      ciEntry ((writtenFields fs ls).foldl (denoteField m) e') = ciEntry (fs.foldl (denoteField m) e) := by
  induction fs with
  | nil => intro ls e e' h; exact h
  | cons f fs ih =>
    intro ls e e' h
    simp only [writtenFields, List.foldl_cons]
    exact ih ls.tail _ _ (ciEntry_denoteField m e e' f.1 _ f.2 h (lower_applyMask _ _))

theorem ciEntry_denoteEntry (m : Macros) (ty key : Str) (fs : List (Str × Value)) (l : CmdLayout) :
    ciEntry (denoteEntry m (applyMask ty l.mask) key (writtenFields fs l.fields)) =
      ciEntry (denoteEntry m ty key fs) := by
  apply ciEntry_foldl
  simp only [ciEntry, lower_applyMask, List.map_nil]

/-- case masks change only the stored spelling of entry types, field names and role names -/
theorem denoteFrom_written (d : ADoc) :
    ∀ (L : Layout) (m : Macros) (D D' : Denot), D'.entries.map ciEntry = D.entries.map ciEntry →
      D'.preamble = D.preamble →
      (denoteFrom m D' (written d L)).entries.map ciEntry = (denoteFrom m D d).entries.map ciEntry ∧
      (denoteFrom m D' (written d L)).preamble = (denoteFrom m D d).preamble := by
  induction d with
  | nil => intro L m D D' h1 h2; exact ⟨h1, h2⟩
  | cons c cs ih =>
    intro L m D D' h1 h2
    simp only [written, denoteFrom, stepMacros_writtenCmd]
    apply ih
    · cases c with
      | entry ty key fs =>
        simp only [writtenCmd, stepDenot, any_key_ci h1 key]
        split
        · exact h1
        · simp only [List.map_append, h1, List.map_cons, List.map_nil, ciEntry_denoteEntry]
      | _ => exact h1
    · cases c with
      | entry ty key fs => simp only [writtenCmd, stepDenot]; split <;> split <;> exact h2
      | preamble v => simp only [writtenCmd, stepDenot, h2]
      | _ => exact h2

theorem denote_written (d : ADoc) (L : Layout) :
    (denote (written d L)).entries.map ciEntry = (denote d).entries.map ciEntry ∧
    (denote (written d L)).preamble = (denote d).preamble :=
  denoteFrom_written d L initMacros {} {} rfl rfl


/-! ## the denotation in closed form (identifiers) -/

/-- key, type as written, lower-cased type -/
def headOf (e : Entry) : Str × Str × Str := (e.key, e.origType, e.type)

theorem headOf_denoteField (m : Macros) (e : Entry) (f : Str × Value) : headOf (denoteField m e f) = headOf e := by
  simp only [denoteField]
  split
  · split <;> rfl
  · rfl

theorem headOf_denoteEntry (m : Macros) (ty key : Str) (fs : List (Str × Value)) :
    headOf (denoteEntry m ty key fs) = (key, ty, lower ty) := by
  have : ∀ (fs : List (Str × Value)) (e : Entry), headOf (fs.foldl (denoteField m) e) = headOf e := by
    intro fs
    induction fs with
    | nil => intro e; rfl
    | cons f fs ih => intro e; rw [List.foldl_cons, ih, headOf_denoteField]
  rw [denoteEntry, this]; rfl

/-- the stored fields: the non-person fields in source order under the names given, with
expanded and normalised values -/
theorem denoteEntry_fields (m : Macros) (ty key : Str) (fs : List (Str × Value)) :
    (denoteEntry m ty key fs).fields =
      (fs.filter fun f => !isPersonField f.1).map fun f => (f.1, normalizeWs (expand m f.2)) := by
  have : ∀ (fs : List (Str × Value)) (e : Entry), (fs.foldl (denoteField m) e).fields =
      e.fields ++ (fs.filter fun f => !isPersonField f.1).map fun f => (f.1, normalizeWs (expand m f.2)) := by
    intro fs
    induction fs with
    | nil => intro e; simp
    | cons f fs ih =>
      intro e
      rw [List.foldl_cons, ih]
      simp only [denoteField]
      cases hp : isPersonField f.1
      · simp [hp]
      · simp only [if_true, List.filter_cons, hp, Bool.not_true, Bool.false_eq_true, if_false]
        split <;> rfl
  rw [denoteEntry, this]; rfl

/-- the stored persons: one role per person field (name as given) with a non-empty person list -/
theorem denoteEntry_persons (m : Macros) (ty key : Str) (fs : List (Str × Value)) :
    (denoteEntry m ty key fs).persons =
      ((fs.filter fun f => isPersonField f.1 && personsOf (normalizeWs (expand m f.2)) ≠ []).map
        fun f => (f.1, personsOf (normalizeWs (expand m f.2)))) := by
  have : ∀ (fs : List (Str × Value)) (e : Entry), (fs.foldl (denoteField m) e).persons =
      e.persons ++ ((fs.filter fun f => isPersonField f.1 && personsOf (normalizeWs (expand m f.2)) ≠ []).map
        fun f => (f.1, personsOf (normalizeWs (expand m f.2)))) := by
    intro fs
    induction fs with
    | nil => intro e; simp
    | cons f fs ih =>
      intro e
      rw [List.foldl_cons, ih]
      simp only [denoteField]
      cases hp : isPersonField f.1
      · simp [hp]
      · by_cases hq : personsOf (normalizeWs (expand m f.2)) = []
        · simp [hp, hq]
        · simp [hp, hq]
  rw [denoteEntry, this]; rfl

theorem denoteEntry_eq_entryOf (m : Macros) (ty key : Str) (fs : List (Str × Value)) :
    denoteEntry m ty key fs = entryOf (m, ty, key, fs) := by
  have h1 := headOf_denoteEntry m ty key fs
  have h2 := denoteEntry_fields m ty key fs
  have h3 := denoteEntry_persons m ty key fs
  generalize denoteEntry m ty key fs = e at h1 h2 h3
  cases e
  simp only [headOf, Prod.mk.injEq] at h1
  simp only at h2 h3
  simp only [entryOf, Entry.mk.injEq]
  exact ⟨h1.1, h1.2.2, h1.2.1, h2, h3⟩

/-- under `WF` no entry is dropped: the entries of the denotation are those of the document as
written, in order -/
theorem denoteFrom_entries (d : ADoc) :
    ∀ (L : Layout) (m : Macros) (D : Denot) (keys : List Str), wfFrom m keys d L = true →
      (∀ e ∈ D.entries, keyFold e.key ∈ keys) →
      (denoteFrom m D (written d L)).entries = D.entries ++ (entriesWith m (written d L)).map entryOf := by
  induction d with
  | nil => intro L m D keys _ _; simp [written, denoteFrom, entriesWith]
  | cons c cs ih =>
    intro L m D keys hwf hk
    rw [wfFrom] at hwf
    simp only [Bool.and_eq_true] at hwf
    obtain ⟨hok, hwf'⟩ := hwf
    simp only [written, denoteFrom, stepMacros_writtenCmd]
    cases c with
    | entry ty key fs =>
      simp only [cmdOk, Bool.and_eq_true] at hok
      have hnew := hok.1.1.1.1.1.1.1.1.2
      have hany : D.entries.any (fun e => keyFold e.key = keyFold key) = false := by
        rw [List.any_eq_false]
        intro e he hek
        have := hk e he
        simp only [decide_eq_true_eq] at hek
        rw [hek] at this
        simp only [Bool.not_eq_true', List.contains_eq_mem, decide_eq_false_iff_not] at hnew
        exact hnew this
      have h := ih L.tail (stepMacros m (.entry ty key fs))
        (stepDenot m D (writtenCmd (.entry ty key fs) (L.headD {}))) (stepKeys keys (.entry ty key fs)) hwf' (by
          simp only [writtenCmd, stepDenot, hany, Bool.false_eq_true, if_false, stepKeys]
          intro e he
          rcases List.mem_append.1 he with he | he
          · exact List.mem_cons_of_mem _ (hk e he)
          · simp only [List.mem_singleton] at he
            rw [he, denoteEntry_key]; exact List.mem_cons_self)
      rw [h]
      simp only [writtenCmd, stepDenot, hany, Bool.false_eq_true, if_false, entriesWith, stepMacros,
        List.map_cons, List.append_assoc, List.cons_append, List.nil_append, denoteEntry_eq_entryOf]
    | strdef n v => exact ih L.tail _ _ keys hwf' hk
    | preamble v => exact ih L.tail _ _ keys hwf' hk
    | comment t => exact ih L.tail _ _ keys hwf' hk
    | junk t => exact ih L.tail _ _ keys hwf' hk

theorem denote_entries (d : ADoc) (L : Layout) (h : WF d L) :
    (denote (written d L)).entries = (entriesWith initMacros (written d L)).map entryOf := by
  have := denoteFrom_entries d L initMacros {} [] h (by simp)
  simpa [denote] using this


/-- the closed form when keys and field names may repeat: the first entry command of every key,
each with the first field of every name -/
theorem denoteFromD_entries (d : ADoc) :
    ∀ (m : Macros) (D : Denot) (keys : List Str), (∀ k, k ∈ keys ↔ ∃ e ∈ D.entries, keyFold e.key = k) →
      (denoteFromD m D d).entries = D.entries ++ (firstEntries keys (entriesWith m d)).map entryOfD := by
  induction d with
  | nil => intro m D keys _; simp [denoteFromD, entriesWith, firstEntries]
  | cons c cs ih =>
    intro m D keys hk
    cases c with
    | entry ty key fs =>
      have hany : D.entries.any (fun e => keyFold e.key = keyFold key) = keys.contains (keyFold key) := by
        rw [Bool.eq_iff_iff]
        simp only [List.any_eq_true, decide_eq_true_eq, List.contains_eq_mem]
        exact (hk _).symm
      simp only [denoteFromD, stepDenotD, stepMacros, entriesWith, firstEntries, hany]
      by_cases hdup : keys.contains (keyFold key) = true
      · rw [if_pos hdup, if_pos hdup]
        exact ih m D keys hk
      · rw [if_neg hdup, if_neg hdup]
        rw [ih m _ (keyFold key :: keys)]
        · simp only [List.map_cons, List.append_assoc, List.cons_append, List.nil_append, entryOfD,
            denoteEntryD_eq, denoteEntry_eq_entryOf]
        · intro k
          rw [List.mem_cons, hk k]
          simp only [List.mem_append, List.mem_singleton]
          constructor
          · rintro (rfl | ⟨e, he, hek⟩)
            · exact ⟨_, Or.inr rfl, by rw [denoteEntryD_key]⟩
            · exact ⟨e, Or.inl he, hek⟩
          · rintro ⟨e, he | rfl, hek⟩
            · exact Or.inr ⟨e, he, hek⟩
            · rw [denoteEntryD_key] at hek; exact Or.inl hek.symm
    | strdef n v => exact ih _ D keys hk
    | preamble v => exact ih _ _ keys hk
    | comment t => exact ih _ D keys hk
    | junk t => exact ih _ D keys hk

theorem denoteD_entries (d : ADoc) :
    (denoteD d).entries = (firstEntries [] (entriesWith initMacros d)).map entryOfD := by
  have := denoteFromD_entries d initMacros {} [] (by simp)
  simpa [denoteD] using this

theorem applyMask_nil (s : Str) : applyMask s [] = s := by cases s <;> rfl

theorem writtenFields_plain (fs : List (Str × Value)) : ∀ ls : List FieldLayout,
    plainFieldIds fs ls = true → writtenFields fs ls = fs := by
  induction fs with
  | nil => intro ls _; rfl
  | cons f fs ih =>
    intro ls h
    simp only [plainFieldIds, Bool.and_eq_true, decide_eq_true_eq] at h
    simp only [writtenFields, h.1, applyMask_nil, ih ls.tail h.2]

/-- `written` looks at the case masks only: not, e.g., at the trailing-comma choice -/
theorem written_noTrailing (d : ADoc) : ∀ L : Layout,
    written d (L.map (fun l => { l with trailing := false, afterTrailing := [] })) = written d L := by
  induction d with
  | nil => intro L; rfl
  | cons c cs ih =>
    intro L
    cases L with
    | nil => rfl
    | cons l ls =>
      simp only [List.map_cons, written, List.headD_cons, List.tail_cons, ih ls]
      cases c <;> rfl

/-- without case masks on entry types and field names the document is written as it is -/
theorem written_plain (d : ADoc) : ∀ L : Layout, plainIds d L = true → written d L = d := by
  induction d with
  | nil => intro L _; rfl
  | cons c cs ih =>
    intro L h
    cases c with
    | entry ty key fs =>
      simp only [plainIds, Bool.and_eq_true, decide_eq_true_eq] at h
      simp only [written, writtenCmd, h.1.1, applyMask_nil, writtenFields_plain fs _ h.1.2, ih L.tail h.2]
    | strdef n v => simp only [written, writtenCmd, ih L.tail h]
    | preamble v => simp only [written, writtenCmd, ih L.tail h]
    | comment t => simp only [written, writtenCmd, ih L.tail h]
    | junk t => simp only [written, writtenCmd, ih L.tail h]

/-- junk and `@comment` commands do not contribute to the denotation -/
theorem denoteFrom_stripJunk (d : ADoc) : ∀ (m : Macros) (D : Denot),
    denoteFrom m D (stripJunk d) = denoteFrom m D d := by
  induction d with
  | nil => intro m D; rfl
  | cons c cs ih =>
    intro m D
    cases c with
    | junk t => exact ih m D
    | comment t => exact ih m D
    | entry ty key fs => simp only [stripJunk, denoteFrom, ih]
    | strdef n v => simp only [stripJunk, denoteFrom, ih]
    | preamble v => simp only [stripJunk, denoteFrom, ih]

theorem denote_stripJunk (d : ADoc) : denote (stripJunk d) = denote d := denoteFrom_stripJunk d _ _

/-! ## identifiers are matched case-insensitively (facts about the model) -/

/-- a macro defined under one spelling is found under every spelling equal up to case -/
theorem getItem_setItem_ci (d : CIDict Str) {n n' : Str} (h : lower n = lower n') (v : Str) :
    (d.setItem n v).getItem n' = some v := by
  simp only [CIDict.getItem, CIDict.setItem, ← h, dget_dset_same]

/-- a field whose name equals an earlier one up to case is reported and dropped -/
theorem processFields_duplicate (key name : Str) (parts : List Str) (fs : List (Str × List Str)) (seen : List Str)
    (e : Entry) (s : St) (hs : s.strict = false) (hd : seen.contains (lower name) = true) :
    processFields key ((name, parts) :: fs) seen e s =
      processFields key fs seen e (s.report ⟨.duplicateField key name, none⟩) := by
  simp only [processFields, hd, if_true, handleError, hs, Bool.false_eq_true, if_false]

/-- an entry whose key equals an earlier one up to case is reported and dropped -/
theorem addEntry_repeated (s : St) (key : Str) (e e0 : Entry) (hw : s.db.wanted = none) (hs : s.strict = false)
    (h0 : e0 ∈ s.db.entries) (hk : keyFold e0.key = keyFold key) :
    addEntry s key e = .ok () (s.report ⟨.repeatedEntry key, none⟩) := by
  have : hasEntry s.db key = true := by
    simp only [hasEntry, List.any_eq_true, decide_eq_true_eq]; exact ⟨e0, h0, hk⟩
  simp only [addEntry, wantEntry, hw, Bool.not_true, Bool.false_eq_true, if_false, this, if_true, handleError, hs]

theorem months_getItem : ∀ p ∈ Gen.monthMacros, (CIDict.ofPairs Gen.monthMacros).getItem p.1 = some p.2 := by
  decide

theorem getItem_lower (d : CIDict Str) {k k' : Str} (h : lower k = lower k') : d.getItem k = d.getItem k' := by
  simp only [CIDict.getItem, h]


end Pybtex.BibRT
