/-
Lemmas about the rich-text model (`Model/RichText.lean`) and its reference semantics
(`Spec/RichText.lean`), used by `Props/C08.lean`.
-/
import PybtexModel.Spec.RichText

namespace Pybtex
namespace RT

/-- structural induction over rich-text trees -/
theorem induct {P : RT → Prop} (hstr : ∀ s, P (.str s)) (hsym : ∀ n, P (.sym n))
    (hnode : ∀ k ps, (∀ p ∈ ps, P p) → P (.node k ps)) : ∀ t, P t := by
  intro t
  exact RT.rec (motive_1 := P) (motive_2 := fun l => ∀ p ∈ l, P p) hstr hsym
    (fun k ps ih => hnode k ps ih)
    (by intro p hp; cases hp)
    (by
      intro hd tl h1 h2 p hp
      rcases List.mem_cons.1 hp with h | h
      · subst h; exact h1
      · exact h2 p h) t

/-! ### `sem` basics -/

theorem semL_append (ctx : List Markup) (a b : List RT) :
    semL ctx (a ++ b) = semL ctx a ++ semL ctx b := by
  induction a with
  | nil => simp [semL]
  | cons x a ih => simp [semL, ih]

theorem semL_eq_flatMap (ctx : List Markup) (l : List RT) : semL ctx l = l.flatMap (sem ctx) := by
  induction l with
  | nil => simp [semL]
  | cons x l ih => simp [semL, ih]

theorem semL_reverse_cons (ctx : List Markup) (p : RT) (l : List RT) :
    semL ctx (l ++ [p]) = semL ctx l ++ sem ctx p := by
  simp [semL_append, semL]

theorem sem_length (t : RT) : ∀ ctx, (sem ctx t).length = len t := by
  induction t using RT.induct with
  | hstr s => intro ctx; simp [sem, len]
  | hsym n => intro ctx; simp [sem, len]
  | hnode k ps ih =>
    intro ctx
    simp only [sem, len]
    generalize ctx ++ k.markup = c
    induction ps with
    | nil => simp [semL, lenL]
    | cons p ps ih2 =>
      simp only [semL, lenL, List.length_append]
      rw [ih p (by simp), ih2 (fun q hq => ih q (by simp [hq]))]

theorem semL_length (ctx : List Markup) (l : List RT) : (semL ctx l).length = lenL l := by
  induction l with
  | nil => simp [semL, lenL]
  | cons p ps ih => simp [semL, lenL, sem_length, ih]

theorem sem_nil_of_len (ctx : List Markup) (t : RT) (h : len t = 0) : sem ctx t = [] := by
  apply List.eq_nil_of_length_eq_zero; rw [sem_length]; exact h

/-- the markup context is a prefix of every stack: `sem ctx t` is `sem [] t` pushed inside `ctx` -/
theorem sem_ctx (t : RT) : ∀ ctx, sem ctx t = Flat.push ctx (sem [] t) := by
  induction t using RT.induct with
  | hstr s => intro ctx; simp [sem, Flat.push]
  | hsym n => intro ctx; simp [sem, Flat.push]
  | hnode k ps ih =>
    intro ctx
    simp only [sem, List.nil_append]
    have key : ∀ (c : List Markup) (l : List RT), (∀ p ∈ l, ∀ ctx, sem ctx p = Flat.push ctx (sem [] p)) →
        semL (ctx ++ c) l = Flat.push ctx (semL c l) := by
      intro c l hl
      induction l with
      | nil => simp [semL, Flat.push]
      | cons p l ih2 =>
        simp only [semL]
        rw [ih2 (fun q hq => hl q (by simp [hq])), hl p (by simp) (ctx ++ c), hl p (by simp) c]
        simp [Flat.push, List.append_assoc]
    exact key _ _ ih

theorem semL_ctx (ctx : List Markup) (l : List RT) : semL ctx l = Flat.push ctx (semL [] l) := by
  induction l with
  | nil => simp [semL, Flat.push]
  | cons p l ih => simp only [semL]; rw [ih, sem_ctx p ctx]; simp [Flat.push]


/-! ### the constructor preserves the denotation -/

theorem mem_takeWhile_true {α : Type} (f : α → Bool) (l : List α) : ∀ x ∈ l.takeWhile f, f x = true := by
  induction l with
  | nil => simp
  | cons a l ih =>
    intro x hx
    simp only [List.takeWhile] at hx
    split at hx
    · rcases List.mem_cons.1 hx with h | h
      · subst h; assumption
      · exact ih x h
    · cases hx

theorem sem_unpack (ctx : List Markup) (p : RT) : semL ctx (unpack p) = sem ctx p := by
  unfold unpack
  split
  · simp [sem, Kind.markup]
  · simp [semL]

theorem semL_prep (ctx : List Markup) (l : List RT) : semL ctx (prep l) = semL ctx l := by
  unfold prep
  induction l with
  | nil => simp [semL]
  | cons p l ih =>
    simp only [List.filter]
    split
    · simp only [List.flatMap_cons, semL_append, semL, ih, sem_unpack]
    · rename_i h
      have : len p = 0 := by simpa using h
      simp only [semL, ih, sem_nil_of_len ctx p this, List.nil_append]

theorem semL_strings (ctx : List Markup) (l : List RT) (h : ∀ q ∈ l, typeInfo q = .string) :
    sem ctx (.str (l.flatMap strValue)) = semL ctx l := by
  induction l with
  | nil => simp [sem, semL]
  | cons q l ih =>
    have hq := h q (by simp)
    cases q with
    | str s =>
      have := ih (fun r hr => h r (by simp [hr]))
      simp only [sem] at this
      simp [sem, semL, strValue, this]
    | sym n => simp [typeInfo] at hq
    | node k ps => simp [typeInfo] at hq

theorem semL_children (ctx : List Markup) (k : Kind) (l : List RT) (h : ∀ q ∈ l, typeInfo q = .multi k) :
    semL (ctx ++ k.markup) (l.flatMap children) = semL ctx l := by
  induction l with
  | nil => simp [semL]
  | cons q l ih =>
    have hq := h q (by simp)
    cases q with
    | str s => simp [typeInfo] at hq
    | sym n => simp [typeInfo] at hq
    | node k' ps =>
      simp only [typeInfo, TypeInfo.multi.injEq] at hq
      subst hq
      simp only [List.flatMap_cons, children, semL_append, semL, sem, ih (fun r hr => h r (by simp [hr]))]

theorem group_typeInfo (p : RT) (rest : List RT) (ti : TypeInfo) (h : typeInfo p = ti) :
    ∀ q ∈ p :: rest.takeWhile (similar p), typeInfo q = ti := by
  intro q hq
  rcases List.mem_cons.1 hq with h1 | h1
  · subst h1; exact h
  · have := mem_takeWhile_true _ _ q h1
    simp only [similar, beq_iff_eq] at this
    rw [this, h]

theorem semL_mergeSimilar (l : List RT) : ∀ ctx, semL ctx (mergeSimilar l) = semL ctx l := by
  fun_induction mergeSimilar l with
  | case1 => intro ctx; rfl
  | case2 p rest _ ih =>
    intro ctx
    conv => rhs; rw [← List.takeWhile_append_dropWhile (p := similar p) (l := rest)]
    simp only [List.cons_append, semL, semL_append, ih]
  | case3 p rest _ hg ih =>
    intro ctx
    have hnil : rest.takeWhile (similar p) = [] := by simpa using hg
    conv => rhs; rw [← List.takeWhile_append_dropWhile (p := similar p) (l := rest), hnil]
    simp only [List.nil_append, semL, ih]
  | case4 p rest hti _ ih =>
    intro ctx
    conv => rhs; rw [← List.takeWhile_append_dropWhile (p := similar p) (l := rest)]
    rw [← List.cons_append, semL_append, ← semL_strings ctx _ (group_typeInfo p rest _ hti)]
    simp only [semL, ih]
  | case5 p rest k _ hg ih =>
    intro ctx
    have hnil : rest.takeWhile (similar p) = [] := by simpa using hg
    conv => rhs; rw [← List.takeWhile_append_dropWhile (p := similar p) (l := rest), hnil]
    simp only [List.nil_append, semL, ih]
  | case6 p rest k hti _ ih2 ih1 =>
    intro ctx
    conv => rhs; rw [← List.takeWhile_append_dropWhile (p := similar p) (l := rest)]
    rw [← List.cons_append, semL_append, ← semL_children ctx k _ (group_typeInfo p rest _ hti)]
    simp only [semL, sem, ih1, ih2, semL_prep]

theorem semL_mkParts (ctx : List Markup) (l : List RT) : semL ctx (mkParts l) = semL ctx l := by
  simp [mkParts, semL_mergeSimilar, semL_prep]

/-- normalisation preserves the denotation -/
theorem sem_mk (ctx : List Markup) (k : Kind) (ps : List RT) : sem ctx (mk k ps) = sem ctx (.node k ps) := by
  simp [mk, sem, semL_mkParts]

theorem len_mk (k : Kind) (ps : List RT) : len (mk k ps) = lenL ps := by
  rw [← sem_length (mk k ps) [], sem_mk, sem_length]; rfl

theorem lenL_mkParts (ps : List RT) : lenL (mkParts ps) = lenL ps := by
  rw [← semL_length [], semL_mkParts, semL_length]

theorem sem_build (t : RT) : ∀ ctx, sem ctx (build t) = sem ctx t := by
  induction t using RT.induct with
  | hstr s => intro ctx; rfl
  | hsym n => intro ctx; rfl
  | hnode k ps ih =>
    intro ctx
    simp only [build, sem_mk, sem]
    generalize ctx ++ k.markup = c
    induction ps with
    | nil => rfl
    | cons p ps ih2 =>
      simp only [buildL, semL]
      rw [ih p (by simp), ih2 (fun q hq => ih q (by simp [hq]))]


/-! ### `+`, `append`, `join` -/

theorem sem_add (ctx : List Markup) (a b : RT) : sem ctx (add a b) = sem ctx a ++ sem ctx b := by
  simp [add, sem_mk, sem, semL, Kind.markup]

theorem sem_append_node (ctx : List Markup) (k : Kind) (ps : List RT) (x : RT) :
    sem ctx (append (.node k ps) x) = sem ctx (.node k ps) ++ sem (ctx ++ k.markup) x := by
  simp [append, sem_mk, sem, semL_append, semL]

theorem semL_joinedList (ctx : List Markup) (sep : RT) (parts : List RT) :
    semL ctx (joinedList sep parts) = joinWith (sem ctx sep) (parts.map (sem ctx)) := by
  induction parts with
  | nil => simp [joinedList, semL, joinWith]
  | cons p ps ih =>
    cases ps with
    | nil => simp [joinedList, semL, joinWith]
    | cons q r =>
      simp only [joinedList, semL, List.map_cons, joinWith] at ih ⊢
      rw [ih]; simp [List.append_assoc]

theorem sem_join (ctx : List Markup) (sep : RT) (parts : List RT) :
    sem ctx (join sep parts) = joinWith (sem ctx sep) (parts.map (sem ctx)) := by
  simp [join, sem_mk, sem, Kind.markup, semL_joinedList]

/-! ### `str`, rendering -/

theorem toStr_sem (t : RT) : ∀ ctx, Flat.toStr (sem ctx t) = toStr t := by
  induction t using RT.induct with
  | hstr s =>
    intro ctx
    simp only [sem, toStr, Flat.toStr]
    induction s with
    | nil => rfl
    | cons c s ih =>
      simp only [List.map_cons, List.flatMap_cons, List.singleton_append]
      exact congrArg _ ih
  | hsym n => intro ctx; simp [sem, toStr, Flat.toStr]
  | hnode k ps ih =>
    intro ctx
    simp only [sem, toStr]
    generalize ctx ++ k.markup = c
    induction ps with
    | nil => rfl
    | cons p ps ih2 =>
      simp only [semL, toStrL]
      rw [← ih p (by simp) c, ← ih2 (fun q hq => ih q (by simp [hq]))]
      simp [Flat.toStr]

theorem push_push (a b : List Markup) (s : Flat) : Flat.push a (Flat.push b s) = Flat.push (a ++ b) s := by
  simp [Flat.push, List.append_assoc]

theorem push_nil (s : Flat) : Flat.push [] s = s := by
  simp [Flat.push]

theorem push_append (m : List Markup) (a b : Flat) : Flat.push m (a ++ b) = Flat.push m a ++ Flat.push m b := by
  simp [Flat.push]

theorem render_trace (t : RT) : render traceBackend t = some (sem [] t) := by
  induction t using RT.induct with
  | hstr s => simp [render, traceBackend, sem]
  | hsym n => simp [render, traceBackend, sem]
  | hnode k ps ih =>
    have hl : renderL traceBackend ps = some (ps.map (sem [])) := by
      induction ps with
      | nil => rfl
      | cons p ps ih2 =>
        simp only [renderL, ih p (by simp), ih2 (fun q hq => ih q (by simp [hq])), List.map_cons]
    have hf : (ps.map (sem [])).flatten = semL [] ps := by
      rw [semL_eq_flatMap, List.flatMap_def]
    simp only [render, hl, sem, List.nil_append]
    cases k with
    | text => simp [traceBackend, hf, Kind.markup]
    | tag n => simp only [traceBackend, hf, Kind.markup]; rw [semL_ctx [Markup.tag n]]
    | href u e => simp only [traceBackend, hf, Kind.markup]; rw [semL_ctx [Markup.href u e]]
    | prot => simp only [traceBackend, hf, Kind.markup]; rw [semL_ctx [Markup.prot]]

/-! ### `==` is structural equality -/

theorem eq_iff (a : RT) : ∀ b, eq a b = true ↔ a = b := by
  induction a using RT.induct with
  | hstr s => intro b; cases b <;> simp [eq]
  | hsym n => intro b; cases b <;> simp [eq]
  | hnode k ps ih =>
    intro b
    cases b with
    | str s => simp [eq]
    | sym n => simp [eq]
    | node k' qs =>
      simp only [eq, Bool.and_eq_true, beq_iff_eq, node.injEq]
      have : ∀ qs, eqL ps qs = true ↔ ps = qs := by
        induction ps with
        | nil => intro qs; cases qs <;> simp [eqL]
        | cons p ps ih2 =>
          intro qs
          cases qs with
          | nil => simp [eqL]
          | cons q qs =>
            simp only [eqL, Bool.and_eq_true, List.cons.injEq]
            rw [ih p (by simp) q, ih2 (fun r hr => ih r (by simp [hr])) qs]
      rw [this qs]


/-! ### slicing -/

theorem pyNorm_nat (n m : Nat) : pyNorm n (m : Int) = min m n := by
  simp [pyNorm]; omega
theorem strSlice_take {α : Type} (s : List α) (m : Nat) : strSlice s none (some (m : Int)) = s.take m := by
  simp only [strSlice, sliceIdx, pyNorm_nat, List.drop_zero, Nat.sub_zero]
  rcases Nat.le_total m s.length with h | h
  · rw [Nat.min_eq_left h]
  · rw [Nat.min_eq_right h, List.take_of_length_le h, List.take_of_length_le (Nat.le_refl _)]
theorem strSlice_drop {α : Type} (s : List α) (m : Nat) : strSlice s (some (m : Int)) none = s.drop m := by
  simp only [strSlice, sliceIdx, pyNorm_nat]
  rcases Nat.le_total m s.length with h | h
  · rw [Nat.min_eq_left h, List.take_of_length_le (by simp)]
  · rw [Nat.min_eq_right h, List.drop_of_length_le h, List.drop_of_length_le (Nat.le_refl _)]; simp

/-- the slicing law for one text -/
def SliceOK (t : RT) : Prop := ∀ ctx i j, sem ctx (getSlice t i j) = strSlice (sem ctx t) i j

theorem lenL_reverse (l : List RT) : lenL l.reverse = lenL l := by
  rw [← semL_length [], ← semL_length [] l, semL_eq_flatMap, semL_eq_flatMap]
  simp only [List.length_flatMap, List.map_reverse, List.sum_reverse]

theorem semL_begLoop (ctx : List Markup) (ps : List RT) (hP : ∀ p ∈ ps, SliceOK p) (N L : Nat) (h : L ≤ N) :
    semL ctx (begLoop id (fun p m => getSlice p none (some m)) ps (N : Int) (L : Int))
      = (semL ctx ps).take (N - L) := by
  induction ps generalizing L with
  | nil => simp [begLoop, semL]
  | cons p ps ih =>
    simp only [begLoop, id]
    split
    · rename_i hc
      have hc' : N - L < len p := by omega
      have e : (N : Int) - (L : Int) = ((N - L : Nat) : Int) := by omega
      simp only [semL, List.append_nil]
      rw [hP p (by simp) ctx, e, strSlice_take]
      rw [List.take_append_of_le_length (by rw [sem_length]; omega)]
    · rename_i hc
      have e : (L : Int) + (len p : Int) = ((L + len p : Nat) : Int) := by omega
      rw [e]
      simp only [semL]
      rw [ih (fun q hq => hP q (by simp [hq])) (L + len p) (by omega)]
      have h1 : (sem ctx p).take (N - L) = sem ctx p := List.take_of_length_le (by rw [sem_length]; omega)
      rw [List.take_append, h1, sem_length]
      congr 2; omega

theorem semL_endLoop (ctx : List Markup) (r : List RT) (hP : ∀ p ∈ r, SliceOK p) (N L : Nat) (h : L ≤ N) :
    semL ctx (endLoop id (fun p m => getSlice p (some m) none) r (N : Int) (L : Int)).reverse
      = (semL ctx r.reverse).drop (lenL r - (N - L)) := by
  induction r generalizing L with
  | nil => simp [endLoop, semL]
  | cons p r ih =>
    simp only [endLoop, id, List.reverse_cons, semL_reverse_cons, lenL]
    split
    · rename_i hc
      have e : (len p : Int) - ((N : Int) - (L : Int)) = ((len p - (N - L) : Nat) : Int) := by omega
      simp only [List.reverse_cons, List.reverse_nil, List.nil_append, semL, List.append_nil]
      rw [hP p (by simp) ctx, e, strSlice_drop]
      have hl : (semL ctx r.reverse).length = lenL r := by rw [semL_length, lenL_reverse]
      have e2 : len p + lenL r - (N - L) = (semL ctx r.reverse).length + (len p - (N - L)) := by omega
      have h3 : (semL ctx r.reverse).drop ((semL ctx r.reverse).length + (len p - (N - L))) = [] :=
        List.drop_of_length_le (by omega)
      rw [e2, List.drop_append, h3]
      simp
    · rename_i hc
      have e : (L : Int) + (len p : Int) = ((L + len p : Nat) : Int) := by omega
      rw [e]
      simp only [List.reverse_cons, semL_reverse_cons]
      rw [ih (fun q hq => hP q (by simp [hq])) (L + len p) (by omega)]
      have hl : (semL ctx r.reverse).length = lenL r := by rw [semL_length, lenL_reverse]
      have h3 : (semL ctx r.reverse ++ sem ctx p).drop (len p + lenL r - (N - L))
          = (semL ctx r.reverse).drop (len p + lenL r - (N - L)) ++ sem ctx p :=
        List.drop_append_of_le_length (by omega)
      rw [h3]
      congr 2; omega


theorem strSlice_map {α β : Type} (f : α → β) (s : List α) (i j : Option Int) :
    (strSlice s i j).map f = strSlice (s.map f) i j := by
  simp [strSlice, List.map_take, List.map_drop]

theorem strSlice_singleton {α : Type} (x : α) (i j : Option Int) :
    strSlice [x] i j = if symSliceNonempty i j then [x] else [] := by
  have h := strSlice_map (fun _ : α => ()) [x] i j
  simp only [List.map_cons, List.map_nil] at h
  simp only [symSliceNonempty, ← h]
  generalize hs : strSlice [x] i j = r
  have hsub : r.length ≤ 1 := by
    rw [← hs]; simp only [strSlice, List.length_take, List.length_drop, List.length_singleton]; omega
  match r, hsub with
  | [], _ => simp
  | [y], _ =>
    have : y ∈ [x] := by
      have : y ∈ strSlice [x] i j := by rw [hs]; simp
      simp only [strSlice] at this
      exact List.mem_of_mem_drop (List.mem_of_mem_take this)
    simp at this; simp [this]

theorem sliceOK_str (s : Str) : SliceOK (.str s) := by
  intro ctx i j
  simp only [getSlice_str, sem, strSlice_map]

theorem sliceOK_sym (n : Str) : SliceOK (.sym n) := by
  intro ctx i j
  simp only [getSlice_sym, sem, strSlice_singleton]
  split <;> simp [sem]

theorem sliceIdx_le (n : Nat) (i : Option Int) (d : Nat) (hd : d ≤ n) : sliceIdx n i d ≤ n := by
  unfold sliceIdx
  split
  · exact hd
  · unfold pyNorm; split <;> omega

theorem depthL_sliceEndParts_le (ps : List RT) (m : Int) : depthL (sliceEndParts ps m) ≤ depthL ps := by
  rw [← sliceEndPartsB_val]; exact (sliceEndPartsB ps m).2

theorem depthL_sliceBeginningParts_le (ps : List RT) (m : Int) : depthL (sliceBeginningParts ps m) ≤ depthL ps := by
  rw [← sliceBegPartsB_val]; exact (sliceBegPartsB ps m).2

/-- `_slice_end(m)` keeps the last `m` pairs -/
theorem semL_sliceEndParts (ctx : List Markup) (ps : List RT) (hP : ∀ p ∈ ps, SliceOK p) (m : Nat) :
    semL ctx (sliceEndParts ps (m : Int)) = (semL ctx ps).drop (lenL ps - m) := by
  have := semL_endLoop ctx ps.reverse (fun p hp => hP p (List.mem_reverse.1 hp)) m 0 (Nat.zero_le _)
  simp only [List.reverse_reverse, lenL_reverse, Nat.sub_zero] at this
  simpa [sliceEndParts] using this

/-- `_slice_beginning(m)` keeps the first `m` pairs -/
theorem semL_sliceBeginningParts (ctx : List Markup) (ps : List RT) (hP : ∀ p ∈ ps, SliceOK p) (m : Nat) :
    semL ctx (sliceBeginningParts ps (m : Int)) = (semL ctx ps).take m := by
  have := semL_begLoop ctx ps hP m 0 (Nat.zero_le _)
  simpa [sliceBeginningParts] using this

theorem sliceOK_node (k : Kind) (ps : List RT) (d : Nat) (hd : depthL ps ≤ d)
    (ih : ∀ t, depth t ≤ d → SliceOK t) : SliceOK (.node k ps) := by
  intro ctx i j
  have hps : ∀ p ∈ ps, SliceOK p := fun p hp => ih p (Nat.le_trans (depth_le_of_mem hp) hd)
  rw [getSlice_node]
  simp only [sliceBeginning]
  generalize hn : lenL ps = n
  generalize ha : sliceIdx n i 0 = a
  generalize hb : sliceIdx n j n = b
  have ha' : a ≤ n := by rw [← ha]; exact sliceIdx_le n i 0 (Nat.zero_le _)
  have hb' : b ≤ n := by rw [← hb]; exact sliceIdx_le n j n (Nat.le_refl _)
  have e1 : (n : Int) - (a : Int) = ((n - a : Nat) : Int) := by omega
  have e2 : (((if b < a then a else b) : Nat) : Int) - (a : Int) = (((if b < a then a else b) - a : Nat) : Int) := by
    split <;> omega
  rw [e1, e2]
  have hE : ∀ p ∈ mkParts (sliceEndParts ps ((n - a : Nat) : Int)), SliceOK p := by
    intro p hp
    apply ih
    exact Nat.le_trans (depth_le_of_mem hp)
      (Nat.le_trans (depthL_mkParts_le _) (Nat.le_trans (depthL_sliceEndParts_le _ _) hd))
  rw [sem_mk]
  simp only [sem]
  rw [semL_sliceBeginningParts _ _ hE, semL_mkParts, semL_sliceEndParts _ _ hps, hn]
  simp only [strSlice, semL_length, hn, ha, hb]
  have e3 : n - (n - a) = a := by omega
  rw [e3]
  congr 1
  split <;> omega

theorem sliceOK_of_depth : ∀ d t, depth t ≤ d → SliceOK t := by
  intro d
  induction d with
  | zero =>
    intro t ht
    cases t with
    | str s => exact sliceOK_str s
    | sym n => exact sliceOK_sym n
    | node k ps => simp [depth] at ht
  | succ d ih =>
    intro t ht
    cases t with
    | str s => exact sliceOK_str s
    | sym n => exact sliceOK_sym n
    | node k ps =>
      simp only [depth] at ht
      exact sliceOK_node k ps d (by omega) ih

/-- slicing acts on the string of pairs exactly as Python slicing acts on a string -/
theorem sem_getSlice (ctx : List Markup) (t : RT) (i j : Option Int) :
    sem ctx (getSlice t i j) = strSlice (sem ctx t) i j :=
  sliceOK_of_depth (depth t) t (Nat.le_refl _) ctx i j


/-! ### integer index -/

theorem sem_getIndex_ok (ctx : List Markup) (t : RT) (i : Int)
    (h : -(len t : Int) ≤ i ∧ i < (len t : Int)) :
    ∃ r, getIndex t i = .ok r ∧
      sem ctx r = ((sem ctx t).drop (if i < 0 then (len t : Int) + i else i).toNat).take 1 ∧
      top r = top t := by
  unfold getIndex
  rw [if_pos h]
  generalize hk : (if i < 0 then (len t : Int) + i else i) = k
  have hk0 : 0 ≤ k ∧ k < (len t : Int) := by rw [← hk]; split <;> omega
  obtain ⟨K, rfl⟩ := Int.eq_ofNat_of_zero_le hk0.1
  simp only [Int.toNat_natCast]
  cases t with
  | str s => exact ⟨_, rfl, by simp [sem, List.map_take, List.map_drop], rfl⟩
  | sym n =>
    refine ⟨_, rfl, ?_, rfl⟩
    simp only [len] at hk0
    have : K = 0 := by omega
    subst this; simp [sem]
  | node k ps =>
    refine ⟨_, rfl, ?_, by simp [sliceBeginning, mk, top]⟩
    simp only [len] at hk0 ⊢
    have e1 : (lenL ps : Int) - (K : Int) = ((lenL ps - K : Nat) : Int) := by omega
    rw [e1]
    simp only [sliceBeginning, sem_mk, sem]
    have e2 : (1 : Int) = ((1 : Nat) : Int) := rfl
    rw [e2, semL_sliceBeginningParts _ _ (fun p _ => sliceOK_of_depth _ p (Nat.le_refl _)), semL_mkParts,
      semL_sliceEndParts _ _ (fun p _ => sliceOK_of_depth _ p (Nat.le_refl _))]
    congr 2; omega

theorem getIndex_error (t : RT) (i : Int) (h : ¬(-(len t : Int) ≤ i ∧ i < (len t : Int))) :
    getIndex t i = .error .indexError := by
  unfold getIndex; rw [if_neg h]

/-! ### case mapping -/

theorem mem_sem_stack (t : RT) (ctx : List Markup) : ∀ x ∈ sem ctx t, ∃ r, x.2 = ctx ++ r := by
  intro x hx
  rw [sem_ctx] at hx
  simp only [Flat.push, List.mem_map] at hx
  obtain ⟨y, _, rfl⟩ := hx
  exact ⟨y.2, rfl⟩

theorem isProt_append (a b : List Markup) : Flat.isProt (a ++ b) = (Flat.isProt a || Flat.isProt b) := by
  simp [Flat.isProt]

theorem mapCase_append (f : Char → Char) (a b : Flat) :
    Flat.mapCase f (a ++ b) = Flat.mapCase f a ++ Flat.mapCase f b := by
  simp [Flat.mapCase]

theorem mapCase_prot (f : Char → Char) (s : Flat) (h : ∀ x ∈ s, Flat.isProt x.2 = true) :
    Flat.mapCase f s = s := by
  unfold Flat.mapCase
  conv => rhs; rw [← List.map_id s]
  apply List.map_congr_left
  intro x hx
  have := h x hx
  cases hx1 : x.1 <;> simp [this]

theorem sem_caseMap (f : Char → Char) (t : RT) :
    ∀ ctx, Flat.isProt ctx = false → sem ctx (caseMap (List.map f) t) = Flat.mapCase f (sem ctx t) := by
  induction t using RT.induct with
  | hstr s =>
    intro ctx hc
    simp [caseMap, sem, Flat.mapCase, hc]
  | hsym n => intro ctx hc; simp [caseMap, sem, Flat.mapCase]
  | hnode k ps ih =>
    intro ctx hc
    have hL : ∀ c, Flat.isProt c = false → semL c (caseMapL (List.map f) ps) = Flat.mapCase f (semL c ps) := by
      intro c hc'
      induction ps with
      | nil => simp [caseMapL, semL, Flat.mapCase]
      | cons p ps ih2 =>
        simp only [caseMapL, semL, mapCase_append]
        rw [ih p (by simp) c hc', ih2 (fun q hq => ih q (by simp [hq]))]
    cases k with
    | prot =>
      simp only [caseMap]
      rw [mapCase_prot]
      intro x hx
      simp only [sem, Kind.markup] at hx
      obtain ⟨r', hr'⟩ : ∃ r', x.2 = (ctx ++ [Markup.prot]) ++ r' := by
        have := semL_ctx (ctx ++ [Markup.prot]) ps
        rw [this] at hx
        simp only [Flat.push, List.mem_map] at hx
        obtain ⟨y, _, rfl⟩ := hx
        exact ⟨y.2, rfl⟩
      rw [hr']; simp [Flat.isProt]
    | text =>
      simp only [caseMap, sem_mk, sem, Kind.markup, List.append_nil]
      exact hL ctx hc
    | tag n =>
      simp only [caseMap, sem_mk, sem, Kind.markup]
      exact hL _ (by rw [isProt_append, hc]; rfl)
    | href u e =>
      simp only [caseMap, sem_mk, sem, Kind.markup]
      exact hL _ (by rw [isProt_append, hc]; rfl)

theorem lower_eq_map : Pybtex.lower = List.map lowerC := rfl
theorem upper_eq_map : Pybtex.upper = List.map upperC := rfl

theorem sem_lowerT (t : RT) : sem [] (lowerT t) = Flat.mapCase lowerC (sem [] t) := by
  rw [lowerT, lower_eq_map]; exact sem_caseMap lowerC t [] rfl
theorem sem_upperT (t : RT) : sem [] (upperT t) = Flat.mapCase upperC (sem [] t) := by
  rw [upperT, upper_eq_map]; exact sem_caseMap upperC t [] rfl

theorem top_caseMap (f : Str → Str) (t : RT) : top (caseMap f t) = top t := by
  cases t with
  | str s => rfl
  | sym n => rfl
  | node k ps => cases k <;> simp [caseMap, mk, top]


/-! ### normal forms -/

/-- a part as the constructors leave it: non-empty, not a `Text`, itself normal -/
def PartOK (p : RT) : Prop := len p ≠ 0 ∧ isText p = false ∧ Normal p = true

theorem normalL_iff (l : List RT) : NormalL l = true ↔ ∀ p ∈ l, PartOK p := by
  induction l with
  | nil => simp [NormalL]
  | cons p l ih =>
    simp only [NormalL, Bool.and_eq_true, ih, List.mem_cons, forall_eq_or_imp, PartOK]
    simp [and_assoc]

theorem normal_node (k : Kind) (ps : List RT) :
    Normal (.node k ps) = true ↔ (∀ p ∈ ps, PartOK p) ∧ noAdjacentSimilar ps = true := by
  simp [Normal, normalL_iff]

theorem unpack_of_not_text (p : RT) (h : isText p = false) : unpack p = [p] := by
  unfold unpack; split
  · simp [isText] at h
  · rfl

theorem prep_of_partOK (l : List RT) (h : ∀ p ∈ l, PartOK p) : prep l = l := by
  unfold prep
  induction l with
  | nil => rfl
  | cons p l ih =>
    have hp := h p (by simp)
    have : (len p != 0) = true := by simpa using hp.1
    simp only [List.filter, this, List.flatMap_cons, unpack_of_not_text p hp.2.1]
    rw [ih (fun q hq => h q (by simp [hq]))]; rfl

theorem partOK_prep (ps : List RT) (h : ∀ p ∈ ps, Normal p = true) : ∀ q ∈ prep ps, PartOK q := by
  intro q hq
  simp only [prep, List.mem_flatMap, List.mem_filter] at hq
  obtain ⟨p, ⟨hp, hne⟩, hqp⟩ := hq
  have hn := h p hp
  unfold unpack at hqp
  split at hqp
  · rw [normal_node] at hn
    exact hn.1 q hqp
  · rename_i hnt
    simp only [List.mem_singleton] at hqp
    subst hqp
    refine ⟨by simpa using hne, ?_, hn⟩
    cases q with
    | str s => rfl
    | sym n => rfl
    | node k ps => cases k <;> simp_all [isText]

theorem head_mergeSimilar (l : List RT) :
    (mergeSimilar l).head?.map typeInfo = l.head?.map typeInfo := by
  fun_induction mergeSimilar l <;> simp_all [typeInfo]

theorem noAdj_cons_of_head (x : RT) (M : List RT) (hM : noAdjacentSimilar M = true)
    (h : ∀ y, M.head? = some y → mergeable x y = false) : noAdjacentSimilar (x :: M) = true := by
  cases M with
  | nil => rfl
  | cons y M => simp [noAdjacentSimilar, h y rfl, hM]

theorem head_dropWhile_not {α : Type} (f : α → Bool) (l : List α) (y : α)
    (h : (l.dropWhile f).head? = some y) : f y = false := by
  induction l with
  | nil => simp at h
  | cons a l ih =>
    simp only [List.dropWhile] at h
    split at h
    · exact ih h
    · rename_i hfa
      simp only [List.head?_cons, Option.some.injEq] at h; subst h; exact hfa

/-- the element following a group is not mergeable with anything of the group's type info -/
theorem next_not_mergeable (p x : RT) (rest : List RT) (hx : typeInfo x = typeInfo p) :
    ∀ y, (mergeSimilar (rest.dropWhile (similar p))).head? = some y → mergeable x y = false := by
  intro y hy
  have h1 := head_mergeSimilar (rest.dropWhile (similar p))
  rw [hy] at h1
  simp only [Option.map_some] at h1
  cases hd : (rest.dropWhile (similar p)).head? with
  | none => rw [hd] at h1; simp at h1
  | some z =>
    rw [hd] at h1
    simp only [Option.map_some, Option.some.injEq] at h1
    have := head_dropWhile_not _ _ z hd
    simp only [similar, beq_eq_false_iff_ne, ne_eq] at this
    simp only [mergeable, hx, h1, Bool.and_eq_false_imp, beq_iff_eq]
    intro h2; exact absurd h2.symm this

theorem noAdj_symbols (p : RT) (l M : List RT) (hp : typeInfo p = .none) (hl : ∀ q ∈ l, typeInfo q = .none)
    (hM : noAdjacentSimilar M = true) : noAdjacentSimilar (p :: l ++ M) = true := by
  induction l generalizing p with
  | nil =>
    apply noAdj_cons_of_head _ _ hM
    intro y _; simp [mergeable, hp]
  | cons q l ih =>
    simp only [List.cons_append, noAdjacentSimilar, mergeable, hp, bne_self_eq_false, Bool.and_false,
      Bool.not_false, Bool.true_and]
    exact ih q (hl q (by simp)) (fun r hr => hl r (by simp [hr]))

theorem noAdj_mergeSimilar (l : List RT) : noAdjacentSimilar (mergeSimilar l) = true := by
  fun_induction mergeSimilar l with
  | case1 => rfl
  | case2 p rest hti ih =>
    apply noAdj_symbols p _ _ hti _ ih
    intro q hq
    have := mem_takeWhile_true _ _ q hq
    simp only [similar, beq_iff_eq] at this
    rw [this, hti]
  | case3 p rest _ _ ih => exact noAdj_cons_of_head _ _ ih (next_not_mergeable p p rest rfl)
  | case4 p rest hti _ ih =>
    exact noAdj_cons_of_head _ _ ih (next_not_mergeable p _ rest (by rw [hti]; rfl))
  | case5 p rest k _ _ ih => exact noAdj_cons_of_head _ _ ih (next_not_mergeable p p rest rfl)
  | case6 p rest k hti _ _ ih =>
    exact noAdj_cons_of_head _ _ ih (next_not_mergeable p _ rest (by rw [hti]; rfl))


theorem lenL_group (k : Kind) (l : List RT) (h : ∀ q ∈ l, typeInfo q = .multi k) :
    lenL (l.flatMap children) = lenL l := by
  rw [← semL_length ([] ++ k.markup), semL_children [] k l h, semL_length]

theorem len_strings (l : List RT) (h : ∀ q ∈ l, typeInfo q = .string) :
    (l.flatMap strValue).length = lenL l := by
  have := semL_strings [] l h
  rw [← semL_length [], ← this]; simp [sem]

theorem partOK_mergeSimilar (l : List RT) : (∀ p ∈ l, PartOK p) → ∀ q ∈ mergeSimilar l, PartOK q := by
  fun_induction mergeSimilar l with
  | case1 => intro _ q hq; cases hq
  | case2 p rest hti ih =>
    intro h q hq
    simp only [List.cons_append, List.mem_cons, List.mem_append] at hq
    rcases hq with hq | hq | hq
    · subst hq; exact h _ (by simp)
    · exact h q (by simp [(List.takeWhile_sublist _).subset hq])
    · exact ih (fun r hr => h r (by simp [(List.dropWhile_sublist _).subset hr])) q hq
  | case3 p rest _ _ ih =>
    intro h q hq
    rcases List.mem_cons.1 hq with hq | hq
    · subst hq; exact h _ (by simp)
    · exact ih (fun r hr => h r (by simp [(List.dropWhile_sublist _).subset hr])) q hq
  | case4 p rest hti _ ih =>
    intro h q hq
    rcases List.mem_cons.1 hq with hq | hq
    · subst hq
      refine ⟨?_, rfl, rfl⟩
      simp only [len]
      rw [len_strings _ (group_typeInfo p rest _ hti)]
      have := (h p (by simp)).1
      simp only [lenL]; omega
    · exact ih (fun r hr => h r (by simp [(List.dropWhile_sublist _).subset hr])) q hq
  | case5 p rest k _ _ ih =>
    intro h q hq
    rcases List.mem_cons.1 hq with hq | hq
    · subst hq; exact h _ (by simp)
    · exact ih (fun r hr => h r (by simp [(List.dropWhile_sublist _).subset hr])) q hq
  | case6 p rest k hti _ ih2 ih1 =>
    intro h q hq
    rcases List.mem_cons.1 hq with hq | hq
    · subst hq
      have hg := group_typeInfo p rest _ hti
      have hgOK : ∀ r ∈ p :: rest.takeWhile (similar p), PartOK r := by
        intro r hr
        rcases List.mem_cons.1 hr with hr | hr
        · subst hr; exact h _ (by simp)
        · exact h r (by simp [(List.takeWhile_sublist _).subset hr])
      have hX : ∀ r ∈ (p :: rest.takeWhile (similar p)).flatMap children, PartOK r := by
        intro r hr
        simp only [List.mem_flatMap] at hr
        obtain ⟨g, hg1, hr⟩ := hr
        have hgn := (hgOK g hg1).2.2
        cases g with
        | str s => simp [children] at hr
        | sym n => simp [children] at hr
        | node k' ps => rw [normal_node] at hgn; exact hgn.1 r hr
      have hprep := prep_of_partOK _ hX
      refine ⟨?_, ?_, ?_⟩
      · simp only [len]
        have hl := lenL_mkParts ((p :: rest.takeWhile (similar p)).flatMap children)
        simp only [mkParts] at hl
        rw [hl, lenL_group k _ hg]
        have := (h p (by simp)).1
        simp only [lenL]; omega
      · have := (h p (by simp)).2.1
        cases p with
        | str s => simp [typeInfo] at hti
        | sym n => simp [typeInfo] at hti
        | node k' ps =>
          simp only [typeInfo, TypeInfo.multi.injEq] at hti; subst hti
          cases k' <;> simp_all [isText]
      · rw [normal_node]
        exact ⟨ih2 (by rw [hprep]; exact hX), noAdj_mergeSimilar _⟩
    · exact ih1 (fun r hr => h r (by simp [(List.dropWhile_sublist _).subset hr])) q hq

theorem partOK_mkParts (ps : List RT) (h : ∀ p ∈ ps, Normal p = true) : ∀ q ∈ mkParts ps, PartOK q :=
  partOK_mergeSimilar _ (partOK_prep ps h)

/-- the constructor produces normal forms -/
theorem normal_mk (k : Kind) (ps : List RT) (h : ∀ p ∈ ps, Normal p = true) : Normal (mk k ps) = true := by
  rw [mk, normal_node]
  exact ⟨partOK_mkParts ps h, noAdj_mergeSimilar _⟩

theorem normal_build (t : RT) : Normal (build t) = true := by
  induction t using RT.induct with
  | hstr s => rfl
  | hsym n => rfl
  | hnode k ps ih =>
    simp only [build]
    apply normal_mk
    intro p hp
    have : ∀ l : List RT, (∀ q ∈ l, Normal (build q) = true) → ∀ p ∈ buildL l, Normal p = true := by
      intro l
      induction l with
      | nil => intro _ p hp; cases hp
      | cons q l ih2 =>
        intro hl p hp
        simp only [buildL, List.mem_cons] at hp
        rcases hp with hp | hp
        · subst hp; exact hl q (by simp)
        · exact ih2 (fun r hr => hl r (by simp [hr])) p hp
    exact this ps ih p hp

theorem normal_of_partOK {p : RT} (h : PartOK p) : Normal p = true := h.2.2

theorem normal_parts {k : Kind} {ps : List RT} (h : Normal (.node k ps) = true) :
    ∀ p ∈ ps, Normal p = true := fun p hp => ((normal_node k ps).1 h).1 p hp |>.2.2

theorem normal_add (a b : RT) (ha : Normal a = true) (hb : Normal b = true) : Normal (add a b) = true := by
  apply normal_mk; intro p hp; simp at hp; rcases hp with rfl | rfl <;> assumption

theorem normal_append (t x : RT) (ht : Normal t = true) (hx : Normal x = true) : Normal (append t x) = true := by
  cases t with
  | str s => exact normal_add _ _ ht hx
  | sym n => exact normal_add _ _ ht hx
  | node k ps =>
    apply normal_mk; intro p hp
    simp only [List.mem_append, List.mem_singleton] at hp
    rcases hp with hp | rfl
    · exact normal_parts ht p hp
    · exact hx

theorem mem_joinedList (sep : RT) (l : List RT) : ∀ p ∈ joinedList sep l, p = sep ∨ p ∈ l := by
  induction l with
  | nil => intro p hp; cases hp
  | cons a l ih =>
    cases l with
    | nil => intro p hp; simp [joinedList] at hp; simp [hp]
    | cons b r =>
      intro p hp
      simp only [joinedList, List.mem_cons] at hp ih ⊢
      rcases hp with rfl | rfl | hp
      · simp
      · simp
      · rcases ih p hp with h | h | h <;> simp [h]

theorem normal_join (sep : RT) (l : List RT) (hs : Normal sep = true) (hl : ∀ p ∈ l, Normal p = true) :
    Normal (join sep l) = true := by
  apply normal_mk; intro p hp
  rcases mem_joinedList sep l p hp with rfl | h
  · exact hs
  · exact hl p h


/-! ### the operations preserve normal forms -/

def SliceNormal (t : RT) : Prop := Normal t = true → ∀ i j, Normal (getSlice t i j) = true

theorem normal_sliceBeginningParts (ps : List RT) (hn : ∀ p ∈ ps, Normal p = true)
    (hs : ∀ p ∈ ps, SliceNormal p) (m : Int) : ∀ q ∈ sliceBeginningParts ps m, Normal q = true := by
  intro q hq
  obtain ⟨a, ha, h | ⟨m', h⟩⟩ := mem_begLoop hq
  · rw [h]; exact hn a ha
  · rw [h]; exact hs a ha (hn a ha) _ _

theorem normal_sliceEndParts (ps : List RT) (hn : ∀ p ∈ ps, Normal p = true)
    (hs : ∀ p ∈ ps, SliceNormal p) (m : Int) : ∀ q ∈ sliceEndParts ps m, Normal q = true := by
  intro q hq
  simp only [sliceEndParts, List.mem_reverse] at hq
  obtain ⟨a, ha, h | ⟨m', h⟩⟩ := mem_endLoop hq
  · rw [h]; exact hn a (List.mem_reverse.1 ha)
  · rw [h]; exact hs a (List.mem_reverse.1 ha) (hn a (List.mem_reverse.1 ha)) _ _

theorem normal_slice_chain (k : Kind) (ps : List RT) (d : Nat) (hd : depthL ps ≤ d)
    (ih : ∀ t, depth t ≤ d → SliceNormal t) (hn : ∀ p ∈ ps, Normal p = true) (m1 m2 : Int) :
    Normal (sliceBeginning k (mkParts (sliceEndParts ps m1)) m2) = true := by
  have hps : ∀ p ∈ ps, SliceNormal p := fun p hp => ih p (Nat.le_trans (depth_le_of_mem hp) hd)
  have hE := normal_sliceEndParts ps hn hps m1
  have hM := partOK_mkParts _ hE
  apply normal_mk
  apply normal_sliceBeginningParts _ (fun p hp => (hM p hp).2.2)
  intro p hp
  apply ih
  exact Nat.le_trans (depth_le_of_mem hp)
    (Nat.le_trans (depthL_mkParts_le _) (Nat.le_trans (depthL_sliceEndParts_le _ _) hd))

theorem sliceNormal_of_depth : ∀ d t, depth t ≤ d → SliceNormal t := by
  intro d
  induction d with
  | zero =>
    intro t ht hn i j
    cases t with
    | str s => simp [getSlice_str, Normal]
    | sym n => rw [getSlice_sym]; split <;> simp [Normal]
    | node k ps => simp [depth] at ht
  | succ d ih =>
    intro t ht hn i j
    cases t with
    | str s => simp [getSlice_str, Normal]
    | sym n => rw [getSlice_sym]; split <;> simp [Normal]
    | node k ps =>
      simp only [depth] at ht
      rw [getSlice_node]
      exact normal_slice_chain k ps d (by omega) ih (normal_parts hn) _ _

theorem normal_getSlice (t : RT) (h : Normal t = true) (i j : Option Int) : Normal (getSlice t i j) = true :=
  sliceNormal_of_depth (depth t) t (Nat.le_refl _) h i j

theorem normal_getIndex (t : RT) (h : Normal t = true) (i : Int) (r : RT) (hr : getIndex t i = .ok r) :
    Normal r = true := by
  unfold getIndex at hr
  split at hr
  · cases t with
    | str s => simp only [Except.ok.injEq] at hr; subst hr; rfl
    | sym n => simp only [Except.ok.injEq] at hr; subst hr; rfl
    | node k ps =>
      simp only [Except.ok.injEq] at hr; subst hr
      exact normal_slice_chain k ps (depthL ps) (Nat.le_refl _)
        (fun t _ => sliceNormal_of_depth _ t (Nat.le_refl _)) (normal_parts h) _ _
  · cases hr

theorem normal_caseMap (f : Str → Str) (t : RT) : Normal t = true → Normal (caseMap f t) = true := by
  induction t using RT.induct with
  | hstr s => intro _; rfl
  | hsym n => intro _; rfl
  | hnode k ps ih =>
    intro hn
    have hL : ∀ q ∈ caseMapL f ps, Normal q = true := by
      have hp := normal_parts hn
      clear hn
      induction ps with
      | nil => intro q hq; cases hq
      | cons p ps ih2 =>
        intro q hq
        simp only [caseMapL, List.mem_cons] at hq
        rcases hq with rfl | hq
        · exact ih p (by simp) (hp p (by simp))
        · exact ih2 (fun r hr => ih r (by simp [hr])) (fun r hr => hp r (by simp [hr])) q hq
    cases k with
    | prot => simpa [caseMap] using hn
    | text => simp only [caseMap]; exact normal_mk _ _ hL
    | tag n => simp only [caseMap]; exact normal_mk _ _ hL
    | href u e => simp only [caseMap]; exact normal_mk _ _ hL

theorem normal_capfirst (t : RT) (h : Normal t = true) : Normal (capfirst t) = true := by
  unfold capfirst
  split
  · exact h
  · exact normal_add _ _ (normal_caseMap _ _ (normal_getSlice t h _ _)) (normal_getSlice t h _ _)

theorem normal_capitalize (t : RT) (h : Normal t = true) : Normal (capitalize t) = true := by
  unfold capitalize
  split
  · exact h
  · exact normal_add _ _ (normal_caseMap _ _ (normal_getSlice t h _ _))
      (normal_caseMap _ _ (normal_getSlice t h _ _))

theorem normal_addPeriod (terms : List Str) (period t : RT) (h : Normal t = true) (hp : Normal period = true) :
    Normal (addPeriod terms period t) = true := by
  unfold addPeriod
  split
  · exact normal_append _ _ h hp
  · exact h


/-! ### `endswith` for one-character suffixes, `isalpha` -/

theorem singleton_isSuffixOf (c : Char) (s : Str) : [c].isSuffixOf s = (s.getLast? == some c) := by
  simp only [List.isSuffixOf, List.reverse_cons, List.reverse_nil, List.nil_append]
  rw [← List.head?_reverse]
  cases s.reverse with
  | nil => simp [List.isPrefixOf]
  | cons a r =>
    simp only [List.isPrefixOf, List.head?_cons, Bool.and_true]
    rw [Bool.eq_iff_iff, beq_iff_eq, beq_iff_eq]
    constructor
    · intro h; rw [h]
    · intro h; exact (Option.some.inj h).symm

theorem any_suffix_single (T : List Str) (hT : ∀ x ∈ T, x.length = 1) (s : Str) :
    (T.any fun p => p.isSuffixOf s) = match s.getLast? with
      | some c => T.contains [c]
      | none => false := by
  induction T with
  | nil => cases s.getLast? <;> simp
  | cons x T ih =>
    have hx := hT x (by simp)
    match x, hx with
    | [c], _ =>
      simp only [List.any_cons, singleton_isSuffixOf, ih (fun y hy => hT y (by simp [hy]))]
      cases h : s.getLast? with
      | none => simp
      | some d =>
        simp only [List.contains_cons]
        by_cases hcd : d = c
        · subst hcd; simp
        · have : (some d == some c) = false := by simp [hcd]
          have h2 : ([d] == [c]) = false := by simp [hcd]
          simp [this, h2]

theorem getLast?_append_of_ne_nil {α : Type} (a b : List α) (hb : b ≠ []) :
    (a ++ b).getLast? = b.getLast? := by
  rw [List.getLast?_append]; cases h : b.getLast? with
  | none => simp [List.getLast?_eq_none_iff] at h; exact absurd h hb
  | some x => simp

theorem terminated_str (T : List Str) (ctx : List Markup) (s : Str) :
    Flat.terminated T (sem ctx (.str s)) = match s.getLast? with
      | some c => T.contains [c]
      | none => false := by
  simp only [Flat.terminated, sem, List.getLast?_map]
  cases s.getLast? <;> simp

theorem endsWith_terminated (T : List Str) (hT : ∀ x ∈ T, x.length = 1) (t : RT) :
    ∀ ctx, Normal t = true → endsWith T t = Flat.terminated T (sem ctx t) := by
  induction t using RT.induct with
  | hstr s => intro ctx _; rw [terminated_str, endsWith, any_suffix_single T hT]
  | hsym n => intro ctx _; simp [endsWith, sem, Flat.terminated]
  | hnode k ps ih =>
    intro ctx hn
    have hp := ((normal_node k ps).1 hn).1
    simp only [endsWith, sem]
    generalize ctx ++ k.markup = c
    clear hn
    induction ps with
    | nil => simp [endsWithL, semL, Flat.terminated]
    | cons p ps ih2 =>
      cases ps with
      | nil =>
        simp only [endsWithL, semL, List.append_nil]
        exact ih p (by simp) c (hp p (by simp)).2.2
      | cons q r =>
        simp only [endsWithL]
        rw [ih2 (fun x hx => ih x (by simp [hx])) (fun x hx => hp x (by simp [hx]))]
        have hne : semL c (q :: r) ≠ [] := by
          intro h
          have := congrArg List.length h
          rw [semL_length] at this
          have := (hp q (by simp)).1
          simp only [lenL, List.length_nil] at *; omega
        conv => rhs; rw [semL]
        simp only [Flat.terminated]
        rw [getLast?_append_of_ne_nil _ _ hne]

def Flat.allAlpha (s : Flat) : Bool :=
  s.all fun x => match x.1 with
    | .ch c => Pybtex.isAlpha c
    | .sym _ => false

theorem isAlphaT_eq (t : RT) : ∀ ctx, Normal t = true →
    isAlphaT t = (len t != 0 && Flat.allAlpha (sem ctx t)) := by
  induction t using RT.induct with
  | hstr s =>
    intro ctx _
    simp only [isAlphaT, len, sem, Flat.allAlpha, List.all_map]
    cases s <;> simp [Function.comp_def]
  | hsym n => intro ctx _; simp [isAlphaT, sem, Flat.allAlpha]
  | hnode k ps ih =>
    intro ctx hn
    have hp := ((normal_node k ps).1 hn).1
    simp only [isAlphaT, len, sem]
    congr 1
    generalize ctx ++ k.markup = c
    clear hn
    induction ps with
    | nil => simp [isAlphaL, semL, Flat.allAlpha]
    | cons p ps ih2 =>
      simp only [isAlphaL, semL]
      rw [ih p (by simp) c (hp p (by simp)).2.2, ih2 (fun x hx => ih x (by simp [hx])) (fun x hx => hp x (by simp [hx]))]
      have := (hp p (by simp)).1
      simp only [Flat.allAlpha, List.all_append]
      have h1 : (len p != 0) = true := by simpa using this
      rw [h1, Bool.true_and]

theorem isAlphaT_spec (t : RT) (ctx : List Markup) (h : Normal t = true) :
    isAlphaT t = Flat.isAlpha (sem ctx t) := by
  rw [isAlphaT_eq t ctx h, Flat.isAlpha]
  congr 1
  rw [← sem_length t ctx]
  cases sem ctx t <;> simp


/-! ### abstraction commutes with the operations -/

@[simp] theorem top_mk (k : Kind) (ps : List RT) : top (mk k ps) = .multi k := rfl
@[simp] theorem top_add (a b : RT) : top (add a b) = .multi .text := rfl
@[simp] theorem top_node (k : Kind) (ps : List RT) : top (.node k ps) = .multi k := rfl
@[simp] theorem top_str (s : Str) : top (.str s) = .string := rfl
@[simp] theorem top_sym (n : Str) : top (.sym n) = .symbol := rfl
@[simp] theorem abs_top (t : RT) : (abs t).top = top t := rfl
@[simp] theorem abs_atoms (t : RT) : (abs t).atoms = sem [] t := rfl

theorem abs_ext {t : RT} {a : Abs} (h1 : top t = a.top) (h2 : sem [] t = a.atoms) : abs t = a := by
  cases a; simp only [abs] at *; simp [h1, h2]

theorem abs_add (a b : RT) : abs (add a b) = Abs.add (abs a) (abs b) :=
  abs_ext rfl (by simp [Abs.add, sem_add])

theorem abs_append (t x : RT) : abs (append t x) = Abs.append (abs t) (abs x) := by
  cases t with
  | str s => exact abs_add _ _
  | sym n => exact abs_add _ _
  | node k ps =>
    apply abs_ext
    · simp [append, Abs.append]
    · simp only [Abs.append, abs_top, top_node, abs_atoms, sem_append_node, List.nil_append]
      rw [sem_ctx x k.markup]

theorem abs_join (sep : RT) (xs : List RT) : abs (join sep xs) = Abs.join (abs sep) (xs.map abs) := by
  apply abs_ext
  · simp [join, Abs.join]
  · simp only [Abs.join, sem_join, List.map_map, abs_atoms]
    congr 1

theorem top_getSlice_node (k : Kind) (ps : List RT) (i j : Option Int) :
    top (getSlice (.node k ps) i j) = .multi k := by
  rw [getSlice_node]; simp [sliceBeginning]

theorem abs_getSlice (t : RT) (i j : Option Int) : abs (getSlice t i j) = Abs.slice (abs t) i j := by
  apply abs_ext
  · simp only [Abs.slice, abs_top, abs_atoms, Flat.slice]
    cases t with
    | str s => simp [getSlice_str]
    | sym n =>
      simp only [getSlice_sym, top_sym, sem, strSlice_singleton]
      by_cases h : symSliceNonempty i j = true
      · simp [h]
      · simp [h]
    | node k ps =>
      have : (Top.multi k == Top.symbol) = false := by simp
      simp [top_getSlice_node, this]
  · simp only [Abs.slice, abs_atoms, Flat.slice, sem_getSlice]

theorem abs_getIndex (t : RT) (i : Int) : (getIndex t i).map abs = Abs.index (abs t) i := by
  by_cases h : -(len t : Int) ≤ i ∧ i < (len t : Int)
  · obtain ⟨r, hr, hs, ht⟩ := sem_getIndex_ok [] t i h
    have hlen : ((abs t).atoms.length : Int) = (len t : Int) := by simp [abs, sem_length]
    simp only [Abs.index, hlen, if_pos h, hr, Except.map]
    generalize hk : (if i < 0 then (len t : Int) + i else i) = k at hs
    have hk0 : 0 ≤ k ∧ k < (len t : Int) := by rw [← hk]; split <;> omega
    obtain ⟨K, rfl⟩ := Int.eq_ofNat_of_zero_le hk0.1
    simp only [Int.toNat_natCast] at hs
    have e : ((K : Int) + 1) = ((K + 1 : Nat) : Int) := by omega
    have hsl : Flat.slice (sem [] t) (some (K : Int)) (some ((K : Int) + 1)) = ((sem [] t).drop K).take 1 := by
      simp only [Flat.slice, strSlice, sliceIdx, e, pyNorm_nat, sem_length]
      have : K < len t := by omega
      rw [Nat.min_eq_left (by omega), Nat.min_eq_left (by omega)]
      congr 1; omega
    congr 1
    apply abs_ext
    · simp only [Abs.slice, abs_top, abs_atoms, hsl, ht]
      have hlen2 : (((sem [] t).drop K).take 1).length = 1 := by
        simp only [List.length_take, List.length_drop, sem_length]; omega
      have hne : (((sem [] t).drop K).take 1).isEmpty = false := by
        cases hd : ((sem [] t).drop K).take 1 with
        | nil => rw [hd] at hlen2; simp at hlen2
        | cons x xs => rfl
      rw [hne]; simp
    · simp only [Abs.slice, abs_atoms, hsl, hs]
  · rw [getIndex_error t i h]
    have hlen : ((abs t).atoms.length : Int) = (len t : Int) := by simp [abs, sem_length]
    simp only [Abs.index, hlen]
    rw [if_neg h]; rfl

theorem abs_upperT (t : RT) : abs (upperT t) = Abs.caseMap upperC (abs t) :=
  abs_ext (by simp [Abs.caseMap, upperT, top_caseMap]) (by simp [Abs.caseMap, sem_upperT])

theorem abs_lowerT (t : RT) : abs (lowerT t) = Abs.caseMap lowerC (abs t) :=
  abs_ext (by simp [Abs.caseMap, lowerT, top_caseMap]) (by simp [Abs.caseMap, sem_lowerT])

theorem abs_capfirst (t : RT) : abs (capfirst t) = Abs.capfirst (abs t) := by
  unfold capfirst Abs.capfirst
  split
  · simp
  · rename_i hne
    have : (abs t).top ≠ .multi .prot := by
      intro h
      cases t with
      | str s => simp at h
      | sym n => simp at h
      | node k ps => simp only [abs_top, top_node, Top.multi.injEq] at h; subst h; exact hne _ rfl
    rw [if_neg this, abs_add, abs_upperT, abs_getSlice, abs_getSlice]

theorem abs_capitalize (t : RT) : abs (capitalize t) = Abs.capitalize (abs t) := by
  unfold capitalize Abs.capitalize
  split
  · simp
  · rename_i hne
    have : (abs t).top ≠ .multi .prot := by
      intro h
      cases t with
      | str s => simp at h
      | sym n => simp at h
      | node k ps => simp only [abs_top, top_node, Top.multi.injEq] at h; subst h; exact hne _ rfl
    rw [if_neg this, abs_add, abs_upperT, abs_lowerT, abs_getSlice, abs_getSlice]

theorem abs_addPeriod (terms : List Str) (hT : ∀ x ∈ terms, x.length = 1) (period t : RT)
    (h : Normal t = true) :
    abs (addPeriod terms period t) = Abs.addPeriod terms (abs period) (abs t) := by
  have key : ∀ (c : Bool), abs (if c = true then append t period else t)
      = if c = true then Abs.append (abs t) (abs period) else abs t := by
    intro c; cases c <;> simp [abs_append]
  have hl : (len t != 0) = !(sem [] t).isEmpty := by
    rw [← sem_length t []]
    cases sem [] t <;> simp
  unfold addPeriod Abs.addPeriod
  rw [endsWith_terminated terms hT t [] h, hl]
  exact key _


end RT

/-! ### list splitting -/

def mapHead {α : Type} (f : α → α) : List α → List α
  | [] => []
  | a :: r => f a :: r

/-- `splitOnP p (a ++ b)` from the two halves: the last piece of the first is continued by the
first piece of the second -/
def glue {α : Type} : List (List α) → List (List α) → List (List α)
  | [], B => B
  | [a], B => mapHead (a ++ ·) B
  | a :: a' :: A, B => a :: glue (a' :: A) B

theorem splitOnP_ne_nil {α : Type} (p : α → Bool) (l : List α) : splitOnP p l ≠ [] := by
  cases l with
  | nil => simp [splitOnP]
  | cons a l =>
    simp only [splitOnP]
    split
    · simp
    · split <;> simp

theorem splitOnP_cons_false {α : Type} (p : α → Bool) (a : α) (l : List α) (h : p a = false) :
    splitOnP p (a :: l) = mapHead (a :: ·) (splitOnP p l) := by
  simp only [splitOnP, h, Bool.false_eq_true, if_false]
  cases hs : splitOnP p l with
  | nil => exact absurd hs (splitOnP_ne_nil p l)
  | cons s ss => rfl

theorem splitOnP_cons_true {α : Type} (p : α → Bool) (a : α) (l : List α) (h : p a = true) :
    splitOnP p (a :: l) = [] :: splitOnP p l := by
  simp [splitOnP, h]

theorem mapHead_mapHead {α : Type} (f g : α → α) (l : List α) : mapHead f (mapHead g l) = mapHead (f ∘ g) l := by
  cases l <;> rfl

theorem glue_mapHead_left {α : Type} (f : List α → List α) (hf : ∀ a b, f a ++ b = f (a ++ b))
    (A B : List (List α)) (hA : A ≠ []) (hB : B ≠ []) :
    glue (mapHead f A) B = mapHead f (glue A B) := by
  match A, hA with
  | [a], _ =>
    simp only [mapHead, glue]
    cases B with
    | nil => exact absurd rfl hB
    | cons b B => simp [hf]
  | a :: a' :: A, _ => simp [mapHead, glue]

theorem splitOnP_append {α : Type} (p : α → Bool) (a b : List α) :
    splitOnP p (a ++ b) = glue (splitOnP p a) (splitOnP p b) := by
  induction a with
  | nil =>
    simp only [List.nil_append, splitOnP, glue]
    cases splitOnP p b <;> simp [mapHead]
  | cons x a ih =>
    by_cases hx : p x = true
    · rw [List.cons_append, splitOnP_cons_true p x _ hx, splitOnP_cons_true p x _ hx, ih]
      cases h : splitOnP p a with
      | nil => exact absurd h (splitOnP_ne_nil p a)
      | cons s ss => simp [glue]
    · have hx' : p x = false := by simpa using hx
      rw [List.cons_append, splitOnP_cons_false p x _ hx', splitOnP_cons_false p x _ hx', ih]
      rw [glue_mapHead_left (x :: ·) (fun _ _ => rfl) _ _ (splitOnP_ne_nil p a) (splitOnP_ne_nil p b)]

theorem glue_snoc {α : Type} (I : List (List α)) (l : List α) (B : List (List α)) :
    glue (I ++ [l]) B = I ++ mapHead (l ++ ·) B := by
  induction I with
  | nil => simp [glue]
  | cons a I ih =>
    cases I with
    | nil => simp [glue]
    | cons a' I => simp only [List.cons_append, glue] at ih ⊢; rw [ih]

theorem splitOnP_none {α : Type} (p : α → Bool) (l : List α) (h : ∀ x ∈ l, p x = false) :
    splitOnP p l = [l] := by
  induction l with
  | nil => rfl
  | cons a l ih =>
    rw [splitOnP_cons_false p a l (h a (by simp)), ih (fun x hx => h x (by simp [hx]))]; rfl

theorem splitOnP_map {α β : Type} (f : α → β) (p : β → Bool) (l : List α) :
    splitOnP p (l.map f) = (splitOnP (fun a => p (f a)) l).map (List.map f) := by
  induction l with
  | nil => rfl
  | cons a l ih =>
    by_cases h : p (f a) = true
    · rw [List.map_cons, splitOnP_cons_true p _ _ h, splitOnP_cons_true _ a l h, ih]; rfl
    · have h' : p (f a) = false := by simpa using h
      rw [List.map_cons, splitOnP_cons_false p _ _ h', splitOnP_cons_false _ a l h', ih]
      cases splitOnP (fun a => p (f a)) l <;> simp [mapHead]

namespace RT


theorem splitLit_single (c : Char) (s cur : Str) :
    splitLit [c] s cur 0 = mapHead (cur.reverse ++ ·) (splitOnP (· == c) s) := by
  induction s generalizing cur with
  | nil => simp [splitLit, splitOnP, mapHead]
  | cons x r ih =>
    simp only [splitLit]
    by_cases h : x = c
    · subst h
      have : [x].isPrefixOf (x :: r) = true := by simp [List.isPrefixOf]
      rw [if_pos this, splitOnP_cons_true _ x r (by simp)]
      simp only [List.length_singleton, Nat.sub_self, mapHead, List.append_nil]
      rw [ih []]; simp only [List.reverse_nil, List.nil_append]
      cases splitOnP (fun x_1 => x_1 == x) r <;> simp [mapHead]
    · have h1 : [c].isPrefixOf (x :: r) = false := by
        simp only [List.isPrefixOf, Bool.and_true, beq_eq_false_iff_ne, ne_eq]; exact fun e => h e.symm
      have h2 : (x == c) = false := by simpa using h
      rw [if_neg (by simp [h1]), ih, splitOnP_cons_false _ x r h2, mapHead_mapHead]
      congr 1
      funext y; simp


/-! ### `split` at a one-character literal separator -/

/-- what `keep_empty_parts` does to a list of pieces -/
def keepF (keep : Bool) (S : List Flat) : List Flat := S.filter fun seg => !seg.isEmpty || keep

theorem keepF_append (keep : Bool) (A B : List Flat) : keepF keep (A ++ B) = keepF keep A ++ keepF keep B := by
  simp [keepF]

theorem keepF_true (S : List Flat) : keepF true S = S := by simp [keepF]

theorem keepF_single (ctx : List Markup) (keep : Bool) (x : RT) :
    (if len x != 0 || keep then [x] else []).map (sem ctx) = keepF keep [sem ctx x] := by
  have : (len x != 0) = !(sem ctx x).isEmpty := by
    rw [← sem_length x ctx]; cases sem ctx x <;> simp
  rw [this]
  by_cases h : (!(sem ctx x).isEmpty || keep) = true
  · simp [keepF, h]
  · simp [keepF, h]

theorem splitItems_sem (ctx : List Markup) (k : Kind) (keep : Bool) (items : List RT) :
    ∀ tail, ((splitItems k keep items tail).1.map (sem ctx) = keepF keep (match items with
        | [] => []
        | i :: is => (semL (ctx ++ k.markup) tail ++ sem (ctx ++ k.markup) i) :: is.map (sem (ctx ++ k.markup))))
      ∧ (splitItems k keep items tail).2 = (if items = [] then tail else []) := by
  induction items with
  | nil => intro tail; simp [splitItems, keepF]
  | cons item items ih =>
    intro tail
    obtain ⟨ih1, ih2⟩ := ih []
    have hr1 : (splitItems k keep items []).1.map (sem ctx) = keepF keep (items.map (sem (ctx ++ k.markup))) := by
      rw [ih1]; cases items <;> simp [semL]
    have hr2 : (splitItems k keep items []).2 = [] := by rw [ih2]; split <;> rfl
    simp only [splitItems]
    split
    · refine ⟨?_, by simp [hr2]⟩
      simp only [List.map_append, hr1]
      rw [keepF_single, sem_mk]
      simp only [sem, semL_append, semL, List.append_nil]
      rw [← keepF_append]; rfl
    · rename_i ht
      have ht' : tail = [] := by simpa using ht
      subst ht'
      refine ⟨?_, by simp [hr2]⟩
      simp only [List.map_append, hr1]
      have h1 : (if len item != 0 || keep then [mk k [item]] else []).map (sem ctx)
          = keepF keep [sem (ctx ++ k.markup) item] := by
        have : (len item != 0) = !(sem (ctx ++ k.markup) item).isEmpty := by
          rw [← sem_length item (ctx ++ k.markup)]; cases sem (ctx ++ k.markup) item <;> simp
        rw [this]
        by_cases h : (!(sem (ctx ++ k.markup) item).isEmpty || keep) = true
        · simp [keepF, h, sem_mk, sem, semL]
        · simp [keepF, h]
      rw [h1, ← keepF_append]
      simp [semL]

def SplitOK (c0 : Char) (t : RT) : Prop :=
  ∀ ctx, Flat.isProt ctx = false →
    (split (.lit c0 []) t (some true)).map (sem ctx) = splitOnP (Flat.isSep (.lit c0 [])) (sem ctx t)

theorem mapHead_nil_append (S : List Flat) : mapHead (fun x => ([] : Flat) ++ x) S = S := by
  cases S <;> simp [mapHead]

theorem splitL_sem (c0 : Char) (ctx : List Markup) (k : Kind) (hc : Flat.isProt (ctx ++ k.markup) = false)
    (keep : Bool) (ps : List RT) (hps : ∀ p ∈ ps, SplitOK c0 p) :
    ∀ tail, (keep = true → tail ≠ []) →
      (splitL (.lit c0 []) k keep ps tail).map (sem ctx)
        = keepF keep (mapHead (semL (ctx ++ k.markup) tail ++ ·)
            (splitOnP (Flat.isSep (.lit c0 [])) (semL (ctx ++ k.markup) ps))) := by
  induction ps with
  | nil =>
    intro tail hk
    simp only [splitL, semL, splitOnP, mapHead, List.append_nil]
    by_cases ht : tail = []
    · subst ht
      have : keep = false := by cases keep <;> simp_all
      subst this
      simp [keepF, semL]
    · have : (!tail.isEmpty) = true := by simpa using ht
      rw [if_pos this, keepF_single, sem_mk]; rfl
  | cons part ps ih =>
    intro tail hk
    have hsp := hps part (by simp) (ctx ++ k.markup) hc
    simp only [splitL]
    generalize hS : split (Sep.lit c0 []) part (some true) = sp at hsp
    have hne : sp ≠ [] := by
      intro h; rw [h] at hsp
      exact splitOnP_ne_nil _ _ hsp.symm
    cases hrev : sp.reverse with
    | nil => simp at hrev; exact absurd hrev hne
    | cons last revInit =>
      have hsp' : sp = revInit.reverse ++ [last] := by
        have := congrArg List.reverse hrev; simpa using this
      simp only
      obtain ⟨h1, h2⟩ := splitItems_sem ctx k keep revInit.reverse tail
      rw [List.map_append, h1, h2]
      rw [ih (fun p hp => hps p (by simp [hp])) _ (by intro _; simp)]
      rw [semL, splitOnP_append, ← hsp, hsp', List.map_append, List.map_cons, List.map_nil, glue_snoc]
      cases hI : revInit.reverse with
      | nil =>
        simp only [List.map_nil, List.nil_append, if_pos, keepF, List.filter_nil, mapHead_mapHead, semL_append,
          semL, List.append_nil]
        congr 2
        funext x; simp [List.append_assoc]
      | cons i is =>
        simp only [List.map_cons, if_neg (List.cons_ne_nil _ _), List.nil_append, semL, List.append_nil,
          List.cons_append, mapHead]
        rw [← keepF_append]; rfl


theorem isSep_ch (c0 a : Char) (ctx : List Markup) (hc : Flat.isProt ctx = false) :
    Flat.isSep (.lit c0 []) (Atom.ch a, ctx) = (a == c0) := by
  simp [Flat.isSep, hc]

theorem sem_strSplit (c0 : Char) (ctx : List Markup) (hc : Flat.isProt ctx = false) (s : Str) :
    (strSplit (.lit c0 []) s).map (fun part => sem ctx (.str part))
      = splitOnP (Flat.isSep (.lit c0 [])) (sem ctx (.str s)) := by
  simp only [strSplit, splitLit_single, List.reverse_nil, sem]
  rw [splitOnP_map]
  have : (fun a => Flat.isSep (Sep.lit c0 []) (Atom.ch a, ctx)) = (· == c0) := by
    funext a; exact isSep_ch c0 a ctx hc
  rw [this]
  cases splitOnP (· == c0) s <;> simp [mapHead]

theorem stack_prot (ctx : List Markup) (ps : List RT) :
    ∀ x ∈ semL (ctx ++ [Markup.prot]) ps, Flat.isProt x.2 = true := by
  intro x hx
  rw [semL_ctx] at hx
  simp only [Flat.push, List.mem_map] at hx
  obtain ⟨y, _, rfl⟩ := hx
  simp [Flat.isProt]

theorem splitOK_all (c0 : Char) (t : RT) : SplitOK c0 t := by
  induction t using RT.induct with
  | hstr s =>
    intro ctx hc
    simp only [split, keepDefault, Bool.or_true, List.map_map]
    rw [List.filter_eq_self.2 (fun _ _ => rfl)]
    exact sem_strSplit c0 ctx hc s
  | hsym n =>
    intro ctx hc
    simp only [split, List.map_cons, List.map_nil, sem]
    rw [splitOnP_none]
    intro x hx; simp at hx; subst hx; simp [Flat.isSep]
  | hnode k ps ih =>
    intro ctx hc
    cases k with
    | prot =>
      simp only [split, List.map_cons, List.map_nil]
      rw [splitOnP_none]
      intro x hx
      simp only [sem, Kind.markup] at hx
      simp [Flat.isSep, stack_prot ctx ps x hx]
    | text =>
      simp only [split, keepDefault, if_true]
      rw [splitL_sem c0 ctx .text (by simpa [Kind.markup] using hc) true ps ih _ (by simp)]
      simp only [keepF_true, semL, sem, List.map_nil, List.append_nil]
      exact mapHead_nil_append _
    | tag n =>
      simp only [split, keepDefault, if_true]
      rw [splitL_sem c0 ctx (.tag n) (by rw [isProt_append, hc]; rfl) true ps ih _ (by simp)]
      simp only [keepF_true, semL, sem, List.map_nil, List.append_nil]
      exact mapHead_nil_append _
    | href u e =>
      simp only [split, keepDefault, if_true]
      rw [splitL_sem c0 ctx (.href u e) (by rw [isProt_append, hc]; rfl) true ps ih _ (by simp)]
      simp only [keepF_true, semL, sem, List.map_nil, List.append_nil]
      exact mapHead_nil_append _

/-- `split` at a one-character separator is the list split at the unprotected occurrences -/
theorem sem_split_lit (c0 : Char) (t : RT) (keep : Option Bool) (ctx : List Markup)
    (hc : Flat.isProt ctx = false) (ht : top t ≠ .symbol ∧ top t ≠ .multi .prot) :
    (split (.lit c0 []) t keep).map (sem ctx)
      = keepF (keepDefault (.lit c0 []) keep) (splitOnP (Flat.isSep (.lit c0 [])) (sem ctx t)) := by
  cases t with
  | str s =>
    simp only [split, List.map_map]
    rw [← sem_strSplit c0 ctx hc s]
    simp only [keepF, List.filter_map]
    congr 1
    apply List.filter_congr
    intro part _
    simp [sem]
  | sym n => simp at ht
  | node k ps =>
    have hps : ∀ p ∈ ps, SplitOK c0 p := fun p _ => splitOK_all c0 p
    have hk : k ≠ .prot := by intro h; subst h; simp at ht
    have hc' : Flat.isProt (ctx ++ k.markup) = false := by
      rw [isProt_append, hc]; cases k <;> simp_all [Kind.markup, Flat.isProt]
    have key : ∀ tail, (keepDefault (.lit c0 []) keep = true → tail ≠ []) → semL (ctx ++ k.markup) tail = [] →
        (splitL (.lit c0 []) k (keepDefault (.lit c0 []) keep) ps tail).map (sem ctx)
          = keepF (keepDefault (.lit c0 []) keep) (splitOnP (Flat.isSep (.lit c0 [])) (sem ctx (.node k ps))) := by
      intro tail h1 h2
      rw [splitL_sem c0 ctx k hc' _ ps hps tail h1, h2]
      simp only [sem]
      rw [mapHead_nil_append]
    cases k with
    | prot => exact absurd rfl hk
    | text => simp only [split]; apply key <;> split <;> simp_all [semL, sem]
    | tag n => simp only [split]; apply key <;> split <;> simp_all [semL, sem]
    | href u e => simp only [split]; apply key <;> split <;> simp_all [semL, sem]


/-! the pieces are objects of the same class, in normal form -/

theorem splitItems_props (k : Kind) (keep : Bool) (items : List RT) :
    ∀ tail, (∀ x ∈ items, Normal x = true) → (∀ x ∈ tail, Normal x = true) →
      (∀ r ∈ (splitItems k keep items tail).1, top r = .multi k ∧ Normal r = true) ∧
      (∀ x ∈ (splitItems k keep items tail).2, Normal x = true) := by
  induction items with
  | nil => intro tail _ ht; simp [splitItems]; exact ht
  | cons item items ih =>
    intro tail hi ht
    obtain ⟨ih1, ih2⟩ := ih [] (fun x hx => hi x (by simp [hx])) (by simp)
    simp only [splitItems]
    split
    · refine ⟨?_, ih2⟩
      intro r hr
      simp only [List.mem_append] at hr
      rcases hr with hr | hr
      · split at hr
        · simp only [List.mem_singleton] at hr; subst hr
          refine ⟨rfl, normal_mk _ _ ?_⟩
          intro p hp
          simp only [List.mem_append, List.mem_singleton] at hp
          rcases hp with hp | rfl
          · exact ht p hp
          · exact hi _ (by simp)
        · cases hr
      · exact ih1 r hr
    · refine ⟨?_, ih2⟩
      intro r hr
      simp only [List.mem_append] at hr
      rcases hr with hr | hr
      · split at hr
        · simp only [List.mem_singleton] at hr; subst hr
          refine ⟨rfl, normal_mk _ _ ?_⟩
          intro p hp
          simp only [List.mem_singleton] at hp; subst hp
          exact hi _ (by simp)
        · cases hr
      · exact ih1 r hr

def SplitNormal (t : RT) : Prop :=
  Normal t = true → ∀ sep keep, ∀ r ∈ split sep t keep, Normal r = true

theorem splitL_props (sep : Sep) (k : Kind) (keep : Bool) (ps : List RT)
    (hps : ∀ p ∈ ps, SplitNormal p ∧ Normal p = true) :
    ∀ tail, (∀ x ∈ tail, Normal x = true) →
      ∀ r ∈ splitL sep k keep ps tail, top r = .multi k ∧ Normal r = true := by
  induction ps with
  | nil =>
    intro tail ht r hr
    simp only [splitL] at hr
    split at hr
    · split at hr
      · simp only [List.mem_singleton] at hr; subst hr
        exact ⟨rfl, normal_mk _ _ ht⟩
      · cases hr
    · cases hr
  | cons part ps ih =>
    intro tail ht r hr
    simp only [splitL] at hr
    have hpart := hps part (by simp)
    have hsp : ∀ x ∈ split sep part (some true), Normal x = true := hpart.1 hpart.2 sep (some true)
    split at hr
    · exact ih (fun p hp => hps p (by simp [hp])) tail ht r hr
    · rename_i last revInit hrev
      have hmem : ∀ x, x ∈ last :: revInit → x ∈ split sep part (some true) := by
        intro x hx; rw [← hrev] at hx; exact List.mem_reverse.1 hx
      obtain ⟨h1, h2⟩ := splitItems_props k keep revInit.reverse tail
        (fun x hx => hsp x (hmem x (by simp [List.mem_reverse.1 hx]))) ht
      simp only [List.mem_append] at hr
      rcases hr with hr | hr
      · exact h1 r hr
      · apply ih (fun p hp => hps p (by simp [hp])) _ _ r hr
        intro x hx
        simp only [List.mem_append, List.mem_singleton] at hx
        rcases hx with hx | rfl
        · exact h2 x hx
        · exact hsp _ (hmem _ (by simp))

theorem splitNormal_all (t : RT) : SplitNormal t := by
  induction t using RT.induct with
  | hstr s => intro _ sep keep r hr; simp only [split, List.mem_map] at hr; obtain ⟨_, _, rfl⟩ := hr; rfl
  | hsym n => intro _ sep keep r hr; simp only [split, List.mem_singleton] at hr; subst hr; rfl
  | hnode k ps ih =>
    intro hn sep keep r hr
    have hps : ∀ p ∈ ps, SplitNormal p ∧ Normal p = true := fun p hp => ⟨ih p hp, normal_parts hn p hp⟩
    have key : ∀ tail, (∀ x ∈ tail, Normal x = true) → r ∈ splitL sep k (keepDefault sep keep) ps tail →
        Normal r = true := fun tail ht hr => (splitL_props sep k _ ps hps tail ht r hr).2
    cases k with
    | prot => simp only [split, List.mem_singleton] at hr; subst hr; exact hn
    | text => simp only [split] at hr; exact key _ (by split <;> simp [Normal]) hr
    | tag n => simp only [split] at hr; exact key _ (by split <;> simp [Normal]) hr
    | href u e => simp only [split] at hr; exact key _ (by split <;> simp [Normal]) hr

theorem normal_split (t : RT) (h : Normal t = true) (sep : Sep) (keep : Option Bool) :
    ∀ r ∈ split sep t keep, Normal r = true := splitNormal_all t h sep keep

theorem top_split (t : RT) (sep : Sep) (keep : Option Bool) : ∀ r ∈ split sep t keep, top r = top t := by
  intro r hr
  cases t with
  | str s => simp only [split, List.mem_map] at hr; obtain ⟨_, _, rfl⟩ := hr; rfl
  | sym n => simp only [split, List.mem_singleton] at hr; subst hr; rfl
  | node k ps =>
    have key : ∀ tail, r ∈ splitL sep k (keepDefault sep keep) ps tail → top r = .multi k := by
      intro tail
      have : ∀ (ps tail : List RT), ∀ r ∈ splitL sep k (keepDefault sep keep) ps tail, top r = .multi k := by
        intro ps
        induction ps with
        | nil =>
          intro tail r hr
          simp only [splitL] at hr
          split at hr
          · split at hr
            · simp only [List.mem_singleton] at hr; subst hr; rfl
            · cases hr
          · cases hr
        | cons part ps ih =>
          intro tail r hr
          simp only [splitL] at hr
          split at hr
          · exact ih tail r hr
          · simp only [List.mem_append] at hr
            rcases hr with hr | hr
            · have : ∀ (items tail : List RT), ∀ r ∈ (splitItems k (keepDefault sep keep) items tail).1,
                  top r = .multi k := by
                intro items
                induction items with
                | nil => intro tail r hr; simp [splitItems] at hr
                | cons item items ih3 =>
                  intro tail r hr
                  simp only [splitItems] at hr
                  split at hr <;> simp only [List.mem_append] at hr <;> rcases hr with hr | hr
                  · split at hr
                    · simp only [List.mem_singleton] at hr; subst hr; rfl
                    · cases hr
                  · exact ih3 [] r hr
                  · split at hr
                    · simp only [List.mem_singleton] at hr; subst hr; rfl
                    · cases hr
                  · exact ih3 [] r hr
              exact this _ _ r hr
            · exact ih _ r hr
      exact this ps tail r
    cases k with
    | prot => simp only [split, List.mem_singleton] at hr; subst hr; rfl
    | text => simp only [split] at hr; exact key _ hr
    | tag n => simp only [split] at hr; exact key _ hr
    | href u e => simp only [split] at hr; exact key _ hr

theorem abs_split_lit (c0 : Char) (t : RT) (keep : Option Bool) :
    (split (.lit c0 []) t keep).map abs = Abs.split (.lit c0 []) (keepDefault (.lit c0 []) keep) (abs t) := by
  unfold Abs.split
  by_cases ht : top t = .symbol ∨ top t = .multi .prot
  · rw [if_pos (by simpa using ht)]
    cases t with
    | str s => simp at ht
    | sym n => simp [split]
    | node k ps => simp only [top_node, Top.multi.injEq, reduceCtorEq, false_or] at ht; subst ht; simp [split]
  · rw [if_neg (by simpa using ht)]
    have ht' : top t ≠ .symbol ∧ top t ≠ .multi .prot := by
      constructor <;> intro h <;> simp [h] at ht
    have hs := sem_split_lit c0 t keep [] rfl ht'
    have htop := top_split t (.lit c0 []) keep
    simp only [keepF] at hs
    rw [abs_atoms, ← hs, List.map_map]
    apply List.map_congr_left
    intro r hr
    exact abs_ext (by simp [htop r hr]) rfl


end RT

/-! ### pieces up to empty interior pieces (for `split()` at white space) -/

/-- the pieces after the first one: the last is kept as it is, empty ones before it are dropped -/
def canonTail {α : Type} : List (List α) → List (List α)
  | [] => []
  | [z] => [z]
  | m :: z :: r => (if m.isEmpty then [] else [m]) ++ canonTail (z :: r)

/-- first and last piece as they are, empty pieces in between dropped -/
def canon {α : Type} : List (List α) → List (List α)
  | [] => []
  | x :: r => x :: canonTail r

def neF {α : Type} (S : List (List α)) : List (List α) := S.filter fun seg => !seg.isEmpty

theorem canonTail_eq_nil {α : Type} (r : List (List α)) : canonTail r = [] ↔ r = [] := by
  induction r with
  | nil => simp [canonTail]
  | cons m r ih =>
    cases r with
    | nil => simp [canonTail]
    | cons z r => simp only [canonTail, List.append_eq_nil_iff, ih]; simp

theorem canonTail_cons_of_ne {α : Type} (m : List α) (r : List (List α)) (h : r ≠ []) :
    canonTail (m :: r) = (if m.isEmpty then [] else [m]) ++ canonTail r := by
  cases r with
  | nil => exact absurd rfl h
  | cons z r => rfl

theorem canonTail_idem {α : Type} (r : List (List α)) : canonTail (canonTail r) = canonTail r := by
  induction r with
  | nil => rfl
  | cons m r ih =>
    cases r with
    | nil => rfl
    | cons z r =>
      have hne : canonTail (z :: r) ≠ [] := by rw [Ne, canonTail_eq_nil]; simp
      simp only [canonTail]
      by_cases hm : m.isEmpty = true
      · simp only [hm, if_true, List.nil_append]; exact ih
      · simp only [hm, Bool.false_eq_true, if_false, List.singleton_append]
        rw [canonTail_cons_of_ne m _ hne, ih]; simp [hm]

theorem canon_idem {α : Type} (X : List (List α)) : canon (canon X) = canon X := by
  cases X with
  | nil => rfl
  | cons x r => simp [canon, canonTail_idem]

theorem neF_canonTail {α : Type} (r : List (List α)) : neF (canonTail r) = neF r := by
  induction r with
  | nil => rfl
  | cons m r ih =>
    cases r with
    | nil => rfl
    | cons z r =>
      simp only [canonTail]
      by_cases hm : m.isEmpty = true
      · simp only [hm, if_true, List.nil_append, ih]; simp [neF, hm]
      · simp only [hm, Bool.false_eq_true, if_false, List.singleton_append]
        simp only [neF, List.filter_cons, hm, Bool.not_false, if_true] at ih ⊢
        rw [ih]

theorem neF_canon {α : Type} (X : List (List α)) : neF (canon X) = neF X := by
  cases X with
  | nil => rfl
  | cons x r =>
    simp only [canon, neF, List.filter_cons]
    have := neF_canonTail r
    simp only [neF] at this
    rw [this]

theorem canonTail_of_canon {α : Type} (X Y : List (List α)) (h : canon X = canon Y) : canonTail X = canonTail Y := by
  cases X with
  | nil => cases Y with
    | nil => rfl
    | cons y s => simp [canon] at h
  | cons x r =>
    cases Y with
    | nil => simp [canon] at h
    | cons y s =>
      simp only [canon, List.cons.injEq] at h
      obtain ⟨rfl, h2⟩ := h
      by_cases hr : r = []
      · subst hr
        have : s = [] := by rw [← canonTail_eq_nil, ← h2]; rfl
        subst this; rfl
      · have hs : s ≠ [] := by
          intro hs; subst hs
          have := (canonTail_eq_nil r).1 (by rw [h2]; rfl)
          exact hr this
        rw [canonTail_cons_of_ne x r hr, canonTail_cons_of_ne x s hs, h2]

theorem glue_ne_nil {α : Type} (R G : List (List α)) (hR : R ≠ []) (hG : G ≠ []) : glue R G ≠ [] := by
  match R, hR with
  | [a], _ => cases G with
    | nil => exact absurd rfl hG
    | cons g G => simp [glue, mapHead]
  | a :: b :: R, _ => simp [glue]

theorem canonTail_glue {α : Type} (R G : List (List α)) (hR : R ≠ []) (hG : G ≠ []) :
    canonTail (glue R G) = canonTail (glue (canonTail R) (canon G)) := by
  induction R with
  | nil => exact absurd rfl hR
  | cons m R ih =>
    cases R with
    | nil =>
      cases G with
      | nil => exact absurd rfl hG
      | cons g r =>
        simp only [glue, mapHead, canonTail, canon]
        by_cases hr : r = []
        · subst hr; rfl
        · have hr' : canonTail r ≠ [] := by rw [Ne, canonTail_eq_nil]; exact hr
          rw [canonTail_cons_of_ne _ r hr, canonTail_cons_of_ne _ _ hr', canonTail_idem]
    | cons z R' =>
      have hne1 : glue (z :: R') G ≠ [] := glue_ne_nil _ _ (by simp) hG
      have hct : canonTail (z :: R') ≠ [] := by rw [Ne, canonTail_eq_nil]; simp
      have hcg : canon G ≠ [] := by cases G <;> simp_all [canon]
      have hne2 : glue (canonTail (z :: R')) (canon G) ≠ [] := glue_ne_nil _ _ hct hcg
      have ih' := ih (by simp)
      simp only [glue]
      rw [canonTail_cons_of_ne m _ hne1, ih']
      simp only [canonTail]
      by_cases hm : m.isEmpty = true
      · simp [hm]
      · simp only [hm, Bool.false_eq_true, if_false, List.singleton_append]
        cases hc : canonTail (z :: R') with
        | nil => exact absurd hc hct
        | cons c cs =>
          rw [hc] at hne2
          simp only [glue]
          rw [canonTail_cons_of_ne m _ hne2]; simp [hm]

theorem canon_cons {α : Type} (x : List α) (r : List (List α)) : canon (x :: r) = x :: canonTail r := rfl

theorem canon_glue {α : Type} (X G : List (List α)) (hX : X ≠ []) (hG : G ≠ []) :
    canon (glue X G) = canon (glue (canon X) (canon G)) := by
  cases X with
  | nil => exact absurd rfl hX
  | cons a X' =>
    cases X' with
    | nil =>
      cases G with
      | nil => exact absurd rfl hG
      | cons g r =>
        have e1 : canon [a] = [a] := rfl
        rw [e1, canon_cons g r]
        simp only [glue, mapHead, canon_cons, canonTail_idem]
    | cons b X'' =>
      have hct : canonTail (b :: X'') ≠ [] := by rw [Ne, canonTail_eq_nil]; simp
      have e1 : glue (a :: b :: X'') G = a :: glue (b :: X'') G := rfl
      rw [e1, canon_cons, canon_cons a (b :: X'')]
      cases hc : canonTail (b :: X'') with
      | nil => exact absurd hc hct
      | cons c cs =>
        have e2 : glue (a :: c :: cs) (canon G) = a :: glue (c :: cs) (canon G) := rfl
        rw [e2, canon_cons, ← hc, canonTail_glue _ _ (by simp) hG]

theorem canon_glue_congr {α : Type} (X Y G H : List (List α)) (hX : X ≠ []) (hY : Y ≠ []) (hG : G ≠ [])
    (hH : H ≠ []) (h1 : canon X = canon Y) (h2 : canon G = canon H) : canon (glue X G) = canon (glue Y H) := by
  rw [canon_glue X G hX hG, canon_glue Y H hY hH, h1, h2]

def glueAll {α : Type} : List (List (List α)) → List (List α)
  | [] => [[]]
  | S :: rest => glue S (glueAll rest)

theorem glueAll_ne_nil {α : Type} (L : List (List (List α))) (h : ∀ S ∈ L, S ≠ []) : glueAll L ≠ [] := by
  induction L with
  | nil => simp [glueAll]
  | cons S L ih => exact glue_ne_nil _ _ (h S (by simp)) (ih (fun T hT => h T (by simp [hT])))

theorem canon_glueAll_congr {α β : Type} (l : List β) (f g : β → List (List α))
    (hf : ∀ b ∈ l, f b ≠ []) (hg : ∀ b ∈ l, g b ≠ []) (h : ∀ b ∈ l, canon (f b) = canon (g b)) :
    canon (glueAll (l.map f)) = canon (glueAll (l.map g)) := by
  induction l with
  | nil => rfl
  | cons b l ih =>
    simp only [List.map_cons, glueAll]
    apply canon_glue_congr _ _ _ _ (hf b (by simp)) (hg b (by simp))
    · exact glueAll_ne_nil _ (by intro S hS; simp only [List.mem_map] at hS; obtain ⟨x, hx, rfl⟩ := hS; exact hf x (by simp [hx]))
    · exact glueAll_ne_nil _ (by intro S hS; simp only [List.mem_map] at hS; obtain ⟨x, hx, rfl⟩ := hS; exact hg x (by simp [hx]))
    · exact h b (by simp)
    · exact ih (fun x hx => hf x (by simp [hx])) (fun x hx => hg x (by simp [hx])) (fun x hx => h x (by simp [hx]))

theorem glueAll_splitOnP {α β : Type} (p : α → Bool) (l : List β) (f : β → List α) :
    glueAll (l.map fun b => splitOnP p (f b)) = splitOnP p (l.flatMap f) := by
  induction l with
  | nil => rfl
  | cons b l ih => simp only [List.map_cons, glueAll, ih, List.flatMap_cons, splitOnP_append]


namespace RT


/-! ### `split()` at white space -/

theorem reSplitWs_canon (s : Str) :
    (∀ cur, canon (reSplitWs s cur false) = canon (mapHead (cur.reverse ++ ·) (splitOnP isWs s))) ∧
    canonTail (reSplitWs s [] true) = canonTail (splitOnP isWs s) := by
  induction s with
  | nil => exact ⟨fun cur => by simp [reSplitWs, splitOnP, mapHead], rfl⟩
  | cons c r ih =>
    obtain ⟨ih1, ih2⟩ := ih
    by_cases hc : isWs c = true
    · constructor
      · intro cur
        simp only [reSplitWs, hc, if_true, Bool.false_eq_true, if_false]
        rw [splitOnP_cons_true isWs c r hc]
        simp only [mapHead, List.append_nil, canon_cons, ih2]
      · simp only [reSplitWs, hc, if_true]
        rw [splitOnP_cons_true isWs c r hc, canonTail_cons_of_ne _ _ (splitOnP_ne_nil isWs r), ih2]
        simp
    · have hc' : isWs c = false := by simpa using hc
      constructor
      · intro cur
        simp only [reSplitWs, hc', Bool.false_eq_true, if_false]
        rw [ih1 (c :: cur), splitOnP_cons_false isWs c r hc', mapHead_mapHead]
        congr 2
        funext y; simp
      · simp only [reSplitWs, hc', Bool.false_eq_true, if_false]
        apply canonTail_of_canon
        rw [ih1 [c], splitOnP_cons_false isWs c r hc']
        rfl

theorem reSplitWs_ne_nil (s cur : Str) (b : Bool) : reSplitWs s cur b ≠ [] := by
  induction s generalizing cur b with
  | nil => simp [reSplitWs]
  | cons c r ih =>
    simp only [reSplitWs]
    split
    · split
      · exact ih _ _
      · simp
    · exact ih _ _

theorem splitLit_ne_nil (sep s cur : Str) (n : Nat) : splitLit sep s cur n ≠ [] := by
  induction s generalizing cur n with
  | nil => simp [splitLit]
  | cons c r ih =>
    cases n with
    | succ n => simp only [splitLit]; exact ih _ _
    | zero =>
      simp only [splitLit]
      split
      · simp
      · exact ih _ _

theorem strSplit_ne_nil (sep : Sep) (s : Str) : strSplit sep s ≠ [] := by
  cases sep with
  | ws => exact reSplitWs_ne_nil _ _ _
  | lit c cs => exact splitLit_ne_nil _ _ _ _

theorem splitL_ne_nil (sep : Sep) (k : Kind) (ps : List RT) :
    ∀ tail, tail ≠ [] → splitL sep k true ps tail ≠ [] := by
  induction ps with
  | nil =>
    intro tail ht
    have : (!tail.isEmpty) = true := by simpa using ht
    simp [splitL, this]
  | cons part ps ih =>
    intro tail ht
    simp only [splitL]
    split
    · exact ih tail ht
    · intro h
      simp only [List.append_eq_nil_iff] at h
      exact ih _ (by simp) h.2

theorem split_ne_nil (sep : Sep) (t : RT) : split sep t (some true) ≠ [] := by
  cases t with
  | str s =>
    simp only [split, keepDefault, Bool.or_true]
    rw [List.filter_eq_self.2 (fun _ _ => rfl)]
    intro h
    exact strSplit_ne_nil sep s (List.map_eq_nil_iff.1 h)
  | sym n => simp [split]
  | node k ps =>
    cases k with
    | prot => simp [split]
    | text => simp only [split, keepDefault, if_true]; exact splitL_ne_nil _ _ _ _ (by simp)
    | tag n => simp only [split, keepDefault, if_true]; exact splitL_ne_nil _ _ _ _ (by simp)
    | href u e => simp only [split, keepDefault, if_true]; exact splitL_ne_nil _ _ _ _ (by simp)

/-- the loop of `BaseMultipartText.split`, whatever the separator: the pieces of the parts are
glued together (last piece of a part with the first piece of the next) -/
theorem splitL_sem_gen (sep : Sep) (ctx : List Markup) (k : Kind) (keep : Bool) (ps : List RT) :
    ∀ tail, (keep = true → tail ≠ []) →
      (splitL sep k keep ps tail).map (sem ctx)
        = keepF keep (mapHead (semL (ctx ++ k.markup) tail ++ ·)
            (glueAll (ps.map fun p => (split sep p (some true)).map (sem (ctx ++ k.markup))))) := by
  induction ps with
  | nil =>
    intro tail hk
    simp only [splitL, List.map_nil, glueAll, mapHead, List.append_nil]
    by_cases ht : tail = []
    · subst ht
      have : keep = false := by cases keep <;> simp_all
      subst this
      simp [keepF, semL]
    · have : (!tail.isEmpty) = true := by simpa using ht
      rw [if_pos this, keepF_single, sem_mk]; rfl
  | cons part ps ih =>
    intro tail hk
    simp only [splitL]
    have hne := split_ne_nil sep part
    generalize hS : split sep part (some true) = sp at hne
    cases hrev : sp.reverse with
    | nil => simp at hrev; exact absurd hrev hne
    | cons last revInit =>
      have hsp' : sp = revInit.reverse ++ [last] := by
        have := congrArg List.reverse hrev; simpa using this
      simp only
      obtain ⟨h1, h2⟩ := splitItems_sem ctx k keep revInit.reverse tail
      rw [List.map_append, h1, h2]
      rw [ih _ (by intro _; simp)]
      simp only [List.map_cons, glueAll]
      rw [hS, hsp', List.map_append, List.map_cons, List.map_nil, glue_snoc]
      cases hI : revInit.reverse with
      | nil =>
        simp only [List.map_nil, List.nil_append, if_pos, keepF, List.filter_nil, mapHead_mapHead, semL_append,
          semL, List.append_nil]
        congr 2
        funext x; simp [List.append_assoc]
      | cons i is =>
        simp only [List.map_cons, if_neg (List.cons_ne_nil _ _), List.nil_append, semL, List.append_nil,
          List.cons_append, mapHead]
        rw [← keepF_append]; rfl

theorem isSep_ws_ch (a : Char) (ctx : List Markup) (hc : Flat.isProt ctx = false) :
    Flat.isSep .ws (Atom.ch a, ctx) = isWs a := by
  simp [Flat.isSep, hc]

theorem canon_map {α β : Type} (f : List α → List β) (hf : ∀ x, (f x).isEmpty = x.isEmpty) (X : List (List α)) :
    canon (X.map f) = (canon X).map f := by
  cases X with
  | nil => rfl
  | cons x r =>
    simp only [List.map_cons, canon_cons]
    congr 1
    induction r with
    | nil => rfl
    | cons m r ih =>
      cases r with
      | nil => rfl
      | cons z r =>
        simp only [List.map_cons, canonTail, hf, List.map_append] at ih ⊢
        rw [ih]
        by_cases hm : m.isEmpty = true <;> simp [hm]

/-- the pieces `split(None, keep_empty_parts=True)` returns agree with the exact list split at
every unprotected white-space character up to empty pieces strictly inside -/
def SplitWsOK (t : RT) : Prop :=
  ∀ ctx, Flat.isProt ctx = false →
    canon ((split .ws t (some true)).map (sem ctx)) = canon (splitOnP (Flat.isSep .ws) (sem ctx t))

theorem splitWsOK_all (t : RT) : SplitWsOK t := by
  induction t using RT.induct with
  | hstr s =>
    intro ctx hc
    simp only [split, keepDefault, Bool.or_true, List.map_map]
    rw [List.filter_eq_self.2 (fun _ _ => rfl)]
    simp only [strSplit, sem]
    rw [splitOnP_map]
    have : (fun a => Flat.isSep Sep.ws (Atom.ch a, ctx)) = isWs := by
      funext a; exact isSep_ws_ch a ctx hc
    rw [this]
    have h1 := (reSplitWs_canon s).1 []
    simp only [List.reverse_nil] at h1
    have h2 : mapHead (fun x => ([] : Str) ++ x) (splitOnP isWs s) = splitOnP isWs s := by
      cases splitOnP isWs s <;> simp [mapHead]
    rw [h2] at h1
    have e : (List.map (sem ctx ∘ str) (reSplitWs s [] false))
        = (reSplitWs s [] false).map (List.map fun c => ((Atom.ch c, ctx) : Atom × List Markup)) := by
      apply List.map_congr_left; intro x _; simp [sem]
    rw [e, canon_map _ (by intro x; cases x <;> simp), canon_map _ (by intro x; cases x <;> simp), h1]
  | hsym n =>
    intro ctx hc
    simp only [split, List.map_cons, List.map_nil, sem]
    rw [splitOnP_none]
    intro x hx; simp at hx; subst hx; simp [Flat.isSep]
  | hnode k ps ih =>
    intro ctx hc
    have key : ∀ (k : Kind), Flat.isProt (ctx ++ k.markup) = false →
        canon ((splitL .ws k true ps [.str []]).map (sem ctx))
          = canon (splitOnP (Flat.isSep .ws) (semL (ctx ++ k.markup) ps)) := by
      intro k hk
      rw [splitL_sem_gen .ws ctx k true ps _ (by simp)]
      simp only [keepF_true, semL, sem, List.map_nil, List.append_nil]
      rw [mapHead_nil_append, semL_eq_flatMap, ← glueAll_splitOnP]
      apply canon_glueAll_congr
      · intro p _ h; exact split_ne_nil .ws p (List.map_eq_nil_iff.1 h)
      · intro p _; exact splitOnP_ne_nil _ _
      · intro p hp; exact ih p hp _ hk
    cases k with
    | prot =>
      simp only [split, List.map_cons, List.map_nil]
      rw [splitOnP_none]
      intro x hx
      simp only [sem, Kind.markup] at hx
      simp [Flat.isSep, stack_prot ctx ps x hx]
    | text => simp only [split, keepDefault, if_true, sem]; exact key .text (by simpa [Kind.markup] using hc)
    | tag n => simp only [split, keepDefault, if_true, sem]; exact key (.tag n) (by rw [isProt_append, hc]; rfl)
    | href u e => simp only [split, keepDefault, if_true, sem]; exact key (.href u e) (by rw [isProt_append, hc]; rfl)

theorem keepF_false_eq_neF (S : List Flat) : keepF false S = neF S := by simp [keepF, neF]

/-- `split()` (white space, empty pieces dropped – Python's `str.split()`): the non-empty pieces of
the list split at the unprotected white-space characters -/
theorem sem_split_ws (t : RT) (keep : Option Bool) (hk : keepDefault .ws keep = false) (ctx : List Markup)
    (hc : Flat.isProt ctx = false) (ht : top t ≠ .symbol ∧ top t ≠ .multi .prot) :
    (split .ws t keep).map (sem ctx) = neF (splitOnP (Flat.isSep .ws) (sem ctx t)) := by
  cases t with
  | str s =>
    have hW := splitWsOK_all (.str s) ctx hc
    simp only [split, keepDefault, Bool.or_true, List.map_map] at hW
    rw [List.filter_eq_self.2 (fun _ _ => rfl)] at hW
    simp only [split, hk, Bool.or_false, List.map_map]
    rw [← neF_canon (splitOnP _ _), ← hW, neF_canon]
    simp only [neF, List.filter_map]
    congr 1
    apply List.filter_congr
    intro part _
    cases part <;> simp [sem]
  | sym n => simp at ht
  | node k ps =>
    have hkp : k ≠ .prot := by intro h; subst h; simp at ht
    have hc' : Flat.isProt (ctx ++ k.markup) = false := by
      rw [isProt_append, hc]; cases k <;> simp_all [Kind.markup, Flat.isProt]
    have key : (splitL .ws k false ps []).map (sem ctx) = neF (splitOnP (Flat.isSep .ws) (sem ctx (.node k ps))) := by
      rw [splitL_sem_gen .ws ctx k false ps [] (by simp)]
      simp only [semL, sem]
      rw [mapHead_nil_append, keepF_false_eq_neF, ← neF_canon, ← neF_canon (splitOnP _ _)]
      congr 1
      rw [semL_eq_flatMap, ← glueAll_splitOnP]
      apply canon_glueAll_congr
      · intro p _ h; exact split_ne_nil .ws p (List.map_eq_nil_iff.1 h)
      · intro p _; exact splitOnP_ne_nil _ _
      · intro p _; exact splitWsOK_all p _ hc'
    cases k with
    | prot => exact absurd rfl hkp
    | text => simp only [split, hk, Bool.false_eq_true, if_false]; exact key
    | tag n => simp only [split, hk, Bool.false_eq_true, if_false]; exact key
    | href u e => simp only [split, hk, Bool.false_eq_true, if_false]; exact key

theorem abs_split_ws (t : RT) (keep : Option Bool) (hk : keepDefault .ws keep = false) :
    (split .ws t keep).map abs = Abs.split .ws false (abs t) := by
  unfold Abs.split
  by_cases ht : top t = .symbol ∨ top t = .multi .prot
  · rw [if_pos (by simpa using ht)]
    cases t with
    | str s => simp at ht
    | sym n => simp [split]
    | node k ps => simp only [top_node, Top.multi.injEq, reduceCtorEq, false_or] at ht; subst ht; simp [split]
  · rw [if_neg (by simpa using ht)]
    have ht' : top t ≠ .symbol ∧ top t ≠ .multi .prot := by
      constructor <;> intro h <;> simp [h] at ht
    have hs := sem_split_ws t keep hk [] rfl ht'
    have htop := top_split t .ws keep
    simp only [neF] at hs
    simp only [Bool.or_false]
    rw [abs_atoms, ← hs, List.map_map]
    apply List.map_congr_left
    intro r hr
    exact abs_ext (by simp [htop r hr]) rfl


/-! ### histories -/

/-- the operands of an operation are normal forms (they are objects) -/
def Op.OperandsNormal : Op → Bool
  | .add x => Normal x
  | .radd x => Normal x
  | .append x => Normal x
  | .joinWith xs => xs.all Normal
  | _ => true

/-- the operations covered by the history theorem: everything except `split` at a separator of
more than one character and `split(None, keep_empty_parts=True)` -/
def Op.Covered : Op → Bool
  | .splitPick (.lit _ []) _ _ => true
  | .splitPick .ws keep _ => !keepDefault .ws keep
  | .splitPick _ _ _ => false
  | _ => true

theorem getElem?_map_abs (ps : List RT) (i : Nat) : (ps.map abs)[i]? = ps[i]?.map abs := by
  simp

theorem step_abs (terms : List Str) (hT : ∀ x ∈ terms, x.length = 1) (t : RT) (ht : Normal t = true)
    (op : Op) (hs : op.Covered = true) :
    (step terms t op).map abs = Abs.step terms (abs t) op.abs := by
  cases op with
  | add x => simp [step, Abs.step, Op.abs, Except.map, abs_add]
  | radd x => simp [step, Abs.step, Op.abs, Except.map, abs_add]
  | append x => simp [step, Abs.step, Op.abs, Except.map, abs_append]
  | joinWith xs => simp [step, Abs.step, Op.abs, Except.map, abs_join]
  | slice i j => simp [step, Abs.step, Op.abs, Except.map, abs_getSlice]
  | index i => simp only [step, Abs.step, Op.abs]; exact abs_getIndex t i
  | upper => simp [step, Abs.step, Op.abs, Except.map, abs_upperT]
  | lower => simp [step, Abs.step, Op.abs, Except.map, abs_lowerT]
  | capfirst => simp [step, Abs.step, Op.abs, Except.map, abs_capfirst]
  | capitalize => simp [step, Abs.step, Op.abs, Except.map, abs_capitalize]
  | addPeriod =>
    simp only [step, Abs.step, Op.abs, Except.map]
    rw [abs_addPeriod terms hT _ t ht]; rfl
  | splitPick sep keep pick =>
    match sep, hs with
    | .lit c0 [], _ =>
      simp only [step, Abs.step, Op.abs]
      rw [← abs_split_lit c0 t keep, List.length_map, getElem?_map_abs]
      cases (split (Sep.lit c0 []) t keep)[pick % (split (Sep.lit c0 []) t keep).length]? <;> rfl
    | .ws, hs =>
      have hk : keepDefault .ws keep = false := by simpa [Op.Covered] using hs
      simp only [step, Abs.step, Op.abs, hk]
      rw [← abs_split_ws t keep hk, List.length_map, getElem?_map_abs]
      cases (split Sep.ws t keep)[pick % (split Sep.ws t keep).length]? <;> rfl

theorem step_normal (terms : List Str) (t : RT) (ht : Normal t = true) (op : Op)
    (ho : op.OperandsNormal = true) (hs : op.Covered = true) (r : RT) (hr : step terms t op = .ok r) :
    Normal r = true := by
  cases op with
  | add x => simp only [step, Except.ok.injEq] at hr; subst hr; exact normal_add _ _ ht ho
  | radd x => simp only [step, Except.ok.injEq] at hr; subst hr; exact normal_add _ _ ho ht
  | append x => simp only [step, Except.ok.injEq] at hr; subst hr; exact normal_append _ _ ht ho
  | joinWith xs =>
    simp only [step, Except.ok.injEq] at hr; subst hr
    exact normal_join _ _ ht (by simpa [Op.OperandsNormal] using ho)
  | slice i j => simp only [step, Except.ok.injEq] at hr; subst hr; exact normal_getSlice t ht i j
  | index i => exact normal_getIndex t ht i r hr
  | upper => simp only [step, Except.ok.injEq] at hr; subst hr; exact normal_caseMap _ _ ht
  | lower => simp only [step, Except.ok.injEq] at hr; subst hr; exact normal_caseMap _ _ ht
  | capfirst => simp only [step, Except.ok.injEq] at hr; subst hr; exact normal_capfirst t ht
  | capitalize => simp only [step, Except.ok.injEq] at hr; subst hr; exact normal_capitalize t ht
  | addPeriod => simp only [step, Except.ok.injEq] at hr; subst hr; exact normal_addPeriod _ _ t ht rfl
  | splitPick sep keep pick =>
    simp only [step] at hr
    split at hr
    · rename_i p hp
      simp only [Except.ok.injEq] at hr; subst hr
      exact normal_split t ht sep keep p (List.mem_of_getElem? hp)
    · simp only [Except.ok.injEq] at hr; subst hr; exact ht

theorem run_abs (terms : List Str) (hT : ∀ x ∈ terms, x.length = 1) (ops : List Op) :
    ∀ (t : RT), Normal t = true → (∀ op ∈ ops, op.OperandsNormal = true ∧ op.Covered = true) →
    (run terms t ops).map (Except.map abs) = Abs.run terms (abs t) (ops.map Op.abs) := by
  induction ops with
  | nil => intro t _ _; rfl
  | cons op ops ih =>
    intro t ht ho
    have h1 := ho op (by simp)
    have hstep := step_abs terms hT t ht op h1.2
    simp only [run, Abs.run, List.map_cons]
    cases hr : step terms t op with
    | ok r =>
      rw [hr] at hstep
      simp only [Except.map] at hstep
      rw [← hstep]
      simp only [List.map_cons, Except.map]
      rw [ih r (step_normal terms t ht op h1.1 h1.2 r hr) (fun o ho' => ho o (by simp [ho']))]
    | error e =>
      rw [hr] at hstep
      simp only [Except.map] at hstep
      rw [← hstep]
      simp only [List.map_cons, Except.map]
      rw [ih t ht (fun o ho' => ho o (by simp [ho']))]


/-! ### the denotation is injective on normal forms -/

theorem takeWhile_append_of_all {α : Type} (P : α → Bool) (A B : List α) (hA : ∀ x ∈ A, P x = true)
    (hB : ∀ y, B.head? = some y → P y = false) :
    (A ++ B).takeWhile P = A ∧ (A ++ B).dropWhile P = B := by
  induction A with
  | nil =>
    cases B with
    | nil => simp
    | cons b B => simp [hB b rfl]
  | cons a A ih =>
    have := ih (fun x hx => hA x (by simp [hx]))
    simp [hA a (by simp), this.1, this.2]

theorem append_unique {α : Type} (P : α → Bool) (A₁ B₁ A₂ B₂ : List α)
    (hA₁ : ∀ x ∈ A₁, P x = true) (hB₁ : ∀ y, B₁.head? = some y → P y = false)
    (hA₂ : ∀ x ∈ A₂, P x = true) (hB₂ : ∀ y, B₂.head? = some y → P y = false)
    (h : A₁ ++ B₁ = A₂ ++ B₂) : A₁ = A₂ ∧ B₁ = B₂ := by
  have h1 := takeWhile_append_of_all P A₁ B₁ hA₁ hB₁
  have h2 := takeWhile_append_of_all P A₂ B₂ hA₂ hB₂
  rw [h] at h1
  exact ⟨h1.1.symm.trans h2.1, h1.2.symm.trans h2.2⟩

def Pstr (ctx : List Markup) (x : Atom × List Markup) : Bool :=
  (match x.1 with | .ch _ => true | .sym _ => false) && x.2 == ctx

def Pnode (ctx : List Markup) (m : Markup) (x : Atom × List Markup) : Bool :=
  (ctx ++ [m]).isPrefixOf x.2

theorem isPrefixOf_append_self (ctx a b : List Markup) :
    (ctx ++ a).isPrefixOf (ctx ++ b) = a.isPrefixOf b := by
  induction ctx with
  | nil => rfl
  | cons c ctx ih => simp [ih]

theorem isPrefixOf_longer (a b : List Markup) (h : b.length < a.length) : a.isPrefixOf b = false := by
  induction a generalizing b with
  | nil => simp at h
  | cons x a ih =>
    cases b with
    | nil => rfl
    | cons y b =>
      simp only [List.isPrefixOf, Bool.and_eq_false_imp]
      intro _; exact ih b (by simpa using h)

/-- the markup of a kind that is not `Text` is a single element that determines the kind -/
theorem markup_single (k : Kind) (h : k ≠ .text) : ∃ m, k.markup = [m] := by
  cases k with
  | text => exact absurd rfl h
  | tag n => exact ⟨_, rfl⟩
  | href u e => exact ⟨_, rfl⟩
  | prot => exact ⟨_, rfl⟩

theorem markup_inj (k k' : Kind) (h : k.markup = k'.markup) (hk : k ≠ .text) : k = k' := by
  cases k <;> cases k' <;> simp_all [Kind.markup]

theorem not_text_of_partOK {k : Kind} {ps : List RT} (h : PartOK (.node k ps)) : k ≠ .text := by
  intro hk; subst hk; simp [PartOK, isText] at h

theorem sem_ne_nil_of_partOK (ctx : List Markup) {p : RT} (h : PartOK p) : sem ctx p ≠ [] := by
  intro hs
  have := congrArg List.length hs
  rw [sem_length] at this
  exact h.1 (by simpa using this)

theorem mem_semL_stack (c : List Markup) (l : List RT) : ∀ x ∈ semL c l, ∃ r, x.2 = c ++ r := by
  intro x hx
  rw [semL_ctx] at hx
  simp only [Flat.push, List.mem_map] at hx
  obtain ⟨y, _, rfl⟩ := hx
  exact ⟨y.2, rfl⟩

theorem all_Pstr (ctx : List Markup) (s : Str) : ∀ x ∈ sem ctx (.str s), Pstr ctx x = true := by
  intro x hx
  simp only [sem, List.mem_map] at hx
  obtain ⟨c, _, rfl⟩ := hx
  simp [Pstr]

theorem all_Pnode (ctx : List Markup) (k : Kind) (m : Markup) (hm : k.markup = [m]) (ps : List RT) :
    ∀ x ∈ sem ctx (.node k ps), Pnode ctx m x = true := by
  intro x hx
  simp only [sem, hm] at hx
  obtain ⟨r, hr⟩ := mem_semL_stack _ _ x hx
  simp only [Pnode, hr]
  have := isPrefixOf_append_self (ctx ++ [m]) [] r
  rw [List.append_nil] at this
  rw [this]; rfl

/-- the first pair of a part that is not a `String` does not continue a run of plain characters -/
theorem head_not_Pstr (ctx : List Markup) (q : RT) (hq : PartOK q) (ht : typeInfo q ≠ .string) :
    ∀ y, (sem ctx q).head? = some y → Pstr ctx y = false := by
  intro y hy
  have hmem : y ∈ sem ctx q := List.mem_of_mem_head? hy
  cases q with
  | str s => simp [typeInfo] at ht
  | sym n => simp only [sem, List.mem_singleton] at hmem; subst hmem; simp [Pstr]
  | node k ps =>
    obtain ⟨m, hm⟩ := markup_single k (not_text_of_partOK hq)
    simp only [sem, hm] at hmem
    obtain ⟨r, hr⟩ := mem_semL_stack _ _ y hmem
    simp only [Pstr, hr, Bool.and_eq_false_imp]
    intro _
    simp only [beq_eq_false_iff_ne, ne_eq]
    intro h
    have := congrArg List.length h
    simp at this

/-- the first pair of a part with another type info is not inside the markup `ctx ++ [m]` -/
theorem head_not_Pnode (ctx : List Markup) (k : Kind) (m : Markup) (hm : k.markup = [m]) (q : RT)
    (hq : PartOK q) (ht : typeInfo q ≠ .multi k) :
    ∀ y, (sem ctx q).head? = some y → Pnode ctx m y = false := by
  intro y hy
  have hmem : y ∈ sem ctx q := List.mem_of_mem_head? hy
  cases q with
  | str s =>
    simp only [sem, List.mem_map] at hmem
    obtain ⟨c, _, rfl⟩ := hmem
    exact isPrefixOf_longer _ _ (by simp)
  | sym n =>
    simp only [sem, List.mem_singleton] at hmem; subst hmem
    exact isPrefixOf_longer _ _ (by simp)
  | node k' ps =>
    have hk' := not_text_of_partOK hq
    obtain ⟨m', hm'⟩ := markup_single k' hk'
    simp only [sem, hm'] at hmem
    obtain ⟨r, hr⟩ := mem_semL_stack _ _ y hmem
    have hne : m ≠ m' := by
      intro h; subst h
      have : k' = k := markup_inj k' k (by rw [hm', hm]) hk'
      subst this; exact ht rfl
    simp only [Pnode, hr, List.append_assoc, isPrefixOf_append_self]
    simp [List.isPrefixOf, hne]

theorem head?_semL_cons (ctx : List Markup) (q : RT) (r : List RT) (hq : PartOK q) :
    (semL ctx (q :: r)).head? = (sem ctx q).head? := by
  simp only [semL]
  cases h : sem ctx q with
  | nil => exact absurd h (sem_ne_nil_of_partOK ctx hq)
  | cons x xs => rfl

/-- what follows a part in a normal list does not continue it -/
theorem next_fails (ctx : List Markup) (P : Atom × List Markup → Bool) (p : RT) (r : List RT)
    (hr : ∀ q ∈ r, PartOK q) (hadj : noAdjacentSimilar (p :: r) = true)
    (hP : ∀ q, PartOK q → mergeable p q = false → ∀ y, (sem ctx q).head? = some y → P y = false) :
    ∀ y, (semL ctx r).head? = some y → P y = false := by
  cases r with
  | nil => intro y hy; simp [semL] at hy
  | cons q r =>
    intro y hy
    rw [head?_semL_cons ctx q r (hr q (by simp))] at hy
    simp only [noAdjacentSimilar, Bool.and_eq_true, Bool.not_eq_true'] at hadj
    exact hP q (hr q (by simp)) hadj.1 y hy

theorem noAdj_tail {p : RT} {r : List RT} (h : noAdjacentSimilar (p :: r) = true) : noAdjacentSimilar r = true := by
  cases r with
  | nil => rfl
  | cons q r => simp only [noAdjacentSimilar, Bool.and_eq_true] at h; exact h.2

theorem typeInfo_of_not_mergeable_str {s : Str} {q : RT} (h : mergeable (.str s) q = false) :
    typeInfo q ≠ .string := by
  cases q <;> simp_all [mergeable, typeInfo]

theorem typeInfo_of_not_mergeable_node {k : Kind} {ps : List RT} {q : RT}
    (h : mergeable (.node k ps) q = false) : typeInfo q ≠ .multi k := by
  cases q <;> simp_all [mergeable, typeInfo]
  intro h'; exact h h'.symm

theorem map_ch_inj (ctx : List Markup) (s s' : Str)
    (h : s.map (fun c => ((Atom.ch c, ctx) : Atom × List Markup)) = s'.map (fun c => (Atom.ch c, ctx))) : s = s' := by
  induction s generalizing s' with
  | nil => cases s' <;> simp_all
  | cons c s ih =>
    cases s' with
    | nil => simp at h
    | cons c' s' =>
      simp only [List.map_cons, List.cons.injEq, Prod.mk.injEq, Atom.ch.injEq, and_true] at h
      rw [h.1, ih s' h.2]

theorem semL_inj : ∀ n, ∀ l₁, sizeL l₁ ≤ n → ∀ ctx l₂,
    (∀ p ∈ l₁, PartOK p) → noAdjacentSimilar l₁ = true →
    (∀ p ∈ l₂, PartOK p) → noAdjacentSimilar l₂ = true →
    semL ctx l₁ = semL ctx l₂ → l₁ = l₂ := by
  intro n
  induction n with
  | zero =>
    intro l₁ hsz ctx l₂ h₁ _ h₂ _ he
    cases l₁ with
    | cons p r => have := size_pos p; simp only [sizeL] at hsz; omega
    | nil =>
      cases l₂ with
      | nil => rfl
      | cons q r =>
        exfalso
        have := sem_ne_nil_of_partOK ctx (h₂ q (by simp))
        simp only [semL] at he
        cases hq : sem ctx q with
        | nil => exact this hq
        | cons x xs => rw [hq] at he; simp at he
  | succ n ih =>
    intro l₁ hsz ctx l₂ h₁ a₁ h₂ a₂ he
    cases l₁ with
    | nil =>
      cases l₂ with
      | nil => rfl
      | cons q r =>
        exfalso
        have := sem_ne_nil_of_partOK ctx (h₂ q (by simp))
        simp only [semL] at he
        cases hq : sem ctx q with
        | nil => exact this hq
        | cons x xs => rw [hq] at he; simp at he
    | cons p r₁ =>
      cases l₂ with
      | nil =>
        exfalso
        have := sem_ne_nil_of_partOK ctx (h₁ p (by simp))
        simp only [semL] at he
        cases hp : sem ctx p with
        | nil => exact this hp
        | cons x xs => rw [hp] at he; simp at he
      | cons q r₂ =>
        have hp := h₁ p (by simp)
        have hq := h₂ q (by simp)
        have hr₁ : ∀ x ∈ r₁, PartOK x := fun x hx => h₁ x (by simp [hx])
        have hr₂ : ∀ x ∈ r₂, PartOK x := fun x hx => h₂ x (by simp [hx])
        have hsz' : sizeL r₁ ≤ n := by have := size_pos p; simp only [sizeL] at hsz; omega
        -- the first pairs agree
        have hhead : (sem ctx p).head? = (sem ctx q).head? := by
          rw [← head?_semL_cons ctx p r₁ hp, ← head?_semL_cons ctx q r₂ hq, he]
        simp only [semL] at he
        cases p with
        | str s =>
          cases q with
          | str s' =>
            have := append_unique (Pstr ctx) _ _ _ _ (all_Pstr ctx s)
              (next_fails ctx _ _ r₁ hr₁ a₁ (fun q' hq' hm => head_not_Pstr ctx q' hq' (typeInfo_of_not_mergeable_str hm)))
              (all_Pstr ctx s')
              (next_fails ctx _ _ r₂ hr₂ a₂ (fun q' hq' hm => head_not_Pstr ctx q' hq' (typeInfo_of_not_mergeable_str hm))) he
            have hs : s = s' := by
              have h1 := this.1
              simp only [sem] at h1
              exact map_ch_inj ctx s s' h1
            rw [hs, ih r₁ hsz' ctx r₂ hr₁ (noAdj_tail a₁) hr₂ (noAdj_tail a₂) this.2]
          | sym n' =>
            exfalso
            cases s with
            | nil => simp [PartOK, len] at hp
            | cons c s => simp [sem] at hhead
          | node k' qs =>
            exfalso
            cases s with
            | nil => simp [PartOK, len] at hp
            | cons c s =>
              have hy := head_not_Pstr ctx (.node k' qs) hq (by simp [typeInfo]) (Atom.ch c, ctx)
                (by rw [← hhead]; simp [sem])
              simp [Pstr] at hy
        | sym n₁ =>
          cases q with
          | str s' =>
            exfalso
            cases s' with
            | nil => simp [PartOK, len] at hq
            | cons c s => simp [sem] at hhead
          | sym n' =>
            simp only [sem, List.cons_append, List.nil_append, List.cons.injEq, Prod.mk.injEq, Atom.sym.injEq,
              and_true] at he
            rw [he.1, ih r₁ hsz' ctx r₂ hr₁ (noAdj_tail a₁) hr₂ (noAdj_tail a₂) he.2]
          | node k' qs =>
            exfalso
            have hy := head_not_Pstr ctx (.node k' qs) hq (by simp [typeInfo])
            obtain ⟨m', hm'⟩ := markup_single k' (not_text_of_partOK hq)
            cases hs : sem ctx (.node k' qs) with
            | nil => exact sem_ne_nil_of_partOK ctx hq hs
            | cons y ys =>
              rw [hs] at hhead
              simp only [sem, List.head?_cons, Option.some.injEq] at hhead
              have hmem : y ∈ sem ctx (.node k' qs) := by rw [hs]; simp
              simp only [sem, hm'] at hmem
              obtain ⟨r, hr⟩ := mem_semL_stack _ _ y hmem
              rw [← hhead] at hr
              have := congrArg List.length hr
              simp at this
        | node k ps =>
          obtain ⟨m, hm⟩ := markup_single k (not_text_of_partOK hp)
          have hfirst : ∃ y ys, sem ctx (.node k ps) = y :: ys := by
            cases hs : sem ctx (.node k ps) with
            | nil => exact absurd hs (sem_ne_nil_of_partOK ctx hp)
            | cons y ys => exact ⟨y, ys, rfl⟩
          obtain ⟨y, ys, hys⟩ := hfirst
          have hyP : Pnode ctx m y = true := all_Pnode ctx k m hm ps y (by rw [hys]; simp)
          have hyq : (sem ctx q).head? = some y := by rw [← hhead, hys]; rfl
          have hqk : typeInfo q = .multi k := by
            apply Classical.byContradiction
            intro hne
            have := head_not_Pnode ctx k m hm q hq hne y hyq
            rw [hyP] at this; cases this
          cases q with
          | str s' => simp [typeInfo] at hqk
          | sym n' => simp [typeInfo] at hqk
          | node k' qs =>
            simp only [typeInfo, TypeInfo.multi.injEq] at hqk
            subst hqk
            have := append_unique (Pnode ctx m) _ _ _ _ (all_Pnode ctx k' m hm ps)
              (next_fails ctx _ _ r₁ hr₁ a₁ (fun q' hq' hmg => head_not_Pnode ctx k' m hm q' hq' (typeInfo_of_not_mergeable_node hmg)))
              (all_Pnode ctx k' m hm qs)
              (next_fails ctx _ _ r₂ hr₂ a₂ (fun q' hq' hmg => head_not_Pnode ctx k' m hm q' hq' (typeInfo_of_not_mergeable_node hmg))) he
            have hnp := (normal_node k' ps).1 hp.2.2
            have hnq := (normal_node k' qs).1 hq.2.2
            have hps : ps = qs := by
              have h1 := this.1
              simp only [sem] at h1
              have hszp : sizeL ps ≤ n := by simp only [sizeL, size] at hsz; omega
              exact ih ps hszp _ qs hnp.1 hnp.2 hnq.1 hnq.2 h1
            rw [hps, ih r₁ hsz' ctx r₂ hr₁ (noAdj_tail a₁) hr₂ (noAdj_tail a₂) this.2]

/-- two normal forms with the same class and the same string of pairs are the same tree -/
theorem abs_inj (a b : RT) (ha : Normal a = true) (hb : Normal b = true) (h : abs a = abs b) : a = b := by
  have htop : top a = top b := congrArg Abs.top h
  have hsem : sem [] a = sem [] b := congrArg Abs.atoms h
  cases a with
  | str s =>
    cases b with
    | str s' =>
      simp only [sem] at hsem
      rw [map_ch_inj [] s s' hsem]
    | sym n => simp at htop
    | node k ps => simp at htop
  | sym n =>
    cases b with
    | str s' => simp at htop
    | sym n' => simp only [sem, List.cons.injEq, Prod.mk.injEq, Atom.sym.injEq, and_true] at hsem; rw [hsem]
    | node k ps => simp at htop
  | node k ps =>
    cases b with
    | str s' => simp at htop
    | sym n' => simp at htop
    | node k' qs =>
      simp only [top_node, Top.multi.injEq] at htop
      subst htop
      simp only [sem] at hsem
      have hna := (normal_node k ps).1 ha
      have hnb := (normal_node k qs).1 hb
      rw [semL_inj _ ps (Nat.le_refl _) _ qs hna.1 hna.2 hnb.1 hnb.2 hsem]


/-! ### `startswith`, `endswith`, `in`: what a positive answer means for the string of pairs -/

theorem isPrefixOf_iff_take (p s : Str) : p.isPrefixOf s = true ↔ p.length ≤ s.length ∧ s.take p.length = p := by
  induction p generalizing s with
  | nil => simp
  | cons a p ih =>
    cases s with
    | nil => simp
    | cons b s =>
      simp only [List.isPrefixOf, Bool.and_eq_true, beq_iff_eq, ih, List.length_cons, List.take_succ_cons,
        List.cons.injEq]
      constructor
      · rintro ⟨rfl, h1, h2⟩; exact ⟨by omega, rfl, h2⟩
      · rintro ⟨h1, rfl, h2⟩; exact ⟨rfl, by omega, h2⟩

theorem spells_str (ctx : List Markup) (p : Str) : Flat.spells p (sem ctx (.str p)) = true := by
  simp only [Flat.spells, sem, List.map_map, Bool.and_eq_true, beq_iff_eq]
  constructor
  · simp [Function.comp_def]
  · cases p with
    | nil => rfl
    | cons c p => simp

theorem startsWith1_str (ctx : List Markup) (p s : Str) (hs : s ≠ []) (h : p.isPrefixOf s = true) :
    Flat.startsWith1 p (sem ctx (.str s)) = true := by
  obtain ⟨h1, h2⟩ := (isPrefixOf_iff_take p s).1 h
  cases s with
  | nil => exact absurd rfl hs
  | cons c s =>
    have : (sem ctx (.str (c :: s))).take p.length = sem ctx (.str p) := by
      simp only [sem, ← List.map_take, h2]
    simp only [Flat.startsWith1, sem, List.map_cons, List.length_cons, List.length_map, Bool.true_and,
      Bool.and_eq_true, decide_eq_true_eq]
    refine ⟨by simpa using h1, ?_⟩
    have h3 := spells_str ctx p
    rw [← this] at h3
    simpa [sem] using h3

theorem startsWith1_append (p : Str) (A B : Flat) (h : Flat.startsWith1 p A = true) :
    Flat.startsWith1 p (A ++ B) = true := by
  cases A with
  | nil => simp [Flat.startsWith1] at h
  | cons x A =>
    simp only [Flat.startsWith1, Bool.and_eq_true, decide_eq_true_eq, List.cons_append, List.length_cons,
      List.length_append] at h ⊢
    refine ⟨⟨h.1.1, by omega⟩, ?_⟩
    have : ((x :: A) ++ B).take p.length = (x :: A).take p.length :=
      List.take_append_of_le_length (by simpa using h.1.2)
    simp only [List.cons_append] at this
    rw [this]; exact h.2

theorem startsWith_sound (ps : List Str) (t : RT) : ∀ ctx, Normal t = true → startsWith ps t = true →
    Flat.startsWith ps (sem ctx t) = true ∨ (t = .str [] ∧ [] ∈ ps) := by
  induction t using RT.induct with
  | hstr s =>
    intro ctx _ h
    simp only [startsWith, List.any_eq_true] at h
    obtain ⟨p, hp, hps⟩ := h
    cases s with
    | nil =>
      right
      have : p = [] := by cases p <;> simp_all [List.isPrefixOf]
      subst this; exact ⟨rfl, hp⟩
    | cons c s =>
      left
      simp only [Flat.startsWith, List.any_eq_true]
      exact ⟨p, hp, startsWith1_str ctx p (c :: s) (by simp) hps⟩
  | hsym n => intro ctx _ h; simp [startsWith] at h
  | hnode k ps' ih =>
    intro ctx hn h
    left
    cases ps' with
    | nil => simp [startsWith, startsWithL] at h
    | cons p r =>
      simp only [startsWith, startsWithL] at h
      have hpOK := ((normal_node k (p :: r)).1 hn).1 p (by simp)
      rcases ih p (by simp) (ctx ++ k.markup) hpOK.2.2 h with h1 | ⟨h1, _⟩
      · simp only [Flat.startsWith, List.any_eq_true, sem, semL] at h1 ⊢
        obtain ⟨q, hq, hq2⟩ := h1
        exact ⟨q, hq, startsWith1_append q _ _ hq2⟩
      · subst h1; simp [PartOK, len] at hpOK

theorem hasWindow_append_left (p : Str) (A B : Flat) (h : Flat.hasWindow p A = true) :
    Flat.hasWindow p (A ++ B) = true := by
  induction A with
  | nil => simp [Flat.hasWindow] at h
  | cons x A ih =>
    simp only [Flat.hasWindow, List.cons_append, Bool.or_eq_true, Bool.and_eq_true, decide_eq_true_eq] at h ⊢
    rcases h with ⟨h1, h2⟩ | h
    · left
      refine ⟨by simp only [List.length_cons, List.length_append] at h1 ⊢; omega, ?_⟩
      have : ((x :: A) ++ B).take p.length = (x :: A).take p.length := List.take_append_of_le_length h1
      simp only [List.cons_append] at this
      rw [this]; exact h2
    · right; exact ih h

theorem hasWindow_append_right (p : Str) (A B : Flat) (h : Flat.hasWindow p B = true) :
    Flat.hasWindow p (A ++ B) = true := by
  induction A with
  | nil => simpa using h
  | cons x A ih => simp only [Flat.hasWindow, List.cons_append, Bool.or_eq_true]; right; exact ih

theorem hasWindow_str (ctx : List Markup) (item s : Str) (hi : item ≠ []) (h : isInfix item s = true) :
    Flat.hasWindow item (sem ctx (.str s)) = true := by
  induction s with
  | nil => cases item <;> simp_all [isInfix]
  | cons c s ih =>
    simp only [isInfix, Bool.or_eq_true] at h
    rcases h with h | h
    · have := startsWith1_str ctx item (c :: s) (by simp) h
      simp only [Flat.startsWith1, sem, List.map_cons, Bool.true_and, Bool.and_eq_true] at this
      simp only [sem, List.map_cons, Flat.hasWindow, Bool.or_eq_true, Bool.and_eq_true]
      left; exact this
    · have := ih h
      simp only [sem, List.map_cons, Flat.hasWindow, Bool.or_eq_true] at this ⊢
      right; exact this

theorem contains_sound (item : Str) (hi : item ≠ []) (t : RT) : ∀ ctx, contains item t = true →
    Flat.hasWindow item (sem ctx t) = true := by
  induction t using RT.induct with
  | hstr s => intro ctx h; exact hasWindow_str ctx item s hi h
  | hsym n => intro ctx h; simp [contains] at h
  | hnode k ps ih =>
    intro ctx h
    have hie : item.isEmpty = false := by cases item <;> simp_all
    simp only [contains, hie, Bool.false_or] at h
    simp only [sem]
    generalize ctx ++ k.markup = c
    induction ps with
    | nil => simp [containsL] at h
    | cons p ps ih2 =>
      simp only [containsL, Bool.or_eq_true] at h
      simp only [semL]
      rcases h with h | h
      · exact hasWindow_append_left _ _ _ (ih p (by simp) c h)
      · exact hasWindow_append_right _ _ _ (ih2 (fun q hq => ih q (by simp [hq])) h)


theorem isSuffixOf_iff_drop (p s : Str) :
    p.isSuffixOf s = true ↔ p.length ≤ s.length ∧ s.drop (s.length - p.length) = p := by
  simp only [List.isSuffixOf, isPrefixOf_iff_take, List.length_reverse]
  constructor
  · rintro ⟨h1, h2⟩
    refine ⟨h1, ?_⟩
    rw [List.take_reverse] at h2
    have := congrArg List.reverse h2
    simpa using this
  · rintro ⟨h1, h2⟩
    refine ⟨h1, ?_⟩
    rw [List.take_reverse, h2]

theorem endsWith1_str (ctx : List Markup) (p s : Str) (hs : s ≠ []) (h : p.isSuffixOf s = true) :
    Flat.endsWith1 p (sem ctx (.str s)) = true := by
  obtain ⟨h1, h2⟩ := (isSuffixOf_iff_drop p s).1 h
  have hlast : ∃ c, s.getLast? = some c := by
    cases hl : s.getLast? with
    | none => simp [List.getLast?_eq_none_iff] at hl; exact absurd hl hs
    | some c => exact ⟨c, rfl⟩
  obtain ⟨c, hc⟩ := hlast
  have hd : (sem ctx (.str s)).drop ((sem ctx (.str s)).length - p.length) = sem ctx (.str p) := by
    simp only [sem, List.length_map, ← List.map_drop, h2]
  simp only [Flat.endsWith1]
  have hg : (sem ctx (.str s)).getLast? = some (Atom.ch c, ctx) := by simp [sem, List.getLast?_map, hc]
  rw [hg]
  simp only [Bool.true_and, Bool.and_eq_true, decide_eq_true_eq]
  refine ⟨by simpa [sem] using h1, ?_⟩
  rw [hd]; exact spells_str ctx p

theorem endsWith1_append (p : Str) (A B : Flat) (h : Flat.endsWith1 p B = true) :
    Flat.endsWith1 p (A ++ B) = true := by
  have hB : B ≠ [] := by intro hb; subst hb; simp [Flat.endsWith1] at h
  simp only [Flat.endsWith1] at h ⊢
  rw [getLast?_append_of_ne_nil A B hB]
  cases hl : B.getLast? with
  | none => rw [hl] at h; simp at h
  | some x =>
    rw [hl] at h
    simp only [Bool.and_eq_true, decide_eq_true_eq, List.length_append] at h ⊢
    refine ⟨⟨h.1.1, by omega⟩, ?_⟩
    have : (A ++ B).drop (A.length + B.length - p.length) = B.drop (B.length - p.length) := by
      have e : A.length + B.length - p.length = A.length + (B.length - p.length) := by omega
      rw [e, List.drop_append]
      have : A.drop (A.length + (B.length - p.length)) = [] := List.drop_of_length_le (by omega)
      rw [this]; simp
    rw [this]; exact h.2

theorem endsWith_sound (ps : List Str) (t : RT) : ∀ ctx, Normal t = true → endsWith ps t = true →
    Flat.endsWith ps (sem ctx t) = true ∨ (t = .str [] ∧ [] ∈ ps) := by
  induction t using RT.induct with
  | hstr s =>
    intro ctx _ h
    simp only [endsWith, List.any_eq_true] at h
    obtain ⟨p, hp, hps⟩ := h
    cases s with
    | nil =>
      right
      have : p = [] := by
        have := ((isSuffixOf_iff_drop p []).1 hps).1
        cases p <;> simp_all
      subst this; exact ⟨rfl, hp⟩
    | cons c s =>
      left
      simp only [Flat.endsWith, List.any_eq_true]
      exact ⟨p, hp, endsWith1_str ctx p (c :: s) (by simp) hps⟩
  | hsym n => intro ctx _ h; simp [endsWith] at h
  | hnode k ps' ih =>
    intro ctx hn h
    left
    simp only [endsWith] at h
    simp only [sem]
    have hOK := ((normal_node k ps').1 hn).1
    generalize ctx ++ k.markup = c
    clear hn
    induction ps' with
    | nil => simp [endsWithL] at h
    | cons p r ih2 =>
      cases r with
      | nil =>
        simp only [endsWithL] at h
        rcases ih p (by simp) c (hOK p (by simp)).2.2 h with h1 | ⟨h1, _⟩
        · simpa [semL] using h1
        · subst h1; have := hOK (.str []) (by simp); simp [PartOK, len] at this
      | cons q r =>
        simp only [endsWithL] at h
        have := ih2 (fun x hx => ih x (by simp [hx])) h (fun x hx => hOK x (by simp [hx]))
        simp only [Flat.endsWith, List.any_eq_true] at this ⊢
        obtain ⟨s, hs, hs2⟩ := this
        refine ⟨s, hs, ?_⟩
        have e : semL c (p :: q :: r) = sem c p ++ semL c (q :: r) := rfl
        rw [e]
        exact endsWith1_append s _ _ hs2


/-! ### extra facts used by the property theorems -/

theorem mapCase_strSlice (f : Char → Char) (s : Flat) (i j : Option Int) :
    Flat.mapCase f (strSlice s i j) = strSlice (Flat.mapCase f s) i j := by
  simp only [Flat.mapCase]; exact strSlice_map _ s i j

theorem mapCase_isEmpty (f : Char → Char) (s : Flat) : (Flat.mapCase f s).isEmpty = s.isEmpty := by
  cases s <;> simp [Flat.mapCase]

theorem abs_caseMap_slice (f : Char → Char) (a : Abs) (i j : Option Int) :
    Abs.caseMap f (Abs.slice a i j) = Abs.slice (Abs.caseMap f a) i j := by
  have he : (Flat.slice (Flat.mapCase f a.atoms) i j).isEmpty = (Flat.slice a.atoms i j).isEmpty := by
    simp only [Flat.slice]; rw [← mapCase_strSlice, mapCase_isEmpty]
  have hs : Flat.mapCase f (Flat.slice a.atoms i j) = Flat.slice (Flat.mapCase f a.atoms) i j :=
    mapCase_strSlice f a.atoms i j
  simp only [Abs.caseMap, Abs.slice, he, hs]

theorem abs_caseMap_add (f : Char → Char) (a b : Abs) :
    Abs.caseMap f (Abs.add a b) = Abs.add (Abs.caseMap f a) (Abs.caseMap f b) := by
  simp [Abs.caseMap, Abs.add, mapCase_append]

theorem top_build (t : RT) : top (build t) = top t := by
  cases t <;> simp [build]

theorem abs_build (t : RT) : abs (build t) = abs t :=
  abs_ext (top_build t) (sem_build t [])

theorem joinWith_splitOnP {α : Type} (p : α → Bool) (x : α) (s : List α) :
    joinWith [x] (splitOnP p s) = s.map fun y => if p y then x else y := by
  induction s with
  | nil => simp [splitOnP, joinWith]
  | cons a s ih =>
    by_cases h : p a = true
    · rw [splitOnP_cons_true p a s h]
      cases hs : splitOnP p s with
      | nil => exact absurd hs (splitOnP_ne_nil p s)
      | cons seg segs =>
        rw [hs] at ih
        simp only [joinWith, List.nil_append, List.singleton_append, List.map_cons, h, if_true, ih]
    · have h' : p a = false := by simpa using h
      rw [splitOnP_cons_false p a s h']
      cases hs : splitOnP p s with
      | nil => exact absurd hs (splitOnP_ne_nil p s)
      | cons seg segs =>
        rw [hs] at ih
        cases segs with
        | nil => simp only [joinWith] at ih; simp [mapHead, joinWith, h', ih]
        | cons seg2 segs =>
          simp only [joinWith] at ih
          simp only [mapHead, joinWith, List.map_cons, h', Bool.false_eq_true, if_false, List.cons_append, ← ih]

end RT
end Pybtex
