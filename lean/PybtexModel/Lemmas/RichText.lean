/-
Lemmas about the rich-text model (`Model/RichText.lean`) and its reference semantics
(`Spec/RichText.lean`), used by `Props/C08.lean`.
-/
import PybtexModel.Spec.RichText

namespace Pybtex
namespace RT

/-- structural induction over rich-text trees -/
theorem induct {P : RT → Prop} (hstr : ∀ s, P (.str s)) (hsym : ∀ n, P (.sym n))
    (hnode : ∀ k ps, (∀ p ∈ ps, P p) → P (.node k ps)) : ∀ t, P t := by
  intro t
  exact RT.rec (motive_1 := P) (motive_2 := fun l => ∀ p ∈ l, P p) hstr hsym
    (fun k ps ih => hnode k ps ih)
    (by intro p hp; cases hp)
    (by
      intro hd tl h1 h2 p hp
      rcases List.mem_cons.1 hp with h | h
      · subst h; exact h1
      · exact h2 p h) t

/-! ### `sem` basics -/

theorem semL_append (ctx : List Markup) (a b : List RT) :
    semL ctx (a ++ b) = semL ctx a ++ semL ctx b := by
  induction a with
  | nil => simp [semL]
  | cons x a ih => simp [semL, ih]

theorem semL_eq_flatMap (ctx : List Markup) (l : List RT) : semL ctx l = l.flatMap (sem ctx) := by
  induction l with
  | nil => simp [semL]
  | cons x l ih => simp [semL, ih]

theorem semL_reverse_cons (ctx : List Markup) (p : RT) (l : List RT) :
    semL ctx (l ++ [p]) = semL ctx l ++ sem ctx p := by
  simp [semL_append, semL]

theorem sem_length (t : RT) : ∀ ctx, (sem ctx t).length = len t := by
  induction t using RT.induct with
  | hstr s => intro ctx; simp [sem, len]
  | hsym n => intro ctx; simp [sem, len]
  | hnode k ps ih =>
    intro ctx
    simp only [sem, len]
    generalize ctx ++ k.markup = c
    induction ps with
    | nil => simp [semL, lenL]
    | cons p ps ih2 =>
      simp only [semL, lenL, List.length_append]
      rw [ih p (by simp), ih2 (fun q hq => ih q (by simp [hq]))]

theorem semL_length (ctx : List Markup) (l : List RT) : (semL ctx l).length = lenL l := by
  induction l with
  | nil => simp [semL, lenL]
  | cons p ps ih => simp [semL, lenL, sem_length, ih]

theorem sem_nil_of_len (ctx : List Markup) (t : RT) (h : len t = 0) : sem ctx t = [] := by
  apply List.eq_nil_of_length_eq_zero; rw [sem_length]; exact h

/-- the markup context is a prefix of every stack: `sem ctx t` is `sem [] t` pushed inside `ctx` -/
theorem sem_ctx (t : RT) : ∀ ctx, sem ctx t = Flat.push ctx (sem [] t) := by
  induction t using RT.induct with
  | hstr s => intro ctx; simp [sem, Flat.push]
  | hsym n => intro ctx; simp [sem, Flat.push]
  | hnode k ps ih =>
    intro ctx
    simp only [sem, List.nil_append]
    have key : ∀ (c : List Markup) (l : List RT), (∀ p ∈ l, ∀ ctx, sem ctx p = Flat.push ctx (sem [] p)) →
        semL (ctx ++ c) l = Flat.push ctx (semL c l) := by
      intro c l hl
      induction l with
      | nil => simp [semL, Flat.push]
      | cons p l ih2 =>
        simp only [semL]
        rw [ih2 (fun q hq => hl q (by simp [hq])), hl p (by simp) (ctx ++ c), hl p (by simp) c]
        simp [Flat.push, List.append_assoc]
    exact key _ _ ih

theorem semL_ctx (ctx : List Markup) (l : List RT) : semL ctx l = Flat.push ctx (semL [] l) := by
  induction l with
  | nil => simp [semL, Flat.push]
  | cons p l ih => simp only [semL]; rw [ih, sem_ctx p ctx]; simp [Flat.push]


/-! ### the constructor preserves the denotation -/

theorem mem_takeWhile_true {α : Type} (f : α → Bool) (l : List α) : ∀ x ∈ l.takeWhile f, f x = true := by
  induction l with
  | nil => simp
  | cons a l ih =>
    intro x hx
    simp only [List.takeWhile] at hx
    split at hx
    · rcases List.mem_cons.1 hx with h | h
      · subst h; assumption
      · exact ih x h
    · cases hx

theorem sem_unpack (ctx : List Markup) (p : RT) : semL ctx (unpack p) = sem ctx p := by
  unfold unpack
  split
  · simp [sem, Kind.markup]
  · simp [semL]

theorem semL_prep (ctx : List Markup) (l : List RT) : semL ctx (prep l) = semL ctx l := by
  unfold prep
  induction l with
  | nil => simp [semL]
  | cons p l ih =>
    simp only [List.filter]
    split
    · simp only [List.flatMap_cons, semL_append, semL, ih, sem_unpack]
    · rename_i h
      have : len p = 0 := by simpa using h
      simp only [semL, ih, sem_nil_of_len ctx p this, List.nil_append]

theorem semL_strings (ctx : List Markup) (l : List RT) (h : ∀ q ∈ l, typeInfo q = .string) :
    sem ctx (.str (l.flatMap strValue)) = semL ctx l := by
  induction l with
  | nil => simp [sem, semL]
  | cons q l ih =>
    have hq := h q (by simp)
    cases q with
    | str s =>
      have := ih (fun r hr => h r (by simp [hr]))
      simp only [sem] at this
      simp [sem, semL, strValue, this]
    | sym n => simp [typeInfo] at hq
    | node k ps => simp [typeInfo] at hq

theorem semL_children (ctx : List Markup) (k : Kind) (l : List RT) (h : ∀ q ∈ l, typeInfo q = .multi k) :
    semL (ctx ++ k.markup) (l.flatMap children) = semL ctx l := by
  induction l with
  | nil => simp [semL]
  | cons q l ih =>
    have hq := h q (by simp)
    cases q with
    | str s => simp [typeInfo] at hq
    | sym n => simp [typeInfo] at hq
    | node k' ps =>
      simp only [typeInfo, TypeInfo.multi.injEq] at hq
      subst hq
      simp only [List.flatMap_cons, children, semL_append, semL, sem, ih (fun r hr => h r (by simp [hr]))]

theorem group_typeInfo (p : RT) (rest : List RT) (ti : TypeInfo) (h : typeInfo p = ti) :
    ∀ q ∈ p :: rest.takeWhile (similar p), typeInfo q = ti := by
  intro q hq
  rcases List.mem_cons.1 hq with h1 | h1
  · subst h1; exact h
  · have := mem_takeWhile_true _ _ q h1
    simp only [similar, beq_iff_eq] at this
    rw [this, h]

theorem semL_mergeSimilar (l : List RT) : ∀ ctx, semL ctx (mergeSimilar l) = semL ctx l := by
  fun_induction mergeSimilar l with
  | case1 => intro ctx; rfl
  | case2 p rest _ ih =>
    intro ctx
    conv => rhs; rw [← List.takeWhile_append_dropWhile (p := similar p) (l := rest)]
    simp only [List.cons_append, semL, semL_append, ih]
  | case3 p rest _ hg ih =>
    intro ctx
    have hnil : rest.takeWhile (similar p) = [] := by simpa using hg
    conv => rhs; rw [← List.takeWhile_append_dropWhile (p := similar p) (l := rest), hnil]
    simp only [List.nil_append, semL, ih]
  | case4 p rest hti _ ih =>
    intro ctx
    conv => rhs; rw [← List.takeWhile_append_dropWhile (p := similar p) (l := rest)]
    rw [← List.cons_append, semL_append, ← semL_strings ctx _ (group_typeInfo p rest _ hti)]
    simp only [semL, ih]
  | case5 p rest k _ hg ih =>
    intro ctx
    have hnil : rest.takeWhile (similar p) = [] := by simpa using hg
    conv => rhs; rw [← List.takeWhile_append_dropWhile (p := similar p) (l := rest), hnil]
    simp only [List.nil_append, semL, ih]
  | case6 p rest k hti _ ih2 ih1 =>
    intro ctx
    conv => rhs; rw [← List.takeWhile_append_dropWhile (p := similar p) (l := rest)]
    rw [← List.cons_append, semL_append, ← semL_children ctx k _ (group_typeInfo p rest _ hti)]
    simp only [semL, sem, ih1, ih2, semL_prep]

theorem semL_mkParts (ctx : List Markup) (l : List RT) : semL ctx (mkParts l) = semL ctx l := by
  simp [mkParts, semL_mergeSimilar, semL_prep]

/-- normalisation preserves the denotation -/
theorem sem_mk (ctx : List Markup) (k : Kind) (ps : List RT) : sem ctx (mk k ps) = sem ctx (.node k ps) := by
  simp [mk, sem, semL_mkParts]

theorem len_mk (k : Kind) (ps : List RT) : len (mk k ps) = lenL ps := by
  rw [← sem_length (mk k ps) [], sem_mk, sem_length]; rfl

theorem lenL_mkParts (ps : List RT) : lenL (mkParts ps) = lenL ps := by
  rw [← semL_length [], semL_mkParts, semL_length]

theorem sem_build (t : RT) : ∀ ctx, sem ctx (build t) = sem ctx t := by
  induction t using RT.induct with
  | hstr s => intro ctx; rfl
  | hsym n => intro ctx; rfl
  | hnode k ps ih =>
    intro ctx
    simp only [build, sem_mk, sem]
    generalize ctx ++ k.markup = c
    induction ps with
    | nil => rfl
    | cons p ps ih2 =>
      simp only [buildL, semL]
      rw [ih p (by simp), ih2 (fun q hq => ih q (by simp [hq]))]


/-! ### `+`, `append`, `join` -/

theorem sem_add (ctx : List Markup) (a b : RT) : sem ctx (add a b) = sem ctx a ++ sem ctx b := by
  simp [add, sem_mk, sem, semL, Kind.markup]

theorem sem_append_node (ctx : List Markup) (k : Kind) (ps : List RT) (x : RT) :
    sem ctx (append (.node k ps) x) = sem ctx (.node k ps) ++ sem (ctx ++ k.markup) x := by
  simp [append, sem_mk, sem, semL_append, semL]

theorem semL_joinedList (ctx : List Markup) (sep : RT) (parts : List RT) :
    semL ctx (joinedList sep parts) = joinWith (sem ctx sep) (parts.map (sem ctx)) := by
  induction parts with
  | nil => simp [joinedList, semL, joinWith]
  | cons p ps ih =>
    cases ps with
    | nil => simp [joinedList, semL, joinWith]
    | cons q r =>
      simp only [joinedList, semL, List.map_cons, joinWith] at ih ⊢
      rw [ih]; simp [List.append_assoc]

theorem sem_join (ctx : List Markup) (sep : RT) (parts : List RT) :
    sem ctx (join sep parts) = joinWith (sem ctx sep) (parts.map (sem ctx)) := by
  simp [join, sem_mk, sem, Kind.markup, semL_joinedList]

/-! ### `str`, rendering -/

theorem toStr_sem (t : RT) : ∀ ctx, Flat.toStr (sem ctx t) = toStr t := by
  induction t using RT.induct with
  | hstr s =>
    intro ctx
    simp only [sem, toStr, Flat.toStr]
    induction s with
    | nil => rfl
    | cons c s ih =>
      simp only [List.map_cons, List.flatMap_cons, List.singleton_append]
      exact congrArg _ ih
  | hsym n => intro ctx; simp [sem, toStr, Flat.toStr]
  | hnode k ps ih =>
    intro ctx
    simp only [sem, toStr]
    generalize ctx ++ k.markup = c
    induction ps with
    | nil => rfl
    | cons p ps ih2 =>
      simp only [semL, toStrL]
      rw [← ih p (by simp) c, ← ih2 (fun q hq => ih q (by simp [hq]))]
      simp [Flat.toStr]

theorem push_push (a b : List Markup) (s : Flat) : Flat.push a (Flat.push b s) = Flat.push (a ++ b) s := by
  simp [Flat.push, List.append_assoc]

theorem push_nil (s : Flat) : Flat.push [] s = s := by
  simp [Flat.push]

theorem push_append (m : List Markup) (a b : Flat) : Flat.push m (a ++ b) = Flat.push m a ++ Flat.push m b := by
  simp [Flat.push]

theorem render_trace (t : RT) : render traceBackend t = some (sem [] t) := by
  induction t using RT.induct with
  | hstr s => simp [render, traceBackend, sem]
  | hsym n => simp [render, traceBackend, sem]
  | hnode k ps ih =>
    have hl : renderL traceBackend ps = some (ps.map (sem [])) := by
      induction ps with
      | nil => rfl
      | cons p ps ih2 =>
        simp only [renderL, ih p (by simp), ih2 (fun q hq => ih q (by simp [hq])), List.map_cons]
    have hf : (ps.map (sem [])).flatten = semL [] ps := by
      rw [semL_eq_flatMap, List.flatMap_def]
    simp only [render, hl, sem, List.nil_append]
    cases k with
    | text => simp [traceBackend, hf, Kind.markup]
    | tag n => simp only [traceBackend, hf, Kind.markup]; rw [semL_ctx [Markup.tag n]]
    | href u e => simp only [traceBackend, hf, Kind.markup]; rw [semL_ctx [Markup.href u e]]
    | prot => simp only [traceBackend, hf, Kind.markup]; rw [semL_ctx [Markup.prot]]

/-! ### `==` is structural equality -/

theorem eq_iff (a : RT) : ∀ b, eq a b = true ↔ a = b := by
  induction a using RT.induct with
  | hstr s => intro b; cases b <;> simp [eq]
  | hsym n => intro b; cases b <;> simp [eq]
  | hnode k ps ih =>
    intro b
    cases b with
    | str s => simp [eq]
    | sym n => simp [eq]
    | node k' qs =>
      simp only [eq, Bool.and_eq_true, beq_iff_eq, node.injEq]
      have : ∀ qs, eqL ps qs = true ↔ ps = qs := by
        induction ps with
        | nil => intro qs; cases qs <;> simp [eqL]
        | cons p ps ih2 =>
          intro qs
          cases qs with
          | nil => simp [eqL]
          | cons q qs =>
            simp only [eqL, Bool.and_eq_true, List.cons.injEq]
            rw [ih p (by simp) q, ih2 (fun r hr => ih r (by simp [hr])) qs]
      rw [this qs]

end RT
end Pybtex
