/-
Helper lemmas for `Model/ErrorSources.lean` (property C16): the exits of the reader models of
C10 / C15 / C20 are values of the error channel, built on the totality lemmas of those models
(`Lemmas/BibTotal.lean`, `Lemmas/BstFuel.lean`, `Lemmas/AuxFile.lean`).
-/
import PybtexModel.Model.ErrorSources
import PybtexModel.Lemmas.BibTotal
import PybtexModel.Lemmas.BstFuel
import PybtexModel.Lemmas.AuxFile
import PybtexModel.Lemmas.Errors

namespace Pybtex.Errors

/-! ### `.bib` reader -/

/-- every problem of the reader model other than the model-only `internal` is an exception object
of one of the eight classes the reader uses -/
theorem ofBib_some (fn : Option Str) (ctx : CtxInfo) (e : Bib.Err) (h : e.kind ≠ .internal) :
    ∃ x, ofBib fn ctx e = some x ∧ x.className ∈ bibClasses := by
  unfold ofBib
  cases hk : e.kind with
  | internal => exact absurd hk h
  | _ => exact ⟨_, rfl, by simp [Err.className, SyntaxClass.name, PlainClass.name, bibClasses]⟩

/-- class and `str(error)` do not depend on what the reader model does not track -/
theorem ofBib_view (fn fn' : Option Str) (ctx ctx' : CtxInfo) (e : Bib.Err) :
    (ofBib fn ctx e).map (fun x => (x.className, x.str)) =
    (ofBib fn' ctx' e).map (fun x => (x.className, x.str)) := by
  cases e with
  | mk kind line => cases kind <;> rfl

theorem filterMap_all_some {α β : Type} (f : α → Option β) (l : List α)
    (h : ∀ a ∈ l, ∃ b, f a = some b) : (l.filterMap f).length = l.length := by
  induction l with
  | nil => rfl
  | cons a l ih =>
    obtain ⟨b, hb⟩ := h a (by simp)
    simp [hb, ih (fun a ha => h a (by simp [ha]))]

/-- no problem the reader model reports or raises is `internal` (from `parseBib_good`) -/
theorem parseBib_noInternal (text : Str) (strict : Bool) (wanted : Option (List Str))
    (macros0 : List (Str × Str)) (roles : List Str) :
    (∀ e ∈ (Bib.parseBib text strict wanted macros0 roles).1.errs, e.kind ≠ .internal) ∧
    (∀ e, (Bib.parseBib text strict wanted macros0 roles).2 = some e → e.kind ≠ .internal) := by
  obtain ⟨hI, _, hE, _⟩ := Bib.parseBib_good text strict wanted macros0 roles
  exact ⟨fun e he => (hI.2.2 e he).1, fun e he => (hE e he).1⟩

/-- the reader model's own strict run raises what the abstract computation says strict mode raises -/
theorem bibStrictRaised_eq (fn : Option Str) (ctx : CtxInfo) (text : Str) (wanted : Option (List Str))
    (macros0 : List (Str × Str)) (roles : List Str) :
    bibStrictRaised fn ctx text wanted macros0 roles =
      (Spec.modes (bibComp fn ctx text wanted macros0 roles)).strictRaises := by
  obtain ⟨_, h2⟩ := Bib.parseBib_sim text wanted macros0 roles
  have h0 : (Bib.initSt text false wanted macros0 roles).errs = [] := rfl
  rw [h0] at h2
  unfold bibStrictRaised bibComp Spec.modes
  rcases h2 with ⟨herr, hr⟩ | ⟨e, tl, s', herr, hr⟩
  · rw [hr]
    simp [herr]
  · simp only [List.nil_append] at herr
    rw [hr]
    have hne := (parseBib_noInternal text false wanted macros0 roles).1 e (by rw [herr]; simp)
    obtain ⟨x, hx, _⟩ := ofBib_some fn ctx e hne
    simp [herr, hx]

/-! ### `.bst` parser -/

theorem ofBst_some (fn : Option Str) (ctx : CtxInfo) (e : Scanner.Err) (h1 : e ≠ .outOfFuel) (h2 : e ≠ .eof) :
    ∃ x, ofBst fn ctx e = some x ∧ x.className ∈ bstClasses := by
  cases e with
  | eof => exact absurd rfl h2
  | outOfFuel => exact absurd rfl h1
  | prematureEOF l => exact ⟨_, rfl, by simp [Err.className, SyntaxClass.name, bstClasses]⟩
  | tokenRequired d l => exact ⟨_, rfl, by simp [Err.className, bstClasses]⟩
  | syntaxError m l => exact ⟨_, rfl, by simp [Err.className, SyntaxClass.name, bstClasses]⟩

theorem bstParse_error (entry : BstEntry) (src : Str) (e : Scanner.Err) (h : bstParse entry src = .error e) :
    e ≠ .outOfFuel ∧ e ≠ .eof := by
  cases entry with
  | string => exact Bst.parseText_fuel _ e h
  | stream => exact Bst.parseText_fuel _ e h
  | file => exact Bst.parseText_fuel _ e h

/-- the lazily parsed prefix is the parse of `Bst.parseF`: the same program when the text parses,
the same error otherwise -/
theorem parseF_eq_prefix : ∀ (n : Nat) (st : Scanner.St),
    Bst.parseF n st = (match bstPrefixF n st with
      | (p, none) => .ok p
      | (_, some e) => .error e) := by
  intro n
  induction n with
  | zero => intro st; rfl
  | succ n ih =>
    intro st
    unfold Bst.parseF bstPrefixF
    cases hpc : Bst.parseCommand st with
    | error e => cases e <;> rfl
    | ok x =>
      obtain ⟨c, st1⟩ := x
      simp only [ih st1]
      cases h : bstPrefixF n st1 with
      | mk p oe => cases oe <;> rfl

theorem parseFile_eq_prefix (src : Str) :
    Bst.parseFile src = (match bstFilePrefix src with
      | (p, none) => .ok p
      | (_, some e) => .error e) := by
  unfold bstFilePrefix
  rw [← parseF_eq_prefix]
  rfl

/-! ### `.aux` reader -/

theorem ofAux_str (r : Aux.Report) : (ofAux r).str = r.str := by
  cases r with
  | mk kind file lineno line =>
    cases lineno with
    | none => rfl
    | some n => cases n <;> rfl

theorem ofAux_context (r : Aux.Report) : (ofAux r).getContext = .ok r.getContext := by
  cases r with
  | mk kind file lineno line =>
    cases line with
    | none => rfl
    | some l => cases l <;> rfl

theorem ofAuxFatal_some (f : Aux.Fatal) (h1 : f ≠ .outOfFuel) (h2 : f ≠ .attributeError) :
    ∃ x, ofAuxFatal f = some x ∧ x.className ∈ auxClasses := by
  cases f with
  | aux e => exact ⟨_, rfl, by simp [ofAux, Err.className, auxClasses]⟩
  | cannotOpen p => exact ⟨_, rfl, by simp [Err.className, PlainClass.name, auxClasses]⟩
  | outOfFuel => exact absurd rfl h1
  | attributeError => exact absurd rfl h2

/-! ### context managers left in any order -/

theorem fstep_toFree {E : Type} (c : Config E) (op : Op E) : fstep c op.toFree = step c op := by
  cases op with
  | setStrict b => rfl
  | enter => rfl
  | report e => rfl
  | exit => cases c with | mk st saved => cases saved <;> rfl
  | abort => cases c with | mk st saved => cases saved <;> rfl

theorem frun_toFree {E : Type} (ops : List (Op E)) (c : Config E) :
    frun c (ops.map Op.toFree) = run c ops := by
  induction ops generalizing c with
  | nil => rfl
  | cons op ops ih => simp [frun, run, fstep_toFree, ih]

/-! ### command lines -/

/-- what `parse_args` does to the module state for accepted options -/
theorem applyOpts_accepted {E : Type} (perr : E) : ∀ (opts : List CliOpt) (t : State E),
    (∀ o ∈ opts, o = .strict ∨ o = .other) →
    applyOpts perr t opts = ({ t with strict := (if CliOpt.strict ∈ opts then true else t.strict) }, none) := by
  intro opts
  induction opts with
  | nil => intro t _; simp [applyOpts]
  | cons o os ih =>
    intro t h
    have hos : ∀ o ∈ os, o = .strict ∨ o = .other := fun o ho => h o (by simp [ho])
    rcases h o (by simp) with rfl | rfl
    · rw [applyOpts, ih _ hos]; simp [setStrict]
    · rw [applyOpts, ih _ hos]; simp

end Pybtex.Errors
