/-
Lemmas for the LaTeX (and token-level Markdown) part of C09:
* brace depth (`Spec.depthAfter`) of concatenations;
* the token reader `Spec.RTok.run` and the relation `RTok.Reads` it satisfies on token-level renderings;
* `RTok.flatten` maps the token-level backends onto the string backends;
* the modelled ASCII part of the latexcodec encoder (`Latex.latexcodecEncode`) keeps brace depth, erases nothing,
  and is the identity on the characters outside its table.
-/
import PybtexModel.Lemmas.BackendsMd

namespace Pybtex
open RT Backends Spec

/-! ### brace depth -/
namespace Spec.Tex

theorem depthAfter_app (a b : Str) : ∀ d, depthAfter d (a ++ b) = (depthAfter d a).bind fun e => depthAfter e b := by
  induction a with
  | nil => intro d; rfl
  | cons c a ih =>
    intro d
    simp only [List.cons_append, depthAfter]
    split
    · exact ih _
    · split
      · split
        · rfl
        · exact ih _
      · exact ih _

theorem depthAfter_shift (w : Str) : ∀ d e k, depthAfter d w = some e → depthAfter (d + k) w = some (e + k) := by
  induction w with
  | nil => intro d e k h; simp only [depthAfter, Option.some.injEq] at h ⊢; omega
  | cons c w ih =>
    intro d e k h
    simp only [depthAfter] at h ⊢
    split
    · rename_i hc
      simp only [hc, if_true] at h
      have := ih (d + 1) e k h
      rwa [show d + 1 + k = d + k + 1 by omega] at this
    · rename_i hc
      simp only [hc, if_false] at h
      split
      · rename_i hc2
        simp only [hc2, if_true] at h
        split at h
        · cases h
        · rename_i hd
          have h0 : ¬ (d + k = 0) := by omega
          simp only [h0, if_false]
          have := ih (d - 1) e k h
          rwa [show d - 1 + k = d + k - 1 by omega] at this
      · rename_i hc2
        simp only [hc2, if_false] at h
        exact ih d e k h

/-- a brace-balanced string leaves every depth unchanged -/
theorem depthAfter_balanced {w : Str} (h : balanced w = true) (d : Nat) : depthAfter d w = some d := by
  have h0 : depthAfter 0 w = some 0 := by simpa [balanced] using h
  simpa using depthAfter_shift w 0 0 d h0

theorem depthAfter_braceFree {w : Str} (h : braceFree w = true) (d : Nat) : depthAfter d w = some d := by
  induction w with
  | nil => rfl
  | cons c w ih =>
    simp only [braceFree, List.all_cons, Bool.and_eq_true, bne_iff_ne] at h
    simp only [depthAfter, h.1.1, h.1.2, if_false]
    exact ih (by simpa [braceFree] using h.2)

theorem depthAfter_open (d : Nat) : depthAfter d ['{'] = some (d + 1) := by simp [depthAfter]
theorem depthAfter_close (d : Nat) : depthAfter (d + 1) ['}'] = some d := by simp [depthAfter]

/-- `pre{` … `}` around something that keeps the depth keeps the depth (`pre` brace-free) -/
theorem depthAfter_group (pre x : Str) (hp : braceFree pre = true) (hx : ∀ d, depthAfter d x = some d) (d : Nat) :
    depthAfter d (pre ++ ['{'] ++ x ++ ['}']) = some d := by
  rw [depthAfter_app, depthAfter_app, depthAfter_app, depthAfter_braceFree hp]
  simp only [Option.bind_some, depthAfter_open, hx, depthAfter_close]

end Spec.Tex

/-! ### the token reader -/
namespace Spec.RTok

theorem run_append (a b : List RTok) : ∀ st, run st (a ++ b) = (run st a).bind fun st' => run st' b := by
  induction a with
  | nil => intro st; rfl
  | cons t a ih =>
    intro st
    simp only [List.cons_append, run]
    cases step st t with
    | none => rfl
    | some st' => exact ih st'

theorem flatten_append (a b : List RTok) : flatten (a ++ b) = flatten a ++ flatten b := by
  simp [flatten]

theorem flatten_cons (t : RTok) (a : List RTok) : flatten (t :: a) = t.out ++ flatten a := by
  simp [flatten]

theorem flatten_nil : flatten [] = [] := rfl

theorem flatten_flatten (l : List (List RTok)) : flatten l.flatten = (l.map flatten).flatten := by
  induction l with
  | nil => rfl
  | cons x l ih => simp [flatten_append, ih]

theorem flatten_mute (l : List RTok) : flatten (l.map mute) = [] := by
  induction l with
  | nil => rfl
  | cons t l ih => cases t <;> simp [flatten_cons, mute, out, ih]

theorem step_mute (st : RSt) (t : RTok) : step st (mute t) = step st t := by
  cases t <;> rfl

theorem run_mute (l : List RTok) : ∀ st, run st (l.map mute) = run st l := by
  induction l with
  | nil => intro st; rfl
  | cons t l ih =>
    intro st
    simp only [List.map_cons, run, step_mute]
    cases step st t with
    | none => rfl
    | some st' => exact ih st'

/-- the token sequence `x` is well nested, encloses exactly the atoms of `f` in their markup, and emits
something unless `f` is empty -/
def Reads (f : Flat) (x : List RTok) : Prop :=
  (flatten x = [] → f = []) ∧ ∀ (stk : List Markup) (o : Flat), run (stk, o) x = some (stk, o ++ Flat.push stk f)

theorem reads_nil : Reads [] [] := ⟨fun _ => rfl, fun stk o => by simp [run, Flat.push]⟩

theorem reads_str (s out : Str) (h : out = [] → s = []) :
    Reads (s.map fun c => (Atom.ch c, [])) [.str s out] := by
  refine ⟨fun hf => ?_, fun stk o => ?_⟩
  · have : s = [] := h (by simpa [flatten, RTok.out] using hf)
    subst this; rfl
  · simp [run, step, Flat.push, List.map_map, Function.comp_def]

theorem reads_sym (n out : Str) (h : out ≠ []) : Reads [(Atom.sym n, [])] [.sym n out] := by
  refine ⟨fun hf => ?_, fun stk o => ?_⟩
  · exact absurd (by simpa [flatten, RTok.out] using hf) h
  · simp [run, step, Flat.push]

theorem reads_seq (fs : List Flat) (xs : List (List RTok)) (h : All₂ Reads fs xs) : Reads fs.flatten xs.flatten := by
  induction h with
  | nil => exact reads_nil
  | @cons f x fs xs hfx _ ih =>
    refine ⟨fun hf => ?_, fun stk o => ?_⟩
    · simp only [List.flatten_cons, flatten_append, List.append_eq_nil_iff] at hf
      simp only [List.flatten_cons, hfx.1 hf.1, ih.1 hf.2, List.append_nil]
    · simp only [List.flatten_cons]
      rw [run_append, hfx.2]
      simp only [Option.bind_some]
      rw [ih.2]
      simp [Flat.push, List.append_assoc]

theorem push_eq_nil (m : List Markup) (f : Flat) : Flat.push m f = [] ↔ f = [] := by
  simp [Flat.push]

/-- opening and closing tokens around a token sequence -/
theorem reads_wrap (m : Markup) (o c : Str) (f : Flat) (x : List RTok) (h : Reads f x) :
    Reads (Flat.push [m] f) ([.opn m o] ++ x ++ [.cls m c]) := by
  refine ⟨fun hf => ?_, fun stk acc => ?_⟩
  · simp only [flatten_append, List.append_eq_nil_iff] at hf
    rw [h.1 hf.1.2]; rfl
  · rw [run_append, run_append]
    simp only [run, step, Option.bind_some]
    rw [h.2]
    simp only [Option.bind_some, List.getLast?_append, List.getLast?_singleton, Option.some_or, if_true,
      List.dropLast_concat]
    rw [← push_push]

/-- the `\url{…}` form: the text tokens muted, the verbatim URL as a `lit` token -/
theorem reads_url (m : Markup) (o c u : Str) (ho : o ≠ []) (f : Flat) (x : List RTok) (h : Reads f x) :
    Reads (Flat.push [m] f) ([.opn m o] ++ x.map mute ++ [.lit u, .cls m c]) := by
  refine ⟨fun hf => ?_, fun stk acc => ?_⟩
  · simp only [flatten_append, flatten_cons, RTok.out, List.append_eq_nil_iff] at hf
    exact absurd hf.1.1.1 ho
  · rw [run_append, run_append]
    simp only [run, step, Option.bind_some]
    rw [run_mute, h.2]
    simp only [Option.bind_some, List.getLast?_append, List.getLast?_singleton, Option.some_or, if_true,
      List.dropLast_concat]
    rw [← push_push]

theorem reads_empty_push (m : Markup) (f : Flat) (x : List RTok) (h : Reads f x) (hx : flatten x = []) :
    Reads (Flat.push [m] f) [] := by
  rw [h.1 hx]; exact reads_nil

theorem read_of_reads {f : Flat} {x : List RTok} (h : Reads f x) : read x = some f := by
  simp [read, h.2, Flat.push]

end Spec.RTok

/-! ### the token-level backends -/
namespace Spec

open RTok

-- the escaping function is a fold over a 15-element table: keep the unifier from unfolding it
attribute [local irreducible] Backends.Markdown.formatStr

theorem isEmpty_eq_false_of_ne {α : Type} {l : List α} (h : l ≠ []) : l.isEmpty = false := by
  cases l with
  | nil => exact absurd rfl h
  | cons => rfl

/-- `RTok.flatten` maps the token-level LaTeX backend onto the LaTeX backend -/
theorem latexTok_flatten (encode : Str → Str) (t : RT) :
    (render (latexTok encode) t).map RTok.flatten = render (latex encode) t := by
  apply render_map (latexTok encode) (latex encode) RTok.flatten
  · intro s
    show flatten [RTok.str s (encode s)] = encode s
    simp [flatten, RTok.out]
  · intro n
    show ((Gen.latexSymbols.lookup n).map fun o => [RTok.sym n o]).map flatten = Gen.latexSymbols.lookup n
    cases Gen.latexSymbols.lookup n <;> simp [flatten, RTok.out]
  · intro l; exact flatten_flatten l
  · intro n x
    show flatten (if (flatten x).isEmpty then []
        else [RTok.opn (.tag n) (latexTagOpen n)] ++ x ++ [RTok.cls (.tag n) ['}']]) = Latex.formatTag n (flatten x)
    unfold Latex.formatTag latexTagOpen
    by_cases hx : flatten x = []
    · simp only [hx, List.isEmpty_nil, if_true]
      cases Gen.latexTags.lookup n with
      | none => rfl
      | some o => cases o <;> rfl
    · simp only [isEmpty_eq_false_of_ne hx, Bool.false_eq_true, if_false]
      cases Gen.latexTags.lookup n with
      | none => simp [flatten_append, flatten_cons, RTok.out, flatten_nil]
      | some o => cases o <;> simp [flatten_append, flatten_cons, RTok.out, flatten_nil]
  · intro u e x
    show flatten (if (flatten x).isEmpty then []
        else if flatten x = encode u then
          [RTok.opn (.href u e) "\\url{".toList] ++ x.map RTok.mute ++ [RTok.lit u, RTok.cls (.href u e) ['}']]
        else
          [RTok.opn (.href u e) ("\\href".toList ++ (if e then "[pdfnewwindow]".toList else []) ++ ['{'] ++ u ++ "}{".toList)]
            ++ x ++ [RTok.cls (.href u e) ['}']]) = Latex.formatHref encode u (flatten x) e
    unfold Latex.formatHref Latex.formatStr
    generalize "\\url{".toList = A
    generalize "\\href".toList = B
    generalize "[pdfnewwindow]".toList = C
    generalize "}{".toList = D
    by_cases hx : flatten x = []
    · simp only [hx, List.isEmpty_nil, if_true, flatten_nil]
    · simp only [isEmpty_eq_false_of_ne hx, Bool.false_eq_true, if_false]
      by_cases hu : flatten x = encode u
      · simp only [hu, if_true]
        simp only [flatten_append, flatten_cons, flatten_mute, RTok.out, flatten_nil, List.append_nil,
          List.append_assoc, List.nil_append]
      · simp only [hu, if_false]
        simp only [flatten_append, flatten_cons, RTok.out, flatten_nil, List.append_nil, List.append_assoc]
  · intro x
    show flatten ([RTok.opn .prot ['{']] ++ x ++ [RTok.cls .prot ['}']]) = Latex.formatProtected (flatten x)
    simp [Latex.formatProtected, flatten_append, flatten_cons, RTok.out, flatten_nil]

theorem flatten_str (s o : Str) : flatten [RTok.str s o] = o := by simp [flatten, RTok.out]

theorem mdTok_tag (n : Str) (x : List RTok) :
    flatten (markdownTok.formatTag n x) = Markdown.formatTag n (flatten x) := by
  show flatten (if (flatten x).isEmpty then []
      else [RTok.opn (.tag n) (mdTagWrap n).1] ++ x ++ [RTok.cls (.tag n) (mdTagWrap n).2])
    = Markdown.formatTag n (flatten x)
  unfold Markdown.formatTag mdTagWrap
  generalize "</".toList = A
  by_cases hx : flatten x = []
  · simp only [hx, List.isEmpty_nil, if_true]
    cases Gen.mdTags.lookup n <;> rfl
  · simp only [isEmpty_eq_false_of_ne hx, Bool.false_eq_true, if_false]
    cases Gen.mdTags.lookup n <;>
      simp only [flatten_append, flatten_cons, RTok.out, flatten_nil, List.append_nil, List.append_assoc]

theorem mdTok_href (u : Str) (e : Bool) (x : List RTok) :
    flatten (markdownTok.formatHref u x e) = Markdown.formatHref u (flatten x) e := by
  show flatten (if (flatten x).isEmpty then []
      else if e then
        [RTok.opn (.href u e) ("<a href=\"".toList ++ u ++ ['"'] ++ " target=\"_blank\"".toList ++ ['>'])]
          ++ x ++ [RTok.cls (.href u e) "</a>".toList]
      else [RTok.opn (.href u e) ['[']] ++ x ++ [RTok.cls (.href u e) ("](".toList ++ u ++ [')'])])
    = Markdown.formatHref u (flatten x) e
  unfold Markdown.formatHref Html.formatHref
  generalize "<a href=\"".toList = A
  generalize " target=\"_blank\"".toList = B
  generalize "</a>".toList = C
  generalize "](".toList = D
  by_cases hx : flatten x = []
  · simp only [hx, List.isEmpty_nil, if_true, flatten_nil]
  · simp only [isEmpty_eq_false_of_ne hx, Bool.false_eq_true, if_false]
    cases e
    · simp only [Bool.false_eq_true, if_false, flatten_append, flatten_cons, RTok.out, flatten_nil,
        List.append_nil, List.append_assoc, List.cons_append, List.nil_append]
    · simp only [if_true, flatten_append, flatten_cons, RTok.out, flatten_nil, List.append_nil,
        List.append_assoc]

/-- `RTok.flatten` maps the token-level Markdown backend onto the Markdown backend -/
theorem markdownTok_flatten (t : RT) : (render markdownTok t).map RTok.flatten = render markdown t := by
  apply render_map markdownTok markdown RTok.flatten
  · intro s; exact flatten_str s _
  · intro n
    show ((Gen.mdSymbols.lookup n).map fun o => [RTok.sym n o]).map flatten = Gen.mdSymbols.lookup n
    cases Gen.mdSymbols.lookup n <;> simp [flatten, RTok.out]
  · intro l; exact flatten_flatten l
  · exact mdTok_tag
  · intro u e x; exact mdTok_href u e x
  · intro x
    show flatten ([RTok.opn .prot []] ++ x ++ [RTok.cls .prot []]) = flatten x
    simp [flatten_append, flatten_cons, RTok.out, flatten_nil]

/-- every symbol of the table renders to something -/
def symsNonempty (tbl : List (Str × Str)) : Bool := tbl.all fun p => !p.2.isEmpty

theorem lookup_nonempty {tbl : List (Str × Str)} (h : symsNonempty tbl = true) {n o : Str}
    (hl : tbl.lookup n = some o) : o ≠ [] := by
  have := List.all_eq_true.1 h (n, o) (lookup_mem hl)
  intro e; subst e; simp at this

/-- **LaTeX, token level: the markup tokens are well nested and enclose exactly their atoms** -/
theorem latexTok_reads (encode : Str → Str) (hne : ∀ s, encode s = [] → s = [])
    (hsy : symsNonempty Gen.latexSymbols = true) (t : RT) (toks : List RTok)
    (h : render (latexTok encode) t = some toks) : RTok.Reads (sem [] t) toks := by
  refine render_rel' (latexTok encode) RTok.Reads ?_ ?_ ?_ ?_ ?_ ?_ t toks h
  · intro s; exact reads_str s (encode s) (hne s)
  · intro n r hr
    simp only [latexTok] at hr
    cases hl : Gen.latexSymbols.lookup n with
    | none => simp [hl] at hr
    | some o =>
      simp only [hl, Option.map_some, Option.some.injEq] at hr
      subst hr
      exact reads_sym n o (lookup_nonempty hsy hl)
  · intro fs xs hall; exact reads_seq fs xs hall
  · intro n f x hfx
    show RTok.Reads _ (if (flatten x).isEmpty then [] else _)
    by_cases hx : flatten x = []
    · simp only [hx, List.isEmpty_nil, if_true]; exact reads_empty_push _ f x hfx hx
    · simp only [isEmpty_eq_false_of_ne hx, Bool.false_eq_true, if_false]
      exact reads_wrap _ _ _ f x hfx
  · intro u e f x hfx
    show RTok.Reads _ (if (flatten x).isEmpty then [] else if flatten x = encode u then _ else _)
    by_cases hx : flatten x = []
    · simp only [hx, List.isEmpty_nil, if_true]; exact reads_empty_push _ f x hfx hx
    · simp only [isEmpty_eq_false_of_ne hx, Bool.false_eq_true, if_false]
      split
      · exact reads_url _ _ _ u (by decide) f x hfx
      · exact reads_wrap _ _ _ f x hfx
  · intro f x hfx
    exact reads_wrap _ _ _ f x hfx

/-- the same for Markdown -/
theorem markdownTok_reads (hne : ∀ s, Markdown.formatStr s = [] → s = [])
    (hsy : symsNonempty Gen.mdSymbols = true) (t : RT) (toks : List RTok)
    (h : render markdownTok t = some toks) : RTok.Reads (sem [] t) toks := by
  refine render_rel' markdownTok RTok.Reads ?_ ?_ ?_ ?_ ?_ ?_ t toks h
  · intro s; exact reads_str s _ (hne s)
  · intro n r hr
    simp only [markdownTok] at hr
    cases hl : Gen.mdSymbols.lookup n with
    | none => simp [hl] at hr
    | some o =>
      simp only [hl, Option.map_some, Option.some.injEq] at hr
      subst hr
      exact reads_sym n o (lookup_nonempty hsy hl)
  · intro fs xs hall; exact reads_seq fs xs hall
  · intro n f x hfx
    show RTok.Reads _ (if (flatten x).isEmpty then [] else _)
    by_cases hx : flatten x = []
    · simp only [hx, List.isEmpty_nil, if_true]; exact reads_empty_push _ f x hfx hx
    · simp only [isEmpty_eq_false_of_ne hx, Bool.false_eq_true, if_false]
      exact reads_wrap _ _ _ f x hfx
  · intro u e f x hfx
    show RTok.Reads _ (if (flatten x).isEmpty then [] else if e = true then _ else _)
    by_cases hx : flatten x = []
    · simp only [hx, List.isEmpty_nil, if_true]; exact reads_empty_push _ f x hfx hx
    · simp only [isEmpty_eq_false_of_ne hx, Bool.false_eq_true, if_false]
      split
      · exact reads_wrap _ _ _ f x hfx
      · exact reads_wrap _ _ _ f x hfx
  · intro f x hfx
    exact reads_wrap _ _ _ f x hfx

/-- every `String` token of a token-level Markdown rendering carries the escaped string -/
def strToksOK (g : Str → Str) (x : List RTok) : Prop := ∀ s o, RTok.str s o ∈ x → o = g s

theorem markdownTok_strs (t : RT) (toks : List RTok) (h : render markdownTok t = some toks) :
    strToksOK Markdown.formatStr toks := by
  refine render_rel' markdownTok (fun _ x => strToksOK Markdown.formatStr x) ?_ ?_ ?_ ?_ ?_ ?_ t toks h
  · intro s s' o hm
    simp only [markdownTok, List.mem_singleton, RTok.str.injEq] at hm
    rw [hm.1, hm.2]
  · intro n r hr s o hm
    simp only [markdownTok] at hr
    cases hl : Gen.mdSymbols.lookup n with
    | none => simp [hl] at hr
    | some w =>
      simp only [hl, Option.map_some, Option.some.injEq] at hr
      subst hr
      simp at hm
  · intro fs xs hall
    show strToksOK _ (List.flatten xs)
    induction hall with
    | nil => intro s o hm; cases hm
    | cons hfx _ ih =>
      intro s o hm
      simp only [List.flatten_cons, List.mem_append] at hm
      rcases hm with hm | hm
      · exact hfx s o hm
      · exact ih s o hm
  · intro n f x hfx s o hm
    simp only [markdownTok] at hm
    split at hm
    · cases hm
    · simp only [List.mem_append, List.mem_cons, List.not_mem_nil, or_false,
        reduceCtorEq, false_or] at hm
      exact hfx s o hm
  · intro u e f x hfx s o hm
    simp only [markdownTok] at hm
    split at hm
    · cases hm
    · split at hm <;>
      · simp only [List.mem_append, List.mem_cons, List.not_mem_nil, or_false,
          reduceCtorEq, false_or] at hm
        exact hfx s o hm
  · intro f x hfx s o hm
    simp only [markdownTok, List.mem_append, List.mem_cons, List.not_mem_nil, or_false,
      reduceCtorEq, false_or] at hm
    exact hfx s o hm

end Spec

/-! ### string-level brace balance of the LaTeX backend -/
namespace Spec.Tex

/-- the LaTeX tables contain no stray brace: symbols are balanced, command names brace-free -/
def latexTablesOK : Bool :=
  (Gen.latexSymbols.all fun p => balanced p.2) &&
    Gen.latexTags.all fun p => match p.2 with
      | some tag => braceFree tag
      | none => true

theorem latex_balanced (encode : Str → Str) (hT : latexTablesOK = true) (t : RT) (out : Str)
    (hs : allStrs (fun s => balanced (encode s)) t = true)
    (hk : allKinds (fun k => match k with | .href u _ => balanced u | _ => true) t = true)
    (h : render (latex encode) t = some out) : ∀ d, depthAfter d out = some d := by
  simp only [latexTablesOK, Bool.and_eq_true, List.all_eq_true] at hT
  refine render_rel (latex encode) _ _ (fun _ => true) (fun _ x => ∀ d, depthAfter d x = some d)
    ?_ ?_ ?_ ?_ ?_ ?_ t out hk hs (allSyms_true t) h
  · intro s hs d; exact depthAfter_balanced hs d
  · intro n r _ hr d
    exact depthAfter_balanced (hT.1 (n, r) (lookup_mem hr)) d
  · intro fs xs hall
    show ∀ d, depthAfter d (List.flatten xs) = some d
    induction hall with
    | nil => intro d; rfl
    | cons hfx _ ih => intro d; simp only [List.flatten_cons]; rw [depthAfter_app, hfx]; exact ih d
  · intro n f x _ hx d
    show depthAfter d (Latex.formatTag n x) = some d
    unfold Latex.formatTag
    cases hl : Gen.latexTags.lookup n with
    | none =>
      simp only
      split
      · rfl
      · have := depthAfter_group [] x (by decide) hx d
        simpa using this
    | some o =>
      cases o with
      | none =>
        simp only
        split
        · rfl
        · have := depthAfter_group [] x (by decide) hx d
          simpa using this
      | some tag =>
        simp only
        split
        · rfl
        · have hb : braceFree tag = true := hT.2 (n, some tag) (lookup_mem hl)
          have := depthAfter_group (['\\'] ++ tag) x (by simpa [braceFree] using hb) hx d
          simpa [List.append_assoc] using this
  · intro u e f x hu hx d
    show depthAfter d (Latex.formatHref encode u x e) = some d
    simp only at hu
    unfold Latex.formatHref
    split
    · rfl
    · simp only
      have e1 : "\\url{".toList = ['\\', 'u', 'r', 'l'] ++ ['{'] := by decide
      have e2 : "\\href".toList = ['\\', 'h', 'r', 'e', 'f'] := by decide
      have e3 : "[pdfnewwindow]".toList = ['[', 'p', 'd', 'f', 'n', 'e', 'w', 'w', 'i', 'n', 'd', 'o', 'w', ']'] := by decide
      have e4 : "}{".toList = ['}'] ++ ['{'] := by decide
      split
      · rw [e1]
        exact depthAfter_group _ u (by decide) (fun d => depthAfter_balanced hu d) d
      · rw [e2, e3, e4]
        have hopts : braceFree (['\\', 'h', 'r', 'e', 'f'] ++
            (if e = true then ['[', 'p', 'd', 'f', 'n', 'e', 'w', 'w', 'i', 'n', 'd', 'o', 'w', ']'] else [])) = true := by
          cases e <;> decide
        have h1 := depthAfter_group _ u hopts (fun d => depthAfter_balanced hu d)
        have h2 := depthAfter_group [] x (by decide) hx
        have : ∀ (A : Str), A ++ ['{'] ++ u ++ (['}'] ++ ['{']) ++ x ++ ['}']
            = (A ++ ['{'] ++ u ++ ['}']) ++ ([] ++ ['{'] ++ x ++ ['}']) := by
          intro A; simp [List.append_assoc]
        rw [this, depthAfter_app, h1 d]
        exact h2 d
  · intro f x _ hx d
    show depthAfter d (Latex.formatProtected x) = some d
    have := depthAfter_group [] x (by decide) hx d
    simpa [Latex.formatProtected] using this

end Spec.Tex

/-! ### the modelled part of the latexcodec encoder -/
namespace Backends.Latex

open Spec.Tex

/-- the regenerated ASCII table of the encoder: no brace is translated, no translation is empty or contains a brace -/
def asciiOK (tbl : List (Char × Str × Bool)) : Bool :=
  tbl.all fun p => p.1 != '{' && p.1 != '}' && !p.2.1.isEmpty && braceFree p.2.1

theorem spaceBytes_ne_nil (st : Bool) (w : Str) (h : w ≠ []) : spaceBytes st w ≠ [] := by
  unfold spaceBytes
  split
  · split <;> simp
  · exact h

theorem encodeChar_ne_nil (hT : asciiOK Gen.latexAscii = true) (c : Char) : (encodeChar c).1 ≠ [] := by
  unfold encodeChar
  split
  · rename_i e he
    have := List.all_eq_true.1 hT (c, e) (lookup_mem he)
    simp only [Bool.and_eq_true, Bool.not_eq_true', List.isEmpty_eq_false_iff] at this
    exact this.1.2
  · simp

/-- nothing is erased -/
theorem encode_ne_nil (hT : asciiOK Gen.latexAscii = true) (s : Str) (h : latexcodecEncode s = []) : s = [] := by
  cases s with
  | nil => rfl
  | cons c s =>
    simp only [latexcodecEncode, encodeGo, List.append_eq_nil_iff] at h
    exact absurd h.1 (spaceBytes_ne_nil _ _ (encodeChar_ne_nil hT c))

theorem depthAfter_spaceBytes (st : Bool) (w : Str) (d : Nat) :
    depthAfter d (spaceBytes st w) = depthAfter d w := by
  unfold spaceBytes
  split
  · split
    · simp [depthAfter]
    · simp [depthAfter]
  · rfl

theorem depthAfter_encodeChar (hT : asciiOK Gen.latexAscii = true) (c : Char) (d : Nat) :
    depthAfter d (encodeChar c).1 = depthAfter d [c] := by
  unfold encodeChar
  split
  · rename_i e he
    have := List.all_eq_true.1 hT (c, e) (lookup_mem he)
    simp only [Bool.and_eq_true, bne_iff_ne] at this
    rw [depthAfter_braceFree this.2]
    simp [depthAfter, this.1.1.1, this.1.1.2]
  · rfl

/-- the encoder keeps the brace depth: it neither adds nor removes nor translates a brace -/
theorem depthAfter_encodeGo (hT : asciiOK Gen.latexAscii = true) (s : Str) :
    ∀ st d, depthAfter d (encodeGo st s) = depthAfter d s := by
  induction s with
  | nil => intro st d; rfl
  | cons c s ih =>
    intro st d
    simp only [encodeGo]
    rw [depthAfter_app, depthAfter_spaceBytes, depthAfter_encodeChar hT]
    rw [show c :: s = [c] ++ s from rfl, depthAfter_app]
    cases depthAfter d [c] with
    | none => rfl
    | some e => simp only [Option.bind_some]; exact ih _ e

theorem balanced_encode (hT : asciiOK Gen.latexAscii = true) (s : Str) :
    balanced (latexcodecEncode s) = balanced s := by
  simp only [balanced, latexcodecEncode, depthAfter_encodeGo hT]

/-- the characters the encoder passes through unchanged -/
def transparent (c : Char) : Bool := (Gen.latexAscii.lookup c).isNone

theorem encodeGo_transparent (s : Str) (h : s.all transparent = true) : encodeGo false s = s := by
  induction s with
  | nil => rfl
  | cons c s ih =>
    simp only [List.all_cons, Bool.and_eq_true] at h
    have hc : encodeChar c = ([c], false) := by
      unfold encodeChar
      have := h.1
      unfold transparent at this
      cases hl : Gen.latexAscii.lookup c with
      | none => rfl
      | some e => simp [hl] at this
    simp only [encodeGo, hc, spaceBytes, Bool.false_eq_true, if_false, ih h.2]
    rfl

end Backends.Latex
end Pybtex
