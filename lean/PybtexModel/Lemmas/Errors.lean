/-
Helper lemmas for property C16 (model: `Model/Errors.lean`, reference: `Spec/Reporting.lean`).
-/
import PybtexModel.Model.Errors
import PybtexModel.Spec.Reporting

namespace Pybtex.Errors
variable {E : Type}

/-! ### small facts -/

@[simp] theorem extend_nil (b : Option (List E)) : extend b [] = b := by
  cases b <;> simp [extend]

theorem extend_extend (b : Option (List E)) (x y : List E) :
    extend (extend b x) y = extend b (x ++ y) := by
  cases b <;> simp [extend]

theorem extend_isSome (b : Option (List E)) (x : List E) : (extend b x).isSome = b.isSome := by
  cases b <;> simp [extend]

theorem run_nil (c : Config E) : run c [] = (c, []) := rfl

theorem run_cons (c : Config E) (op : Op E) (ops : List (Op E)) :
    run c (op :: ops) = ((run (step c op).1 ops).1, (step c op).2 :: (run (step c op).1 ops).2) := rfl

theorem run_append (a b : List (Op E)) : ∀ c : Config E,
    run c (a ++ b) = ((run (run c a).1 b).1, (run c a).2 ++ (run (run c a).1 b).2) := by
  induction a with
  | nil => intro c; simp [run_nil]
  | cons op a ih => intro c; simp [run_cons, ih]

theorem depthAfter_append (a b : List (Op E)) : ∀ d d' : Nat,
    depthAfter d a = some d' → depthAfter d (a ++ b) = depthAfter d' b := by
  induction a with
  | nil => intro d d' h; simp [depthAfter] at h; subst h; rfl
  | cons op a ih =>
    intro d d' h
    cases op with
    | setStrict x => simp only [depthAfter, List.cons_append] at h ⊢; exact ih d d' h
    | enter => simp only [depthAfter, List.cons_append] at h ⊢; exact ih (d + 1) d' h
    | report e => simp only [depthAfter, List.cons_append] at h ⊢; exact ih d d' h
    | exit =>
      cases d with
      | zero => simp [depthAfter] at h
      | succ k => simp only [depthAfter, List.cons_append] at h ⊢; exact ih k d' h
    | abort =>
      cases d with
      | zero => simp [depthAfter] at h
      | succ k => simp only [depthAfter, List.cons_append] at h ⊢; exact ih k d' h

/-- the base reports of a segment are fixed once the segment has returned to its base depth
and the continuation starts by leaving the base context -/
theorem baseReports_append (a b : List (Op E)) : ∀ d d' : Nat,
    depthAfter d a = some d' → baseReports d (a ++ b) = baseReports d a ++ baseReports d' b := by
  induction a with
  | nil => intro d d' h; simp [depthAfter] at h; subst h; simp [baseReports]
  | cons op a ih =>
    intro d d' h
    cases op with
    | setStrict x => simp only [depthAfter, baseReports, List.cons_append] at h ⊢; exact ih d d' h
    | enter => simp only [depthAfter, baseReports, List.cons_append] at h ⊢; exact ih (d + 1) d' h
    | report e =>
      cases d with
      | zero => simp only [depthAfter, baseReports, List.cons_append] at h ⊢; rw [ih 0 d' h]
      | succ k => simp only [depthAfter, baseReports, List.cons_append] at h ⊢; exact ih (k + 1) d' h
    | exit =>
      cases d with
      | zero => simp [depthAfter] at h
      | succ k => simp only [depthAfter, baseReports, List.cons_append] at h ⊢; exact ih k d' h
    | abort =>
      cases d with
      | zero => simp [depthAfter] at h
      | succ k => simp only [depthAfter, baseReports, List.cons_append] at h ⊢; exact ih k d' h

/-! ### the decidable bracket check and the grammar -/

theorem depthAfter_shift (ops : List (Op E)) : ∀ d d' k : Nat,
    depthAfter d ops = some d' → depthAfter (d + k) ops = some (d' + k) := by
  induction ops with
  | nil => intro d d' k h; simp [depthAfter] at h ⊢; omega
  | cons op ops ih =>
    intro d d' k h
    cases op with
    | setStrict x => simp only [depthAfter] at h ⊢; exact ih d d' k h
    | report e => simp only [depthAfter] at h ⊢; exact ih d d' k h
    | enter =>
      simp only [depthAfter] at h ⊢
      have := ih (d + 1) d' k h
      rwa [Nat.add_right_comm] at this
    | exit =>
      cases d with
      | zero => simp [depthAfter] at h
      | succ n =>
        simp only [depthAfter] at h
        have := ih n d' k h
        rw [Nat.add_right_comm]
        simpa [depthAfter] using this
    | abort =>
      cases d with
      | zero => simp [depthAfter] at h
      | succ n =>
        simp only [depthAfter] at h
        have := ih n d' k h
        rw [Nat.add_right_comm]
        simpa [depthAfter] using this

/-- the first return below the starting depth splits a history at the matching exit -/
theorem first_return : ∀ (n : Nat) (ops : List (Op E)) (d d0 : Nat), ops.length ≤ n →
    depthAfter (d + 1) ops = some d0 → d0 ≤ d →
    ∃ body c rest, ops = body ++ c :: rest ∧ (c = .exit ∨ c = .abort) ∧
      depthAfter 0 body = some 0 ∧ depthAfter d rest = some d0 := by
  intro n
  induction n with
  | zero =>
    intro ops d d0 hl h hle
    have : ops = [] := List.eq_nil_of_length_eq_zero (by omega)
    subst this
    simp [depthAfter] at h
    omega
  | succ n ih =>
    intro ops d d0 hl h hle
    cases ops with
    | nil => simp [depthAfter] at h; omega
    | cons op ops =>
      simp only [List.length_cons] at hl
      cases op with
      | setStrict x =>
        simp only [depthAfter] at h
        obtain ⟨body, c, rest, h1, h2, h3, h4⟩ := ih ops d d0 (by omega) h hle
        exact ⟨.setStrict x :: body, c, rest, by simp [h1], h2, by simpa [depthAfter] using h3, h4⟩
      | report e =>
        simp only [depthAfter] at h
        obtain ⟨body, c, rest, h1, h2, h3, h4⟩ := ih ops d d0 (by omega) h hle
        exact ⟨.report e :: body, c, rest, by simp [h1], h2, by simpa [depthAfter] using h3, h4⟩
      | exit =>
        simp only [depthAfter] at h
        exact ⟨[], .exit, ops, rfl, Or.inl rfl, rfl, h⟩
      | abort =>
        simp only [depthAfter] at h
        exact ⟨[], .abort, ops, rfl, Or.inr rfl, rfl, h⟩
      | enter =>
        simp only [depthAfter] at h
        obtain ⟨b1, c1, r1, h1, h2, h3, h4⟩ := ih ops (d + 1) d0 (by omega) h (by omega)
        have hr1 : r1.length ≤ n := by
          have := congrArg List.length h1
          simp at this
          omega
        obtain ⟨b2, c2, r2, g1, g2, g3, g4⟩ := ih r1 d d0 hr1 h4 hle
        refine ⟨.enter :: b1 ++ c1 :: b2, c2, r2, by simp [h1, g1], g2, ?_, g4⟩
        simp only [depthAfter, List.cons_append]
        rw [depthAfter_append b1 _ 1 1 (by simpa using depthAfter_shift b1 0 0 1 h3)]
        rcases h2 with rfl | rfl <;> simpa [depthAfter] using g3

theorem balanced_wellBracketed : ∀ (n : Nat) (ops : List (Op E)), ops.length ≤ n →
    depthAfter 0 ops = some 0 → Spec.WellBracketed ops := by
  intro n
  induction n with
  | zero =>
    intro ops hl _
    have : ops = [] := List.eq_nil_of_length_eq_zero (by omega)
    subst this
    exact .nil
  | succ n ih =>
    intro ops hl h
    cases ops with
    | nil => exact .nil
    | cons op ops =>
      simp only [List.length_cons] at hl
      cases op with
      | setStrict x =>
        simp only [depthAfter] at h
        exact .append [.setStrict x] ops (.setStrict x) (ih ops (by omega) h)
      | report e =>
        simp only [depthAfter] at h
        exact .append [.report e] ops (.report e) (ih ops (by omega) h)
      | exit => simp [depthAfter] at h
      | abort => simp [depthAfter] at h
      | enter =>
        simp only [depthAfter] at h
        obtain ⟨body, c, rest, h1, h2, h3, h4⟩ := first_return ops.length ops 0 0 (Nat.le_refl _) h (Nat.le_refl _)
        have hlen := congrArg List.length h1
        simp at hlen
        have hb := ih body (by omega) h3
        have hr := ih rest (by omega) h4
        subst h1
        rcases h2 with rfl | rfl
        · have := Spec.WellBracketed.append _ _ (Spec.WellBracketed.context body hb) hr
          simpa using this
        · have := Spec.WellBracketed.append _ _ (Spec.WellBracketed.aborted body hb) hr
          simpa using this

/-! ### the stack discipline of (fixed) `capture()` -/

/-- Frame lemma.  If `ops` never leaves a context below relative depth 0 (start depth `d`, end
depth `d'`), then everything below the base entry of the stack is untouched, the base entry has
received exactly the reports made at relative depth 0, and `d'` entries lie above it. -/
theorem run_stack (ops : List (Op E)) :
    ∀ (d d' : Nat) (c : Config E) (top : List (Option (List E))) (b : Option (List E))
      (rest : List (Option (List E))),
    depthAfter d ops = some d' → c.full = top ++ b :: rest → top.length = d →
    ∃ top', (run c ops).1.full = top' ++ extend b (baseReports d ops) :: rest ∧ top'.length = d' := by
  induction ops with
  | nil =>
    intro d d' c top b rest hd hf hl
    simp only [depthAfter, Option.some.injEq] at hd
    subst hd
    exact ⟨top, by simp [run_nil, baseReports, hf], hl⟩
  | cons op ops ih =>
    intro d d' c top b rest hd hf hl
    rw [run_cons]
    cases op with
    | setStrict x =>
      simp only [depthAfter, baseReports] at hd ⊢
      exact ih d d' _ top b rest hd (by simpa [step, Config.full, setStrict] using hf) hl
    | enter =>
      simp only [depthAfter, baseReports] at hd ⊢
      refine ih (d + 1) d' _ (some [] :: top) b rest hd ?_ (by simp [hl])
      simp only [step, captureEnter, Config.full, List.cons_append, List.cons.injEq, true_and]
      exact hf
    | report e =>
      cases top with
      | nil =>
        simp only [List.length_nil] at hl
        subst hl
        simp only [depthAfter, baseReports] at hd ⊢
        simp only [Config.full, List.nil_append, List.cons.injEq] at hf
        obtain ⟨hcap, hsv⟩ := hf
        have := ih 0 d' (step c (.report e)).1 [] (extend b [e]) rest hd (by
          cases b with
          | none =>
            simp only [step, report, hcap, extend, Config.full, List.nil_append]
            by_cases hs : c.st.strict <;> simp [hs, hcap, hsv]
          | some l =>
            simp [step, report, hcap, extend, Config.full, hsv]) rfl
        rw [extend_extend] at this
        simpa using this
      | cons t top0 =>
        simp only [List.length_cons] at hl
        subst hl
        simp only [depthAfter, baseReports] at hd ⊢
        simp only [Config.full, List.cons_append, List.cons.injEq] at hf
        obtain ⟨hcap, hsv⟩ := hf
        cases t with
        | none =>
          refine ih _ d' (step c (.report e)).1 (none :: top0) b rest hd ?_ (by simp)
          simp only [step, report, hcap, Config.full, List.cons_append]
          by_cases hs : c.st.strict <;> simp [hs, hcap, hsv]
        | some l =>
          refine ih _ d' (step c (.report e)).1 (some (l ++ [e]) :: top0) b rest hd ?_ (by simp)
          simp [step, report, hcap, Config.full, hsv]
    | exit =>
      cases top with
      | nil =>
        simp only [List.length_nil] at hl
        subst hl
        simp [depthAfter] at hd
      | cons t top0 =>
        simp only [List.length_cons] at hl
        subst hl
        simp only [depthAfter, baseReports] at hd ⊢
        simp only [Config.full, List.cons_append, List.cons.injEq] at hf
        obtain ⟨_, hsv⟩ := hf
        refine ih _ d' (step c .exit).1 top0 b rest hd ?_ rfl
        cases top0 with
        | nil => simp only [List.nil_append] at hsv ⊢; simp [step, leave, hsv, captureExit, Config.full]
        | cons u top1 => simp only [List.cons_append] at hsv ⊢; simp [step, leave, hsv, captureExit, Config.full]
    | abort =>
      cases top with
      | nil =>
        simp only [List.length_nil] at hl
        subst hl
        simp [depthAfter] at hd
      | cons t top0 =>
        simp only [List.length_cons] at hl
        subst hl
        simp only [depthAfter, baseReports] at hd ⊢
        simp only [Config.full, List.cons_append, List.cons.injEq] at hf
        obtain ⟨_, hsv⟩ := hf
        refine ih _ d' (step c .abort).1 top0 b rest hd ?_ rfl
        cases top0 with
        | nil => simp only [List.nil_append] at hsv ⊢; simp [step, leave, hsv, captureExit, Config.full]
        | cons u top1 => simp only [List.cons_append] at hsv ⊢; simp [step, leave, hsv, captureExit, Config.full]

/-- Inside capture nothing escapes: while every entry of the stack down to the base is a list,
no report of the segment is printed or raised. -/
theorem run_inside (ops : List (Op E)) :
    ∀ (d d' : Nat) (c : Config E) (top : List (Option (List E))) (b : Option (List E))
      (rest : List (Option (List E))),
    depthAfter d ops = some d' → c.full = top ++ b :: rest → top.length = d →
    (∀ p ∈ top, p.isSome = true) → b.isSome = true →
    printedOf (run c ops).2 = [] ∧ raisedOf (run c ops).2 = [] := by
  induction ops with
  | nil => intro d d' c top b rest _ _ _ _ _; simp [run_nil, printedOf, raisedOf]
  | cons op ops ih =>
    intro d d' c top b rest hd hf hl hall hb
    rw [run_cons]
    cases op with
    | setStrict x =>
      simp only [depthAfter] at hd
      have := ih d d' (step c (.setStrict x)).1 top b rest hd
        (by simpa [step, Config.full, setStrict] using hf) hl hall hb
      simpa [step, printedOf, raisedOf] using this
    | enter =>
      simp only [depthAfter] at hd
      have := ih (d + 1) d' (step c .enter).1 (some [] :: top) b rest hd (by
          simp only [step, captureEnter, Config.full, List.cons_append, List.cons.injEq, true_and]
          exact hf) (by simp [hl]) (by
          intro p hp
          rcases List.mem_cons.mp hp with h | h
          · simp [h]
          · exact hall p h) hb
      simpa [step, printedOf, raisedOf] using this
    | report e =>
      simp only [depthAfter] at hd
      cases top with
      | nil =>
        simp only [Config.full, List.nil_append, List.cons.injEq] at hf
        obtain ⟨hcap, hsv⟩ := hf
        obtain ⟨l, rfl⟩ := Option.isSome_iff_exists.mp hb
        have := ih d d' (step c (.report e)).1 [] (some (l ++ [e])) rest hd
          (by simp [step, report, hcap, Config.full, hsv]) hl (by simp) rfl
        simpa [step, report, hcap, printedOf, raisedOf] using this
      | cons t top0 =>
        simp only [Config.full, List.cons_append, List.cons.injEq] at hf
        obtain ⟨hcap, hsv⟩ := hf
        obtain ⟨l, rfl⟩ := Option.isSome_iff_exists.mp (hall t (by simp))
        have := ih d d' (step c (.report e)).1 (some (l ++ [e]) :: top0) b rest hd
          (by simp [step, report, hcap, Config.full, hsv]) (by simpa using hl) (by
            intro p hp
            rcases List.mem_cons.mp hp with h | h
            · simp [h]
            · exact hall p (by simp [h])) hb
        simpa [step, report, hcap, printedOf, raisedOf] using this
    | exit =>
      cases top with
      | nil =>
        simp only [List.length_nil] at hl
        subst hl
        simp [depthAfter] at hd
      | cons t top0 =>
        simp only [List.length_cons] at hl
        subst hl
        simp only [depthAfter] at hd
        simp only [Config.full, List.cons_append, List.cons.injEq] at hf
        obtain ⟨_, hsv⟩ := hf
        have := ih _ d' (step c .exit).1 top0 b rest hd (by
          cases top0 with
          | nil => simp only [List.nil_append] at hsv ⊢; simp [step, leave, hsv, captureExit, Config.full]
          | cons u top1 => simp only [List.cons_append] at hsv ⊢; simp [step, leave, hsv, captureExit, Config.full])
          rfl (fun q hq => hall q (by simp [hq])) hb
        have hobs : ∃ x, (step c .exit).2 = Obs.left x := by
          cases top0 <;> simp_all [step, leave, captureExit]
        obtain ⟨x, hx⟩ := hobs
        simpa [hx, printedOf, raisedOf] using this
    | abort =>
      cases top with
      | nil =>
        simp only [List.length_nil] at hl
        subst hl
        simp [depthAfter] at hd
      | cons t top0 =>
        simp only [List.length_cons] at hl
        subst hl
        simp only [depthAfter] at hd
        simp only [Config.full, List.cons_append, List.cons.injEq] at hf
        obtain ⟨_, hsv⟩ := hf
        have := ih _ d' (step c .abort).1 top0 b rest hd (by
          cases top0 with
          | nil => simp only [List.nil_append] at hsv ⊢; simp [step, leave, hsv, captureExit, Config.full]
          | cons u top1 => simp only [List.cons_append] at hsv ⊢; simp [step, leave, hsv, captureExit, Config.full])
          rfl (fun q hq => hall q (by simp [hq])) hb
        have hobs : ∃ x, (step c .abort).2 = Obs.left x := by
          cases top0 <;> simp_all [step, leave, captureExit]
        obtain ⟨x, hx⟩ := hobs
        simpa [hx, printedOf, raisedOf] using this

/-- `strict` is changed by `set_strict_mode` only -/
theorem run_strict (ops : List (Op E)) : ∀ c : Config E,
    (run c ops).1.st.strict = finalStrict c.st.strict ops := by
  induction ops with
  | nil => intro c; rfl
  | cons op ops ih =>
    intro c
    rw [run_cons, ih]
    cases op with
    | setStrict x => simp [step, setStrict, finalStrict]
    | enter => simp [step, captureEnter, finalStrict]
    | exit =>
      simp only [step, leave, finalStrict]
      cases c.saved <;> simp [captureExit]
    | abort =>
      simp only [step, leave, finalStrict]
      cases c.saved <;> simp [captureExit]
    | report e =>
      simp only [step, report, finalStrict]
      cases c.st.captured with
      | some l => simp
      | none => by_cases hs : c.st.strict <;> simp [hs]

/-- `error_code` becomes 2 exactly when a warning is printed, and is never changed otherwise -/
theorem run_errorCode (ops : List (Op E)) : ∀ c : Config E,
    (run c ops).1.st.errorCode = if (printedOf (run c ops).2).isEmpty then c.st.errorCode else 2 := by
  induction ops with
  | nil => intro c; simp [run_nil, printedOf]
  | cons op ops ih =>
    intro c
    rw [run_cons]
    simp only
    rw [ih]
    cases op with
    | setStrict x => simp [step, setStrict, printedOf]
    | enter => simp [step, captureEnter, printedOf]
    | exit =>
      cases hsv : c.saved with
      | nil => simp [step, leave, hsv, printedOf]
      | cons p r => simp [step, leave, hsv, captureExit, printedOf]
    | abort =>
      cases hsv : c.saved with
      | nil => simp [step, leave, hsv, printedOf]
      | cons p r => simp [step, leave, hsv, captureExit, printedOf]
    | report e =>
      cases hcap : c.st.captured with
      | some l => simp [step, report, hcap, printedOf]
      | none =>
        by_cases hs : c.st.strict
        · simp [step, report, hcap, hs, printedOf]
        · simp only [step, report, hcap, hs, Bool.false_eq_true, ↓reduceIte, printedOf, List.isEmpty_cons]
          split <;> rfl

/-! ### the reference semantics -/

/-- the stack of a run that started outside any capture context: every open context holds a
list, and underneath there is "no capture" -/
def Clean (c : Config E) : Prop :=
  ∃ top : List (Option (List E)), c.full = top ++ [none] ∧ ∀ p ∈ top, p.isSome = true

theorem Clean.length {c : Config E} (h : Clean c) :
    ∃ top : List (Option (List E)), c.full = top ++ [none] ∧ (∀ p ∈ top, p.isSome = true) ∧
      top.length = c.saved.length := by
  obtain ⟨top, h1, h2⟩ := h
  refine ⟨top, h1, h2, ?_⟩
  have := congrArg List.length h1
  simp [Config.full] at this
  omega

/-- the observations of the reports, with the bookkeeping observations dropped -/
def reportsOnly : List (Obs E) → List (Obs E)
  | [] => []
  | .collected :: os => .collected :: reportsOnly os
  | .printed e :: os => .printed e :: reportsOnly os
  | .raised e :: os => .raised e :: reportsOnly os
  | _ :: os => reportsOnly os

theorem printedOf_reportsOnly (os : List (Obs E)) : printedOf (reportsOnly os) = printedOf os := by
  induction os with
  | nil => rfl
  | cons o os ih => cases o <;> simp [reportsOnly, printedOf, ih]

/-- Refinement: started outside any capture (or inside properly opened ones), every report of
every history that never leaves a context it did not enter does what the reference semantics
says, and the stack stays clean. -/
theorem run_refines (ops : List (Op E)) : ∀ (c : Config E) (d' : Nat),
    Clean c → depthAfter c.saved.length ops = some d' →
    reportsOnly (run c ops).2 = Spec.reportObs c.saved.length c.st.strict ops ∧
    Clean (run c ops).1 ∧ (run c ops).1.saved.length = d' := by
  induction ops with
  | nil =>
    intro c d' hc hd
    simp only [depthAfter, Option.some.injEq] at hd
    exact ⟨rfl, hc, hd⟩
  | cons op ops ih =>
    intro c d' hc hd
    rw [run_cons]
    obtain ⟨top, hf, hall, hlen⟩ := hc.length
    cases op with
    | setStrict x =>
      simp only [depthAfter] at hd
      have := ih (step c (.setStrict x)).1 d' ⟨top, by simpa [step, Config.full, setStrict] using hf, hall⟩
        (by simpa [step] using hd)
      simpa [step, setStrict, reportsOnly, Spec.reportObs] using this
    | enter =>
      simp only [depthAfter] at hd
      have := ih (step c .enter).1 d'
        ⟨some [] :: top, by
          simp only [step, captureEnter, Config.full, List.cons_append, List.cons.injEq, true_and]
          exact hf, by
          intro p hp
          rcases List.mem_cons.mp hp with h | h
          · simp [h]
          · exact hall p h⟩
        (by simpa [step] using hd)
      simpa [step, captureEnter, reportsOnly, Spec.reportObs] using this
    | report e =>
      simp only [depthAfter] at hd
      cases top with
      | nil =>
        simp only [Config.full, List.nil_append, List.cons.injEq] at hf
        obtain ⟨hcap, hsv⟩ := hf
        have hd0 : c.saved.length = 0 := by simp [hsv]
        by_cases hs : c.st.strict
        · have := ih (step c (.report e)).1 d'
            ⟨[], by simp [step, report, hcap, hs, Config.full, hsv], by simp⟩
            (by simpa [step, report, hcap, hs] using hd)
          simp only [step, report, hcap, hs, ↓reduceIte] at this ⊢
          simp only [reportsOnly, Spec.reportObs, Spec.reportSpec, hd0, Nat.lt_irrefl, ↓reduceIte]
          rw [hd0] at this
          exact ⟨by rw [this.1], this.2⟩
        · have := ih (step c (.report e)).1 d'
            ⟨[], by simp [step, report, hcap, hs, Config.full, hsv], by simp⟩
            (by simpa [step, report, hcap, hs] using hd)
          simp only [step, report, hcap, hs, Bool.false_eq_true, ↓reduceIte] at this ⊢
          simp only [reportsOnly, Spec.reportObs, Spec.reportSpec, hd0, Nat.lt_irrefl, ↓reduceIte, Bool.false_eq_true]
          rw [hd0] at this
          exact ⟨by rw [this.1], this.2⟩
      | cons t top0 =>
        simp only [Config.full, List.cons_append, List.cons.injEq] at hf
        obtain ⟨hcap, hsv⟩ := hf
        have ht : t.isSome = true := hall t (by simp)
        obtain ⟨l, rfl⟩ := Option.isSome_iff_exists.mp ht
        have hdpos : c.saved.length > 0 := by simp at hlen; omega
        have := ih (step c (.report e)).1 d'
          ⟨some (l ++ [e]) :: top0, by simp [step, report, hcap, Config.full, hsv], by
            intro p hp
            rcases List.mem_cons.mp hp with h | h
            · simp [h]
            · exact hall p (by simp [h])⟩
          (by simpa [step, report, hcap] using hd)
        simp only [step, report, hcap] at this ⊢
        simp only [reportsOnly, Spec.reportObs, Spec.reportSpec, hdpos, ↓reduceIte]
        exact ⟨by rw [this.1], this.2⟩
    | exit =>
      cases hsv : c.saved with
      | nil => simp [depthAfter, hsv] at hd
      | cons p rest =>
        simp only [hsv, List.length_cons, depthAfter] at hd
        cases top with
        | nil => simp [Config.full, hsv] at hf
        | cons t top0 =>
          simp only [Config.full, hsv, List.cons_append, List.cons.injEq] at hf
          have := ih (step c .exit).1 d'
            ⟨top0, by simp only [step, leave, hsv, captureExit, Config.full]; exact hf.2, fun q hq => hall q (by simp [hq])⟩
            (by simpa [step, leave, hsv, captureExit] using hd)
          simp only [step, leave, hsv, captureExit] at this ⊢
          simpa [reportsOnly, Spec.reportObs] using this
    | abort =>
      cases hsv : c.saved with
      | nil => simp [depthAfter, hsv] at hd
      | cons p rest =>
        simp only [hsv, List.length_cons, depthAfter] at hd
        cases top with
        | nil => simp [Config.full, hsv] at hf
        | cons t top0 =>
          simp only [Config.full, hsv, List.cons_append, List.cons.injEq] at hf
          have := ih (step c .abort).1 d'
            ⟨top0, by simp only [step, leave, hsv, captureExit, Config.full]; exact hf.2, fun q hq => hall q (by simp [hq])⟩
            (by simpa [step, leave, hsv, captureExit] using hd)
          simp only [step, leave, hsv, captureExit] at this ⊢
          simpa [reportsOnly, Spec.reportObs] using this

/-! ### rendering -/

theorem splitLines_ne_nil (k : Bool) : ∀ s : Str, s ≠ [] → splitLines k s ≠ []
  | [], h => absurd rfl h
  | [c], _ => by simp only [splitLines]; split <;> simp
  | c :: d :: r, _ => by
    simp only [splitLines]
    split
    · simp
    · split
      · simp
      · split <;> simp

theorem pyIndex_some {α : Type} (l : List α) (n : Nat) (h1 : 1 ≤ n) (h2 : n ≤ l.length) :
    ∃ x, pyIndex l ((n : Int) - 1) = some x := by
  have h : ¬ ((n : Int) - 1 < 0) := by omega
  have h' : ((n : Int) - 1).toNat < l.length := by omega
  exact ⟨l[((n : Int) - 1).toNat], by simp [pyIndex, h]⟩

theorem pySlice_ne_nil {α : Type} (t : List α) (s pos : Nat) (h1 : s < pos) (h2 : s < t.length) :
    pySlice t (s : Int) (pos : Int) ≠ [] := by
  intro h
  have := congrArg List.length h
  have hs : ¬ ((s : Int) < 0) := by omega
  have hp : ¬ ((pos : Int) < 0) := by omega
  simp [pySlice, pyNorm, hs, hp] at this
  omega

theorem scannerErrorContext_ok (text : Str) (lineno : Option Nat) (pos : Nat)
    (h : ∀ n, lineno = some n → 1 ≤ n ∧ n ≤ (splitLines true text).length) :
    ∃ r, scannerErrorContext text lineno pos = .ok r := by
  cases lineno with
  | none => exact ⟨none, rfl⟩
  | some n =>
    obtain ⟨h1, h2⟩ := h n rfl
    obtain ⟨x, hx⟩ := pyIndex_some (splitLines true text) n h1 h2
    simp only [scannerErrorContext, hx]
    exact ⟨_, rfl⟩

theorem lowLevelErrorContext_ok (text : Str) (start : Option Nat) (pos : Nat)
    (h : pySlice text (sliceStart start) (pos : Int) ≠ []) :
    ∃ r, lowLevelErrorContext text start pos = .ok r := by
  have hl := splitLines_ne_nil false _ h
  simp only [lowLevelErrorContext]
  cases hg : (splitLines false (pySlice text (sliceStart start) (pos : Int))).getLast? with
  | none => simp [List.getLast?_eq_none_iff] at hg; exact absurd hg hl
  | some l => exact ⟨_, rfl⟩

theorem errorContext_ok (i : CtxInfo) (h : i.WF = true) : ∃ r, i.errorContext = .ok r := by
  unfold CtxInfo.WF at h
  unfold CtxInfo.errorContext
  cases hk : i.kind with
  | scanner =>
    simp only [hk] at h ⊢
    apply scannerErrorContext_ok
    intro n hn
    simp only [hn, Bool.and_eq_true, decide_eq_true_eq] at h
    exact h
  | lowLevel =>
    simp only [hk] at h ⊢
    obtain ⟨r, hr⟩ := lowLevelErrorContext_ok i.text i.start i.pos (by
      cases hs : i.start with
      | some s =>
        simp only [hs, Bool.and_eq_true, decide_eq_true_eq] at h
        exact pySlice_ne_nil i.text s i.pos h.1 h.2
      | none =>
        simp only [hs, Bool.and_eq_true, decide_eq_true_eq] at h
        exact pySlice_ne_nil i.text 0 i.pos h.1 h.2)
    exact ⟨some r, by rw [hr]; rfl⟩

theorem contextLines_ok (e : Err) (h : e.WF = true) : ∃ ctx, e.contextLines = .ok ctx := by
  cases e with
  | tokenRequired d f info =>
    obtain ⟨r, hr⟩ := errorContext_ok info h
    cases r with
    | none =>
      refine ⟨[], ?_⟩
      simp [Err.contextLines, Err.getContext, tokenRequiredContext, hr, bind, Except.bind, Except.map, pure, Except.pure]
    | some p =>
      obtain ⟨context, colno⟩ := p
      simp only [Err.contextLines, Err.getContext, tokenRequiredContext, hr, bind, Except.bind, Except.map, pure, Except.pure]
      repeat' split
      all_goals exact ⟨_, rfl⟩
  | auxData m f ln line =>
    cases line with
    | none => exact ⟨[], rfl⟩
    | some l =>
      by_cases hl : l.isEmpty
      · refine ⟨[], ?_⟩
        simp [Err.contextLines, Err.getContext, hl, bind, Except.bind, pure, Except.pure]
      · have hc : Err.getContext (.auxData m f ln (some l)) =
            .ok (some (l ++ ['\n'] ++ List.replicate l.length '^')) := by
          simp [Err.getContext, hl, pure, Except.pure]
        simp only [Err.contextLines, hc, bind, Except.bind, pure, Except.pure]
        split <;> exact ⟨_, rfl⟩
  | _ => exact ⟨[], rfl⟩

/-! ### computations -/

theorem execReports_captured (es : List E) : ∀ (s : State E) (l : List E), s.captured = some l →
    execReports s es = ({ s with captured := some (l ++ es) }, es.map (fun _ => Obs.collected), none) := by
  induction es with
  | nil => intro s l h; cases s; simp_all [execReports]
  | cons e es ih =>
    intro s l h
    simp only [execReports, report, h]
    rw [ih _ (l ++ [e]) rfl]
    simp

theorem execReports_nonstrict (es : List E) : ∀ (s : State E), s.captured = none → s.strict = false →
    execReports s es =
      ({ s with errorCode := if es.isEmpty then s.errorCode else 2 }, es.map Obs.printed, none) := by
  induction es with
  | nil => intro s h1 h2; simp [execReports]
  | cons e es ih =>
    intro s h1 h2
    simp only [execReports, report, h1, h2, Bool.false_eq_true, ↓reduceIte]
    rw [ih _ (by simp) (by simp)]
    cases es <;> simp

theorem execReports_strict (e : E) (es : List E) (s : State E) (h1 : s.captured = none)
    (h2 : s.strict = true) : execReports s (e :: es) = (s, [Obs.raised e], some e) := by
  simp [execReports, report, h1, h2]

/-! ### world histories -/

theorem runWorld_captured {σ : Type} (ops : List (WOp σ E)) : ∀ (w : σ) (s : State E) (l : List E),
    s.captured = some l →
    (runWorld w s ops).1 = worldAfter w ops ∧
    (runWorld w s ops).2.1 = { s with captured := some (l ++ builtErrors w ops) } := by
  induction ops with
  | nil => intro w s l h; cases s; simp_all [runWorld, worldAfter, builtErrors]
  | cons op ops ih =>
    intro w s l h
    cases op with
    | mutate f => simpa [runWorld, worldAfter, builtErrors] using ih (f w) s l h
    | report mk =>
      have := ih w (report s (mk w)).1 (l ++ [mk w]) (by simp [report, h])
      simp only [runWorld, worldAfter, builtErrors]
      refine ⟨this.1, ?_⟩
      rw [this.2]
      simp [report, h]

theorem builtErrors_append {σ : Type} (a b : List (WOp σ E)) : ∀ w : σ,
    builtErrors w (a ++ b) = builtErrors w a ++ builtErrors (worldAfter w a) b := by
  induction a with
  | nil => intro w; rfl
  | cons op a ih =>
    intro w
    cases op with
    | mutate f => simpa [builtErrors, worldAfter] using ih (f w)
    | report mk => simp [builtErrors, worldAfter, ih w]

end Pybtex.Errors
