/-
C12 / C03 helper lemmas: `bibtex_width` over the scanner's items (`widthToks`, after the repair C03-2)
is the scanner-free one-pass width `Spec.widthPass`.
-/
import PybtexModel.Lemmas.TeXString

namespace Pybtex.WidthPass
open Pybtex Pybtex.Spec

/-- what the text of a special character adds, character by character (`seen` characters passed) -/
def specSumFrom (w : Char → Int) : Nat → Str → Int
  | _, [] => 0
  | seen, c :: r => (if seen < 2 ∨ c = '{' ∨ c = '}' then 0 else w c) + specSumFrom w (seen + 1) r

theorem foldl_add_acc (w : Char → Int) (l : Str) : ∀ acc : Int,
    l.foldl (fun a c => a + w c) acc = acc + l.foldl (fun a c => a + w c) 0 := by
  induction l with
  | nil => intro acc; simp
  | cons c r ih =>
    intro acc
    simp only [List.foldl_cons]
    rw [ih (acc + w c), ih (0 + w c)]
    omega

theorem specSumFrom_ge2 (w : Char → Int) : ∀ (r : Str) (n : Nat), 2 ≤ n →
    specSumFrom w n r = (r.filter fun c => c ≠ '{' ∧ c ≠ '}').foldl (fun a c => a + w c) 0 := by
  intro r
  induction r with
  | nil => intro n _; rfl
  | cons c r ih =>
    intro n hn
    have hlt : ¬ n < 2 := by omega
    simp only [specSumFrom, hlt, false_or]
    rw [ih (n + 1) (by omega)]
    by_cases hc : c = '{' ∨ c = '}'
    · have : (decide (c ≠ '{' ∧ c ≠ '}')) = false := by
        rcases hc with h | h <;> simp [h]
      simp only [hc, if_true, List.filter_cons, this, Bool.false_eq_true, if_false]
      omega
    · have hc' : c ≠ '{' ∧ c ≠ '}' := by
        constructor <;> intro h <;> exact hc (by simp [h])
      have : (decide (c ≠ '{' ∧ c ≠ '}')) = true := by simp [hc'.1, hc'.2]
      simp only [hc, if_false, List.filter_cons, this, if_true, List.foldl_cons]
      rw [foldl_add_acc w _ (0 + w c)]
      omega

theorem specSum_eq (w : Char → Int) (t : Str) :
    ((t.drop 2).filter fun c => c ≠ '{' ∧ c ≠ '}').foldl (fun a c => a + w c) 0 = specSumFrom w 0 t := by
  match t with
  | [] => rfl
  | [a] => simp [specSumFrom]
  | a :: b :: r =>
    simp only [List.drop_succ_cons, List.drop_zero, specSumFrom]
    rw [specSumFrom_ge2 w r 2 (by omega)]
    simp

/-- one item that is not the text of a special character adds the width of its character -/
theorem widthTok_char (w : Char → Int) (b : Bool) (c : Char) (l : Nat)
    (h : ¬ (l = 1 ∧ c = '\\' ∧ b = true)) : widthTok w b ([c], l) = w c := by
  simp only [widthTok]
  rw [if_neg]
  rintro ⟨h1, h2, h3⟩
  exact h ⟨h1, by simpa [startsWithBackslash] using h2, h3⟩

/-- **`bibtex_width` is the one-pass width.**  Normal mode: `b` = the previous item is the brace that
opened a group at level 0 (then the scanner is not in front of a backslash, it would have entered a
special character).  Special mode: the scanner hands out the text as one item followed by the
closing brace, and what follows is scanned in normal mode again. -/
theorem widthToks_scanM (w : Char → Int) : ∀ (s : Str),
    (∀ (d : Nat) (toks : List Tok) (b : Bool), scanM (.norm d) s = some toks →
      (b = true → s.head? ≠ some '\\') → widthToks w b toks = widthPass w (.norm d) s) ∧
    (∀ (k : Nat) (acc : Str) (toks : List Tok), scanM (.spec k acc) s = some toks →
      ∃ body rest, toks = (acc ++ body, 1) :: (['}'], 0) :: rest ∧
        (∀ c r', s = c :: r' → c ≠ '{' → c ≠ '}' → body.head? = some c) ∧
        specSumFrom w acc.length body + w '}' + widthToks w false rest =
          widthPass w (.spec k acc.length) s) := by
  intro s
  induction s with
  | nil =>
    refine ⟨?_, ?_⟩
    · intro d toks b h _
      simp only [scanM, Option.some.injEq] at h
      subst h; rfl
    · intro k acc toks h
      simp only [scanM, Option.some.injEq] at h
      refine ⟨[], [], ?_, ?_, ?_⟩
      · rw [← h]; simp
      · intro c r' hh; cases hh
      · simp [specSumFrom, widthToks, widthPass]
  | cons c r ih =>
    obtain ⟨ihN, ihS⟩ := ih
    have hclose : ∀ (b : Bool) (l : Nat), widthTok w b (['}'], l) = w '}' :=
      fun b l => widthTok_char w b '}' l (by simp)
    refine ⟨?_, ?_⟩
    · -- normal mode
      intro d toks b h hb
      simp only [scanM] at h
      by_cases hc : c = '{'
      · subst hc
        simp only [if_true] at h
        by_cases hsp : d = 0 ∧ r.head? = some '\\'
        · simp only [hsp, and_self, if_true, Option.map_eq_some_iff] at h
          obtain ⟨t, ht, rfl⟩ := h
          obtain ⟨body, rest, hr, hhead, hsum⟩ := ihS 1 [] t ht
          have hbs : startsWithBackslash body = true := by
            obtain ⟨_, hh⟩ := hsp
            cases r with
            | nil => simp at hh
            | cons x r' =>
              simp only [List.head?_cons, Option.some.injEq] at hh
              subst hh
              have := hhead '\\' r' rfl (by decide) (by decide)
              simp [startsWithBackslash, this]
          have h1 : widthTok w b (['{'], 1) = w '{' := widthTok_char w b '{' 1 (by simp)
          have h2 : widthTok w true (body, 1) = specSumFrom w 0 body - 1000 := by
            simp only [widthTok, hbs, and_self, if_true, specSum_eq]
          simp only [List.nil_append, List.length_nil] at hr hsum
          rw [hr]
          simp only [widthToks, decide_true, h1, h2, hclose]
          have f3 : decide (((['}'], 0) : Tok) = (['{'], 1)) = false := by simp
          rw [f3]
          simp only [widthPass, if_true, hsp, and_self]
          omega
        · simp only [hsp, if_false] at h
          split at h
          · cases h
          · simp only [Option.map_eq_some_iff] at h
            obtain ⟨t, ht, rfl⟩ := h
            have h1 : widthTok w b (['{'], d + 1) = w '{' := widthTok_char w b '{' (d + 1) (by simp)
            simp only [widthToks, h1, widthPass, if_true, hsp, if_false]
            rw [ihN (d + 1) t _ ht]
            intro hflag hh
            simp only [decide_eq_true_eq, Prod.mk.injEq, true_and] at hflag
            exact hsp ⟨by omega, hh⟩
      · simp only [hc, if_false] at h
        by_cases hc2 : c = '}'
        · subst hc2
          simp only [widthPass, hc, if_false, if_true]
          by_cases hd : d > 0
          · simp only [hd, and_self, if_true, Option.map_eq_some_iff] at h
            obtain ⟨t, ht, rfl⟩ := h
            have f : decide (((['}'], d - 1) : Tok) = (['{'], 1)) = false := by simp
            simp only [widthToks, hclose, f]
            rw [ihN (d - 1) t false ht (by simp)]
          · have hd0 : d = 0 := by omega
            subst hd0
            simp only [Nat.lt_irrefl, and_false, if_false, Option.map_eq_some_iff] at h
            obtain ⟨t, ht, rfl⟩ := h
            have f : decide (((['}'], 0) : Tok) = (['{'], 1)) = false := by simp
            simp only [widthToks, hclose, f]
            rw [ihN 0 t false ht (by simp)]
        · have hnb : ¬ (c = '}' ∧ d > 0) := fun hh => hc2 hh.1
          simp only [hnb, if_false, Option.map_eq_some_iff] at h
          obtain ⟨t, ht, rfl⟩ := h
          have h1 : widthTok w b ([c], d) = w c := by
            apply widthTok_char
            rintro ⟨_, hcb, hbt⟩
            exact hb hbt (by simp [hcb])
          have f : decide ((([c], d) : Tok) = (['{'], 1)) = false := by simp [hc]
          simp only [widthToks, h1, f, widthPass, hc, hc2, if_false]
          rw [ihN d t false ht (by simp)]
    · -- inside a special character
      intro k acc toks h
      simp only [scanM] at h
      by_cases hc : c = '{'
      · subst hc
        simp only [if_true] at h
        split at h
        · cases h
        · obtain ⟨body, rest, hr, _, hsum⟩ := ihS _ _ _ h
          refine ⟨'{' :: body, rest, ?_, ?_, ?_⟩
          · rw [hr]; simp
          · intro c r' hh h1; cases hh; exact absurd rfl h1
          · simp only [List.length_append, List.length_singleton] at hsum
            simp only [specSumFrom, or_true, true_or, if_true, widthPass]
            omega
      · simp only [hc, if_false] at h
        by_cases hc2 : c = '}'
        · subst hc2
          simp only [if_true] at h
          by_cases hk : k ≤ 1
          · simp only [hk, if_true, Option.map_eq_some_iff] at h
            obtain ⟨t, ht, rfl⟩ := h
            refine ⟨[], t, ?_, ?_, ?_⟩
            · simp
            · intro c r' hh _ h2; cases hh; exact absurd rfl h2
            · simp only [specSumFrom, widthPass, hc, if_false, if_true, hk]
              rw [ihN 0 t false ht (by simp)]
              omega
          · simp only [hk, if_false] at h
            obtain ⟨body, rest, hr, _, hsum⟩ := ihS _ _ _ h
            refine ⟨'}' :: body, rest, ?_, ?_, ?_⟩
            · rw [hr]; simp
            · intro c r' hh _ h2; cases hh; exact absurd rfl h2
            · simp only [List.length_append, List.length_singleton] at hsum
              simp only [specSumFrom, or_true, if_true, widthPass, hc, if_false, hk]
              omega
        · simp only [hc2, if_false] at h
          obtain ⟨body, rest, hr, _, hsum⟩ := ihS _ _ _ h
          refine ⟨c :: body, rest, ?_, ?_, ?_⟩
          · rw [hr]; simp
          · intro c' r' hh _ _; cases hh; rfl
          · simp only [List.length_append, List.length_singleton] at hsum
            simp only [specSumFrom, hc, hc2, or_false, widthPass, if_false]
            omega

/-- on every string the scanner accepts, `bibtex_width` is the scanner-free one-pass width -/
theorem bibtexWidth_eq_onePass (w : Char → Int) {s : Str} {toks : List Tok} (hs : scan s = some toks) :
    bibtexWidth w s = some (widthOnePass w s) := by
  rw [bibtexWidth, hs]
  simp only [Option.map_some, widthOnePass]
  rw [(widthToks_scanM w s).1 0 toks false hs (by simp)]

/-- a string without special character: every character counts with its own width -/
theorem widthPass_noSpecial (w : Char → Int) : ∀ (s : Str) (d : Nat), noSpecialFrom d s = true →
    widthPass w (.norm d) s = (s.map w).sum := by
  intro s
  induction s with
  | nil => intro d _; rfl
  | cons c r ih =>
    intro d h
    simp only [noSpecialFrom] at h
    simp only [widthPass, List.map_cons, List.sum_cons]
    by_cases hc : c = '{'
    · subst hc
      simp only [if_true, Bool.and_eq_true, Bool.not_eq_true', decide_eq_false_iff_not] at h
      simp only [if_true, h.1, if_false, ih (d + 1) h.2]
    · simp only [hc, if_false] at h ⊢
      by_cases hc2 : c = '}'
      · subst hc2
        simp only [if_true] at h ⊢
        rw [ih (d - 1) h]
      · simp only [hc2, if_false] at h ⊢
        rw [ih d h]

end Pybtex.WidthPass
