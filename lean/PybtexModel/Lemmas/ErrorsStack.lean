/-
Lemmas about `Model/ErrorsStack.lean`: a sequence of operations on `pybtex/errors.py` that starts
inside `d` open `capture()` blocks and closes all of them.
-/
import PybtexModel.Model.ErrorsStack

namespace Pybtex.Proc

/-- everything of the world that `pybtex/errors.py` does not own, plus `error_code` -/
structure SameRest (w w' : World) : Prop where
  months : w'.months = w.months
  plugins : w'.plugins = w.plugins
  splitCache : w'.splitCache = w.splitCache
  fmtCache : w'.fmtCache = w.fmtCache
  errorCode : w'.errorCode = w.errorCode

theorem SameRest.refl (w : World) : SameRest w w := ⟨rfl, rfl, rfl, rfl, rfl⟩

theorem SameRest.trans {a b c : World} (h1 : SameRest a b) (h2 : SameRest b c) : SameRest a c :=
  ⟨h2.months.trans h1.months, h2.plugins.trans h1.plugins, h2.splitCache.trans h1.splitCache,
   h2.fmtCache.trans h1.fmtCache, h2.errorCode.trans h1.errorCode⟩

/-- a result an operation gives INSIDE a `capture()` block: nothing is raised, nothing is printed -/
def ERes.quiet : ERes → Bool
  | .none => true
  | .collected _ => true
  | _ => false

theorem erun_append (s : EState) (a b : List EOp) : erun s (a ++ b) = erun (erun s a) b := by
  induction a generalizing s with
  | nil => rfl
  | cons op a ih => exact ih _

theorem eresults_append (s : EState) (a b : List EOp) :
    eresults s (a ++ b) = eresults s a ++ eresults (erun s a) b := by
  induction a generalizing s with
  | nil => rfl
  | cons op a ih => simp only [List.cons_append, eresults, erun, ih]

/-- The stack discipline.  The state is inside `d` blocks opened by the sequence's own context (their
frames `fr`, all holding lists) on top of an arbitrary stack `stk0`; `c` is the list of the OUTERMOST of
these levels (the global itself when `d = 0`).  If the sequence closes exactly these `d` blocks, then
afterwards the stack is `stk0`, the global is `c` extended by the reports the sequence made at its
depth 0 — as read off its text —, `strict` is what the last `set_strict_mode` said, nothing else
changed (also not `error_code`), and no operation raised, printed or was invalid. -/
theorem erun_closes (ops : List EOp) :
    ∀ (d : Nat) (s : EState) (fr : List (List Err)) (stk0 : List (Option (List Err))) (cur c : List Err),
      finalDepth d ops = some 0 → s.frames = fr.map some ++ stk0 → fr.length = d →
      s.w.captured = some cur → (cur :: fr).getLast? = some c →
      (erun s ops).frames = stk0 ∧ (erun s ops).w.captured = some (c ++ topReports d ops) ∧
      (erun s ops).w.strict = lastStrict s.w.strict ops ∧ SameRest s.w (erun s ops).w ∧
      (∀ r ∈ eresults s ops, r.quiet = true) := by
  induction ops with
  | nil =>
    intro d s fr stk0 cur c hd hfr hlen hcap hlast
    simp only [finalDepth, Option.some.injEq] at hd
    subst hd
    have : fr = [] := List.length_eq_zero_iff.mp hlen
    subst this
    simp only [List.getLast?_singleton, Option.some.injEq] at hlast
    subst hlast
    simp only [List.map_nil, List.nil_append] at hfr
    refine ⟨hfr, ?_, rfl, SameRest.refl _, ?_⟩
    · simp only [erun, topReports, List.append_nil, hcap]
    · intro r hr; simp only [eresults] at hr; cases hr
  | cons op ops ih =>
    intro d s fr stk0 cur c hd hfr hlen hcap hlast
    cases op with
    | report e =>
      simp only [finalDepth] at hd
      have hstep : estep s (.report e) = ({ s with w := { s.w with captured := some (cur ++ [e]) } }, .none) := by
        simp only [estep, report, hcap, Option.isSome_some, if_true]
      have hlast' : ((cur ++ [e]) :: fr).getLast? = some (if d = 0 then c ++ [e] else c) := by
        cases fr with
        | nil =>
          simp only [List.length_nil] at hlen
          subst hlen
          simp only [List.getLast?_singleton, Option.some.injEq] at hlast
          subst hlast
          simp only [List.getLast?_singleton, if_true]
        | cons p fr' =>
          simp only [List.length_cons] at hlen
          have hd0 : d ≠ 0 := by omega
          simp only [List.getLast?_cons_cons] at hlast ⊢
          simp only [hlast, if_neg hd0]
      obtain ⟨h1, h2, h3, h4, h5⟩ :=
        ih d { s with w := { s.w with captured := some (cur ++ [e]) } } fr stk0 (cur ++ [e])
          (if d = 0 then c ++ [e] else c) hd hfr hlen rfl hlast'
      simp only [erun, eresults, hstep]
      refine ⟨h1, ?_, h3, ⟨h4.months, h4.plugins, h4.splitCache, h4.fmtCache, h4.errorCode⟩, ?_⟩
      · rw [h2]
        by_cases hd0 : d = 0
        · simp only [hd0, if_true, topReports, List.append_assoc, List.singleton_append]
        · simp only [if_neg hd0, topReports]
      · intro r hr
        rcases List.mem_cons.1 hr with hr | hr
        · subst hr; rfl
        · exact h5 r hr
    | setStrict b =>
      simp only [finalDepth] at hd
      obtain ⟨h1, h2, h3, h4, h5⟩ :=
        ih d { s with w := { s.w with strict := b } } fr stk0 cur c hd hfr hlen hcap hlast
      simp only [erun, eresults, estep]
      refine ⟨h1, ?_, h3, ⟨h4.months, h4.plugins, h4.splitCache, h4.fmtCache, h4.errorCode⟩, ?_⟩
      · rw [h2]; simp only [topReports]
      · intro r hr
        rcases List.mem_cons.1 hr with hr | hr
        · subst hr; rfl
        · exact h5 r hr
    | enter =>
      simp only [finalDepth] at hd
      have hfr' : ({ w := { s.w with captured := some [] }, frames := s.w.captured :: s.frames } : EState).frames
          = (cur :: fr).map some ++ stk0 := by
        simp only [hcap, hfr, List.map_cons, List.cons_append]
      have hlast' : (([] : List Err) :: cur :: fr).getLast? = some c := by
        simp only [List.getLast?_cons_cons]; exact hlast
      obtain ⟨h1, h2, h3, h4, h5⟩ :=
        ih (d + 1) { w := { s.w with captured := some [] }, frames := s.w.captured :: s.frames } (cur :: fr) stk0 [] c
          hd hfr' (by simp only [List.length_cons, hlen]) rfl hlast'
      simp only [erun, eresults, estep]
      refine ⟨h1, ?_, h3, ⟨h4.months, h4.plugins, h4.splitCache, h4.fmtCache, h4.errorCode⟩, ?_⟩
      · rw [h2]; simp only [topReports]
      · intro r hr
        rcases List.mem_cons.1 hr with hr | hr
        · subst hr; rfl
        · exact h5 r hr
    | exit =>
      cases d with
      | zero => simp only [finalDepth] at hd; cases hd
      | succ d' =>
        simp only [finalDepth] at hd
        cases fr with
        | nil => simp only [List.length_nil] at hlen; omega
        | cons p fr' =>
          simp only [List.length_cons, Nat.add_right_cancel_iff] at hlen
          simp only [List.map_cons, List.cons_append] at hfr
          have hlast' : (p :: fr').getLast? = some c := by
            simp only [List.getLast?_cons_cons] at hlast; exact hlast
          have hstep : estep s .exit =
              ({ w := { s.w with captured := some p }, frames := fr'.map some ++ stk0 }, .collected cur) := by
            simp only [estep, hfr, hcap]
          obtain ⟨h1, h2, h3, h4, h5⟩ :=
            ih d' { w := { s.w with captured := some p }, frames := fr'.map some ++ stk0 } fr' stk0 p c
              hd rfl hlen rfl hlast'
          simp only [erun, eresults, hstep]
          refine ⟨h1, ?_, h3, ⟨h4.months, h4.plugins, h4.splitCache, h4.fmtCache, h4.errorCode⟩, ?_⟩
          · rw [h2]; simp only [topReports, Nat.add_sub_cancel]
          · intro r hr
            rcases List.mem_cons.1 hr with hr | hr
            · subst hr; rfl
            · exact h5 r hr

end Pybtex.Proc
