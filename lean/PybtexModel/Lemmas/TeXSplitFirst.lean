/-
`split_tex_string` cuts at the FIRST brace-level-0 separator match after each cut (leftmost match,
as `re.split` does), on EVERY string: `splitTexRaw_first` (model-level checker `CutsFirst`), its
translation to the reference notion `Spec.SplitsFirst` (`CutsFirst.toSpec`) and the facts that make
`SplitsFirst` deterministic for the four separators of the package (`full_begins`, `full_det`).
-/
import PybtexModel.Lemmas.TeXSplit
import PybtexModel.Spec.TeXSplitFirst

namespace Pybtex.TeXU
open Spec

/-! ### small facts -/

theorem lastOr_append_of_ne_nil (prev : Option Char) (x y : Str) (hy : y ≠ []) :
    lastOr prev (x ++ y) = lastOr none y := by
  unfold lastOr
  rw [List.getLast?_append]
  cases h : y.getLast? with
  | none => exact absurd (List.getLast?_eq_none_iff.1 h) hy
  | some c => simp

theorem lastOr_lastOr (prev : Option Char) (x y : Str) : lastOr (lastOr prev x) y = lastOr prev (x ++ y) := by
  unfold lastOr
  rw [List.getLast?_append]
  cases y.getLast? <;> simp

theorem lastOr_none_backslash_iff (a : Str) : lastOr none a = some '\\' ↔ a.getLast? = some '\\' := by
  unfold lastOr
  cases a.getLast? <;> simp

theorem sepMatch_nil (sep : Sep) (prev : Option Char) : sepMatch sep prev [] = 0 := by
  cases sep <;> simp [sepMatch, spaceRun, isAndAt]

/-- the first character of a text decides about a match only together with what precedes it; a
brace decides alone -/
theorem topFreeLA_brace_prev (sep : Sep) (p1 p2 : Option Char) (d : Nat) (r la : Str) :
    topFreeLA sep d p1 ('{' :: r) la = topFreeLA sep d p2 ('{' :: r) la := by
  simp only [topFreeLA, List.cons_append, sepMatch_of_brace sep _ '{' _ (Or.inl rfl)]

/-- the look-ahead stops at an opening brace (general form: some brace-free text, then the brace) -/
theorem topFreeLA_brace' (sep : Sep) (x y z : Str) (hy : ∀ c ∈ y, c ≠ '{') : ∀ (d : Nat) (prev : Option Char),
    (∀ c ∈ x, c ≠ '{') → topFreeLA sep d prev x (y ++ '{' :: z) = topFreeLA sep d prev x y := by
  induction x with
  | nil => intro d prev _; rfl
  | cons c r ih =>
    intro d prev hx
    simp only [topFreeLA]
    rw [ih _ _ (fun y hy => hx y (List.mem_cons_of_mem _ hy))]
    have e : c :: r ++ (y ++ '{' :: z) = (c :: r ++ y) ++ '{' :: z := by simp
    rw [e, sepMatch_brace sep prev (c :: r ++ y) z]
    intro q hq
    rcases List.mem_append.1 hq with hq | hq
    · exact hx q hq
    · exact hy q hq

/-! ### the model-level checker -/

/-- the pieces are cut at the FIRST brace-level-0 match after each cut: `m` is exactly what the
matcher takes at its position (`sepMatch … = m.length`), and the matcher — looking ahead at all
the text that follows — finds nothing at a level-0 position of the part before it -/
inductive CutsFirst (sep : Sep) : Str → List Str → Prop
  | one (p : Str) : topFree sep p = true → CutsFirst sep p [p]
  | cons (p m rest : Str) (ps : List Str) :
      m ≠ [] → sepMatch sep (lastOr none p) (m ++ rest) = m.length → depthSat 0 p = 0 →
      topFreeLA sep 0 none p (m ++ rest) = true → CutsFirst sep rest ps →
      CutsFirst sep (p ++ m ++ rest) (p :: ps)

theorem CutsFirst.ne_nil {sep : Sep} {s : Str} {L : List Str} (h : CutsFirst sep s L) : L ≠ [] := by
  cases h <;> simp

theorem CutsFirst.toSplitsTop {sep : Sep} {s : Str} {L : List Str} (h : CutsFirst sep s L) :
    SplitsTop (sepPred sep) s L := by
  induction h with
  | one p _ => exact SplitsTop.one p
  | cons p m rest ps hm hn hd _ _ ih =>
    refine SplitsTop.cons p m rest ps ?_ hd ih
    have h0 : sepMatch sep (lastOr none p) (m ++ rest) ≠ 0 := by
      rw [hn]; intro h0; exact hm (List.eq_nil_of_length_eq_zero h0)
    have := sepMatch_valid sep (lastOr none p) (m ++ rest) h0
    rwa [hn, List.take_left'] at this
    rfl

/-! ### `re.split` on a brace-free text -/

theorem reSplitAux_first (sep : Sep) : ∀ (fuel : Nat) (prev prev0 : Option Char) (cur s : Str), s.length < fuel →
    (∀ c ∈ cur ++ s, c ≠ '{') → prev0 ≠ some '\\' → prev = lastOr prev0 cur →
    topFreeLA sep 0 prev0 cur s = true →
    CutsFirst sep (cur ++ s) (reSplitAux sep fuel prev cur s) := by
  intro fuel
  induction fuel with
  | zero => intro _ _ _ s h; omega
  | succ fuel ih =>
    intro prev prev0 cur s hlen hno hp hprev hfree
    have hnone : (none : Option Char) = some '\\' ↔ prev0 = some '\\' := by
      constructor <;> intro hh <;> [cases hh; exact absurd hh hp]
    cases s with
    | nil =>
      simp only [reSplitAux, List.append_nil]
      exact CutsFirst.one _ (topFree_of_LA sep prev0 hp _ _ hfree)
    | cons c r =>
      simp only [reSplitAux]
      split
      · rename_i hn
        have := ih (some c) prev0 (cur ++ [c]) r (by simpa using hlen) (by simpa using hno) hp
          (lastOr_append_singleton _ _ _).symm ?_
        · simpa using this
        · rw [topFreeLA_append]
          have hcur : depthSat 0 cur = 0 := depthSat_noOpen cur (fun x hx => hno x (by simp [hx]))
          simp only [List.singleton_append, hfree, Bool.true_and, hcur, ← hprev]
          simp only [topFreeLA, Bool.and_true, Bool.or_eq_true, decide_eq_true_eq]
          exact Or.inr (by simpa using hn)
      · rename_i hn
        have hle := sepMatch_le sep prev (c :: r)
        have hrec := ih ((c :: r)[sepMatch sep prev (c :: r) - 1]?) ((c :: r)[sepMatch sep prev (c :: r) - 1]?) []
          ((c :: r).drop (sepMatch sep prev (c :: r))) ?_ ?_ (sepMatch_last sep prev (c :: r) hn) (lastOr_nil _).symm rfl
        · simp only [List.nil_append] at hrec
          have hcur : depthSat 0 cur = 0 := depthSat_noOpen cur (fun x hx => hno x (by simp [hx]))
          -- the previous character, as the matcher of the model sees it
          have hpe : (lastOr none cur = some '\\' ↔ prev = some '\\') := by
            rw [hprev]
            cases cur with
            | nil => simp only [lastOr_nil]; exact hnone
            | cons x y =>
              rw [show x :: y = [] ++ (x :: y) from rfl, lastOr_append_of_ne_nil _ _ _ (by simp),
                lastOr_append_of_ne_nil _ _ _ (by simp)]
          have hsplit : c :: r = (c :: r).take (sepMatch sep prev (c :: r)) ++ (c :: r).drop (sepMatch sep prev (c :: r)) :=
            (List.take_append_drop _ _).symm
          have hlenm : ((c :: r).take (sepMatch sep prev (c :: r))).length = sepMatch sep prev (c :: r) := by
            rw [List.length_take]; omega
          have hcons := CutsFirst.cons cur ((c :: r).take (sepMatch sep prev (c :: r)))
            ((c :: r).drop (sepMatch sep prev (c :: r))) _ ?_ ?_ hcur ?_ hrec
          · rw [List.append_assoc, ← hsplit] at hcons
            exact hcons
          · intro h0
            rw [h0] at hlenm
            exact hn hlenm.symm
          · rw [← hsplit, hlenm]
            exact sepMatch_prev sep _ _ hpe _
          · rw [← hsplit, topFreeLA_prev sep none prev0 hnone]
            exact hfree
        · simp only [List.length_drop, List.length_cons] at hlen hle ⊢; omega
        · intro x hx
          simp only [List.nil_append] at hx
          exact hno x (List.mem_append_right _ (List.mem_of_mem_drop hx))

theorem reSplit_first (sep : Sep) (head : Str) (hno : ∀ c ∈ head, c ≠ '{') :
    CutsFirst sep head (reSplit sep head) := by
  have := reSplitAux_first sep (head.length + 1) none none [] head (by omega) (by simpa using hno) (by simp) rfl rfl
  simpa [reSplit] using this

/-! ### gluing -/

/-- a whole group (or a group that is never closed, then nothing follows) in front of a split text -/
theorem CutsFirst.prependGroup {sep : Sep} {tail p2 : Str} {ps2 : List Str} (g : Str)
    (h : CutsFirst sep tail (p2 :: ps2)) (hg : staysIn 1 g = true)
    (hcl : tail = [] ∨ (depthSat 1 g = 0 ∧ ∃ g0, g = g0 ++ ['}'])) :
    CutsFirst sep (('{' :: g) ++ tail) ((('{' :: g) ++ p2) :: ps2) := by
  cases h with
  | one _ hfree =>
    refine CutsFirst.one _ ?_
    have := topFree_glue sep [] g tail (by simp) (topFree_nil sep) hg hfree hcl
    simpa using this
  | cons _ m rest _ hm hn hd hfree hr =>
    have hne : p2 ++ m ++ rest ≠ [] := by
      intro h0
      have := congrArg List.length h0
      simp only [List.length_append, List.length_nil] at this
      exact hm (List.eq_nil_of_length_eq_zero (by omega))
    obtain ⟨h0, g0, rfl⟩ := hcl.resolve_left hne
    have hd0 : depthSat 0 ('{' :: (g0 ++ ['}'])) = 0 := by
      rw [depthSat_cons]; simpa [depthStep] using h0
    have hcons := CutsFirst.cons (('{' :: (g0 ++ ['}'])) ++ p2) m rest ps2 hm ?_ ?_ ?_ hr
    · simpa [List.append_assoc] using hcons
    · -- the matcher sees the same previous character (up to "is it a backslash")
      rw [← hn]
      apply sepMatch_prev
      cases p2 with
      | nil =>
        rw [List.append_nil, show '{' :: (g0 ++ ['}']) = ('{' :: g0) ++ ['}'] from rfl, lastOr_append_singleton, lastOr_nil]
        constructor <;> intro hh <;> cases hh
      | cons x y => rw [lastOr_append_of_ne_nil _ _ _ (by simp)]
    · rw [depthSat_append, hd0, hd]
    · rw [topFreeLA_append, hd0, Bool.and_eq_true]
      constructor
      · simp only [topFreeLA, List.cons_append, sepMatch_of_brace sep _ '{' _ (Or.inl rfl)]
        simp only [decide_true, Bool.or_true, Bool.true_and, depthStep, if_true]
        exact topFreeLA_of_staysIn sep _ _ 1 _ hg
      · rw [show '{' :: (g0 ++ ['}']) = ('{' :: g0) ++ ['}'] from rfl, lastOr_append_singleton,
          topFreeLA_prev sep (some '}') none (by constructor <;> intro hh <;> cases hh)]
        exact hfree

/-- brace-free text in front of a split text that begins with an opening brace: it joins the first part -/
theorem CutsFirst.prependPlain {sep : Sep} {z b : Str} {B : List Str} (a : Str)
    (h : CutsFirst sep ('{' :: z) (b :: B)) (ha : ∀ c ∈ a, c ≠ '{') (hfa : topFree sep a = true) :
    CutsFirst sep (a ++ '{' :: z) ((a ++ b) :: B) := by
  have ha0 : depthSat 0 a = 0 := depthSat_noOpen a ha
  generalize hy : '{' :: z = y at h
  cases h with
  | one _ hfree =>
    refine CutsFirst.one _ ?_
    subst hy
    rw [topFree, topFreeLA_append, List.append_nil, topFreeLA_brace sep a _ 0 none ha, ha0]
    rw [topFree] at hfa hfree
    rw [hfa, Bool.true_and, topFreeLA_brace_prev sep _ none]
    exact hfree
  | cons _ m rest _ hm hn hd hfree hr =>
    -- the first part begins with the brace
    have hb : ∃ b', b = '{' :: b' := by
      cases b with
      | nil =>
        simp only [List.nil_append] at hy
        cases m with
        | nil => exact absurd rfl hm
        | cons x m' =>
          simp only [List.cons_append, List.cons.injEq] at hy
          obtain ⟨rfl, _⟩ := hy
          simp only [List.cons_append] at hn
          rw [sepMatch_of_brace sep _ '{' _ (Or.inl rfl)] at hn
          simp at hn
      | cons x b' =>
        simp only [List.cons_append, List.cons.injEq] at hy
        exact ⟨b', by rw [hy.1]⟩
    obtain ⟨b', rfl⟩ := hb
    have hcons := CutsFirst.cons (a ++ '{' :: b') m rest B hm ?_ ?_ ?_ hr
    · simpa [List.append_assoc] using hcons
    · rw [lastOr_append_of_ne_nil _ _ _ (by simp)]; exact hn
    · rw [depthSat_append, ha0, hd]
    · rw [topFreeLA_append, ha0, Bool.and_eq_true]
      constructor
      · have e : '{' :: b' ++ (m ++ rest) = [] ++ '{' :: (b' ++ (m ++ rest)) := by simp
        rw [e, topFreeLA_brace' sep a [] _ (by simp) 0 none ha]
        exact hfa
      · rw [topFreeLA_brace_prev sep _ none]; exact hfree

/-- the last part of the split of a brace-free text glued to the first part of the split of what
follows (which begins with an opening brace); the matcher never looks beyond that brace -/
theorem CutsFirst.merge {sep : Sep} {z b : Str} {B : List Str} (hy : CutsFirst sep ('{' :: z) (b :: B)) :
    ∀ {A : List Str} {x a : Str}, CutsFirst sep x (A ++ [a]) → (∀ c ∈ x, c ≠ '{') →
      CutsFirst sep (x ++ '{' :: z) (A ++ (a ++ b) :: B) := by
  intro A
  induction A with
  | nil =>
    intro x a hx hno
    simp only [List.nil_append] at hx ⊢
    cases hx with
    | one _ hfree => exact hy.prependPlain _ hno hfree
    | cons _ m rest ps _ _ _ _ hr => exact absurd rfl hr.ne_nil
  | cons p A ih =>
    intro x a hx hno
    generalize hL : p :: A ++ [a] = L at hx
    cases hx with
    | one q _ =>
      simp only [List.cons_append, List.cons.injEq] at hL
      exact absurd hL.2 (by simp)
    | cons q m rest ps hm hn hd hfree hr =>
      simp only [List.cons_append, List.cons.injEq] at hL
      obtain ⟨rfl, rfl⟩ := hL
      have hmr : ∀ c ∈ m ++ rest, c ≠ '{' := fun c hc => hno c (by
        simp only [List.mem_append] at hc ⊢
        rcases hc with hc | hc
        · exact Or.inl (Or.inr hc)
        · exact Or.inr hc)
      have hrest : ∀ c ∈ rest, c ≠ '{' := fun c hc => hmr c (List.mem_append_right _ hc)
      have hpp : ∀ c ∈ p, c ≠ '{' := fun c hc => hno c (by simp [hc])
      have hrec := ih hr hrest
      have hcons := CutsFirst.cons p m (rest ++ '{' :: z) _ hm ?_ hd ?_ hrec
      · simpa [List.append_assoc] using hcons
      · rw [← List.append_assoc, sepMatch_brace sep _ (m ++ rest) z hmr]; exact hn
      · rw [← List.append_assoc, topFreeLA_brace' sep p (m ++ rest) z hmr 0 none hpp]; exact hfree

/-! ### the main loop -/

theorem CutsFirst.mem_of_mem {sep : Sep} {s : Str} {L : List Str} (h : CutsFirst sep s L) (q : Str) (hq : q ∈ L)
    (c : Char) (hc : c ∈ q) : c ∈ s :=
  h.toSplitsTop.toSplitsTo.mem_of_mem q hq c hc

/-- what `headStep` does in terms of the first-match split of the head -/
theorem headStep_first (sep : Sep) (head : Str) (wp : Option Str) (hno : ∀ c ∈ head, c ≠ '{') :
    ∃ (A : List Str) (a : Str), CutsFirst sep head (A ++ [a]) ∧
      ((A = [] ∧ (headStep sep head [] wp).1 = [] ∧ preOf (headStep sep head [] wp).2 = preOf wp ++ a ∧
          ((headStep sep head [] wp).2 = none → wp = none ∧ head = [])) ∨
       (∃ p A', A = p :: A' ∧ (headStep sep head [] wp).1 = (preOf wp ++ p) :: A' ∧
          (headStep sep head [] wp).2 = some a)) := by
  by_cases hh : head = []
  · subst hh
    refine ⟨[], [], CutsFirst.one [] (topFree_nil sep), Or.inl ⟨rfl, ?_, ?_, ?_⟩⟩ <;> simp [headStep]
  · have hsp := reSplit_first sep head hno
    unfold headStep
    rw [if_pos hh]
    cases hr : reSplit sep head with
    | nil => rw [hr] at hsp; exact absurd rfl hsp.ne_nil
    | cons p ps =>
      rw [hr] at hsp
      cases ps with
      | nil =>
        exact ⟨[], p, hsp, Or.inl ⟨rfl, rfl, rfl, by simp⟩⟩
      | cons q qs =>
        have hne : q :: qs ≠ [] := by simp
        refine ⟨p :: (q :: qs).dropLast, (q :: qs).getLast hne, ?_, Or.inr ⟨p, (q :: qs).dropLast, rfl, ?_, ?_⟩⟩
        · rw [List.cons_append, List.dropLast_concat_getLast hne]; exact hsp
        · simp
        · simp only []
          exact List.getLast?_eq_some_getLast hne

theorem splitLoop_first (sep : Sep) : ∀ (fuel : Nat) (s : Str) (wp : Option Str), s.length < fuel →
    (s ≠ [] ∨ wp ≠ none) →
    ∃ p ps, splitLoop sep fuel s [] wp = (preOf wp ++ p) :: ps ∧ CutsFirst sep s (p :: ps) := by
  intro fuel
  induction fuel with
  | zero => intro s _ h; omega
  | succ fuel ih =>
    intro s wp hlen hne
    rw [splitLoop_succ]
    have hs : s = s.takeWhile (· ≠ '{') ++ s.dropWhile (· ≠ '{') := List.takeWhile_append_dropWhile.symm
    have hplain : ∀ c ∈ s.takeWhile (· ≠ '{'), c ≠ '{' := by
      intro c hc
      have := mem_takeWhile_prop hc
      simpa using this
    obtain ⟨A, a, hA, hcase⟩ := headStep_first sep (s.takeWhile (· ≠ '{')) wp hplain
    generalize hhead : s.takeWhile (· ≠ '{') = head at *
    generalize hst : headStep sep head [] wp = st at *
    cases hd : s.dropWhile (· ≠ '{') with
    | nil =>
      rw [hd, List.append_nil] at hs
      simp only []
      rcases hcase with ⟨rfl, h1, h2, h3⟩ | ⟨p, A', rfl, h1, h2⟩
      · cases hst2 : st.2 with
        | none =>
          obtain ⟨hw, hh⟩ := h3 hst2
          rcases hne with hne | hne
          · exact absurd (hs.trans hh) hne
          · exact absurd hw hne
        | some w =>
          rw [hst2, preOf_some] at h2
          refine ⟨a, [], ?_, ?_⟩
          · simp only [finish, h1, h2, List.nil_append]
          · rw [hs]; exact hA
      · refine ⟨p, A' ++ [a], ?_, ?_⟩
        · simp only [finish, h1, h2, List.cons_append]
        · rw [hs]; exact hA
    | cons c rest =>
      rw [hd] at hs
      have hc : c = '{' := by
        have := List.head?_dropWhile_not (fun x => decide (x ≠ '{')) s
        rw [hd] at this
        simpa using this
      subst hc
      obtain ⟨g, hg1, hg2, hg3, hg4⟩ := fcbAux_sat rest 1 [] [] (Nat.le_refl 1)
      simp only [List.nil_append] at hg1
      have hfc1 : (findClosingBrace rest).1 = g := hg1
      have hfc2 : rest = g ++ (findClosingBrace rest).2 := hg2
      replace hg4 : (findClosingBrace rest).2 = [] ∨ (depthSat 1 g = 0 ∧ ∃ g0, g = g0 ++ ['}']) := hg4
      clear hg1 hg2
      simp only []
      rw [hfc1]
      generalize htail : (findClosingBrace rest).2 = tail at *
      have htl : tail.length < fuel := by
        have h1 := congrArg List.length hs
        have h2 := congrArg List.length hfc2
        simp only [List.length_append, List.length_cons] at h1 h2
        omega
      obtain ⟨p2, ps2, h5, h6⟩ := ih tail (some (preOf st.2 ++ ['{'] ++ g)) htl (Or.inr (by simp))
      rw [splitLoop_acc, h5]
      have hy : CutsFirst sep ('{' :: (g ++ tail)) ((('{' :: g) ++ p2) :: ps2) := h6.prependGroup g hg3 hg4
      have hm := hy.merge hA hplain
      have hs' : s = head ++ '{' :: (g ++ tail) := by rw [hs, hfc2]
      rw [← hs'] at hm
      rcases hcase with ⟨rfl, h1, h2, h3⟩ | ⟨p, A', rfl, h1, h2⟩
      · refine ⟨a ++ (('{' :: g) ++ p2), ps2, ?_, by simpa using hm⟩
        simp only [preOf_some, h1, h2, List.nil_append, List.append_assoc, List.cons_append]
      · refine ⟨p, A' ++ (a ++ (('{' :: g) ++ p2)) :: ps2, ?_, by simpa using hm⟩
        simp only [preOf_some, h1, h2, List.nil_append, List.append_assoc, List.cons_append]

/-- every non-empty string: the unstripped pieces are the FIRST-match decomposition -/
theorem splitTexRaw_first (sep : Sep) (s : Str) (hs : s ≠ []) : CutsFirst sep s (splitTexRaw sep s) := by
  obtain ⟨p, ps, h1, h2⟩ := splitLoop_first sep (s.length + 1) s none (by omega) (Or.inl hs)
  rw [splitTexRaw, h1]
  exact h2

/-! ### from the checker to the reference notion `Spec.SplitsFirst` -/

/-- "a match begins here" of the reference, for each separator of the package -/
def beginsOf : Sep → Str → Str → Bool
  | .space => spaceBeginsAfter
  | .comma => commaBeginsAfter
  | .hyphen => hyphenBeginsAfter
  | .and => andBeginsAfter

/-- "a complete match" of the reference, for each separator of the package -/
def fullOf : Sep → Str → Str → Str → Bool
  | .space => spaceFullMatch
  | .comma => commaFullMatch
  | .hyphen => hyphenFullMatch
  | .and => andFullMatch

theorem isAndSep_iff (m : Str) : isAndSep m = true ↔
    ∃ a n d, m = [' ', a, n, d, ' '] ∧
      ((a = 'a' ∨ a = 'A') ∧ (n = 'n' ∨ n = 'N') ∧ (d = 'd' ∨ d = 'D')) := by
  unfold isAndSep
  split
  · rename_i a n d
    simp only [Bool.and_eq_true, Bool.or_eq_true, decide_eq_true_eq]
    constructor
    · intro h; exact ⟨a, n, d, rfl, h.1.1, h.1.2, h.2⟩
    · rintro ⟨a', n', d', heq, h1, h2, h3⟩
      simp only [List.cons.injEq, true_and, and_true] at heq
      obtain ⟨rfl, rfl, rfl⟩ := heq
      exact ⟨⟨h1, h2⟩, h3⟩
  · rename_i hno
    constructor
    · intro h; cases h
    · rintro ⟨a', n', d', heq, _⟩
      exact absurd heq (hno _ _ _)

theorem isAndAt_eq_take (t : Str) : isAndAt t = isAndSep (t.take 5) := by
  rw [Bool.eq_iff_iff, isAndAt_iff, isAndSep_iff]
  constructor
  · rintro ⟨a, n, d, tail, rfl, h⟩
    exact ⟨a, n, d, rfl, h⟩
  · rintro ⟨a, n, d, heq, h⟩
    refine ⟨a, n, d, t.drop 5, ?_, h⟩
    have := (List.take_append_drop 5 t).symm
    rw [heq] at this
    exact this

/-- the reference "begins" is the model's matcher finding something -/
theorem begins_iff (sep : Sep) (a t : Str) :
    beginsOf sep a t = true ↔ sepMatch sep (lastOr none a) t ≠ 0 := by
  cases sep with
  | space =>
    simp only [beginsOf, sepMatch]
    cases t with
    | nil => simp [spaceBeginsAfter, spaceRun]
    | cons c r =>
      by_cases hc : c = '\\'
      · subst hc
        have hw : isWs '\\' = false := by decide
        rcases r with _ | ⟨c2, r2⟩
        · rw [spaceRun_bs_other _ _ (by simp)]; simp [spaceBeginsAfter, hw]
        · by_cases h2 : c2 = ' '
          · subst h2; rw [spaceRun_bs_space]; simp [spaceBeginsAfter]
          · rw [spaceRun_bs_other _ _ (by simpa using h2)]; simp [spaceBeginsAfter, hw, h2]
      · rw [spaceRun_ne_bs _ _ hc]
        simp only [spaceBeginsAfter, hc, decide_false, Bool.false_and, Bool.false_or, Bool.or_eq_true,
          Bool.and_eq_true, decide_eq_true_eq, ne_eq, decide_not, Bool.not_eq_true', decide_eq_false_iff_not]
        rw [← lastOr_none_backslash_iff]
        by_cases hw : isWs c = true
        · simp [hw]
        · by_cases ht : c = '~' ∧ ¬ lastOr none a = some '\\'
          · simp [ht]
          · simp only [hw, Bool.false_eq_true, if_false, false_or]
            rw [if_neg ht]
            simp only [not_true_eq_false, iff_false]
            exact ht
  | comma => simp [beginsOf, commaBeginsAfter, sepMatch]
  | hyphen => simp [beginsOf, hyphenBeginsAfter, sepMatch]
  | and => simp [beginsOf, andBeginsAfter, sepMatch, isAndAt_eq_take]

/-- the matcher on a run of units followed by anything: it takes the whole run and goes on -/
theorem spaceRun_units_append (r : Str) : ∀ (m : Str) (prev : Option Char), spaceUnits m = true →
    (∀ r0, m = '~' :: r0 → prev ≠ some '\\') →
    spaceRun prev (m ++ r) = m.length + spaceRun (lastOr prev m) r
  | [], prev, _, _ => by simp [lastOr_nil]
  | [c], prev, hu, hadm => by
    by_cases hc : c = '\\'
    · subst hc; simp [spaceUnits] at hu
    · rw [spaceUnits_cons_of_ne hc] at hu
      simp only [List.singleton_append, List.length_singleton]
      rw [spaceRun_ne_bs _ _ hc, show lastOr prev [c] = some c from rfl]
      simp only [Bool.and_eq_true, Bool.or_eq_true, decide_eq_true_eq] at hu
      rcases hu.1 with hw | ht
      · rw [if_pos hw]
      · by_cases hw : isWs c = true
        · rw [if_pos hw]
        · rw [if_neg hw, if_pos ⟨ht, hadm [] (by rw [ht])⟩]
  | c :: c2 :: m', prev, hu, hadm => by
    by_cases hc : c = '\\'
    · subst hc
      by_cases h2 : c2 = ' '
      · subst h2
        have hu' : spaceUnits m' = true := by simpa [spaceUnits] using hu
        have ih := spaceRun_units_append r m' (some ' ') hu' (fun _ _ => by simp)
        simp only [List.cons_append, List.length_cons]
        rw [spaceRun_bs_space, ih, lastOr_cons, lastOr_cons]
        omega
      · exfalso
        unfold spaceUnits at hu
        simp only [if_true] at hu
        split at hu
        · rename_i heq; simp only [List.cons.injEq] at heq; exact h2 heq.1
        · cases hu
    · rw [spaceUnits_cons_of_ne hc] at hu
      simp only [Bool.and_eq_true, Bool.or_eq_true, decide_eq_true_eq] at hu
      have ih := spaceRun_units_append r (c2 :: m') (some c) hu.2 (fun _ _ => by simpa using hc)
      simp only [List.cons_append, List.length_cons] at ih ⊢
      rw [spaceRun_ne_bs _ _ hc, lastOr_cons]
      have hstep : (if isWs c = true then 1 + spaceRun (some c) (c2 :: (m' ++ r))
          else if c = '~' ∧ prev ≠ some '\\' then 1 + spaceRun (some c) (c2 :: (m' ++ r)) else 0) =
          1 + spaceRun (some c) (c2 :: (m' ++ r)) := by
        rcases hu.1 with hw | ht
        · rw [if_pos hw]
        · by_cases hw : isWs c = true
          · rw [if_pos hw]
          · rw [if_neg hw, if_pos ⟨ht, hadm _ (by rw [ht])⟩]
      rw [hstep, ih]
      omega

/-- the reference "complete match" is exactly what the model's matcher takes -/
theorem full_iff (sep : Sep) (a m r : Str) :
    fullOf sep a m r = true ↔ (m ≠ [] ∧ sepMatch sep (lastOr none a) (m ++ r) = m.length) := by
  cases sep with
  | space =>
    simp only [fullOf, spaceFullMatch, Bool.and_eq_true, Bool.not_eq_true', sepMatch]
    have hb1 := begins_iff .space a (m ++ r)
    have hb2 := begins_iff .space (a ++ m) r
    simp only [beginsOf, sepMatch] at hb1 hb2
    constructor
    · rintro ⟨⟨hs, hbeg⟩, hend⟩
      simp only [isSpaceSep, Bool.and_eq_true, decide_eq_true_eq] at hs
      refine ⟨hs.1, ?_⟩
      have hadm : ∀ r0, m = '~' :: r0 → lastOr none a ≠ some '\\' := by
        intro r0 hm0
        subst hm0
        have hw : isWs '~' = false := by decide
        simp only [List.cons_append, spaceBeginsAfter, hw, Bool.or_eq_true, Bool.and_eq_true, decide_eq_true_eq] at hbeg
        rw [ne_eq, lastOr_none_backslash_iff]
        rcases hbeg with (⟨h, _⟩ | h) | h
        · cases h
        · cases h
        · simpa using h.2
      rw [spaceRun_units_append r m _ hs.2 hadm, lastOr_lastOr]
      have : spaceRun (lastOr none (a ++ m)) r = 0 := by
        by_contra hne
        rw [hb2.2 hne] at hend
        cases hend
      omega
    · rintro ⟨hm, hn⟩
      have hne : spaceRun (lastOr none a) (m ++ r) ≠ 0 := by
        rw [hn]; intro h0; exact hm (List.eq_nil_of_length_eq_zero h0)
      have hu : spaceUnits m = true := by
        have := spaceRun_units (lastOr none a) (m ++ r)
        rwa [hn, List.take_left' rfl] at this
      have hadm : ∀ r0, m = '~' :: r0 → lastOr none a ≠ some '\\' := by
        intro r0 hm0
        subst hm0
        intro hbs
        apply hne
        simp only [List.cons_append]
        rw [spaceRun_ne_bs _ _ (by decide)]
        have hw : isWs '~' = false := by decide
        simp [hw, hbs]
      refine ⟨⟨?_, hb1.2 hne⟩, ?_⟩
      · simp only [isSpaceSep, Bool.and_eq_true, decide_eq_true_eq]; exact ⟨hm, hu⟩
      · rw [spaceRun_units_append r m _ hu hadm, lastOr_lastOr] at hn
        have h0 : spaceRun (lastOr none (a ++ m)) r = 0 := by omega
        cases hbb : spaceBeginsAfter (a ++ m) r with
        | false => rfl
        | true => exact absurd h0 (hb2.1 hbb)
  | comma =>
    simp only [fullOf, commaFullMatch, beq_iff_eq, sepMatch]
    constructor
    · rintro rfl; simp
    · rintro ⟨hm, hn⟩
      cases m with
      | nil => exact absurd rfl hm
      | cons c m' =>
        simp only [List.cons_append, List.head?_cons, Option.some.injEq, List.length_cons] at hn
        split at hn
        · rename_i hc
          have : m'.length = 0 := by omega
          rw [hc, List.eq_nil_of_length_eq_zero this]
        · omega
  | hyphen =>
    simp only [fullOf, hyphenFullMatch, beq_iff_eq, sepMatch]
    constructor
    · rintro rfl; simp
    · rintro ⟨hm, hn⟩
      cases m with
      | nil => exact absurd rfl hm
      | cons c m' =>
        simp only [List.cons_append, List.head?_cons, Option.some.injEq, List.length_cons] at hn
        split at hn
        · rename_i hc
          have : m'.length = 0 := by omega
          rw [hc, List.eq_nil_of_length_eq_zero this]
        · omega
  | and =>
    simp only [fullOf, andFullMatch, sepMatch, isAndAt_eq_take]
    constructor
    · intro h
      have hlen : m.length = 5 := by
        unfold isAndSep at h
        split at h
        · rfl
        · cases h
      refine ⟨(by intro h0; rw [h0] at hlen; cases hlen), ?_⟩
      rw [List.take_left' hlen, if_pos h, hlen]
    · rintro ⟨hm, hn⟩
      split at hn
      · rename_i h
        rw [List.take_left' hn.symm] at h
        exact h
      · exact absurd (List.eq_nil_of_length_eq_zero hn.symm) hm

/-- a complete match is not empty and begins a match -/
theorem full_begins (sep : Sep) (a m r : Str) (h : fullOf sep a m r = true) :
    m ≠ [] ∧ beginsOf sep a (m ++ r) = true := by
  obtain ⟨hm, hn⟩ := (full_iff sep a m r).1 h
  refine ⟨hm, (begins_iff sep a (m ++ r)).2 ?_⟩
  rw [hn]; intro h0; exact hm (List.eq_nil_of_length_eq_zero h0)

/-- at a given position there is one complete match -/
theorem full_det (sep : Sep) (a m r m' r' : Str) (h : fullOf sep a m r = true) (h' : fullOf sep a m' r' = true)
    (he : m ++ r = m' ++ r') : m = m' := by
  obtain ⟨_, hn⟩ := (full_iff sep a m r).1 h
  obtain ⟨_, hn'⟩ := (full_iff sep a m' r').1 h'
  rw [he, hn'] at hn
  exact (List.append_inj he hn.symm).1

/-- the model-level checker implies the reference notion -/
theorem CutsFirst.toSpec {sep : Sep} {s : Str} {L : List Str} (h : CutsFirst sep s L) :
    SplitsFirst (beginsOf sep) (fullOf sep) s L := by
  induction h with
  | one p hfree =>
    refine SplitsFirst.one p ?_
    intro a b hp hd
    subst hp
    rw [topFree, topFreeLA_append, Bool.and_eq_true, hd] at hfree
    cases b with
    | nil =>
      cases hb : beginsOf sep a [] with
      | false => rfl
      | true => exact absurd (sepMatch_nil sep _) ((begins_iff sep a []).1 hb)
    | cons c r =>
      have h2 := hfree.2
      simp only [topFreeLA, List.append_nil, Bool.and_eq_true, Bool.or_eq_true, decide_eq_true_eq] at h2
      cases hb : beginsOf sep a (c :: r) with
      | false => rfl
      | true =>
        rcases h2.1 with h3 | h3
        · exact absurd rfl h3
        · exact absurd h3 ((begins_iff sep a _).1 hb)
  | cons p m rest ps hm hn hd hfree _ ih =>
    refine SplitsFirst.cons p m rest ps hd ((full_iff sep p m rest).2 ⟨hm, hn⟩) ?_ ih
    intro a b hp hb hda
    subst hp
    rw [topFreeLA_append, Bool.and_eq_true, hda] at hfree
    cases b with
    | nil => exact absurd rfl hb
    | cons c r =>
      have h2 := hfree.2
      simp only [topFreeLA, Bool.and_eq_true, Bool.or_eq_true, decide_eq_true_eq] at h2
      cases hbb : beginsOf sep a (c :: r ++ (m ++ rest)) with
      | false => rfl
      | true =>
        rcases h2.1 with h3 | h3
        · exact absurd rfl h3
        · exact absurd h3 ((begins_iff sep a _).1 hbb)

/-- every non-empty string: the unstripped pieces are THE first-match decomposition of the reference -/
theorem splitTexRaw_splitsFirst (sep : Sep) (s : Str) (hs : s ≠ []) :
    SplitsFirst (beginsOf sep) (fullOf sep) s (splitTexRaw sep s) :=
  (splitTexRaw_first sep s hs).toSpec

theorem splitsFirst_unique (sep : Sep) {s : Str} {L L' : List Str}
    (h : SplitsFirst (beginsOf sep) (fullOf sep) s L) (h' : SplitsFirst (beginsOf sep) (fullOf sep) s L') : L = L' :=
  SplitsFirst.unique (full_begins sep) (full_det sep) h h'

end Pybtex.TeXU
