/-
C01 helper lemmas: independent characterisations of two functions of the `.bib` reader model.

* Part A — `normalizeWs` (`textutils.normalize_whitespace`, `re.sub(r'\s+', ' ', s.strip())`):
  the result is in *normal form* (no leading / trailing white space, no two adjacent white-space
  characters, the only white-space character is the blank), normal forms are fixed points, the
  non-white-space characters are kept in order, and `normalizeWs s` is the blank-separated list of
  the words of `s` (`wordsOf`: split at every white-space character, drop the empty pieces).
* Part B — `splitNameList` (`split_tex_string(s, ' [Aa][Nn][Dd] ')` with `strip=True`): a braced
  group is opaque, a brace-balanced text without separator match at brace level 0 is one name,
  and such a text followed by a separator spelling is split off.

Nothing here is used by the model; the definitions of this file (`IsNormalWs`, `splitWs`,
`wordsOf`, `andScan0`, `noAndIn`) are reference notions.
-/
import PybtexModel.Model.BibParse
import PybtexModel.Lemmas.Basic
import PybtexModel.Lemmas.TeXString

namespace Pybtex.BibRT
open Pybtex Pybtex.Bib

/-! ## Part A: `normalizeWs` -/

/-! ### one-step equations of `collapseWs` -/

theorem collapseWs_nil (b : Bool) : collapseWs b [] = [] := by
  cases b <;> rfl

theorem collapseWs_ws_true {c : Char} (r : Str) (hc : isWs c = true) :
    collapseWs true (c :: r) = collapseWs true r := by
  simp [collapseWs, hc]

theorem collapseWs_ws_false {c : Char} (r : Str) (hc : isWs c = true) :
    collapseWs false (c :: r) = ' ' :: collapseWs true r := by
  simp [collapseWs, hc]

theorem collapseWs_nonws {c : Char} (b : Bool) (r : Str) (hc : isWs c = false) :
    collapseWs b (c :: r) = c :: collapseWs false r := by
  simp [collapseWs, hc]

private theorem isWs_blank : isWs ' ' = true := by decide

/-! ### `strip` -/

private theorem mem_takeWhile_isWs : ∀ (l : Str) (x : Char), x ∈ l.takeWhile isWs → isWs x = true := by
  intro l
  induction l with
  | nil => intro x hx; simp at hx
  | cons a r ih =>
    intro x hx
    simp only [List.takeWhile_cons] at hx
    split at hx
    · rename_i ha
      rcases List.mem_cons.1 hx with rfl | hx
      · exact ha
      · exact ih x hx
    · simp at hx

/-- `rstrip` removes a white-space suffix -/
theorem rstrip_decomp (t : Str) : ∃ b, (∀ c ∈ b, isWs c = true) ∧ t = rstrip t ++ b := by
  refine ⟨(t.reverse.takeWhile isWs).reverse, ?_, ?_⟩
  · intro c hc
    rw [List.mem_reverse] at hc
    exact mem_takeWhile_isWs _ c hc
  · unfold rstrip
    rw [← List.reverse_append, List.takeWhile_append_dropWhile, List.reverse_reverse]

theorem rstrip_last (t : Str) : ∀ c ∈ (rstrip t).getLast?, isWs c = false := by
  intro c hc
  unfold rstrip at hc
  rw [List.getLast?_reverse] at hc
  have := List.head?_dropWhile_not isWs t.reverse
  rw [Option.mem_def.1 hc] at this
  simpa using this

theorem lstrip_head (s : Str) : ∀ c ∈ (lstrip s).head?, isWs c = false := by
  intro c hc
  have := List.head?_dropWhile_not isWs s
  unfold lstrip at hc
  rw [Option.mem_def.1 hc] at this
  simpa using this

/-- `strip` removes a white-space prefix and a white-space suffix -/
theorem strip_decomp (s : Str) : ∃ a b, (∀ c ∈ a, isWs c = true) ∧ (∀ c ∈ b, isWs c = true) ∧
    s = a ++ strip s ++ b := by
  obtain ⟨b, hb, h2⟩ := rstrip_decomp (lstrip s)
  refine ⟨s.takeWhile isWs, b, fun c hc => mem_takeWhile_isWs _ c hc, hb, ?_⟩
  have h1 : s = s.takeWhile isWs ++ lstrip s := by
    unfold lstrip; exact List.takeWhile_append_dropWhile.symm
  unfold strip
  rw [List.append_assoc, ← h2]
  exact h1

theorem strip_head (s : Str) : ∀ c ∈ (strip s).head?, isWs c = false := by
  intro c hc
  obtain ⟨b, _, h2⟩ := rstrip_decomp (lstrip s)
  apply lstrip_head s c
  unfold strip at hc
  rw [h2]
  cases hr : rstrip (lstrip s) with
  | nil => rw [hr] at hc; simp at hc
  | cons x xs => rw [hr] at hc; simpa using hc

theorem strip_last (s : Str) : ∀ c ∈ (strip s).getLast?, isWs c = false :=
  rstrip_last (lstrip s)

theorem strip_eq_self {t : Str} (h1 : ∀ c ∈ t.head?, isWs c = false)
    (h2 : ∀ c ∈ t.getLast?, isWs c = false) : strip t = t := by
  cases t with
  | nil => rfl
  | cons c r =>
    have hc : isWs c = false := h1 c rfl
    have hl : lstrip (c :: r) = c :: r := by simp [lstrip, List.dropWhile, hc]
    unfold strip
    rw [hl]
    unfold rstrip
    cases hx : (c :: r).reverse with
    | nil => simp at hx
    | cons x xs =>
      have hxl : (c :: r).getLast? = some x := by
        rw [← List.reverse_reverse (c :: r), hx]; simp
      have hxw : isWs x = false := h2 x hxl
      simp only [List.dropWhile, hxw]
      rw [← hx, List.reverse_reverse]

/-! ### the normal form -/

/-- no two adjacent white-space characters (executable form) -/
def noAdjWs : Str → Bool
  | a :: b :: r => !(isWs a && isWs b) && noAdjWs (b :: r)
  | _ => true

/-- white-space normal form: no leading and no trailing white space, no two adjacent
white-space characters, and the only white-space character that occurs is the blank -/
structure IsNormalWs (t : Str) : Prop where
  no_lead : ∀ c ∈ t.head?, isWs c = false
  no_trail : ∀ c ∈ t.getLast?, isWs c = false
  no_adj : ∀ a b, [a, b] <:+: t → ¬ (isWs a = true ∧ isWs b = true)
  ws_blank : ∀ c ∈ t, isWs c = true → c = ' '

theorem noAdjWs_cons_cons (a b : Char) (r : Str) :
    noAdjWs (a :: b :: r) = (!(isWs a && isWs b) && noAdjWs (b :: r)) := rfl

theorem noAdjWs_cons_of_head {c : Char} {y : Str} (h : isWs c = false ∨ ∀ x ∈ y.head?, isWs x = false) :
    noAdjWs (c :: y) = noAdjWs y := by
  cases y with
  | nil => rfl
  | cons x y =>
    rw [noAdjWs_cons_cons]
    rcases h with h | h
    · simp [h]
    · simp [h x rfl]

theorem noAdjWs_tail {c : Char} {y : Str} (h : noAdjWs (c :: y) = true) : noAdjWs y = true := by
  cases y with
  | nil => rfl
  | cons x y =>
    rw [noAdjWs_cons_cons] at h
    simp only [Bool.and_eq_true] at h
    exact h.2

theorem noAdjWs_iff (t : Str) :
    noAdjWs t = true ↔ ∀ a b, [a, b] <:+: t → ¬ (isWs a = true ∧ isWs b = true) := by
  induction t with
  | nil =>
    constructor
    · intro _ a b h; simp at h
    · intro _; rfl
  | cons x r ih =>
    constructor
    · intro h a b hab
      rcases List.infix_cons_iff.1 hab with hp | hi
      · cases r with
        | nil =>
          have := hp.length_le
          simp at this
        | cons y r =>
          obtain ⟨t, ht⟩ := hp
          simp only [List.cons_append, List.nil_append, List.cons.injEq] at ht
          obtain ⟨rfl, rfl, _⟩ := ht
          rw [noAdjWs_cons_cons] at h
          simp only [Bool.and_eq_true, Bool.not_eq_true', Bool.and_eq_false_iff] at h
          intro hh
          rcases h.1 with h1 | h1
          · rw [hh.1] at h1; cases h1
          · rw [hh.2] at h1; cases h1
      · exact ih.1 (noAdjWs_tail h) a b hi
    · intro h
      cases r with
      | nil => rfl
      | cons y r =>
        rw [noAdjWs_cons_cons]
        simp only [Bool.and_eq_true, Bool.not_eq_true', Bool.and_eq_false_iff]
        refine ⟨?_, ih.2 (fun a b hab => h a b (List.infix_cons_iff.2 (Or.inr hab)))⟩
        have := h x y ⟨[], r, rfl⟩
        cases hx : isWs x <;> cases hy : isWs y <;> simp_all

/-! ### what `collapseWs` produces -/

theorem collapseWs_true_head (s : Str) : ∀ c ∈ (collapseWs true s).head?, isWs c = false := by
  induction s with
  | nil => intro c hc; simp [collapseWs_nil] at hc
  | cons x r ih =>
    cases hx : isWs x with
    | true => rw [collapseWs_ws_true r hx]; exact ih
    | false =>
      rw [collapseWs_nonws true r hx]
      intro c hc
      simp only [List.head?_cons, Option.mem_def, Option.some.injEq] at hc
      subst hc; exact hx

theorem collapseWs_noAdj (s : Str) : ∀ b, noAdjWs (collapseWs b s) = true := by
  induction s with
  | nil => intro b; rw [collapseWs_nil]; rfl
  | cons x r ih =>
    intro b
    cases hx : isWs x with
    | true =>
      cases b with
      | true => rw [collapseWs_ws_true r hx]; exact ih true
      | false =>
        rw [collapseWs_ws_false r hx, noAdjWs_cons_of_head (Or.inr (collapseWs_true_head r))]
        exact ih true
    | false =>
      rw [collapseWs_nonws b r hx, noAdjWs_cons_of_head (Or.inl hx)]
      exact ih false

theorem collapseWs_ws_blank (s : Str) : ∀ b, ∀ c ∈ collapseWs b s, isWs c = true → c = ' ' := by
  induction s with
  | nil => intro b c hc; simp [collapseWs_nil] at hc
  | cons x r ih =>
    intro b c hc hw
    cases hx : isWs x with
    | true =>
      cases b with
      | true => rw [collapseWs_ws_true r hx] at hc; exact ih true c hc hw
      | false =>
        rw [collapseWs_ws_false r hx] at hc
        rcases List.mem_cons.1 hc with rfl | hc
        · rfl
        · exact ih true c hc hw
    | false =>
      rw [collapseWs_nonws b r hx] at hc
      rcases List.mem_cons.1 hc with rfl | hc
      · rw [hx] at hw; cases hw
      · exact ih false c hc hw

theorem collapseWs_filter (s : Str) : ∀ b,
    (collapseWs b s).filter (fun c => !isWs c) = s.filter (fun c => !isWs c) := by
  induction s with
  | nil => intro b; rw [collapseWs_nil]
  | cons x r ih =>
    intro b
    cases hx : isWs x with
    | true =>
      cases b with
      | true => rw [collapseWs_ws_true r hx, ih true]; simp [hx]
      | false => rw [collapseWs_ws_false r hx]; simp [hx, isWs_blank, ih true]
    | false => rw [collapseWs_nonws b r hx]; simp [hx, ih false]

private theorem getLast?_cons_of_some {a c : Char} {l : Str} (h : l.getLast? = some c) :
    (a :: l).getLast? = some c := by
  cases l with
  | nil => simp at h
  | cons x l => rw [List.getLast?_cons_cons]; exact h

theorem collapseWs_last (s : Str) : ∀ (b : Bool) (c : Char), s.getLast? = some c → isWs c = false →
    (collapseWs b s).getLast? = some c := by
  induction s with
  | nil => intro b c h; simp at h
  | cons x r ih =>
    intro b c h hc
    cases r with
    | nil =>
      simp only [List.getLast?_singleton, Option.some.injEq] at h
      subst h
      rw [collapseWs_nonws b [] hc, collapseWs_nil]; rfl
    | cons y r =>
      rw [List.getLast?_cons_cons] at h
      cases hx : isWs x with
      | true =>
        cases b with
        | true => rw [collapseWs_ws_true _ hx]; exact ih true c h hc
        | false => rw [collapseWs_ws_false _ hx]; exact getLast?_cons_of_some (ih true c h hc)
      | false => rw [collapseWs_nonws b _ hx]; exact getLast?_cons_of_some (ih false c h hc)

/-- on a text that is already collapsed nothing changes (with `inWs` set the text must not
start with white space) -/
theorem collapseWs_id (t : Str) : ∀ b, (∀ c ∈ t, isWs c = true → c = ' ') → noAdjWs t = true →
    (b = true → ∀ c ∈ t.head?, isWs c = false) → collapseWs b t = t := by
  induction t with
  | nil => intro b _ _ _; exact collapseWs_nil b
  | cons x r ih =>
    intro b hbl hadj hb
    have hbl' : ∀ c ∈ r, isWs c = true → c = ' ' := fun c hc => hbl c (List.mem_cons_of_mem _ hc)
    cases hx : isWs x with
    | true =>
      cases b with
      | true => have := hb rfl x rfl; rw [hx] at this; cases this
      | false =>
        rw [collapseWs_ws_false r hx, hbl x (by simp) hx]
        congr 1
        apply ih true hbl' (noAdjWs_tail hadj)
        intro _ c hc
        cases r with
        | nil => simp at hc
        | cons y r =>
          simp only [List.head?_cons, Option.mem_def, Option.some.injEq] at hc
          subst hc
          rw [noAdjWs_cons_cons, hx] at hadj
          cases hy : isWs y with
          | true => rw [hy] at hadj; simp at hadj
          | false => rfl
    | false =>
      rw [collapseWs_nonws b r hx]
      congr 1
      exact ih false hbl' (noAdjWs_tail hadj) (fun h => by cases h)

/-! ### A1–A6 -/

/-- A2 (leading) -/
theorem normalizeWs_no_lead (s : Str) : ∀ c ∈ (normalizeWs s).head?, isWs c = false := by
  unfold normalizeWs
  have hh := strip_head s
  cases ht : strip s with
  | nil => intro c hc; simp [collapseWs_nil] at hc
  | cons x r =>
    rw [ht] at hh
    have hx : isWs x = false := hh x rfl
    rw [collapseWs_nonws false r hx]
    intro c hc
    simp only [List.head?_cons, Option.mem_def, Option.some.injEq] at hc
    subst hc; exact hx

/-- A2 (trailing) -/
theorem normalizeWs_no_trail (s : Str) : ∀ c ∈ (normalizeWs s).getLast?, isWs c = false := by
  unfold normalizeWs
  have hl := strip_last s
  cases hq : (strip s).getLast? with
  | none =>
    have : strip s = [] := by simpa using hq
    rw [this]; intro c hc; simp [collapseWs_nil] at hc
  | some x =>
    have hx : isWs x = false := hl x hq
    rw [collapseWs_last (strip s) false x hq hx]
    intro c hc
    simp only [Option.mem_def, Option.some.injEq] at hc
    subst hc; exact hx

/-- A3: no two adjacent white-space characters -/
theorem normalizeWs_no_adj (s : Str) :
    ∀ a b, [a, b] <:+: normalizeWs s → ¬ (isWs a = true ∧ isWs b = true) :=
  (noAdjWs_iff _).1 (collapseWs_noAdj (strip s) false)

/-- A4: the only white-space character of the result is the blank -/
theorem normalizeWs_ws_blank (s : Str) : ∀ c ∈ normalizeWs s, isWs c = true → c = ' ' :=
  collapseWs_ws_blank (strip s) false

private theorem filter_allws {a : Str} (ha : ∀ c ∈ a, isWs c = true) : a.filter (fun c => !isWs c) = [] := by
  rw [List.filter_eq_nil_iff]
  intro c hc; simp [ha c hc]

/-- A5: the non-white-space characters are kept, in order -/
theorem normalizeWs_nonws (s : Str) :
    (normalizeWs s).filter (fun c => !isWs c) = s.filter (fun c => !isWs c) := by
  obtain ⟨a, b, ha, hb, hs⟩ := strip_decomp s
  unfold normalizeWs
  rw [collapseWs_filter]
  conv => rhs; rw [hs]
  simp [filter_allws ha, filter_allws hb]

theorem normalizeWs_normal (s : Str) : IsNormalWs (normalizeWs s) :=
  ⟨normalizeWs_no_lead s, normalizeWs_no_trail s, normalizeWs_no_adj s, normalizeWs_ws_blank s⟩

/-- A6: a text in normal form is a fixed point -/
theorem normalizeWs_of_normal {t : Str} (h : IsNormalWs t) : normalizeWs t = t := by
  unfold normalizeWs
  rw [strip_eq_self h.no_lead h.no_trail]
  exact collapseWs_id t false h.ws_blank ((noAdjWs_iff t).2 h.no_adj) (fun hb => by cases hb)

/-- the image of `normalizeWs` is exactly the set of texts in normal form -/
theorem isNormalWs_iff (t : Str) : IsNormalWs t ↔ normalizeWs t = t :=
  ⟨normalizeWs_of_normal, fun h => h ▸ normalizeWs_normal t⟩

/-- A1 -/
theorem normalizeWs_idem (s : Str) : normalizeWs (normalizeWs s) = normalizeWs s :=
  normalizeWs_of_normal (normalizeWs_normal s)


/-! ### A7: the words of a text -/

/-- split at every white-space character (`n` white-space characters give `n + 1` pieces,
some of which may be empty) -/
def splitWs : Str → List Str
  | [] => [[]]
  | c :: r =>
    if isWs c then [] :: splitWs r
    else match splitWs r with
      | [] => [[c]]
      | w :: ws => (c :: w) :: ws

/-- the words of a text: its maximal runs of non-white-space characters, in order -/
def wordsOf (s : Str) : List Str := (splitWs s).filter (· ≠ [])

theorem splitWs_ne_nil (s : Str) : splitWs s ≠ [] := by
  cases s with
  | nil => simp [splitWs]
  | cons c r =>
    simp only [splitWs]
    split
    · simp
    · split <;> simp

theorem splitWs_cons_ws {c : Char} (r : Str) (hc : isWs c = true) : splitWs (c :: r) = [] :: splitWs r := by
  simp [splitWs, hc]

theorem splitWs_cons_nonws {c : Char} (r : Str) (hc : isWs c = false) :
    ∃ w ws, splitWs r = w :: ws ∧ splitWs (c :: r) = (c :: w) :: ws := by
  cases h : splitWs r with
  | nil => exact absurd h (splitWs_ne_nil r)
  | cons w ws => exact ⟨w, ws, rfl, by simp [splitWs, hc, h]⟩

/-- characterising equation (iii): a white-space character separates -/
theorem splitWs_append_ws {c : Char} (hc : isWs c = true) (u v : Str) :
    splitWs (u ++ c :: v) = splitWs u ++ splitWs v := by
  induction u with
  | nil => rw [List.nil_append, splitWs_cons_ws v hc]; rfl
  | cons x u ih =>
    rw [List.cons_append]
    cases hx : isWs x with
    | true => rw [splitWs_cons_ws _ hx, splitWs_cons_ws _ hx, ih]; rfl
    | false =>
      obtain ⟨w, ws, h1, h2⟩ := splitWs_cons_nonws u hx
      obtain ⟨w', ws', h1', h2'⟩ := splitWs_cons_nonws (u ++ c :: v) hx
      rw [h2, h2']
      rw [ih, h1] at h1'
      simp only [List.cons_append, List.cons.injEq] at h1'
      obtain ⟨rfl, rfl⟩ := h1'
      rfl

theorem splitWs_pieces (s : Str) : ∀ w ∈ splitWs s, ∀ c ∈ w, isWs c = false := by
  induction s with
  | nil => intro w hw c hc; simp [splitWs] at hw; subst hw; simp at hc
  | cons x r ih =>
    intro w hw c hc
    cases hx : isWs x with
    | true =>
      rw [splitWs_cons_ws r hx] at hw
      rcases List.mem_cons.1 hw with rfl | hw
      · simp at hc
      · exact ih w hw c hc
    | false =>
      obtain ⟨w0, ws, h1, h2⟩ := splitWs_cons_nonws r hx
      rw [h2] at hw
      rcases List.mem_cons.1 hw with rfl | hw
      · rcases List.mem_cons.1 hc with rfl | hc
        · exact hx
        · exact ih w0 (by rw [h1]; simp) c hc
      · exact ih w (by rw [h1]; simp [hw]) c hc

theorem splitWs_word {w : Str} (hw : ∀ c ∈ w, isWs c = false) : splitWs w = [w] := by
  induction w with
  | nil => rfl
  | cons x r ih =>
    obtain ⟨w0, ws, h1, h2⟩ := splitWs_cons_nonws r (hw x (by simp))
    rw [ih (fun c hc => hw c (by simp [hc]))] at h1
    simp only [List.cons.injEq] at h1
    obtain ⟨rfl, rfl⟩ := h1
    exact h2

/-- every word is non-empty and free of white space -/
theorem wordsOf_good (s : Str) : ∀ w ∈ wordsOf s, w ≠ [] ∧ ∀ c ∈ w, isWs c = false := by
  intro w hw
  unfold wordsOf at hw
  rw [List.mem_filter] at hw
  exact ⟨by simpa using hw.2, splitWs_pieces s w hw.1⟩

/-- the three equations that determine `wordsOf`: (i) no words in the empty text -/
theorem wordsOf_nil : wordsOf [] = [] := by simp [wordsOf, splitWs]

/-- (ii) a non-empty text without white space is one word -/
theorem wordsOf_word {w : Str} (hne : w ≠ []) (hw : ∀ c ∈ w, isWs c = false) : wordsOf w = [w] := by
  simp [wordsOf, splitWs_word hw, hne]

/-- (iii) a white-space character separates -/
theorem wordsOf_append_ws {c : Char} (hc : isWs c = true) (u v : Str) :
    wordsOf (u ++ c :: v) = wordsOf u ++ wordsOf v := by
  simp [wordsOf, splitWs_append_ws hc]

theorem wordsOf_cons_ws {c : Char} (r : Str) (hc : isWs c = true) : wordsOf (c :: r) = wordsOf r := by
  have := wordsOf_append_ws hc [] r
  simpa [wordsOf_nil] using this

theorem wordsOf_allws {b : Str} (hb : ∀ c ∈ b, isWs c = true) : wordsOf b = [] := by
  induction b with
  | nil => exact wordsOf_nil
  | cons x r ih =>
    rw [wordsOf_cons_ws r (hb x (by simp))]
    exact ih (fun c hc => hb c (by simp [hc]))

theorem wordsOf_ws_prefix {a : Str} (ha : ∀ c ∈ a, isWs c = true) (y : Str) : wordsOf (a ++ y) = wordsOf y := by
  induction a with
  | nil => rfl
  | cons x r ih =>
    rw [List.cons_append, wordsOf_cons_ws _ (ha x (by simp))]
    exact ih (fun c hc => ha c (by simp [hc]))

theorem wordsOf_ws_suffix {b : Str} (hb : ∀ c ∈ b, isWs c = true) (y : Str) : wordsOf (y ++ b) = wordsOf y := by
  cases b with
  | nil => rw [List.append_nil]
  | cons x r =>
    rw [wordsOf_append_ws (hb x (by simp)), wordsOf_allws (b := r) (fun c hc => hb c (by simp [hc])), List.append_nil]

theorem wordsOf_strip (s : Str) : wordsOf (strip s) = wordsOf s := by
  obtain ⟨a, b, ha, hb, hs⟩ := strip_decomp s
  conv => rhs; rw [hs]
  rw [wordsOf_ws_suffix hb, wordsOf_ws_prefix ha]

theorem wordsOf_collapseWs (x : Str) :
    (∀ p, wordsOf (p ++ collapseWs false x) = wordsOf (p ++ x)) ∧ wordsOf (collapseWs true x) = wordsOf x := by
  induction x with
  | nil => simp [collapseWs_nil]
  | cons c r ih =>
    cases hc : isWs c with
    | true =>
      constructor
      · intro p
        rw [collapseWs_ws_false r hc, wordsOf_append_ws isWs_blank, wordsOf_append_ws hc, ih.2]
      · rw [collapseWs_ws_true r hc, wordsOf_cons_ws r hc, ih.2]
    | false =>
      have h : ∀ (b : Bool) (p : Str), wordsOf (p ++ collapseWs b (c :: r)) = wordsOf (p ++ c :: r) := by
        intro b p
        rw [collapseWs_nonws b r hc]
        have := ih.1 (p ++ [c])
        simpa using this
      exact ⟨h false, by simpa using h true []⟩

/-- white-space normalisation does not change the words -/
theorem wordsOf_normalizeWs (s : Str) : wordsOf (normalizeWs s) = wordsOf s := by
  unfold normalizeWs
  have := (wordsOf_collapseWs (strip s)).1 []
  simp only [List.nil_append] at this
  rw [this, wordsOf_strip]

/-- every white-space character replaced by a blank -/
def blankWs (t : Str) : Str := t.map fun c => if isWs c then ' ' else c

private theorem joinWith_cons_cons {α} (sep : List α) (c : α) (w : List α) (ws : List (List α)) :
    joinWith sep ((c :: w) :: ws) = c :: joinWith sep (w :: ws) := by
  cases ws <;> rfl

theorem joinWith_splitWs (t : Str) : joinWith [' '] (splitWs t) = blankWs t := by
  induction t with
  | nil => rfl
  | cons x r ih =>
    cases hx : isWs x with
    | true =>
      rw [splitWs_cons_ws r hx]
      cases h : splitWs r with
      | nil => exact absurd h (splitWs_ne_nil r)
      | cons w ws =>
        rw [h] at ih
        simp only [joinWith, List.nil_append, List.cons_append, ih]
        simp [blankWs, hx]
    | false =>
      obtain ⟨w, ws, h1, h2⟩ := splitWs_cons_nonws r hx
      rw [h2, joinWith_cons_cons, ← h1, ih]
      simp [blankWs, hx]

theorem blankWs_id {t : Str} (h : ∀ c ∈ t, isWs c = true → c = ' ') : blankWs t = t := by
  induction t with
  | nil => rfl
  | cons x r ih =>
    have := ih (fun c hc => h c (by simp [hc]))
    simp only [blankWs, List.map_cons] at this ⊢
    rw [this]
    cases hx : isWs x with
    | true => simp [h x (by simp) hx]
    | false => simp

/-- no empty piece after the first one -/
theorem splitWs_tail_ne (r : Str) : noAdjWs r = true → (∀ c ∈ r.getLast?, isWs c = false) →
    [] ∉ (splitWs r).tail := by
  induction r with
  | nil => intro _ _; simp [splitWs]
  | cons x r ih =>
    intro hadj hl
    have hl' : r ≠ [] → ∀ c ∈ r.getLast?, isWs c = false := by
      intro hne c hc
      cases r with
      | nil => exact absurd rfl hne
      | cons y r => exact hl c (by rw [List.getLast?_cons_cons]; exact hc)
    cases hx : isWs x with
    | true =>
      rw [splitWs_cons_ws r hx, List.tail_cons]
      cases r with
      | nil => have := hl x rfl; rw [hx] at this; cases this
      | cons y r =>
        have hy : isWs y = false := by
          rw [noAdjWs_cons_cons, hx] at hadj
          cases hy : isWs y with
          | true => rw [hy] at hadj; simp at hadj
          | false => rfl
        obtain ⟨w, ws, h1, h2⟩ := splitWs_cons_nonws r hy
        have := ih (noAdjWs_tail hadj) (hl' (by simp))
        rw [h2] at this ⊢
        simpa using this
    | false =>
      obtain ⟨w, ws, h1, h2⟩ := splitWs_cons_nonws r hx
      rw [h2, List.tail_cons]
      by_cases hr : r = []
      · subst hr; simp [splitWs] at h1; rw [h1.2]; simp
      · have := ih (noAdjWs_tail hadj) (hl' hr)
        rw [h1] at this
        simpa using this

/-- a text in normal form is the blank-separated list of its words -/
theorem joinWith_wordsOf_of_normal {t : Str} (h : IsNormalWs t) : joinWith [' '] (wordsOf t) = t := by
  cases t with
  | nil => rfl
  | cons x r =>
    have hx : isWs x = false := h.no_lead x rfl
    have hadj := (noAdjWs_iff _).2 h.no_adj
    have ht := splitWs_tail_ne (x :: r) hadj h.no_trail
    obtain ⟨w, ws, h1, h2⟩ := splitWs_cons_nonws r hx
    have hw : wordsOf (x :: r) = splitWs (x :: r) := by
      unfold wordsOf
      rw [List.filter_eq_self]
      intro p hp
      rw [h2] at hp ht
      rcases List.mem_cons.1 hp with rfl | hp
      · simp
      · simp only [List.tail_cons] at ht
        have : p ≠ [] := fun hh => ht (hh ▸ hp)
        simpa using this
    rw [hw, joinWith_splitWs, blankWs_id h.ws_blank]

/-- A7 (spec form): `normalizeWs s` is the words of `s` joined by single blanks -/
theorem normalizeWs_eq_join (s : Str) : normalizeWs s = joinWith [' '] (wordsOf s) := by
  rw [← wordsOf_normalizeWs s]
  exact (joinWith_wordsOf_of_normal (normalizeWs_normal s)).symm

/-- A7 (completeness): two texts have the same normalisation iff they have the same words -/
theorem normalizeWs_eq_iff (s s' : Str) : normalizeWs s = normalizeWs s' ↔ wordsOf s = wordsOf s' := by
  constructor
  · intro h
    rw [← wordsOf_normalizeWs s, h, wordsOf_normalizeWs]
  · intro h
    rw [normalizeWs_eq_join, normalizeWs_eq_join, h]

/-- the words, concatenated, are the non-white-space characters of the text -/
theorem wordsOf_flatten (s : Str) : (wordsOf s).flatten = s.filter (fun c => !isWs c) := by
  induction s with
  | nil => rfl
  | cons x r ih =>
    cases hx : isWs x with
    | true => rw [wordsOf_cons_ws r hx, ih]; simp [hx]
    | false =>
      obtain ⟨w, ws, h1, h2⟩ := splitWs_cons_nonws r hx
      unfold wordsOf at ih ⊢
      rw [h2]
      rw [h1] at ih
      simp only [List.filter_cons, hx] at ih ⊢
      by_cases hw : w = []
      · subst hw; simpa using ih
      · simpa [hw] using ih


/-- `wordsOf` inverts joining with blanks: every list of non-empty white-space-free words is the
word list of its blank-separated concatenation -/
theorem wordsOf_joinWith (ws : List Str) (h : ∀ w ∈ ws, w ≠ [] ∧ ∀ c ∈ w, isWs c = false) :
    wordsOf (joinWith [' '] ws) = ws := by
  induction ws with
  | nil => exact wordsOf_nil
  | cons w rest ih =>
    have hw := h w (by simp)
    cases rest with
    | nil => exact wordsOf_word hw.1 hw.2
    | cons y r =>
      have e : joinWith [' '] (w :: y :: r) = w ++ ' ' :: joinWith [' '] (y :: r) := by
        simp [joinWith]
      rw [e, wordsOf_append_ws isWs_blank, wordsOf_word hw.1 hw.2, ih (fun x hx => h x (by simp [hx]))]
      rfl

/-! ## Part B: `splitNameList` -/

open Pybtex.Spec

/-! ### the separator test -/

theorem andAt_five (c1 c2 c3 c4 c5 : Char) (r : Str) :
    isAndAt (c1 :: c2 :: c3 :: c4 :: c5 :: r) =
      (decide (c1 = ' ') && ((c2 = 'a' || c2 = 'A') && (c3 = 'n' || c3 = 'N') && (c4 = 'd' || c4 = 'D')) &&
        decide (c5 = ' ')) := by
  unfold isAndAt
  split
  · rename_i a n d tail heq
    simp only [List.cons.injEq] at heq
    obtain ⟨rfl, rfl, rfl, rfl, rfl, rfl⟩ := heq
    simp
  · rename_i hne
    by_cases h1 : c1 = ' '
    · by_cases h5 : c5 = ' '
      · subst h1 h5; exact absurd rfl (hne _ _ _ _)
      · simp [h5]
    · simp [h1]

theorem andAt_short (s : Str) (h : s.length < 5) : isAndAt s = false := by
  unfold isAndAt
  split
  · simp only [List.length_cons] at h; omega
  · rfl

/-- a separator spelling: a blank, `a`/`A`, `n`/`N`, `d`/`D`, a blank -/
theorem isAndSep_iff (w : Str) : isAndSep w = true ↔
    ∃ c1 c2 c3, w = [' ', c1, c2, c3, ' '] ∧ (c1 = 'a' ∨ c1 = 'A') ∧ (c2 = 'n' ∨ c2 = 'N') ∧ (c3 = 'd' ∨ c3 = 'D') := by
  constructor
  · intro h
    unfold isAndSep at h
    split at h
    · rename_i a n d
      refine ⟨a, n, d, rfl, ?_⟩
      simpa [and_assoc] using h
    · cases h
  · rintro ⟨c1, c2, c3, rfl, h1, h2, h3⟩
    simp [isAndSep, h1, h2, h3]

/-- a separator spelling matches, whatever follows -/
theorem andAt_sep {w : Str} (hw : isAndSep w = true) (x : Str) : isAndAt (w ++ x) = true := by
  obtain ⟨c1, c2, c3, rfl, h1, h2, h3⟩ := (isAndSep_iff w).1 hw
  simp only [List.cons_append, List.nil_append]
  rw [andAt_five]
  simp [h1, h2, h3]

theorem andAt_append_of_true {x : Str} (h : isAndAt x = true) (y : Str) : isAndAt (x ++ y) = true := by
  rcases x with _ | ⟨c1, _ | ⟨c2, _ | ⟨c3, _ | ⟨c4, _ | ⟨c5, r⟩⟩⟩⟩⟩
  · rw [andAt_short _ (by simp)] at h; cases h
  · rw [andAt_short _ (by simp)] at h; cases h
  · rw [andAt_short _ (by simp)] at h; cases h
  · rw [andAt_short _ (by simp)] at h; cases h
  · rw [andAt_short _ (by simp)] at h; cases h
  · simp only [List.cons_append]
    rw [andAt_five] at h ⊢
    exact h

/-- a match that starts in `x` (non-empty) and needs the blank that follows `x` does not look
further: what comes after the blank is irrelevant -/
theorem andAt_sentinel (x rest : Str) (hx : x ≠ []) (h : isAndAt (x ++ [' ']) = false) :
    isAndAt (x ++ ' ' :: rest) = false := by
  rcases x with _ | ⟨c1, _ | ⟨c2, _ | ⟨c3, _ | ⟨c4, _ | ⟨c5, r⟩⟩⟩⟩⟩
  · exact absurd rfl hx
  · rcases rest with _ | ⟨x1, _ | ⟨x2, _ | ⟨x3, r4⟩⟩⟩
    · exact andAt_short _ (by simp)
    · exact andAt_short _ (by simp)
    · exact andAt_short _ (by simp)
    · simp only [List.cons_append, List.nil_append]; rw [andAt_five]; simp
  · rcases rest with _ | ⟨x1, _ | ⟨x2, r4⟩⟩
    · exact andAt_short _ (by simp)
    · exact andAt_short _ (by simp)
    · simp only [List.cons_append, List.nil_append]; rw [andAt_five]; simp
  · rcases rest with _ | ⟨x1, r4⟩
    · exact andAt_short _ (by simp)
    · simp only [List.cons_append, List.nil_append]; rw [andAt_five]; simp
  · simp only [List.cons_append, List.nil_append] at h ⊢
    rw [andAt_five] at h ⊢
    exact h
  · simp only [List.cons_append] at h ⊢
    rw [andAt_five] at h ⊢
    exact h

/-- the separator test does not look past an opening brace -/
theorem andAt_append_brace (a X' : Str) : isAndAt (a ++ '{' :: X') = isAndAt a := by
  rcases a with _ | ⟨c1, _ | ⟨c2, _ | ⟨c3, _ | ⟨c4, _ | ⟨c5, r⟩⟩⟩⟩⟩
  · rw [andAt_short [] (by simp)]
    rcases X' with _ | ⟨x1, _ | ⟨x2, _ | ⟨x3, _ | ⟨x4, r⟩⟩⟩⟩
    · exact andAt_short _ (by simp)
    · exact andAt_short _ (by simp)
    · exact andAt_short _ (by simp)
    · exact andAt_short _ (by simp)
    · simp only [List.nil_append]; rw [andAt_five]; simp
  · rw [andAt_short [c1] (by simp)]
    rcases X' with _ | ⟨x2, _ | ⟨x3, _ | ⟨x4, r⟩⟩⟩
    · exact andAt_short _ (by simp)
    · exact andAt_short _ (by simp)
    · exact andAt_short _ (by simp)
    · simp only [List.cons_append, List.nil_append]; rw [andAt_five]; simp
  · rw [andAt_short [c1, c2] (by simp)]
    rcases X' with _ | ⟨x2, _ | ⟨x3, r⟩⟩
    · exact andAt_short _ (by simp)
    · exact andAt_short _ (by simp)
    · simp only [List.cons_append, List.nil_append]; rw [andAt_five]; simp
  · rw [andAt_short [c1, c2, c3] (by simp)]
    rcases X' with _ | ⟨x2, r⟩
    · exact andAt_short _ (by simp)
    · simp only [List.cons_append, List.nil_append]; rw [andAt_five]; simp
  · rw [andAt_short [c1, c2, c3, c4] (by simp)]
    simp only [List.cons_append, List.nil_append]; rw [andAt_five]; simp
  · simp only [List.cons_append]; rw [andAt_five, andAt_five]

/-! ### predicates: no separator match -/

/-- no separator match starts at a position of `h` in the text `h ++ Y` -/
def noMatchIn (Y : Str) : Str → Bool
  | [] => true
  | c :: r => !isAndAt (c :: r ++ Y) && noMatchIn Y r

/-- no separator match starts inside `a` when `a` is followed by a blank (a match needs a final
blank, and in a name list the text after a name is a separator, which starts with a blank) -/
def noAndIn (a : Str) : Bool := noMatchIn [' '] a

/-- the same at brace level 0 only: `d` = current brace depth -/
def andScan0 : Nat → Str → Bool
  | _, [] => true
  | d, c :: r =>
    if c = '{' then andScan0 (d + 1) r
    else if c = '}' then andScan0 (d - 1) r
    else (d != 0 || !isAndAt (c :: r)) && andScan0 d r

/-- no separator match at brace level 0 starts inside `a` when `a` is followed by a blank -/
def noAnd0 (a : Str) : Bool := andScan0 0 (a ++ [' '])

/-- brace-free -/
def Plain (h : Str) : Prop := ∀ c ∈ h, c ≠ '{' ∧ c ≠ '}'

theorem noMatchIn_iff (Y a : Str) :
    noMatchIn Y a = true ↔ ∀ i, i < a.length → isAndAt (a.drop i ++ Y) = false := by
  induction a with
  | nil => simp [noMatchIn]
  | cons c r ih =>
    simp only [noMatchIn, Bool.and_eq_true, Bool.not_eq_true', ih]
    constructor
    · rintro ⟨h0, h1⟩ i hi
      cases i with
      | zero => exact h0
      | succ i => exact h1 i (by simpa using hi)
    · intro h
      exact ⟨h 0 (by simp), fun i hi => h (i + 1) (by simpa using hi)⟩

/-- `noAndIn a`: no suffix of `a␣` that starts inside `a` begins with a separator match -/
theorem noAndIn_iff (a : Str) :
    noAndIn a = true ↔ ∀ i, i < a.length → isAndAt (a.drop i ++ [' ']) = false :=
  noMatchIn_iff [' '] a

theorem noMatchIn_of_noAndIn {h : Str} (hn : noAndIn h = true) (Y : Str)
    (hY : Y = [] ∨ (∃ Z, Y = ' ' :: Z) ∨ ∃ Z, Y = '{' :: Z) : noMatchIn Y h = true := by
  unfold noAndIn at hn
  induction h with
  | nil => rfl
  | cons c r ih =>
    simp only [noMatchIn, Bool.and_eq_true, Bool.not_eq_true'] at hn ⊢
    refine ⟨?_, ih hn.2⟩
    have h0 : isAndAt ((c :: r) ++ [' ']) = false := hn.1
    have hnil : isAndAt (c :: r) = false := by
      cases hq : isAndAt (c :: r) with
      | false => rfl
      | true => rw [andAt_append_of_true hq] at h0; cases h0
    rcases hY with rfl | ⟨Z, rfl⟩ | ⟨Z, rfl⟩
    · rw [List.append_nil]; exact hnil
    · exact andAt_sentinel (c :: r) Z (by simp) h0
    · rw [andAt_append_brace]; exact hnil

theorem andScan0_plain_append {h : Str} (hp : Plain h) (Y : Str) :
    andScan0 0 (h ++ Y) = (noMatchIn Y h && andScan0 0 Y) := by
  induction h with
  | nil => simp [noMatchIn]
  | cons c r ih =>
    have hc := hp c (by simp)
    have := ih (fun x hx => hp x (by simp [hx]))
    simp only [List.cons_append, andScan0, if_neg hc.1, if_neg hc.2, noMatchIn, this]
    simp [Bool.and_assoc]

theorem andScan0_inside (Y : Str) : ∀ (body : Str) (j e : Nat), depthAfter j body = some e →
    andScan0 (j + 1) (body ++ Y) = andScan0 (e + 1) Y := by
  intro body
  induction body with
  | nil =>
    intro j e h
    simp only [depthAfter, Option.some.injEq] at h
    subst h; rfl
  | cons c r ih =>
    intro j e h
    simp only [List.cons_append]
    by_cases h1 : c = '{'
    · subst h1
      simp only [depthAfter, if_true] at h
      simp only [andScan0, if_true]
      exact ih (j + 1) e h
    · by_cases h2 : c = '}'
      · subst h2
        simp only [depthAfter] at h
        cases j with
        | zero => simp at h
        | succ j =>
          simp only [show ¬ ('}' = '{') by decide, if_false, if_true, Nat.succ_ne_zero, Nat.add_sub_cancel] at h
          simp only [andScan0, show ¬ ('}' = '{') by decide, if_false, if_true, Nat.add_sub_cancel]
          exact ih j e h
      · simp only [depthAfter, if_neg h1, if_neg h2] at h
        simp only [andScan0, if_neg h1, if_neg h2]
        rw [ih j e h]
        simp

/-- for brace-free text the two predicates agree -/
theorem noAnd0_plain {a : Str} (hp : Plain a) : noAnd0 a = noAndIn a := by
  unfold noAnd0 noAndIn
  rw [andScan0_plain_append hp]
  have : andScan0 0 [' '] = true := by decide
  rw [this, Bool.and_true]

/-- decomposition of the predicate along `head { body } tail` -/
theorem noAnd0_group {h body tail : Str} (hp : Plain h) (hb : depthAfter 0 body = some 0)
    (hn : noAnd0 (h ++ '{' :: body ++ '}' :: tail) = true) :
    noMatchIn [] h = true ∧ noAnd0 tail = true := by
  unfold noAnd0 at hn ⊢
  have e : (h ++ '{' :: body ++ '}' :: tail) ++ [' '] = h ++ '{' :: (body ++ '}' :: (tail ++ [' '])) := by simp
  rw [e, andScan0_plain_append hp, Bool.and_eq_true] at hn
  obtain ⟨h1, h2⟩ := hn
  constructor
  · rw [noMatchIn_iff] at h1 ⊢
    intro i hi
    have := h1 i hi
    rw [andAt_append_brace] at this
    rw [List.append_nil]; exact this
  · have h3 : andScan0 0 ('{' :: (body ++ '}' :: (tail ++ [' ']))) = andScan0 1 (body ++ '}' :: (tail ++ [' '])) := by
      simp [andScan0]
    rw [h3, andScan0_inside _ body 0 0 hb] at h2
    simpa [andScan0] using h2


/-! ### `re.split` with the separator ` and ` -/

private theorem sepMatch_and (pv : Option Char) (s : Str) : sepMatch .and pv s = if isAndAt s = true then 5 else 0 := rfl

/-- the look-behind is not used by this separator -/
theorem reSplitAux_and_prev (fuel : Nat) (prev : Option Char) (cur s : Str) :
    reSplitAux .and fuel prev cur s = reSplitAux .and fuel none cur s := by
  cases fuel with
  | zero => rfl
  | succ fuel =>
    cases s with
    | nil => rfl
    | cons c r => rfl

/-- `re.split` with the fuel of `reSplit`, current piece `cur` -/
def rsAnd (cur s : Str) : List Str := reSplitAux .and (s.length + 1) none cur s

theorem reSplit_and (s : Str) : reSplit .and s = rsAnd [] s := rfl

theorem rsAnd_nil (cur : Str) : rsAnd cur [] = [cur] := rfl

theorem rsAnd_cons_no {c : Char} {r : Str} (cur : Str) (h : isAndAt (c :: r) = false) :
    rsAnd cur (c :: r) = rsAnd (cur ++ [c]) r := by
  unfold rsAnd
  simp only [List.length_cons, reSplitAux, sepMatch_and, h, Bool.false_eq_true, if_false, if_true]
  exact reSplitAux_and_prev _ _ _ _

theorem rsAnd_sep {w : Str} (hw : isAndSep w = true) (cur x : Str) :
    rsAnd cur (w ++ x) = cur :: rsAnd [] x := by
  have hm := andAt_sep hw x
  obtain ⟨c1, c2, c3, rfl, _⟩ := (isAndSep_iff w).1 hw
  unfold rsAnd
  simp only [List.cons_append, List.nil_append] at hm ⊢
  simp only [List.length_cons, reSplitAux, sepMatch_and, hm, if_true]
  simp only [show (5 : Nat) ≠ 0 by decide, if_false, List.drop_succ_cons, List.drop_zero]
  congr 1
  rw [reSplitAux_and_prev]
  exact reSplitAux_fuel .and _ _ none [] x (by omega) (by omega)

/-- a stretch without separator match is copied to the current piece -/
theorem rsAnd_skip (Y : Str) : ∀ (h cur : Str), noMatchIn Y h = true → rsAnd cur (h ++ Y) = rsAnd (cur ++ h) Y := by
  intro h
  induction h with
  | nil => intro cur _; simp
  | cons c r ih =>
    intro cur hn
    simp only [noMatchIn, Bool.and_eq_true, Bool.not_eq_true'] at hn
    rw [List.cons_append, rsAnd_cons_no cur (by simpa using hn.1), ih _ hn.2]
    simp

theorem reSplit_and_one {h : Str} (hn : noMatchIn [] h = true) : reSplit .and h = [h] := by
  have := rsAnd_skip [] h [] hn
  rw [List.append_nil, List.nil_append, rsAnd_nil] at this
  rw [reSplit_and]; exact this

theorem reSplit_and_junction {h w : Str} (hn : noAndIn h = true) (hw : isAndSep w = true) (x : Str) :
    reSplit .and (h ++ w ++ x) = h :: reSplit .and x := by
  have hY : noMatchIn (w ++ x) h = true := by
    apply noMatchIn_of_noAndIn hn
    obtain ⟨c1, c2, c3, rfl, _⟩ := (isAndSep_iff w).1 hw
    exact Or.inr (Or.inl ⟨_, rfl⟩)
  rw [reSplit_and, reSplit_and, List.append_assoc, rsAnd_skip _ h [] hY, List.nil_append, rsAnd_sep hw]

private theorem reSplit_ne_nil (sep : Sep) (s : Str) : reSplit sep s ≠ [] :=
  (reSplit_spec sep s).ne_nil

/-! ### one step of the main loop on a head without separator match -/

theorem headStep_and_one {h : Str} (hn : noMatchIn [] h = true) (result : List Str) (wp : Option Str) :
    headStep .and h result wp = (result, if h = [] then wp else some (preOf wp ++ h)) := by
  unfold headStep
  by_cases hh : h = []
  · simp [hh]
  · rw [if_pos hh, reSplit_and_one hn, if_neg hh]

theorem headStep_and_junction {h w : Str} (hn : noAndIn h = true) (hw : isAndSep w = true) (x : Str)
    (wp : Option Str) :
    (headStep .and (h ++ w ++ x) [] wp).1 = (preOf wp ++ h) :: (headStep .and x [] none).1 ∧
    preOf (headStep .and (h ++ w ++ x) [] wp).2 = preOf (headStep .and x [] none).2 ∧
    (x ≠ [] → (headStep .and (h ++ w ++ x) [] wp).2 = (headStep .and x [] none).2) := by
  have hne : h ++ w ++ x ≠ [] := by
    obtain ⟨c1, c2, c3, rfl, _⟩ := (isAndSep_iff w).1 hw
    simp
  have hre := reSplit_and_junction hn hw x
  unfold headStep
  rw [if_pos hne, hre]
  by_cases hx : x = []
  · subst hx
    have : reSplit .and [] = [[]] := rfl
    simp [this]
  · rw [if_pos hx]
    cases hr : reSplit .and x with
    | nil => exact absurd hr (reSplit_ne_nil _ _)
    | cons p ps =>
      cases ps with
      | nil => simp
      | cons q qs => simp

theorem takeWhile_plain_brace {h : Str} (hp : Plain h) (Z : Str) :
    (h ++ '{' :: Z).takeWhile (· ≠ '{') = h ∧ (h ++ '{' :: Z).dropWhile (· ≠ '{') = '{' :: Z := by
  have hpos : ∀ a ∈ h, (decide (a ≠ '{')) = true := fun a ha => by simpa using (hp a ha).1
  rw [List.takeWhile_append_of_pos hpos, List.dropWhile_append_of_pos hpos]
  simp

theorem takeWhile_plain_nil {h : Str} (hp : Plain h) :
    h.takeWhile (· ≠ '{') = h ∧ h.dropWhile (· ≠ '{') = [] := by
  have hpos : ∀ a ∈ h, (decide (a ≠ '{')) = true := fun a ha => by simpa using (hp a ha).1
  have h1 := List.takeWhile_append_of_pos (l₂ := []) hpos
  have h2 := List.dropWhile_append_of_pos (l₂ := []) hpos
  simpa using And.intro h1 h2

/-- a brace-free head without separator match and the balanced group after it are appended to
the pending word -/
theorem splitLoop_and_group {h body : Str} (hp : Plain h) (hn : noMatchIn [] h = true)
    (hb : depthAfter 0 body = some 0) (fuel : Nat) (X : Str) (result : List Str) (wp : Option Str) :
    splitLoop .and (fuel + 1) (h ++ '{' :: body ++ '}' :: X) result wp =
      splitLoop .and fuel X result (some (preOf wp ++ h ++ '{' :: body ++ ['}'])) := by
  have e : h ++ '{' :: body ++ '}' :: X = h ++ '{' :: (body ++ '}' :: X) := by simp
  obtain ⟨h1, h2⟩ := takeWhile_plain_brace hp (body ++ '}' :: X)
  rw [splitLoop_succ, e, h1, h2]
  simp only []
  rw [findClosingBrace_matching body X hb, headStep_and_one hn]
  by_cases hh : h = []
  · subst hh; simp
  · simp [hh]

/-- the last stretch of a name: brace-free, without separator match, and the text ends -/
theorem splitLoop_and_last {h : Str} (hp : Plain h) (hn : noMatchIn [] h = true) (fuel : Nat)
    (wp : Option Str) (hne : h ≠ [] ∨ wp ≠ none) :
    splitLoop .and (fuel + 1) h [] wp = [preOf wp ++ h] := by
  obtain ⟨h1, h2⟩ := takeWhile_plain_nil hp
  rw [splitLoop_succ, h1, h2]
  simp only []
  rw [headStep_and_one hn]
  by_cases hh : h = []
  · subst hh
    cases wp with
    | none => simp at hne
    | some w => simp [finish]
  · simp [hh, finish]


private theorem sep_no_brace {w : Str} (hw : isAndSep w = true) : ∀ c ∈ w, c ≠ '{' := by
  obtain ⟨c1, c2, c3, rfl, h1, h2, h3⟩ := (isAndSep_iff w).1 hw
  intro c hc
  simp only [List.mem_cons, List.not_mem_nil, or_false] at hc
  rcases hc with rfl | rfl | rfl | rfl | rfl
  · decide
  · rcases h1 with rfl | rfl <;> decide
  · rcases h2 with rfl | rfl <;> decide
  · rcases h3 with rfl | rfl <;> decide
  · decide

private theorem sep_ne_nil {w : Str} (hw : isAndSep w = true) : w ≠ [] := by
  obtain ⟨c1, c2, c3, rfl, _⟩ := (isAndSep_iff w).1 hw
  simp

/-- the last brace-free stretch of a name, a separator, and more text: the name is finished and
the loop continues on the text as if it started there -/
theorem splitLoop_and_junction_plain {h w : Str} (hp : Plain h) (hn : noAndIn h = true)
    (hw : isAndSep w = true) (b : Str) (hb : b ≠ []) (fuel : Nat) (wp : Option Str)
    (hf : (h ++ w ++ b).length < fuel + 1) :
    splitLoop .and (fuel + 1) (h ++ w ++ b) [] wp =
      (preOf wp ++ h) :: splitLoop .and (b.length + 1) b [] none := by
  have hpos : ∀ a ∈ h ++ w, (decide (a ≠ '{')) = true := by
    intro a ha
    rcases List.mem_append.1 ha with ha | ha
    · simpa using (hp a ha).1
    · simpa using sep_no_brace hw a ha
  have h1 : (h ++ w ++ b).takeWhile (· ≠ '{') = h ++ w ++ b.takeWhile (· ≠ '{') :=
    List.takeWhile_append_of_pos hpos
  have h2 : (h ++ w ++ b).dropWhile (· ≠ '{') = b.dropWhile (· ≠ '{') :=
    List.dropWhile_append_of_pos hpos
  have hbs : b = b.takeWhile (· ≠ '{') ++ b.dropWhile (· ≠ '{') := List.takeWhile_append_dropWhile.symm
  obtain ⟨j1, j2, j3⟩ := headStep_and_junction hn hw (b.takeWhile (· ≠ '{')) wp
  rw [splitLoop_succ, splitLoop_succ, h1, h2]
  generalize hJ : headStep .and (h ++ w ++ b.takeWhile (· ≠ '{')) [] wp = J at j1 j2 j3 ⊢
  generalize hB : headStep .and (b.takeWhile (· ≠ '{')) [] none = B at j1 j2 j3 ⊢
  cases hd : b.dropWhile (· ≠ '{') with
  | nil =>
    simp only []
    rw [hd, List.append_nil] at hbs
    rw [j1, j3 (by rw [← hbs]; exact hb)]
    exact finish_append [preOf wp ++ h] B.1 B.2
  | cons c rest =>
    simp only []
    have hlen : (findClosingBrace rest).2.length < b.length := by
      have := findClosingBrace_length rest
      have hl := congrArg List.length hbs
      rw [hd] at hl
      simp only [List.length_append, List.length_cons] at hl
      omega
    have hlen2 : b.length ≤ fuel := by
      simp only [List.length_append] at hf; omega
    rw [j1, j2, splitLoop_acc .and fuel _ ((preOf wp ++ h) :: B.1), splitLoop_acc .and b.length _ B.1]
    rw [splitLoop_fuel .and fuel b.length _ [] _ (by omega) hlen]
    rfl

/-- the same when the text ends after the separator: a last, empty piece -/
theorem splitLoop_and_junction_nil {h w : Str} (hp : Plain h) (hn : noAndIn h = true)
    (hw : isAndSep w = true) (fuel : Nat) (wp : Option Str) :
    splitLoop .and (fuel + 1) (h ++ w) [] wp = [preOf wp ++ h, []] := by
  have hpl : ∀ a ∈ h ++ w, (decide (a ≠ '{')) = true := by
    intro a ha
    rcases List.mem_append.1 ha with ha | ha
    · simpa using (hp a ha).1
    · simpa using sep_no_brace hw a ha
  have h1 := List.takeWhile_append_of_pos (l₂ := []) hpl
  have h2 := List.dropWhile_append_of_pos (l₂ := []) hpl
  simp only [List.append_nil, List.takeWhile_nil, List.dropWhile_nil] at h1 h2
  have hre := reSplit_and_junction hn hw []
  rw [List.append_nil] at hre
  have hne : h ++ w ≠ [] := by simp [sep_ne_nil hw]
  rw [splitLoop_succ, h1, h2]
  simp only []
  unfold headStep
  rw [if_pos hne, hre]
  have : reSplit .and [] = [[]] := rfl
  simp [this, finish]

/-- induction over the groups of a brace-balanced text `a` without separator match at brace
level 0: the loop appends all of `a` up to its last brace-free stretch to the pending word; what
happens then (`base`) depends on the text `X` that follows -/
theorem splitLoop_and_peel (X : Str) (F : Str → List Str)
    (base : ∀ (fuel : Nat) (h : Str) (wp : Option Str), (h ++ X).length < fuel → Plain h →
      noAndIn h = true → (h ≠ [] ∨ wp ≠ none ∨ X ≠ []) →
      splitLoop .and fuel (h ++ X) [] wp = F (preOf wp ++ h)) :
    ∀ (fuel : Nat) (a : Str) (wp : Option Str), (a ++ X).length < fuel → depthAfter 0 a = some 0 →
      noAnd0 a = true → (a ≠ [] ∨ wp ≠ none ∨ X ≠ []) →
      splitLoop .and fuel (a ++ X) [] wp = F (preOf wp ++ a) := by
  intro fuel
  induction fuel with
  | zero => intro a _ h; omega
  | succ fuel ih =>
    intro a wp hlen hbal hn hne
    have hs : a = a.takeWhile (· ≠ '{') ++ a.dropWhile (· ≠ '{') := List.takeWhile_append_dropWhile.symm
    obtain ⟨hplain, hafter⟩ := balanced_head a 0 hbal
    generalize hhead : a.takeWhile (· ≠ '{') = h at *
    cases hd : a.dropWhile (· ≠ '{') with
    | nil =>
      rw [hd, List.append_nil] at hs
      subst hs
      exact base (fuel + 1) a wp hlen hplain (by rw [← noAnd0_plain hplain]; exact hn) hne
    | cons c rest =>
      rw [hd] at hafter hs
      have hc : c = '{' := by
        have := List.head?_dropWhile_not (fun x => decide (x ≠ '{')) a
        rw [hd] at this
        simpa using this
      subst hc
      have hrest : depthAfter 1 rest = some 0 := by simpa [depthAfter] using hafter
      obtain ⟨body, tail, rfl, hb1, hb2⟩ := matching_brace rest 0 hrest
      have hs' : a = h ++ '{' :: body ++ '}' :: tail := by rw [hs]; simp
      rw [hs'] at hn
      obtain ⟨hn1, hn2⟩ := noAnd0_group hplain hb1 hn
      have e : a ++ X = h ++ '{' :: body ++ '}' :: (tail ++ X) := by rw [hs']; simp
      have htl : (tail ++ X).length < fuel := by
        have := congrArg List.length e
        simp only [List.length_append, List.length_cons] at this hlen ⊢
        omega
      rw [e, splitLoop_and_group hplain hn1 hb1, ih tail _ htl hb2 hn2 (Or.inr (Or.inl (by simp)))]
      congr 1
      rw [hs']
      simp

/-- a brace-balanced text without separator match at brace level 0 is one piece -/
theorem splitLoop_and_one {a : Str} (hbal : depthAfter 0 a = some 0) (hn : noAnd0 a = true)
    (fuel : Nat) (wp : Option Str) (hf : a.length < fuel) (hne : a ≠ [] ∨ wp ≠ none) :
    splitLoop .and fuel a [] wp = [preOf wp ++ a] := by
  have := splitLoop_and_peel [] (fun p => [p]) (by
    intro fuel h wp hl hp hn hne
    rw [List.append_nil] at hl ⊢
    cases fuel with
    | zero => omega
    | succ fuel =>
      have hn' : noMatchIn [] h = true := noMatchIn_of_noAndIn hn [] (Or.inl rfl)
      exact splitLoop_and_last hp hn' fuel wp (by
        rcases hne with h | h | h
        · exact Or.inl h
        · exact Or.inr h
        · exact absurd rfl h)) fuel a wp (by simpa using hf) hbal hn (by
      rcases hne with h | h
      · exact Or.inl h
      · exact Or.inr (Or.inl h))
  simpa using this

/-- the junction: such a text, a separator spelling, and more text -/
theorem splitLoop_and_junction {a w : Str} (hbal : depthAfter 0 a = some 0) (hn : noAnd0 a = true)
    (hw : isAndSep w = true) (b : Str) (hb : b ≠ []) (fuel : Nat) (wp : Option Str)
    (hf : (a ++ w ++ b).length < fuel) :
    splitLoop .and fuel (a ++ w ++ b) [] wp =
      (preOf wp ++ a) :: splitLoop .and (b.length + 1) b [] none := by
  have := splitLoop_and_peel (w ++ b) (fun p => p :: splitLoop .and (b.length + 1) b [] none) (by
    intro fuel h wp hl hp hn hne
    cases fuel with
    | zero => omega
    | succ fuel =>
      rw [← List.append_assoc] at hl ⊢
      exact splitLoop_and_junction_plain hp hn hw b hb fuel wp hl) fuel a wp
      (by simpa [List.append_assoc] using hf) hbal hn (Or.inr (Or.inr (by simp [hb])))
  simpa [List.append_assoc] using this

theorem splitLoop_and_junction_end {a w : Str} (hbal : depthAfter 0 a = some 0) (hn : noAnd0 a = true)
    (hw : isAndSep w = true) (fuel : Nat) (wp : Option Str) (hf : (a ++ w).length < fuel) :
    splitLoop .and fuel (a ++ w) [] wp = [preOf wp ++ a, []] := by
  exact splitLoop_and_peel w (fun p => [p, []]) (by
    intro fuel h wp hl hp hn hne
    cases fuel with
    | zero => omega
    | succ fuel => exact splitLoop_and_junction_nil hp hn hw fuel wp) fuel a wp hf hbal hn
      (Or.inr (Or.inr (sep_ne_nil hw)))

/-! ### `splitNameList` -/

theorem splitNameList_eq (s : Str) :
    splitNameList s = (splitLoop .and (s.length + 1) s [] none).map strip := rfl

/-- a brace-balanced text without separator match at brace level 0 is one name -/
theorem splitNameList_one {a : Str} (hbal : depthAfter 0 a = some 0) (hn : noAnd0 a = true) (hne : a ≠ []) :
    splitNameList a = [strip a] := by
  rw [splitNameList_eq, splitLoop_and_one hbal hn _ none (by omega) (Or.inl hne)]
  rfl

/-- **junction**: a brace-balanced text `a` without separator match at brace level 0, followed by
a separator spelling and a non-empty text `b` (any text: it may contain separators and braces,
balanced or not), is split off as the first name -/
theorem splitNameList_junction {a w : Str} (hbal : depthAfter 0 a = some 0) (hn : noAnd0 a = true)
    (hw : isAndSep w = true) {b : Str} (hb : b ≠ []) :
    splitNameList (a ++ w ++ b) = strip a :: splitNameList b := by
  rw [splitNameList_eq, splitLoop_and_junction hbal hn hw b hb _ none (by omega), splitNameList_eq]
  rfl

/-- the junction when nothing follows the separator: a last, empty name -/
theorem splitNameList_junction_end {a w : Str} (hbal : depthAfter 0 a = some 0) (hn : noAnd0 a = true)
    (hw : isAndSep w = true) : splitNameList (a ++ w) = [strip a, []] := by
  rw [splitNameList_eq, splitLoop_and_junction_end hbal hn hw _ none (by omega)]
  rfl


theorem depthAfter_group {body : Str} (hb : depthAfter 0 body = some 0) :
    depthAfter 0 ('{' :: body ++ ['}']) = some 0 := by
  have := balanced_group hb
  simpa [balanced] using this

theorem noAnd0_group_self {body : Str} (hb : depthAfter 0 body = some 0) :
    noAnd0 ('{' :: body ++ ['}']) = true := by
  unfold noAnd0
  have e : ('{' :: body ++ ['}']) ++ [' '] = '{' :: (body ++ '}' :: [' ']) := by simp
  have h3 : andScan0 0 ('{' :: (body ++ '}' :: [' '])) = andScan0 1 (body ++ '}' :: [' ']) := by
    simp [andScan0]
  rw [e, h3, andScan0_inside _ body 0 0 hb]
  decide

theorem strip_group (body : Str) : strip ('{' :: body ++ ['}']) = '{' :: body ++ ['}'] := by
  apply strip_eq_self
  · intro c hc
    simp only [List.cons_append, List.head?_cons, Option.mem_def, Option.some.injEq] at hc
    subst hc; decide
  · intro c hc
    rw [List.getLast?_append] at hc
    simp only [List.getLast?_singleton, Option.some_or, Option.mem_def, Option.some.injEq] at hc
    subst hc; decide

/-- B2: **a braced group is opaque** — whatever the (brace-balanced) body contains, separator
matches included, the group is one name -/
theorem splitNameList_group {body : Str} (hb : depthAfter 0 body = some 0) :
    splitNameList ('{' :: body ++ ['}']) = ['{' :: body ++ ['}']] := by
  rw [splitNameList_one (depthAfter_group hb) (noAnd0_group_self hb) (by simp), strip_group]

/-- B1: the junction for a brace-free first name -/
theorem splitNameList_junction_plain {a w : Str} (hp : Plain a) (hn : noAndIn a = true)
    (hw : isAndSep w = true) {b : Str} (hb : b ≠ []) :
    splitNameList (a ++ w ++ b) = strip a :: splitNameList b :=
  splitNameList_junction (depthAfter_plain a hp 0) (by rw [noAnd0_plain hp]; exact hn) hw hb

/-- a name followed by (separator, name) pairs -/
def joinSeps : Str → List (Str × Str) → Str
  | a, [] => a
  | a, (w, b) :: r => a ++ w ++ joinSeps b r

/-- what is required of one name of a name list -/
def NameOk0 (a : Str) : Prop := a ≠ [] ∧ depthAfter 0 a = some 0 ∧ noAnd0 a = true

theorem joinSeps_ne_nil {a : Str} (ha : a ≠ []) (r : List (Str × Str)) : joinSeps a r ≠ [] := by
  cases r with
  | nil => exact ha
  | cons x r => obtain ⟨w, b⟩ := x; simp [joinSeps, ha]

/-- **a name list**: non-empty brace-balanced names without separator match at brace level 0,
written with any separator spellings between them, are split into exactly these names
(stripped) -/
theorem splitNameList_joinSeps : ∀ (r : List (Str × Str)) (a : Str), NameOk0 a →
    (∀ x ∈ r, isAndSep x.1 = true ∧ NameOk0 x.2) →
    splitNameList (joinSeps a r) = strip a :: r.map fun x => strip x.2 := by
  intro r
  induction r with
  | nil => intro a ha _; exact splitNameList_one ha.2.1 ha.2.2 ha.1
  | cons x r ih =>
    intro a ha hr
    obtain ⟨w, b⟩ := x
    have hx := hr (w, b) (by simp)
    simp only [joinSeps, List.map_cons]
    rw [splitNameList_junction ha.2.1 ha.2.2 hx.1 (joinSeps_ne_nil hx.2.1 r),
      ih b hx.2 (fun y hy => hr y (by simp [hy]))]

/-! ### instances: the hypotheses are satisfiable and cannot be dropped -/

/-- a group that contains a separator match, a name with a comma, and `others` -/
theorem splitNameList_example :
    splitNameList "{Barnes and Noble} AND Knuth, Donald E. and others".toList =
      ["{Barnes and Noble}".toList, "Knuth, Donald E.".toList, "others".toList] := by decide +kernel

/-- the same through the theorem: the three names satisfy its hypotheses -/
theorem splitNameList_example_hyps :
    NameOk0 "{Barnes and Noble}".toList ∧ NameOk0 "Knuth, Donald E.".toList ∧ NameOk0 "others".toList ∧
    isAndSep " AND ".toList = true ∧ isAndSep " and ".toList = true ∧
    joinSeps "{Barnes and Noble}".toList [(" AND ".toList, "Knuth, Donald E.".toList), (" and ".toList, "others".toList)] =
      "{Barnes and Noble} AND Knuth, Donald E. and others".toList := by
  refine ⟨⟨by decide, by decide +kernel, by decide +kernel⟩, ⟨by decide, by decide +kernel, by decide +kernel⟩,
    ⟨by decide, by decide +kernel, by decide +kernel⟩, by decide, by decide, by decide +kernel⟩

/-- `noAndIn` cannot be dropped: `x and` is brace-free but ends in a separator match once the
blank of the next separator follows -/
theorem splitNameList_needs_noAndIn :
    noAndIn "x and".toList = false ∧
    splitNameList ("x and".toList ++ " and ".toList ++ "y".toList) = ["x".toList, "and y".toList] ∧
    strip "x and".toList :: splitNameList "y".toList = ["x and".toList, "y".toList] := by
  refine ⟨by decide +kernel, by decide +kernel, by decide +kernel⟩

/-- `b ≠ []` cannot be dropped -/
theorem splitNameList_needs_nonempty :
    splitNameList ("x".toList ++ " and ".toList ++ []) = ["x".toList, []] ∧ splitNameList [] = [] := by
  refine ⟨by decide +kernel, by decide +kernel⟩

/-- balance cannot be dropped: an unclosed group swallows the separator -/
theorem splitNameList_needs_balance :
    noAnd0 "{x".toList = true ∧ depthAfter 0 "{x".toList = some 1 ∧
    splitNameList ("{x".toList ++ " and ".toList ++ "y".toList) = ["{x and y".toList] := by
  refine ⟨by decide +kernel, by decide +kernel, by decide +kernel⟩


/-! ## property-level statements (published as `C01_normalize_spec` … in `Props/C01.lean`) -/

/-- **White-space normalisation of values, characterised.**  `normalizeWs`
(`textutils.normalize_whitespace`, applied by the reader to every field value, `@preamble` text
and name list) is idempotent; its result has no leading and no trailing white space, no two
adjacent white-space characters, and no white-space character other than the blank; the
non-white-space characters of the text are kept, in order; a text with these four properties
(`IsNormalWs`) is left unchanged, so the image of `normalizeWs` is exactly the set of such texts;
the result is the list of words of the text (`wordsOf`: split at every one of the 29 white-space
code points, drop empty pieces) joined by single blanks; and two texts have the same
normalisation exactly when they have the same words. -/
theorem normalize_spec (s : Str) :
    normalizeWs (normalizeWs s) = normalizeWs s ∧
    (∀ c ∈ (normalizeWs s).head?, isWs c = false) ∧
    (∀ c ∈ (normalizeWs s).getLast?, isWs c = false) ∧
    (∀ a b, [a, b] <:+: normalizeWs s → ¬ (isWs a = true ∧ isWs b = true)) ∧
    (∀ c ∈ normalizeWs s, isWs c = true → c = ' ') ∧
    (normalizeWs s).filter (fun c => !isWs c) = s.filter (fun c => !isWs c) ∧
    (IsNormalWs s → normalizeWs s = s) ∧
    normalizeWs s = joinWith [' '] (wordsOf s) ∧
    (∀ s', normalizeWs s = normalizeWs s' ↔ wordsOf s = wordsOf s') :=
  ⟨normalizeWs_idem s, normalizeWs_no_lead s, normalizeWs_no_trail s, normalizeWs_no_adj s,
    normalizeWs_ws_blank s, normalizeWs_nonws s, normalizeWs_of_normal, normalizeWs_eq_join s,
    normalizeWs_eq_iff s⟩

/-- **The reference notion `wordsOf` is determined by three equations** (so the shape of its
definition does not matter): no word in the empty text; a non-empty text without white space is
one word; a white-space character separates.  Moreover every word is non-empty and free of white
space, the words concatenated are the non-white-space characters of the text, and every list of
such words is the word list of its blank-separated concatenation. -/
theorem wordsOf_spec :
    wordsOf [] = [] ∧
    (∀ w : Str, w ≠ [] → (∀ c ∈ w, isWs c = false) → wordsOf w = [w]) ∧
    (∀ (u v : Str) (c : Char), isWs c = true → wordsOf (u ++ c :: v) = wordsOf u ++ wordsOf v) ∧
    (∀ s : Str, ∀ w ∈ wordsOf s, w ≠ [] ∧ ∀ c ∈ w, isWs c = false) ∧
    (∀ s : Str, (wordsOf s).flatten = s.filter (fun c => !isWs c)) ∧
    (∀ ws : List Str, (∀ w ∈ ws, w ≠ [] ∧ ∀ c ∈ w, isWs c = false) → wordsOf (joinWith [' '] ws) = ws) :=
  ⟨wordsOf_nil, fun _ h1 h2 => wordsOf_word h1 h2, fun u v _ hc => wordsOf_append_ws hc u v,
    wordsOf_good, wordsOf_flatten, wordsOf_joinWith⟩

/-- Non-vacuity: a value with leading / trailing / repeated white space of several kinds (blank,
TAB, CR, LF, NO-BREAK SPACE U+00A0, EM SPACE U+2003) is normalised as expected, its words are as
expected, the result is in normal form, and a text that is not in normal form exists. -/
theorem normalize_spec_nonvacuous :
    normalizeWs "\u00a0 A \u2003\t{B}\r\n c ".toList = "A {B} c".toList ∧
    wordsOf "\u00a0 A \u2003\t{B}\r\n c ".toList = ["A".toList, "{B}".toList, "c".toList] ∧
    IsNormalWs "A {B} c".toList ∧ ¬ IsNormalWs "A  c".toList ∧ ¬ IsNormalWs "A\tc".toList := by
  refine ⟨by decide +kernel, by decide +kernel, (isNormalWs_iff _).2 (by decide +kernel),
    fun h => absurd ((isNormalWs_iff _).1 h) (by decide +kernel),
    fun h => absurd ((isNormalWs_iff _).1 h) (by decide +kernel)⟩

/-- **Name lists are split at the level-0 separators, and only there.**  `splitNameList`
(`split_tex_string(value, ' [Aa][Nn][Dd] ')`, applied by the reader to the normalised value of
every `author` / `editor` field) satisfies, for every spelling `w` of the separator (a blank,
`a`/`A`, `n`/`N`, `d`/`D`, a blank):

1. a braced group with brace-balanced body is one name, whatever the body contains (separator
   matches included);
2. a non-empty brace-balanced text without separator match at brace level 0 (`noAnd0`: no match
   starts at a level-0 position of `a␣`) is one name, stripped;
3. *junction*: such a text `a` (possibly empty) followed by `w` and ANY non-empty text `b` (with
   or without separators, braces balanced or not) is split off: the result is `strip a` followed
   by the names of `b`;
4. the same when nothing follows `w`: a last, empty name;
5. the special case of a brace-free `a` (`noAndIn a`: no suffix of `a␣` that starts inside `a`
   begins with a separator match — `noAndIn_iff`);
6. hence a name list written as names `a₀ w₁ a₁ … wₙ aₙ` with names as in 2. is split into
   exactly `strip a₀, …, strip aₙ`. -/
theorem split_names_spec :
    (∀ body : Str, depthAfter 0 body = some 0 →
      splitNameList ('{' :: body ++ ['}']) = ['{' :: body ++ ['}']]) ∧
    (∀ a : Str, a ≠ [] → depthAfter 0 a = some 0 → noAnd0 a = true → splitNameList a = [strip a]) ∧
    (∀ a w b : Str, depthAfter 0 a = some 0 → noAnd0 a = true → isAndSep w = true → b ≠ [] →
      splitNameList (a ++ w ++ b) = strip a :: splitNameList b) ∧
    (∀ a w : Str, depthAfter 0 a = some 0 → noAnd0 a = true → isAndSep w = true →
      splitNameList (a ++ w) = [strip a, []]) ∧
    (∀ a w b : Str, (∀ c ∈ a, c ≠ '{' ∧ c ≠ '}') → noAndIn a = true → isAndSep w = true → b ≠ [] →
      splitNameList (a ++ w ++ b) = strip a :: splitNameList b) ∧
    (∀ (a : Str) (r : List (Str × Str)), NameOk0 a → (∀ x ∈ r, isAndSep x.1 = true ∧ NameOk0 x.2) →
      splitNameList (joinSeps a r) = strip a :: r.map fun x => strip x.2) :=
  ⟨fun _ hb => splitNameList_group hb,
    fun _ hne hb hn => splitNameList_one hb hn hne,
    fun _ _ _ hb hn hw hne => splitNameList_junction hb hn hw hne,
    fun _ _ hb hn hw => splitNameList_junction_end hb hn hw,
    fun _ _ _ hp hn hw hne => splitNameList_junction_plain hp hn hw hne,
    fun a r ha hr => splitNameList_joinSeps r a ha hr⟩

/-- Non-vacuity and sharpness: the hypotheses of the name-list clause hold for the three names of
`{Barnes and Noble} AND Knuth, Donald E. and others` (a group that contains a separator match,
two separator spellings) and the reader's split is the expected one; `noAndIn` cannot be dropped
(`x and` + ` and ` + `y` gives `x`, `and y`); `b ≠ []` cannot be dropped (`x and ` gives `x` and an
empty name, the empty text gives no name); balance cannot be dropped (an unclosed group swallows
the separator). -/
theorem split_names_spec_nonvacuous :
    (NameOk0 "{Barnes and Noble}".toList ∧ NameOk0 "Knuth, Donald E.".toList ∧ NameOk0 "others".toList ∧
      isAndSep " AND ".toList = true ∧ isAndSep " and ".toList = true ∧
      joinSeps "{Barnes and Noble}".toList
          [(" AND ".toList, "Knuth, Donald E.".toList), (" and ".toList, "others".toList)] =
        "{Barnes and Noble} AND Knuth, Donald E. and others".toList) ∧
    splitNameList "{Barnes and Noble} AND Knuth, Donald E. and others".toList =
      ["{Barnes and Noble}".toList, "Knuth, Donald E.".toList, "others".toList] ∧
    (noAndIn "x and".toList = false ∧
      splitNameList ("x and".toList ++ " and ".toList ++ "y".toList) = ["x".toList, "and y".toList]) ∧
    (splitNameList ("x".toList ++ " and ".toList ++ []) = ["x".toList, []] ∧ splitNameList [] = []) ∧
    (noAnd0 "{x".toList = true ∧
      splitNameList ("{x".toList ++ " and ".toList ++ "y".toList) = ["{x and y".toList]) :=
  ⟨splitNameList_example_hyps, splitNameList_example,
    ⟨splitNameList_needs_noAndIn.1, splitNameList_needs_noAndIn.2.1⟩,
    splitNameList_needs_nonempty,
    ⟨splitNameList_needs_balance.1, splitNameList_needs_balance.2.2⟩⟩


end Pybtex.BibRT
