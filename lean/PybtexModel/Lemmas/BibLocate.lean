/-
Lemmas for C10, "the syntax errors of the `.bib` reader are located exactly":

the reader state carries the ghost `errAt` — for every problem of `errs` the unread text at the
moment the problem was handed to `handle_error` (the `pos` of `PybtexSyntaxError.error_context_info`).
For a syntax error (`TokenRequired`, `PrematureEOF`, "too many braces", "unbalanced braces",
`UndefinedMacro`) that unread text `b` is a suffix of the text read, and the `lineno` of the error is
`1 + (line breaks of the text) - (line breaks of b)`, i.e. the line of the position where `b`
starts.  For `TokenRequired` the position is that of the offending character: `b` starts with a
character that is not white space.  The same holds for the error that leaves the reader in strict
mode, with the unread text of the final state.

Layout: the invariant `Loc N text s` (line counter in step with the unread text, which is a suffix
of `text`; every recorded problem located), `GL` for the result of a sub-parser (an error on its
way to a handler is located at the unread text of the state it travels with), one lemma per
function of `Model/BibParse.lean`, then `parseLoop` / `parseBib`.  No fuel bounds are needed: the
fuel error `internal` is not a syntax error.
-/
import PybtexModel.Lemmas.BibTotal

namespace Pybtex.Bib

/-! ## §1 the invariant -/

/-- `b` starts with a character that is not white space -/
def headNonWs (b : Str) : Prop := ∃ c r, b = c :: r ∧ isWs c = false

/-- the error `e`, if it is a syntax error, is located at the position where the suffix `b` of
`text` starts (`N` = 1 + line breaks of `text`) -/
def LocErr (N : Nat) (text : Str) (e : Err) (b : Str) : Prop :=
  synKind e.kind = true →
    b <:+ text ∧ (∃ l, e.line = some l ∧ l + countNl b = N) ∧
    (∀ d, e.kind = .tokenRequired d → headNonWs b)

/-- line counter in step with the unread text, the unread text is a suffix of `text`, and every
problem recorded so far is located at the unread text recorded with it -/
def Loc (N : Nat) (text : Str) (s : St) : Prop :=
  s.ln + countNl s.rest = N ∧ s.rest <:+ text ∧ s.errAt.length = s.errs.length ∧
  ∀ p ∈ List.zip s.errs s.errAt, LocErr N text p.1 p.2

/-- an error on its way to a handler is located at the unread text of the state it travels with -/
def LocAb (N : Nat) (text : Str) (s : St) : Abort → Prop
  | .syn e => LocErr N text e s.rest
  | .raised e => LocErr N text e s.rest
  | .skip => True

def GL {α : Type} (N : Nat) (text : Str) : Res α → Prop
  | .ok _ s => Loc N text s
  | .fail a s => Loc N text s ∧ LocAb N text s a

/-- for `getToken`: when no pattern matches, the reader stands in front of a non-blank character -/
def GLTok {α : Type} (N : Nat) (text : Str) : Res (Option α) → Prop
  | .ok none s => Loc N text s ∧ headNonWs s.rest
  | .ok (some _) s => Loc N text s
  | .fail a s => Loc N text s ∧ LocAb N text s a

theorem GLTok.gl {α : Type} {N : Nat} {text : Str} {r : Res (Option α)} (h : GLTok N text r) :
    GL N text r := by
  cases r with
  | ok t s =>
    cases t with
    | none => exact h.1
    | some t => exact h
  | fail a s => exact h

/-- an error created here, with the current line -/
theorem LocErr.here {N : Nat} {text : Str} {s : St} (h : Loc N text s) (k : ErrKind)
    (hk : ∀ d, k = .tokenRequired d → headNonWs s.rest) : LocErr N text ⟨k, some s.ln⟩ s.rest :=
  fun _ => ⟨h.2.1, ⟨s.ln, rfl, h.1⟩, hk⟩

theorem LocErr.data {N : Nat} {text : Str} (k : ErrKind) (l : Option Nat) (b : Str)
    (hs : synKind k = false) : LocErr N text ⟨k, l⟩ b := by
  intro h
  rw [show (⟨k, l⟩ : Err).kind = k from rfl, hs] at h
  cases h

/-- sequencing: `C` is the context `match · with | .fail e s => .fail e s | .ok a s => …` -/
theorem GL.bind' {α β : Type} {N : Nat} {text : Str} {C : Res α → Res β}
    (hfail : ∀ a s1, C (.fail a s1) = .fail a s1)
    (hok : ∀ x s1, Loc N text s1 → GL N text (C (.ok x s1))) :
    ∀ r, GL N text r → GL N text (C r) := by
  intro r h
  cases r with
  | ok x s1 => exact hok x s1 h
  | fail a s1 => rw [hfail]; exact h

/-- `gl_bind h, t`: `h : GL N text t`, goal `GL N text (match t with …)` where failures are passed
on; leaves the goal for the `.ok` continuation. -/
macro "gl_bind " h:term ", " t:term : tactic => `(tactic| (
  have hgl := $h
  generalize $t = r at hgl ⊢
  revert r
  refine GL.bind' ?_ ?_
  · intro _ _; rfl))

/-! ## §2 scanner -/

theorem dropWhile_head_false (p : Char → Bool) (s : Str) (c : Char) (r : Str)
    (h : s.dropWhile p = c :: r) : p c = false := by
  induction s with
  | nil => cases h
  | cons x t ih =>
    simp only [List.dropWhile_cons] at h
    split at h
    · exact ih h
    · rename_i hx
      injection h with h1 _
      subst h1
      simpa using hx

theorem eatWs_loc {N : Nat} {text : Str} {s : St} (h : Loc N text s) :
    Loc N text (eatWs s) ∧ ((eatWs s).rest = [] ∨ headNonWs (eatWs s).rest) := by
  have e : s.rest = s.rest.takeWhile isWs ++ s.rest.dropWhile isWs :=
    (List.takeWhile_append_dropWhile).symm
  have hc := countNl_append (s.rest.takeWhile isWs) (s.rest.dropWhile isWs) (Or.inr (dropWhile_ws_head _))
  rw [← e] at hc
  refine ⟨⟨?_, (List.dropWhile_suffix _).trans h.2.1, h.2.2.1, h.2.2.2⟩, ?_⟩
  · show s.ln + countNl (s.rest.takeWhile isWs) + countNl (s.rest.dropWhile isWs) = N
    have := h.1; omega
  · show s.rest.dropWhile isWs = [] ∨ headNonWs (s.rest.dropWhile isWs)
    cases hd : s.rest.dropWhile isWs with
    | nil => exact Or.inl rfl
    | cons c r => exact Or.inr ⟨c, r, rfl, dropWhile_head_false _ _ _ _ hd⟩

theorem getToken_loc {N : Nat} {text : Str} {s : St} (pats : List Pat) (h : Loc N text s)
    (hp : ∀ q ∈ pats, q.plain) : GLTok N text (getToken pats s) := by
  obtain ⟨hL, hw⟩ := eatWs_loc h
  unfold getToken
  simp only
  split
  · exact ⟨hL, LocErr.here hL _ (fun d hd => by cases hd)⟩
  · rename_i hne
    split
    · exact ⟨hL, hw.resolve_left hne⟩
    · rename_i p v r hm
      obtain ⟨e, hv, hplain⟩ := firstMatch_spec hp hm
      have hc := countNl_append_plain v r hplain
      rw [← e] at hc
      refine ⟨?_, ?_, hL.2.2.1, hL.2.2.2⟩
      · show (eatWs s).ln + countNl r = N
        rw [← hc]; exact hL.1
      · show r <:+ text
        exact List.IsSuffix.trans (⟨v, e.symm⟩ : r <:+ (eatWs s).rest) hL.2.1

theorem required_loc {N : Nat} {text : Str} {s : St} (pats : List Pat) (desc : String)
    (h : Loc N text s) (hp : ∀ q ∈ pats, q.plain) : GL N text (required pats desc s) := by
  have hg := getToken_loc pats h hp
  unfold required
  cases hr : getToken pats s with
  | fail a s' => rw [hr] at hg; exact hg
  | ok t s' =>
    rw [hr] at hg
    cases t with
    | none => exact ⟨hg.1, LocErr.here hg.1 _ (fun _ _ => hg.2)⟩
    | some t => exact hg

theorem chunk_loc {N : Nat} {text : Str} {s : St} {p : Char → Bool} {chunk rest : Str}
    (h : Loc N text s) (hsk : skipToChar p s.rest = some (chunk, rest)) (hp : p '\r' = false) :
    Loc N text { s with rest := rest, ln := s.ln + countNl chunk } := by
  obtain ⟨hc, _⟩ := skipToChar_countNl hsk hp
  obtain ⟨e, _⟩ := skipToChar_spec hsk
  refine ⟨?_, ?_, h.2.2.1, h.2.2.2⟩
  · show s.ln + countNl chunk + countNl rest = N
    have := h.1; omega
  · show rest <:+ text
    exact List.IsSuffix.trans (⟨chunk, e.symm⟩ : rest <:+ s.rest) h.2.1

theorem strLoop_loc {N : Nat} {text : Str} (fuel : Nat) (quoted : Bool) (d : Nat) (acc : Str) (s : St)
    (h : Loc N text s) : GL N text (strLoop fuel quoted d acc s) := by
  induction fuel generalizing d acc s with
  | zero => exact ⟨h, LocErr.data _ _ _ rfl⟩
  | succ fuel ih =>
    unfold strLoop
    simp only
    split
    · exact ⟨h, LocErr.here h _ (fun d hd => by cases hd)⟩
    · rename_i chunk rest hsk
      have hI := chunk_loc h hsk (by simp)
      split
      · split
        · exact ⟨hI, LocErr.here hI _ (fun d hd => by cases hd)⟩
        · exact ih _ _ _ hI
      · split
        · split
          · exact ⟨hI, LocErr.here hI _ (fun d hd => by cases hd)⟩
          · exact hI
        · exact ih _ _ _ hI
      · exact hI

/-! ## §3 error handler, values, fields, bodies -/

theorem handleError_loc {N : Nat} {text : Str} {s : St} {e : Err} (h : Loc N text s)
    (hl : LocErr N text e s.rest) : GL N text (handleError s e) := by
  unfold handleError
  split
  · exact ⟨h, hl⟩
  · refine ⟨h.1, h.2.1, ?_, ?_⟩
    · rw [St.report_errs, St.report_errAt, List.length_append, List.length_append, h.2.2.1]
      rfl
    · intro p hp
      rw [St.report_errs, St.report_errAt, List.zip_append h.2.2.1.symm] at hp
      rcases List.mem_append.1 hp with hp | hp
      · exact h.2.2.2 p hp
      · simp only [List.zip_cons_cons, List.zip_nil_right, List.mem_singleton] at hp
        subst hp
        exact hl

/-- what `handleError` returns -/
theorem handleError_cases (s : St) (e : Err) :
    handleError s e = .fail (.raised e) s ∨ handleError s e = .ok () (s.report e) := by
  unfold handleError
  split
  · exact Or.inl rfl
  · exact Or.inr rfl

theorem substituteMacro_loc {N : Nat} {text : Str} {s : St} (name : Str) (h : Loc N text s) :
    GL N text (substituteMacro name s) := by
  unfold substituteMacro
  split
  · exact h
  · split
    · gl_bind handleError_loc h (LocErr.here h (.undefinedMacro name) (fun d hd => by cases hd)),
        handleError s ⟨.undefinedMacro name, some s.ln⟩
      intro _ s1 h1
      exact h1
    · exact h

theorem parseValuePart_loc {N : Nat} {text : Str} {s : St} (h : Loc N text s) :
    GL N text (parseValuePart s) := by
  unfold parseValuePart
  gl_bind required_loc [.lit '"', .lit '{', .number, .name] "field value" h plain4,
    required [.lit '"', .lit '{', .number, .name] "field value" s
  intro x s1 h1
  obtain ⟨p, v⟩ := x
  simp only
  split
  · gl_bind strLoop_loc (s1.rest.length + 1) true 0 [] s1 h1, strLoop (s1.rest.length + 1) true 0 [] s1
    intro _ s2 h2
    exact h2
  · gl_bind strLoop_loc (s1.rest.length + 1) false 0 [] s1 h1, strLoop (s1.rest.length + 1) false 0 [] s1
    intro _ s2 h2
    exact h2
  · exact h1
  · exact substituteMacro_loc v h1

theorem parseValueLoop_loc {N : Nat} {text : Str} (fuel : Nat) (parts : List Str) (s : St)
    (h : Loc N text s) : GL N text (parseValueLoop fuel parts s) := by
  induction fuel generalizing parts s with
  | zero => exact ⟨h, LocErr.data _ _ _ rfl⟩
  | succ fuel ih =>
    unfold parseValueLoop
    gl_bind parseValuePart_loc h, parseValuePart s
    intro part s1 h1
    simp only
    gl_bind (getToken_loc [.lit '#'] h1 (plainLit (by decide) (by decide))).gl, getToken [.lit '#'] s1
    intro t s2 h2
    cases t with
    | none => exact h2
    | some t => exact ih _ s2 h2

theorem parseValue_loc {N : Nat} {text : Str} {s : St} (h : Loc N text s) : GL N text (parseValue s) := by
  unfold parseValue
  gl_bind parseValueLoop_loc (s.rest.length + 1) [] s h, parseValueLoop (s.rest.length + 1) [] s
  intro parts s1 h1
  exact h1

theorem parseField_loc {N : Nat} {text : Str} {s : St} (h : Loc N text s) : GL N text (parseField s) := by
  unfold parseField
  gl_bind (getToken_loc [.name] h plainName).gl, getToken [.name] s
  intro t s1 h1
  cases t with
  | none => exact h1
  | some t =>
    obtain ⟨_, name⟩ := t
    simp only
    have h1' : Loc N text { s1 with curFieldName := some name } := h1
    gl_bind required_loc [.lit '='] (descOf [.lit '=']) h1' (plainLit (by decide) (by decide)),
      required [.lit '='] (descOf [.lit '=']) { s1 with curFieldName := some name }
    intro _ s2 h2
    exact parseValue_loc h2

theorem parseEntryFields_loc {N : Nat} {text : Str} (fuel : Nat) (s : St) (h : Loc N text s) :
    GL N text (parseEntryFields fuel s) := by
  induction fuel generalizing s with
  | zero => exact ⟨h, LocErr.data _ _ _ rfl⟩
  | succ fuel ih =>
    unfold parseEntryFields
    simp only
    have h0 : Loc N text { s with curFieldName := none, curValue := [] } := h
    gl_bind parseField_loc h0, parseField { s with curFieldName := none, curValue := [] }
    intro _ s1 h1
    simp only
    have key : ∀ s1' : St, Loc N text s1' → GL N text (match getToken [.lit ','] s1' with
        | .fail e s => .fail e s
        | .ok none s => .ok () s
        | .ok (some _) s => parseEntryFields fuel s) := by
      intro s1' h1'
      gl_bind (getToken_loc [.lit ','] h1' (plainLit (by decide) (by decide))).gl, getToken [.lit ','] s1'
      intro t s2 h2
      cases t with
      | none => exact h2
      | some t => exact ih s2 h2
    apply key
    split
    · split
      · exact h1
      · exact h1
    · exact h1

theorem parseEntryBody_loc {N : Nat} {text : Str} {s : St} (paren : Bool) (h : Loc N text s) :
    GL N text (parseEntryBody paren s) := by
  unfold parseEntryBody
  have hp : ∀ q ∈ [if paren then Pat.keyParen else Pat.keyBrace], q.plain := by
    intro q hq
    simp only [List.mem_singleton] at hq
    subst hq; cases paren <;> trivial
  gl_bind required_loc [if paren then .keyParen else .keyBrace] "entry key" h hp,
    required [if paren then .keyParen else .keyBrace] "entry key" s
  intro t s1 h1
  obtain ⟨_, key⟩ := t
  simp only
  have h1' : Loc N text { s1 with curKey := some key } := h1
  gl_bind parseEntryFields_loc (s1.rest.length + 2) { s1 with curKey := some key } h1',
    parseEntryFields (s1.rest.length + 2) { s1 with curKey := some key }
  intro _ s2 h2
  show GL N text (if wantCurrent s2 then .ok () s2 else .fail .skip s2)
  split
  · exact h2
  · exact ⟨h2, trivial⟩

theorem parseStringBody_loc {N : Nat} {text : Str} {s : St} (h : Loc N text s) :
    GL N text (parseStringBody s) := by
  unfold parseStringBody
  gl_bind required_loc [.name] (descOf [.name]) h plainName, required [.name] (descOf [.name]) s
  intro t s1 h1
  obtain ⟨_, name⟩ := t
  simp only
  have h1' : Loc N text { s1 with curFieldName := some name } := h1
  gl_bind required_loc [.lit '='] (descOf [.lit '=']) h1' (plainLit (by decide) (by decide)),
    required [.lit '='] (descOf [.lit '=']) { s1 with curFieldName := some name }
  intro _ s2 h2
  simp only
  gl_bind parseValue_loc h2, parseValue s2
  intro _ s3 h3
  exact h3

/-! ## §4 commands -/

/-- `required([body_end])` after the body -/
theorem afterBody_loc {N : Nat} {text : Str} (body : Res Unit) (hb : GL N text body) (bodyEnd : Pat)
    (hp : bodyEnd.plain) :
    GL N text (match body with
      | .fail e s => .fail e s
      | .ok _ s =>
        match required [bodyEnd] (descOf [bodyEnd]) s with
        | .fail e s => .fail e s
        | .ok _ s => (.ok () s : Res Unit)) := by
  cases body with
  | fail a s' => exact hb
  | ok u s1 =>
    simp only
    have hpl : ∀ q ∈ [bodyEnd], q.plain := by
      intro q hq; simp only [List.mem_singleton] at hq; subst hq; exact hp
    have hb' : Loc N text s1 := hb
    gl_bind required_loc [bodyEnd] (descOf [bodyEnd]) hb' hpl, required [bodyEnd] (descOf [bodyEnd]) s1
    intro _ s2 h2
    exact h2

/-- the `except PybtexSyntaxError: handle_error` of `parse_command` and `make_result()` -/
theorem finish_loc {N : Nat} {text : Str} (ab : Res Unit) (h : GL N text ab) (mk : St → Cmd) :
    GL N text (match ab with
      | .ok _ s => .ok (mk s) s
      | .fail (.syn e) s =>
        match handleError s e with
        | .fail a s => .fail a s
        | .ok _ s => .ok (mk s) s
      | .fail a s => .fail a s) := by
  cases ab with
  | ok u s1 => exact h
  | fail a s1 =>
    cases a with
    | syn e =>
      simp only
      gl_bind handleError_loc h.1 h.2, handleError s1 e
      intro _ s2 h2
      exact h2
    | skip => exact h
    | raised e => exact h

theorem parseCommand_loc {N : Nat} {text : Str} {s : St} (h : Loc N text s) :
    GL N text (parseCommand s) := by
  unfold parseCommand
  simp only
  have h0 : Loc N text { s with curKey := none, curFields := [], curFieldName := none, curValue := [] } := h
  gl_bind required_loc [.name] (descOf [.name]) h0 plainName,
    required [.name] (descOf [.name])
      { s with curKey := none, curFields := [], curFieldName := none, curValue := [] }
  intro t s1 h1
  obtain ⟨_, command⟩ := t
  simp only
  have hpl : ∀ q ∈ [Pat.lit '(', Pat.lit '{'], q.plain := by
    intro q hq
    simp only [List.mem_cons, List.not_mem_nil, or_false] at hq
    rcases hq with rfl | rfl <;> simp [Pat.plain]
  gl_bind required_loc [.lit '(', .lit '{'] (descOf [.lit '(', .lit '{']) h1 hpl,
    required [.lit '(', .lit '{'] (descOf [.lit '(', .lit '{']) s1
  intro t2 s2 h2
  obtain ⟨open_, _⟩ := t2
  simp only
  split
  · exact ⟨h2, trivial⟩
  · apply finish_loc
    apply afterBody_loc
    · split
      · exact parseStringBody_loc h2
      · exact parseValue_loc h2
      · exact parseEntryBody_loc _ h2
    · split <;> simp [Pat.plain]

/-! ## §5 processing the commands: only data errors, which carry no line -/

theorem addEntry_loc {N : Nat} {text : Str} {s : St} (key : Str) (e : Entry) (h : Loc N text s) :
    GL N text (addEntry s key e) := by
  unfold addEntry
  split
  · exact h
  · split
    · exact handleError_loc h (LocErr.data _ _ _ rfl)
    · exact h

theorem addPersons_loc {N : Nat} {text : Str} (role : Str) (ns : List Str) (e : Entry) (s : St)
    (h : Loc N text s) : GL N text (addPersons role ns e s) := by
  induction ns generalizing e s with
  | nil => exact h
  | cons n ns ih =>
    unfold addPersons
    split
    · exact ⟨h, LocErr.data _ _ _ rfl⟩
    · rename_i p tooMany _
      simp only
      have hg : GL N text (if tooMany then handleError s ⟨.invalidName (strip n), none⟩ else .ok () s) := by
        split
        · exact handleError_loc h (LocErr.data _ _ _ rfl)
        · exact h
      gl_bind hg, (if tooMany then handleError s ⟨.invalidName (strip n), none⟩ else Res.ok () s)
      intro _ s1 h1
      exact ih _ s1 h1

theorem processFields_loc {N : Nat} {text : Str} (key : Str) (fs : List (Str × List Str))
    (seen : List Str) (e : Entry) (s : St) (h : Loc N text s) :
    GL N text (processFields key fs seen e s) := by
  induction fs generalizing seen e s with
  | nil => exact h
  | cons f fs ih =>
    obtain ⟨name, parts⟩ := f
    unfold processFields
    split
    · gl_bind handleError_loc h (LocErr.data (.duplicateField key name) none _ rfl),
        handleError s ⟨.duplicateField key name, none⟩
      intro _ s1 h1
      exact ih _ _ s1 h1
    · simp only
      split
      · gl_bind addPersons_loc name (splitNameList (normalizeWs parts.flatten)) e s h,
          addPersons name (splitNameList (normalizeWs parts.flatten)) e s
        intro e' s1 h1
        exact ih _ _ s1 h1
      · exact ih _ _ s h

theorem processEntry_loc {N : Nat} {text : Str} (type : Str) (key : Option Str)
    (fields : List (Str × List Str)) (s : St) (h : Loc N text s) :
    GL N text (processEntry type key fields s) := by
  unfold processEntry
  cases key with
  | some k =>
    simp only
    gl_bind processFields_loc k fields []
        { key := k, type := lower type, origType := type, fields := [], persons := [] } s h,
      processFields k fields []
        { key := k, type := lower type, origType := type, fields := [], persons := [] } s
    intro e s1 h1
    exact addEntry_loc _ _ h1
  | none =>
    simp only
    have h0 : Loc N text { s with unnamed := s.unnamed + 1 } := h
    gl_bind processFields_loc ("unnamed-".toList ++ natToStr s.unnamed) fields []
        { key := "unnamed-".toList ++ natToStr s.unnamed, type := lower type, origType := type,
          fields := [], persons := [] }
        { s with unnamed := s.unnamed + 1 } h0,
      processFields ("unnamed-".toList ++ natToStr s.unnamed) fields []
        { key := "unnamed-".toList ++ natToStr s.unnamed, type := lower type, origType := type,
          fields := [], persons := [] }
        { s with unnamed := s.unnamed + 1 }
    intro e s1 h1
    exact addEntry_loc _ _ h1

theorem processCmd_loc {N : Nat} {text : Str} (c : Cmd) (s : St) (h : Loc N text s) :
    GL N text (processCmd c s) := by
  unfold processCmd
  split
  · exact h
  · exact h
  · exact processEntry_loc _ _ _ s h

/-! ## §6 the command loop -/

def GLEnd (N : Nat) (text : Str) (r : St × Option Err) : Prop :=
  Loc N text r.1 ∧ ∀ e, r.2 = some e → LocErr N text e r.1.rest

theorem GLEnd.stop {N : Nat} {text : Str} {s : St} {e : Err} (h : Loc N text s)
    (he : LocErr N text e s.rest) : GLEnd N text (s, some e) :=
  ⟨h, fun e' he' => by cases he'; exact he⟩

theorem parseLoop_loc {N : Nat} {text : Str} (fuel : Nat) (s : St) (h : Loc N text s) :
    GLEnd N text (parseLoop fuel s) := by
  induction fuel generalizing s with
  | zero => exact GLEnd.stop h (LocErr.data _ _ _ rfl)
  | succ fuel ih =>
    unfold parseLoop
    split
    · exact ⟨h, fun e he => by cases he⟩
    · rename_i chunk rest hsk
      have hI := chunk_loc h hsk (by decide)
      simp only
      have hg := parseCommand_loc hI
      cases hr : parseCommand { s with rest := rest, ln := s.ln + countNl chunk } with
      | ok c s2 =>
        rw [hr] at hg
        simp only
        have hg2 := processCmd_loc c s2 hg
        cases hr2 : processCmd c s2 with
        | ok u s3 => rw [hr2] at hg2; exact ih s3 hg2
        | fail a s3 =>
          rw [hr2] at hg2
          cases a with
          | syn e => exact GLEnd.stop hg2.1 hg2.2
          | raised e => exact GLEnd.stop hg2.1 hg2.2
          | skip => exact ih s3 hg2.1
      | fail a s2 =>
        rw [hr] at hg
        cases a with
        | syn e =>
          simp only
          rcases handleError_cases s2 e with hh | hh
          · rw [hh]; exact GLEnd.stop hg.1 hg.2
          · have hg2 := handleError_loc hg.1 hg.2
            rw [hh] at hg2 ⊢
            exact ih _ hg2
        | skip => exact ih s2 hg.1
        | raised e => exact GLEnd.stop hg.1 hg.2

/-! ## §7 the whole run -/

theorem initSt_loc (text : Str) (strict : Bool) (wanted : Option (List Str)) (macros0 : List (Str × Str))
    (roles : List Str) : Loc (1 + countNl text) text (initSt text strict wanted macros0 roles) :=
  ⟨rfl, List.suffix_refl _, rfl, fun p hp => by cases hp⟩

theorem parseBib_loc (text : Str) (strict : Bool) (wanted : Option (List Str)) (macros0 : List (Str × Str))
    (roles : List Str) :
    GLEnd (1 + countNl text) text (parseBib text strict wanted macros0 roles) := by
  rw [parseBib_eq]
  exact parseLoop_loc _ _ (initSt_loc ..)

/-- the line of a located error, computed -/
theorem LocErr.line_eq {N : Nat} {text : Str} {e : Err} {b : Str} (h : LocErr N text e b)
    (hs : synKind e.kind = true) :
    b <:+ text ∧ e.line = some (N - countNl b) ∧
    (∀ d, e.kind = .tokenRequired d → b ≠ [] ∧ ∀ c ∈ b.head?, isWs c = false) := by
  obtain ⟨h1, ⟨l, h2, h3⟩, h4⟩ := h hs
  refine ⟨h1, ?_, fun d hd => ?_⟩
  · rw [h2]; congr 1; omega
  · obtain ⟨c, r, hb, hc⟩ := h4 d hd
    subst hb
    refine ⟨by simp, fun c' hc' => ?_⟩
    simp only [List.head?_cons, Option.mem_def, Option.some.injEq] at hc'
    subst hc'; exact hc

/-- in terms of the consumed prefix: the line is `1 +` the line breaks consumed, unless the
position separates a `\r` from its `\n` -/
theorem countNl_consumed (a b : Str) (h : ¬ (a.getLast? = some '\r' ∧ b.head? = some '\n')) :
    1 + countNl (a ++ b) - countNl b = 1 + countNl a := by
  have h' : a.getLast? ≠ some '\r' ∨ b.head? ≠ some '\n' := by
    by_cases h1 : a.getLast? = some '\r'
    · exact Or.inr (fun h2 => h ⟨h1, h2⟩)
    · exact Or.inl h1
  rw [countNl_append a b h']
  omega

end Pybtex.Bib
