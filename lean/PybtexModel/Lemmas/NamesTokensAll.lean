/-
C04 helper lemmas, continued: `split_tex_string` is the flat scan on EVERY string (a closing brace
at brace level 0 is an ordinary character, a group that is never closed runs to the end of the
string), hence `splitTex .comma = Spec.nameCommaParts` on every string and
`splitTex .space = Spec.nameTokens` on every string that does not end in white space (the one
difference: white space at the end of an unclosed group is stripped by `split_tex_string`).
-/
import PybtexModel.Lemmas.NamesTokens

namespace Pybtex.C04T
open Pybtex Pybtex.Spec Pybtex.C02

/-! ### the look-behind matters only through "is a backslash" -/

theorem sepMatch_prev_congr (sep : Sep) (prev prev' : Option Char) (x : Str)
    (h : prev = some '\\' ↔ prev' = some '\\') : sepMatch sep prev x = sepMatch sep prev' x := by
  cases sep with
  | comma => rfl
  | hyphen => rfl
  | and => rfl
  | space =>
    show spaceRun prev x = spaceRun prev' x
    cases x with
    | nil => simp [spaceRun]
    | cons c r =>
      by_cases hc : c = '\\'
      · subst hc
        cases r with
        | nil => rw [spaceRun_bs_nil, spaceRun_bs_nil]
        | cons c2 r2 =>
          by_cases h2 : c2 = ' '
          · subst h2; rw [spaceRun_bs_sp, spaceRun_bs_sp]
          · rw [spaceRun_bs_other _ _ h2, spaceRun_bs_other _ _ h2]
      · rw [spaceRun_nbs _ _ hc, spaceRun_nbs _ _ hc]
        simp only [ne_eq, h]

theorem isAndAt_close (r : Str) : isAndAt ('}' :: r) = false := by
  unfold isAndAt
  split
  · rename_i heq; simp at heq
  · rfl

theorem sepMatch_close (sep : Sep) (prev : Option Char) (r : Str) :
    sepMatch sep prev ('}' :: r) = 0 := by
  cases sep with
  | comma => simp [sepMatch]
  | hyphen => simp [sepMatch]
  | and => simp [sepMatch, isAndAt_close]
  | space =>
    show spaceRun prev ('}' :: r) = 0
    rw [spaceRun_nbs _ _ (by decide)]
    simp [show isWs '}' = false by decide]

theorem flat_prev_congr (sep : Sep) (d : Nat) (prev prev' : Option Char) (cur s : Str)
    (h : prev = some '\\' ↔ prev' = some '\\') : flat sep d prev cur s = flat sep d prev' cur s := by
  cases s with
  | nil => rw [flat_nil, flat_nil]
  | cons c r =>
    by_cases h1 : c = '{'
    · subst h1; rw [flat_open, flat_open]
    · by_cases h2 : c = '}'
      · subst h2; rw [flat_close, flat_close]
      · by_cases hd : d = 0
        · subst hd
          have hm := sepMatch_prev_congr sep prev prev' (c :: r) h
          by_cases hs : sepMatch sep prev (c :: r) = 0
          · rw [flat_char sep prev cur r h1 h2 hs, flat_char sep prev' cur r h1 h2 (hm ▸ hs)]
          · rw [flat_sep sep prev cur r h1 h2 hs, flat_sep sep prev' cur r h1 h2 (hm ▸ hs), hm]
        · rw [flat_deep sep prev cur r hd h1 h2, flat_deep sep prev' cur r hd h1 h2]

/-! ### `re.split` on a run without opening brace is the flat scan of it -/

theorem flat_head_all (sep : Sep) (X : Str) (hX : X = [] ∨ ∃ X', X = '{' :: X') :
    ∀ (fuel : Nat) (prev prev' : Option Char) (cur head : Str),
      (prev = some '\\' ↔ prev' = some '\\') → head.length < fuel →
      (∀ c ∈ head, c ≠ '{') →
      flat sep 0 prev cur (head ++ X) =
        glueLast (reSplitAux sep fuel prev' cur head) (fun a => flat sep 0 none a X) := by
  intro fuel
  induction fuel with
  | zero => intro _ _ _ head _ h; omega
  | succ fuel ih =>
    intro prev prev' cur head hR hlen hplain
    cases head with
    | nil =>
      simp only [reSplitAux, List.nil_append, glueLast]
      exact flat_prev_brace sep 0 prev cur X hX
    | cons c r =>
      have hc1 : c ≠ '{' := hplain c (by simp)
      have hr : ∀ x ∈ r, x ≠ '{' := fun x hx => hplain x (by simp [hx])
      by_cases hc2 : c = '}'
      · subst hc2
        simp only [reSplitAux, List.cons_append]
        rw [if_pos (sepMatch_close sep prev' r), flat_close]
        exact ih none (some '}') (cur ++ ['}']) r (by simp) (by simpa using hlen) hr
      · simp only [reSplitAux, List.cons_append]
        have hm : sepMatch sep prev (c :: (r ++ X)) = sepMatch sep prev' (c :: r) := by
          have := sepMatch_append_brace sep X hX prev (c :: r)
          rw [← sepMatch_prev_congr sep prev prev' (c :: r) hR]
          simpa using this
        split
        · rename_i h0
          rw [flat_char sep prev cur (r ++ X) hc1 hc2 (by rw [hm]; exact h0)]
          exact ih (some c) (some c) (cur ++ [c]) r Iff.rfl (by simpa using hlen) hr
        · rename_i hn
          have hle := sepMatch_le sep prev' (c :: r)
          rw [flat_sep sep prev cur (r ++ X) hc1 hc2 (by rw [hm]; exact hn), hm]
          rw [glueLast_cons (Names.reSplitAux_ne_nil sep fuel _ _ _)]
          congr 1
          have hd : (c :: (r ++ X)).drop (sepMatch sep prev' (c :: r)) =
              (c :: r).drop (sepMatch sep prev' (c :: r)) ++ X := by
            rw [← List.cons_append, List.drop_append_of_le_length hle]
          have hg : (c :: (r ++ X))[sepMatch sep prev' (c :: r) - 1]? =
              (c :: r)[sepMatch sep prev' (c :: r) - 1]? := by
            rw [← List.cons_append, List.getElem?_append_left (by simp only [List.length_cons] at hle ⊢; omega)]
          rw [hd, hg]
          apply ih _ _ _ _ Iff.rfl
          · simp only [List.length_drop, List.length_cons] at hlen hle ⊢; omega
          · intro x hx; exact hplain x (List.mem_of_mem_drop hx)

/-! ### a group is closed, or it runs to the end of the string -/

/-- the group `j + 1` braces deep is not closed in `rest`: `_find_closing_brace` and the flat scan
both take everything -/
def Unclosed (j : Nat) (rest : Str) : Prop :=
  (∀ acc pending, fcbAux (j + 1) acc pending rest = (acc ++ pending ++ rest, [])) ∧
  (∀ (sep : Sep) (prev : Option Char) (cur : Str), flat sep (j + 1) prev cur rest = [cur ++ rest])

theorem group_dichotomy (rest : Str) : ∀ j,
    (∃ body tail, rest = body ++ '}' :: tail ∧ depthAfter j body = some 0) ∨ Unclosed j rest := by
  induction rest with
  | nil =>
    intro j; right
    exact ⟨fun acc pending => by simp [fcbAux], fun sep prev cur => by rw [flat_nil]; simp⟩
  | cons c r ih =>
    intro j
    by_cases h1 : c = '{'
    · subst h1
      rcases ih (j + 1) with ⟨body, tail, rfl, h⟩ | ⟨hf, hl⟩
      · left; exact ⟨'{' :: body, tail, rfl, by simpa [depthAfter] using h⟩
      · right
        refine ⟨fun acc pending => ?_, fun sep prev cur => ?_⟩
        · rw [fcbAux]; simp only [if_true]; rw [hf]; simp
        · rw [flat_open, hl]; simp
    · by_cases h2 : c = '}'
      · subst h2
        cases j with
        | zero => left; exact ⟨[], r, rfl, rfl⟩
        | succ j' =>
          rcases ih j' with ⟨body, tail, rfl, h⟩ | ⟨hf, hl⟩
          · left; exact ⟨'}' :: body, tail, rfl, by simpa [depthAfter] using h⟩
          · right
            refine ⟨fun acc pending => ?_, fun sep prev cur => ?_⟩
            · rw [fcbAux]
              simp only [show ('}' : Char) ≠ '{' by decide, if_false, if_true,
                show ¬ (j' + 1 + 1 ≤ 1) by omega, Nat.add_sub_cancel]
              rw [hf]; simp
            · rw [flat_close, Nat.add_sub_cancel, hl]; simp
      · rcases ih j with ⟨body, tail, rfl, h⟩ | ⟨hf, hl⟩
        · left; exact ⟨c :: body, tail, rfl, by simpa [depthAfter, h1, h2] using h⟩
        · right
          refine ⟨fun acc pending => ?_, fun sep prev cur => ?_⟩
          · rw [fcbAux]; simp only [h1, h2, if_false]; rw [hf]; simp
          · rw [flat_deep sep prev cur r (by omega) h1 h2, hl]; simp

/-! ### the main loop is the flat scan, on every string -/

theorem mem_takeWhile_sat (p : Char → Bool) (s : Str) : ∀ c ∈ s.takeWhile p, p c = true := by
  induction s with
  | nil => simp
  | cons a t ih =>
    intro c hc
    simp only [List.takeWhile_cons] at hc
    split at hc
    · rcases List.mem_cons.1 hc with rfl | h
      · assumption
      · exact ih c h
    · simp at hc

theorem splitLoop_flat_all (sep : Sep) : ∀ (fuel : Nat) (s : Str) (wp : Option Str), s.length < fuel →
    (s ≠ [] ∨ wp ≠ none) →
    splitLoop sep fuel s [] wp = flat sep 0 none (preOf wp) s := by
  intro fuel
  induction fuel with
  | zero => intro s _ h; omega
  | succ fuel ih =>
    intro s wp hlen hne
    rw [splitLoop_succ]
    have hs : s = s.takeWhile (· ≠ '{') ++ s.dropWhile (· ≠ '{') := List.takeWhile_append_dropWhile.symm
    have hplain : ∀ c ∈ s.takeWhile (· ≠ '{'), c ≠ '{' := by
      intro c hc
      have := mem_takeWhile_sat _ s c hc
      simpa using this
    have hP := headStep_pieces sep (s.takeWhile (· ≠ '{')) wp
    generalize hhead : s.takeWhile (· ≠ '{') = head at *
    cases hd : s.dropWhile (· ≠ '{') with
    | nil =>
      rw [hd, List.append_nil] at hs
      simp only []
      have h2 := headStep_snd_ne_none sep head wp (by
        rcases hne with h | h
        · left; rw [← hs]; exact h
        · right; exact h)
      have hF := flat_head_all sep [] (Or.inl rfl) (head.length + 1) none none (preOf wp) head Iff.rfl
        (by omega) hplain
      rw [List.append_nil] at hF
      rw [hs, hF, hP, glueLast_concat, flat_nil]
      cases h3 : (headStep sep head [] wp).2 with
      | none => exact absurd h3 h2
      | some w => simp [finish]
    | cons c rest =>
      rw [hd] at hs
      have hc : c = '{' := by
        have := List.head?_dropWhile_not (fun x => decide (x ≠ '{')) s
        rw [hd] at this
        simpa using this
      subst hc
      simp only []
      rcases group_dichotomy rest 0 with ⟨body, tail, rfl, hb1⟩ | ⟨hf, hl⟩
      · rw [findClosingBrace_matching body tail hb1]
        have htl : tail.length < fuel := by
          have := congrArg List.length hs
          simp only [List.length_append, List.length_cons] at this
          omega
        rw [splitLoop_acc, ih tail _ htl (Or.inr (by simp))]
        have hF := flat_head_all sep ('{' :: (body ++ '}' :: tail)) (Or.inr ⟨_, rfl⟩) (head.length + 1)
          none none (preOf wp) head Iff.rfl (by omega) hplain
        rw [hs, hF, hP, glueLast_concat, flat_group sep none _ body tail hb1]
        simp
      · have hfc : findClosingBrace rest = (rest, []) := by
          unfold findClosingBrace; rw [hf]; simp
        rw [hfc]
        have h0 : ([] : Str).length < fuel := by
          have := congrArg List.length hs
          simp only [List.length_append, List.length_cons] at this
          simp only [List.length_nil]
          omega
        rw [splitLoop_acc, ih [] _ h0 (Or.inr (by simp))]
        have hF := flat_head_all sep ('{' :: rest) (Or.inr ⟨_, rfl⟩) (head.length + 1)
          none none (preOf wp) head Iff.rfl (by omega) hplain
        rw [hs, hF, hP, glueLast_concat, flat_open, hl, flat_nil]
        simp

/-- `split_tex_string` (unstripped) on every non-empty text -/
theorem splitTexRaw_flat_all (sep : Sep) (s : Str) (hne : s ≠ []) :
    splitTexRaw sep s = flat sep 0 none [] s := by
  unfold splitTexRaw
  exact splitLoop_flat_all sep (s.length + 1) s none (by omega) (Or.inl hne)

/-! ### comma parts: every string -/

theorem splitTex_comma_eq_nameCommaParts_all (s : Str) :
    splitTex .comma s = Spec.nameCommaParts s := by
  by_cases hne : s = []
  · subst hne; decide
  · have h1 : splitTex .comma s = (splitTexRaw .comma s).map strip := rfl
    rw [h1, splitTexRaw_flat_all .comma s hne, flat_comma_eq_aux]
    simp [nameCommaParts, hne]

/-! ### tokens: every string that does not end in white space -/

theorem last_tail {c : Char} {r : Str} (hs : ∀ a, (c :: r).getLast? = some a → isWs a = false) :
    ∀ a, r.getLast? = some a → isWs a = false := by
  cases r with
  | nil => simp
  | cons b t => simpa [List.getLast?_cons_cons] using hs

theorem last_drop {s : Str} (n : Nat) (hs : ∀ a, s.getLast? = some a → isWs a = false) :
    ∀ a, (s.drop n).getLast? = some a → isWs a = false := by
  intro a ha
  rw [List.getLast?_drop] at ha
  split at ha
  · simp at ha
  · exact hs a ha

theorem flat_edges_all (s : Str) : ∀ (d : Nat) (prev : Option Char) (cur : Str),
    (∀ a, s.getLast? = some a → isWs a = false) →
    (cur = [] → d = 0) →
    (∀ a, cur.head? = some a → isWs a = false) →
    (d = 0 ∨ s = [] → ∀ a, cur.getLast? = some a → isWs a = false) →
    ∀ p ∈ flat .space d prev cur s, Edges p := by
  induction hn : s.length using Nat.strongRecOn generalizing s with
  | _ n ih =>
    intro d prev cur hs he hh hl p hp
    cases s with
    | nil =>
      rw [flat_nil] at hp
      simp only [List.mem_singleton] at hp
      subst hp
      exact ⟨hh, hl (Or.inr rfl)⟩
    | cons c r =>
      have ihr := ih r.length (by simp at hn; omega) r rfl
      have hsr := last_tail hs
      by_cases h1 : c = '{'
      · subst h1
        rw [flat_open] at hp
        have hE : Edges (cur ++ ['{']) := edges_snoc hh (by decide)
        exact ihr (d + 1) none _ hsr (by simp) hE.1 (fun _ => hE.2) p hp
      · by_cases h2 : c = '}'
        · subst h2
          rw [flat_close] at hp
          have hE : Edges (cur ++ ['}']) := edges_snoc hh (by decide)
          exact ihr (d - 1) none _ hsr (by simp) hE.1 (fun _ => hE.2) p hp
        · by_cases hd : d = 0
          · subst hd
            by_cases hsm : sepMatch .space prev (c :: r) = 0
            · rw [flat_char _ _ _ _ h1 h2 hsm] at hp
              have hw : isWs c = false := by
                cases hw : isWs c with
                | false => rfl
                | true => exact absurd hsm (spaceRun_ws prev r hw)
              have hE : Edges (cur ++ [c]) := edges_snoc hh hw
              exact ihr 0 (some c) _ hsr (by simp) hE.1 (fun _ => hE.2) p hp
            · rw [flat_sep _ _ _ _ h1 h2 hsm] at hp
              rcases List.mem_cons.1 hp with rfl | hp
              · exact ⟨hh, hl (Or.inl rfl)⟩
              · have hlen : ((c :: r).drop (sepMatch .space prev (c :: r))).length < n := by
                  simp only [List.length_drop]
                  simp at hn; subst hn
                  simp only [List.length_cons]
                  omega
                exact ih _ hlen _ rfl 0 _ [] (last_drop _ hs) (fun _ => rfl) (by simp) (by simp) p hp
          · rw [flat_deep _ _ _ _ hd h1 h2] at hp
            have hne : cur ≠ [] := fun h => hd (he h)
            refine ihr d none _ hsr (by simp) (head_snoc_ne c hne hh) ?_ p hp
            intro hor a ha
            rcases hor with h | h
            · exact absurd h hd
            · subst h
              simp at ha; subst ha
              exact hs _ (by simp)

/-- On every string that does not end in white space the model of `split_tex_string` (default
separator) is the one-pass tokeniser of the property text — brace-balanced or not. -/
theorem splitTex_space_eq_nameTokens_all (s : Str)
    (hl : ∀ c, s.getLast? = some c → isWs c = false) :
    splitTex .space s = Spec.nameTokens s := by
  by_cases hne : s = []
  · subst hne; decide
  · have h1 : splitTex .space s = ((splitTexRaw .space s).map strip).filter (· ≠ []) := rfl
    rw [h1, splitTexRaw_flat_all .space s hne]
    have hmap : (flat .space 0 none [] s).map strip = flat .space 0 none [] s := by
      conv => rhs; rw [← List.map_id (flat .space 0 none [] s)]
      apply List.map_congr_left
      intro p hp
      exact strip_of_edges (flat_edges_all s 0 none [] hl (fun _ => rfl) (by simp) (by simp) p hp)
    rw [hmap]
    exact flat_filter_eq_aux s 0 none none [] (fun _ => Iff.rfl)

/-- the hypothesis is needed: white space at the end of a group that is never closed is stripped
by `split_tex_string` (`a {b ` gives `a`, `{b`), the one-pass tokeniser keeps it (`a`, `{b `) -/
theorem splitTex_space_ne_nameTokens_unclosed :
    splitTex .space ['a', ' ', '{', 'b', ' '] = [['a'], ['{', 'b']] ∧
    Spec.nameTokens ['a', ' ', '{', 'b', ' '] = [['a'], ['{', 'b', ' ']] := by
  decide

/-! ### tokens: every string, up to white space at the end of an unclosed group -/

theorem flat_heads (s : Str) : ∀ (d : Nat) (prev : Option Char) (cur : Str),
    (cur = [] → d = 0) →
    (∀ a, cur.head? = some a → isWs a = false) →
    ∀ p ∈ flat .space d prev cur s, ∀ a, p.head? = some a → isWs a = false := by
  induction hn : s.length using Nat.strongRecOn generalizing s with
  | _ n ih =>
    intro d prev cur he hh p hp
    cases s with
    | nil =>
      rw [flat_nil] at hp
      simp only [List.mem_singleton] at hp
      subst hp
      exact hh
    | cons c r =>
      have ihr := ih r.length (by simp at hn; omega) r rfl
      by_cases h1 : c = '{'
      · subst h1
        rw [flat_open] at hp
        exact ihr (d + 1) none _ (by simp) (edges_snoc hh (by decide)).1 p hp
      · by_cases h2 : c = '}'
        · subst h2
          rw [flat_close] at hp
          exact ihr (d - 1) none _ (by simp) (edges_snoc hh (by decide)).1 p hp
        · by_cases hd : d = 0
          · subst hd
            by_cases hsm : sepMatch .space prev (c :: r) = 0
            · rw [flat_char _ _ _ _ h1 h2 hsm] at hp
              have hw : isWs c = false := by
                cases hw : isWs c with
                | false => rfl
                | true => exact absurd hsm (spaceRun_ws prev r hw)
              exact ihr 0 (some c) _ (by simp) (edges_snoc hh hw).1 p hp
            · rw [flat_sep _ _ _ _ h1 h2 hsm] at hp
              rcases List.mem_cons.1 hp with rfl | hp
              · exact hh
              · have hlen : ((c :: r).drop (sepMatch .space prev (c :: r))).length < n := by
                  simp only [List.length_drop]
                  simp at hn; subst hn
                  simp only [List.length_cons]
                  omega
                exact ih _ hlen _ rfl 0 _ [] (fun _ => rfl) (by simp) p hp
          · rw [flat_deep _ _ _ _ hd h1 h2] at hp
            have hne : cur ≠ [] := fun h => hd (he h)
            exact ihr d none _ (by simp) (head_snoc_ne c hne hh) p hp

theorem all_of_dropWhile_nil (q : Char → Bool) (l : Str) (h : l.dropWhile q = []) :
    ∀ x ∈ l, q x = true := by
  induction l with
  | nil => simp
  | cons a t ih =>
    simp only [List.dropWhile_cons] at h
    split at h
    · rename_i ha
      intro x hx
      rcases List.mem_cons.1 hx with rfl | hx
      · exact ha
      · exact ih h x hx
    · simp at h

theorem strip_eq_nil_of_head {p : Str} (hh : ∀ a, p.head? = some a → isWs a = false)
    (h : strip p = []) : p = [] := by
  cases p with
  | nil => rfl
  | cons c t =>
    exfalso
    have hc : isWs c = false := hh c rfl
    have hl : lstrip (c :: t) = c :: t := by simp [lstrip, List.dropWhile, hc]
    unfold strip at h
    rw [hl] at h
    unfold rstrip at h
    have h' : (c :: t).reverse.dropWhile isWs = [] := by
      have := congrArg List.reverse h
      simpa using this
    have := all_of_dropWhile_nil _ _ h' c (by simp)
    rw [hc] at this
    exact absurd this (by decide)

/-- EVERY string: the tokens of `split_tex_string` are the tokens of the one-pass tokeniser,
stripped (only white space at the end of a last, unclosed group is affected). -/
theorem splitTex_space_eq_nameTokens_strip (s : Str) :
    splitTex .space s = (Spec.nameTokens s).map strip := by
  by_cases hne : s = []
  · subst hne; decide
  · have h1 : splitTex .space s = ((splitTexRaw .space s).map strip).filter (· ≠ []) := rfl
    rw [h1, splitTexRaw_flat_all .space s hne]
    have h2 : Spec.nameTokens s = (flat .space 0 none [] s).filter (· ≠ []) :=
      (flat_filter_eq_aux s 0 none none [] (fun _ => Iff.rfl)).symm
    rw [h2, List.filter_map]
    congr 1
    apply List.filter_congr
    intro p hp
    have hh := flat_heads s 0 none [] (fun _ => rfl) (by simp) p hp
    by_cases hp0 : p = []
    · subst hp0; simp [strip, lstrip, rstrip]
    · have : strip p ≠ [] := fun h => hp0 (strip_eq_nil_of_head hh h)
      simp [hp0, this]

theorem last_of_strip_eq {s : Str} (h : strip s = s) :
    ∀ c, s.getLast? = some c → isWs c = false := by
  intro c hc
  rw [← h] at hc
  unfold strip rstrip at hc
  rw [List.getLast?_reverse] at hc
  have := List.head?_dropWhile_not isWs (lstrip s).reverse
  rw [hc] at this
  simpa using this

/-- in particular on every stripped string (what the callers pass) -/
theorem splitTex_space_eq_nameTokens_stripped (s : Str) (h : strip s = s) :
    splitTex .space s = Spec.nameTokens s :=
  splitTex_space_eq_nameTokens_all s (last_of_strip_eq h)

end Pybtex.C04T
