/-
The `==` of parse results (`tokEq`, `progEq`: `Variable.__eq__`, `Function.__eq__`, `list.__eq__`)
is structural equality of the abstract syntax.
-/
import PybtexModel.Lemmas.BstLiteral
import PybtexModel.Lemmas.Basic

namespace Pybtex.Bst

theorem tokEq_simple (t b : Tok) (hs : t.simple = true) : tokEq t b = true ↔ t = b := by
  cases t <;> cases b <;> simp_all [tokEq, Tok.simple]

theorem toksEq_iff : ∀ ts bs : List Tok, toksEq ts bs = true ↔ ts = bs := by
  apply toks_induction
  · intro bs; cases bs <;> simp [toksEq]
  · intro t ts hs ih bs
    cases bs with
    | nil => simp [toksEq]
    | cons b bs => simp [toksEq, tokEq_simple t b hs, ih bs]
  · intro body ts ihb iht bs
    cases bs with
    | nil => simp [toksEq]
    | cons b bs =>
      cases b with
      | fn body2 => simp [toksEq, tokEq, ihb body2, iht bs]
      | int v => simp [toksEq, tokEq]
      | str v => simp [toksEq, tokEq]
      | quoted v => simp [toksEq, tokEq]
      | name v => simp [toksEq, tokEq]

theorem tokEq_iff (a b : Tok) : tokEq a b = true ↔ a = b := by
  have := toksEq_iff [a] [b]
  simpa [toksEq] using this

theorem groupsEq_iff : ∀ gs hs : List (List Tok), groupsEq gs hs = true ↔ gs = hs := by
  intro gs
  induction gs with
  | nil => intro hs; cases hs <;> simp [groupsEq]
  | cons g gs ih =>
    intro hs
    cases hs with
    | nil => simp [groupsEq]
    | cons h hs => simp [groupsEq, toksEq_iff g h, ih hs]

theorem cmdEq_iff (c d : Command) : cmdEq c d = true ↔ c = d := by
  cases c; cases d
  simp [cmdEq, groupsEq_iff]

theorem progEq_iff : ∀ p q : Program, progEq p q = true ↔ p = q := by
  intro p
  induction p with
  | nil => intro q; cases q <;> simp [progEq]
  | cons c p ih =>
    intro q
    cases q with
    | nil => simp [progEq]
    | cons d q => simp [progEq, cmdEq_iff c d, ih q]

/-! ### command names are ASCII words -/

theorem lookup_mem {β : Type} (a : Str) (b : β) : ∀ l : List (Str × β), l.lookup a = some b → (a, b) ∈ l := by
  intro l
  induction l with
  | nil => intro h; simp at h
  | cons x l ih =>
    obtain ⟨x1, x2⟩ := x
    intro h
    simp only [List.lookup] at h
    split at h
    · rename_i heq
      have : a = x1 := by simpa using heq
      simp at h
      simp [this, h]
    · simp [ih h]

theorem isAlpha_eq_char (c : Char) : isAlpha c = c.isAlpha := by
  simp only [isAlpha, Char.isAlpha, Char.isUpper, Char.isLower, Char.toNat, UInt32.le_iff_toNat_le,
    ge_iff_le, Bool.decide_and]
  have h1 : 'A'.val.toNat = 65 := by decide
  have h2 : 'Z'.val.toNat = 90 := by decide
  have h3 : 'a'.val.toNat = 97 := by decide
  have h4 : 'z'.val.toNat = 122 := by decide
  rw [h1, h2, h3, h4]

theorem isAlpha_upperC' (c : Char) : isAlpha (upperC c) = isAlpha c := by
  simp [isAlpha_eq_char, upperC, Char.isAlpha_toUpper_eq_isAlpha]

theorem commandTable_alpha : ∀ e ∈ commandTable, ∀ c ∈ e.1, isAlpha c = true := by
  have h : (commandTable.all fun e => e.1.all isAlpha) = true := by decide +kernel
  intro e he c hc
  simp only [List.all_eq_true] at h
  exact h e he c hc

/-- a name the table knows (after ASCII upper-casing) consists of ASCII letters only, and its
upper-casing is an entry of the table with that arity -/
theorem cmdArity_ascii (n : Str) (k : Nat) (h : cmdArity n = some k) :
    (upper n, k) ∈ commandTable ∧ ∀ c ∈ n, isAlpha c = true := by
  have hm := lookup_mem (upper n) k commandTable h
  refine ⟨hm, ?_⟩
  intro c hc
  have := commandTable_alpha _ hm (upperC c) (by simp [upper]; exact ⟨c, hc, rfl⟩)
  rwa [isAlpha_upperC'] at this

/-! ### every command the parser returns is a command of the table, with its number of groups -/

theorem parseGroups_length : ∀ (k : Nat) (st : Scanner.St) (gs : List (List Tok)) (st' : Scanner.St),
    parseGroups k st = .ok (gs, st') → gs.length = k := by
  intro k
  induction k with
  | zero => intro st gs st' h; simp [parseGroups] at h; simp [h.1.symm]
  | succ k ih =>
    intro st gs st' h
    unfold parseGroups at h
    split at h
    · cases h
    · split at h
      · cases h
      · rename_i g st2 _
        split at h
        · cases h
        · rename_i gs' st3 hgs
          cases h
          simp [ih _ _ _ hgs]

theorem parseCommand_arity (st st' : Scanner.St) (c : Command) (h : parseCommand st = .ok (c, st')) :
    cmdArity c.name = some c.groups.length := by
  unfold parseCommand at h
  split at h
  · cases h
  · rename_i k name st1 _
    split at h
    · cases h
    · rename_i arity har
      split at h
      · cases h
      · rename_i gs st2 hgs
        cases h
        simp only
        rw [← cmdArityM_eq, har, parseGroups_length _ _ _ _ hgs]

theorem parseF_arity : ∀ (n : Nat) (st : Scanner.St) (p : Program), parseF n st = .ok p →
    ∀ c ∈ p, cmdArity c.name = some c.groups.length := by
  intro n
  induction n with
  | zero => intro st p h; simp [parseF] at h
  | succ n ih =>
    intro st p h
    unfold parseF at h
    split at h
    · cases h; intro c hc; cases hc
    · cases h
    · rename_i c st1 hc
      split at h
      · cases h
      · rename_i q hq
        cases h
        intro d hd
        simp only [List.mem_cons] at hd
        rcases hd with rfl | hd
        · exact parseCommand_arity _ _ _ hc
        · exact ih _ _ hq d hd

end Pybtex.Bst
