/-
Lexically broken text behind a well-formed prefix: what `parse_string` hands to the parser, what
the parser answers at that place, and on which line (the end-to-end form of the "no token matches
here" errors; `Spec/Bst.lean: lexBad`), plus the too long integer literal of the repaired
`parse_group`.
-/
import PybtexModel.Lemmas.BstLocatedSrc

namespace Pybtex.Bst
open Pybtex.Scanner

/-! ### the one-pass machine on arbitrary text -/

/-- the machine only emits characters of its input, and `\n` -/
theorem mem_preSM : ∀ (n : Nat) (x : Str), x.length ≤ n → ∀ (b k : Bool) (c : Char),
    c ∈ preSM b k x → c ∈ x ∨ c = '\n' := by
  intro n
  induction n with
  | zero =>
    intro x hx b k c hc
    have : x = [] := List.eq_nil_of_length_eq_zero (by omega)
    subst this; simp [preSM] at hc
  | succ n ih =>
    intro x hx b k c hc
    cases x with
    | nil => simp [preSM] at hc
    | cons d r =>
      by_cases hcrlf : d = '\r' ∧ ∃ r', r = '\n' :: r'
      · obtain ⟨hd, r', hr⟩ := hcrlf
        subst hd; subst hr
        rw [preSM_crlf] at hc
        simp only [List.mem_append] at hc
        rcases hc with hc | hc
        · right
          unfold nlIf at hc
          split at hc
          · cases hc
          · simpa using hc
        · rcases ih r' (by simp at hx; omega) _ _ c hc with h | h
          · left; simp [h]
          · right; exact h
      · rw [preSM_cons b k d r hcrlf] at hc
        have hlen : r.length ≤ n := by simp at hx; omega
        have sub : ∀ b' k', c ∈ preSM b' k' r → c ∈ d :: r ∨ c = '\n' := by
          intro b' k' h
          rcases ih r hlen b' k' c h with h | h
          · left; simp [h]
          · right; exact h
        split at hc
        · simp only [List.mem_append] at hc
          rcases hc with hc | hc
          · right
            unfold nlIf at hc
            split at hc
            · cases hc
            · simpa using hc
          · exact sub _ _ hc
        · split at hc
          · exact sub _ _ hc
          · split at hc
            · exact sub _ _ hc
            · simp only [List.mem_cons] at hc
              rcases hc with hc | hc
              · left; simp [hc]
              · exact sub _ _ hc

/-- what the machine leaves of the rest of a comment is empty or starts with `\n` -/
theorem preSM_comment_head : ∀ (x : Str) (b : Bool),
    preSM b true x = [] ∨ ∃ y, preSM b true x = '\n' :: y := by
  intro x
  induction x with
  | nil => intro b; left; simp [preSM]
  | cons d r ih =>
    intro b
    by_cases hcrlf : d = '\r' ∧ ∃ r', r = '\n' :: r'
    · obtain ⟨hd, r', hr⟩ := hcrlf
      subst hd; subst hr
      rw [preSM_crlf]
      by_cases hr' : r' = []
      · subst hr'; left; simp [nlIf, preSM]
      · right; exact ⟨preSM false false r', by simp [nlIf, hr']⟩
    · rw [preSM_cons b true d r hcrlf]
      split
      · by_cases hr : r = []
        · subst hr; left; simp [nlIf, preSM]
        · right; exact ⟨preSM false false r, by simp [nlIf, hr]⟩
      · simp only [if_true]
        exact ih b

theorem headSat_digit_nl (y : Str) : headSat isDigit ('\n' :: y) = false := by
  simp [headSat, isDigit]

/-- a text that does not start with a digit is not made to start with one -/
theorem head_preSM (b : Bool) (r : Str) (h : headSat isDigit r = false) :
    headSat isDigit (preSM b false r) = false := by
  cases r with
  | nil => simp [preSM, headSat]
  | cons d r =>
    have brk : headSat isDigit (nlIf r ++ preSM false false r) = false := by
      by_cases hr : r = []
      · subst hr; simp [nlIf, preSM, headSat]
      · simp [nlIf, hr, headSat, isDigit]
    by_cases hcrlf : d = '\r' ∧ ∃ r', r = '\n' :: r'
    · obtain ⟨hd, r', hr⟩ := hcrlf
      subst hd; subst hr
      rw [preSM_crlf]
      by_cases hr' : r' = []
      · subst hr'; simp [nlIf, preSM, headSat]
      · simp [nlIf, hr', headSat, isDigit]
    · rw [preSM_cons b false d r hcrlf]
      split
      · exact brk
      · simp only [Bool.false_eq_true, if_false]
        split
        · rcases preSM_comment_head r b with h0 | ⟨y, hy⟩
          · rw [h0]; rfl
          · rw [hy]; exact headSat_digit_nl y
        · simpa [headSat] using h

/-- `#` without an integer behind it stays so in the text handed to the parser -/
theorem intStart_preSM (r : Str) (h : intStart r = false) :
    intStart (preSM false false r) = false := by
  cases r with
  | nil => simp [preSM, intStart]
  | cons d r =>
    simp only [intStart, Bool.or_eq_false_iff, Bool.and_eq_false_iff] at h
    obtain ⟨hd, hm⟩ := h
    have nlstart : ∀ y, intStart ('\n' :: y) = false := by
      intro y; simp [intStart, isDigit]
    have brk : intStart (nlIf r ++ preSM false false r) = false := by
      by_cases hr : r = []
      · subst hr; simp [nlIf, preSM, intStart]
      · simp only [nlIf, hr, if_false, List.singleton_append]; exact nlstart _
    by_cases hcrlf : d = '\r' ∧ ∃ r', r = '\n' :: r'
    · obtain ⟨hd', r', hr⟩ := hcrlf
      subst hd'; subst hr
      rw [preSM_crlf]
      by_cases hr' : r' = []
      · subst hr'; simp [nlIf, preSM, intStart]
      · simp only [nlIf, hr', if_false, List.singleton_append]; exact nlstart _
    · rw [preSM_cons false false d r hcrlf]
      split
      · exact brk
      · simp only [Bool.false_eq_true, if_false, and_true]
        split
        · rcases preSM_comment_head r false with h0 | ⟨y, hy⟩
          · rw [h0]; rfl
          · rw [hy]; exact nlstart y
        · rename_i hsep hpc
          simp only [intStart, hd, Bool.false_or, Bool.and_eq_false_iff]
          rcases hm with hm | hm
          · left; exact hm
          · right
            have hq : d ≠ '"' ∨ d = '"' := by by_cases h : d = '"' <;> simp [h]
            have hr : headSat isDigit r = false := by
              cases r with
              | nil => rfl
              | cons e r' => simpa [headSat] using hm
            have := head_preSM (if d = '"' then !false else false) r hr
            cases hp : preSM (if d = '"' then !false else false) false r with
            | nil => rfl
            | cons e y => rw [hp] at this; simpa [headSat] using this

/-! ### the parser at text where no token begins -/

/-- text at which none of the patterns of `parse_group` matches -/
def NoToken (T : Str) : Prop := T ≠ [] ∧ headSat isWs T = false ∧ firstMatch groupPats T = none

theorem parseGroupF_no_token (n : Nat) (w T : Str) (hw : White w) (hT : NoToken T) (ln : Nat) :
    parseGroupF (n + 1) ⟨w ++ T, ln⟩
      = .error (.tokenRequired (describe groupPats) (ln + nl w)) := by
  obtain ⟨hne, hh, hfm⟩ := hT
  simp only [parseGroupF]
  rw [required_eq, eatWs_append w _ ln (fun c hc => (hw c hc).1) hh, hw.countNewlines]
  cases T with
  | nil => exact absurd rfl hne
  | cons c r => simp only [hfm, nl]

theorem matchInteger_bad (r : Str) (h : intStart r = false) : matchInteger ('#' :: r) = none := by
  cases r with
  | nil => simp [matchInteger, matchRun1, takeRun]
  | cons c r1 =>
    simp only [intStart, Bool.or_eq_false_iff, Bool.and_eq_false_iff] at h
    obtain ⟨hc, hm⟩ := h
    by_cases hcm : c = '-'
    · subst hcm
      have hr1 : headSat isDigit r1 = false := by
        cases r1 with
        | nil => rfl
        | cons e r' =>
          rcases hm with hm | hm
          · simp at hm
          · simpa [headSat] using hm
      simp only [matchInteger, matchRun1_none _ _ hr1]
    · have hh : headSat isDigit (c :: r1) = false := by simpa [headSat] using hc
      unfold matchInteger
      split
      · rename_i r' heq; simp at heq; exact absurd heq.1 hcm
      · rename_i r' hno heq
        simp at heq; subst heq
        simp only [matchRun1_none _ _ hh]
      · rename_i h1 h2; exact absurd rfl (h2 _)

theorem noToken_hash (r : Str) (h : intStart r = false) : NoToken ('#' :: r) := by
  refine ⟨by simp, by simp [headSat, isWs, wsCodes], ?_⟩
  have h1 : namePat.run ('#' :: r) = none := namePat_none _ (by simp [headSat, isNameChar])
  simp [groupPats, firstMatch, h1, stringPat, matchString, integerPat, matchInteger_bad r h,
    lbracePat, rbracePat, litPat, matchLit]

theorem noToken_quote (J : Str) (hJ : '"' ∉ J) : NoToken ('"' :: J) := by
  refine ⟨by simp, by simp [headSat, isWs, wsCodes], ?_⟩
  have h1 : namePat.run ('"' :: J) = none := namePat_none _ (by simp [headSat, isNameChar])
  have h2 : matchString ('"' :: J) = none := by
    have := takeRun_append (fun c => c != '"') J [] (by
      intro c hc; simp only [bne_iff_ne, ne_eq]; intro h; subst h; exact hJ hc) (by simp [headSat])
    simp only [List.append_nil] at this
    simp only [matchString, this]
  simp [groupPats, firstMatch, h1, stringPat, h2, integerPat, matchInteger, lbracePat, rbracePat,
    litPat, matchLit]

/-- what `parse_string` makes of text that cannot begin a token: text at which no pattern
matches, which extends neither a name nor an integer in front of it -/
theorem lexBad_clean (T : Str) (h : lexBad T = true) :
    NoToken (preSM false false T) ∧ TailOK (preSM false false T) ∧ Tstart T ∧ T ≠ [] ∧
    headSat isNameChar (preSM false false T) = false ∧
    matchLit ['{'] (preSM false false T) = none := by
  unfold lexBad at h
  split at h
  · rename_i r
    have hi : intStart r = false := by simpa using h
    have hp : preSM false false ('#' :: r) = '#' :: preSM false false r := by
      rw [preSM_nonsep false false '#' r (by simp [isLineSep, lineSepCodes])]
      simp
    rw [hp]
    exact ⟨noToken_hash _ (intStart_preSM r hi), ⟨by simp [headSat, isNameChar], by simp [headSat, isDigit]⟩,
      by simp [Tstart, headSat, isLineSep, lineSepCodes], by simp, by simp [headSat, isNameChar],
      by simp [matchLit]⟩
  · rename_i r
    have hq : '"' ∉ r := by simpa using h
    have hp : preSM false false ('"' :: r) = '"' :: preSM true false r := by
      rw [preSM_nonsep false false '"' r (by simp [isLineSep, lineSepCodes])]
      simp
    rw [hp]
    have hq' : '"' ∉ preSM true false r := by
      intro hm
      rcases mem_preSM _ r (Nat.le_refl _) true false '"' hm with h1 | h1
      · exact hq h1
      · exact absurd h1 (by decide)
    exact ⟨noToken_quote _ hq', ⟨by simp [headSat, isNameChar], by simp [headSat, isDigit]⟩,
      by simp [Tstart, headSat, isLineSep, lineSepCodes], by simp, by simp [headSat, isNameChar],
      by simp [matchLit]⟩
  · cases h

/-! ### open groups -/

theorem openLexemes_wfLex : ∀ (opens : List (List Tok)), opens.all wfToks = true →
    ∀ l ∈ openLexemes opens, wfLex l = true := by
  intro opens
  induction opens with
  | nil => intro _ l hl; simp [openLexemes] at hl
  | cons ts rest ih =>
    intro h l hl
    simp only [List.all_cons, Bool.and_eq_true] at h
    simp only [openLexemes, List.mem_cons, List.mem_append] at hl
    rcases hl with rfl | hl | hl
    · rfl
    · exact groupLexemes_wfLex ts h.1 l hl
    · exact ih h.2 l hl

theorem openLexemes_ok (opens : List (List Tok)) (h : opens.all wfToks = true) :
    ∀ l ∈ openLexemes opens, LexOK l :=
  fun l hl => wfLex_ok l (openLexemes_wfLex opens h l hl)

theorem renderWT_nil_lex (T : Str) (W : List Str) : renderWT T [] W = W.headD [] ++ T := rfl

/-- **open groups, with a continuation**: behind the `{` of the outermost open group stand its
complete tokens `ts`, then further open groups `rest`; an error of the loop at what follows them
is the error of the whole -/
theorem open_inner (T : Str) (hT : TailOK T) : ∀ (rest : List (List Tok)) (ts : List Tok)
    (prev : Option Lex) (W : List Str) (ln : Nat),
    wfToks ts = true → rest.all wfToks = true →
    GoodW prev (lexemesList ts ++ openLexemes rest) W →
    ∃ ln', White ((W.drop (lexemesList ts ++ openLexemes rest).length).headD []) ∧
      ln' + nl (renderWT T [] (W.drop (lexemesList ts ++ openLexemes rest).length))
        = ln + nl (renderWT T (lexemesList ts ++ openLexemes rest) W) ∧
      ∀ (n : Nat) (e : Err),
        parseGroupF n ⟨renderWT T [] (W.drop (lexemesList ts ++ openLexemes rest).length), ln'⟩
          = .error e → e ≠ .outOfFuel →
        ∃ m, parseGroupF m ⟨renderWT T (lexemesList ts ++ openLexemes rest) W, ln⟩ = .error e := by
  intro rest
  induction rest with
  | nil =>
    intro ts prev W ln hts _ hg
    simp only [openLexemes, List.append_nil] at hg ⊢
    have hg' : GoodW prev (lexemesList ts ++ []) W := by simpa using hg
    obtain ⟨ln', prev', hgood, hcons, hcont⟩ :=
      group_prefixT T hT ts prev [] W ln hts (by intro x hx; cases hx) hg'
    simp only [List.append_nil] at hcons hcont
    refine ⟨ln', hgood, hcons, ?_⟩
    intro n e h hne
    obtain ⟨m, hm⟩ := hcont n (.error e) h (by simpa using hne)
    exact ⟨m, by simpa [prepend] using hm⟩
  | cons ts2 rest' ih =>
    intro ts prev W ln hts hrest hg
    simp only [List.all_cons, Bool.and_eq_true] at hrest
    have hmoreok : ∀ x ∈ Lex.lb :: (lexemesList ts2 ++ openLexemes rest'), LexOK x := by
      intro x hx
      simp only [List.mem_cons, List.mem_append] at hx
      rcases hx with rfl | hx | hx
      · trivial
      · exact lexemesList_ok ts2 hrest.1 x hx
      · exact openLexemes_ok rest' hrest.2 x hx
    simp only [openLexemes] at hg ⊢
    obtain ⟨ln1, prev1, hgood1, hcons1, hcont1⟩ :=
      group_prefixT T hT ts prev (.lb :: (lexemesList ts2 ++ openLexemes rest')) W ln hts hmoreok hg
    generalize hW1 : W.drop (lexemesList ts).length = W1 at hgood1 hcons1 hcont1
    obtain ⟨hw1, _, hg1⟩ := hgood1
    obtain ⟨ln2, hw2, hcons2, hcont2⟩ :=
      ih ts2 (some .lb) W1.tail (ln1 + (W1.headD []).count '\n') hrest.1 hrest.2 hg1
    have hidx : W1.tail.drop (lexemesList ts2 ++ openLexemes rest').length
        = W.drop (lexemesList ts ++ Lex.lb :: (lexemesList ts2 ++ openLexemes rest')).length := by
      rw [← hW1, tail_drop, List.drop_drop]
      congr 1
      simp only [List.length_append, List.length_cons]
    rw [hidx] at hw2 hcons2 hcont2
    have hreq := required_lex .lb trivial (W1.headD [])
      (renderWT T (lexemesList ts2 ++ openLexemes rest') W1.tail) hw1 ln1 trivial none false
    refine ⟨ln2, hw2, ?_, ?_⟩
    · rw [hcons2, ← hcons1]
      simp only [renderWT, nl_append, Lex.text]
      simp only [nl]; simp; omega
    · intro n e h hne
      obtain ⟨m2, hm2⟩ := hcont2 n e h hne
      have hstep : parseGroupF (m2 + 1)
          ⟨renderWT T (Lex.lb :: (lexemesList ts2 ++ openLexemes rest')) W1, ln1⟩ = .error e := by
        simp only [renderWT]
        rw [parseGroupF_step_lb m2 _ _ _ hreq, hm2]
      obtain ⟨m, hm⟩ := hcont1 (m2 + 1) (.error e) hstep (by simpa using hne)
      exact ⟨m, by simpa [prepend] using hm⟩

/-! ### from the source -/

/-- the text handed to the parser for a printed lexeme sequence followed by arbitrary text `T`
(not starting with a line break), and the line on which `T` starts -/
theorem source_tail (ls : List Lex) (gaps : List Gap) (T : Str) (hwf : ∀ l ∈ ls, wfLex l = true)
    (hts : Tstart T) (hne : T ≠ []) :
    ∃ W, GoodW none ls W ∧
      stringText (render none ls gaps ++ T) = renderWT (preSM false false T) ls W ∧
      1 + nl (renderW ls W) = tailLine ls gaps := by
  obtain ⟨W, hgood, hpre, _, hlast⟩ := pre_render_tail ls none gaps T hts hwf
  refine ⟨W, hgood, ?_, ?_⟩
  · rw [stringText_eq_preSM, hpre, renderWT_eq]
  · unfold tailLine; rw [hlast hne]

/-- the line the scanner is on when it has passed the white space in front of the tail -/
theorem tail_line (T' : Str) (ls : List Lex) (W : List Str) (ln' k : Nat)
    (hcons : ln' + nl (renderWT T' [] (W.drop k)) = 1 + nl (renderWT T' ls W)) :
    ln' + nl ((W.drop k).headD []) = 1 + nl (renderW ls W) := by
  rw [renderWT_nil_lex, renderWT_eq, nl_append, nl_append] at hcons
  omega

theorem describe_groupPats :
    describe groupPats = "name or string or integer or '{' or '}'".toList := by rfl

/-- what the loop of `parse_group` answers at the tail, inside open groups -/
theorem located_in_group (p : Program) (name : Str) (gs : List (List Tok)) (j : Nat)
    (ts : List Tok) (rest : List (List Tok)) (gaps : List Gap) (T : Str) (e : Nat → Err)
    (hp : WFProg p) (hname : wfName name = true)
    (har : cmdArity name = some (gs.length + (j + 1))) (hgs : gs.all wfToks = true)
    (hts : wfToks ts = true) (hrest : rest.all wfToks = true)
    (htail : TailOK (preSM false false T)) (htstart : Tstart T) (hTne : T ≠ [])
    (he : ∀ l, e l ≠ .outOfFuel ∧ e l ≠ .eof)
    (herr : ∀ (w : Str) (ln : Nat), White w →
      parseGroupF 1 ⟨w ++ preSM false false T, ln⟩ = .error (e (ln + nl w))) :
    parseString (render none
        (Program.lexemes p ++ .word name :: (groupsLexemes gs ++ openLexemes (ts :: rest))) gaps ++ T)
      = .error (e (tailLine
          (Program.lexemes p ++ .word name :: (groupsLexemes gs ++ openLexemes (ts :: rest))) gaps)) := by
  have hopens : (ts :: rest).all wfToks = true := by simp [hts, hrest]
  have hall : ∀ l ∈ Program.lexemes p ++ .word name :: (groupsLexemes gs ++ openLexemes (ts :: rest)),
      wfLex l = true := by
    intro l hl
    simp only [List.mem_append, List.mem_cons] at hl
    rcases hl with hl | rfl | hl | hl
    · exact program_wfLex p hp l hl
    · exact wfName_wfLex hname
    · exact groupsLexemes_wfLex gs hgs l hl
    · exact openLexemes_wfLex _ hopens l hl
  obtain ⟨W, hgood, hclean, hline⟩ := source_tail _ gaps T hall htstart hTne
  unfold parseString
  rw [hclean]
  generalize preSM false false T = T' at htail herr ⊢
  have hmoreok : ∀ x ∈ openLexemes (ts :: rest), LexOK x := openLexemes_ok _ hopens
  have hmore1ok : ∀ x ∈ Lex.word name :: (groupsLexemes gs ++ openLexemes (ts :: rest)), LexOK x := by
    intro x hx
    exact wfLex_ok x (hall x (by simp only [List.mem_append]; exact Or.inr hx))
  obtain ⟨ln1, prev1, hpf, hgood1, hcons1⟩ :=
    program_prefix_rtT T' htail p none (.word name :: (groupsLexemes gs ++ openLexemes (ts :: rest))) W 1 1
      hp hmore1ok hgood
  obtain ⟨ln2, hpc, hgood2, hcons2⟩ :=
    command_partialT T' htail name gs (j + 1) prev1 (openLexemes (ts :: rest))
      (W.drop (Program.lexemes p).length) ln1 hname har hgs hmoreok hgood1
  generalize hW3 : (W.drop (Program.lexemes p).length).drop ((groupsLexemes gs).length + 1) = W3
    at hpc hgood2 hcons2
  simp only [openLexemes] at hpc hgood2 hcons2
  obtain ⟨hw3, _, hg3⟩ := hgood2
  have hreq := required_text [(TokKind.lbrace, lbracePat)] .lbrace ['{']
    (renderWT T' (lexemesList ts ++ openLexemes rest) W3.tail) (W3.headD [])
    (by simp) (by simp [headSat, isWs, wsCodes]) hw3
    (by simp [firstMatch, lbracePat, litPat, matchLit]) none false ln2
  obtain ⟨ln4, hw4, hcons4, hcont⟩ :=
    open_inner T' htail rest ts (some .lb) W3.tail (ln2 + (W3.headD []).count '\n') hts hrest hg3
  obtain ⟨m, hm⟩ := hcont 1 _ (herr _ ln4 hw4) (he _).1
  have hpgr := parseGroup_of_fuel _ m _ hm (by simpa using (he _).1)
  -- the line
  have hchain : ln4 + nl (renderWT T' [] (W3.tail.drop (lexemesList ts ++ openLexemes rest).length))
      = 1 + nl (renderWT T'
          (Program.lexemes p ++ .word name :: (groupsLexemes gs ++ openLexemes (ts :: rest))) W) := by
    have hcons1' := hcons1
    simp only [openLexemes] at hcons1' ⊢
    rw [hcons4, ← hcons1', ← hcons2]
    simp only [renderWT, nl_append, Lex.text]
    simp only [nl]; simp; omega
  have hk : W3.tail.drop (lexemesList ts ++ openLexemes rest).length
      = W.drop ((Program.lexemes p).length + ((groupsLexemes gs).length + 1)
          + (1 + (lexemesList ts ++ openLexemes rest).length)) := by
    rw [← hW3, tail_drop, List.drop_drop, List.drop_drop]
    congr 1; omega
  rw [hk] at hchain hpgr
  have hl := tail_line T' _ W ln4 _ hchain
  rw [hline] at hl
  rw [hl] at hpgr
  have hpg : parseGroups (j + 1)
      ⟨renderWT T' (Lex.lb :: (lexemesList ts ++ openLexemes rest)) W3, ln2⟩
      = .error (e (tailLine
          (Program.lexemes p ++ .word name :: (groupsLexemes gs ++ openLexemes (ts :: rest))) gaps)) := by
    simp only [parseGroups, renderWT, Lex.text]
    rw [hreq]
    simp only [hpgr]
  have hpc' : parseCommand ⟨renderWT T' (.word name :: (groupsLexemes gs ++ openLexemes (ts :: rest)))
      (W.drop (Program.lexemes p).length), ln1⟩
      = .error (e (tailLine
          (Program.lexemes p ++ .word name :: (groupsLexemes gs ++ openLexemes (ts :: rest))) gaps)) := by
    simp only [openLexemes]
    rw [hpc, hpg]; rfl
  apply parseText_of_fuel _ (1 + p.length) _ _ (by simpa using (he _).1)
  unfold St.init
  rw [hpf, parseF_one_error _ _ hpc' (he _).2]

/-- **text that cannot begin a token, inside a group** (at any depth of open groups) -/
theorem located_lexical_group (p : Program) (name : Str) (gs : List (List Tok)) (j : Nat)
    (ts : List Tok) (rest : List (List Tok)) (gaps : List Gap) (T : Str)
    (hp : WFProg p) (hname : wfName name = true)
    (har : cmdArity name = some (gs.length + (j + 1))) (hgs : gs.all wfToks = true)
    (hts : wfToks ts = true) (hrest : rest.all wfToks = true) (hT : lexBad T = true) :
    parseString (render none
        (Program.lexemes p ++ .word name :: (groupsLexemes gs ++ openLexemes (ts :: rest))) gaps ++ T)
      = .error (.tokenRequired "name or string or integer or '{' or '}'".toList (tailLine
          (Program.lexemes p ++ .word name :: (groupsLexemes gs ++ openLexemes (ts :: rest))) gaps)) := by
  obtain ⟨hnt, htail, htstart, hTne, _, _⟩ := lexBad_clean T hT
  rw [← describe_groupPats]
  exact located_in_group p name gs j ts rest gaps T (fun l => .tokenRequired (describe groupPats) l)
    hp hname har hgs hts hrest htail htstart hTne (fun l => ⟨by simp, by simp⟩)
    (fun w ln hw => parseGroupF_no_token 0 w _ hw hnt ln)

theorem preSM_intText (v : Int) (rest : Str) :
    preSM false false (intText v ++ rest) = intText v ++ preSM false false rest := by
  apply preSM_plain
  intro c hc
  have hd : ∀ c ∈ Nat.toDigits 10 v.natAbs, isLineSep c = false ∧ c ≠ '"' ∧ (c = '%' → false = true) := by
    intro c hc
    obtain ⟨h1, h2, h3⟩ := isDigit_props (toDigits_all_digit _ c hc)
    exact ⟨h1, h2, fun h => absurd h h3⟩
  simp only [intText] at hc
  split at hc
  · simp only [List.mem_cons] at hc
    rcases hc with rfl | rfl | hc
    · simp [isLineSep, lineSepCodes]
    · simp [isLineSep, lineSepCodes]
    · exact hd c hc
  · simp only [List.mem_cons] at hc
    rcases hc with rfl | hc
    · simp [isLineSep, lineSepCodes]
    · exact hd c hc

theorem intTooLong_of_not_wf (v : Int) (h : wfInt v = false) : intTooLong (intText v) = true := by
  simp only [wfInt, decide_eq_false_iff_not, Nat.not_le] at h
  simp only [intTooLong, intText_digits, int_limit, Bool.and_eq_true, bne_iff_ne, ne_eq,
    decide_eq_true_eq]
  exact ⟨by decide, h⟩

/-- **an integer literal longer than the interpreter converts, inside a group** (the repaired
`parse_group`, C15-3): `PybtexSyntaxError('integer literal too long')` on the line of the literal -/
theorem located_int_too_long (p : Program) (name : Str) (gs : List (List Tok)) (j : Nat)
    (ts : List Tok) (rest : List (List Tok)) (gaps : List Gap) (v : Int) (T2 : Str)
    (hp : WFProg p) (hname : wfName name = true)
    (har : cmdArity name = some (gs.length + (j + 1))) (hgs : gs.all wfToks = true)
    (hts : wfToks ts = true) (hrest : rest.all wfToks = true) (hv : wfInt v = false)
    (hT2 : headSat isDigit T2 = false) :
    parseString (render none
        (Program.lexemes p ++ .word name :: (groupsLexemes gs ++ openLexemes (ts :: rest))) gaps
        ++ (intText v ++ T2))
      = .error (.syntaxError "integer literal too long".toList (tailLine
          (Program.lexemes p ++ .word name :: (groupsLexemes gs ++ openLexemes (ts :: rest))) gaps)) := by
  have hpre := preSM_intText v T2
  have hT2' := head_preSM false T2 hT2
  apply located_in_group p name gs j ts rest gaps (intText v ++ T2)
    (fun l => .syntaxError "integer literal too long".toList l) hp hname har hgs hts hrest
  · rw [hpre]; exact ⟨by simp [intText, headSat, isNameChar], by simp [intText, headSat, isDigit]⟩
  · simp [intText, Tstart, headSat, isLineSep, lineSepCodes]
  · simp [intText]
  · intro l; exact ⟨by simp, by simp⟩
  · intro w ln hw
    rw [hpre]
    have hreq := required_lex (.int v) trivial w (preSM false false T2) hw ln hT2' none false
    have := parseGroupF_step_long 0 _ _ _ hreq (intTooLong_of_not_wf v hv)
    simpa [nl, Lex.text] using this

/-- **text that cannot begin a token, where a command is expected** -/
theorem located_lexical_command (p : Program) (gaps : List Gap) (T : Str) (hp : WFProg p)
    (hT : lexBad T = true) :
    parseString (render none (Program.lexemes p) gaps ++ T)
      = .error (.tokenRequired "BST command".toList (tailLine (Program.lexemes p) gaps)) := by
  obtain ⟨⟨hne', hws, _⟩, htail, htstart, hTne, hname, _⟩ := lexBad_clean T hT
  obtain ⟨W, hgood, hclean, hline⟩ := source_tail _ gaps T (program_wfLex p hp) htstart hTne
  unfold parseString
  rw [hclean]
  generalize preSM false false T = T' at htail hne' hws hname ⊢
  have hg0 : GoodW none (Program.lexemes p ++ []) W := by simpa using hgood
  obtain ⟨ln', prev', hpf, hgood', hcons⟩ :=
    program_prefix_rtT T' htail p none [] W 1 1 hp (by intro x hx; cases hx) hg0
  simp only [List.append_nil] at hpf hcons
  have hw : White ((W.drop (Program.lexemes p).length).headD []) := hgood'
  have hl := tail_line T' _ W ln' _ hcons
  rw [hline] at hl
  have hpc : parseCommand ⟨renderWT T' [] (W.drop (Program.lexemes p).length), ln'⟩
      = .error (.tokenRequired "BST command".toList (tailLine (Program.lexemes p) gaps)) := by
    rw [renderWT_nil_lex, ← hl]
    simp only [parseCommand]
    rw [required_eq, eatWs_append _ _ ln' (fun c hc => (hw c hc).1) hws, hw.countNewlines]
    cases T' with
    | nil => exact absurd rfl hne'
    | cons c r =>
      simp only [firstMatch, namePat_none _ hname, nl]
  apply parseText_of_fuel _ (1 + p.length) _ _ (by simp)
  unfold St.init
  rw [hpf, parseF_one_error _ _ hpc (by simp)]

/-- **text that cannot begin a token, where the `{` of an argument group is expected** -/
theorem located_lexical_brace (p : Program) (name : Str) (gs : List (List Tok)) (j : Nat)
    (gaps : List Gap) (T : Str) (hp : WFProg p) (hname : wfName name = true)
    (har : cmdArity name = some (gs.length + (j + 1))) (hgs : gs.all wfToks = true)
    (hT : lexBad T = true) :
    parseString (render none (Program.lexemes p ++ .word name :: groupsLexemes gs) gaps ++ T)
      = .error (.tokenRequired "'{'".toList
          (tailLine (Program.lexemes p ++ .word name :: groupsLexemes gs) gaps)) := by
  obtain ⟨⟨hne', hws, _⟩, htail, htstart, hTne, _, hlb⟩ := lexBad_clean T hT
  have hall : ∀ l ∈ Program.lexemes p ++ .word name :: groupsLexemes gs, wfLex l = true := by
    intro l hl
    simp only [List.mem_append, List.mem_cons] at hl
    rcases hl with hl | rfl | hl
    · exact program_wfLex p hp l hl
    · exact wfName_wfLex hname
    · exact groupsLexemes_wfLex gs hgs l hl
  obtain ⟨W, hgood, hclean, hline⟩ := source_tail _ gaps T hall htstart hTne
  unfold parseString
  rw [hclean]
  generalize preSM false false T = T' at htail hne' hws hlb ⊢
  have hls : Program.lexemes p ++ .word name :: groupsLexemes gs
      = Program.lexemes p ++ .word name :: (groupsLexemes gs ++ []) := by simp
  rw [hls] at hgood hline ⊢
  have hmore1ok : ∀ x ∈ Lex.word name :: (groupsLexemes gs ++ []), LexOK x := by
    intro x hx
    exact wfLex_ok x (hall x (by
      simp only [List.append_nil] at hx
      simp only [List.mem_append]; exact Or.inr hx))
  obtain ⟨ln1, prev1, hpf, hgood1, hcons1⟩ :=
    program_prefix_rtT T' htail p none (.word name :: (groupsLexemes gs ++ [])) W 1 1 hp hmore1ok hgood
  obtain ⟨ln2, hpc, hgood2, hcons2⟩ :=
    command_partialT T' htail name gs (j + 1) prev1 [] (W.drop (Program.lexemes p).length) ln1
      hname har hgs (by intro x hx; cases hx) hgood1
  rw [List.drop_drop] at hpc hgood2 hcons2
  have hw : White ((W.drop ((Program.lexemes p).length + ((groupsLexemes gs).length + 1))).headD []) :=
    hgood2
  have hchain : ln2 + nl (renderWT T' []
        (W.drop ((Program.lexemes p).length + ((groupsLexemes gs).length + 1))))
      = 1 + nl (renderWT T' (Program.lexemes p ++ .word name :: (groupsLexemes gs ++ [])) W) := by
    rw [hcons2, hcons1]
  have hl := tail_line T' _ W ln2 _ hchain
  rw [hline] at hl
  have hpg : parseGroups (j + 1) ⟨renderWT T' []
        (W.drop ((Program.lexemes p).length + ((groupsLexemes gs).length + 1))), ln2⟩
      = .error (.tokenRequired "'{'".toList
          (tailLine (Program.lexemes p ++ .word name :: (groupsLexemes gs ++ [])) gaps)) := by
    rw [renderWT_nil_lex, ← hl]
    simp only [parseGroups]
    rw [required_eq, eatWs_append _ _ ln2 (fun c hc => (hw c hc).1) hws, hw.countNewlines]
    cases T' with
    | nil => exact absurd rfl hne'
    | cons c r =>
      have hfm : firstMatch [(TokKind.lbrace, lbracePat)] (c :: r) = none := by
        simp only [firstMatch, lbracePat, litPat, hlb, Option.map_none]
      simp only [hfm, describe_lbrace, nl]
  have hpc' : parseCommand ⟨renderWT T' (.word name :: (groupsLexemes gs ++ []))
      (W.drop (Program.lexemes p).length), ln1⟩
      = .error (.tokenRequired "'{'".toList
          (tailLine (Program.lexemes p ++ .word name :: (groupsLexemes gs ++ [])) gaps)) := by
    rw [hpc, hpg]; rfl
  apply parseText_of_fuel _ (1 + p.length) _ _ (by simp)
  unfold St.init
  rw [hpf, parseF_one_error _ _ hpc' (by simp)]

end Pybtex.Bst
