/-
Generic lemmas about the scanner pieces of `Model/Scanner.lean` (the four lemmas of the
printer/parser proof pattern, DESIGN.md C01, plus token-level consequences).
-/
import PybtexModel.Model.Scanner

namespace Pybtex.Scanner

/-- `r` does not start with a character of the class `p` -/
def headSat (p : Char → Bool) : Str → Bool
  | [] => false
  | c :: _ => p c

theorem takeRun_fst_append_snd (p : Char → Bool) (s : Str) :
    (takeRun p s).1 ++ (takeRun p s).2 = s := by
  induction s with
  | nil => rfl
  | cons c r ih =>
    simp only [takeRun]
    split <;> simp [ih]

theorem takeRun_fst_all (p : Char → Bool) (s : Str) : ∀ c ∈ (takeRun p s).1, p c = true := by
  induction s with
  | nil => simp [takeRun]
  | cons c r ih =>
    simp only [takeRun]
    split
    · intro d hd
      simp only [List.mem_cons] at hd
      rcases hd with rfl | hd
      · assumption
      · exact ih d hd
    · simp

theorem takeRun_snd_head (p : Char → Bool) (s : Str) : headSat p (takeRun p s).2 = false := by
  induction s with
  | nil => simp [takeRun, headSat]
  | cons c r ih =>
    simp only [takeRun]
    split
    · exact ih
    · simp [headSat]; simpa using ‹¬p c = true›

/-- generic lemma 3: a maximal run is recovered when what follows does not start in the class -/
theorem takeRun_append (p : Char → Bool) (n r : Str) (hn : ∀ c ∈ n, p c = true)
    (hr : headSat p r = false) : takeRun p (n ++ r) = (n, r) := by
  induction n with
  | nil =>
    cases r with
    | nil => rfl
    | cons c r => simp [headSat] at hr; simp [takeRun, hr]
  | cons c n ih =>
    have hc : p c = true := hn c (by simp)
    have := ih (fun d hd => hn d (by simp [hd]))
    simp [takeRun, hc, this]

theorem takeRun_stop (p : Char → Bool) (r : Str) (hr : headSat p r = false) :
    takeRun p r = ([], r) := takeRun_append p [] r (by simp) hr

theorem takeRun_length_le (p : Char → Bool) (s : Str) : (takeRun p s).2.length ≤ s.length := by
  have := congrArg List.length (takeRun_fst_append_snd p s)
  simp at this; omega

/-! line counting -/

theorem countCRLF_of_no_cr (w : Str) (h : '\r' ∉ w) : countCRLF w = 0 := by
  induction w using countCRLF.induct with
  | case1 => rfl
  | case2 => rfl
  | case3 r a b hab ih => simp_all
  | case4 a b r hab ih =>
    simp only [countCRLF, if_neg hab]
    apply ih
    intro hm; exact h (List.mem_cons_of_mem _ hm)

theorem countNewlines_of_no_cr (w : Str) (h : '\r' ∉ w) : countNewlines w = w.count '\n' := by
  simp [countNewlines, countCRLF_of_no_cr w h, List.count_eq_zero_of_not_mem h]

/-- generic lemmas 1 and 2 in one: white space in front of something that does not start with
white space is skipped, and exactly its line breaks are counted -/
theorem eatWs_append (w r : Str) (ln : Nat) (hw : ∀ c ∈ w, isWs c = true)
    (hr : headSat isWs r = false) : eatWs ⟨w ++ r, ln⟩ = ⟨r, ln + countNewlines w⟩ := by
  simp [eatWs, takeRun_append isWs w r hw hr]

theorem eatWs_rest_length_le (st : St) : (eatWs st).rest.length ≤ st.rest.length := by
  simp [eatWs]; exact takeRun_length_le _ _

theorem eatWs_rest_head (st : St) : headSat isWs (eatWs st).rest = false := by
  simp [eatWs]; exact takeRun_snd_head _ _

/-! patterns -/

theorem matchRun1_append (p : Char → Bool) (c : Char) (n r : Str) (hn : ∀ d ∈ c :: n, p d = true)
    (hr : headSat p r = false) : matchRun1 p (c :: n ++ r) = some (c :: n, r) := by
  have := takeRun_append p (c :: n) r hn hr
  simp only [List.cons_append] at this
  simp [matchRun1, this]

theorem matchRun1_none (p : Char → Bool) (r : Str) (hr : headSat p r = false) :
    matchRun1 p r = none := by
  simp [matchRun1, takeRun_stop p r hr]

theorem matchRun1_some {p : Char → Bool} {s v r : Str} (h : matchRun1 p s = some (v, r)) :
    v ≠ [] ∧ s = v ++ r := by
  unfold matchRun1 at h
  have h2 := takeRun_fst_append_snd p s
  split at h
  · cases h
  · rename_i c run r' heq
    cases h
    rw [heq] at h2
    exact ⟨by simp, h2.symm⟩

theorem matchLit_some {lit s r : Str} (h : matchLit lit s = some r) : s = lit ++ r := by
  induction lit generalizing s with
  | nil => simp [matchLit] at h; simp [h]
  | cons a l ih =>
    cases s with
    | nil => simp [matchLit] at h
    | cons c s =>
      simp only [matchLit] at h
      split at h
      · rename_i hac; subst hac; simp [ih h]
      · cases h

end Pybtex.Scanner
