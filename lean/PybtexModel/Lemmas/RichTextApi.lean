/-
Lemmas about `Model/RichTextApi.lean` (constructor expressions with arbitrary arguments, `text[key]`
for any key, `in` for any item, `split` at a refused separator) against `Spec/RichTextApi.lean`.
-/
import PybtexModel.Lemmas.RichText
import PybtexModel.Lemmas.RichTextU
import PybtexModel.Spec.RichTextApi

namespace Pybtex
namespace RT

/-! ### constructor expressions -/

def Val.sem (ctx : List Markup) : Val → Flat
  | .str s => s.map fun c => (.ch c, ctx)
  | .other _ => []
  | .rt t => RT.sem ctx t

def Val.semL (ctx : List Markup) : List Val → Flat
  | [] => []
  | v :: vs => Val.sem ctx v ++ Val.semL ctx vs

def Val.Normal : Val → Bool
  | .rt t => RT.Normal t
  | _ => true

def Val.isPart : Val → Bool
  | .other _ => false
  | _ => true

def Val.isPyStr : Val → Bool
  | .str _ => true
  | _ => false

def Val.nameOk : Val → Bool
  | .str _ => true
  | .rt (.node .text _) => true
  | _ => false

def Val.top : Val → Option Top
  | .rt t => some (RT.top t)
  | _ => none

theorem ensureAll_sem : ∀ (vs : List Val) (ps : List RT), ensureAll vs = .ok ps →
    ∀ ctx, semL ctx ps = Val.semL ctx vs
  | [], ps, h, ctx => by
    simp only [ensureAll] at h; cases h; rfl
  | v :: vs, ps, h, ctx => by
    simp only [ensureAll] at h
    split at h
    · cases h
    · rename_i p hp
      split at h
      · cases h
      · rename_i ps' hps
        cases h
        have ih := ensureAll_sem vs ps' hps ctx
        simp only [semL, Val.semL, ih]
        congr 1
        cases v with
        | str s => simp only [ensureText] at hp; cases hp; rfl
        | other ty => simp only [ensureText] at hp; cases hp
        | rt t => simp only [ensureText] at hp; cases hp; rfl

theorem ensureAll_normal : ∀ (vs : List Val) (ps : List RT), ensureAll vs = .ok ps →
    (∀ v ∈ vs, Val.Normal v = true) → ∀ p ∈ ps, Normal p = true
  | [], ps, h, _ => by
    simp only [ensureAll] at h; cases h; simp
  | v :: vs, ps, h, hn => by
    simp only [ensureAll] at h
    split at h
    · cases h
    · rename_i p hp
      split at h
      · cases h
      · rename_i ps' hps
        cases h
        have ih := ensureAll_normal vs ps' hps (fun x hx => hn x (by simp [hx]))
        intro q hq
        simp only [List.mem_cons] at hq
        rcases hq with rfl | hq
        · have hv := hn v (by simp)
          cases v with
          | str s => simp only [ensureText] at hp; cases hp; rfl
          | other ty => simp only [ensureText] at hp; cases hp
          | rt t => simp only [ensureText] at hp; cases hp; exact hv
        · exact ih q hq

theorem ensureAll_ok_iff : ∀ (vs : List Val), (∃ ps, ensureAll vs = .ok ps) ↔ vs.all Val.isPart = true
  | [] => by simp [ensureAll]
  | v :: vs => by
    have ih := ensureAll_ok_iff vs
    cases v with
    | other ty => simp [ensureAll, ensureText, Val.isPart]
    | str s =>
      simp only [ensureAll, ensureText, List.all_cons, Val.isPart, Bool.true_and, ← ih]
      constructor
      · rintro ⟨ps, h⟩; split at h
        · cases h
        · rename_i ps' h'; exact ⟨ps', h'⟩
      · rintro ⟨ps, h⟩; rw [h]; exact ⟨_, rfl⟩
    | rt t =>
      simp only [ensureAll, ensureText, List.all_cons, Val.isPart, Bool.true_and, ← ih]
      constructor
      · rintro ⟨ps, h⟩; split at h
        · cases h
        · rename_i ps' h'; exact ⟨ps', h'⟩
      · rintro ⟨ps, h⟩; rw [h]; exact ⟨_, rfl⟩

theorem stringJoin_ok_iff : ∀ (vs : List Val), (∃ s, stringJoin vs = .ok s) ↔ vs.all Val.isPyStr = true
  | [] => by simp [stringJoin]
  | v :: vs => by
    have ih := stringJoin_ok_iff vs
    cases v with
    | other ty => simp [stringJoin, Val.isPyStr]
    | rt t => simp [stringJoin, Val.isPyStr]
    | str s =>
      simp only [stringJoin, List.all_cons, Val.isPyStr, Bool.true_and, ← ih]
      constructor
      · rintro ⟨ps, h⟩; split at h
        · cases h
        · rename_i ps' h'; exact ⟨ps', h'⟩
      · rintro ⟨ps, h⟩; rw [h]; exact ⟨_, rfl⟩

theorem stringJoin_sem : ∀ (vs : List Val) (s : Str), stringJoin vs = .ok s →
    ∀ ctx, (s.map fun c => ((.ch c : Atom), ctx)) = Val.semL ctx vs
  | [], s, h, ctx => by simp only [stringJoin] at h; cases h; rfl
  | .other _ :: vs, s, h, ctx => by simp [stringJoin] at h
  | .rt _ :: vs, s, h, ctx => by simp [stringJoin] at h
  | .str s0 :: vs, s, h, ctx => by
    simp only [stringJoin] at h
    split at h
    · cases h
    · rename_i rest hr
      cases h
      simp only [List.map_append, Val.semL, Val.sem, stringJoin_sem vs rest hr ctx]

theorem tagName_ok_iff (v : Val) : (∃ n, tagName v = .ok n) ↔ Val.nameOk v = true := by
  cases v with
  | str s => simp [tagName, Val.nameOk]
  | other ty => simp [tagName, Val.nameOk]
  | rt t =>
    cases t with
    | str s => simp [tagName, Val.nameOk]
    | sym n => simp [tagName, Val.nameOk]
    | node k ps => cases k <;> simp [tagName, Val.nameOk]

theorem hrefUrl_ok_iff (v : Val) : (∃ n, hrefUrl v = .ok n) ↔ Val.isPart v = true := by
  cases v <;> simp [hrefUrl, Val.isPart]

theorem toStr_map_ch (s : Str) (ctx : List Markup) : Flat.toStr (s.map fun c => ((.ch c : Atom), ctx)) = s := by
  have := toStr_sem (.str s) ctx
  simpa only [sem, toStr] using this

theorem tagName_sem (v : Val) (n : Str) (h : tagName v = .ok n) : n = Flat.toStr (Val.sem [] v) := by
  cases v with
  | str s => simp only [tagName] at h; cases h; simp only [Val.sem, toStr_map_ch]
  | other ty => simp [tagName] at h
  | rt t =>
    cases t with
    | str s => simp [tagName] at h
    | sym n => simp [tagName] at h
    | node k ps =>
      cases k <;> simp only [tagName] at h <;> first | cases h
      simp only [Val.sem, toStr_sem]

theorem hrefUrl_sem (v : Val) (n : Str) (h : hrefUrl v = .ok n) : n = Flat.toStr (Val.sem [] v) := by
  cases v with
  | str s => simp only [hrefUrl] at h; cases h; simp only [Val.sem, toStr_map_ch]
  | other ty => simp [hrefUrl] at h
  | rt t => simp only [hrefUrl] at h; cases h; simp only [Val.sem, toStr_sem]

theorem checkName_alias (n : Str) : (checkName n).1 = tagAlias n := by
  unfold checkName tagAlias; split <;> rfl

/-- the top-level shape of what `eval` returns, whatever the arguments are -/
theorem eval_form (a : Arg) (v : Val) (h : eval a = .ok v) :
    match a with
    | .str s => v = .str s
    | .other ty => v = .other ty
    | .symbol n => v = .rt (.sym n)
    | .string _ => ∃ s, v = .rt (.str s)
    | .text _ => ∃ ps, v = .rt (.node .text ps)
    | .tag _ _ => ∃ n ps, v = .rt (.node (.tag n) ps)
    | .href _ e _ => ∃ u ps, v = .rt (.node (.href u e) ps)
    | .prot _ => ∃ ps, v = .rt (.node .prot ps) := by
  cases a with
  | str s => simp only [eval] at h; cases h; rfl
  | other ty => simp only [eval] at h; cases h; rfl
  | symbol n => simp only [eval] at h; cases h; rfl
  | string parts =>
    simp only [eval] at h
    split at h
    · cases h
    · split at h
      · cases h
      · cases h; exact ⟨_, rfl⟩
  | text args =>
    simp only [eval] at h
    split at h
    · cases h
    · split at h
      · cases h
      · cases h; exact ⟨_, rfl⟩
  | prot args =>
    simp only [eval] at h
    split at h
    · cases h
    · split at h
      · cases h
      · cases h; exact ⟨_, rfl⟩
  | tag name args =>
    simp only [eval] at h
    split at h
    · cases h
    · split at h
      · cases h
      · split at h
        · cases h
        · split at h
          · cases h
          · cases h; exact ⟨_, _, rfl⟩
  | href url e args =>
    simp only [eval] at h
    split at h
    · cases h
    · split at h
      · cases h
      · split at h
        · cases h
        · split at h
          · cases h
          · cases h; exact ⟨_, _, rfl⟩

/-- what kind of value an expression evaluates to can be read off the expression -/
theorem eval_shape (a : Arg) (v : Val) (h : eval a = .ok v) :
    Val.isPart v = Arg.isPart a ∧ Val.isPyStr v = Arg.isPyStr a ∧ Val.nameOk v = Arg.nameOk a := by
  have hf := eval_form a v h
  cases a <;> simp only at hf
  · subst hf; exact ⟨rfl, rfl, rfl⟩
  · subst hf; exact ⟨rfl, rfl, rfl⟩
  · obtain ⟨s, rfl⟩ := hf; exact ⟨rfl, rfl, rfl⟩
  · subst hf; exact ⟨rfl, rfl, rfl⟩
  · obtain ⟨s, rfl⟩ := hf; exact ⟨rfl, rfl, rfl⟩
  · obtain ⟨n, ps, rfl⟩ := hf; exact ⟨rfl, rfl, rfl⟩
  · obtain ⟨n, ps, rfl⟩ := hf; exact ⟨rfl, rfl, rfl⟩
  · obtain ⟨s, rfl⟩ := hf; exact ⟨rfl, rfl, rfl⟩

theorem evalL_all (P : Val → Bool) (Q : Arg → Bool) (hPQ : ∀ a v, eval a = .ok v → P v = Q a) :
    ∀ (as : List Arg) (vs : List Val), evalL as = .ok vs → vs.all P = as.all Q
  | [], vs, h => by simp only [evalL] at h; cases h; rfl
  | a :: as, vs, h => by
    simp only [evalL] at h
    split at h
    · cases h
    · rename_i v hv
      split at h
      · cases h
      · rename_i vs' hvs
        cases h
        simp only [List.all_cons, hPQ a v hv, evalL_all P Q hPQ as vs' hvs]

mutual
theorem eval_sem : ∀ (a : Arg) (v : Val), eval a = .ok v → ∀ ctx, Val.sem ctx v = Arg.sem ctx a
  | .str s, v, h, ctx => by simp only [eval] at h; cases h; rfl
  | .other ty, v, h, ctx => by simp only [eval] at h; cases h; rfl
  | .symbol n, v, h, ctx => by simp only [eval] at h; cases h; rfl
  | .string parts, v, h, ctx => by
    simp only [eval] at h
    split at h
    · cases h
    · rename_i vs hvs
      split at h
      · cases h
      · rename_i s hs
        cases h
        simp only [Val.sem, sem, Arg.sem, stringJoin_sem vs s hs ctx, evalL_sem parts vs hvs ctx]
  | .text args, v, h, ctx => by
    simp only [eval] at h
    split at h
    · cases h
    · rename_i vs hvs
      split at h
      · cases h
      · rename_i ps hps
        cases h
        simp only [Val.sem, sem_mk, sem, Arg.sem, Kind.markup, List.append_nil, ensureAll_sem vs ps hps,
          evalL_sem args vs hvs]
  | .prot args, v, h, ctx => by
    simp only [eval] at h
    split at h
    · cases h
    · rename_i vs hvs
      split at h
      · cases h
      · rename_i ps hps
        cases h
        simp only [Val.sem, sem_mk, sem, Arg.sem, Kind.markup, ensureAll_sem vs ps hps, evalL_sem args vs hvs]
  | .tag name args, v, h, ctx => by
    simp only [eval] at h
    split at h
    · cases h
    · rename_i nv hnv
      split at h
      · cases h
      · rename_i vs hvs
        split at h
        · cases h
        · rename_i n hn
          split at h
          · cases h
          · rename_i ps hps
            cases h
            have h1 := tagName_sem nv n hn
            rw [eval_sem name nv hnv []] at h1
            simp only [Val.sem, sem_mk, sem, Arg.sem, Kind.markup, ensureAll_sem vs ps hps, evalL_sem args vs hvs,
              checkName_alias, ← h1]
  | .href url e args, v, h, ctx => by
    simp only [eval] at h
    split at h
    · cases h
    · rename_i nv hnv
      split at h
      · cases h
      · rename_i vs hvs
        split at h
        · cases h
        · rename_i n hn
          split at h
          · cases h
          · rename_i ps hps
            cases h
            have h1 := hrefUrl_sem nv n hn
            rw [eval_sem url nv hnv []] at h1
            simp only [Val.sem, sem_mk, sem, Arg.sem, Kind.markup, ensureAll_sem vs ps hps, evalL_sem args vs hvs, ← h1]
theorem evalL_sem : ∀ (as : List Arg) (vs : List Val), evalL as = .ok vs → ∀ ctx, Val.semL ctx vs = Arg.semL ctx as
  | [], vs, h, ctx => by simp only [evalL] at h; cases h; rfl
  | a :: as, vs, h, ctx => by
    simp only [evalL] at h
    split at h
    · cases h
    · rename_i v hv
      split at h
      · cases h
      · rename_i vs' hvs
        cases h
        simp only [Val.semL, Arg.semL, eval_sem a v hv ctx, evalL_sem as vs' hvs ctx]
end


mutual
theorem eval_normal : ∀ (a : Arg) (v : Val), eval a = .ok v → Val.Normal v = true
  | .str s, v, h => by simp only [eval] at h; cases h; rfl
  | .other ty, v, h => by simp only [eval] at h; cases h; rfl
  | .symbol n, v, h => by simp only [eval] at h; cases h; rfl
  | .string parts, v, h => by
    obtain ⟨s, rfl⟩ := eval_form _ v h; rfl
  | .text args, v, h => by
    simp only [eval] at h
    split at h
    · cases h
    · rename_i vs hvs
      split at h
      · cases h
      · rename_i ps hps
        cases h
        simp only [Val.Normal]; exact normal_mk _ ps (ensureAll_normal vs ps hps (evalL_normal args vs hvs))
  | .prot args, v, h => by
    simp only [eval] at h
    split at h
    · cases h
    · rename_i vs hvs
      split at h
      · cases h
      · rename_i ps hps
        cases h
        simp only [Val.Normal]; exact normal_mk _ ps (ensureAll_normal vs ps hps (evalL_normal args vs hvs))
  | .tag name args, v, h => by
    simp only [eval] at h
    split at h
    · cases h
    · split at h
      · cases h
      · rename_i vs hvs
        split at h
        · cases h
        · split at h
          · cases h
          · rename_i ps hps
            cases h
            simp only [Val.Normal]; exact normal_mk _ ps (ensureAll_normal vs ps hps (evalL_normal args vs hvs))
  | .href url e args, v, h => by
    simp only [eval] at h
    split at h
    · cases h
    · split at h
      · cases h
      · rename_i vs hvs
        split at h
        · cases h
        · split at h
          · cases h
          · rename_i ps hps
            cases h
            simp only [Val.Normal]; exact normal_mk _ ps (ensureAll_normal vs ps hps (evalL_normal args vs hvs))
theorem evalL_normal : ∀ (as : List Arg) (vs : List Val), evalL as = .ok vs → ∀ v ∈ vs, Val.Normal v = true
  | [], vs, h => by simp only [evalL] at h; cases h; simp
  | a :: as, vs, h => by
    simp only [evalL] at h
    split at h
    · cases h
    · rename_i v hv
      split at h
      · cases h
      · rename_i vs' hvs
        cases h
        intro x hx
        simp only [List.mem_cons] at hx
        rcases hx with rfl | hx
        · exact eval_normal a _ hv
        · exact evalL_normal as vs' hvs x hx
end

/-- the class of the constructed object, read off the expression -/
theorem eval_top (a : Arg) (t : RT) (h : eval a = .ok (.rt t)) : Arg.top a = some (top t) := by
  have hs := eval_sem a _ h
  cases a with
  | str s => simp only [eval] at h; cases h
  | other ty => simp only [eval] at h; cases h
  | symbol n => simp only [eval] at h; cases h; rfl
  | string parts => obtain ⟨s, hv⟩ := eval_form _ _ h; cases hv; rfl
  | text args => obtain ⟨s, hv⟩ := eval_form _ _ h; cases hv; rfl
  | prot args => obtain ⟨s, hv⟩ := eval_form _ _ h; cases hv; rfl
  | tag name args =>
    simp only [eval] at h
    split at h
    · cases h
    · rename_i nv hnv
      split at h
      · cases h
      · split at h
        · cases h
        · rename_i n hn
          split at h
          · cases h
          · cases h
            have h1 := tagName_sem nv n hn
            rw [eval_sem name nv hnv []] at h1
            simp only [Arg.top, top_mk, checkName_alias, ← h1]
  | href url e args =>
    simp only [eval] at h
    split at h
    · cases h
    · rename_i nv hnv
      split at h
      · cases h
      · split at h
        · cases h
        · rename_i n hn
          split at h
          · cases h
          · cases h
            have h1 := hrefUrl_sem nv n hn
            rw [eval_sem url nv hnv []] at h1
            simp only [Arg.top, top_mk, ← h1]

/-- refinement: the constructed object has the class and the string of pairs the expression denotes -/
theorem eval_abs (a : Arg) (t : RT) (h : eval a = .ok (.rt t)) : Arg.absOf a = some (abs t) := by
  simp only [Arg.absOf, eval_top a t h, abs]
  have := eval_sem a _ h []
  simp only [Val.sem] at this
  rw [this]


mutual
/-- an expression evaluates without an exception iff it is well typed (a syntactic test) -/
theorem eval_ok_iff : ∀ (a : Arg), (∃ v, eval a = .ok v) ↔ Arg.wellTyped a = true
  | .str s => by simp [eval, Arg.wellTyped]
  | .other ty => by simp [eval, Arg.wellTyped]
  | .symbol n => by simp [eval, Arg.wellTyped]
  | .string args => by
    simp only [Arg.wellTyped, Bool.and_eq_true]
    constructor
    · rintro ⟨v, h⟩
      simp only [eval] at h
      split at h
      · cases h
      · rename_i vs hvs
        split at h
        · cases h
        · rename_i ps hps
          refine ⟨(evalL_ok_iff args).1 ⟨vs, hvs⟩, ?_⟩
          rw [← evalL_all Val.isPyStr Arg.isPyStr (fun a v h => (eval_shape a v h).2.1) args vs hvs]
          exact (stringJoin_ok_iff vs).1 ⟨ps, hps⟩
    · rintro ⟨h1, h2⟩
      obtain ⟨vs, hvs⟩ := (evalL_ok_iff args).2 h1
      rw [← evalL_all Val.isPyStr Arg.isPyStr (fun a v h => (eval_shape a v h).2.1) args vs hvs] at h2
      obtain ⟨ps, hps⟩ := (stringJoin_ok_iff vs).2 h2
      simp only [eval, hvs, hps]
      exact ⟨_, rfl⟩
  | .text args => by
    simp only [Arg.wellTyped, Bool.and_eq_true]
    constructor
    · rintro ⟨v, h⟩
      simp only [eval] at h
      split at h
      · cases h
      · rename_i vs hvs
        split at h
        · cases h
        · rename_i ps hps
          refine ⟨(evalL_ok_iff args).1 ⟨vs, hvs⟩, ?_⟩
          rw [← evalL_all Val.isPart Arg.isPart (fun a v h => (eval_shape a v h).1) args vs hvs]
          exact (ensureAll_ok_iff vs).1 ⟨ps, hps⟩
    · rintro ⟨h1, h2⟩
      obtain ⟨vs, hvs⟩ := (evalL_ok_iff args).2 h1
      rw [← evalL_all Val.isPart Arg.isPart (fun a v h => (eval_shape a v h).1) args vs hvs] at h2
      obtain ⟨ps, hps⟩ := (ensureAll_ok_iff vs).2 h2
      simp only [eval, hvs, hps]
      exact ⟨_, rfl⟩
  | .prot args => by
    simp only [Arg.wellTyped, Bool.and_eq_true]
    constructor
    · rintro ⟨v, h⟩
      simp only [eval] at h
      split at h
      · cases h
      · rename_i vs hvs
        split at h
        · cases h
        · rename_i ps hps
          refine ⟨(evalL_ok_iff args).1 ⟨vs, hvs⟩, ?_⟩
          rw [← evalL_all Val.isPart Arg.isPart (fun a v h => (eval_shape a v h).1) args vs hvs]
          exact (ensureAll_ok_iff vs).1 ⟨ps, hps⟩
    · rintro ⟨h1, h2⟩
      obtain ⟨vs, hvs⟩ := (evalL_ok_iff args).2 h1
      rw [← evalL_all Val.isPart Arg.isPart (fun a v h => (eval_shape a v h).1) args vs hvs] at h2
      obtain ⟨ps, hps⟩ := (ensureAll_ok_iff vs).2 h2
      simp only [eval, hvs, hps]
      exact ⟨_, rfl⟩
  | .tag name args => by
    simp only [Arg.wellTyped, Bool.and_eq_true]
    constructor
    · rintro ⟨v, h⟩
      simp only [eval] at h
      split at h
      · cases h
      · rename_i nv hnv
        split at h
        · cases h
        · rename_i vs hvs
          split at h
          · cases h
          · rename_i n hn
            split at h
            · cases h
            · rename_i ps hps
              refine ⟨⟨⟨(eval_ok_iff name).1 ⟨nv, hnv⟩, ?_⟩, (evalL_ok_iff args).1 ⟨vs, hvs⟩⟩, ?_⟩
              · rw [← (eval_shape name nv hnv).2.2]; exact (tagName_ok_iff nv).1 ⟨n, hn⟩
              · rw [← evalL_all Val.isPart Arg.isPart (fun a v h => (eval_shape a v h).1) args vs hvs]
                exact (ensureAll_ok_iff vs).1 ⟨ps, hps⟩
    · rintro ⟨⟨⟨h0, hn0⟩, h1⟩, h2⟩
      obtain ⟨nv, hnv⟩ := (eval_ok_iff name).2 h0
      rw [← (eval_shape name nv hnv).2.2] at hn0
      obtain ⟨n, hn⟩ := (tagName_ok_iff nv).2 hn0
      obtain ⟨vs, hvs⟩ := (evalL_ok_iff args).2 h1
      rw [← evalL_all Val.isPart Arg.isPart (fun a v h => (eval_shape a v h).1) args vs hvs] at h2
      obtain ⟨ps, hps⟩ := (ensureAll_ok_iff vs).2 h2
      simp only [eval, hnv, hvs, hn, hps]
      exact ⟨_, rfl⟩
  | .href name e args => by
    simp only [Arg.wellTyped, Bool.and_eq_true]
    constructor
    · rintro ⟨v, h⟩
      simp only [eval] at h
      split at h
      · cases h
      · rename_i nv hnv
        split at h
        · cases h
        · rename_i vs hvs
          split at h
          · cases h
          · rename_i n hn
            split at h
            · cases h
            · rename_i ps hps
              refine ⟨⟨⟨(eval_ok_iff name).1 ⟨nv, hnv⟩, ?_⟩, (evalL_ok_iff args).1 ⟨vs, hvs⟩⟩, ?_⟩
              · rw [← (eval_shape name nv hnv).1]; exact (hrefUrl_ok_iff nv).1 ⟨n, hn⟩
              · rw [← evalL_all Val.isPart Arg.isPart (fun a v h => (eval_shape a v h).1) args vs hvs]
                exact (ensureAll_ok_iff vs).1 ⟨ps, hps⟩
    · rintro ⟨⟨⟨h0, hn0⟩, h1⟩, h2⟩
      obtain ⟨nv, hnv⟩ := (eval_ok_iff name).2 h0
      rw [← (eval_shape name nv hnv).1] at hn0
      obtain ⟨n, hn⟩ := (hrefUrl_ok_iff nv).2 hn0
      obtain ⟨vs, hvs⟩ := (evalL_ok_iff args).2 h1
      rw [← evalL_all Val.isPart Arg.isPart (fun a v h => (eval_shape a v h).1) args vs hvs] at h2
      obtain ⟨ps, hps⟩ := (ensureAll_ok_iff vs).2 h2
      simp only [eval, hnv, hvs, hn, hps]
      exact ⟨_, rfl⟩
theorem evalL_ok_iff : ∀ (as : List Arg), (∃ vs, evalL as = .ok vs) ↔ Arg.wellTypedL as = true
  | [] => by simp [evalL, Arg.wellTypedL]
  | a :: as => by
    simp only [Arg.wellTypedL, Bool.and_eq_true, ← eval_ok_iff a, ← evalL_ok_iff as]
    constructor
    · rintro ⟨vs, h⟩
      simp only [evalL] at h
      split at h
      · cases h
      · rename_i v hv
        split at h
        · cases h
        · rename_i vs' hvs; exact ⟨⟨v, hv⟩, ⟨vs', hvs⟩⟩
    · rintro ⟨⟨v, hv⟩, ⟨vs, hvs⟩⟩
      simp only [evalL, hv, hvs]; exact ⟨_, rfl⟩
end


/-! ### `text[key]` -/


theorem pyNorm_cast (n : Nat) (x : Int) :
    ((pyNorm n x : Nat) : Int) = if x < 0 then max (x + n) 0 else min x n := by
  unfold pyNorm; split <;> omega

theorem sliceIndices_step1 (n : Nat) (i j k : Option Int) (hk : k = none ∨ k = some 1) :
    sliceIndices n i j k = .ok ((sliceIdx n i 0 : Nat), (sliceIdx n j n : Nat), 1) := by
  rcases hk with rfl | rfl <;> cases i <;> cases j <;> simp [sliceIndices, sliceIdx, pyNorm_cast]

theorem getItemKey_node_step1 (kd : Kind) (ps : List RT) (i j k : Option Int) (hk : k = none ∨ k = some 1) :
    getItemKey (.node kd ps) (.slice i j k) = .ok (getSlice (.node kd ps) i j) := by
  simp only [getItemKey, sliceIndices_step1 _ i j k hk, getSlice_node]
  simp only [ne_eq, not_true_eq_false, ↓reduceIte]
  congr 2
  split <;> split <;> omega


theorem range_get_eq_take {α : Type} (s : List α) (a : Nat) : ∀ (m : Nat), a + m ≤ s.length →
    ((List.range m).map (fun (x : Nat) => (a : Int) + (x : Int) * 1)).filterMap (fun x => s[x.toNat]?) = (s.drop a).take m
  | 0, _ => by simp
  | m + 1, h => by
    have ih := range_get_eq_take s a m (by omega)
    rw [List.range_succ, List.map_append, List.filterMap_append, ih, List.take_add_one]
    congr 1
    have this' : ((a : Int) + (m : Int)).toNat = a + m := by omega
    simp only [Int.mul_one, List.map_cons, List.map_nil, List.filterMap_cons, List.filterMap_nil, this', List.getElem?_drop]
    cases s[a + m]? <;> rfl

theorem extSlice_step1 {α : Type} (s : List α) (i j k : Option Int) (hk : k = none ∨ k = some 1) :
    extSlice s i j k = .ok (strSlice s i j) := by
  simp only [extSlice, sliceIndices_step1 _ i j k hk, sliceRange, strSlice]
  simp only [Int.one_pos, ↓reduceIte, Int.add_sub_cancel, Int.ediv_one]
  have h1 : sliceIdx s.length i 0 ≤ s.length := by
    cases i <;> simp [sliceIdx, pyNorm]; split <;> omega
  have h2 : sliceIdx s.length j s.length ≤ s.length := by
    cases j <;> simp [sliceIdx, pyNorm]; split <;> omega
  have h3 : ((sliceIdx s.length j s.length : Nat) - (sliceIdx s.length i 0 : Nat) : Int).toNat
      = sliceIdx s.length j s.length - sliceIdx s.length i 0 := by omega
  rw [h3, range_get_eq_take s _ _ (by omega)]

theorem getItemKey_step1 (t : RT) (i j k : Option Int) (hk : k = none ∨ k = some 1) :
    getItemKey t (.slice i j k) = .ok (getSlice t i j) := by
  cases t with
  | str s => simp only [getItemKey, extSlice_step1 s i j k hk, getSlice_str]
  | sym n =>
    simp only [getItemKey, extSlice_step1 [()] i j k hk, getSlice_sym, symSliceNonempty]
    congr 1
    by_cases hb : (strSlice [()] i j).isEmpty = true <;> simp [hb]
  | node kd ps => exact getItemKey_node_step1 kd ps i j k hk

theorem sliceIndices_step0 (n : Nat) (i j : Option Int) : sliceIndices n i j (some 0) = .error .valueError := by
  simp [sliceIndices]

theorem getItemKey_step0 (t : RT) (i j : Option Int) : getItemKey t (.slice i j (some 0)) = .error .valueError := by
  cases t <;> simp [getItemKey, extSlice, sliceIndices_step0]

theorem getItemKey_node_step (kd : Kind) (ps : List RT) (i j : Option Int) (st : Int) (h0 : st ≠ 0) (h1 : st ≠ 1) :
    getItemKey (.node kd ps) (.slice i j (some st)) = .error .notImplemented := by
  simp only [getItemKey, sliceIndices, h0, ↓reduceIte, ne_eq, h1, not_false_eq_true]

theorem abs_getItemKey_step1 (t : RT) (i j k : Option Int) (hk : k = none ∨ k = some 1) :
    (getItemKey t (.slice i j k)).map abs = Abs.getItemKey (abs t) (.slice i j k) := by
  rw [getItemKey_step1 t i j k hk]
  rcases hk with rfl | rfl <;> simp [Abs.getItemKey, Except.map, abs_getSlice]

theorem abs_getItemKey_int (t : RT) (i : Int) :
    (getItemKey t (.int i)).map abs = Abs.getItemKey (abs t) (.int i) := by
  have h := abs_getIndex t i
  simp only [getItemKey, Abs.getItemKey, ← h]
  cases hg : getIndex t i with
  | ok r => simp [Except.map]
  | error e => cases e; simp [Except.map]

/-! ### `split` at a refused separator -/

/-- the final `if tail:` of `BaseMultipartText.split` -/
def finTail (k : Kind) (keep : Bool) (tl : List RT) : List RT :=
  if !tl.isEmpty then (if len (mk k tl) != 0 || keep then [mk k tl] else []) else []

theorem finTail_length_le (k : Kind) (keep : Bool) (tl : List RT) : (finTail k keep tl).length ≤ 1 := by
  unfold finTail; split <;> (try split) <;> simp

theorem finTail_sem (k : Kind) (keep : Bool) (tl : List RT) (ctx : List Markup) :
    semL ctx (finTail k keep tl) = semL (ctx ++ k.markup) tl := by
  unfold finTail
  split
  · split
    · simp only [semL, sem_mk, sem, List.append_nil]
    · rename_i h
      have h0 : len (mk k tl) = 0 := by
        simp only [Bool.or_eq_true, bne_iff_ne, ne_eq, not_or, Decidable.not_not] at h; exact h.1
      have h1 := sem_length (mk k tl) ctx
      rw [h0, sem_mk, sem] at h1
      simp only [semL, List.eq_nil_of_length_eq_zero h1]
  · rename_i h
    have : tl = [] := by simpa using h
    subst this; rfl

mutual
theorem splitBadT_spec (e : KErr) : ∀ (t : RT) (keep : Bool),
    (hasFreeStr t = true → splitBadT e t keep = .error e) ∧
    (hasFreeStr t = false → ∃ l, splitBadT e t keep = .ok l ∧ l.length ≤ 1 ∧ (keep = true → l.length = 1) ∧ ∀ ctx, semL ctx l = sem ctx t)
  | .str s, keep => by simp [hasFreeStr, splitBadT]
  | .sym n, keep => by simp [hasFreeStr, splitBadT, semL]
  | .node .prot ps, keep => by simp [hasFreeStr, splitBadT, semL]
  | .node .text ps, keep => by
    have h := splitBadL_spec e .text keep ps (if keep then [.str []] else [])
    simp only [hasFreeStr, splitBadT]
    refine ⟨h.1, fun hf => ?_⟩
    obtain ⟨xs, hx, _, hs⟩ := h.2 hf
    refine ⟨_, hx, finTail_length_le _ _ _, ?_, ?_⟩
    · rintro rfl; simp [finTail]
    · intro ctx
      rw [finTail_sem, semL_append, hs, sem]
      cases keep <;> simp [semL, sem]
  | .node (.tag n) ps, keep => by
    have h := splitBadL_spec e (.tag n) keep ps (if keep then [.str []] else [])
    simp only [hasFreeStr, splitBadT]
    refine ⟨h.1, fun hf => ?_⟩
    obtain ⟨xs, hx, _, hs⟩ := h.2 hf
    refine ⟨_, hx, finTail_length_le _ _ _, ?_, ?_⟩
    · rintro rfl; simp [finTail]
    · intro ctx
      rw [finTail_sem, semL_append, hs, sem]
      cases keep <;> simp [semL, sem]
  | .node (.href u x) ps, keep => by
    have h := splitBadL_spec e (.href u x) keep ps (if keep then [.str []] else [])
    simp only [hasFreeStr, splitBadT]
    refine ⟨h.1, fun hf => ?_⟩
    obtain ⟨xs, hx, _, hs⟩ := h.2 hf
    refine ⟨_, hx, finTail_length_le _ _ _, ?_, ?_⟩
    · rintro rfl; simp [finTail]
    · intro ctx
      rw [finTail_sem, semL_append, hs, sem]
      cases keep <;> simp [semL, sem]
theorem splitBadL_spec (e : KErr) (k : Kind) (keep : Bool) : ∀ (ps tail : List RT),
    (hasFreeStrL ps = true → splitBadL e k keep ps tail = .error e) ∧
    (hasFreeStrL ps = false → ∃ xs, splitBadL e k keep ps tail = .ok (finTail k keep (tail ++ xs)) ∧ xs.length = ps.length ∧ ∀ ctx, semL ctx xs = semL ctx ps)
  | [], tail => by
    refine ⟨by simp [hasFreeStrL], fun _ => ⟨[], ?_, rfl, fun _ => rfl⟩⟩
    simp [splitBadL, finTail]
  | p :: ps, tail => by
    have hp := splitBadT_spec e p true
    by_cases hfp : hasFreeStr p = true
    · simp [hasFreeStrL, hfp, splitBadL, hp.1 hfp]
    · have hfp' : hasFreeStr p = false := by simpa using hfp
      obtain ⟨l, hl, _, hl1, hls⟩ := hp.2 hfp'
      have hlen := hl1 rfl
      match l, hlen with
      | [x], _ =>
        have ih := splitBadL_spec e k keep ps (tail ++ [x])
        simp only [hasFreeStrL, hfp', Bool.false_or, splitBadL, hl, List.reverse_cons, List.reverse_nil, List.nil_append, splitItems]
        refine ⟨fun h => by rw [ih.1 h], fun h => ?_⟩
        obtain ⟨xs, hx, hxl, hxs⟩ := ih.2 h
        refine ⟨x :: xs, ?_, by simp [hxl], ?_⟩
        · rw [hx]; simp
        · intro ctx
          have := hls ctx
          simp only [semL, List.append_nil] at this
          simp only [semL, this, hxs]
end


/-! ### the extended slice: the model of `slice.indices` against `pyExtSlice` -/

/-- the elements at positions `a, a + K, …` (`cnt` of them, as far as they exist) -/
def picks {α : Type} (s : List α) (a K cnt : Nat) : List α := (List.range cnt).filterMap fun m => s[a + m * K]?

theorem picks_succ {α : Type} (s : List α) (a K cnt : Nat) :
    picks s a K (cnt + 1) = (s[a]?).toList ++ picks s (a + K) K cnt := by
  unfold picks
  rw [List.range_succ_eq_map, List.filterMap_cons, List.filterMap_map]
  have h0 : a + 0 * K = a := by simp
  have hf : ((fun m => s[a + m * K]?) ∘ Nat.succ) = fun m => s[a + K + m * K]? := by
    funext m; simp only [Function.comp, Nat.succ_eq_add_one, Nat.add_mul, Nat.one_mul]; congr 1; omega
  rw [h0, hf]
  cases s[a]? <;> rfl

theorem everyNth_cons {α : Type} (K : Nat) (x : α) (r : List α) :
    everyNth K (x :: r) = x :: everyNth K (r.drop (K - 1)) := by
  rw [everyNth]

theorem picks_eq_everyNth {α : Type} (s : List α) (K : Nat) (hK : 1 ≤ K) : ∀ (len a : Nat), a + len ≤ s.length →
    picks s a K ((len + K - 1) / K) = everyNth K ((s.drop a).take len) := by
  intro len
  induction len using Nat.strongRecOn with
  | _ len ih =>
    intro a h
    by_cases h0 : len = 0
    · subst h0
      have : (0 + K - 1) / K = 0 := Nat.div_eq_of_lt (by omega)
      rw [this]; simp [picks, everyNth]
    · have ha : a < s.length := by omega
      have hl : (s.drop a).take len = s[a] :: (s.drop (a + 1)).take (len - 1) := by
        rw [List.drop_eq_getElem_cons ha]
        obtain ⟨l', rfl⟩ : ∃ l', len = l' + 1 := ⟨len - 1, by omega⟩
        rw [List.take_succ_cons]; rfl
      rw [hl, everyNth_cons, List.drop_take, List.drop_drop]
      have hidx : a + 1 + (K - 1) = a + K := by omega
      have hlen : len - 1 - (K - 1) = len - K := by omega
      rw [hidx, hlen]
      by_cases hlk : len ≤ K
      · have hc : (len + K - 1) / K = 1 := by
          apply Nat.div_eq_of_lt_le <;> omega
        have hz : len - K = 0 := by omega
        rw [hc, hz, picks_succ]
        simp [picks, everyNth, List.getElem?_eq_getElem ha]
      · have hc : (len + K - 1) / K = (len - K + K - 1) / K + 1 := by
          have : len + K - 1 = (len - K + K - 1) + K := by omega
          rw [this, Nat.add_div_right _ (by omega)]
        rw [hc, picks_succ, ih (len - K) (by omega) (a + K) (by omega)]
        simp [List.getElem?_eq_getElem ha]

theorem sliceIndices_pos (n : Nat) (i j : Option Int) (st : Int) (hst : 0 < st) :
    sliceIndices n i j (some st) = .ok ((sliceIdx n i 0 : Nat), (sliceIdx n j n : Nat), st) := by
  have h0 : st ≠ 0 := by omega
  have h1 : ¬ st < 0 := by omega
  cases i <;> cases j <;> simp [sliceIndices, sliceIdx, pyNorm_cast, h0, h1]

theorem extSlice_pos {α : Type} (s : List α) (i j : Option Int) (st : Int) (hst : 0 < st) :
    extSlice s i j (some st) = .ok (pyExtSlice s i j st) := by
  obtain ⟨K, rfl⟩ : ∃ K : Nat, st = K := ⟨st.toNat, by omega⟩
  have hK : 1 ≤ K := by omega
  simp only [extSlice, sliceIndices_pos _ i j _ hst, sliceRange, pyExtSlice, hst, ↓reduceIte, strSlice, Int.toNat_natCast]
  congr 1
  generalize hA : sliceIdx s.length i 0 = A
  generalize hB : sliceIdx s.length j s.length = B
  have hAl : A ≤ s.length := hA ▸ sliceIdx_le _ i 0 (Nat.zero_le _)
  have hBl : B ≤ s.length := hB ▸ sliceIdx_le _ j s.length (Nat.le_refl _)
  rw [List.filterMap_map]
  have hf : ((fun x : Int => s[x.toNat]?) ∘ fun (m : Nat) => (A : Int) + (m : Int) * (K : Int)) = fun m => s[A + m * K]? := by
    funext m
    have : (A : Int) + (m : Int) * (K : Int) = ((A + m * K : Nat) : Int) := by simp [Int.natCast_add, Int.natCast_mul]
    simp only [Function.comp, this, Int.toNat_natCast]
  rw [hf]
  by_cases hAB : A ≤ B
  · have hc : (((B : Int) - A + K - 1) / K).toNat = (B - A + K - 1) / K := by
      have : (B : Int) - A + K - 1 = ((B - A + K - 1 : Nat) : Int) := by omega
      rw [this, ← Int.natCast_ediv, Int.toNat_natCast]
    rw [hc]
    exact picks_eq_everyNth s K hK (B - A) A (by omega)
  · have hc : (((B : Int) - A + K - 1) / K).toNat = 0 := by
      have : ((B : Int) - A + K - 1) / K < 1 := Int.ediv_lt_of_lt_mul (by omega) (by omega)
      omega
    have hz : B - A = 0 := by omega
    rw [hc, hz]; simp [everyNth]

theorem lt_ceil_mul (m x K : Nat) (hK : 1 ≤ K) (h : m < (x + K - 1) / K) : m * K < x := by
  have h1 : (m + 1) * K ≤ ((x + K - 1) / K) * K := Nat.mul_le_mul_right K h
  have h2 : ((x + K - 1) / K) * K ≤ x + K - 1 := Nat.div_mul_le_self _ _
  rw [Nat.add_mul, Nat.one_mul] at h1
  omega

theorem filterMap_congr' {α β : Type} {f g : α → Option β} : ∀ (l : List α), (∀ x ∈ l, f x = g x) →
    l.filterMap f = l.filterMap g
  | [], _ => rfl
  | a :: l, h => by
    rw [List.filterMap_cons, List.filterMap_cons, h a (by simp), filterMap_congr' l (fun x hx => h x (by simp [hx]))]

theorem revClamp (n : Nat) (x : Int) :
    (if x < 0 then max (x + n) (-1) else min x ((n : Int) - 1)) = (n : Int) - 1 - (pyNorm n (revBound n x) : Nat) := by
  rw [pyNorm_cast]; unfold revBound
  repeat' split
  all_goals omega

theorem sliceIndices_neg (n : Nat) (i j : Option Int) (st : Int) (hst : st < 0) :
    sliceIndices n i j (some st) =
      .ok ((n : Int) - 1 - (sliceIdx n (i.map (revBound n)) 0 : Nat), (n : Int) - 1 - (sliceIdx n (j.map (revBound n)) n : Nat), st) := by
  have h0 : st ≠ 0 := by omega
  cases i <;> cases j <;> simp only [sliceIndices, sliceIdx, Option.map, h0, hst, ↓reduceIte, revClamp] <;>
    refine congrArg Except.ok (Prod.ext ?_ (Prod.ext ?_ rfl)) <;> simp only [] <;> omega

theorem extSlice_neg {α : Type} (s : List α) (i j : Option Int) (st : Int) (hst : st < 0) :
    extSlice s i j (some st) = .ok (pyExtSlice s i j st) := by
  obtain ⟨K, rfl⟩ : ∃ K : Nat, st = -(K : Int) := ⟨(-st).toNat, by omega⟩
  have hK : 1 ≤ K := by omega
  have hn1 : ¬ (-(K : Int) > 0) := by omega
  simp only [extSlice, sliceIndices_neg _ i j _ hst, sliceRange, pyExtSlice, hn1, ↓reduceIte, strSlice, Int.neg_neg,
    Int.toNat_natCast, List.length_reverse]
  congr 1
  generalize hA : sliceIdx s.length (i.map (revBound s.length)) 0 = A
  generalize hB : sliceIdx s.length (j.map (revBound s.length)) s.length = B
  have hAl : A ≤ s.length := hA ▸ sliceIdx_le _ _ 0 (Nat.zero_le _)
  have hBl : B ≤ s.length := hB ▸ sliceIdx_le _ _ s.length (Nat.le_refl _)
  rw [List.filterMap_map]
  by_cases hAB : A ≤ B
  · have hc : (((s.length : Int) - 1 - A - ((s.length : Int) - 1 - B) + K - 1) / K).toNat = (B - A + K - 1) / K := by
      have : (s.length : Int) - 1 - A - ((s.length : Int) - 1 - B) + K - 1 = ((B - A + K - 1 : Nat) : Int) := by omega
      rw [this, ← Int.natCast_ediv, Int.toNat_natCast]
    rw [hc, ← picks_eq_everyNth s.reverse K hK (B - A) A (by simp; omega)]
    unfold picks
    apply filterMap_congr'
    intro m hm
    have hm' := lt_ceil_mul m (B - A) K hK (List.mem_range.1 hm)
    have hidx : A + m * K < s.length := by omega
    have : ((s.length : Int) - 1 - A + (m : Int) * -(K : Int)) = ((s.length - 1 - (A + m * K) : Nat) : Int) := by
      have : ((m * K : Nat) : Int) = (m : Int) * (K : Int) := Int.natCast_mul m K
      rw [Int.mul_neg]; omega
    simp only [Function.comp, this, Int.toNat_natCast]
    rw [List.getElem?_reverse hidx]
  · have hc : (((s.length : Int) - 1 - A - ((s.length : Int) - 1 - B) + K - 1) / K).toNat = 0 := by
      have : ((s.length : Int) - 1 - A - ((s.length : Int) - 1 - B) + K - 1) / K < 1 :=
        Int.ediv_lt_of_lt_mul (by omega) (by omega)
      omega
    have hz : B - A = 0 := by omega
    rw [hc, hz]; simp [everyNth]

theorem extSlice_ne_zero {α : Type} (s : List α) (i j : Option Int) (st : Int) (h : st ≠ 0) :
    extSlice s i j (some st) = .ok (pyExtSlice s i j st) := by
  by_cases hp : 0 < st
  · exact extSlice_pos s i j st hp
  · exact extSlice_neg s i j st (by omega)

theorem extSlice_map {α β : Type} (f : α → β) (s : List α) (i j k : Option Int) :
    extSlice (s.map f) i j k = (extSlice s i j k).map (List.map f) := by
  simp only [extSlice, List.length_map]
  cases sliceIndices s.length i j k with
  | error e => rfl
  | ok r =>
    obtain ⟨a, b, c⟩ := r
    simp only [Except.map, List.map_filterMap, List.getElem?_map]

theorem pyExtSlice_map {α β : Type} (f : α → β) (s : List α) (i j : Option Int) (st : Int) (h : st ≠ 0) :
    pyExtSlice (s.map f) i j st = (pyExtSlice s i j st).map f := by
  have h1 := extSlice_ne_zero (s.map f) i j st h
  rw [extSlice_map, extSlice_ne_zero s i j st h] at h1
  simp only [Except.map] at h1
  exact (Except.ok.inj h1).symm

theorem everyNth_length_le {α : Type} (K : Nat) : ∀ (n : Nat) (l : List α), l.length ≤ n → (everyNth K l).length ≤ l.length
  | _, [], _ => by simp [everyNth]
  | 0, x :: r, h => by simp at h
  | n + 1, x :: r, h => by
    rw [everyNth_cons]
    have := everyNth_length_le K n (r.drop (K - 1)) (by simp at h ⊢; omega)
    simp only [List.length_cons, List.length_drop] at this ⊢; omega

theorem pyExtSlice_unit_length (i j : Option Int) (st : Int) : (pyExtSlice [()] i j st).length ≤ 1 := by
  unfold pyExtSlice
  split
  · refine Nat.le_trans (everyNth_length_le _ _ _ (Nat.le_refl _)) ?_
    simp only [strSlice, List.length_take, List.length_drop, List.length_cons, List.length_nil]; omega
  · refine Nat.le_trans (everyNth_length_le _ _ _ (Nat.le_refl _)) ?_
    simp only [strSlice, List.length_take, List.length_drop, List.length_cons, List.length_nil, List.reverse_cons,
      List.reverse_nil, List.nil_append]; omega

/-- **refinement for every key**: `text[key]` on the object is `Abs.getItemKey` on its class and string of pairs -/
theorem abs_getItemKey (t : RT) (key : Key) : (getItemKey t key).map abs = Abs.getItemKey (abs t) key := by
  cases key with
  | int n => exact abs_getItemKey_int t n
  | other => cases t <;> rfl
  | slice i j k =>
    cases k with
    | none => exact abs_getItemKey_step1 t i j none (Or.inl rfl)
    | some st =>
      by_cases h0 : st = 0
      · subst h0; rw [getItemKey_step0]; simp [Abs.getItemKey, Except.map]
      by_cases h1 : st = 1
      · subst h1; exact abs_getItemKey_step1 t i j (some 1) (Or.inr rfl)
      cases t with
      | node kd ps =>
        rw [getItemKey_node_step kd ps i j st h0 h1]
        simp [Abs.getItemKey, Except.map, h0, h1, abs, top]
      | str s =>
        simp only [getItemKey, extSlice_ne_zero s i j st h0, Except.map, Abs.getItemKey, h0, h1, ↓reduceIte, abs, top, sem,
          pyExtSlice_map _ s i j st h0]
        rfl
      | sym n =>
        have hl := pyExtSlice_unit_length i j st
        have hm : (([()] : List Unit).map fun _ => ((Atom.sym n, ([] : List Markup)))) = [(Atom.sym n, [])] := rfl
        simp only [getItemKey, extSlice_ne_zero [()] i j st h0, Except.map, Abs.getItemKey, h0, h1, ↓reduceIte, abs, top, sem]
        rw [← hm, pyExtSlice_map _ [()] i j st h0]
        generalize pyExtSlice [()] i j st = r at hl
        match r, hl with
        | [], _ => rfl
        | [()], _ => rfl


theorem everyNth_one {α : Type} : ∀ (n : Nat) (l : List α), l.length ≤ n → everyNth 1 l = l
  | _, [], _ => by simp [everyNth]
  | 0, x :: r, h => by simp at h
  | n + 1, x :: r, h => by
    rw [everyNth_cons]; simp only [Nat.sub_self, List.drop_zero]
    rw [everyNth_one n r (by simp at h; omega)]

theorem everyNth_one' {α : Type} (l : List α) : everyNth 1 l = l := everyNth_one l.length l (Nat.le_refl _)

/-! ### `split(sep, keep_empty_parts=True)` never returns an empty list (the `continue` of `BaseMultipartText.split` is dead) -/

theorem reSplitDelim_ne_nil : ∀ (s cur : Str), reSplitDelim s cur ≠ []
  | [], cur => by simp [reSplitDelim]
  | c :: r, cur => by
    simp only [reSplitDelim]
    split
    · simp
    · exact reSplitDelim_ne_nil r (c :: cur)

theorem reSplitDashes_ne_nil : ∀ (s cur : Str) (b : Bool), reSplitDashes s cur b ≠ []
  | [], cur, b => by simp [reSplitDashes]
  | c :: r, cur, b => by
    simp only [reSplitDashes]
    split
    · split
      · exact reSplitDashes_ne_nil r cur true
      · simp
    · exact reSplitDashes_ne_nil r (c :: cur) false

theorem reSplit_ne_nil (re : Re) (s : Str) : reSplit re s ≠ [] := by
  cases re with
  | delim => exact reSplitDelim_ne_nil s []
  | dashes => exact reSplitDashes_ne_nil s [] false

theorem splitL_keep_ne_nil (sep : Sep) (k : Kind) : ∀ (ps tail : List RT), tail ≠ [] → splitL sep k true ps tail ≠ []
  | [], tail, h => by
    cases tail with
    | nil => exact absurd rfl h
    | cons x r => simp [splitL]
  | p :: ps, tail, h => by
    rw [splitL]
    split
    · exact splitL_keep_ne_nil sep k ps tail h
    · simp only [ne_eq, List.append_eq_nil_iff, not_and]
      intro _
      exact splitL_keep_ne_nil sep k ps _ (by simp)

theorem splitByL_keep_ne_nil (f : Str → List Str) (k : Kind) : ∀ (ps tail : List RT), tail ≠ [] → splitByL f k true ps tail ≠ []
  | [], tail, h => by
    cases tail with
    | nil => exact absurd rfl h
    | cons x r => simp [splitByL]
  | p :: ps, tail, h => by
    rw [splitByL]
    split
    · exact splitByL_keep_ne_nil f k ps tail h
    · simp only [ne_eq, List.append_eq_nil_iff, not_and]
      intro _
      exact splitByL_keep_ne_nil f k ps _ (by simp)

/-- `text.split(sep, keep_empty_parts=True)` never returns an empty list -/
theorem split_keep_ne_nil (sep : Sep) (t : RT) : split sep t (some true) ≠ [] := by
  cases t with
  | str s =>
    have := strSplit_ne_nil sep s
    simp only [split, keepDefault, Bool.or_true, ne_eq, List.map_eq_nil_iff]
    rw [List.filter_eq_self.2 (by simp)]; exact this
  | sym n => simp [split]
  | node k ps =>
    cases k with
    | prot => simp [split]
    | text => simp only [split, keepDefault, ↓reduceIte]; exact splitL_keep_ne_nil sep _ ps _ (by simp)
    | tag n => simp only [split, keepDefault, ↓reduceIte]; exact splitL_keep_ne_nil sep _ ps _ (by simp)
    | href u e => simp only [split, keepDefault, ↓reduceIte]; exact splitL_keep_ne_nil sep _ ps _ (by simp)

theorem splitBy_keep_ne_nil (f : Str → List Str) (hf : ∀ s, f s ≠ []) (t : RT) : splitBy f t true ≠ [] := by
  cases t with
  | str s =>
    simp only [splitBy, Bool.or_true, ne_eq, List.map_eq_nil_iff]
    rw [List.filter_eq_self.2 (by simp)]; exact hf s
  | sym n => simp [splitBy]
  | node k ps =>
    cases k with
    | prot => simp [splitBy]
    | text => simp only [splitBy, ↓reduceIte]; exact splitByL_keep_ne_nil f _ ps _ (by simp)
    | tag n => simp only [splitBy, ↓reduceIte]; exact splitByL_keep_ne_nil f _ ps _ (by simp)
    | href u e => simp only [splitBy, ↓reduceIte]; exact splitByL_keep_ne_nil f _ ps _ (by simp)


/-! ### decidable views of results (for the witnesses) -/

/-- error, or class and `str` of the result -/
def outK : Except KErr RT → KErr ⊕ (Top × Str)
  | .ok t => .inr (top t, toStr t)
  | .error e => .inl e

/-- error, or the `str` of the pieces -/
def outL : Except KErr (List RT) → KErr ⊕ List Str
  | .ok l => .inr (l.map toStr)
  | .error e => .inl e

/-- error message, or class and `str` of the constructed object (`none`: a plain value) -/
def outC : Except CErr Val → CErr ⊕ Option (Top × Str)
  | .ok (.rt t) => .inr (some (top t, toStr t))
  | .ok _ => .inr none
  | .error e => .inl e

end RT
end Pybtex
