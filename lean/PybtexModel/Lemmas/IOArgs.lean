/-
C17 (extension) — helper lemmas about `Model/IOArgs.lean` §7: where a foreign exception can come from.
-/
import PybtexModel.Model.IOArgs

namespace Pybtex.IO

variable {H S X : Type}

theorem openOrCreateX_other (env : EnvX H X) (p : Path) (mode : Str) (kw : Option Str) (x : X)
    (h : (openOrCreateX env p mode kw).2 = .error (.other x)) :
    ∃ q, env.opener q mode kw = .error (.other x) := by
  unfold openOrCreateX at h
  split at h
  · exact absurd h (by simp)
  · next y h1 =>
    simp only [Except.error.injEq, Exc.other.injEq] at h
    exact ⟨_, by rw [h1, h]⟩
  · next e h1 =>
    split at h
    · next dir hd =>
      dsimp only at h
      split at h
      · exact absurd h (by simp)
      · exact absurd h (by simp)
      · next y h2 =>
        simp only [Except.error.injEq, Exc.other.injEq] at h
        exact ⟨_, by rw [h2, h]⟩
    · exact absurd h (by simp)

theorem openExistingX_other (env : EnvX H X) (p : Path) (mode : Str) (kw : Option Str) (x : X)
    (h : (openExistingX env p mode kw).2 = .error (.other x)) :
    (∃ q, env.opener q mode kw = .error (.other x)) ∨ env.runKpsewhich p = .error (.other x) := by
  unfold openExistingX at h
  split at h
  · exact .inl ⟨_, h⟩
  · split at h
    · next e hk =>
      simp only [Except.error.injEq] at h
      subst h
      unfold kpsewhichX at hk
      split at hk
      · next e' hr => simp only [Except.error.injEq] at hk; subst hk; exact .inr hr
      · split at hk <;> exact absurd hk (by simp)
    · exact .inl ⟨_, h⟩

theorem pyOpenX_other (env : EnvX H X) (p : Path) (mode : Str) (kw : Option Str) (x : X)
    (h : (pyOpenX (S := S) env (.path p) mode kw).2 = .error (.other x)) :
    (∃ q, env.opener q mode kw = .error (.other x)) ∨ env.runKpsewhich p = .error (.other x) := by
  unfold pyOpenX at h
  dsimp only at h
  split at h
  · exact absurd h (by simp)
  · exact absurd h (by simp)
  · next y hr =>
    simp only [Except.error.injEq, OpenExc.other.injEq] at h
    subst h
    by_cases hw : mode.contains 'w' = true
    · rw [if_pos hw] at hr
      exact .inl (openOrCreateX_other env p mode kw y hr)
    · rw [if_neg hw] at hr
      exact openExistingX_other env p mode kw y hr

namespace Toy

/-- a world for the witnesses: `a.bbl` cannot be created (EACCES), the fall-back `/out/a.bbl` raises the foreign
exception 7, `b.bbl` raises 5 at once, `kpsewhich` cannot even be called for `k.bib` (foreign exception 9), knows nothing else -/
def envX : EnvX PathArg Nat where
  opener := fun p _ _ =>
    if p = .str "a.bbl".toList then .error (.env ⟨"Permission denied".toList⟩)
    else if p = .str "/out/a.bbl".toList then .error (.other 7)
    else if p = .str "b.bbl".toList then .error (.other 5)
    else .ok p
  isFile := fun _ => false
  runKpsewhich := fun p => if p = "k.bib".toList then .error (.other 9) else .ok (1, [])
  environ := [("TEXMFOUTPUT".toList, "/out".toList)]

end Toy

end Pybtex.IO
