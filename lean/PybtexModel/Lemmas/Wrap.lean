/-
Helper lemmas for C19 (`Props/C19.lean`): what `find_break` returns, an induction principle for
`iter_lines`, and the behaviour of `rstrip`, `nonWs`, `words` under the decomposition of the text.
Core Lean only.
-/
import PybtexModel.Model.Wrap
import PybtexModel.Spec.Wrap

namespace Pybtex.Wrap

/-! ### white space at a position -/

theorem WsAt_nil (q : Nat) : ¬ WsAt [] q := by
  simp [WsAt]

theorem WsAt_cons_zero {c : Char} {cs : Str} : WsAt (c :: cs) 0 ↔ isWs c = true := by
  simp [WsAt]

theorem WsAt_cons_succ {c : Char} {cs : Str} {k : Nat} : WsAt (c :: cs) (k + 1) ↔ WsAt cs k := by
  simp [WsAt]

theorem WsAt.lt {s : Str} {q : Nat} (h : WsAt s q) : q < s.length := by
  obtain ⟨c, hc, _⟩ := h
  exact (List.getElem?_eq_some_iff.1 hc).1

theorem WsAt_take {s : Str} {p q : Nat} : WsAt (s.take p) q ↔ q < p ∧ WsAt s q := by
  simp only [WsAt, List.getElem?_take]
  constructor
  · rintro ⟨c, hc, hw⟩
    split at hc
    · exact ⟨by assumption, c, hc, hw⟩
    · cases hc
  · rintro ⟨hq, c, hc, hw⟩
    exact ⟨c, by simp [hq, hc], hw⟩

theorem WsAt_prefix {e l : Str} {q : Nat} (hp : e <+: l) (h : WsAt e q) : WsAt l q := by
  obtain ⟨t, rfl⟩ := hp
  obtain ⟨c, hc, hw⟩ := h
  have hlt := (List.getElem?_eq_some_iff.1 hc).1
  exact ⟨c, by rw [List.getElem?_append_left hlt]; exact hc, hw⟩

/-- a white-space position splits the string around one white-space character -/
theorem WsAt.split {s : Str} {p : Nat} (h : WsAt s p) :
    ∃ c, isWs c = true ∧ s = s.take p ++ c :: s.drop (p + 1) := by
  obtain ⟨c, hc, hw⟩ := h
  obtain ⟨hlt, hget⟩ := List.getElem?_eq_some_iff.1 hc
  refine ⟨c, hw, ?_⟩
  have h1 : s.drop p = c :: s.drop (p + 1) := by
    rw [List.drop_eq_getElem_cons hlt, hget]
  calc s = s.take p ++ s.drop p := (List.take_append_drop p s).symm
    _ = _ := by rw [h1]

/-! ### the white-space positions -/

theorem mem_wsPositionsFrom {q : Nat} :
    ∀ {s : Str} {i : Nat}, q ∈ wsPositionsFrom i s ↔ ∃ k, q = i + k ∧ WsAt s k
  | [], i => by simp [wsPositionsFrom, WsAt_nil]
  | c :: cs, i => by
    simp only [wsPositionsFrom]
    split
    · rename_i hc
      simp only [List.mem_cons, mem_wsPositionsFrom (s := cs)]
      constructor
      · rintro (h | ⟨k, hk, hw⟩)
        · exact ⟨0, by omega, WsAt_cons_zero.2 hc⟩
        · exact ⟨k + 1, by omega, WsAt_cons_succ.2 hw⟩
      · rintro ⟨k, hk, hw⟩
        cases k with
        | zero => left; omega
        | succ k => right; exact ⟨k, by omega, WsAt_cons_succ.1 hw⟩
    · rename_i hc
      simp only [mem_wsPositionsFrom (s := cs)]
      constructor
      · rintro ⟨k, hk, hw⟩
        exact ⟨k + 1, by omega, WsAt_cons_succ.2 hw⟩
      · rintro ⟨k, hk, hw⟩
        cases k with
        | zero => exact absurd (WsAt_cons_zero.1 hw) hc
        | succ k => exact ⟨k, by omega, WsAt_cons_succ.1 hw⟩

theorem mem_wsPositions {s : Str} {q : Nat} : q ∈ wsPositions s ↔ WsAt s q := by
  simp [wsPositions, mem_wsPositionsFrom]

theorem wsPositionsFrom_sorted : ∀ (s : Str) (i : Nat), (wsPositionsFrom i s).Pairwise (· < ·)
  | [], i => by simp [wsPositionsFrom]
  | c :: cs, i => by
    simp only [wsPositionsFrom]
    split
    · refine List.pairwise_cons.2 ⟨?_, wsPositionsFrom_sorted cs (i + 1)⟩
      intro q hq
      have := (wsPositionsFrom_bounds hq).1
      omega
    · exact wsPositionsFrom_sorted cs (i + 1)

/-! ### what the loop of `find_break` returns on an increasing list of positions -/

theorem findBreakIn_pairwise_some {w : Int} {m p : Nat} :
    ∀ {L : List Nat}, L.Pairwise (· < ·) → findBreakIn w m (pairwise L) = some p →
      p ∈ L ∧ m < p ∧ (∀ q ∈ L, m < q → q < p → (p : Int) ≤ w) ∧ (∀ q ∈ L, p < q → w < (q : Int))
  | [], _, h => by simp [pairwise, findBreakIn] at h
  | [a], _, h => by
    simp only [pairwise, findBreakIn] at h
    split at h
    · rename_i hc
      injection h with h
      subst h
      refine ⟨by simp, breakCond_gt hc, ?_, ?_⟩
      · intro q hq _ hlt
        simp only [List.mem_singleton] at hq
        omega
      · intro q hq hlt
        simp only [List.mem_singleton] at hq
        omega
    · cases h
  | a :: b :: r, hs, h => by
    have hs' := List.pairwise_cons.1 hs
    simp only [pairwise, findBreakIn] at h
    split at h
    · rename_i hc
      injection h with h
      subst h
      refine ⟨by simp, breakCond_gt hc, ?_, ?_⟩
      · intro q hq _ hlt
        simp only [List.mem_cons] at hq
        rcases hq with hq | hq | hq
        · omega
        · have := hs'.1 b (by simp); omega
        · have := hs'.1 q (by simp [hq]); omega
      · intro q hq hlt
        simp only [breakCond, Bool.and_eq_true, decide_eq_true_eq] at hc
        have hb : (a : Int) < b := by have := hs'.1 b (by simp); omega
        simp only [List.mem_cons] at hq
        rcases hq with hq | hq | hq
        · omega
        · subst hq; omega
        · have h2 := (List.pairwise_cons.1 hs'.2).1 q hq
          omega
    · rename_i hc
      obtain ⟨h1, h2, h3, h4⟩ := findBreakIn_pairwise_some hs'.2 h
      have hab : a < b := hs'.1 b (by simp)
      have hbp : b ≤ p := by
        simp only [List.mem_cons] at h1
        rcases h1 with h1 | h1
        · omega
        · have := (List.pairwise_cons.1 hs'.2).1 p h1; omega
      refine ⟨List.mem_cons_of_mem _ h1, h2, ?_, ?_⟩
      · intro q hq hmq hqp
        simp only [List.mem_cons] at hq
        rcases hq with hq | hq
        · subst hq
          -- the pair (a, b) failed although a > m: so b ≤ w
          have hbw : (b : Int) ≤ w := by
            simp only [breakCond, Bool.and_eq_true, decide_eq_true_eq, not_and] at hc
            have := mt hc
            omega
          by_cases hbp' : b = p
          · omega
          · exact h3 b (by simp) (by omega) (by omega)
        · exact h3 q (by simpa using hq) hmq hqp
      · intro q hq hpq
        simp only [List.mem_cons] at hq
        rcases hq with hq | hq
        · omega
        · exact h4 q (by simpa using hq) hpq

theorem findBreakIn_pairwise_none {w : Int} {m : Nat} :
    ∀ {L : List Nat}, L.Pairwise (· < ·) → findBreakIn w m (pairwise L) = none → ∀ q ∈ L, q ≤ m
  | [], _, _ => by simp
  | [a], _, h => by
    simp only [pairwise, findBreakIn] at h
    split at h
    · cases h
    · rename_i hc
      simp only [breakCond, decide_eq_true_eq] at hc
      intro q hq
      simp only [List.mem_singleton] at hq
      omega
  | a :: b :: r, hs, h => by
    have hs' := List.pairwise_cons.1 hs
    simp only [pairwise, findBreakIn] at h
    split at h
    · cases h
    · have ih := findBreakIn_pairwise_none hs'.2 h
      intro q hq
      simp only [List.mem_cons] at hq
      rcases hq with hq | hq
      · have := ih b (by simp)
        have := hs'.1 b (by simp)
        omega
      · exact ih q (by simpa using hq)

/-- `find_break` returned `p`: `p` is a white-space position behind the indent; it exceeds the
width only if it is the first white space behind the indent; and no later white space is
within the width. -/
theorem findBreak_some {w : Int} {ind s : Str} {p : Nat} (h : findBreak w ind s = some p) :
    ind.length < p ∧ WsAt s p ∧
    (∀ q, ind.length < q → q < p → WsAt s q → (p : Int) ≤ w) ∧
    (∀ q, p < q → WsAt s q → w < (q : Int)) := by
  obtain ⟨h1, h2, h3, h4⟩ := findBreakIn_pairwise_some (wsPositionsFrom_sorted s 0) h
  exact ⟨h2, mem_wsPositions.1 h1, fun q a b c => h3 q (mem_wsPositions.2 c) a b,
    fun q a b => h4 q (mem_wsPositions.2 b) a⟩

/-- `find_break` returned `None`: there is no white space behind the indent at all. -/
theorem findBreak_none {w : Int} {ind s : Str} (h : findBreak w ind s = none) :
    ∀ q, WsAt s q → q ≤ ind.length :=
  fun q hq => findBreakIn_pairwise_none (wsPositionsFrom_sorted s 0) h q (mem_wsPositions.2 hq)

/-! ### `iter_lines`: equations and an induction principle with the three real cases -/

theorem iterLines_short {w : Int} {ind s : Str} (h : ¬ (s.length : Int) > w) :
    iterLines w ind s = if s.isEmpty then [] else [s] := by
  rw [iterLines]
  simp only [h, if_false]

theorem iterLines_none {w : Int} {ind s : Str} (hl : (s.length : Int) > w)
    (hb : findBreak w ind s = none) : iterLines w ind s = [s] := by
  rw [iterLines]
  simp only [hl, if_true]
  split
  · rfl
  · rename_i p hp; rw [hb] at hp; cases hp

theorem iterLines_some {w : Int} {ind s : Str} {p : Nat} (hl : (s.length : Int) > w)
    (hb : findBreak w ind s = some p) :
    iterLines w ind s = s.take p :: iterLines w ind (ind ++ s.drop (p + 1)) := by
  rw [iterLines]
  simp only [hl, if_true]
  split
  · rename_i hp; rw [hb] at hp; cases hp
  · rename_i p' hp
    rw [hb] at hp
    injection hp with hp
    subst hp
    have := (findBreak_bounds hb).1
    have hp0 : p ≠ 0 := by omega
    simp only [hp0, if_false]

/-- Induction over the run of `iter_lines`: the string is short; or no break exists; or the
line `s[:p]` is yielded and the loop continues with `indent + s[p+1:]`. -/
theorem iterLines_induct {w : Int} {ind : Str} (P : Str → List Str → Prop)
    (short : ∀ s, ¬ (s.length : Int) > w → P s (if s.isEmpty then [] else [s]))
    (nobreak : ∀ s, (s.length : Int) > w → findBreak w ind s = none → P s [s])
    (step : ∀ s p, (s.length : Int) > w → findBreak w ind s = some p →
      P (ind ++ s.drop (p + 1)) (iterLines w ind (ind ++ s.drop (p + 1))) →
      P s (s.take p :: iterLines w ind (ind ++ s.drop (p + 1))))
    (s : Str) : P s (iterLines w ind s) := by
  generalize hn : s.length = n
  induction n using Nat.strongRecOn generalizing s with
  | ind n ih =>
    by_cases hl : (s.length : Int) > w
    · cases hb : findBreak w ind s with
      | none => rw [iterLines_none hl hb]; exact nobreak s hl hb
      | some p =>
        rw [iterLines_some hl hb]
        refine step s p hl hb (ih _ ?_ _ rfl)
        have := findBreak_bounds hb
        simp only [List.length_append, List.length_drop]
        omega
    · rw [iterLines_short hl]; exact short s hl

/-! ### `rstrip` -/

theorem mem_takeWhile_imp' {p : Char → Bool} {c : Char} :
    ∀ {l : Str}, c ∈ l.takeWhile p → p c = true
  | [], h => by simp at h
  | x :: l, h => by
    simp only [List.takeWhile_cons] at h
    split at h
    · simp only [List.mem_cons] at h
      rcases h with h | h
      · subst h; assumption
      · exact mem_takeWhile_imp' h
    · simp at h

theorem rstrip_spec (l : Str) : StrippedOf l (rstrip l) := by
  refine ⟨⟨(l.reverse.takeWhile isWs).reverse, ?_, ?_⟩, ?_⟩
  · have := List.takeWhile_append_dropWhile (p := isWs) (l := l.reverse)
    have h2 := congrArg List.reverse this
    simp only [List.reverse_append, List.reverse_reverse] at h2
    exact h2.symm
  · intro c hc
    exact mem_takeWhile_imp' (List.mem_reverse.1 hc)
  · intro c hc
    simp only [rstrip, List.getLast?_reverse] at hc
    have := List.head?_dropWhile_not isWs l.reverse
    rw [hc] at this
    simpa using this

theorem rstrip_prefix (l : Str) : rstrip l <+: l := by
  obtain ⟨⟨t, ht, _⟩, _⟩ := rstrip_spec l
  exact ⟨t, ht.symm⟩

/-! ### non-white-space content -/

theorem nonWs_append (a b : Str) : nonWs (a ++ b) = nonWs a ++ nonWs b := by
  simp [nonWs]

theorem nonWs_of_all_ws {t : Str} (h : ∀ c ∈ t, isWs c = true) : nonWs t = [] := by
  simp only [nonWs, List.filter_eq_nil_iff]
  intro c hc
  simp [h c hc]

theorem nonWs_stripped {l e : Str} (h : StrippedOf l e) : nonWs e = nonWs l := by
  obtain ⟨⟨t, rfl, ht⟩, _⟩ := h
  rw [nonWs_append, nonWs_of_all_ws ht, List.append_nil]

theorem nonWs_joinWith_nl : ∀ (ls : List Str), nonWs (joinWith ['\n'] ls) = (ls.map nonWs).flatten
  | [] => by simp [joinWith, nonWs]
  | [x] => by simp [joinWith]
  | x :: y :: r => by
    have ih := nonWs_joinWith_nl (y :: r)
    have hnl : nonWs ['\n'] = [] := by decide
    simp only [joinWith, nonWs_append, hnl, ih, List.append_nil, List.map_cons, List.flatten_cons]

/-! ### words -/

theorem wordsAux_ws {c : Char} (hc : isWs c = true) :
    ∀ (a b acc : Str), wordsAux (a ++ c :: b) acc = wordsAux a acc ++ wordsAux b []
  | [], b, acc => by
    simp only [List.nil_append, wordsAux, hc, if_true]
    split <;> simp
  | x :: a, b, acc => by
    simp only [List.cons_append, wordsAux]
    split
    · split
      · exact wordsAux_ws hc a b []
      · rw [wordsAux_ws hc a b []]; rfl
    · exact wordsAux_ws hc a b (x :: acc)

theorem wordsAux_all_ws : ∀ {t : Str}, (∀ c ∈ t, isWs c = true) → ∀ (a acc : Str),
    wordsAux (a ++ t) acc = wordsAux a acc
  | [], _, a, acc => by simp
  | c :: t, h, a, acc => by
    have hc : isWs c = true := h c (by simp)
    have ht : ∀ c ∈ t, isWs c = true := fun x hx => h x (by simp [hx])
    rw [wordsAux_ws hc]
    have := wordsAux_all_ws ht [] []
    simp only [List.nil_append] at this
    rw [this]
    simp [wordsAux]

theorem words_ws (a b : Str) {c : Char} (hc : isWs c = true) :
    words (a ++ c :: b) = words a ++ words b := wordsAux_ws hc a b []

theorem words_append_all_ws (a : Str) {t : Str} (h : ∀ c ∈ t, isWs c = true) :
    words (a ++ t) = words a := wordsAux_all_ws h a []

theorem words_all_ws_append : ∀ {ind : Str}, (∀ c ∈ ind, isWs c = true) → ∀ (r : Str),
    words (ind ++ r) = words r
  | [], _, r => rfl
  | c :: ind, h, r => by
    have hc : isWs c = true := h c (by simp)
    have ht : ∀ c ∈ ind, isWs c = true := fun x hx => h x (by simp [hx])
    have := words_all_ws_append ht r
    simp only [words] at this ⊢
    simp only [List.cons_append, wordsAux, hc, if_true, List.isEmpty_nil]
    exact this

theorem words_stripped {l e : Str} (h : StrippedOf l e) : words e = words l := by
  obtain ⟨⟨t, rfl, ht⟩, _⟩ := h
  rw [words_append_all_ws _ ht]

theorem words_joinWith_nl : ∀ (ls : List Str), words (joinWith ['\n'] ls) = (ls.map words).flatten
  | [] => by simp [joinWith, words, wordsAux]
  | [x] => by simp [joinWith]
  | x :: y :: r => by
    have ih := words_joinWith_nl (y :: r)
    have hnl : isWs '\n' = true := by decide
    simp only [joinWith, List.append_assoc, List.singleton_append, words_ws _ _ hnl, ih,
      List.map_cons, List.flatten_cons]

/-! ### the lines of `iter_lines` -/

/-- the continuation part of `unjoin` -/
abbrev glue (n : Nat) (seps : List Char) (rest : List Str) : Str :=
  (List.zipWith (fun c l' => c :: l'.drop n) seps rest).flatten

/-- if the string starts with the indent, so does every yielded line -/
theorem iterLines_all_prefix (w : Int) (ind s : Str) :
    ind <+: s → ∀ l ∈ iterLines w ind s, ind <+: l := by
  refine iterLines_induct (w := w) (ind := ind) (fun s L => ind <+: s → ∀ l ∈ L, ind <+: l) ?_ ?_ ?_ s
  · intro s _ hp l hl
    split at hl
    · simp at hl
    · simp only [List.mem_singleton] at hl; subst hl; exact hp
  · intro s _ _ hp l hl
    simp only [List.mem_singleton] at hl; subst hl; exact hp
  · intro s p _ hb ih hp l hl
    simp only [List.mem_cons] at hl
    rcases hl with hl | hl
    · subst hl
      have := (findBreak_bounds hb).1
      rw [List.prefix_iff_eq_take] at hp ⊢
      rw [List.take_take, Nat.min_eq_left (by omega)]
      exact hp
    · exact ih (List.prefix_append _ _) l hl

/-- The content lemma in the shape that goes through the induction: either there is no line and
the string is empty, or the string is the first line, the glued continuation lines and at most
one trailing white-space character (only possible with an empty indent). -/
theorem iterLines_content (w : Int) (ind s : Str) :
    (iterLines w ind s = [] ∧ s = []) ∨
    ∃ l rest seps tr, iterLines w ind s = l :: rest ∧ seps.length = rest.length ∧
      (∀ c ∈ seps, isWs c = true) ∧ (∀ c ∈ tr, isWs c = true) ∧ tr.length ≤ 1 ∧
      (ind ≠ [] → tr = []) ∧ (ind.length ≤ s.length → ind.length ≤ l.length) ∧
      s = l ++ glue ind.length seps rest ++ tr := by
  refine iterLines_induct (w := w) (ind := ind) (fun s L => (L = [] ∧ s = []) ∨
    ∃ l rest seps tr, L = l :: rest ∧ seps.length = rest.length ∧
      (∀ c ∈ seps, isWs c = true) ∧ (∀ c ∈ tr, isWs c = true) ∧ tr.length ≤ 1 ∧
      (ind ≠ [] → tr = []) ∧ (ind.length ≤ s.length → ind.length ≤ l.length) ∧
      s = l ++ glue ind.length seps rest ++ tr) ?_ ?_ ?_ s
  · intro s _
    by_cases he : s.isEmpty
    · left; simp only [he, if_true, true_and]; simpa using he
    · right
      exact ⟨s, [], [], [], by simp [he], rfl, by simp, by simp, by simp, fun _ => rfl, fun h => h,
        by simp [glue]⟩
  · intro s _ _
    right
    exact ⟨s, [], [], [], rfl, rfl, by simp, by simp, by simp, fun _ => rfl, fun h => h, by simp [glue]⟩
  · intro s p _ hb ih
    right
    obtain ⟨hip, hws, _, _⟩ := findBreak_some hb
    obtain ⟨c, hc, hsplit⟩ := hws.split
    have hplt := hws.lt
    have hlen : (s.take p).length = p := by simp only [List.length_take]; omega
    rcases ih with ⟨hnil, hs'⟩ | ⟨l1, rest', seps', tr', hL, hsl, hsw, htw, htl, hti, hl1, hs'⟩
    · -- nothing follows: empty indent and the break character was the last one
      have hind : ind = [] := (List.append_eq_nil_iff.1 hs').1
      have hdrop : s.drop (p + 1) = [] := (List.append_eq_nil_iff.1 hs').2
      refine ⟨s.take p, [], [], [c], by rw [hnil], rfl, by simp, by simpa using hc, by simp,
        fun h => absurd hind h, fun _ => by omega, ?_⟩
      rw [hdrop] at hsplit
      simpa [glue] using hsplit
    · refine ⟨s.take p, l1 :: rest', c :: seps', tr', by rw [hL], by simp [hsl], ?_, htw, htl, hti,
        fun _ => by omega, ?_⟩
      · intro x hx
        simp only [List.mem_cons] at hx
        rcases hx with hx | hx
        · subst hx; exact hc
        · exact hsw x hx
      · have hn : ind.length ≤ l1.length := hl1 (by simp)
        have hd := congrArg (List.drop ind.length) hs'
        rw [List.drop_left, List.append_assoc, List.drop_append_of_le_length hn] at hd
        simp only [glue, List.zipWith_cons_cons, List.flatten_cons, List.cons_append,
          List.append_assoc]
        rw [← hd]
        exact hsplit

theorem nonWs_glue {ind : Str} (hind : ∀ c ∈ ind, isWs c = true) :
    ∀ (seps : List Char) (rest : List Str), seps.length = rest.length →
      (∀ c ∈ seps, isWs c = true) → (∀ l ∈ rest, ind <+: l) →
      nonWs (glue ind.length seps rest) = (rest.map nonWs).flatten
  | [], [], _, _, _ => by simp [glue, nonWs]
  | [], _ :: _, h, _, _ => by simp at h
  | _ :: _, [], h, _, _ => by simp at h
  | c :: seps, l :: rest, h, hs, hp => by
    have ih := nonWs_glue hind seps rest (by simpa using h) (fun x hx => hs x (by simp [hx]))
      (fun x hx => hp x (by simp [hx]))
    obtain ⟨r, rfl⟩ := hp l (by simp)
    have hc : isWs c = true := hs c (by simp)
    simp only [glue, List.zipWith_cons_cons, List.flatten_cons, List.drop_left, List.map_cons] at ih ⊢
    rw [show (c :: r ++ (List.zipWith (fun c l' => c :: List.drop ind.length l') seps rest).flatten)
          = [c] ++ (r ++ (List.zipWith (fun c l' => c :: List.drop ind.length l') seps rest).flatten) from rfl,
      nonWs_append, nonWs_append, nonWs_append, ih, nonWs_of_all_ws hind,
      nonWs_of_all_ws (t := [c]) (by simpa using hc)]
    simp

theorem words_glue {ind : Str} (hind : ∀ c ∈ ind, isWs c = true) :
    ∀ (seps : List Char) (rest : List Str) (x : Str), seps.length = rest.length →
      (∀ c ∈ seps, isWs c = true) → (∀ l ∈ rest, ind <+: l) →
      words (x ++ glue ind.length seps rest) = words x ++ (rest.map words).flatten
  | [], [], x, _, _, _ => by simp [glue]
  | [], _ :: _, _, h, _, _ => by simp at h
  | _ :: _, [], _, h, _, _ => by simp at h
  | c :: seps, l :: rest, x, h, hs, hp => by
    obtain ⟨r, rfl⟩ := hp l (by simp)
    have ih := words_glue hind seps rest r (by simpa using h) (fun x hx => hs x (by simp [hx]))
      (fun x hx => hp x (by simp [hx]))
    have hc : isWs c = true := hs c (by simp)
    simp only [glue, List.zipWith_cons_cons, List.flatten_cons, List.drop_left, List.map_cons,
      List.cons_append] at ih ⊢
    rw [words_ws _ _ hc, ih, words_all_ws_append hind]


/-! ### blank lines after `rstrip` -/

theorem rstrip_eq_nil_iff (l : Str) : rstrip l = [] ↔ ∀ c ∈ l, isWs c = true := by
  obtain ⟨⟨t, ht, htw⟩, _⟩ := rstrip_spec l
  constructor
  · intro h c hc
    rw [ht, h, List.nil_append] at hc
    exact htw c hc
  · intro h
    cases hg : (rstrip l).getLast? with
    | none => exact List.getLast?_eq_none_iff.1 hg
    | some c =>
      have hc := (rstrip_spec l).2 c hg
      have hmem : c ∈ l := (rstrip_prefix l).subset (List.mem_of_getLast? hg)
      rw [h c hmem] at hc
      cases hc

/-- a line that starts with a white-space indent and holds a non-white-space character keeps
the indent when it is right-stripped -/
theorem rstrip_keeps_indent {ind l : Str} (hind : ∀ c ∈ ind, isWs c = true) (hp : ind <+: l)
    (hne : ∃ c ∈ l, isWs c = false) : ind <+: rstrip l := by
  rcases List.prefix_or_prefix_of_prefix hp (rstrip_prefix l) with h | h
  · exact h
  · exfalso
    obtain ⟨c, hc, hcw⟩ := hne
    have hall : ∀ c ∈ l, isWs c = true := by
      apply (rstrip_eq_nil_iff l).1
      cases hg : (rstrip l).getLast? with
      | none => exact List.getLast?_eq_none_iff.1 hg
      | some x =>
        have hx := (rstrip_spec l).2 x hg
        have hmem : x ∈ ind := h.subset (List.mem_of_getLast? hg)
        rw [hind x hmem] at hx
        cases hx
    rw [hall c hc] at hcw
    cases hcw

/-! ### the `write$` buffer -/

theorem foldl_outputStep (pieces buffer : List Str) :
    pieces.foldl outputStep buffer = buffer ++ pieces := by
  induction pieces generalizing buffer with
  | nil => simp
  | cons p ps ih => simp [List.foldl_cons, outputStep, ih]

theorem engineSteps_eq (ls : List (List Str)) (lines : List Str) :
    engineSteps (lines, []) ls =
      (lines ++ (ls.map fun pieces => [wrapDefault pieces.flatten, ['\n']]).flatten, []) := by
  induction ls generalizing lines with
  | nil => simp [engineSteps]
  | cons p ps ih =>
    simp only [engineSteps, newlineStep, foldl_outputStep, List.nil_append, ih, List.map_cons,
      List.flatten_cons, List.append_assoc]

/-- every `newline$` contributes the wrapped concatenation of its pieces and one line feed -/
theorem engineOutput_eq (ls : List (List Str)) :
    engineOutput ls = (ls.map fun pieces => wrapDefault pieces.flatten ++ ['\n']).flatten := by
  simp only [engineOutput, engineSteps_eq, List.nil_append]
  induction ls with
  | nil => rfl
  | cons p ps ih => simp [List.flatten_cons, ih]

theorem engineOutput_cons (p : List Str) (ps : List (List Str)) :
    engineOutput (p :: ps) = wrapDefault p.flatten ++ '\n' :: engineOutput ps := by
  simp [engineOutput_eq]

end Pybtex.Wrap
