/-
The BibTeX writer's `_encode` for an arbitrary output encoding (C02, round 2): `Writer._encode` calls
`codecs.encode(text, 'ulatex+' + self.encoding)` — the very function the LaTeX backend calls (C09).
C09's model of it (`Backends.Latex.latexcodecEncodeE`, table regenerated from latexcodec) is connected
here with C02's `encodeLatex`.
-/
import PybtexModel.Model.Backends
import PybtexModel.Lemmas.BibWriteEncode

namespace Pybtex.C02
open Pybtex Pybtex.BibWrite Pybtex.Backends

/-- `Writer(encoding=…)._encode(text)`: `none` = `UnicodeEncodeError` (a character the encoding cannot
hold and latexcodec has no translation for); `E` = the characters the encoding can represent -/
def encodeWith (E : Char → Bool) (s : Str) : Option Str := Latex.latexcodecEncodeE E s

theorem latexAscii_lookup_other (c : Char) (h1 : c ≠ '#') (h2 : c ≠ '%') (h3 : c ≠ '&') (h4 : c ≠ '_')
    (h5 : c ≠ '~') : Gen.latexAscii.lookup c = none := by
  have e1 : (c == Char.ofNat 35) = false := by simpa using h1
  have e2 : (c == Char.ofNat 37) = false := by simpa using h2
  have e3 : (c == Char.ofNat 38) = false := by simpa using h3
  have e4 : (c == Char.ofNat 95) = false := by simpa using h4
  have e5 : (c == Char.ofNat 126) = false := by simpa using h5
  simp [Gen.latexAscii, List.lookup, e1, e2, e3, e4, e5]

theorem encodeCharE_five (E : Char → Bool) :
    Latex.encodeCharE E '#' = some (['\\', '#'], false) ∧ Latex.encodeCharE E '%' = some (['\\', '%'], false) ∧
    Latex.encodeCharE E '&' = some (['\\', '&'], false) ∧ Latex.encodeCharE E '_' = some (['\\', '_'], false) ∧
    Latex.encodeCharE E '~' = some ("\\textasciitilde".toList, true) := by
  refine ⟨?_, ?_, ?_, ?_, ?_⟩ <;> rfl

theorem encodeCharE_other (E : Char → Bool) (c : Char) (hE : E c = true) (h1 : c ≠ '#') (h2 : c ≠ '%')
    (h3 : c ≠ '&') (h4 : c ≠ '_') (h5 : c ≠ '~') : Latex.encodeCharE E c = some ([c], false) := by
  unfold Latex.encodeCharE Latex.latexMap
  by_cases hc : c.toNat < 128
  · simp [hc, latexAscii_lookup_other c h1 h2 h3 h4 h5, hE]
  · simp [hc, hE]

/-- for a string the encoding can hold, `codecs.encode(s, 'ulatex+<encoding>')` (C09's model) is
`encodeLatex` (C02's model), in either state of the encoder -/
theorem encodeGoE_eq (E : Char → Bool) (s : Str) (hE : ∀ c ∈ s, E c = true) (b : Bool) :
    Latex.encodeGoE E b s = some (encodeLatexAux b s) := by
  induction s generalizing b with
  | nil => rfl
  | cons c r ih =>
    have hr : ∀ c ∈ r, E c = true := fun x hx => hE x (List.mem_cons_of_mem _ hx)
    have hc : E c = true := hE c List.mem_cons_self
    obtain ⟨f1, f2, f3, f4, f5⟩ := encodeCharE_five E
    by_cases h1 : c = '#'
    · subst h1; simp only [Latex.encodeGoE, f1, ih hr]; cases b <;> simp [Latex.spaceBytes, encodeLatexAux]
    · by_cases h2 : c = '%'
      · subst h2; simp only [Latex.encodeGoE, f2, ih hr]; cases b <;> simp [Latex.spaceBytes, encodeLatexAux]
      · by_cases h3 : c = '&'
        · subst h3; simp only [Latex.encodeGoE, f3, ih hr]; cases b <;> simp [Latex.spaceBytes, encodeLatexAux]
        · by_cases h4 : c = '_'
          · subst h4; simp only [Latex.encodeGoE, f4, ih hr]; cases b <;> simp [Latex.spaceBytes, encodeLatexAux]
          · by_cases h5 : c = '~'
            · subst h5; simp only [Latex.encodeGoE, f5, ih hr]; cases b <;> simp [Latex.spaceBytes, encodeLatexAux]
            · simp only [Latex.encodeGoE, encodeCharE_other E c hc h1 h2 h3 h4 h5, ih hr]
              by_cases hs : c = ' '
              · subst hs; cases b <;> simp [Latex.spaceBytes, encodeLatexAux]
              · cases b <;> simp [Latex.spaceBytes, encodeLatexAux, h1, h2, h3, h4, h5, hs]

theorem encodeWith_eq (E : Char → Bool) (s : Str) (hE : ∀ c ∈ s, E c = true) :
    encodeWith E s = some (encodeLatex s) := encodeGoE_eq E s hE false

end Pybtex.C02
