/-
Helper lemmas for `C05_filtered_eq_unfiltered_partial`: reading a file filtered by the citations
versus reading it whole.
-/
import PybtexModel.Lemmas.Citations

namespace Pybtex
open Spec

end Pybtex
