/-
Helper lemmas for `C05_filtered_eq_unfiltered_partial`: reading a file filtered by the citations
versus reading it whole.

Part 1 (specification level): the resolved list, up to the case of keys, depends on the
database only through, for each cited key, the cross-reference of its entry and whether the
target exists (`ViewEq`), and through the lower-cased key list when a wildcard is cited.
Part 2 (model level): what the reader does, entry by entry, in both modes.
-/
import PybtexModel.Lemmas.Citations

namespace Pybtex
open Spec

/-! ## Part 1 -/

def xrefOf (db : SDb) (c : Str) : Option Str := (find db c).bind (·.crossref)
def hasEntry (db : SDb) (x : Str) : Bool := (find db x).isSome

/-- two databases look the same from citation `c` as far as resolution is concerned -/
def ViewEq (A B : SDb) (c : Str) : Prop :=
  xrefOf A c = xrefOf B c ∧ ∀ x, xrefOf A c = some x → hasEntry A x = hasEntry B x

theorem find_key {db : SDb} {x : Str} {P : SEntry} (h : find db x = some P) : lower P.key = lower x := by
  have := List.find?_some h
  exact (keq_iff _ _).1 this

theorem find_lower (db : SDb) (c : Str) : find db (lower c) = find db c := by
  unfold find
  congr 1
  funext e
  exact keq_lower_right _ _

theorem parentOf_eq (db : SDb) (c : Str) : parentOf db c = (xrefOf db c).bind (find db) := by
  unfold parentOf xrefOf
  cases find db c <;> rfl

theorem parentOf_lower (db : SDb) (c : Str) : parentOf db (lower c) = parentOf db c := by
  unfold parentOf; rw [find_lower]

theorem refers_lower (db : SDb) (p c : Str) : refers db p (lower c) = refers db p c := by
  unfold refers; rw [parentOf_lower]

theorem refCount_map_lower (db : SDb) (p : Str) (l : List Str) : refCount db p (l.map lower) = refCount db p l := by
  induction l with
  | nil => rfl
  | cons c l ih =>
    have : ∀ l', refCount db p (c :: l') = (if refers db p c then 1 else 0) + refCount db p l' := by
      intro l'; simp only [refCount, List.filter_cons]; split <;> simp +arith
    have h2 : ∀ l', refCount db p (lower c :: l') = (if refers db p c then 1 else 0) + refCount db p l' := by
      intro l'; simp only [refCount, List.filter_cons, refers_lower]; split <;> simp +arith
    rw [List.map_cons, h2, this, ih]

theorem cited_map_lower (l : List Str) (k : Str) : cited (l.map lower) k = cited l k := by
  unfold cited
  rw [List.any_map]
  congr 1
  funext x
  exact keq_lower_right _ _

theorem extraFrom_lower (db : SDb) (m : Int) (L : List Str) :
    ∀ (suf pre : List Str), extraFrom db m L pre suf =
      extraFrom db m (L.map lower) (pre.map lower) (suf.map lower) := by
  intro suf
  induction suf with
  | nil => intro pre; rfl
  | cons c suf ih =>
    intro pre
    simp only [List.map_cons, extraFrom, parentOf_lower]
    have hpre : pre.map lower ++ [lower c] = (pre ++ [c]).map lower := by simp
    rw [hpre, ← ih (pre ++ [c])]
    congr 1
    cases parentOf db c with
    | none => rfl
    | some P => simp only [cited_map_lower, refCount_map_lower]

theorem refers_congr_db {A B : SDb} {c : Str} (h : ViewEq A B c) (p : Str) : refers A p c = refers B p c := by
  unfold refers
  rw [parentOf_eq, parentOf_eq, ← h.1]
  cases hx : xrefOf A c with
  | none => rfl
  | some x =>
    have hh := h.2 x hx
    simp only [Option.bind_some]
    unfold hasEntry at hh
    cases hA : find A x with
    | none =>
      rw [hA] at hh
      cases hB : find B x with
      | none => rfl
      | some PB => rw [hB] at hh; cases hh
    | some PA =>
      rw [hA] at hh
      cases hB : find B x with
      | none => rw [hB] at hh; cases hh
      | some PB =>
        dsimp only
        rw [keq_congr_left (find_key hA), keq_congr_left (find_key hB)]

theorem refCount_congr_db {A B : SDb} {l : List Str} (h : ∀ c ∈ l, ViewEq A B c) (p : Str) :
    refCount A p l = refCount B p l := by
  unfold refCount
  congr 1
  apply List.filter_congr
  intro c hc
  exact refers_congr_db (h c hc) p

theorem extraFrom_congr_db {A B : SDb} (m : Int) (L : List Str) :
    ∀ (suf pre : List Str), (∀ c ∈ pre ++ suf, ViewEq A B c) →
      (extraFrom A m L pre suf).map lower = (extraFrom B m L pre suf).map lower := by
  intro suf
  induction suf with
  | nil => intro pre _; rfl
  | cons c suf ih =>
    intro pre h
    have hassoc : pre ++ c :: suf = (pre ++ [c]) ++ suf := by simp
    simp only [extraFrom, List.map_append]
    rw [ih (pre ++ [c]) (by rw [← hassoc]; exact h)]
    congr 1
    have hc : ViewEq A B c := h c (by simp)
    have hpre : ∀ c' ∈ pre ++ [c], ViewEq A B c' := by
      intro c' hc'; apply h; rw [hassoc]; exact List.mem_append_left _ hc'
    rw [parentOf_eq, parentOf_eq, ← hc.1]
    cases hx : xrefOf A c with
    | none => rfl
    | some x =>
      have hh := hc.2 x hx
      simp only [Option.bind_some]
      unfold hasEntry at hh
      cases hA : find A x with
      | none =>
        rw [hA] at hh
        cases hB : find B x with
        | none => rfl
        | some PB => rw [hB] at hh; cases hh
      | some PA =>
        rw [hA] at hh
        cases hB : find B x with
        | none => rw [hB] at hh; cases hh
        | some PB =>
          dsimp only
          have hk : lower PA.key = lower PB.key := by rw [find_key hA, find_key hB]
          rw [cited_congr hk, refCount_congr hk, refCount_congr_db hpre]
          split
          · simp [hk]
          · rfl

/-- lower-casing both components of a reported dangling reference -/
def low2 (p : Str × Str) : Str × Str := (lower p.1, lower p.2)

theorem danglingAt_eq (db : SDb) (c : Str) :
    danglingAt db c = (xrefOf db c).bind fun x => if hasEntry db x then none else some (c, x) := by
  unfold danglingAt xrefOf hasEntry
  cases find db c with
  | none => rfl
  | some e =>
    simp only [Option.bind_some]
    cases e.crossref with
    | none => rfl
    | some x =>
      simp only [Option.bind_some]
      cases find db x <;> rfl

theorem xrefOf_lower (db : SDb) (c : Str) : xrefOf db (lower c) = xrefOf db c := by
  unfold xrefOf; rw [find_lower]

theorem dangling_lower (db : SDb) (L : List Str) :
    (dangling db L).map low2 = (dangling db (L.map lower)).map low2 := by
  induction L with
  | nil => rfl
  | cons c L ih =>
    simp only [dangling_eq, List.map_cons, List.filterMap_cons, danglingAt_eq, xrefOf_lower] at ih ⊢
    cases xrefOf db c with
    | none => exact ih
    | some x =>
      simp only [Option.bind_some]
      cases hasEntry db x with
      | true => exact ih
      | false =>
        simp only [Bool.false_eq_true, if_false, List.map_cons, low2, lower_idem]
        rw [ih]

theorem dangling_congr_db {A B : SDb} {L : List Str} (h : ∀ c ∈ L, ViewEq A B c) : dangling A L = dangling B L := by
  simp only [dangling_eq]
  induction L with
  | nil => rfl
  | cons c L ih =>
    have hc := h c (by simp)
    have : danglingAt A c = danglingAt B c := by
      rw [danglingAt_eq, danglingAt_eq, ← hc.1]
      cases hx : xrefOf A c with
      | none => rfl
      | some x => simp only [Option.bind_some, hc.2 x hx]
    simp only [List.filterMap_cons, this, ih (fun c hc => h c (List.mem_cons_of_mem _ hc))]

theorem ViewEq_lower {A B : SDb} {c : Str} (h : ViewEq A B c) : ViewEq A B (lower c) := by
  unfold ViewEq at *
  rw [xrefOf_lower, xrefOf_lower]
  exact h

theorem ViewEq_congr {A B : SDb} {c c' : Str} (hc : lower c = lower c') (h : ViewEq A B c) : ViewEq A B c' := by
  have h1 := ViewEq_lower h
  rw [hc] at h1
  unfold ViewEq at *
  rw [xrefOf_lower, xrefOf_lower] at h1
  exact h1

theorem dedupFrom_lower_congr :
    ∀ (l l' seen seen' : List Str), l.map lower = l'.map lower → (∀ k, seen.any (keq k) = seen'.any (keq k)) →
      (dedupFrom seen l).map lower = (dedupFrom seen' l').map lower := by
  intro l
  induction l with
  | nil =>
    intro l' seen seen' hl _
    cases l' with
    | nil => rfl
    | cons _ _ => simp at hl
  | cons k l ih =>
    intro l' seen seen' hl hs
    cases l' with
    | nil => simp at hl
    | cons k' l' =>
      simp only [List.map_cons, List.cons.injEq] at hl
      obtain ⟨hk, hl⟩ := hl
      have h1 : seen.any (keq k) = seen'.any (keq k') := by rw [hs k, any_keq_congr hk]
      simp only [dedupFrom, h1]
      split
      · exact ih l' seen seen' hl hs
      · simp only [List.map_cons, hk]
        congr 1
        apply ih l' _ _ hl
        intro q
        simp only [List.any_cons, hs q, keq_congr_right q hk]

/-- The resolved list and the reported dangling references, up to the case of keys, are the
same for two databases that (a) give lower-equal cited lists and (b) look the same from every
cited key. -/
theorem resolve_congr (A B : SDb) (cits : List Str) (m : Int)
    (hs : (substStar A cits).map lower = (substStar B cits).map lower)
    (hv : ∀ c, cited (expanded A cits) c = true → ViewEq A B c) :
    (resolved A cits m).map lower = (resolved B cits m).map lower ∧
    (dangling A (expanded A cits)).map low2 = (dangling B (expanded B cits)).map low2 := by
  have hL : (expanded A cits).map lower = (expanded B cits).map lower :=
    dedupFrom_lower_congr _ _ [] [] hs (fun _ => rfl)
  have hmem : ∀ c ∈ (expanded A cits).map lower, ViewEq A B c := by
    intro c hc
    obtain ⟨c0, hc0, rfl⟩ := List.mem_map.1 hc
    apply ViewEq_lower
    apply hv
    exact List.any_eq_true.2 ⟨c0, hc0, keq_refl _⟩
  constructor
  · unfold resolved
    rw [List.map_append, List.map_append, hL]
    congr 1
    unfold extra
    rw [extraFrom_lower A, extraFrom_lower B, ← hL]
    exact extraFrom_congr_db m _ _ [] (by simpa using hmem)
  · rw [dangling_lower A, dangling_lower B, ← hL, dangling_congr_db hmem]

/-! ## Part 2: the reader, entry by entry -/

/-- reader invariant: the database is well formed and the citation set satisfies its C13 invariant -/
structure RInv (d : BibData) : Prop where
  wf : DbWF d
  cit : CISet.Inv d.citations

theorem RInv.init (w : Option (List Str)) : RInv (BibData.init w) := ⟨DbWF.init w, init_citations_inv w⟩

theorem canonical_lower {s : CISet} (h : CISet.Inv s) {k ck : Str} (hc : s.canonical k = some ck) :
    lower ck = lower k := by
  have := h.2.2 _ (dget_mem hc)
  exact this.symm

theorem getItem_setItem {V : Type} (d : CIDict V) (ck k : Str) (v : V) :
    (d.setItem ck v).getItem k = if lower k = lower ck then some v else d.getItem k := by
  simp only [CIDict.getItem, CIDict.setItem]
  by_cases h : lower k = lower ck
  · rw [if_pos h, h, dget_dset_same]
  · rw [if_neg h, dget_dset_ne _ _ _ _ h]

theorem wantEntry_congr (d : BibData) {k k' : Str} (h : lower k = lower k') : d.wantEntry k = d.wantEntry k' := by
  unfold BibData.wantEntry
  cases d.wanted with
  | none => rfl
  | some w => simp [CISet.contains, h]

theorem contains_isSome {V : Type} (d : CIDict V) (k : Str) : d.contains k = (d.getItem k).isSome := rfl

/-- the wanted set after an entry with fields `e.fields` has been added -/
def wantedAfter (w : Option CISet) (e : Entry) : Option CISet :=
  w.map fun w => match e.fields.getItem Pybtex.xrefName with | some x => w.add x | none => w

/-- effect of reading one entry `(key, e)` in state `d` -/
inductive ReadStep (d : BibData) (key : Str) (e : Entry) (d1 : BibData) : Prop
  | skip (h : d1 = d) (hw : d.wantEntry key = false ∨ d.entries.contains key = true)
  | add (ck : Str) (hck : lower ck = lower key) (hw : d.wantEntry key = true) (hc : d.entries.contains key = false)
      (hget : ∀ k, d1.entries.getItem k = if lower k = lower key then some { e with key := ck } else d.entries.getItem k)
      (hkeys : d1.entries.dict.map Prod.fst = d.entries.dict.map Prod.fst ++ [lower key])
      (hwant : d1.wanted = wantedAfter d.wanted e)

theorem addEntry_step {d d1 : BibData} (h : RInv d) {key : Str} {e : Entry} {rep : List Report}
    (hp : d.addEntry key e = some (d1, rep)) : ReadStep d key e d1 := by
  unfold BibData.addEntry at hp
  split at hp
  · rename_i hw
    cases hp
    exact .skip rfl (Or.inl (by simpa using hw))
  · rename_i hw
    split at hp
    · rename_i hc
      cases hp
      exact .skip rfl (Or.inr hc)
    · rename_i hc
      cases hck : d.getCanonicalKey key with
      | none => simp [hck] at hp
      | some ck =>
        have hlow : lower ck = lower key := by
          unfold BibData.getCanonicalKey at hck
          split at hck
          · exact canonical_lower h.cit hck
          · cases hck; rfl
        have hnot : lower ck ∉ d.entries.dict.map Prod.fst := by
          rw [hlow]
          intro hm
          exact hc ((dhas_iff_mem _ _).2 hm)
        have hget : ∀ k, (d.entries.setItem ck { e with key := ck }).getItem k =
            if lower k = lower key then some { e with key := ck } else d.entries.getItem k := by
          intro k; rw [getItem_setItem, hlow]
        have hkeys : (d.entries.setItem ck { e with key := ck }).dict.map Prod.fst =
            d.entries.dict.map Prod.fst ++ [lower key] := by
          simp only [CIDict.setItem]
          rw [dset_of_not_mem _ _ _ hnot, hlow]
          simp
        simp only [hck] at hp
        have hw' : d.wantEntry key = true := by simpa using hw
        have hc' : d.entries.contains key = false := by simpa using hc
        split at hp
        · rename_i hx
          cases hp
          refine .add ck hlow hw' hc' hget hkeys ?_
          change d.wanted = _
          unfold wantedAfter
          rw [show e.fields.getItem Pybtex.xrefName = none from hx]
          cases d.wanted <;> rfl
        · rename_i x hx
          split at hp
          · rename_i hwn
            cases hp
            refine .add ck hlow hw' hc' hget hkeys ?_
            change d.wanted = _
            have : d.wanted = none := hwn
            rw [this]; rfl
          · rename_i w hwn
            cases hp
            refine .add ck hlow hw' hc' hget hkeys ?_
            change some (w.add x) = _
            have : d.wanted = some w := hwn
            unfold wantedAfter
            rw [this, show e.fields.getItem Pybtex.xrefName = some x from hx]
            rfl

theorem parseEntry_step {d d1 : BibData} (h : RInv d) {key : Str} {e : Entry} {rep : List Report}
    (hp : d.parseEntry key e = some (d1, rep)) : ReadStep d key e d1 := by
  unfold BibData.parseEntry at hp
  split at hp
  · rename_i hw
    cases hp
    exact .skip rfl (Or.inl (by simpa using hw))
  · exact addEntry_step h hp

theorem wantEntry_after {d : BibData} {e : Entry} {w' : Option CISet} (hw : w' = wantedAfter d.wanted e)
    {d1 : BibData} (h1 : d1.wanted = w') {k : Str} (hk : d.wantEntry k = true) : d1.wantEntry k = true := by
  unfold BibData.wantEntry at hk ⊢
  rw [h1, hw]
  unfold wantedAfter
  cases hd : d.wanted with
  | none => rfl
  | some w =>
    rw [hd] at hk
    simp only [Option.map_some]
    cases e.fields.getItem Pybtex.xrefName with
    | none => exact hk
    | some x =>
      simp only [contains_add]
      simp only [Bool.or_eq_true] at hk ⊢
      rcases hk with hk | hk
      · exact Or.inl (Or.inr hk)
      · exact Or.inr (Or.inr hk)

theorem ReadStep.want_mono {d d1 : BibData} {key : Str} {e : Entry} (s : ReadStep d key e d1) {k : Str}
    (hk : d.wantEntry k = true) : d1.wantEntry k = true := by
  cases s with
  | skip h _ => rw [h]; exact hk
  | add ck _ _ _ _ _ hwant => exact wantEntry_after rfl hwant hk

theorem ReadStep.get_mono {d d1 : BibData} {key : Str} {e : Entry} (s : ReadStep d key e d1) {k : Str} {e0 : Entry}
    (hk : d.entries.getItem k = some e0) : d1.entries.getItem k = some e0 := by
  cases s with
  | skip h _ => rw [h]; exact hk
  | add ck _ _ hc hget _ _ =>
    rw [hget k]
    split
    · rename_i hl
      rw [contains_isSome, ← getItem_lower_congr _ hl, hk] at hc
      cases hc
    · exact hk

/-- the first entry of the file whose key is `k` (up to case) -/
def firstOcc (file : List (Str × Entry)) (k : Str) : Option (Str × Entry) := file.find? fun p => keq p.1 k

/-- unfolding `readEntries` one entry -/
theorem readEntries_cons {d d' : BibData} {key : Str} {e : Entry} {file : List (Str × Entry)} {rep : List Report}
    (h : d.readEntries ((key, e) :: file) = some (d', rep)) :
    ∃ d1 rep1 rep2, d.parseEntry key e = some (d1, rep1) ∧ d1.readEntries file = some (d', rep2) := by
  simp only [BibData.readEntries] at h
  cases h1 : d.parseEntry key e with
  | none => simp [h1] at h
  | some r1 =>
    obtain ⟨d1, rep1⟩ := r1
    simp only [h1] at h
    cases h2 : d1.readEntries file with
    | none => simp [h2] at h
    | some r2 =>
      obtain ⟨d2, rep2⟩ := r2
      simp only [h2, Option.some.injEq, Prod.mk.injEq] at h
      obtain ⟨rfl, -⟩ := h
      exact ⟨d1, rep1, rep2, rfl, h2⟩

theorem RInv.step {d d1 : BibData} (h : RInv d) {key : Str} {e : Entry} (he : EntryWF e) {rep : List Report}
    (hp : d.parseEntry key e = some (d1, rep)) : RInv d1 := by
  obtain ⟨d', rep', h', hw, hc⟩ := parseEntry_spec h.wf h.cit key he
  rw [hp] at h'
  cases h'
  exact ⟨hw, hc ▸ h.cit⟩

/-- Lemma G: a key that is wanted from the start ends up with the fields of the first entry of
the file that has that key (or keeps the entry it already had). -/
theorem read_wanted (file : List (Str × Entry)) (hf : ∀ p ∈ file, EntryWF p.2) :
    ∀ {d d' : BibData} {rep : List Report}, RInv d → d.readEntries file = some (d', rep) →
      ∀ k, d.wantEntry k = true →
        (d'.entries.getItem k).map (·.fields) =
          match d.entries.getItem k with
          | some e => some e.fields
          | none => (firstOcc file k).map (·.2.fields) := by
  induction file with
  | nil =>
    intro d d' rep _ h k _
    simp only [BibData.readEntries] at h
    cases h
    cases d.entries.getItem k <;> rfl
  | cons p file ih =>
    intro d d' rep hd h k hk
    obtain ⟨key, e⟩ := p
    obtain ⟨d1, rep1, rep2, h1, h2⟩ := readEntries_cons h
    have hs := parseEntry_step hd h1
    have hd1 := hd.step (hf (key, e) (by simp)) h1
    have := ih (fun p hp => hf p (List.mem_cons_of_mem _ hp)) hd1 h2 k (hs.want_mono hk)
    rw [this]
    cases hg : d.entries.getItem k with
    | some e0 => rw [hs.get_mono hg]
    | none =>
      dsimp only
      simp only [firstOcc, List.find?_cons]
      by_cases hkk : keq key k = true
      · have hl := (keq_iff _ _).1 hkk
        rw [hkk]
        cases hs with
        | skip _ hw =>
          rcases hw with hw | hw
          · rw [wantEntry_congr d hl, hk] at hw; cases hw
          · rw [contains_isSome, getItem_lower_congr _ hl, hg] at hw; cases hw
        | add ck _ _ _ hget _ _ =>
          rw [hget k, if_pos hl.symm]
          rfl
      · have hkk' : keq key k = false := by simpa using hkk
        rw [hkk']
        have hne : ¬ lower k = lower key := fun h' => hkk ((keq_iff _ _).2 h'.symm)
        cases hs with
        | skip h' _ => rw [h', hg]
        | add ck _ _ _ hget _ _ => rw [hget k, if_neg hne, hg]

/-- Lemma H: whatever is in the database at the end was there before or has an entry in the file. -/
theorem read_has (file : List (Str × Entry)) (hf : ∀ p ∈ file, EntryWF p.2) :
    ∀ {d d' : BibData} {rep : List Report}, RInv d → d.readEntries file = some (d', rep) →
      ∀ k, (d'.entries.getItem k).isSome = true →
        (d.entries.getItem k).isSome = true ∨ (firstOcc file k).isSome = true := by
  induction file with
  | nil =>
    intro d d' rep _ h k hk
    simp only [BibData.readEntries] at h
    cases h
    exact Or.inl hk
  | cons p file ih =>
    intro d d' rep hd h k hk
    obtain ⟨key, e⟩ := p
    obtain ⟨d1, rep1, rep2, h1, h2⟩ := readEntries_cons h
    have hs := parseEntry_step hd h1
    have hd1 := hd.step (hf (key, e) (by simp)) h1
    simp only [firstOcc, List.find?_cons]
    rcases ih (fun p hp => hf p (List.mem_cons_of_mem _ hp)) hd1 h2 k hk with h' | h'
    · cases hs with
      | skip hh _ => rw [hh] at h'; exact Or.inl h'
      | add ck _ _ _ hget _ _ =>
        rw [hget k] at h'
        by_cases hl : lower k = lower key
        · right
          have : keq key k = true := (keq_iff _ _).2 hl.symm
          simp [this]
        · rw [if_neg hl] at h'; exact Or.inl h'
    · right
      cases hkk : keq key k with
      | true => simp
      | false => exact h'

/-- Lemma M: entries and wanted keys only accumulate. -/
theorem read_mono (file : List (Str × Entry)) (hf : ∀ p ∈ file, EntryWF p.2) :
    ∀ {d d' : BibData} {rep : List Report}, RInv d → d.readEntries file = some (d', rep) →
      RInv d' ∧
      (∀ k e0, d.entries.getItem k = some e0 → d'.entries.getItem k = some e0) ∧
      (∀ k, d.wantEntry k = true → d'.wantEntry k = true) := by
  induction file with
  | nil =>
    intro d d' rep hd h
    simp only [BibData.readEntries] at h
    cases h
    exact ⟨hd, fun _ _ h => h, fun _ h => h⟩
  | cons p file ih =>
    intro d d' rep hd h
    obtain ⟨key, e⟩ := p
    obtain ⟨d1, rep1, rep2, h1, h2⟩ := readEntries_cons h
    have hs := parseEntry_step hd h1
    have hd1 := hd.step (hf (key, e) (by simp)) h1
    obtain ⟨hr, hg, hw⟩ := ih (fun p hp => hf p (List.mem_cons_of_mem _ hp)) hd1 h2
    exact ⟨hr, fun k e0 hk => hg k e0 (hs.get_mono hk), fun k hk => hw k (hs.want_mono hk)⟩

/-- appending the keys not seen yet, in order -/
def addKeys (ks : List Str) (l : List Str) : List Str :=
  l.foldl (fun ks k => if ks.contains k then ks else ks ++ [k]) ks

/-- Lemma K: when every key is wanted (unfiltered reading, or a wildcard among the citations)
the lower-cased keys of the database are a function of the file alone. -/
theorem read_keys (file : List (Str × Entry)) (hf : ∀ p ∈ file, EntryWF p.2) :
    ∀ {d d' : BibData} {rep : List Report}, RInv d → d.readEntries file = some (d', rep) →
      (∀ k, d.wantEntry k = true) →
      d'.entries.dict.map Prod.fst = addKeys (d.entries.dict.map Prod.fst) (file.map fun p => lower p.1) := by
  induction file with
  | nil =>
    intro d d' rep _ h _
    simp only [BibData.readEntries] at h
    cases h
    rfl
  | cons p file ih =>
    intro d d' rep hd h hall
    obtain ⟨key, e⟩ := p
    obtain ⟨d1, rep1, rep2, h1, h2⟩ := readEntries_cons h
    have hs := parseEntry_step hd h1
    have hd1 := hd.step (hf (key, e) (by simp)) h1
    rw [ih (fun p hp => hf p (List.mem_cons_of_mem _ hp)) hd1 h2 (fun k => hs.want_mono (hall k))]
    simp only [List.map_cons, addKeys, List.foldl_cons]
    congr 1
    cases hs with
    | skip h' hw =>
      rcases hw with hw | hw
      · rw [hall key] at hw; cases hw
      · have : (d.entries.dict.map Prod.fst).contains (lower key) = true := by
          simpa using (dhas_iff_mem _ _).1 hw
        rw [h', if_pos this]
    | add ck _ _ hc _ hkeys _ =>
      have : ¬ (d.entries.dict.map Prod.fst).contains (lower key) = true := by
        intro hm
        have := (dhas_iff_mem d.entries.dict (lower key)).2 (by simpa using hm)
        rw [CIDict.contains, this] at hc
        cases hc
      rw [hkeys, if_neg this]

theorem readEntries_append (a b : List (Str × Entry)) :
    ∀ {d d' : BibData} {rep : List Report}, d.readEntries (a ++ b) = some (d', rep) →
      ∃ d1 r1 r2, d.readEntries a = some (d1, r1) ∧ d1.readEntries b = some (d', r2) := by
  induction a with
  | nil => intro d d' rep h; exact ⟨d, [], rep, rfl, h⟩
  | cons p a ih =>
    intro d d' rep h
    obtain ⟨key, e⟩ := p
    obtain ⟨d1, rep1, rep2, h1, h2⟩ := readEntries_cons (file := a ++ b) h
    obtain ⟨d2, r1, r2, h3, h4⟩ := ih h2
    refine ⟨d2, rep1 ++ r1, r2, ?_, h4⟩
    simp [BibData.readEntries, h1, h3]

theorem laterOccurs_split {l : List Str} {x : Str} :
    ∀ {file : List SEntry} {seen : List Str}, laterOccurs l x seen file = true →
      ∃ f1 e f2, file = f1 ++ e :: f2 ∧ (∀ q ∈ f1, keq q.key e.key = false) ∧ seen.any (keq e.key) = false ∧
        cited l e.key = true ∧ (∃ y, e.crossref = some y ∧ keq y x = true) ∧
        (f2.any fun q => keq q.key x) = true := by
  intro file
  induction file with
  | nil => intro seen h; simp [laterOccurs] at h
  | cons e r ih =>
    intro seen h
    simp only [laterOccurs, Bool.or_eq_true, Bool.and_eq_true] at h
    rcases h with ⟨⟨⟨h1, h2⟩, h3⟩, h4⟩ | h
    · refine ⟨[], e, r, rfl, by simp, by simpa using h1, h2, ?_, h4⟩
      cases hx : e.crossref with
      | none => simp [hx] at h3
      | some y => exact ⟨y, rfl, by simpa [hx] using h3⟩
    · obtain ⟨f1, e', f2, hr, hf1, hseen, hc, hy, hocc⟩ := ih h
      rw [List.any_cons, Bool.or_eq_false_iff] at hseen
      refine ⟨e :: f1, e', f2, by rw [hr]; rfl, ?_, hseen.2, hc, hy, hocc⟩
      intro q hq
      rcases List.mem_cons.1 hq with rfl | hq
      · rw [keq_comm]; exact hseen.1
      · exact hf1 q hq

/-- Lemma P: once the (first, hence effective) entry of a wanted key `p.1` that cross-references
`y` has been read, an entry with key `y` that comes later in the file is read too. -/
theorem read_later {file : List (Str × Entry)} (hf : ∀ p ∈ file, EntryWF p.2) {d d' : BibData} {rep : List Report}
    (hd : RInv d) (h : d.readEntries file = some (d', rep))
    {g1 g2 : List (Str × Entry)} {p : Str × Entry} (hfile : file = g1 ++ p :: g2)
    (hfirst : ∀ q ∈ g1, keq q.1 p.1 = false) (hnone : d.entries.getItem p.1 = none)
    (hw : d.wantEntry p.1 = true) {y x : Str} (hy : p.2.fields.getItem Pybtex.xrefName = some y)
    (hyx : keq y x = true) (hocc : (firstOcc g2 x).isSome = true) :
    (d'.entries.getItem x).isSome = true := by
  subst hfile
  obtain ⟨da, r1, r2, ha, hrest⟩ := readEntries_append g1 (p :: g2) h
  obtain ⟨key, e⟩ := p
  obtain ⟨db, r3, r4, hb, hg2⟩ := readEntries_cons hrest
  have hf1 : ∀ q ∈ g1, EntryWF q.2 := fun q hq => hf q (List.mem_append_left _ hq)
  have hf2 : ∀ q ∈ g2, EntryWF q.2 := fun q hq => hf q (List.mem_append_right _ (List.mem_cons_of_mem _ hq))
  have he : EntryWF e := hf (key, e) (List.mem_append_right _ (by simp))
  obtain ⟨hda, -, hwa⟩ := read_mono g1 hf1 hd ha
  have hna : da.entries.getItem key = none := by
    cases hg : da.entries.getItem key with
    | none => rfl
    | some e0 =>
      rcases read_has g1 hf1 hd ha key (by simp [hg]) with h' | h'
      · simp only at hnone; rw [hnone] at h'; cases h'
      · have : firstOcc g1 key = none := by
          simp only [firstOcc, List.find?_eq_none]
          intro q hq
          simpa using hfirst q hq
        rw [this] at h'; cases h'
  have hdb := hda.step he hb
  have hwx : db.wantEntry x = true := by
    cases parseEntry_step hda hb with
    | skip _ hw' =>
      rcases hw' with hw' | hw'
      · rw [hwa key hw] at hw'; cases hw'
      · rw [contains_isSome, hna] at hw'; cases hw'
    | add ck _ _ _ _ _ hwant =>
      unfold BibData.wantEntry
      rw [hwant]
      unfold wantedAfter
      cases da.wanted with
      | none => rfl
      | some w =>
        simp only [Option.map_some]
        rw [show e.fields.getItem Pybtex.xrefName = some y from hy]
        simp only [contains_add]
        rw [keq_comm, hyx]
        rfl
  have := read_wanted g2 hf2 hdb hg2 x hwx
  cases hgx : db.entries.getItem x with
  | some e0 =>
    rw [hgx] at this
    cases hd' : d'.entries.getItem x with
    | none => rw [hd'] at this; cases this
    | some _ => rfl
  | none =>
    rw [hgx] at this
    dsimp only at this
    cases hd' : d'.entries.getItem x with
    | some _ => rfl
    | none =>
      rw [hd'] at this
      cases hfo : firstOcc g2 x with
      | none => rw [hfo] at hocc; cases hocc
      | some _ => rw [hfo] at this; cases this

/-! ## Part 3: which ENTRY is stored (contents, not only keys) -/

/-- what an entry holds apart from the key it is stored under -/
def Entry.content (e : Entry) : Str × CIDict Str × CIDict (List Str) := (e.type, e.fields, e.persons)

/-- Lemma G for whole entries: a key that is wanted ends up with the first entry of the file
that has that key (or keeps the entry it already had). -/
theorem read_wanted_content (file : List (Str × Entry)) (hf : ∀ p ∈ file, EntryWF p.2) :
    ∀ {d d' : BibData} {rep : List Report}, RInv d → d.readEntries file = some (d', rep) →
      ∀ k, d.wantEntry k = true →
        (d'.entries.getItem k).map Entry.content =
          match d.entries.getItem k with
          | some e => some e.content
          | none => (firstOcc file k).map (·.2.content) := by
  induction file with
  | nil =>
    intro d d' rep _ h k _
    simp only [BibData.readEntries] at h
    cases h
    cases d.entries.getItem k <;> rfl
  | cons p file ih =>
    intro d d' rep hd h k hk
    obtain ⟨key, e⟩ := p
    obtain ⟨d1, rep1, rep2, h1, h2⟩ := readEntries_cons h
    have hs := parseEntry_step hd h1
    have hd1 := hd.step (hf (key, e) (by simp)) h1
    have := ih (fun p hp => hf p (List.mem_cons_of_mem _ hp)) hd1 h2 k (hs.want_mono hk)
    rw [this]
    cases hg : d.entries.getItem k with
    | some e0 => rw [hs.get_mono hg]
    | none =>
      dsimp only
      simp only [firstOcc, List.find?_cons]
      by_cases hkk : keq key k = true
      · have hl := (keq_iff _ _).1 hkk
        rw [hkk]
        cases hs with
        | skip _ hw =>
          rcases hw with hw | hw
          · rw [wantEntry_congr d hl, hk] at hw; cases hw
          · rw [contains_isSome, getItem_lower_congr _ hl, hg] at hw; cases hw
        | add ck _ _ _ hget _ _ =>
          rw [hget k, if_pos hl.symm]
          rfl
      · have hkk' : keq key k = false := by simpa using hkk
        rw [hkk']
        have hne : ¬ lower k = lower key := fun h' => hkk ((keq_iff _ _).2 h'.symm)
        cases hs with
        | skip h' _ => rw [h', hg]
        | add ck _ _ _ hget _ _ => rw [hget k, if_neg hne, hg]

theorem content_fields {o o' : Option Entry} (h : o.map Entry.content = o'.map Entry.content) :
    o.map (·.fields) = o'.map (·.fields) := by
  cases o with
  | none => cases o' with
    | none => rfl
    | some _ => cases h
  | some e => cases o' with
    | none => cases h
    | some e' =>
      simp only [Option.map_some, Option.some.injEq, Entry.content, Prod.mk.injEq] at h
      simp [h.2.1]

theorem firstOcc_append_none {a b : List (Str × Entry)} {k : Str} (h : firstOcc a k = none) :
    firstOcc (a ++ b) k = firstOcc b k := by
  unfold firstOcc at *
  rw [List.find?_append, h]
  rfl

theorem firstOcc_append_some {a b : List (Str × Entry)} {k : Str} (h : (firstOcc a k).isSome = true) :
    (firstOcc (a ++ b) k).isSome = true := by
  unfold firstOcc at *
  rw [List.find?_append]
  cases hf : List.find? (fun p => keq p.1 k) a with
  | none => rw [hf] at h; cases h
  | some _ => rfl

/-- Lemma B: after the (first, hence effective) entry `p` of a wanted key that cross-references
`y` has been read, `y` is wanted; and the database holds nothing but what it held before and
keys of the entries read so far. -/
theorem read_child {file : List (Str × Entry)} (hf : ∀ p ∈ file, EntryWF p.2) {d d' : BibData} {rep : List Report}
    (hd : RInv d) (h : d.readEntries file = some (d', rep))
    {g1 g2 : List (Str × Entry)} {p : Str × Entry} (hfile : file = g1 ++ p :: g2)
    (hfirst : ∀ q ∈ g1, keq q.1 p.1 = false) (hnone : d.entries.getItem p.1 = none)
    (hw : d.wantEntry p.1 = true) {y : Str} (hy : p.2.fields.getItem Pybtex.xrefName = some y) :
    ∃ db r2, RInv db ∧ db.readEntries g2 = some (d', r2) ∧ db.wantEntry y = true ∧
      (∀ k, (db.entries.getItem k).isSome = true →
        (d.entries.getItem k).isSome = true ∨ (firstOcc (g1 ++ [p]) k).isSome = true) := by
  subst hfile
  obtain ⟨da, r1, r2, ha, hrest⟩ := readEntries_append g1 (p :: g2) h
  obtain ⟨key, e⟩ := p
  obtain ⟨db, r3, r4, hb, hg2⟩ := readEntries_cons hrest
  have hf1 : ∀ q ∈ g1, EntryWF q.2 := fun q hq => hf q (List.mem_append_left _ hq)
  have he : EntryWF e := hf (key, e) (List.mem_append_right _ (by simp))
  obtain ⟨hda, -, hwa⟩ := read_mono g1 hf1 hd ha
  have hna : da.entries.getItem key = none := by
    cases hg : da.entries.getItem key with
    | none => rfl
    | some e0 =>
      rcases read_has g1 hf1 hd ha key (by simp [hg]) with h' | h'
      · simp only at hnone; rw [hnone] at h'; cases h'
      · have : firstOcc g1 key = none := by
          simp only [firstOcc, List.find?_eq_none]
          intro q hq
          simpa using hfirst q hq
        rw [this] at h'; cases h'
  have hdb := hda.step he hb
  refine ⟨db, r4, hdb, hg2, ?_, ?_⟩
  · cases parseEntry_step hda hb with
    | skip _ hw' =>
      rcases hw' with hw' | hw'
      · rw [hwa key hw] at hw'; cases hw'
      · rw [contains_isSome, hna] at hw'; cases hw'
    | add ck _ _ _ _ _ hwant =>
      unfold BibData.wantEntry
      rw [hwant]
      unfold wantedAfter
      cases da.wanted with
      | none => rfl
      | some w =>
        simp only [Option.map_some]
        rw [show e.fields.getItem Pybtex.xrefName = some y from hy]
        simp only [contains_add, keq_refl]
        rfl
  · intro k hk
    have hfrom_da : (da.entries.getItem k).isSome = true →
        (d.entries.getItem k).isSome = true ∨ (firstOcc (g1 ++ [(key, e)]) k).isSome = true := by
      intro hk'
      rcases read_has g1 hf1 hd ha k hk' with h' | h'
      · exact Or.inl h'
      · exact Or.inr (firstOcc_append_some h')
    cases parseEntry_step hda hb with
    | skip hh _ => rw [hh] at hk; exact hfrom_da hk
    | add ck _ _ _ hget _ _ =>
      rw [hget k] at hk
      by_cases hl : lower k = lower key
      · right
        have hkk : keq key k = true := (keq_iff _ _).2 hl.symm
        unfold firstOcc
        rw [List.find?_append]
        cases List.find? (fun p => keq p.1 k) g1 with
        | some _ => rfl
        | none => simp [List.find?_cons, hkk]
      · rw [if_neg hl] at hk
        exact hfrom_da hk

theorem parentOk_split {sfile : List SEntry} {l : List Str} {x : Str} :
    ∀ {r : List SEntry}, parentOk sfile l x r = true →
      ∃ h1 px h2, r = h1 ++ px :: h2 ∧ (∀ q ∈ h1, keq q.key x = false) ∧ keq px.key x = true ∧
        (∀ y, px.crossref = some y →
          keq y x = true ∨ cited l y = true ∨ (sfile.any fun q' => keq q'.key y) = false ∨
            (h2.any fun q' => keq q'.key y) = true) := by
  intro r
  induction r with
  | nil => intro h; simp [parentOk] at h
  | cons q r ih =>
    intro h
    simp only [parentOk] at h
    by_cases hq : keq q.key x = true
    · rw [if_pos hq] at h
      refine ⟨[], q, r, rfl, by simp, hq, ?_⟩
      intro y hy
      rw [hy] at h
      simp only [Bool.or_eq_true, Bool.not_eq_true'] at h
      rcases h with ((h | h) | h) | h
      · exact Or.inl h
      · exact Or.inr (Or.inl h)
      · exact Or.inr (Or.inr (Or.inl h))
      · exact Or.inr (Or.inr (Or.inr h))
    · rw [if_neg hq] at h
      obtain ⟨h1, px, h2, hr, hh1, hpx, hy⟩ := ih h
      refine ⟨q :: h1, px, h2, by rw [hr]; rfl, ?_, hpx, hy⟩
      intro q' hq'
      rcases List.mem_cons.1 hq' with rfl | hq'
      · simpa using hq
      · exact hh1 q' hq'

theorem firstLater_split {sfile : List SEntry} {l : List Str} {x : Str} :
    ∀ {file : List SEntry} {seen : List Str}, firstLater sfile l x seen file = true →
      ∃ f1 e f2, file = f1 ++ e :: f2 ∧ (∀ q ∈ f1, keq q.key e.key = false) ∧ seen.any (keq e.key) = false ∧
        cited l e.key = true ∧ (∃ y, e.crossref = some y ∧ keq y x = true) ∧
        (∀ q ∈ f1 ++ [e], keq q.key x = false) ∧ parentOk sfile l x f2 = true := by
  intro file
  induction file with
  | nil => intro seen h; simp [firstLater] at h
  | cons e r ih =>
    intro seen h
    simp only [firstLater, Bool.and_eq_true, Bool.or_eq_true, Bool.not_eq_true'] at h
    obtain ⟨hex, h⟩ := h
    rcases h with ⟨⟨⟨h1, h2⟩, h3⟩, h4⟩ | h
    · refine ⟨[], e, r, rfl, by simp, h1, h2, ?_, by simpa using hex, h4⟩
      cases hx : e.crossref with
      | none => simp [hx] at h3
      | some y => exact ⟨y, rfl, by simpa [hx] using h3⟩
    · obtain ⟨f1, e', f2, hr, hf1, hseen, hc, hy, hnox, hok⟩ := ih h
      rw [List.any_cons, Bool.or_eq_false_iff] at hseen
      refine ⟨e :: f1, e', f2, by rw [hr]; rfl, ?_, hseen.2, hc, hy, ?_, hok⟩
      · intro q hq
        rcases List.mem_cons.1 hq with rfl | hq
        · rw [keq_comm]; exact hseen.1
        · exact hf1 q hq
      · intro q hq
        rcases List.mem_cons.1 hq with rfl | hq
        · exact hex
        · exact hnox q hq

/-! ## Assembly -/

/-- lower-casing the keys in a report -/
def Report.lower : Report → Report
  | .repeated k => .repeated (Pybtex.lower k)
  | .badCrossref k x => .badCrossref (Pybtex.lower k) (Pybtex.lower x)
  | .missingEntry k => .missingEntry (Pybtex.lower k)

theorem xrefOf_toS {db : BibData} (hdb : DbWF db) (c : Str) :
    xrefOf db.toS c = (db.entries.getItem c).bind fun e => e.fields.getItem Pybtex.xrefName := by
  unfold xrefOf
  rw [← getItem_entries hdb c]
  cases hg : db.entries.getItem c with
  | none => rfl
  | some e =>
    obtain ⟨hwe, -⟩ := getItem_entries_wf hdb hg
    simp only [Option.map_some, Option.bind_some]
    exact (Entry.crossref_toS hwe).symm

theorem has_toS {db : BibData} (hdb : DbWF db) (x : Str) : hasEntry db.toS x = (db.entries.getItem x).isSome := by
  unfold hasEntry
  rw [← getItem_entries hdb x]
  cases db.entries.getItem x <;> rfl

theorem bind_of_map_fields {o : Option Entry} {o' : Option (Str × Entry)}
    (h : o.map (·.fields) = o'.map (·.2.fields)) :
    (o.bind fun e => e.fields.getItem Pybtex.xrefName) = (o'.bind fun p => p.2.fields.getItem Pybtex.xrefName) ∧
    o.isSome = o'.isSome := by
  cases o with
  | none => cases o' with
    | none => exact ⟨rfl, rfl⟩
    | some _ => cases h
  | some e => cases o' with
    | none => cases h
    | some p =>
      simp only [Option.map_some, Option.some.injEq] at h
      simp [h]

theorem init_getItem (w : Option (List Str)) (k : Str) : (BibData.init w).entries.getItem k = none := by
  cases w <;> rfl

theorem init_want_none (k : Str) : (BibData.init none).wantEntry k = true := rfl

theorem init_want_some (cits : List Str) (k : Str) :
    (BibData.init (some cits)).wantEntry k = (cited cits k || cited cits Pybtex.star) := by
  simp only [BibData.init, BibData.wantEntry, contains_ofList]

theorem keys_lower_toS {db : BibData} (hdb : DbWF db) : (keys db.toS).map lower = db.entries.dict.map Prod.fst := by
  rw [← iter_entries hdb, CIDict.iter]
  rw [List.map_map]
  have h3 := hdb.inv.2.2
  have : (db.entries.keys.map (lower ∘ Prod.snd)) = db.entries.keys.map Prod.fst := by
    apply List.map_congr_left
    intro t ht
    exact (h3 t ht).symm
  rw [this]
  exact hdb.inv.1.symm

theorem substStar_noStar {db : SDb} {cits : List Str} (h : Spec.star ∉ cits) : substStar db cits = cits := by
  induction cits with
  | nil => rfl
  | cons c r ih =>
    simp only [List.mem_cons, not_or] at h
    rw [substStar_cons, if_neg (fun hc => h.1 hc.symm), ih h.2]
    rfl

theorem substStar_lower_congr {A B : SDb} (h : (keys A).map lower = (keys B).map lower) (cits : List Str) :
    (substStar A cits).map lower = (substStar B cits).map lower := by
  induction cits with
  | nil => rfl
  | cons c r ih =>
    rw [substStar_cons, substStar_cons, List.map_append, List.map_append, ih]
    congr 1
    split
    · exact h
    · rfl

theorem find_map_rawToS (file : List (Str × Entry)) (c : Str) :
    (file.map rawToS).find? (fun e => keq e.key c) = (firstOcc file c).map rawToS := by
  unfold firstOcc
  induction file with
  | nil => rfl
  | cons p file ih =>
    simp only [List.map_cons, List.find?_cons]
    have : keq (rawToS p).key c = keq p.1 c := rfl
    rw [this]
    cases keq p.1 c with
    | true => rfl
    | false => exact ih

theorem any_map_rawToS (file : List (Str × Entry)) (x : Str) :
    (file.map rawToS).any (fun q => keq q.key x) = (firstOcc file x).isSome := by
  unfold firstOcc
  induction file with
  | nil => rfl
  | cons p file ih =>
    simp only [List.map_cons, List.any_cons, List.find?_cons]
    have : keq (rawToS p).key x = keq p.1 x := rfl
    rw [this]
    cases keq p.1 x with
    | true => rfl
    | false => simpa using ih

theorem firstOcc_congr (file : List (Str × Entry)) {c c' : Str} (h : lower c = lower c') : firstOcc file c = firstOcc file c' := by
  unfold firstOcc
  congr 1
  funext p
  exact keq_congr_right _ h

theorem rawToS_crossref {p : Str × Entry} (h : EntryWF p.2) : (rawToS p).crossref = p.2.fields.getItem Pybtex.xrefName :=
  (Entry.crossref_toS h).symm

/-- Specification-level core: reading filtered by the citations, then resolving, gives the same
keys and the same dangling references of the CITED entries as reading everything, then
resolving — up to the case of keys — under the ordering proviso. -/
theorem filtered_core (file : List (Str × Entry)) (hf : ∀ p ∈ file, EntryWF p.2)
    (cits : List Str) (m : Int) (hprov : proviso (file.map rawToS) cits = true) :
    ∃ U repU F repF, BibData.readFile none file = some (U, repU) ∧
      BibData.readFile (some cits) file = some (F, repF) ∧ DbWF U ∧ DbWF F ∧
      (resolved F.toS cits m).map lower = (resolved U.toS cits m).map lower ∧
      (dangling F.toS (expanded F.toS cits)).map low2 = (dangling U.toS (expanded U.toS cits)).map low2 := by
  obtain ⟨U, repU, hU, hUwf, -⟩ := readFile_spec none file hf
  obtain ⟨F, repF, hF, hFwf, -⟩ := readFile_spec (some cits) file hf
  refine ⟨U, repU, F, repF, hU, hF, hUwf, hFwf, ?_⟩
  -- what the two databases hold
  have hUget : ∀ k, (U.entries.getItem k).map (·.fields) = (firstOcc file k).map (·.2.fields) := by
    intro k
    have := read_wanted file hf (RInv.init none) hU k (init_want_none k)
    rw [init_getItem] at this
    exact this
  have hFget : ∀ k, (BibData.init (some cits)).wantEntry k = true →
      (F.entries.getItem k).map (·.fields) = (firstOcc file k).map (·.2.fields) := by
    intro k hk
    have := read_wanted file hf (RInv.init (some cits)) hF k hk
    rw [init_getItem] at this
    exact this
  have hview : ∀ c, (BibData.init (some cits)).wantEntry c = true →
      xrefOf F.toS c = xrefOf U.toS c := by
    intro c hc
    rw [xrefOf_toS hFwf, xrefOf_toS hUwf, (bind_of_map_fields (hFget c hc)).1, (bind_of_map_fields (hUget c)).1]
  have hhasU : ∀ x, hasEntry U.toS x = (firstOcc file x).isSome := by
    intro x; rw [has_toS hUwf, (bind_of_map_fields (hUget x)).2]
  have hres : (resolved F.toS cits m).map lower = (resolved U.toS cits m).map lower ∧
      (dangling F.toS (expanded F.toS cits)).map low2 = (dangling U.toS (expanded U.toS cits)).map low2 := by
    by_cases hstar : cited cits Pybtex.star = true
    · -- a wildcard: every entry is wanted
      have hall : ∀ k, (BibData.init (some cits)).wantEntry k = true := by
        intro k; rw [init_want_some, hstar]; simp
      apply resolve_congr
      · apply substStar_lower_congr
        rw [keys_lower_toS hFwf, keys_lower_toS hUwf,
          read_keys file hf (RInv.init (some cits)) hF hall,
          read_keys file hf (RInv.init none) hU init_want_none]
        rfl
      · intro c _
        refine ⟨hview c (hall c), ?_⟩
        intro x _
        rw [hhasU, has_toS hFwf, (bind_of_map_fields (hFget x (hall x))).2]
    · -- no wildcard: the ordering proviso is needed
      have hnostar : Spec.star ∉ cits := by
        intro hm
        apply hstar
        exact List.any_eq_true.2 ⟨_, hm, keq_refl _⟩
      have hprov' : ∀ c0 ∈ cits, ∀ p, firstOcc file c0 = some p → ∀ x, p.2.fields.getItem Pybtex.xrefName = some x →
          (cited cits x = true ∨ (firstOcc file x).isSome = false ∨ laterOccurs cits x [] (file.map rawToS) = true) := by
        intro c0 hc0 p hp x hx
        unfold proviso at hprov
        have hcont : cits.contains Spec.star = false := by
          rw [Bool.eq_false_iff]; intro h'; exact hnostar (by simpa using h')
        rw [hcont, Bool.false_or, List.all_eq_true] at hprov
        have := hprov c0 hc0
        rw [find_map_rawToS, hp] at this
        simp only [Option.map_some] at this
        have hpw : EntryWF p.2 := by
          have := List.mem_of_find?_eq_some hp
          exact hf p this
        rw [rawToS_crossref hpw, hx] at this
        simp only [Bool.or_eq_true, Bool.not_eq_true', any_map_rawToS] at this
        rcases this with (h' | h') | h'
        · exact Or.inl h'
        · exact Or.inr (Or.inl h')
        · exact Or.inr (Or.inr h')
      apply resolve_congr
      · rw [substStar_noStar hnostar, substStar_noStar hnostar]
      · intro c hc
        -- `c` is cited
        have hcit : cited cits c = true := by
          unfold expanded at hc
          rw [substStar_noStar hnostar] at hc
          obtain ⟨c1, hc1, hk⟩ := List.any_eq_true.1 hc
          exact List.any_eq_true.2 ⟨c1, (mem_dedupFrom hc1).1, hk⟩
        have hwc : (BibData.init (some cits)).wantEntry c = true := by rw [init_want_some, hcit]; rfl
        refine ⟨hview c hwc, ?_⟩
        intro x hx
        rw [hhasU, has_toS hFwf]
        -- the entry that counts for `c`
        rw [xrefOf_toS hFwf, (bind_of_map_fields (hFget c hwc)).1] at hx
        cases hfo : firstOcc file c with
        | none => rw [hfo] at hx; cases hx
        | some p =>
          rw [hfo] at hx
          simp only [Option.bind_some] at hx
          obtain ⟨c0, hc0, hk⟩ := List.any_eq_true.1 hcit
          have hfo0 : firstOcc file c0 = some p := by
            rw [← firstOcc_congr file ((keq_iff _ _).1 hk)]; exact hfo
          cases hocc : (firstOcc file x).isSome with
          | false =>
            -- no entry with that key in the file: not in the filtered database either
            cases hFx : F.entries.getItem x with
            | none => rfl
            | some _ =>
              rcases read_has file hf (RInv.init (some cits)) hF x (by simp [hFx]) with h' | h'
              · rw [init_getItem] at h'; cases h'
              · rw [hocc] at h'; cases h'
          | true =>
            rcases hprov' c0 hc0 p hfo0 x hx with h' | h' | h'
            · have hwx : (BibData.init (some cits)).wantEntry x = true := by rw [init_want_some, h']; rfl
              rw [(bind_of_map_fields (hFget x hwx)).2, hocc]
            · rw [hocc] at h'; cases h'
            · obtain ⟨f1, e, f2, hsplit, hfirst, -, hce, ⟨y, hy, hyx⟩, hocc2⟩ := laterOccurs_split h'
              obtain ⟨g1, rest, hg, hg1, hrest⟩ := List.map_eq_append_iff.1 hsplit
              obtain ⟨q, g2, hq, hqe, hg2⟩ := List.map_eq_cons_iff.1 hrest
              subst hg1 hqe hg2 hq
              have hqw : EntryWF q.2 := hf q (by rw [hg]; simp)
              have := read_later hf (RInv.init (some cits)) hF hg
                (fun r hr => hfirst (rawToS r) (List.mem_map.2 ⟨r, hr, rfl⟩))
                (init_getItem _ _)
                (by rw [init_want_some]; rw [show cited cits q.1 = true from hce]; rfl)
                (by rw [← rawToS_crossref hqw]; exact hy) hyx
                (by rw [← any_map_rawToS]; exact hocc2)
              rw [this]
  exact hres

/-- `add_extra_citations` in terms of the specification -/
theorem addExtra_spec {db : BibData} (hdb : DbWF db) (cits : List Str) (m : Int) :
    db.addExtraCitations cits m =
      (resolved db.toS cits m, (dangling db.toS (resolved db.toS cits m)).map fun p => Report.badCrossref p.1 p.2) := by
  simp only [BibData.addExtraCitations, crossreferenced_spec hdb, expandWildcard_spec hdb, resolved]

theorem report_lower_map (l : List (Str × Str)) :
    (l.map fun p => Report.badCrossref p.1 p.2).map Report.lower = (l.map low2).map fun p => Report.badCrossref p.1 p.2 := by
  simp [List.map_map, Report.lower, low2, Function.comp_def]

/-- Reading filtered by the citations, then resolving, gives the same keys as reading everything,
then resolving, and the same dangling references of the cited entries — up to the case of keys —
under the ordering proviso. -/
theorem filtered_eq_unfiltered (file : List (Str × Entry)) (hf : ∀ p ∈ file, EntryWF p.2)
    (cits : List Str) (m : Int) (hprov : proviso (file.map rawToS) cits = true) :
    ∃ U repU F repF, BibData.readFile none file = some (U, repU) ∧
      BibData.readFile (some cits) file = some (F, repF) ∧
      (F.addExtraCitations cits m).1.map lower = (U.addExtraCitations cits m).1.map lower ∧
      (dangling F.toS (F.expandWildcard cits)).map low2 = (dangling U.toS (U.expandWildcard cits)).map low2 := by
  obtain ⟨U, repU, F, repF, hU, hF, hUwf, hFwf, h1, h2⟩ := filtered_core file hf cits m hprov
  refine ⟨U, repU, F, repF, hU, hF, ?_, ?_⟩
  · rw [addExtra_spec hFwf, addExtra_spec hUwf]; exact h1
  · rw [expandWildcard_spec hFwf, expandWildcard_spec hUwf]; exact h2


theorem content_isSome {α β γ : Type} {f : α → γ} {g : β → γ} {o : Option α} {o' : Option β}
    (h : o.map f = o'.map g) : o.isSome = o'.isSome := by
  cases o <;> cases o' <;> simp_all

theorem keq_false_of_lower {a b c : Str} (h : keq a c = false) (hl : lower b = lower c) : keq a b = false := by
  rw [keq_congr_right a hl]; exact h

/-- Reading filtered by the citations stores, under every key of the resolved list, THE SAME
ENTRY as reading everything, and `add_extra_citations` reports the same dangling references
(those of the appended parents included) — under the strong ordering proviso. -/
theorem filtered_entries (file : List (Str × Entry)) (hf : ∀ p ∈ file, EntryWF p.2)
    (cits : List Str) (m : Int) (hprov : provisoStrong (file.map rawToS) cits = true) :
    ∃ U repU F repF, BibData.readFile none file = some (U, repU) ∧
      BibData.readFile (some cits) file = some (F, repF) ∧
      (F.addExtraCitations cits m).1.map lower = (U.addExtraCitations cits m).1.map lower ∧
      (F.addExtraCitations cits m).2.map Report.lower = (U.addExtraCitations cits m).2.map Report.lower ∧
      ∀ k ∈ (U.addExtraCitations cits m).1,
        (F.entries.getItem k).map Entry.content = (U.entries.getItem k).map Entry.content := by
  unfold provisoStrong at hprov
  rw [Bool.and_eq_true] at hprov
  obtain ⟨hweak, hstrong⟩ := hprov
  obtain ⟨U, repU, F, repF, hU, hF, hUwf, hFwf, hres1, hres2⟩ := filtered_core file hf cits m hweak
  refine ⟨U, repU, F, repF, hU, hF, ?_⟩
  have hUc : ∀ k, (U.entries.getItem k).map Entry.content = (firstOcc file k).map (·.2.content) := by
    intro k
    have := read_wanted_content file hf (RInv.init none) hU k (init_want_none k)
    rw [init_getItem] at this
    exact this
  have hFc : ∀ k, (BibData.init (some cits)).wantEntry k = true →
      (F.entries.getItem k).map Entry.content = (firstOcc file k).map (·.2.content) := by
    intro k hk
    have := read_wanted_content file hf (RInv.init (some cits)) hF k hk
    rw [init_getItem] at this
    exact this
  have hUget : ∀ k, (U.entries.getItem k).map (·.fields) = (firstOcc file k).map (·.2.fields) := by
    intro k
    have := read_wanted file hf (RInv.init none) hU k (init_want_none k)
    rw [init_getItem] at this
    exact this
  have hhasU : ∀ x, hasEntry U.toS x = (firstOcc file x).isSome := by
    intro x; rw [has_toS hUwf, (bind_of_map_fields (hUget x)).2]
  have hxref : ∀ k, (F.entries.getItem k).map Entry.content = (U.entries.getItem k).map Entry.content →
      xrefOf F.toS k = xrefOf U.toS k := by
    intro k hk
    rw [xrefOf_toS hFwf, xrefOf_toS hUwf]
    have := content_fields hk
    cases hFk : F.entries.getItem k with
    | none =>
      rw [hFk] at this
      cases hUk : U.entries.getItem k with
      | none => rfl
      | some _ => rw [hUk] at this; cases this
    | some a =>
      rw [hFk] at this
      cases hUk : U.entries.getItem k with
      | none => rw [hUk] at this; cases this
      | some b =>
        rw [hUk] at this
        simp only [Option.map_some, Option.some.injEq] at this
        simp [this]
  -- the cited part and the appended part of the two resolved lists
  have hL : (expanded F.toS cits).map lower = (expanded U.toS cits).map lower := by
    have h1 := hres1
    unfold resolved at h1
    rw [List.map_append, List.map_append] at h1
    by_cases hstar : cited cits Pybtex.star = true
    · have hall : ∀ k, (BibData.init (some cits)).wantEntry k = true := by
        intro k; rw [init_want_some, hstar]; simp
      apply dedupFrom_lower_congr _ _ [] [] _ (fun _ => rfl)
      apply substStar_lower_congr
      rw [keys_lower_toS hFwf, keys_lower_toS hUwf,
        read_keys file hf (RInv.init (some cits)) hF hall,
        read_keys file hf (RInv.init none) hU init_want_none]
      rfl
    · have hnostar : Spec.star ∉ cits := by
        intro hm
        apply hstar
        exact List.any_eq_true.2 ⟨_, hm, keq_refl _⟩
      unfold expanded
      rw [substStar_noStar hnostar, substStar_noStar hnostar]
  have hX : (extra F.toS (expanded F.toS cits) m).map lower = (extra U.toS (expanded U.toS cits) m).map lower := by
    have h1 := hres1
    unfold resolved at h1
    rw [List.map_append, List.map_append] at h1
    exact (List.append_inj h1 (by rw [hL])).2
  -- what holds for every key of the unfiltered resolved list
  have hmain : (∀ k ∈ expanded U.toS cits,
        (F.entries.getItem k).map Entry.content = (U.entries.getItem k).map Entry.content) ∧
      (∀ k ∈ extra U.toS (expanded U.toS cits) m,
        (F.entries.getItem k).map Entry.content = (U.entries.getItem k).map Entry.content ∧ ViewEq F.toS U.toS k) := by
    by_cases hstar : cited cits Pybtex.star = true
    · -- a wildcard: every entry is wanted
      have hall : ∀ k, (BibData.init (some cits)).wantEntry k = true := by
        intro k; rw [init_want_some, hstar]; simp
      have hc : ∀ k, (F.entries.getItem k).map Entry.content = (U.entries.getItem k).map Entry.content := by
        intro k; rw [hFc k (hall k), hUc k]
      refine ⟨fun k _ => hc k, fun k _ => ⟨hc k, hxref k (hc k), ?_⟩⟩
      intro x _
      rw [has_toS hFwf, has_toS hUwf]
      exact content_isSome (hc x)
    · have hnostar : Spec.star ∉ cits := by
        intro hm
        apply hstar
        exact List.any_eq_true.2 ⟨_, hm, keq_refl _⟩
      have hcont : cits.contains Spec.star = false := by
        rw [Bool.eq_false_iff]; intro h'; exact hnostar (by simpa using h')
      rw [hcont, Bool.false_or, List.all_eq_true] at hstrong
      have hexp : expanded U.toS cits = dedupCI cits := by unfold expanded; rw [substStar_noStar hnostar]
      constructor
      · intro k hk
        rw [hexp] at hk
        have hkc : cited cits k = true := List.any_eq_true.2 ⟨k, (mem_dedupFrom hk).1, keq_refl _⟩
        have hwk : (BibData.init (some cits)).wantEntry k = true := by rw [init_want_some, hkc]; rfl
        rw [hFc k hwk, hUc k]
      · intro k hk
        obtain ⟨hnc, -, -, c, hc, P, hP, hPk⟩ := mem_extraFrom hk
        rw [hexp] at hc hnc
        have hcc : c ∈ cits := (mem_dedupFrom hc).1
        -- the parent `P` of `c` in the unfiltered database
        rw [parentOf_eq] at hP
        cases hxc : xrefOf U.toS c with
        | none => rw [hxc] at hP; cases hP
        | some x =>
          rw [hxc] at hP
          simp only [Option.bind_some] at hP
          have hlk : lower k = lower x := by rw [← hPk]; exact find_key hP
          have hUx : hasEntry U.toS x = true := by unfold hasEntry; rw [hP]; rfl
          rw [xrefOf_toS hUwf, (bind_of_map_fields (hUget c)).1] at hxc
          cases hfo : firstOcc file c with
          | none => rw [hfo] at hxc; cases hxc
          | some p =>
            rw [hfo] at hxc
            simp only [Option.bind_some] at hxc
            have hpw : EntryWF p.2 := hf p (List.mem_of_find?_eq_some hfo)
            have hs := hstrong c hcc
            rw [find_map_rawToS, hfo] at hs
            simp only [Option.map_some] at hs
            rw [rawToS_crossref hpw, hxc] at hs
            simp only [Bool.or_eq_true, Bool.not_eq_true', any_map_rawToS] at hs
            -- `x` is not cited (it was appended)
            have hxnc : cited cits x = false := by
              rw [Bool.eq_false_iff]
              intro hx
              obtain ⟨c1, hc1, hk1⟩ := List.any_eq_true.1 hx
              rcases dedupFrom_complete [] cits hc1 with h' | h'
              · simp at h'
              · have : cited (dedupCI cits) k = true := by
                  obtain ⟨y, hy, hcy⟩ := List.any_eq_true.1 h'
                  refine List.any_eq_true.2 ⟨y, hy, ?_⟩
                  rw [keq_iff] at hk1 hcy ⊢
                  rw [hlk, hk1, hcy]
                rw [this] at hnc; cases hnc
            rcases hs with (h' | h') | h'
            · rw [hxnc] at h'; cases h'
            · rw [hhasU, h'] at hUx; cases hUx
            · obtain ⟨f1, e, f2, hsplit, hfirst, -, hce, ⟨y, hy, hyx⟩, hnox, hok⟩ := firstLater_split h'
              obtain ⟨g1, rest, hg, hg1, hrest⟩ := List.map_eq_append_iff.1 hsplit
              obtain ⟨q, g2, hq, hqe, hg2⟩ := List.map_eq_cons_iff.1 hrest
              subst hg1 hqe hg2 hq
              have hqw : EntryWF q.2 := hf q (by rw [hg]; simp)
              have hf2 : ∀ r ∈ g2, EntryWF r.2 := fun r hr => hf r (by rw [hg]; simp [hr])
              obtain ⟨db, r2, hdb, hrd, hwy, hhas⟩ := read_child hf (RInv.init (some cits)) hF hg
                (fun r hr => hfirst (rawToS r) (List.mem_map.2 ⟨r, hr, rfl⟩))
                (init_getItem _ _)
                (by rw [init_want_some]; rw [show cited cits q.1 = true from hce]; rfl)
                (by rw [← rawToS_crossref hqw]; exact hy)
              have hwx : db.wantEntry x = true := by
                rw [← wantEntry_congr db ((keq_iff _ _).1 hyx)]; exact hwy
              have hpre : firstOcc (g1 ++ [q]) x = none := by
                simp only [firstOcc, List.find?_eq_none]
                intro r hr
                have : rawToS r ∈ g1.map rawToS ++ [rawToS q] := by
                  rw [← List.map_singleton, ← List.map_append]
                  exact List.mem_map.2 ⟨r, hr, rfl⟩
                have h0 : keq r.1 x = false := hnox _ this
                simp [h0]
              have hdbx : db.entries.getItem x = none := by
                cases hgx : db.entries.getItem x with
                | none => rfl
                | some _ =>
                  rcases hhas x (by simp [hgx]) with h'' | h''
                  · rw [init_getItem] at h''; cases h''
                  · rw [hpre] at h''; cases h''
              have hFx := read_wanted_content g2 hf2 hdb hrd x hwx
              rw [hdbx] at hFx
              dsimp only at hFx
              have hfile : firstOcc file x = firstOcc g2 x := by
                rw [hg, show g1 ++ q :: g2 = (g1 ++ [q]) ++ g2 by simp]
                exact firstOcc_append_none hpre
              have hcx : (F.entries.getItem x).map Entry.content = (U.entries.getItem x).map Entry.content := by
                rw [hFx, hUc x, hfile]
              have hck : (F.entries.getItem k).map Entry.content = (U.entries.getItem k).map Entry.content := by
                rw [getItem_lower_congr _ hlk, getItem_lower_congr _ hlk]; exact hcx
              refine ⟨hck, ViewEq_congr hlk.symm ⟨hxref x hcx, ?_⟩⟩
              -- the parent's own cross-reference
              intro y' hy'
              rw [has_toS hFwf, hhasU]
              obtain ⟨h1, px, h2, hsp2, hh1, hpx, hcond⟩ := parentOk_split hok
              obtain ⟨i1, rest2, hi, hi1, hrest2⟩ := List.map_eq_append_iff.1 hsp2
              obtain ⟨pxm, i2, hpxm, hpxe, hi2⟩ := List.map_eq_cons_iff.1 hrest2
              subst hi1 hpxe hi2 hpxm
              have hpxw : EntryWF pxm.2 := hf2 pxm (by rw [hi]; simp)
              have hfo2 : firstOcc g2 x = some pxm := by
                rw [hi]
                unfold firstOcc
                rw [List.find?_append]
                have : List.find? (fun p => keq p.1 x) i1 = none := by
                  rw [List.find?_eq_none]
                  intro r hr
                  have h0 : keq r.1 x = false := hh1 (rawToS r) (List.mem_map.2 ⟨r, hr, rfl⟩)
                  simp [h0]
                rw [this]
                have hpx' : keq pxm.1 x = true := hpx
                simp [List.find?_cons, hpx']
              -- `y'` is the cross-reference of the stored entry
              have hy'' : pxm.2.fields.getItem Pybtex.xrefName = some y' := by
                rw [xrefOf_toS hFwf] at hy'
                have hb := (bind_of_map_fields (o := F.entries.getItem x) (o' := firstOcc g2 x)
                  (by have := content_fields (o := F.entries.getItem x) (o' := (firstOcc g2 x).map (·.2))
                        (by rw [hFx]; simp [Option.map_map, Function.comp_def])
                      simpa [Option.map_map, Function.comp_def] using this)).1
                rw [hb, hfo2] at hy'
                exact hy'
              have hlpx : lower pxm.1 = lower x := (keq_iff _ _).1 hpx
              rcases hcond y' (by rw [rawToS_crossref hpxw]; exact hy'') with hc1 | hc1 | hc1 | hc1
              · -- the parent refers to itself
                have hl : lower y' = lower x := (keq_iff _ _).1 hc1
                rw [getItem_lower_congr _ hl, firstOcc_congr file hl, content_isSome hcx, ← has_toS hUwf, hhasU]
              · have hwy' : (BibData.init (some cits)).wantEntry y' = true := by rw [init_want_some, hc1]; rfl
                rw [content_isSome (hFc y' hwy')]
              · rw [any_map_rawToS] at hc1
                rw [hc1]
                cases hFy : F.entries.getItem y' with
                | none => rfl
                | some _ =>
                  rcases read_has file hf (RInv.init (some cits)) hF y' (by simp [hFy]) with h'' | h''
                  · rw [init_getItem] at h''; cases h''
                  · rw [hc1] at h''; cases h''
              · have hocc : (firstOcc i2 y').isSome = true := by rw [← any_map_rawToS]; exact hc1
                have := read_later hf2 hdb hrd hi
                  (fun r hr => keq_false_of_lower (by
                      have := hh1 (rawToS r) (List.mem_map.2 ⟨r, hr, rfl⟩); exact this) hlpx)
                  (by rw [getItem_lower_congr _ hlpx]; exact hdbx)
                  (by rw [wantEntry_congr db hlpx]; exact hwx)
                  hy'' (keq_refl y') hocc
                rw [this]
                symm
                rw [hg, hi]
                have : ∀ a b : List (Str × Entry), (firstOcc b y').isSome = true → (firstOcc (a ++ b) y').isSome = true := by
                  intro a b hb
                  unfold firstOcc at *
                  rw [List.find?_append]
                  cases List.find? (fun p => keq p.1 y') a with
                  | some _ => rfl
                  | none => exact hb
                apply this g1
                have h3 : ∀ (a : Str × Entry) (b : List (Str × Entry)), (firstOcc b y').isSome = true → (firstOcc (a :: b) y').isSome = true := by
                  intro a b hb
                  exact this [a] b hb
                apply h3
                apply this i1
                apply h3
                exact hocc
  obtain ⟨hcited, hextra⟩ := hmain
  rw [addExtra_spec hFwf, addExtra_spec hUwf]
  refine ⟨hres1, ?_, ?_⟩
  · simp only [report_lower_map]
    congr 1
    unfold resolved
    rw [dangling_append, dangling_append, List.map_append, List.map_append, hres2]
    congr 1
    rw [dangling_lower F.toS, dangling_lower U.toS, hX]
    congr 1
    apply dangling_congr_db
    intro c hc
    obtain ⟨c0, hc0, rfl⟩ := List.mem_map.1 hc
    exact ViewEq_lower (hextra c0 hc0).2
  · intro k hk
    unfold resolved at hk
    rcases List.mem_append.1 hk with hk | hk
    · exact hcited k hk
    · exact (hextra k hk).1

end Pybtex
